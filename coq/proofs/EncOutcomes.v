(* EncOutcomes.v — C09, last stage, assembled: once the reader and kekulize have returned, encoder() under a table with a
   '?' entry returns or raises EncoderError (the strict check) - nothing else.  No IndexError, KeyError, AttributeError,
   AssertionError, no ValueError (EncOrders.v: kekulize leaves no bond of order 1.5), and the walk's fuel is never
   exhausted. *)
From Coq Require Import Ascii String List Arith ZArith NArith Bool Lia.
Import ListNotations.
From Selfies Require Import Base Generated Lex Atoms Grammar Decoder Smiles PySet Matching Kekulize Encoder BaseFacts
  EncHyp EncShape EncTokens EncRows EncFuel EncIndex EncKey EncAttrErr EncUniq EncOrders.
Local Open Scope nat_scope.

(* the internal errors the model can name (EncoderError itself is raised by the strict check only) *)
Definition univ (e : exn) : Prop := In e [AssertionError; ValueError; IndexError; KeyError; AttributeError; OutOfFuel].
Ltac cls := intro H; inversion H; subst; unfold univ; cbn; tauto.

Lemma lget_u {A} (l : list A) i e : lget l i = Err e -> univ e.
Proof. unfold lget. destruct (nth_error l i); [discriminate|cls]. Qed.
Lemma ebond_u b e : ebond_to_smiles b = Err e -> univ e.
Proof. unfold ebond_to_smiles. repeat destruct (_ =? _)%Z; try discriminate. cls. Qed.
Lemma bond_sel_u b sh e : bond_to_selfies b sh = Err e -> univ e.
Proof. unfold bond_to_selfies. destruct (_ && _); [discriminate|apply ebond_u]. Qed.
Lemma atom_smiles_u a br e : atom_to_smiles a br = Err e -> univ e.
Proof. unfold atom_to_smiles. destruct (a_aromatic a); [cls|]. destruct (a_isotope a), (a_chirality a), (a_hcount a), (a_charge a =? 0)%Z; discriminate. Qed.
Lemma atom_sel_u b a e : atom_to_selfies b a = Err e -> univ e.
Proof.
  unfold atom_to_selfies. destruct (a_aromatic a); [cls|]. destruct b as [b0|]; cbn [bind].
  - destruct (bond_to_selfies b0 true) as [bc|e1] eqn:Eb; cbn [bind]; [|intro H; inversion H; subst; exact (bond_sel_u _ _ _ Eb)].
    destruct (atom_to_smiles a false) as [t|e2] eqn:Ea; cbn [bind]; [discriminate|intro H; inversion H; subst; exact (atom_smiles_u _ _ _ Ea)].
  - destruct (atom_to_smiles a false) as [t|e2] eqn:Ea; cbn [bind]; [discriminate|intro H; inversion H; subst; exact (atom_smiles_u _ _ _ Ea)].
Qed.
Lemma all_some_u l e : Encoder.all_some l = Err e -> univ e.
Proof.
  induction l as [|[b|] r IH]; cbn [Encoder.all_some]; [discriminate| |cls].
  destruct (Encoder.all_some r) as [t|e1]; cbn [bind]; [discriminate|]. intro H; inversion H; subst. now apply IH.
Qed.
Lemma dirbond_u m s d e : mg_get_dirbond m s d = Err e -> univ e.
Proof. unfold mg_get_dirbond. destruct (mg_find_dirbond m s d); [discriminate|cls]. Qed.
Lemma syms_u : forall ds e, syms_of_digits ds = Err e -> univ e.
Proof.
  induction ds as [|d r IH]; intros e; cbn [syms_of_digits]; [discriminate|].
  destruct (nth_error index_alphabet (N.to_nat d)); [|cls].
  destruct (syms_of_digits r) as [t|e1] eqn:E1; cbn [bind]; [discriminate|]. intro H; inversion H; subst. exact (IH _ eq_refl).
Qed.
Lemma index_u idx e : get_selfies_from_index idx = Err e -> univ e.
Proof. unfold get_selfies_from_index. destruct (idx <? 0)%Z; [cls|]. destruct index_alphabet; [cls|]. destruct (_ =? _)%N; [discriminate|apply syms_u]. Qed.
Lemma ring_sel_u lb rb e : ring_bonds_to_selfies lb rb = Err e -> univ e.
Proof. unfold ring_bonds_to_selfies. destruct (negb (_ =? _)%Z); [cls|]. destruct (_ || _); [apply bond_sel_u|discriminate]. Qed.

Lemma out_loop_u m (walk : ebond -> nat -> nat -> res (list str * list amap)) :
  (forall b ai o e, walk b ai o = Err e -> univ e) -> forall bonds aidx off e, out_loop m walk bonds aidx off = Err e -> univ e.
Proof.
  intro Hw. induction bonds as [|b rest IH]; intros aidx off e E; cbn [out_loop] in E; [discriminate|].
  destruct (e_ring b).
  - destruct (e_src b <? e_dst b); [exact (IH _ _ _ E)|].
    destruct (mg_get_dirbond m (e_dst b) (e_src b)) as [rv|e1] eqn:Erv; cbn [bind] in E; [|inversion E; subst; exact (dirbond_u _ _ _ _ Erv)].
    destruct (get_selfies_from_index _) as [Q|e1] eqn:EQ; cbn [bind] in E; [|inversion E; subst; exact (index_u _ _ EQ)].
    destruct (ring_bonds_to_selfies rv b) as [rs|e1] eqn:Er; cbn [bind] in E; [|inversion E; subst; exact (ring_sel_u _ _ _ Er)].
    match type of E with (do _ <- ?X; _) = _ => destruct X as [[ts1 ms1]|e1] eqn:E1 end; cbn [bind] in E; [discriminate|].
    inversion E; subst. exact (IH _ _ _ E1).
  - destruct rest as [|b2 rest2]; [exact (Hw _ _ _ _ E)|].
    destruct (walk b off 0) as [[branch bmaps]|e1] eqn:Eb; cbn [bind] in E; [|inversion E; subst; exact (Hw _ _ _ _ Eb)].
    destruct (get_selfies_from_index _) as [Q|e1] eqn:EQ; cbn [bind] in E; [|inversion E; subst; exact (index_u _ _ EQ)].
    destruct (bond_to_selfies b false) as [bs|e1] eqn:Ebs; cbn [bind] in E; [|inversion E; subst; exact (bond_sel_u _ _ _ Ebs)].
    match type of E with (do _ <- ?X; _) = _ => destruct X as [[ts1 ms1]|e1] eqn:E1 end; cbn [bind] in E; [discriminate|].
    inversion E; subst. exact (IH _ _ _ E1).
Qed.

Lemma walk_u m : forall fuel b curr aidx off e, fragment_walk fuel m b curr aidx off = Err e -> univ e.
Proof.
  induction fuel as [|f IH]; intros b curr aidx off e E; [revert E; cls|]. cbn [fragment_walk] in E.
  destruct (mg_get_atom m curr) as [[a at_]|e1] eqn:Ea; cbn [bind fst snd] in E; [|inversion E; subst; exact (lget_u _ _ _ Ea)].
  destruct (atom_to_selfies b a) as [tok|e1] eqn:Et; cbn [bind fst] in E; [|inversion E; subst; exact (atom_sel_u _ _ _ Et)].
  destruct (mg_get_out_dirbonds m curr) as [raw|e1] eqn:Eraw; cbn [bind] in E; [|inversion E; subst; exact (lget_u _ _ _ Eraw)].
  destruct (Encoder.all_some raw) as [bonds|e1] eqn:Eall; cbn [bind] in E; [|inversion E; subst; exact (all_some_u _ _ Eall)].
  match type of E with (do _ <- ?X; _) = _ => destruct X as [[ts1 ms1]|e1] eqn:E1 end; cbn [bind] in E; [discriminate|].
  inversion E; subst e1; clear E. exact (out_loop_u m _ (fun b0 ai o e0 H => IH _ _ _ _ _ H) _ _ _ _ E1).
Qed.

Lemma encode_roots_u m : forall roots aidx e, encode_roots m roots aidx = Err e -> univ e.
Proof.
  induction roots as [|r rest IH]; intros aidx e E; cbn [encode_roots] in E; [discriminate|].
  destruct (fragment_to_selfies m r aidx) as [[derived mp]|e1] eqn:Ef; cbn [bind] in E.
  - destruct (encode_roots m rest _) as [[frags' maps']|e1] eqn:Er; cbn [bind] in E; [discriminate|]. inversion E; subst. exact (IH _ _ Er).
  - inversion E; subst. unfold fragment_to_selfies in Ef. exact (walk_u _ _ _ _ _ _ _ Ef).
Qed.

Lemma partition_u : forall bonds i e, partition_bonds bonds i = Err e -> univ e.
Proof.
  induction bonds as [|[b|] r IH]; intros i e E; cbn [partition_bonds] in E; [discriminate| |revert E; cls].
  destruct (partition_bonds r (S i)) as [[[p0 p1] p2]|e1] eqn:Ep; cbn [bind] in E; [|inversion E; subst; exact (IH _ _ Ep)].
  destruct (negb (e_ring b)); [discriminate|]. destruct (_ <? _); discriminate.
Qed.

Lemma invert_pass_u m : forall atoms idx e, invert_pass m atoms idx = Err e -> univ e.
Proof.
  induction atoms as [|[a at_] r IH]; intros idx e E; cbn [invert_pass] in E; [discriminate|].
  match type of E with (do a' <- ?X; _) = _ => destruct X as [a'|e1] eqn:Ea end; cbn [bind] in E.
  - destruct (invert_pass m r (S idx)) as [rest|e1] eqn:Er; cbn [bind] in E; [discriminate|inversion E; subst; exact (IH _ _ Er)].
  - inversion E; subst e1; clear E. destruct (a_chirality a); [|discriminate].
    destruct (mg_has_out_ring_bond m idx) as [flag|e1] eqn:Ef; cbn [bind] in Ea; [|inversion Ea; subst; exact (lget_u _ _ _ Ef)].
    destruct flag; [|discriminate].
    destruct (should_invert_chirality m idx) as [inv|e1] eqn:Es; cbn [bind] in Ea; [discriminate|]. inversion Ea; subst e1.
    unfold should_invert_chirality in Es. destruct (mg_get_out_dirbonds m idx) as [ob|e2] eqn:Eo; cbn [bind] in Es; [|inversion Es; subst; exact (lget_u _ _ _ Eo)].
    destruct (partition_bonds ob 0) as [[[p0 p1] p2]|e2] eqn:Ep; cbn [bind] in Es; [discriminate|inversion Es; subst; exact (partition_u _ _ _ Ep)].
Qed.

Lemma capacity_u T el c e : get_bonding_capacity T el c = Err e -> univ e.
Proof. unfold get_bonding_capacity. destruct (assoc _ T); [discriminate|]. destruct (assoc _ T); [discriminate|cls]. Qed.

Lemma constraint_errors_u T m : forall atoms idx e, bond_constraint_errors (get_bonding_capacity T) m atoms idx = Err e -> univ e.
Proof.
  induction atoms as [|[a at_] r IH]; intros idx e E; cbn [bond_constraint_errors] in E; [discriminate|].
  unfold bonding_capacity_c in E. destruct (get_bonding_capacity T (a_element a) (a_charge a)) as [c|e1] eqn:Ec; cbn [bind] in E; [|inversion E; subst; exact (capacity_u _ _ _ _ Ec)].
  destruct (mg_get_bond_count2 m idx) as [c2|e1] eqn:Eb; cbn [bind] in E; [|inversion E; subst; exact (lget_u _ _ _ Eb)].
  destruct (_ <? _)%Z; [|exact (IH _ _ E)].
  destruct (atom_to_smiles a true) as [x|e1] eqn:Ea; cbn [bind] in E; [|inversion E; subst; exact (atom_smiles_u _ _ _ Ea)].
  destruct (bond_constraint_errors _ m r (S idx)) as [x2|e1] eqn:Er; cbn [bind] in E; [discriminate|inversion E; subst; exact (IH _ _ Er)].
Qed.

(* after reader + kekulize: an error of encoder() is EncoderError from the strict check, or one of the internal errors *)
Lemma encoder_error_sources T smiles strict attribute m0 m1 e :
  smiles_to_mol smiles attribute = Ok m0 -> kekulize m0 = Ok (Some m1) ->
  encoder T smiles strict attribute = Err e ->
  (e = EncoderError /\ strict = true /\ check_bond_constraints (get_bonding_capacity T) m1 = Err EncoderError) \/ univ e.
Proof.
  intros Ep Ek E. unfold encoder, encoder_c in E. rewrite Ep in E. unfold encode_mol in E. rewrite Ek in E. cbn [bind] in E.
  match type of E with (do _ <- ?X; _) = _ => destruct X as [u|e1] eqn:Ec end; cbn [bind] in E.
  - right. destruct (invert_pass m1 (m_atoms m1) 0) as [atoms'|e1] eqn:Ei; cbn [bind] in E; [|inversion E; subst; exact (invert_pass_u _ _ _ _ Ei)].
    destruct (encode_roots (set_atoms m1 atoms') _ 0) as [[frags maps]|e1] eqn:Er; cbn [bind] in E; [discriminate|].
    inversion E; subst. exact (encode_roots_u _ _ _ _ Er).
  - inversion E; subst e1; clear E. destruct strict; [|discriminate]. pose proof Ec as Ec0. unfold check_bond_constraints in Ec.
    destruct (bond_constraint_errors _ m1 (m_atoms m1) 0) as [bad|e1] eqn:Eb; cbn [bind] in Ec.
    + destruct bad; [inversion Ec; subst; left; auto|discriminate].
    + inversion Ec; subst. right. exact (constraint_errors_u T m1 _ _ _ Eb).
Qed.

Theorem encoder_after_kekulize_outcomes T smiles strict attribute m0 m1 e :
  (exists v, assoc (lit "?") T = Some v) ->
  smiles_to_mol smiles attribute = Ok m0 -> kekulize m0 = Ok (Some m1) ->
  encoder T smiles strict attribute = Err e -> e = EncoderError.
Proof.
  intros Hq Ep Ek E.
  pose proof (encoder_after_kekulize_no_assertion_error T smiles strict attribute m0 m1 e Ep Ek E) as N5.
  pose proof (encoder_after_kekulize_no_fuel T smiles strict attribute m0 m1 e Ep Ek E) as N1.
  pose proof (encoder_after_kekulize_no_index_error T smiles strict attribute m0 m1 e Ep Ek E) as N2.
  pose proof (encoder_after_kekulize_no_key_error T smiles strict attribute m0 m1 e Hq Ep Ek E) as N3.
  pose proof (encoder_after_kekulize_no_attribute_error T smiles strict attribute m0 m1 e Ep Ek E) as N4.
  pose proof (encoder_after_kekulize_no_value_error T smiles strict attribute m0 m1 e Ep Ek E) as N6.
  destruct (encoder_error_sources T smiles strict attribute m0 m1 e Ep Ek E) as [[H _]|U]; [exact H|].
  unfold univ in U. cbn [In] in U. unfold nofuel in N1. unfold noidx in N2. unfold nokey in N3. unfold noattr in N4. unfold noassert in N5. unfold novalue in N6.
  destruct U as [<-|[<-|[<-|[<-|[<-|[<-|[]]]]]]]; contradiction.
Qed.

(* hence, on a parseable and kekulisable input, encoder() fails exactly when the strict check does *)
Theorem encoder_fails_iff_strict_check T smiles strict attribute m0 m1 :
  (exists v, assoc (lit "?") T = Some v) ->
  smiles_to_mol smiles attribute = Ok m0 -> kekulize m0 = Ok (Some m1) ->
  ((exists r, encoder T smiles strict attribute = Ok r) \/ encoder T smiles strict attribute = Err EncoderError) /\
  (encoder T smiles strict attribute = Err EncoderError <->
   strict = true /\ check_bond_constraints (get_bonding_capacity T) m1 = Err EncoderError).
Proof.
  intros Hq Ep Ek. split.
  - destruct (encoder T smiles strict attribute) as [r|e] eqn:E; [left; eauto|right]. now rewrite (encoder_after_kekulize_outcomes T smiles strict attribute m0 m1 e Hq Ep Ek E).
  - split.
    + intro E. destruct (encoder_error_sources T smiles strict attribute m0 m1 _ Ep Ek E) as [[_ H]|U]; [exact H|].
      unfold univ in U. cbn [In] in U. destruct U as [U|[U|[U|[U|[U|[U|[]]]]]]]; discriminate.
    + intros [-> Hc]. unfold encoder, encoder_c. rewrite Ep. unfold encode_mol. rewrite Ek. cbn [bind]. rewrite Hc. reflexivity.
Qed.
