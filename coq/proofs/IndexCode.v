(* IndexCode.v — C16: the index symbols are a base-16 positional code. *)
From Coq Require Import Ascii String List Arith ZArith NArith Bool Lia.
Import ListNotations.
From Selfies Require Import Base Generated Grammar BaseFacts IndexSpec.

Lemma index_alphabet_documented : index_alphabet = documented_index_alphabet.
Proof. vm_compute. reflexivity. Qed.

Lemma index_code_is_enumeration :
  index_code = combine index_alphabet (map N.of_nat (seq 0 (length index_alphabet))).
Proof. vm_compute. reflexivity. Qed.

Lemma bases : index_base = 16%N /\ alphabet_base = 16%N.
Proof. split; vm_compute; reflexivity. Qed.

Lemma assoc_enum : forall (l : list str) k s,
  assoc s (combine l (map N.of_nat (seq k (length l)))) = option_map N.of_nat (index_of s l k).
Proof.
  induction l as [|x l IH]; intros k s; cbn; [reflexivity|].
  destruct (str_eqb s x); [reflexivity|apply IH].
Qed.

Lemma index_digit_doc : forall c, index_digit c = doc_digit c.
Proof.
  intros [s|]; [|reflexivity]. unfold index_digit, doc_digit.
  rewrite index_code_is_enumeration, assoc_enum, index_alphabet_documented.
  destruct (index_of s documented_index_alphabet 0); reflexivity.
Qed.

Lemma index_of_lt : forall (l : list str) s k i, index_of s l k = Some i -> (k <= i < k + length l)%nat.
Proof.
  induction l as [|x l IH]; intros s k i; cbn; [discriminate|].
  destruct (str_eqb s x); intro H.
  - inversion H; lia.
  - apply IH in H. lia.
Qed.

Lemma doc_digit_lt : forall c, (doc_digit c < 16)%N.
Proof.
  intros [s|]; unfold doc_digit; [|lia].
  destruct (index_of s documented_index_alphabet 0) eqn:E; [|lia].
  apply index_of_lt in E.
  assert (L : length documented_index_alphabet = 16%nat) by reflexivity.
  rewrite L in E. lia.
Qed.

Lemma index_of_notin : forall (l : list str) s k, ~ In s l -> index_of s l k = None.
Proof.
  induction l as [|x l IH]; intros s k H; cbn; [reflexivity|].
  destruct (str_eqb s x) eqn:E.
  - apply str_eqb_eq in E. subst. cbn in H. tauto.
  - apply IH. cbn in H. tauto.
Qed.

Lemma doc_digit_other : forall s, ~ In s documented_index_alphabet -> doc_digit (Some s) = 0%N.
Proof. intros s H. unfold doc_digit. now rewrite index_of_notin. Qed.

(* little-endian value, as the code's loop over reversed(symbols) computes it *)
Lemma index_sum_spec : forall l i,
  index_sum l i = (16 ^ i * fold_right (fun c acc => doc_digit c + 16 * acc) 0 l)%N.
Proof.
  induction l as [|c l IH]; intro i; cbn [index_sum fold_right]; [lia|].
  rewrite IH, index_digit_doc. destruct bases as [-> _].
  rewrite N.pow_add_r, N.pow_1_r. lia.
Qed.

Lemma doc_value_app : forall a b,
  doc_value (a ++ b) = (doc_value a * 16 ^ N.of_nat (length b) + doc_value b)%N.
Proof.
  induction a as [|d a IH]; intro b; cbn [app doc_value]; [lia|].
  rewrite IH, app_length, Nat2N.inj_add, N.pow_add_r. lia.
Qed.

Lemma le_value_rev : forall l : list (option str),
  fold_right (fun c acc => doc_digit c + 16 * acc)%N 0%N (rev l) = doc_value (map doc_digit l).
Proof.
  induction l as [|c l IH]; [reflexivity|].
  cbn [rev map doc_value]. rewrite fold_right_app. cbn [fold_right].
  rewrite map_length.
  (* fold over (rev l) with start (digit c) *)
  assert (G : forall (r : list (option str)) a,
    fold_right (fun c acc => doc_digit c + 16 * acc)%N a r =
    (fold_right (fun c acc => doc_digit c + 16 * acc) 0 r + a * 16 ^ N.of_nat (length r))%N).
  { induction r as [|x r IHr]; intro a; cbn [fold_right length]; [rewrite N.pow_0_r; lia|].
    rewrite IHr, Nat2N.inj_succ, N.pow_succ_r'. lia. }
  rewrite G, IH, rev_length. lia.
Qed.

Theorem get_index_is_base16 : forall syms,
  get_index_from_selfies syms = doc_value (map doc_digit syms).
Proof.
  intro syms. unfold get_index_from_selfies. rewrite index_sum_spec, N.pow_0_r, N.mul_1_l.
  apply le_value_rev.
Qed.

Lemma horner_doc_value : forall ds, horner 16 ds = doc_value ds.
Proof.
  intro ds. rewrite horner_unfold.
  assert (G : forall ds a, fold_left (hstep 16) ds a = (a * 16 ^ N.of_nat (length ds) + doc_value ds)%N).
  { induction ds0 as [|d r IH]; intro a; cbn [fold_left doc_value length]; [rewrite N.pow_0_r; lia|].
    rewrite IH. unfold hstep. rewrite Nat2N.inj_succ, N.pow_succ_r'. lia. }
  rewrite G. lia.
Qed.

Lemma nth_alphabet_digit : forall d, (d < 16)%N ->
  exists s, nth_error index_alphabet (N.to_nat d) = Some s /\ doc_digit (Some s) = d /\ In s index_alphabet.
Proof.
  intros d H.
  assert (K : forallb (fun d => match nth_error index_alphabet (N.to_nat d) with
                                | Some s => N.eqb (doc_digit (Some s)) d | None => false end)
                      (map N.of_nat (seq 0 16)) = true) by (vm_compute; reflexivity).
  rewrite forallb_forall in K. specialize (K d).
  assert (Hin : In d (map N.of_nat (seq 0 16))).
  { apply in_map_iff. exists (N.to_nat d). split; [lia|]. apply in_seq. lia. }
  specialize (K Hin). destruct (nth_error index_alphabet (N.to_nat d)) as [s|] eqn:E; [|discriminate].
  exists s. split; [reflexivity|]. split; [now apply N.eqb_eq|]. eapply nth_error_In; eassumption.
Qed.

Lemma syms_of_digits_ok : forall ds, Forall (fun d => d < 16)%N ds ->
  exists syms, syms_of_digits ds = Ok syms /\ map doc_digit (map Some syms) = ds /\
               Forall (fun s => In s index_alphabet) syms.
Proof.
  induction ds as [|d r IH]; intro H; [exists []; cbn; auto|].
  inversion H as [|? ? Hd Hr]; subst. destruct (IH Hr) as (t & Ht & Hm & Hin).
  destruct (nth_alphabet_digit d Hd) as (s & Hs & Hv & Hi).
  exists (s :: t). cbn [syms_of_digits]. rewrite Hs, Ht. cbn [bind map].
  split; [reflexivity|split; [f_equal; [exact Hv|exact Hm]|now constructor]].
Qed.

(* encoder side: for every n the symbols returned carry n, are the shortest, etc. *)
Theorem from_index_spec : forall n : N,
  exists syms, get_selfies_from_index (Z.of_N n) = Ok syms /\
    get_index_from_selfies (map Some syms) = n /\
    Forall (fun s => In s index_alphabet) syms /\
    syms <> [] /\
    ((0 < n)%N -> (0 < doc_digit (hd None (map Some syms)))%N) /\
    (n < 16 ^ N.of_nat (length syms))%N /\
    ((0 < n)%N -> (16 ^ N.of_nat (length syms - 1) <= n)%N) /\
    (n = 0%N -> length syms = 1%nat).
Proof.
  intro n.
  assert (Hcase : get_selfies_from_index (Z.of_N n) =
                  if (n =? 0)%N then Ok [lit "[C]"] else syms_of_digits (digits 16 n)).
  { unfold get_selfies_from_index.
    assert (Hneg : (Z.of_N n <? 0)%Z = false) by (apply Z.ltb_ge; lia). rewrite Hneg, N2Z.id.
    destruct bases as [_ ->]. reflexivity. }
  rewrite Hcase. clear Hcase.
  destruct (N.eqb_spec n 0) as [->|Hn].
  - exists [lit "[C]"]. split; [reflexivity|]. split; [vm_compute; reflexivity|].
    split; [constructor; [vm_compute; tauto|constructor]|]. split; [discriminate|].
    split; [lia|]. split; [vm_compute; reflexivity|]. split; [lia|reflexivity].
  - pose proof (digits_range 16 n ltac:(lia)) as Hr.
    destruct (syms_of_digits_ok _ Hr) as (syms & Hs & Hm & Hin).
    destruct (digits_shape 16 n ltac:(lia)) as (Hne & Hhd & Hlt & Hge).
    assert (Hlen : length syms = length (digits 16 n)).
    { rewrite <- Hm, !map_length. reflexivity. }
    exists syms. split; [exact Hs|]. split.
    { rewrite get_index_is_base16, Hm, <- horner_doc_value. apply digits_value. lia. }
    split; [exact Hin|]. split; [intro; subst syms; apply Hne; rewrite <- Hm; reflexivity|].
    split.
    { intro Hp. specialize (Hhd Hp). rewrite <- Hm in Hhd.
      destruct syms; cbn in *; [lia|exact Hhd]. }
    rewrite Hlen. split; [exact Hlt|]. split; [exact Hge|]. intro; contradiction.
Qed.

Theorem from_index_negative : forall z, (z < 0)%Z -> get_selfies_from_index z = Err IndexError.
Proof. intros z H. unfold get_selfies_from_index. apply Z.ltb_lt in H. now rewrite H. Qed.

Theorem index_roundtrip : forall n : N,
  exists syms, get_selfies_from_index (Z.of_N n) = Ok syms /\ get_index_from_selfies (map Some syms) = n.
Proof. intro n. destruct (from_index_spec n) as (syms & H1 & H2 & _). eauto. Qed.

Lemma doc_value_bound : forall ds, Forall (fun d => d < 16)%N ds -> (doc_value ds < 16 ^ N.of_nat (length ds))%N.
Proof.
  induction ds as [|d r IH]; intro H; cbn [doc_value length]; [rewrite N.pow_0_r; lia|].
  inversion H; subst. specialize (IH H3). rewrite Nat2N.inj_succ, N.pow_succ_r'. nia.
Qed.

(* shortest: no non-empty symbol sequence with the same value is shorter *)
Theorem from_index_shortest : forall n syms other,
  get_selfies_from_index (Z.of_N n) = Ok syms -> other <> [] ->
  get_index_from_selfies other = n -> (length syms <= length other)%nat.
Proof.
  intros n syms other Hs Hne Hv.
  destruct (from_index_spec n) as (syms' & Hs' & _ & _ & _ & _ & _ & Hge & H0).
  rewrite Hs in Hs'. inversion Hs'; subst syms'. clear Hs'.
  destruct (N.eqb_spec n 0) as [E|E].
  - rewrite (H0 E). destruct other; [contradiction|cbn; lia].
  - specialize (Hge ltac:(lia)).
    rewrite get_index_is_base16 in Hv.
    pose proof (doc_value_bound (map doc_digit other)) as Hb.
    rewrite map_length in Hb.
    assert (Hf : Forall (fun d => (d < 16)%N) (map doc_digit other)).
    { apply Forall_forall. intros d Hd. apply in_map_iff in Hd as (c & <- & _). apply doc_digit_lt. }
    specialize (Hb Hf). rewrite Hv in Hb.
    assert (Hlt : (16 ^ N.of_nat (length syms - 1) < 16 ^ N.of_nat (length other))%N) by lia.
    apply N.pow_lt_mono_r_iff in Hlt; lia.
Qed.

Theorem three_symbols_iff : forall n syms,
  get_selfies_from_index (Z.of_N n) = Ok syms -> ((length syms <= 3)%nat <-> (n < 4096)%N).
Proof.
  intros n syms Hs.
  destruct (from_index_spec n) as (syms' & Hs' & _ & _ & Hne & _ & Hlt & Hge & H0).
  rewrite Hs in Hs'. inversion Hs'; subst syms'. clear Hs'.
  change 4096%N with (16 ^ 3)%N. split; intro H.
  - eapply N.lt_le_trans; [exact Hlt|]. apply N.pow_le_mono_r; lia.
  - destruct (N.eqb_spec n 0) as [E|E]; [rewrite (H0 E); lia|].
    specialize (Hge ltac:(lia)).
    assert (Hl : (16 ^ N.of_nat (length syms - 1) < 16 ^ 3)%N) by lia.
    apply N.pow_lt_mono_r_iff in Hl; lia.
Qed.

Theorem triple_formula : forall a b c,
  get_index_from_selfies [a; b; c] = (doc_digit a * 256 + doc_digit b * 16 + doc_digit c)%N.
Proof. intros. rewrite get_index_is_base16. cbn [map doc_value length]. cbn. lia. Qed.

Theorem missing_or_foreign_is_zero :
  index_digit None = 0%N /\ forall s, ~ In s index_alphabet -> index_digit (Some s) = 0%N.
Proof.
  split; [reflexivity|]. intros s H. rewrite index_digit_doc. apply doc_digit_other.
  now rewrite <- index_alphabet_documented.
Qed.

(* non-vacuity / sanity *)
Example roundtrip_4095 : get_selfies_from_index 4095 = Ok [lit "[P]"; lit "[P]"; lit "[P]"]
  /\ get_index_from_selfies [Some (lit "[P]"); Some (lit "[P]"); Some (lit "[P]")] = 4095%N.
Proof. split; vm_compute; reflexivity. Qed.
Example foreign_zero : get_index_from_selfies [Some (lit "[Ring1]"); Some (lit "[F]"); None] = 256%N.
Proof. vm_compute. reflexivity. Qed.
