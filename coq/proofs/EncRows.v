(* EncRows.v — C10: two more invariants of the SMILES reader and of kekulize, for the size-based form of the
   decodability theorem: every edge stored in adjacency row j starts at j, and the graph has at most as many atoms
   as the input has characters. *)
From Coq Require Import Ascii String List Arith ZArith NArith Bool Lia.
Import ListNotations.
From Selfies Require Import Base Generated Lex Atoms Grammar Decoder Smiles PySet Matching Kekulize Encoder BaseFacts
  ConfigFacts DecoderInv ParserTotal EncHyp EncShape.
Local Open Scope nat_scope.

Definition rowp (j : nat) (e : ebond) : Prop := e_src e = j /\ (e_ring e = false -> e_src e < e_dst e).
Definition RowP (m : emol) : Prop :=
  forall j row e, nth_error (m_adj m) j = Some row -> In (Some e) row -> rowp j e.

Lemma In_upd {A} (f : A -> A) : forall (l : list A) i y, In y (upd l i f) -> In y l \/ exists x, In x l /\ y = f x.
Proof.
  induction l as [|x r IH]; intros i y H; [destruct H|]. destruct i; cbn [upd] in H.
  - destruct H as [<-|H]; [right; exists x; split; [now left|reflexivity]|left; now right].
  - destruct H as [<-|H]; [left; now left|]. destruct (IH _ _ H) as [H1|(z & Hz & ->)]; [left; now right|right; exists z; split; [now right|reflexivity]].
Qed.

Lemma add_loc_In out pos b out' e : add_bond_at_loc out pos b = Ok out' -> In (Some e) out' -> e = b \/ In (Some e) out.
Proof.
  unfold add_bond_at_loc.
  assert (Happ : In (Some e) (out ++ [Some b]) -> e = b \/ In (Some e) out).
  { intro H. apply in_app_iff in H as [H|[H|[]]]; [now right|inversion H; now left]. }
  destruct pos as [p|]; [|intro E; inversion E; subst; exact Happ].
  destruct (p =? length out); [intro E; inversion E; subst; exact Happ|].
  destruct (nth_error out p) as [[x|]|]; [| |discriminate]; intro E; inversion E; subst; intro H.
  - apply In_insert_at in H as [H|H]; [inversion H; now left|now right].
  - apply In_upd in H as [H|(y & _ & H)]; [now right|inversion H; now left].
Qed.

Lemma row_upd m i (f : list (option ebond) -> list (option ebond)) :
  RowP m -> (forall row e, nth_error (m_adj m) i = Some row -> In (Some e) (f row) -> rowp i e) ->
  forall j row e, nth_error (upd (m_adj m) i f) j = Some row -> In (Some e) row -> rowp j e.
Proof.
  intros Hm Hf j row e Hn Hin. rewrite nth_error_upd in Hn. destruct (Nat.eqb_spec i j) as [->|Hne]; [|exact (Hm _ _ _ Hn Hin)].
  destruct (nth_error (m_adj m) j) as [r0|] eqn:E0; [|discriminate]. cbn in Hn. inversion Hn; subst. exact (Hf r0 e eq_refl Hin).
Qed.

Lemma at_loc_row m b pos m' : RowP m -> (e_ring b = false -> e_src b < e_dst b) -> mg_add_bond_at_loc m b pos = Ok m' -> RowP m'.
Proof.
  intros Hm Hfw. unfold mg_add_bond_at_loc. destruct (lget (m_adj m) (e_src b)) as [out|] eqn:El; cbn [bind]; [|discriminate].
  destruct (add_bond_at_loc out pos b) as [out'|] eqn:Ea; cbn [bind]; [|discriminate]. intro E; inversion E; subst.
  unfold RowP. cbn [set_adj m_adj]. apply row_upd; [exact Hm|]. intros row e Hr Hin. apply lget_In in El. rewrite El in Hr. inversion Hr; subst.
  destruct (add_loc_In _ _ _ _ _ Ea Hin) as [->|H]; [split; [reflexivity|exact Hfw]|exact (Hm _ _ _ El H)].
Qed.

Lemma row_same m m' : m_adj m' = m_adj m -> RowP m -> RowP m'.
Proof. unfold RowP. intros ->. auto. Qed.

Lemma add_bond_row m src dst o2 st at_ m' : RowP m -> mg_add_bond m src dst o2 st at_ = Ok m' -> RowP m'.
Proof.
  intros Hm. unfold mg_add_bond. destruct (src <? dst) eqn:Elt; cbn [negb]; [|discriminate]. apply Nat.ltb_lt in Elt.
  destruct (mg_add_bond_at_loc _ _ _) as [m1|] eqn:E1; cbn [bind]; [|discriminate].
  destruct (mg_add_count2 m1 _ _) as [m2|] eqn:E2; cbn [bind]; [|discriminate].
  destruct (mg_add_count2 m2 _ _) as [m3|] eqn:E3; cbn [bind]; [|discriminate].
  apply at_loc_row in E1; [|exact Hm|intros _; exact Elt]. apply add_count_adj in E2, E3.
  assert (A3 : RowP m3) by (apply (row_same m1); [congruence|exact E1]).
  destruct (_ =? _)%Z; intro E; inversion E; subst; exact A3.
Qed.

Lemma placeholder_row m src m' k : RowP m -> mg_add_placeholder_bond m src = Ok (m', k) -> RowP m'.
Proof.
  intro Hm. unfold mg_add_placeholder_bond. destruct (lget _ _); cbn [bind]; [|discriminate]. intro E; inversion E; subst.
  unfold RowP. cbn [set_adj m_adj]. apply row_upd; [exact Hm|]. intros row e Hr Hin.
  apply in_app_iff in Hin as [Hin|[Hin|[]]]; [exact (Hm _ _ _ Hr Hin)|discriminate].
Qed.

Lemma add_ring_row m a b o2 sa sb pa pb m' : RowP m -> mg_add_ring_bond m a b o2 sa sb pa pb = Ok m' -> RowP m'.
Proof.
  intros Hm. unfold mg_add_ring_bond.
  destruct (mg_add_bond_at_loc m _ _) as [m1|] eqn:E1; cbn [bind]; [|discriminate].
  destruct (mg_add_bond_at_loc m1 _ _) as [m2|] eqn:E2; cbn [bind]; [|discriminate].
  destruct (mg_add_count2 m2 _ _) as [m3|] eqn:E3; cbn [bind]; [|discriminate].
  destruct (mg_add_count2 m3 _ _) as [m4|] eqn:E4; cbn [bind]; [|discriminate].
  destruct (lupd (m_ringflags m4) _ _) as [f1|]; cbn [bind]; [|discriminate].
  destruct (lupd f1 _ _) as [f2|]; cbn [bind]; [|discriminate].
  apply at_loc_row in E1; [|exact Hm|discriminate]. apply at_loc_row in E2; [|exact E1|discriminate]. apply add_count_adj in E3, E4.
  assert (A4 : RowP m4) by (apply (row_same m2); [congruence|exact E2]).
  destruct (_ =? _)%Z; intro E; inversion E; subst; exact A4.
Qed.

Lemma make_ring_row m lt la lp rt ra m' : RowP m -> make_ring_bonds m lt la lp rt ra = Ok m' -> RowP m'.
Proof.
  intro Hm. unfold make_ring_bonds. destruct (_ =? _); [discriminate|]. destruct (mg_has_bond _ _ _); [discriminate|].
  match goal with |- (let '(b0, b1) := ?X in _) = _ -> _ => destruct X as [b0 b1] end.
  destruct (negb _); [discriminate|].
  destruct (smiles_to_bond2 (t_bond lt)) as [lo ls]. destruct (smiles_to_bond2 (t_bond rt)) as [ro rs].
  destruct (mg_get_atom m la); cbn [bind]; [|discriminate]. destruct (mg_get_atom m ra); cbn [bind]; [|discriminate].
  match goal with |- (let '(x, y) := ?X in _) = _ -> _ => destruct X as [lo' ro'] end. now apply add_ring_row.
Qed.

Lemma attach_row m tok a prev i m' idx i' : RowP m -> attach_atom m tok a prev i = Ok (m', idx, i') -> RowP m'.
Proof.
  intro Hm. unfold attach_atom. destruct (mg_add_atom m a _) as [m1 ix] eqn:Ea.
  assert (A1 : RowP m1).
  { unfold mg_add_atom in Ea. inversion Ea; subst. unfold RowP. cbn [m_adj]. intros j row e Hn Hin.
    destruct (Nat.lt_ge_cases j (length (m_adj m))) as [L|G].
    - rewrite nth_error_app1 in Hn by exact L. exact (Hm _ _ _ Hn Hin).
    - rewrite nth_error_app2 in Hn by exact G. destruct (j - length (m_adj m)) as [|k]; cbn in Hn; [inversion Hn; subst; destruct Hin|destruct k; discriminate]. }
  destruct (mg_add_attr_atom m1 ix _) as [m2|] eqn:E2; cbn [bind]; [|discriminate].
  apply add_attr_adj in E2. assert (A2 : RowP m2) by (apply (row_same m1); assumption).
  destruct prev as [src|]; [|intro E; inversion E; subst; exact A2].
  destruct (smiles_to_bond2 (t_bond tok)) as [o2 st]. destruct (mg_get_atom m2 src); cbn [bind]; [|discriminate].
  destruct (mg_add_bond m2 _ _ _ _ _) as [m3|] eqn:E3; cbn [bind]; [|discriminate].
  apply add_bond_row in E3; [|exact A2]. intro E; inversion E; subst. exact E3.
Qed.

(* the reader: rows, and atoms against tokens *)
Lemma derive_loop_row : forall ts st st' rest, RowP (p_mol st) -> derive_loop ts st = Ok (st', rest) ->
  RowP (p_mol st') /\ mg_len (p_mol st') + length rest <= mg_len (p_mol st) + length ts.
Proof.
  induction ts as [|tok r IH]; intros st st' rest Hm E; cbn [derive_loop] in E; [inversion E; subst; split; [exact Hm|lia]|].
  destruct (p_prev st) as [|prev below]; [discriminate|].
  assert (Hlen : forall m', m_atoms m' = m_atoms (p_mol st) -> mg_len m' = mg_len (p_mol st)) by (intros m' H; unfold mg_len; now rewrite H).
  destruct (t_type tok).
  - destruct (smiles_to_atom (t_text tok)) as [[a|]|]; cbn [bind] in E; try discriminate.
    destruct (attach_atom _ _ _ _ _) as [[[m' idx] i']|] eqn:Eat; cbn [bind] in E; [|discriminate].
    apply IH in E; [|cbn [p_mol]; exact (attach_row _ _ _ _ _ _ _ _ Hm Eat)]. cbn [p_mol] in E. destruct E as [A B]. split; [exact A|].
    pose proof (attach_atoms _ _ _ _ _ _ _ _ Eat) as L. apply (f_equal (@length atom)) in L. unfold atoms_of in L. rewrite app_length, !map_length in L.
    unfold mg_len in *. cbn [length] in *. lia.
  - destruct (p_chain_start st); [discriminate|].
    destruct (str_eqb _ _); [apply IH in E; [|exact Hm]; cbn [p_mol length] in *; destruct E; split; [assumption|lia]|].
    destruct (p_branch st); [discriminate|]. apply IH in E; [|exact Hm]. cbn [p_mol length] in *. destruct E; split; [assumption|lia].
  - destruct (p_chain_start st); [discriminate|].
    destruct (ring_log_find _ _) as [[[ltok latom] lpos]|].
    + destruct (atom_index prev) as [ratom|]; cbn [bind] in E; [|discriminate].
      destruct (make_ring_bonds _ _ _ _ _ _) as [m'|] eqn:Er; cbn [bind] in E; [|discriminate].
      apply IH in E; [|cbn [p_mol]; exact (make_ring_row _ _ _ _ _ _ _ Hm Er)]. cbn [p_mol length] in *. destruct E as [A B]. split; [exact A|].
      rewrite (Hlen _ (make_ring_atoms _ _ _ _ _ _ _ Er)) in B. lia.
    + destruct (atom_index prev) as [src|]; cbn [bind] in E; [|discriminate].
      destruct (mg_add_placeholder_bond _ _) as [[m' lpos]|] eqn:Epl; cbn [bind] in E; [|discriminate].
      apply IH in E; [|cbn [p_mol]; exact (placeholder_row _ _ _ _ Hm Epl)]. cbn [p_mol length] in *. destruct E as [A B]. split; [exact A|].
      rewrite (Hlen _ (placeholder_atoms _ _ _ _ Epl)) in B. lia.
  - inversion E; subst. cbn [p_mol length]. split; [exact Hm|lia].
Qed.

Lemma fragments_row : forall fuel m ts i m', RowP m -> fragments_loop fuel m ts i = Ok m' ->
  RowP m' /\ mg_len m' <= mg_len m + length ts.
Proof.
  induction fuel as [|f IH]; intros m ts i m' Hm E; [discriminate|]. cbn [fragments_loop] in E.
  destruct ts as [|t r]; [inversion E; subst; split; [exact Hm|lia]|].
  destruct (derive_mol_from_tokens m (t :: r) i) as [[[m1 i1] rest]|] eqn:Ed; cbn [bind] in E; [|discriminate].
  unfold derive_mol_from_tokens in Ed.
  destruct (derive_loop (t :: r) _) as [[st rest']|] eqn:El; cbn [bind] in Ed; [|discriminate].
  apply derive_loop_row in El; [|exact Hm]. cbn [p_mol] in El. destruct El as [A B].
  destruct (_ =? _); [discriminate|]. destruct (p_branch st); [|discriminate]. destruct (p_rings st); [|discriminate].
  inversion Ed; subst. apply IH in E; [|exact A]. destruct E as [C D]. split; [exact C|lia].
Qed.

Theorem parsed_row smiles attributable m : smiles_to_mol smiles attributable = Ok m -> RowP m /\ mg_len m <= length smiles.
Proof.
  unfold smiles_to_mol. destruct smiles as [|c s]; [discriminate|].
  destruct (tokenize_smiles (c :: s)) as [ts|] eqn:Et; cbn [bind]; [|discriminate].
  intro E. apply fragments_row in E; [|intros j row e Hn; destruct j; discriminate]. destruct E as [A B]. split; [exact A|].
  unfold tokenize_smiles in Et. pose proof (tokenize_loop_ok (S (length (c :: s))) (c :: s) 0 ltac:(lia)) as H. rewrite Et in H. cbn [mg_empty mg_len m_atoms length] in *. lia.
Qed.

(* kekulize *)
Lemma set_edge_In l dst o e : In (Some e) (set_edge_order2 l dst o) -> exists e0, In (Some e0) l /\ e_src e = e_src e0 /\ e_dst e = e_dst e0 /\ e_ring e = e_ring e0.
Proof.
  unfold set_edge_order2. intro H. apply in_map_iff in H as ([x|] & Hx & Hin); [|discriminate].
  destruct (_ =? _) in Hx; inversion Hx; subst; eexists; (split; [exact Hin|repeat split]).
Qed.

Lemma update_order_row m a b o m' : RowP m -> mg_update_bond_order m a b o = Ok m' -> RowP m' /\ mg_len m' = mg_len m.
Proof.
  intro Hm. unfold mg_update_bond_order. destruct (negb _); [discriminate|].
  destruct (mg_get_dirbond m _ _) as [ab|]; cbn [bind]; [|discriminate].
  destruct (_ =? _)%Z; [intro E; inversion E; subst; split; [exact Hm|reflexivity]|].
  match goal with |- (do adj1 <- ?X; _) = _ -> _ => destruct X as [adj1|] eqn:Ead end; cbn [bind]; [|discriminate].
  assert (Hset : forall i d, forall j row e, nth_error (upd (m_adj m) i (fun l => set_edge_order2 l d o)) j = Some row -> In (Some e) row -> rowp j e).
  { intros i d. apply row_upd; [exact Hm|]. intros row e Hr Hin. apply set_edge_In in Hin as (e0 & H0 & E1 & E2 & E3). unfold rowp. rewrite E1, E2, E3. exact (Hm _ _ _ Hr H0). }
  assert (A1 : forall j row e, nth_error adj1 j = Some row -> In (Some e) row -> rowp j e).
  { destruct (e_ring ab).
    - destruct (mg_get_dirbond m _ _); cbn [bind] in Ead; [|discriminate]. inversion Ead; subst.
      set (mm := set_adj m (upd (m_adj m) (Nat.min a b) (fun l => set_edge_order2 l (Nat.max a b) o))).
      assert (Hmm : RowP mm) by (unfold RowP, mm; cbn [set_adj m_adj]; apply Hset).
      change (upd (m_adj m) (Nat.min a b) (fun l => set_edge_order2 l (Nat.max a b) o)) with (m_adj mm).
      apply row_upd; [exact Hmm|]. intros row e Hr Hin. apply set_edge_In in Hin as (e0 & H0 & E1 & E2 & E3). unfold rowp. rewrite E1, E2, E3. exact (Hmm _ _ _ Hr H0).
    - inversion Ead; subst. apply Hset. }
  destruct (mg_add_count2 (set_adj m adj1) _ _) as [m1|] eqn:E1; cbn [bind]; [|discriminate].
  intro E2. pose proof (add_count_atoms _ _ _ _ E1) as L1. pose proof (add_count_atoms _ _ _ _ E2) as L2. apply add_count_adj in E1, E2. split.
  - unfold RowP. rewrite E2, E1. exact A1.
  - unfold mg_len. rewrite L2, L1. reflexivity.
Qed.

Lemma single_bonds_row : forall adjs m node m', RowP m -> set_single_bonds m node adjs = Ok m' -> RowP m' /\ mg_len m' = mg_len m.
Proof.
  induction adjs as [|x r IH]; intros m node m' Hm E; cbn [set_single_bonds] in E; [inversion E; subst; split; [exact Hm|reflexivity]|].
  destruct (mg_update_bond_order m node x 2) as [m1|] eqn:E1; cbn [bind] in E; [|discriminate].
  apply update_order_row in E1 as [A B]; [|exact Hm]. destruct (IH _ _ _ A E) as [C D]. split; [exact C|congruence].
Qed.

Lemma double_bonds_row : forall pairs m l2n m', RowP m -> set_double_bonds m l2n pairs = Ok m' -> RowP m' /\ mg_len m' = mg_len m.
Proof.
  induction pairs as [|[i oj] r IH]; intros m l2n m' Hm E; cbn [set_double_bonds] in E; [inversion E; subst; split; [exact Hm|reflexivity]|].
  destruct (lget l2n i); cbn [bind] in E; [|discriminate]. destruct oj as [j|]; [|discriminate].
  destruct (lget l2n j); cbn [bind] in E; [|discriminate].
  destruct (mg_update_bond_order m _ _ 4) as [m1|] eqn:E1; cbn [bind] in E; [|discriminate].
  apply update_order_row in E1 as [A B]; [|exact Hm]. destruct (IH _ _ _ A E) as [C D]. split; [exact C|congruence].
Qed.

Lemma dearomatize_row : forall ds m m', RowP m -> dearomatize m ds = Ok m' -> RowP m' /\ mg_len m' = mg_len m.
Proof.
  induction ds as [|[node adjs] r IH]; intros m m' Hm E; cbn [dearomatize] in E; [inversion E; subst; split; [exact Hm|reflexivity]|].
  destruct (set_single_bonds m node adjs) as [m1|] eqn:E1; cbn [bind] in E; [|discriminate].
  destruct (lupd (m_atoms m1) _ _) as [atoms'|] eqn:Ea; cbn [bind] in E; [|discriminate].
  destruct (lupd (m_counts2 m1) _ _) as [counts'|]; cbn [bind] in E; [|discriminate].
  apply single_bonds_row in E1 as [A B]; [|exact Hm]. apply IH in E; [|exact A]. destruct E as [C D]. split; [exact C|].
  rewrite D. unfold mg_len. cbn [set_counts2 set_atoms m_atoms]. apply lupd_eq in Ea. subst atoms'. rewrite upd_length. exact B.
Qed.

Theorem kekulize_row m m' : RowP m -> kekulize m = Ok (Some m') -> RowP m' /\ mg_len m' = mg_len m.
Proof.
  intros Hm. unfold kekulize. destruct (ds_is_empty _); [intro E; inversion E; subst; split; [exact Hm|reflexivity]|].
  destruct (any_bad_element _ _) as [bad|]; cbn [bind]; [|discriminate]. destruct bad; [discriminate|].
  destruct (kept_nodes_of _ _) as [kept|]; cbn [bind]; [|discriminate].
  destruct (pruned_ds_of _ _ _) as [pruned|]; cbn [bind]; [|discriminate].
  destruct (find_perfect_matching pruned) as [[mt|]|]; cbn [bind]; try discriminate.
  destruct (dearomatize m _) as [m1|] eqn:E1; cbn [bind]; [|discriminate].
  destruct (set_double_bonds m1 _ _) as [m2|] eqn:E2; cbn [bind]; [|discriminate].
  intro E; inversion E; subst. apply dearomatize_row in E1 as [A B]; [|exact Hm]. apply double_bonds_row in E2 as [C D]; [|exact A].
  split; [exact C|]. unfold mg_len in *. cbn [set_ds m_atoms]. congruence.
Qed.

Lemma invert_pass_len m : forall atoms idx atoms', invert_pass m atoms idx = Ok atoms' -> length atoms' = length atoms.
Proof.
  induction atoms as [|[a at_] r IH]; intros idx atoms' E; cbn [invert_pass] in E; [inversion E; reflexivity|].
  match type of E with (do a' <- ?X; _) = _ => destruct X as [a'|] end; cbn [bind] in E; [|discriminate].
  destruct (invert_pass m r (S idx)) as [rest|] eqn:Er; cbn [bind] in E; [|discriminate].
  inversion E; subst. cbn [length]. f_equal. exact (IH _ _ Er).
Qed.
