(* StateFacts.v — facts about the three state functions that gen/Generated.v
   holds as translated from grammar_rules.py on this run.  They are what makes
   "every derivation step respects the free valence" true; a change to those
   25 lines of Python changes Generated.v and these lemmas are re-checked. *)
From Coq Require Import ZArith List Bool Lia.
From Selfies Require Import Generated.
Local Open Scope Z_scope.

Lemma nas_spec : forall beta cap state mu ns,
  next_atom_state beta cap state = (mu, ns) -> 1 <= beta -> 0 <= cap -> 0 <= state ->
  mu = Z.min (Z.min beta cap) state /\ 0 <= mu /\ mu <= beta /\ mu <= cap /\ mu <= state /\
  (state = 0 -> mu = 0) /\
  match ns with None => cap - mu = 0 | Some k => k = cap - mu /\ 0 < k end.
Proof.
  intros beta cap state mu ns H Hb Hc Hs. unfold next_atom_state in H.
  destruct (state =? 0) eqn:E0.
  - apply Z.eqb_eq in E0. subst state.
    destruct (cap - Z.min (Z.min 0 0) cap =? 0) eqn:E1; inversion H; subst;
      [apply Z.eqb_eq in E1|apply Z.eqb_neq in E1]; repeat split; lia.
  - apply Z.eqb_neq in E0.
    destruct (cap - Z.min (Z.min beta state) cap =? 0) eqn:E1; inversion H; subst;
      [apply Z.eqb_eq in E1|apply Z.eqb_neq in E1]; repeat split; lia.
Qed.

Lemma nbs_spec : forall btype state binit ns,
  next_branch_state btype state = (binit, ns) -> next_branch_state_pre btype state = true ->
  binit = Z.min (state - 1) btype /\ ns = state - binit /\ 1 <= binit <= 3 /\ 1 <= ns /\ binit + ns = state.
Proof.
  intros btype state binit ns H Hp. unfold next_branch_state in H. unfold next_branch_state_pre in Hp.
  inversion H; subst. clear H.
  apply andb_true_iff in Hp as [Hp H3]. apply andb_true_iff in Hp as [H1 H2].
  apply Z.leb_le in H1, H2. apply Z.gtb_lt in H3. repeat split; lia.
Qed.

Lemma nrs_spec : forall rtype state order ns,
  next_ring_state rtype state = (order, ns) -> next_ring_state_pre rtype state = true -> 1 <= rtype ->
  order = Z.min rtype state /\ 1 <= order /\ order <= rtype /\ order <= state /\
  match ns with None => state - order = 0 | Some k => k = state - order /\ 0 < k end.
Proof.
  intros rtype state order ns H Hp Hr. unfold next_ring_state in H. unfold next_ring_state_pre in Hp.
  apply Z.gtb_lt in Hp.
  destruct (state - Z.min rtype state =? 0) eqn:E; inversion H; subst;
    [apply Z.eqb_eq in E|apply Z.eqb_neq in E]; repeat split; lia.
Qed.
