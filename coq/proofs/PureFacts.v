(* PureFacts.v — C11: translation is a pure function of input and current table;
   the memo layers only ever hold values of that function. *)
From Coq Require Import Ascii String List Arith ZArith NArith Bool Lia.
Import ListNotations.
From Selfies Require Import Base Generated Lex Atoms Grammar Compat Decoder Smiles Kekulize Encoder Config History BaseFacts ConfigFacts.

Section Ext.
Variables f g : capfun.
Hypothesis Hfg : forall e c, f e c = g e c.

Lemma pas_ext : forall s, process_atom_symbol_c f s = process_atom_symbol_c g s.
Proof.
  intro s. unfold process_atom_symbol_c, bonding_capacity_c.
  destruct (process_atom_nocache s) as [[[[o st] a]|]|]; cbn [bind]; [|reflexivity|reflexivity].
  now rewrite Hfg.
Qed.

Ltac step_ext IH :=
  first
  [ reflexivity
  | rewrite IH
  | match goal with
    | |- context [if ?b then _ else _] => destruct b eqn:?
    | |- context [match ?x with Some _ => _ | None => _ end] => destruct x eqn:?
    | |- context [match ?x with Ok _ => _ | Err _ => _ end] => destruct x eqn:?
    | |- context [match ?x with PNone => _ | PGhost => _ | PAtom _ => _ end] => destruct x eqn:?
    | |- context [match ?x with (_, _) => _ end] => destruct x eqn:?
    end ].

Lemma derive_c_ext : forall fuel bad aidx ts m maxd state prev rings astack nd,
  derive_c f bad aidx fuel ts m maxd state prev rings astack nd =
  derive_c g bad aidx fuel ts m maxd state prev rings astack nd.
Proof.
  induction fuel as [|fuel IH]; intros; [reflexivity|].
  cbn [derive_c]. cbv zeta.
  destruct (negb (below nd maxd)); [reflexivity|].
  destruct ts as [|[idx sym] rest]; [reflexivity|].
  rewrite (pas_ext sym). unfold bind.
  repeat (step_ext IH).
Qed.
End Ext.

Section Ext2.
Variables f g : capfun.
Hypothesis Hfg : forall e c, f e c = g e c.

Lemma derive_frags_c_ext : forall attribute tfrags m rings aidx,
  derive_frags_c f attribute tfrags m rings aidx = derive_frags_c g attribute tfrags m rings aidx.
Proof.
  induction tfrags as [|[ts bad] rest IH]; intros; [reflexivity|]. cbn [derive_frags_c].
  rewrite (derive_c_ext f g Hfg). unfold bind.
  destruct (derive_c g bad aidx (S (length ts)) (enumerate_from 0 ts) m None 0%Z PNone rings
              (if attribute then Some [] else None) 0) as [[[[a b] c] d]|e]; [apply IH|reflexivity].
Qed.

Lemma decoder_c_ext : forall s compat attribute, decoder_c f s compat attribute = decoder_c g s compat attribute.
Proof. intros. unfold decoder_c, decode_graph_c. now rewrite derive_frags_c_ext. Qed.

Lemma bond_constraint_errors_ext : forall m atoms idx,
  bond_constraint_errors f m atoms idx = bond_constraint_errors g m atoms idx.
Proof.
  induction atoms as [|[a at_] r IH]; intro idx; [reflexivity|]. cbn [bond_constraint_errors].
  unfold bonding_capacity_c. rewrite Hfg. unfold bind.
  destruct (g (a_element a) (a_charge a)); [|reflexivity].
  destruct (mg_get_bond_count2 m idx); [|reflexivity].
  destruct (_ <? _)%Z; [|apply IH].
  destruct (atom_to_smiles a true); [|reflexivity]. now rewrite IH.
Qed.

Lemma encoder_c_ext : forall s strict attribute, encoder_c f s strict attribute = encoder_c g s strict attribute.
Proof.
  intros. unfold encoder_c. destruct (smiles_to_mol s attribute) as [m0|e]; [|reflexivity].
  unfold encode_mol. destruct (kekulize m0) as [[m1|]|]; cbn [bind]; try reflexivity.
  unfold check_bond_constraints. now rewrite bond_constraint_errors_ext.
Qed.
End Ext2.

(* with strict=False the encoder never consults the table at all *)
Theorem nonstrict_encoder_ignores_table : forall f g s attribute,
  encoder_c f s false attribute = encoder_c g s false attribute.
Proof.
  intros. unfold encoder_c. destruct (smiles_to_mol s attribute) as [m0|e]; [|reflexivity]. reflexivity.
Qed.

(* ---------- cache coherence ---------- *)
Definition Coherent (st : lib) : Prop :=
  forall e c v, memo_find e c (l_cap_memo st) = Some v -> get_bonding_capacity (current_table st) e c = Ok v.

Lemma cap_lookup_pure st : Coherent st -> forall e c, cap_lookup st e c = get_bonding_capacity (current_table st) e c.
Proof.
  intros H e c. unfold cap_lookup. destruct (memo_find e c (l_cap_memo st)) eqn:E; [|reflexivity].
  symmetry. now apply H.
Qed.

Lemma memo_find_app m e c x : memo_find e c (m ++ [x]) =
  match memo_find e c m with Some v => Some v | None => memo_find e c [x] end.
Proof.
  induction m as [|[[e' c'] v'] m IH]; [reflexivity|]. cbn [app memo_find].
  destruct (str_eqb e e' && Z.eqb c c'); [reflexivity|apply IH].
Qed.

Lemma memo_after_coherent st pairs : Coherent st ->
  forall e c v, memo_find e c (memo_after st pairs) = Some v -> get_bonding_capacity (current_table st) e c = Ok v.
Proof.
  intro H. unfold memo_after.
  assert (G : forall pairs m, (forall e c v, memo_find e c m = Some v -> get_bonding_capacity (current_table st) e c = Ok v) ->
     forall e c v, memo_find e c (fold_left (fun m '(e, c) =>
        match memo_find e c m with
        | Some _ => m
        | None => match get_bonding_capacity (current_table st) e c with Ok v => m ++ [(e, c, v)] | Err _ => m end
        end) pairs m) = Some v -> get_bonding_capacity (current_table st) e c = Ok v).
  { clear. induction pairs as [|[e0 c0] pairs IH]; intros m Hm; [exact Hm|]. cbn [fold_left].
    apply IH. destruct (memo_find e0 c0 m) eqn:E0; [exact Hm|].
    destruct (get_bonding_capacity (current_table st) e0 c0) as [v0|] eqn:Eg; [|exact Hm].
    intros e c v. rewrite memo_find_app. destruct (memo_find e c m) eqn:E; [intro X; inversion X; subst; now apply Hm|].
    cbn [memo_find]. destruct (str_eqb e e0 && Z.eqb c c0) eqn:Eq; [|discriminate].
    apply andb_true_iff in Eq as [Q1 Q2]. apply str_eqb_eq in Q1. apply Z.eqb_eq in Q2. subst.
    intro X; inversion X; subst. exact Eg. }
  apply G. exact H.
Qed.

(* the invariant over histories: heap separation (ConfigFacts.Inv) + coherent memo *)
Lemma set_clears_memo st a st' : set_semantic_constraints st a = Ok st' -> l_cap_memo st' = [].
Proof.
  unfold set_semantic_constraints. destruct a as [name|i|]; [| |discriminate].
  - destruct (get_preset_constraints st name) as [[st1 o]|]; cbn [bind]; [|discriminate].
    intro H; inversion H; reflexivity.
  - destruct (hget (l_heap st) i) as [[d|s]|]; try discriminate.
    destruct (has_key (lit "?") d); cbn [negb]; [|discriminate].
    destruct (validate_items d); cbn [bind alloc]; [|discriminate].
    intro H; inversion H; reflexivity.
Qed.

Lemma step_coherent : forall w o, Inv w -> Coherent (w_lib w) -> Coherent (w_lib (fst (step w o))).
Proof.
  intros w o HI HC.
  destruct o as [d|r| |name| |k m|x compat attr|s strict attr].
  2:{ (* Set: success clears the memo, failure changes nothing *)
      cbn [step].
      destruct (match r with
                | RName n => Some (ArgName n)
                | RHeld k => match nth_error (w_held w) k with Some i => Some (ArgObj i) | None => None end
                | RJunk => Some ArgJunk end) as [a|]; cbn [fst]; [|exact HC].
      destruct (set_semantic_constraints (w_lib w) a) as [st'|e] eqn:E; cbn [fst with_lib w_lib]; [|exact HC].
      intros e c v Hm. rewrite (set_clears_memo _ _ _ E) in Hm. discriminate. }
  all: match goal with |- Coherent (w_lib (fst (step ?w0 ?o))) =>
         assert (Es : is_successful_set w0 o = false) by reflexivity;
         pose proof (step_keeps_current w0 o HI Es) as Ec;
         assert (Et : current_table (w_lib (fst (step w0 o))) = current_table (w_lib w0))
           by (unfold current_table; now rewrite Ec);
         unfold Coherent; rewrite Et; clear Es Ec Et; cbn [step fst w_lib]
       end.
  - cbn [alloc hold w_lib l_cap_memo]. exact HC.
  - unfold get_semantic_constraints. cbn [alloc fst hold w_lib l_cap_memo]. exact HC.
  - unfold get_preset_constraints. destruct (assoc name (l_presets (w_lib w))); cbn [fst]; [|exact HC].
    destruct (hget (l_heap (w_lib w)) o) as [[d|s]|]; cbn [fst alloc hold w_lib l_cap_memo]; exact HC.
  - unfold get_semantic_robust_alphabet. destruct (l_alpha_cache (w_lib w)); cbn [fst alloc hold w_lib l_cap_memo]; exact HC.
  - destruct (nth_error (w_held w) k); cbn [fst with_lib w_lib l_cap_memo]; exact HC.
  - cbn [with_lib w_lib after_translation l_cap_memo]. apply memo_after_coherent. exact HC.
  - exact HC.
Qed.

Lemma run_inv_coherent : forall ops w, Inv w -> Coherent (w_lib w) ->
  Inv (fst (run w ops)) /\ Coherent (w_lib (fst (run w ops))).
Proof.
  induction ops as [|o ops IH]; intros w HI HC; [split; assumption|]. cbn [run].
  pose proof (step_inv w o HI) as H1. pose proof (step_coherent w o HI HC) as H2.
  destruct (step w o) as [w1 ob]. cbn [fst] in H1, H2.
  specialize (IH w1 H1 H2). destruct (run w1 ops) as [w2 obs]. exact IH.
Qed.

Lemma coherent_init : Coherent init_lib.
Proof. intros e c v H. discriminate. Qed.

(* C11: after ANY history, a translation call returns the pure function of its
   input and the current table; the non-strict encoder does not even read the table *)
Theorem pure_after_history : forall ops x compat attr,
  let w := fst (run init_world ops) in
  snd (step w (OpDecode x compat attr)) = ObsTrans (decoder (current_table (w_lib w)) x compat attr).
Proof.
  intros ops x compat attr. cbv zeta.
  destruct (run_inv_coherent ops init_world inv_init coherent_init) as [HI HC].
  cbn [step snd]. f_equal. unfold decoder. apply decoder_c_ext. now apply cap_lookup_pure.
Qed.

Theorem encode_pure_after_history : forall ops s strict attr,
  let w := fst (run init_world ops) in
  snd (step w (OpEncode s strict attr)) = ObsTrans (encoder (current_table (w_lib w)) s strict attr).
Proof.
  intros ops s strict attr. cbv zeta.
  destruct (run_inv_coherent ops init_world inv_init coherent_init) as [HI HC].
  cbn [step snd]. f_equal. unfold encoder. apply encoder_c_ext. now apply cap_lookup_pure.
Qed.

(* two histories that end in the same table translate alike: in particular a
   long history and a fresh interpreter set to that table *)
Corollary same_table_same_translation : forall ops1 ops2 x compat attr,
  current_table (w_lib (fst (run init_world ops1))) = current_table (w_lib (fst (run init_world ops2))) ->
  snd (step (fst (run init_world ops1)) (OpDecode x compat attr)) =
  snd (step (fst (run init_world ops2)) (OpDecode x compat attr)).
Proof. intros. rewrite !pure_after_history. now rewrite H. Qed.

Corollary nonstrict_encode_any_history : forall ops1 ops2 s attr,
  snd (step (fst (run init_world ops1)) (OpEncode s false attr)) =
  snd (step (fst (run init_world ops2)) (OpEncode s false attr)).
Proof. intros. cbn [step snd]. f_equal; try apply nonstrict_encoder_ignores_table. Qed.
