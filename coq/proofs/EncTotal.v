(* EncTotal.v — C09, assembled: find_perfect_matching returns on the pruned graph of every parsed molecule, hence kekulize
   returns, hence the encoder returns or raises EncoderError (or the reader's int() ValueError) for every string. *)
From Coq Require Import Ascii String List Arith ZArith NArith Bool Lia.
Import ListNotations.
From Selfies Require Import Base Generated Lex Atoms Grammar Decoder Smiles PySet Matching Kekulize Encoder BaseFacts ConfigFacts
  ParserTotal EncShape EncRows EncKey EncIndex EncAttrErr EncUniq EncKek EncMatch EncMatchSafe EncCount EncGreedy EncGreedyT EncMatchT EncProbe EncOutcomes EncoderFacts.
Local Open Scope nat_scope.

Lemma ps_discard_ts s k s' : TS s -> ps_discard k s = Ok s' -> TS s'.
Proof. intros Ht E. destruct (ps_discard_total k s Ht) as (s2 & E2 & T2). congruence. Qed.

Lemma ps_pop_ts s k s' : TS s -> ps_pop s = Ok (k, s') -> TS s'.
Proof.
  intros Ht E. unfold ps_pop in E. destruct (_ =? _); [discriminate|].
  set (start := ps_finger s mod S (ps_mask s)) in *.
  destruct (match first_key_from (skipn start (ps_table s)) start with Some h => Some h | None => _ end) as [[j k0]|] eqn:Eh; [|discriminate].
  assert (Hj : nth_error (ps_table s) j = Some (SKey k0)).
  { destruct (first_key_from (skipn start (ps_table s)) start) as [[j1 k1]|] eqn:E1.
    - inversion Eh; subst. destruct (first_key_spec _ _ _ _ E1) as [L H1]. rewrite nth_skipn in H1. replace (start + (j - start)) with j in H1 by lia. exact H1.
    - destruct (first_key_spec _ _ _ _ Eh) as [_ H2]. rewrite Nat.sub_0_r in H2. exact (nth_firstn _ _ _ _ H2). }
  inversion E; subst. apply (ts_remove s j k _ Ht Hj); reflexivity.
Qed.

Theorem matching_total g :
  (forall i li j, nth_error g i = Some li -> In j li -> j < length g) ->
  (forall i li, nth_error g i = Some li -> ~ In i li) ->
  (forall u v lu lv, nth_error g u = Some lu -> nth_error g v = Some lv -> occ lu v = occ lv u) ->
  exists r, find_perfect_matching g = Ok r.
Proof.
  intros GR NSL SYM. unfold find_perfect_matching, find_perfect_matching_with.
  destruct (greedy_total g GR NSL SYM) as [m0 Eg]. rewrite Eg. cbn [bind].
  destruct (ps_of_list_total (unmatched_nodes m0)) as (u & Eu & Tu). rewrite Eu. cbn [bind].
  destruct (ps_of_list_full _ _ (nodup_enum _ m0 0) Eu) as (Su & Uu & Lu & Mu).
  pose proof (greedy_mr g GR m0 Eg) as Hm.
  pose proof (augment_total_q TS (fun s k s' H E => ps_pop_ts s k s' H E) (fun s k s' H E => ps_discard_ts s k s' H E) g GR (S (length g)) m0 u) as A.
  destruct (augment_loop pyset ps_nonempty ps_pop ps_discard (S (length g)) g m0 u) as [r|e]; [eauto|]. exfalso.
  destruct A as [(s & Ts & Ss & Ns & Es)|(k & s & Ts & Es)].
  - constructor; [exact Hm|exact Su|exact Uu|exact Lu| |]; intros i Hi; [apply Mu; now apply unmatched_spec|apply unmatched_spec; now apply Mu].
  - exact Tu.
  - unfold SI in Su. rewrite Su. unfold cnt. pose proof (ps_of_list_keys _ _ (nodup_enum _ m0 0) Eu) as P. rewrite (Permutation.Permutation_length P).
    apply Nat.lt_succ_r. apply nodup_bound; [exact (nodup_enum _ m0 0)|].
    intros x Hx. apply unmatched_spec in Hx. rewrite <- (mr_len _ _ Hm). apply nth_error_Some. congruence.
  - destruct (ps_pop_total s Ts Ss Ns) as (k & s' & E' & _). congruence.
  - destruct (ps_discard_total k s Ts) as (s' & E' & _). congruence.
Qed.

Theorem parsed_matching_total smiles attributable m0 g : smiles_to_mol smiles attributable = Ok m0 -> pruned_ds m0 = Ok g -> exists r, find_perfect_matching g = Ok r.
Proof.
  intros Ep Eg. unfold pruned_ds in Eg. destruct (kept_nodes_of m0 (ds_keys (m_ds m0))) as [kept|] eqn:Ek; cbn [bind] in Eg; [|discriminate].
  assert (Hns : NoSelf m0).
  { destruct (parsed_gue _ _ _ Ep) as (_ & _ & _ & _ & Hrow & _). destruct (parsed_gi _ _ _ Ep) as [Hi _].
    intros j d r (row & e0 & Hn & Hin & Hd & _). subst d. destruct (Hi j row e0 Hn Hin) as [_ Hne]. rewrite (proj1 (Hrow _ _ _ Hn Hin)) in Hne. congruence. }
  destruct (pruned_graph_ok m0 kept g (parsed_kpre _ _ _ Ep) (parsed_dsp _ _ _ Ep) Hns Ek Eg) as (GR & NSL & SYM).
  exact (matching_total g GR NSL SYM).
Qed.

Theorem parsed_kekulize_total smiles attributable m0 : smiles_to_mol smiles attributable = Ok m0 -> exists k, kekulize m0 = Ok k.
Proof.
  intro Ep. destruct (kekulize m0) as [k|e] eqn:Ek; [eauto|]. exfalso.
  destruct (kekulize_fails_only_inside_matching m0 e (parsed_kpre _ _ _ Ep) Ek) as (g & Eg & Em).
  destruct (parsed_matching_total _ _ _ _ Ep Eg) as [r Er]. congruence.
Qed.

(* encoder is total: for every string, every table with a '?' entry and both flags it returns, raises EncoderError, or -
   the one escape that is a known finding - the reader's int() raises ValueError on an over-long digit field *)
Theorem encoder_total T smiles strict attribute : (exists v, assoc (lit "?") T = Some v) ->
  (exists r, encoder T smiles strict attribute = Ok r) \/ encoder T smiles strict attribute = Err EncoderError \/ encoder T smiles strict attribute = Err ValueError.
Proof.
  intro Hq. destruct (encoder T smiles strict attribute) as [r|e] eqn:E; [left; eauto|right].
  pose proof (smiles_to_mol_total smiles attribute) as Hp.
  destruct (smiles_to_mol smiles attribute) as [m0|e0] eqn:Ep.
  - destruct (parsed_kekulize_total _ _ _ Ep) as [[m1|] Ek].
    + left. now rewrite (encoder_after_kekulize_outcomes T smiles strict attribute m0 m1 e Hq Ep Ek E).
    + left. unfold encoder in E. rewrite (kekulize_failure_becomes_encoder_error _ smiles strict attribute m0 Ep Ek) in E. congruence.
  - unfold encoder, encoder_c in E. rewrite Ep in E. destruct Hp as [-> | ->]; inversion E; auto.
Qed.
