(* EncFacts.v — C15: encoding_utils.py model vs the list-level spec. *)
From Coq Require Import Ascii String List Arith ZArith NArith Bool Lia.
Import ListNotations.
From Selfies Require Import Base Lex EncUtils BaseFacts WfSpec LexFacts EncSpec.

Lemma render_app a b : render (a ++ b) = render a ++ render b.
Proof. unfold render. apply flat_map_app. Qed.
Lemma tokens_app a b : tokens (a ++ b) = tokens a ++ tokens b.
Proof. unfold tokens. apply flat_map_app. Qed.

Lemma nops_render k : nops k = render (repeat nop_item k).
Proof.
  unfold nops. induction k as [|k IH]; [reflexivity|].
  cbn [repeat concat]. rewrite IH. reflexivity.
Qed.
Lemma tokens_nops k : tokens (repeat nop_item k) = repeat nop k.
Proof. induction k as [|k IH]; [reflexivity|]. cbn [repeat]. rewrite <- IH. reflexivity. Qed.
Lemma wf_nops k : wf (repeat nop_item k).
Proof. apply Forall_forall. intros i H. apply repeat_spec in H. subst. reflexivity. Qed.

Lemma wf_padded l pad : wf l -> wf (padded l pad).
Proof. intro H. unfold padded. apply Forall_app. split; [exact H|apply wf_nops]. Qed.

Lemma tokens_padded l pad :
  tokens (padded l pad) = tokens l ++ repeat nop (pad_count (length (tokens l)) pad).
Proof. unfold padded. now rewrite tokens_app, tokens_nops. Qed.

Lemma length_tokens_padded l pad :
  Z.of_nat (length (tokens (padded l pad))) = Z.max (Z.of_nat (length (tokens l))) pad.
Proof. rewrite tokens_padded, app_length, repeat_length. unfold pad_count. lia. Qed.

(* the padding step of selfies_to_encoding produces render (padded l pad) *)
Lemma pad_step l pad : wf l ->
  (if (Z.of_nat (len_selfies (render l)) <? pad)%Z
   then render l ++ nops (Z.to_nat (pad - Z.of_nat (len_selfies (render l)))) else render l)
  = render (padded l pad).
Proof.
  intro H. rewrite len_wf by exact H. unfold padded, pad_count.
  rewrite render_app, <- nops_render.
  destruct (Z.ltb_spec (Z.of_nat (length (tokens l))) pad) as [L|L]; [reflexivity|].
  replace (Z.to_nat (pad - Z.of_nat (length (tokens l)))) with 0%nat by lia.
  cbn. now rewrite app_nil_r.
Qed.

Lemma encode_tokens_labels stoi : forall ts,
  encode_tokens stoi ts false = match labels stoi ts with Some l => Ok l | None => Err KeyError end.
Proof.
  induction ts as [|t r IH]; [reflexivity|]. cbn [encode_tokens labels].
  destruct (assoc t stoi); [|reflexivity]. rewrite IH. destruct (labels stoi r); reflexivity.
Qed.

Definition enc_ok (s : str) : Prop := s = lit "label" \/ s = lit "one_hot" \/ s = lit "both".

(* ---- label ---- *)
Theorem s2e_label : forall stoi l pad, wf l ->
  selfies_to_encoding (render l) stoi pad (lit "label") =
  match labels stoi (tokens (padded l pad)) with Some ints => Ok (Label ints) | None => Err KeyError end.
Proof.
  intros stoi l pad H. unfold selfies_to_encoding.
  change (str_eqb (lit "label") (lit "label")) with true. cbn [negb orb]. cbv zeta.
  rewrite (pad_step l pad H), (split_wf _ (wf_padded l pad H)), encode_tokens_labels.
  destruct (labels stoi (tokens (padded l pad))); reflexivity.
Qed.

(* ---- one-hot rows ---- *)
Lemma map_zero_above : forall n m t, (t < m)%nat ->
  map (fun j => if (Z.of_nat j =? Z.of_nat t)%Z then 1%Z else 0%Z) (seq m n) = repeat 0%Z n.
Proof.
  induction n as [|n IH]; intros m t H; [reflexivity|].
  cbn [seq map repeat]. rewrite IH by lia.
  destruct (Z.eqb_spec (Z.of_nat m) (Z.of_nat t)); [lia|reflexivity].
Qed.

Lemma upd_repeat_unit : forall n k i, (i < n)%nat ->
  upd (repeat 0%Z n) i (fun _ => 1%Z) =
  map (fun j => if (Z.of_nat j =? Z.of_nat (k + i))%Z then 1%Z else 0%Z) (seq k n).
Proof.
  induction n as [|n IH]; intros k i Hi; [lia|].
  cbn [repeat seq map]. destruct i as [|i].
  - cbn [upd]. rewrite Nat.add_0_r, Z.eqb_refl, map_zero_above by lia. reflexivity.
  - cbn [upd]. rewrite (IH (S k) i) by lia.
    destruct (Z.eqb_spec (Z.of_nat k) (Z.of_nat (k + S i))); [lia|].
    replace (S k + i)%nat with (k + S i)%nat by lia. reflexivity.
Qed.

Lemma one_hot_row_unit n i : (0 <= i < Z.of_nat n)%Z -> one_hot_row n i = Ok (unit_row n i).
Proof.
  intro H. unfold one_hot_row, unit_row.
  destruct (Z.ltb_spec i (- Z.of_nat n)); [lia|]. destruct (Z.leb_spec (Z.of_nat n) i); [lia|].
  cbn [orb]. destruct (Z.ltb_spec i 0); [lia|].
  rewrite (upd_repeat_unit n 0 (Z.to_nat i)) by lia. f_equal.
  apply map_ext. intro j. cbn [Nat.add]. now rewrite Z2Nat.id by lia.
Qed.

Lemma one_hot_rows_unit n : forall ints, Forall (fun i => 0 <= i < Z.of_nat n)%Z ints ->
  one_hot_rows n ints = Ok (map (unit_row n) ints).
Proof.
  induction ints as [|i r IH]; intro H; [reflexivity|]. inversion H; subst.
  cbn [one_hot_rows map]. rewrite one_hot_row_unit by assumption. cbn [bind].
  rewrite IH by assumption. reflexivity.
Qed.

Lemma labels_range stoi itos : vocab_ok stoi itos -> forall ts ints, labels stoi ts = Some ints ->
  Forall (fun i => 0 <= i < Z.of_nat (length stoi))%Z ints.
Proof.
  intros (_ & Hr & _). induction ts as [|t r IH]; intros ints H; cbn [labels] in H.
  - inversion H. constructor.
  - destruct (assoc t stoi) eqn:E; [|discriminate]. destruct (labels stoi r) eqn:E2; [|discriminate].
    inversion H; subst. constructor; [eapply Hr; eassumption|now apply IH].
Qed.

Theorem s2e_one_hot : forall stoi itos l pad ints, wf l -> vocab_ok stoi itos ->
  labels stoi (tokens (padded l pad)) = Some ints ->
  selfies_to_encoding (render l) stoi pad (lit "one_hot") = Ok (OneHot (map (unit_row (length stoi)) ints)) /\
  selfies_to_encoding (render l) stoi pad (lit "both") = Ok (Both ints (map (unit_row (length stoi)) ints)).
Proof.
  intros stoi itos l pad ints H Hv Hl. pose proof (labels_range _ _ Hv _ _ Hl) as Hr.
  split; unfold selfies_to_encoding.
  - change (str_eqb (lit "one_hot") (lit "label")) with false.
    change (str_eqb (lit "one_hot") (lit "one_hot")) with true. cbn [negb orb]. cbv zeta.
    rewrite (pad_step l pad H), (split_wf _ (wf_padded l pad H)), encode_tokens_labels, Hl. cbn [bind].
    rewrite one_hot_rows_unit by exact Hr. reflexivity.
  - change (str_eqb (lit "both") (lit "label")) with false.
    change (str_eqb (lit "both") (lit "one_hot")) with false.
    change (str_eqb (lit "both") (lit "both")) with true. cbn [negb orb]. cbv zeta.
    rewrite (pad_step l pad H), (split_wf _ (wf_padded l pad H)), encode_tokens_labels, Hl. cbn [bind].
    rewrite one_hot_rows_unit by exact Hr. reflexivity.
Qed.

Theorem bad_enc_type_rejected : forall s stoi pad et,
  et <> lit "label" -> et <> lit "one_hot" -> et <> lit "both" ->
  selfies_to_encoding s stoi pad et = Err ValueError.
Proof.
  intros s stoi pad et H1 H2 H3. unfold selfies_to_encoding.
  apply str_eqb_neq in H1, H2, H3. rewrite H1, H2, H3. reflexivity.
Qed.

(* exactly one 1 per row, at the label *)
Lemma unit_row_spec n i : (0 <= i < Z.of_nat n)%Z ->
  length (unit_row n i) = n /\
  forall j, (j < n)%nat -> nth j (unit_row n i) 0%Z = if (Z.of_nat j =? i)%Z then 1%Z else 0%Z.
Proof.
  intro H. unfold unit_row. split; [now rewrite map_length, seq_length|].
  intros j Hj. set (f := fun j : nat => if (Z.of_nat j =? i)%Z then 1%Z else 0%Z).
  assert (E : f n = 0%Z). { unfold f. destruct (Z.eqb_spec (Z.of_nat n) i); [lia|reflexivity]. }
  replace (nth j (map f (seq 0 n)) 0%Z) with (nth j (map f (seq 0 n)) (f n)) by (now rewrite E).
  rewrite map_nth, seq_nth by exact Hj. reflexivity.
Qed.

(* ---- decoding ---- *)
Lemma lookup_all_labels stoi itos : vocab_ok stoi itos -> forall ts ints,
  labels stoi ts = Some ints -> lookup_all itos ints = Ok ts.
Proof.
  intros (_ & _ & Hb). induction ts as [|t r IH]; intros ints H; cbn [labels] in H.
  - inversion H. reflexivity.
  - destruct (assoc t stoi) eqn:E; [|discriminate]. destruct (labels stoi r) eqn:E2; [|discriminate].
    inversion H; subst. cbn [lookup_all]. rewrite (Hb _ _ E), (IH _ eq_refl). reflexivity.
Qed.

Lemma index_of_one_unit : forall n k i, (i < n)%nat ->
  index_of_one (map (fun j => if (Z.of_nat j =? Z.of_nat (k + i))%Z then 1%Z else 0%Z) (seq k n)) (Z.of_nat k)
  = Ok (Z.of_nat (k + i)).
Proof.
  induction n as [|n IH]; intros k i Hi; [lia|]. cbn [seq map index_of_one].
  destruct i as [|i].
  - rewrite Nat.add_0_r, Z.eqb_refl. reflexivity.
  - destruct (Z.eqb_spec (Z.of_nat k) (Z.of_nat (k + S i))); [lia|].
    change 0%Z with 0%Z. cbv iota. change (0 =? 1)%Z with false. cbv iota.
    replace (Z.of_nat k + 1)%Z with (Z.of_nat (S k)) by lia.
    replace (k + S i)%nat with (S k + i)%nat by lia. apply IH. lia.
Qed.

Lemma rows_to_ints_unit n : forall ints, Forall (fun i => 0 <= i < Z.of_nat n)%Z ints ->
  rows_to_ints (map (unit_row n) ints) = Ok ints.
Proof.
  induction ints as [|i r IH]; intro H; [reflexivity|]. inversion H; subst.
  cbn [map rows_to_ints]. unfold unit_row at 1.
  pose proof (index_of_one_unit n 0 (Z.to_nat i) ltac:(lia)) as E.
  cbn [Nat.add] in E. rewrite Z2Nat.id in E by lia. change (Z.of_nat 0) with 0%Z in E.
  rewrite E. cbn [bind]. rewrite IH by assumption. reflexivity.
Qed.

Theorem e2s_roundtrip : forall stoi itos l pad ints, wf l -> vocab_ok stoi itos ->
  labels stoi (tokens (padded l pad)) = Some ints ->
  encoding_to_selfies (InLabel ints) itos (lit "label") = Ok (render l ++ nops (pad_count (length (tokens l)) pad)) /\
  encoding_to_selfies (InOneHot (map (unit_row (length stoi)) ints)) itos (lit "one_hot")
    = Ok (render l ++ nops (pad_count (length (tokens l)) pad)).
Proof.
  intros stoi itos l pad ints H Hv Hl.
  assert (Hr : render (padded l pad) = render l ++ nops (pad_count (length (tokens l)) pad)).
  { unfold padded. now rewrite render_app, nops_render. }
  split; unfold encoding_to_selfies.
  - change (str_eqb (lit "label") (lit "label")) with true.
    change (str_eqb (lit "label") (lit "one_hot")) with false. cbn [negb orb bind].
    rewrite (lookup_all_labels _ _ Hv _ _ Hl). cbn [bind]. now rewrite concat_tokens, Hr.
  - change (str_eqb (lit "one_hot") (lit "label")) with false.
    change (str_eqb (lit "one_hot") (lit "one_hot")) with true. cbn [negb orb].
    rewrite rows_to_ints_unit by (eapply labels_range; eassumption). cbn [bind].
    rewrite (lookup_all_labels _ _ Hv _ _ Hl). cbn [bind]. now rewrite concat_tokens, Hr.
Qed.

(* ---- batch functions ---- *)
Theorem batch_is_elementwise : forall stoi pad ss ms,
  Forall2 (fun s m => selfies_to_encoding s stoi pad (lit "one_hot") = Ok (OneHot m)) ss ms ->
  batch_selfies_to_flat_hot ss stoi pad = Ok (map (@concat Z) ms).
Proof.
  intros stoi pad ss ms H. induction H as [|s m ss ms Hs _ IH]; [reflexivity|].
  cbn [batch_selfies_to_flat_hot map]. rewrite Hs. cbn [bind]. rewrite IH. reflexivity.
Qed.

Theorem batch_propagates_errors : forall stoi pad s r e,
  selfies_to_encoding s stoi pad (lit "one_hot") = Err e ->
  batch_selfies_to_flat_hot (s :: r) stoi pad = Err e.
Proof. intros. cbn [batch_selfies_to_flat_hot]. rewrite H. reflexivity. Qed.

Lemma length_concat_rows n : forall rows : list (list Z), Forall (fun r => length r = n) rows ->
  length (concat rows) = (length rows * n)%nat.
Proof.
  induction rows as [|r rows IH]; intro H; [reflexivity|]. inversion H; subst.
  cbn [concat length]. rewrite app_length, IH by assumption. lia.
Qed.

Lemma chunks_concat n : forall rows : list (list Z), Forall (fun r => length r = n) rows ->
  chunks (length rows) n (concat rows) = rows.
Proof.
  induction rows as [|r rows IH]; intro H; [reflexivity|]. inversion H; subst.
  cbn [length concat chunks]. rewrite firstn_app, Nat.sub_diag, firstn_all. cbn [firstn].
  rewrite app_nil_r, skipn_app, Nat.sub_diag, skipn_all. cbn [skipn app]. now rewrite IH.
Qed.

Theorem flat_hot_roundtrip : forall stoi itos pad (ls : list (list item)) intss,
  vocab_ok stoi itos -> (0 < length stoi)%nat -> Forall wf ls ->
  Forall2 (fun l ints => labels stoi (tokens (padded l pad)) = Some ints) ls intss ->
  exists flats,
    batch_selfies_to_flat_hot (map render ls) stoi pad = Ok flats /\
    batch_flat_hot_to_selfies flats itos =
      Ok (map (fun l => render l ++ nops (pad_count (length (tokens l)) pad)) ls).
Proof.
  intros stoi itos pad ls intss Hv Hn Hw H2.
  exists (map (@concat Z) (map (map (unit_row (length stoi))) intss)). split.
  - apply batch_is_elementwise.
    revert Hw. induction H2 as [|l ints ls intss Hl _ IH]; intro Hw; [constructor|].
    inversion Hw; subst. cbn [map]. constructor; [|now apply IH].
    now destruct (s2e_one_hot stoi itos l pad ints H1 Hv Hl).
  - revert Hw. induction H2 as [|l ints ls intss Hl _ IH]; intro Hw; [reflexivity|].
    inversion Hw; subst. cbn [map batch_flat_hot_to_selfies].
    destruct Hv as (Hlen & Hv2). rewrite Hlen.
    destruct (Nat.eqb_spec (length stoi) 0) as [E|_]; [lia|].
    assert (Hrows : Forall (fun r => length r = length stoi) (map (unit_row (length stoi)) ints)).
    { apply Forall_forall. intros r Hr. apply in_map_iff in Hr as (i & <- & _).
      unfold unit_row. now rewrite map_length, seq_length. }
    rewrite (length_concat_rows _ _ Hrows), Nat.mod_mul, Nat.eqb_refl by lia. cbn [negb].
    rewrite Nat.div_mul by lia. rewrite chunks_concat by exact Hrows.
    destruct (e2s_roundtrip stoi itos l pad ints H1 (conj Hlen Hv2) Hl) as [_ E2].
    rewrite E2. cbn [bind]. rewrite IH by assumption. reflexivity.
Qed.

Theorem ragged_rejected : forall flat r itos, (0 < length itos)%nat ->
  Nat.modulo (length flat) (length itos) <> 0%nat ->
  batch_flat_hot_to_selfies (flat :: r) itos = Err ValueError.
Proof.
  intros flat r itos Hn Hm. cbn [batch_flat_hot_to_selfies].
  destruct (Nat.eqb_spec (length itos) 0); [lia|].
  destruct (Nat.eqb_spec (length flat mod length itos) 0); [contradiction|reflexivity].
Qed.

(* non-vacuity: a concrete vocabulary and string meet the hypotheses *)
Example c15_example :
  let stoi := [(lit "[nop]", 0%Z); (lit "[C]", 1%Z); (lit "[F]", 2%Z); (lit ".", 3%Z)] in
  let l := [(lit "C", true); (lit "F", false)] in
  labels stoi (tokens (padded l 5)) = Some [1; 3; 2; 0; 0]%Z /\
  selfies_to_encoding (render l) stoi 5 (lit "label") = Ok (Label [1; 3; 2; 0; 0]%Z).
Proof. split; vm_compute; reflexivity. Qed.
