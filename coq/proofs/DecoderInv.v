(* DecoderInv.v — the invariant of the decoder's molecular graph (C01, C08):
   lengths agree, atoms are non-aromatic with non-negative capacity, every bond
   has an existing target, order 1..3, tree bonds point forward, ring bonds are
   present at both ends, and NO ATOM'S BOND COUNT EXCEEDS ITS CAPACITY.
   It holds of the empty graph and is preserved by every operation the decoder
   performs; the derivation keeps "count(prev) + state <= capacity(prev)". *)
From Coq Require Import Ascii String List Arith ZArith NArith Bool Lia.
Import ListNotations.
From Selfies Require Import Base Generated Lex Atoms Grammar Compat Decoder BaseFacts StateFacts DecoderBasics ConfigFacts.
Local Open Scope Z_scope.

(* ---------- list updates ---------- *)
Lemma nth_error_upd_same {A} (l : list A) i f x : nth_error l i = Some x -> nth_error (upd l i f) i = Some (f x).
Proof.
  revert i. induction l as [|y l IH]; intros [|i] H; cbn in *; try discriminate.
  - inversion H; reflexivity.
  - now apply IH.
Qed.

Lemma nth_error_upd {A} (l : list A) i j f :
  nth_error (upd l i f) j = if Nat.eqb i j then option_map f (nth_error l j) else nth_error l j.
Proof.
  destruct (Nat.eqb_spec i j) as [->|H].
  - destruct (nth_error l j) eqn:E; cbn.
    + now apply nth_error_upd_same.
    + apply nth_error_None. rewrite upd_length. now apply nth_error_None.
  - now apply nth_error_upd_other.
Qed.

Section Inv.
(* what is known of every atom in the graph and the capacity stored with it (instantiated at the end) *)
Variable P : atom -> Z -> Prop.
(* a further invariant of the graph, preserved by the primitive operations (instantiated in DecoderSum.v) *)
Variable Q : dmol -> Prop.

(* ---------- accessors ---------- *)
Definition natoms (m : dmol) : nat := length (atoms m).
Definition cnt (m : dmol) (i : nat) : Z := nth i (counts m) 0.
Definition capOf (m : dmol) (i : nat) : Z := match nth_error (atoms m) i with Some (_, c, _) => c | None => 0 end.
Definition row (m : dmol) (i : nat) : list dbond := nth i (adj m) [].

Definition bond_ok (m : dmol) (i : nat) (e : dbond) : Prop :=
  (b_dst e < natoms m)%nat /\ 1 <= b_order e <= 3 /\
  (b_ring e = false -> (i < b_dst e)%nat) /\
  (b_ring e = true -> exists e', In e' (row m (b_dst e)) /\ b_dst e' = i).

Record MolWF (m : dmol) : Prop := {
  wf_adj : length (adj m) = natoms m;
  wf_cnt : length (counts m) = natoms m;
  wf_atoms : forall i a c at_, nth_error (atoms m) i = Some (a, c, at_) -> 0 <= c /\ a_aromatic a = false /\ P a c;
  wf_bonds : forall i e, In e (row m i) -> bond_ok m i e;
  wf_val : forall i, (i < natoms m)%nat -> cnt m i <= capOf m i;
  wf_roots : forall r, In r (roots m) -> (r < natoms m)%nat;
  wf_extra : Q m
}.

Hypothesis HQ0 : Q empty_mol.
Hypothesis HQ_atom : forall m a cap at_ root, MolWF m -> Q (fst (add_atom m a cap at_ root)).
Hypothesis HQ_bond : forall m src dst order st at_ m', MolWF m -> (src < dst)%nat -> (dst < natoms m)%nat ->
  1 <= order <= 3 -> nth dst (counts m) 0 = 0 -> add_bond m src dst order st at_ = Ok m' -> Q m'.
Hypothesis HQ_upd : forall m l rr new m', MolWF m -> (l < rr)%nat -> (rr < natoms m)%nat -> 1 <= new <= 3 ->
  update_bond_order m l rr new = Ok m' -> Q m'.
Hypothesis HQ_ring : forall m l rr order sa sb pl pr m', MolWF m -> (l < rr)%nat -> (rr < natoms m)%nat -> 1 <= order <= 3 ->
  has_bond m l rr = false -> add_ring_bond m l rr order sa sb pl pr = Ok m' -> Q m'.

(* a second invariant, which need only hold between the steps of the derivation: an atom is added either as a root,
   or together with the bond from its parent (instantiated in DecoderTree.v) *)
Variable Q2 : dmol -> Prop.
Hypothesis HQ2_0 : Q2 empty_mol.
Hypothesis HQ2_root : forall m a cap at_, MolWF m -> Q2 m -> Q2 (fst (add_atom m a cap at_ true)).
Hypothesis HQ2_step : forall m a cap at_ p mu st at2 m3, MolWF m -> Q2 m -> (p < natoms m)%nat -> 1 <= mu <= 3 ->
  add_bond (fst (add_atom m a cap at_ false)) p (natoms m) mu st at2 = Ok m3 -> Q2 m3.
Hypothesis HQ2_upd : forall m l rr new m', MolWF m -> Q2 m -> (l < rr)%nat -> (rr < natoms m)%nat -> 1 <= new <= 3 ->
  update_bond_order m l rr new = Ok m' -> Q2 m'.
Hypothesis HQ2_ring : forall m l rr order sa sb pl pr m', MolWF m -> Q2 m -> (l < rr)%nat -> (rr < natoms m)%nat -> 1 <= order <= 3 ->
  has_bond m l rr = false -> add_ring_bond m l rr order sa sb pl pr = Ok m' -> Q2 m'.

Lemma wf_empty : MolWF empty_mol.
Proof.
  constructor; cbn; try reflexivity.
  - intros [|i]; discriminate.
  - intros [|i] e H; contradiction.
  - intros i H. lia.
  - intros r [].
  - exact HQ0.
Qed.

Lemma row_nil_out m i : (length (adj m) <= i)%nat -> row m i = [].
Proof. intro H. unfold row. now apply nth_overflow. Qed.

(* ---------- add_atom ---------- *)
Lemma add_atom_facts m a cap at_ root :
  let m' := fst (add_atom m a cap at_ root) in
  snd (add_atom m a cap at_ root) = natoms m /\
  atoms m' = atoms m ++ [(a, cap, at_)] /\ counts m' = counts m ++ [0] /\ adj m' = adj m ++ [[]] /\
  roots m' = (if root then roots m ++ [natoms m] else roots m).
Proof. cbn. repeat split. Qed.

Lemma add_atom_wf m a cap at_ root : MolWF m -> 0 <= cap -> a_aromatic a = false -> P a cap ->
  MolWF (fst (add_atom m a cap at_ root)).
Proof.
  intros Hm Hcap Har HPa. pose proof Hm as [Ha Hc Hat Hb Hv Hr HQm].
  destruct (add_atom_facts m a cap at_ root) as (_ & Ea & Ec & Ead & Ero).
  set (m' := fst (add_atom m a cap at_ root)) in *.
  assert (Hn : natoms m' = S (natoms m)) by (unfold natoms; rewrite Ea, app_length; cbn; lia).
  constructor.
  - rewrite Ead, app_length, Ha, Hn. cbn. lia.
  - rewrite Ec, app_length, Hc, Hn. cbn. lia.
  - intros i a0 c at0 E. rewrite Ea in E.
    destruct (Nat.lt_ge_cases i (natoms m)) as [L|L].
    + rewrite nth_error_app1 in E by exact L. eapply Hat; eassumption.
    + rewrite nth_error_app2 in E by exact L. destruct (i - length (atoms m))%nat as [|k]; cbn in E.
      * inversion E; subst. auto.
      * destruct k; discriminate.
  - intros i e Hin. unfold row in Hin. rewrite Ead in Hin.
    destruct (Nat.lt_ge_cases i (natoms m)) as [L|L].
    + rewrite app_nth1 in Hin by (rewrite Ha; exact L).
      destruct (Hb i e Hin) as (B1 & B2 & B3 & B4). split; [rewrite Hn; lia|]. split; [exact B2|]. split; [exact B3|].
      intro Hr'. destruct (B4 Hr') as (e' & He' & Hd). exists e'. split; [|exact Hd].
      unfold row. rewrite Ead, app_nth1 by (rewrite Ha; exact B1). exact He'.
    + rewrite app_nth2 in Hin by (rewrite Ha; exact L). rewrite Ha in Hin.
      destruct (i - natoms m)%nat as [|k]; cbn in Hin; [contradiction|destruct k; contradiction].
  - intros i Hi. unfold cnt, capOf. rewrite Ec, Ea.
    destruct (Nat.lt_ge_cases i (natoms m)) as [L|L].
    + rewrite app_nth1 by (rewrite Hc; exact L). rewrite nth_error_app1 by exact L. now apply Hv.
    + assert (i = natoms m) by lia. subst i.
      rewrite app_nth2 by (rewrite Hc; lia). rewrite nth_error_app2 by (unfold natoms; lia).
      rewrite Hc. unfold natoms. rewrite !Nat.sub_diag. cbn. exact Hcap.
  - intros r Hin. rewrite Ero in Hin. rewrite Hn. destruct root.
    + apply in_app_iff in Hin as [Hin|[<-|[]]]; [apply Hr in Hin|]; lia.
    + apply Hr in Hin. lia.
  - apply HQ_atom. exact Hm.
Qed.

(* ---------- add_bond ---------- *)
Lemma nth_upd {A} (l : list A) i j f d :
  nth j (upd l i f) d = if Nat.eqb i j && (j <? length l)%nat then f (nth j l d) else nth j l d.
Proof.
  revert i j. induction l as [|x l IH]; intros i j.
  - cbn. destruct j; destruct i; cbn; try reflexivity; now rewrite andb_false_r.
  - destruct i as [|i]; destruct j as [|j]; cbn [upd nth length]; try reflexivity.
    rewrite IH. cbn [Nat.eqb]. replace (S j <? S (length l))%nat with (j <? length l)%nat by reflexivity. reflexivity.
Qed.

Lemma add_bond_ok m src dst order st at_ :
  MolWF m -> (src < dst)%nat -> (dst < natoms m)%nat -> 1 <= order <= 3 ->
  cnt m src + order <= capOf m src -> cnt m dst + order <= capOf m dst -> cnt m dst = 0 ->
  exists m', add_bond m src dst order st at_ = Ok m' /\ MolWF m' /\
    atoms m' = atoms m /\ roots m' = roots m /\
    (forall i, cnt m' i = if Nat.eqb i src || Nat.eqb i dst then cnt m i + order else cnt m i).
Proof.
  intros Hm Hlt Hd Ho Hs Hdv Hz. pose proof Hm as [Ha Hc Hat Hb Hv Hr HQm].
  unfold add_bond. assert (E1 : (src <? dst)%nat = true) by (apply Nat.ltb_lt; exact Hlt). rewrite E1. cbn [negb].
  assert (E2 : (src <? length (adj m))%nat && (dst <? length (counts m))%nat = true).
  { rewrite Ha, Hc. apply andb_true_iff. split; apply Nat.ltb_lt; lia. }
  rewrite E2. cbn [negb]. eexists. split; [reflexivity|].
  set (b := {| b_src := src; b_dst := dst; b_order := order; b_stereo := st; b_ring := false; b_attr := at_ |}).
  set (m' := {| atoms := atoms m; roots := roots m; adj := upd (adj m) src (fun l => l ++ [b]);
                counts := upd (upd (counts m) src (fun c => c + order)) dst (fun c => c + order) |}).
  assert (Hrow : forall i, row m' i = if Nat.eqb i src then row m i ++ [b] else row m i).
  { intro i. unfold row, m'. cbn [adj]. rewrite nth_upd. rewrite Nat.eqb_sym.
    destruct (Nat.eqb_spec i src) as [->|Hne]; cbn [andb]; [|reflexivity].
    assert (X : (src <? length (adj m))%nat = true) by (apply Nat.ltb_lt; lia). now rewrite X. }
  assert (Hcnt : forall i, cnt m' i = if Nat.eqb i src || Nat.eqb i dst then cnt m i + order else cnt m i).
  { intro i. unfold cnt, m'. cbn [counts]. rewrite !nth_upd, !upd_length.
    rewrite (Nat.eqb_sym dst i), (Nat.eqb_sym src i).
    assert (Xs : (src <? length (counts m))%nat = true) by (apply Nat.ltb_lt; lia).
    assert (Xd : (dst <? length (counts m))%nat = true) by (apply Nat.ltb_lt; lia).
    destruct (Nat.eqb_spec i src) as [E1'|N1]; destruct (Nat.eqb_spec i dst) as [E2'|N2]; cbn [andb orb].
    - exfalso. lia.
    - subst i. now rewrite Xs.
    - subst i. now rewrite Xd.
    - reflexivity. }
  split; [|split; [reflexivity|split; [reflexivity|exact Hcnt]]].
  constructor.
  - unfold m'. cbn [adj atoms natoms]. now rewrite upd_length.
  - unfold m'. cbn [counts atoms natoms]. now rewrite !upd_length.
  - exact Hat.
  - intros i e Hin. rewrite Hrow in Hin.
    assert (Hold : forall e0, In e0 (row m i) -> bond_ok m' i e0).
    { intros e0 H0. destruct (Hb i e0 H0) as (B1 & B2 & B3 & B4). split; [exact B1|]. split; [exact B2|]. split; [exact B3|].
      intro R. destruct (B4 R) as (e' & He' & Hd'). exists e'. split; [|exact Hd'].
      rewrite Hrow. destruct (Nat.eqb (b_dst e0) src); [apply in_app_iff; now left|exact He']. }
    destruct (Nat.eqb_spec i src) as [->|Hne]; [|now apply Hold].
    apply in_app_iff in Hin as [Hin|[<-|[]]]; [now apply Hold|].
    split; [exact Hd|]. split; [exact Ho|]. split; [intros _; exact Hlt|]. cbn. discriminate.
  - intros i Hi. rewrite Hcnt. unfold capOf in *. cbn [atoms m'].
    destruct (Nat.eqb_spec i src) as [->|N1]; cbn [orb]; [exact Hs|].
    destruct (Nat.eqb_spec i dst) as [->|N2]; [exact Hdv|]. now apply Hv.
  - exact Hr.
  - apply (HQ_bond m src dst order st at_ m' Hm Hlt Hd Ho Hz). unfold add_bond. rewrite E1, E2. reflexivity.
Qed.

(* ---------- facts about atom symbols ---------- *)
Definition tok_ok (t : str) : Prop := exists o, process_atom_nocache t = Ok o.

Lemma bond_order_range bc : 1 <= fst (smiles_to_bond2 bc) / 2 <= 3.
Proof.
  unfold smiles_to_bond2. destruct bc as [c|]; cbn [fst]; [|cbn; lia].
  assert (F : forallb (fun kv => (1 <=? snd kv / 2) && (snd kv / 2 <=? 3)) smiles_bond_orders2 = true) by (vm_compute; reflexivity).
  destruct (assocN c smiles_bond_orders2) as [o|] eqn:E; [|cbn; lia].
  assert (Hin : In (c, o) smiles_bond_orders2 \/ True) by (right; exact I).
  assert (G : forall l, assocN c l = Some o -> In o (map snd l)).
  { induction l as [|[k v] l IH]; cbn; [discriminate|]. destruct (N.eqb c k); [intro X; inversion X; now left|right; now apply IH]. }
  apply G in E. rewrite forallb_forall in F. apply in_map_iff in E as ([k v] & <- & Hk). specialize (F _ Hk). cbn [snd] in *.
  apply andb_true_iff in F as [A B]. apply Z.leb_le in A, B. lia.
Qed.

Lemma nocache_facts t o st a : process_atom_nocache t = Ok (Some (o, st, a)) -> 1 <= o <= 3 /\ a_aromatic a = false.
Proof.
  unfold process_atom_nocache. destruct (match_selfies_atom t) as [f|]; [|discriminate].
  destruct (smiles_to_bond2 (f_bond f)) as [o2 stereo] eqn:Eb.
  pose proof (bond_order_range (f_bond f)) as R. rewrite Eb in R. cbn [fst] in R.
  destruct (mem_str _ organic_subset).
  - intro H. inversion H; subst. split; [exact R|reflexivity].
  - destruct (match f_iso f with [] => _ | _ => _ end) as [iso|]; cbn [bind]; [|discriminate].
    destruct (mem_str (f_elem f) elements); cbn [negb]; [|discriminate].
    destruct (match f_h f with [] => _ | _ => _ end) as [h|]; cbn [bind]; [|discriminate].
    destruct (match f_charge f with [] => _ | _ => _ end) as [chg|]; cbn [bind]; [|discriminate].
    intro H. inversion H; subst. split; [exact R|reflexivity].
Qed.

Section WithTable.
Variable T : table.
Hypothesis Hq : exists c, assoc (lit "?") T = Some c.
Hypothesis Hnonneg : forall k v, In (k, v) T -> 0 <= v.

Lemma capacity_total e ch : exists v, get_bonding_capacity T e ch = Ok v.
Proof.
  unfold get_bonding_capacity. destruct (assoc (constraint_key e ch) T); [eauto|].
  destruct Hq as [c ->]. eauto.
Qed.

Lemma pas_total t : tok_ok t -> exists r, process_atom_symbol T t = Ok r.
Proof.
  intros [o Ho]. unfold process_atom_symbol, process_atom_symbol_c. rewrite Ho. cbn [bind].
  destruct o as [[[ord st] a]|]; [|eauto].
  unfold bonding_capacity_c. destruct (capacity_total (a_element a) (a_charge a)) as [v ->]. cbn [bind].
  destruct (_ <? 0); eauto.
Qed.

Lemma pas_facts t o st a cap : process_atom_symbol T t = Ok (Some (o, st, a, cap)) ->
  1 <= o <= 3 /\ 0 <= cap /\ a_aromatic a = false.
Proof.
  unfold process_atom_symbol, process_atom_symbol_c. destruct (process_atom_nocache t) as [[[[o' st'] a']|]|] eqn:E; cbn [bind]; try discriminate.
  destruct (bonding_capacity_c (get_bonding_capacity T) a') as [c|]; cbn [bind]; [|discriminate].
  destruct (Z.ltb_spec c 0) as [L|L]; [discriminate|]. intro X. inversion X; subst.
  destruct (nocache_facts _ _ _ _ E). auto.
Qed.
End WithTable.

(* ---------- the derivation ---------- *)
Definition StOK (m : dmol) (state : Z) (prev : prev_atom) : Prop :=
  0 <= state /\ (0 < state -> exists p, prev = PAtom p /\ (p < natoms m)%nat /\ cnt m p + state <= capOf m p).

Definition RingsOK (m : dmol) (rings : list ringreq) : Prop :=
  Forall (fun r => (r_l r <= r_r r)%nat /\ (r_r r < natoms m)%nat /\ 1 <= r_order r <= 3) rings.

(* what a derivation instance started in (m, state, prev) may have done when it returns m' *)
Definition Frame (m : dmol) (prev : prev_atom) (state : Z) (m' : dmol) : Prop :=
  (natoms m <= natoms m')%nat /\
  (forall i, (i < natoms m)%nat -> capOf m' i = capOf m i) /\
  (forall q, (q < natoms m)%nat -> prev <> PAtom q -> cnt m' q = cnt m q) /\
  (forall p, prev = PAtom p -> (p < natoms m)%nat -> cnt m' p <= cnt m p + state).

Lemma Frame_refl m prev state : 0 <= state -> Frame m prev state m.
Proof. intro H. repeat split; auto; intros; lia. Qed.

Lemma Frame_weaken m prev s s' m' : s' <= s -> Frame m prev s' m' -> Frame m prev s m'.
Proof. intros H (A & B & C & D). repeat split; auto. intros p E L. specialize (D p E L). lia. Qed.

Lemma Frame_seq m prev s1 s2 m2 m' : Frame m prev s1 m2 -> Frame m2 prev s2 m' -> Frame m prev (s1 + s2) m'.
Proof.
  intros (A1 & B1 & C1 & D1) (A2 & B2 & C2 & D2). repeat split.
  - lia.
  - intros i Hi. rewrite B2 by lia. now apply B1.
  - intros q Hq Hne. rewrite C2 by (auto; lia). now apply C1.
  - intros p E L. specialize (D1 p E L). specialize (D2 p E ltac:(lia)). lia.
Qed.

Lemma RingsOK_ext m m' rings : (natoms m <= natoms m')%nat -> RingsOK m rings -> RingsOK m' rings.
Proof. intros H R. eapply Forall_impl; [|exact R]. intros r (A & B & C). repeat split; auto; lia. Qed.

Definition Post (ts : toks) (m : dmol) (state : Z) (prev : prev_atom) (r : toks * dmol * list ringreq * nat) : Prop :=
  let '(ts', m', rings', _) := r in
  MolWF m' /\ RingsOK m' rings' /\ Frame m prev state m' /\ (exists pre, ts = pre ++ ts') /\ Q2 m'.

Definition Good (ts : toks) (m : dmol) (state : Z) (prev : prev_atom) (x : res (toks * dmol * list ringreq * nat)) : Prop :=
  match x with Ok r => Post ts m state prev r | Err e => e = DecoderError end.

Lemma Good_suffix ts0 ts m state prev x : (exists pre, ts0 = pre ++ ts) -> Good ts m state prev x -> Good ts0 m state prev x.
Proof.
  intros [pre0 ->] H. destruct x as [[[[ts' m'] rings'] nd']|e]; [|exact H].
  unfold Good, Post in *. destruct H as (A & B & C & (pre & ->) & D).
  split; [exact A|]. split; [exact B|]. split; [exact C|]. split; [|exact D]. exists (pre0 ++ pre). now rewrite app_assoc.
Qed.

Section DeriveInv.
Variable T : table.
Hypothesis Hq : exists c, assoc (lit "?") T = Some c.
Variable bad : option exn.
Hypothesis Hbad : bad = None \/ bad = Some DecoderError.
Variable aidx : nat.

Lemma raise_or_good {A} (k : res A) e : raise_or bad k = Err e -> k = Err e \/ e = DecoderError.
Proof. unfold raise_or. destruct Hbad as [->| ->]; [auto|]. intro H. inversion H. auto. Qed.

Lemma drain_good ts maxd nd : match drain ts bad maxd nd with
                              | Ok (ts', _) => exists pre, ts = pre ++ ts'
                              | Err e => e = DecoderError end.
Proof.
  unfold drain. destruct maxd as [mx|].
  - destruct (_ <=? _)%nat.
    + exists (firstn (mx - nd) ts). now rewrite firstn_skipn.
    + unfold raise_or. destruct Hbad as [->| ->]; [|reflexivity]. exists ts. now rewrite app_nil_r.
  - unfold raise_or. destruct Hbad as [->| ->]; [|reflexivity]. exists ts. now rewrite app_nil_r.
Qed.

Lemma finish_good ts m state prev rings maxd nd : MolWF m -> Q2 m -> RingsOK m rings -> 0 <= state ->
  Good ts m state prev (do (ts', nd') <- drain ts bad maxd nd; Ok (ts', m, rings, nd')).
Proof.
  intros Hm Hq2 Hr Hs. pose proof (drain_good ts maxd nd) as D.
  destruct (drain ts bad maxd nd) as [[ts' nd']|e]; cbn [bind Good]; [|exact D].
  unfold Post. split; [exact Hm|]. split; [exact Hr|]. split; [now apply Frame_refl|]. split; [exact D|exact Hq2].
Qed.

Lemma read_index_good : forall n ts acc k,
  match read_index n ts bad acc k with
  | Ok (_, ts', _) => exists pre, ts = pre ++ ts'
  | Err e => e = DecoderError end.
Proof.
  induction n as [|n IH]; intros ts acc k; cbn [read_index]; [exists []; reflexivity|].
  destruct ts as [|[i s] r].
  - unfold raise_or. destruct Hbad as [->| ->]; [|reflexivity]. apply IH.
  - specialize (IH r (Some s :: acc) (S k)). destruct (read_index n r bad (Some s :: acc) (S k)) as [[[a b] c]|e]; [|exact IH].
    destruct IH as [pre ->]. exists ((i, s) :: pre). reflexivity.
Qed.
End DeriveInv.

(* ---------- frame transformers ---------- *)
Lemma add_atom_obs m a cap at_ root : MolWF m ->
  let m2 := fst (add_atom m a cap at_ root) in
  natoms m2 = S (natoms m) /\
  (forall i, (i < natoms m)%nat -> cnt m2 i = cnt m i /\ capOf m2 i = capOf m i) /\
  cnt m2 (natoms m) = 0 /\ capOf m2 (natoms m) = cap.
Proof.
  intros [Ha Hc _ _ _ _ _]. cbn. unfold natoms, cnt, capOf in *. cbn [atoms counts].
  split; [rewrite app_length; cbn; lia|]. split; [|split].
  - intros i Hi. split; [rewrite app_nth1 by lia; reflexivity|now rewrite nth_error_app1].
  - rewrite app_nth2 by lia. rewrite Hc, Nat.sub_diag. reflexivity.
  - rewrite nth_error_app2 by lia. rewrite Nat.sub_diag. reflexivity.
Qed.

Lemma Frame_root m a cap at_ root prev s st m' : MolWF m -> 0 <= s ->
  Frame (fst (add_atom m a cap at_ root)) (PAtom (natoms m)) st m' -> Frame m prev s m'.
Proof.
  intros Hm Hs (A & B & C & D). destruct (add_atom_obs m a cap at_ root Hm) as (N & O & _ & _).
  cbv zeta in *. repeat split.
  - lia.
  - intros i Hi. rewrite B by lia. now apply O.
  - intros q Hq _. rewrite C; [now apply O|lia|]. intro X. inversion X. lia.
  - intros p _ Hp. rewrite C; [|lia|intro X; inversion X; lia]. destruct (O p Hp) as [-> _]. lia.
Qed.

Lemma Frame_bond m m3 p k mu state st m' :
  (p < natoms m)%nat -> k = natoms m -> 0 <= mu <= state -> (natoms m <= natoms m3)%nat ->
  (forall i, (i < natoms m)%nat -> capOf m3 i = capOf m i) ->
  (forall i, (i < natoms m)%nat -> cnt m3 i = if Nat.eqb i p then cnt m i + mu else cnt m i) ->
  Frame m3 (PAtom k) st m' -> Frame m (PAtom p) state m'.
Proof.
  intros Hp Hk Hmu Hn Hcap Hcnt (A & B & C & D). repeat split.
  - lia.
  - intros i Hi. rewrite B by lia. now apply Hcap.
  - intros q Hq Hne. rewrite C; [|lia|intro X; inversion X; lia]. rewrite Hcnt by exact Hq.
    destruct (Nat.eqb_spec q p); [subst; congruence|reflexivity].
  - intros p0 E _. inversion E; subst p0. rewrite C; [|lia|intro X; inversion X; lia].
    rewrite Hcnt by exact Hp. rewrite Nat.eqb_refl. lia.
Qed.

Lemma Good_step ts rest m state prev m1 state1 prev1 x :
  (exists pre, ts = pre ++ rest) ->
  (forall m', Frame m1 prev1 state1 m' -> Frame m prev state m') ->
  Good rest m1 state1 prev1 x -> Good ts m state prev x.
Proof.
  intros Hs Hf H. apply (Good_suffix ts rest); [exact Hs|].
  destruct x as [[[[ts' m'] rings'] nd']|e]; [|exact H].
  unfold Good, Post in *. destruct H as (A & B & C & D & E). auto.
Qed.

Section DeriveMain.
Variable T : table.
Hypothesis Hq : exists c, assoc (lit "?") T = Some c.
Variable bad : option exn.
Hypothesis Hbad : bad = None \/ bad = Some DecoderError.
Variable aidx : nat.

Hypothesis HP : forall t o st a cap, process_atom_symbol T t = Ok (Some (o, st, a, cap)) -> P a cap.

Definition toks_ok (ts : toks) : Prop := Forall (fun it => tok_ok (snd it)) ts.

Lemma toks_ok_suffix pre ts : toks_ok (pre ++ ts) -> toks_ok ts.
Proof. intro H. apply Forall_app in H. tauto. Qed.

Lemma derive_good : forall fuel ts m maxd state prev rings astack nd,
  (length ts < fuel)%nat -> MolWF m -> Q2 m -> RingsOK m rings -> StOK m state prev -> toks_ok ts ->
  Good ts m state prev (derive T bad aidx fuel ts m maxd state prev rings astack nd).
Proof.
  induction fuel as [|f IH]; intros ts m maxd state prev rings astack nd Hlen Hm Hq2 Hr Hst Htok; [lia|].
  destruct Hst as [Hs0 Hsp].
  unfold derive. cbn [derive_c]. cbv zeta.
  destruct (negb (below nd maxd)); [now apply (finish_good bad Hbad)|].
  destruct ts as [|[idx sym] rest].
  - (* no symbol left *)
    unfold raise_or. destruct Hbad as [->| ->]; [|reflexivity]. now apply (finish_good None (or_introl eq_refl)).
  - cbn [length] in Hlen. assert (Hl : (length rest < f)%nat) by lia.
    assert (Hsuf : exists pre, (idx, sym) :: rest = pre ++ rest) by (exists [(idx, sym)]; reflexivity).
    inversion Htok as [|? ? Hsym Hrest]; subst. cbn [snd] in Hsym.
    (* "nothing changes" continuation *)
    assert (Same : forall st' nd' astack', 0 <= st' <= state -> (0 < st' -> 0 < state) ->
              Good ((idx, sym) :: rest) m state prev
                (derive_c (get_bonding_capacity T) bad aidx f rest m maxd st' prev rings astack' nd')).
    { intros st' nd' astack' Hst' Hpos. eapply Good_step; [exact Hsuf| |].
      2:{ apply (IH rest m maxd st' prev rings astack' nd' Hl Hm Hq2 Hr); [|exact Hrest].
          split; [lia|]. intro Hp0. destruct (Hsp (Hpos Hp0)) as (p & E & L & V). exists p. repeat split; auto; lia. }
      intros m' Fm. eapply Frame_weaken; [|exact Fm]. lia. }
    destruct (is_branch_like sym).
    { (* branch symbol *)
      destruct (process_branch_symbol sym) as [[btype n]|] eqn:Eb; [|reflexivity].
      destruct (state <=? 1) eqn:E1.
      - apply Same; [lia|auto].
      - rewrite (branch_pre_holds _ _ _ _ Eb E1). cbn [negb].
        destruct (next_branch_state btype state) as [binit nstate] eqn:En.
        destruct (nbs_spec _ _ _ _ En (branch_pre_holds _ _ _ _ Eb E1)) as (_ & _ & Hb13 & Hn1 & Hsum).
        apply Z.leb_gt in E1.
        destruct (Hsp ltac:(lia)) as (p & Ep & Lp & Vp).
        pose proof (read_index_good bad Hbad n rest [] 0%nat) as RI.
        destruct (read_index n rest bad [] 0) as [[[syms rest2] nread]|e]; cbn [bind]; [|exact RI].
        destruct RI as [pre2 Hpre2].
        assert (Hl2 : (length rest2 < f)%nat) by (rewrite Hpre2, app_length in Hl; lia).
        assert (Htok2 : toks_ok rest2) by (rewrite Hpre2 in Hrest; now apply toks_ok_suffix in Hrest).
        (* the branch instance *)
        pose proof (IH rest2 m (Some (N.to_nat (get_index_from_selfies syms) + 1)%nat) binit prev rings
                       (push_attr astack ((idx + aidx)%nat, sym)) 0%nat Hl2 Hm Hq2 Hr) as Sub.
        assert (StSub : StOK m binit prev).
        { split; [lia|]. intros _. exists p. repeat split; auto. lia. }
        specialize (Sub StSub Htok2). unfold derive in Sub.
        destruct (derive_c (get_bonding_capacity T) bad aidx f rest2 m _ binit prev rings _ 0)
          as [[[[rest3 m2] rings2] nsub]|e]; cbn [bind]; [|exact Sub].
        unfold Good, Post in Sub. destruct Sub as (Hm2 & Hr2 & F2 & (pre3 & Hpre3) & Hq22).
        assert (Hl3 : (length rest3 < f)%nat) by (rewrite Hpre3, app_length in Hl2; lia).
        assert (Htok3 : toks_ok rest3) by (rewrite Hpre3 in Htok2; now apply toks_ok_suffix in Htok2).
        destruct F2 as (A2 & B2 & C2 & D2).
        eapply Good_step with (rest := rest3) (m1 := m2) (state1 := nstate) (prev1 := prev).
        + exists ((idx, sym) :: pre2 ++ pre3). cbn. rewrite Hpre2, Hpre3, app_assoc. reflexivity.
        + intros m' Fm. replace state with (binit + nstate) by lia.
          eapply Frame_seq; [|exact Fm]. repeat split; assumption.
        + apply (IH rest3 m2 maxd nstate prev rings2 astack _ Hl3 Hm2 Hq22 Hr2); [|exact Htok3].
          split; [lia|]. intros _. exists p. split; [exact Ep|]. split; [lia|].
          rewrite (B2 p Lp). specialize (D2 p Ep Lp). lia. }
    destruct (is_ring_like sym).
    { (* ring symbol *)
      destruct (process_ring_symbol sym) as [[[rtype n] [ls rs]]|] eqn:Er; [|reflexivity].
      destruct (state =? 0) eqn:E0.
      - apply Same; [lia|auto].
      - rewrite (ring_pre_holds rtype state Hs0 E0). cbn [negb].
        destruct (next_ring_state rtype state) as [rorder nstate] eqn:En.
        pose proof (ring_types _ _ _ _ Er) as Hrt.
        destruct (nrs_spec _ _ _ _ En (ring_pre_holds rtype state Hs0 E0) ltac:(lia)) as (_ & Ho1 & Hort & Hos & Hns).
        apply Z.eqb_neq in E0.
        destruct (Hsp ltac:(lia)) as (p & Ep & Lp & Vp).
        pose proof (read_index_good bad Hbad n rest [] 0%nat) as RI.
        destruct (read_index n rest bad [] 0) as [[[syms rest2] nread]|e]; cbn [bind]; [|exact RI].
        destruct RI as [pre2 Hpre2].
        assert (Hl2 : (length rest2 < f)%nat) by (rewrite Hpre2, app_length in Hl; lia).
        assert (Htok2 : toks_ok rest2) by (rewrite Hpre2 in Hrest; now apply toks_ok_suffix in Hrest).
        subst prev.
        assert (Hlt : (p - (N.to_nat (get_index_from_selfies syms) + 1) <? length (atoms m))%nat = true).
        { apply Nat.ltb_lt. unfold natoms in Lp. lia. }
        rewrite Hlt. cbn [negb].
        set (rq := {| r_l := (p - (N.to_nat (get_index_from_selfies syms) + 1))%nat; r_r := p;
                      r_order := rorder; r_ls := ls; r_rs := rs |}).
        assert (Hr' : RingsOK m (rings ++ [rq])).
        { apply Forall_app. split; [exact Hr|]. constructor; [|constructor]. cbn. repeat split; lia. }
        assert (Hsuf2 : exists pre, (idx, sym) :: rest = pre ++ rest2)
          by (exists ((idx, sym) :: pre2); cbn; now rewrite Hpre2).
        destruct nstate as [st|].
        + destruct Hns as [-> Hst].
          eapply Good_step; [exact Hsuf2| |].
          2:{ apply (IH rest2 m maxd (state - rorder) (PAtom p) (rings ++ [rq]) astack _ Hl2 Hm Hq2 Hr'); [|exact Htok2].
              split; [lia|]. intros _. exists p. repeat split; auto. lia. }
          intros m' Fm. eapply Frame_weaken; [|exact Fm]. lia.
        + eapply Good_suffix; [exact Hsuf2|]. now apply (finish_good bad Hbad). }
    destruct (is_eps_like sym).
    { (* [epsilon] *)
      destruct (state =? 0) eqn:E0.
      - apply Z.eqb_eq in E0. subst state. apply Same; [lia|auto].
      - eapply Good_suffix; [exact Hsuf|]. now apply (finish_good bad Hbad). }
    (* atom symbol *)
    destruct (pas_total T Hq sym Hsym) as [o Eo]. unfold process_atom_symbol in Eo. rewrite Eo. cbn [bind].
    destruct o as [[[[border stereo] a] cap]|]; [|reflexivity].
    destruct (pas_facts T _ _ _ _ _ Eo) as (Hbo & Hcap & Har).
    destruct (next_atom_state border cap state) as [mu nstate] eqn:En.
    destruct (nas_spec _ _ _ _ _ En ltac:(lia) Hcap Hs0) as (Hmu & Hmu0 & Hmub & Hmuc & Hmus & Hz & Hns).
    destruct (mu =? 0) eqn:Em.
    + apply Z.eqb_eq in Em. rewrite Em in *. clear Em.
      destruct (state =? 0) eqn:E0.
      * (* X_0: a new root atom *)
        apply Z.eqb_eq in E0.
        destruct (add_atom m a cap (push_attr astack ((idx + aidx)%nat, sym)) true) as [m2 i] eqn:Ea.
        pose proof (add_atom_wf m a cap (push_attr astack ((idx + aidx)%nat, sym)) true Hm Hcap Har (HP _ _ _ _ _ Eo)) as Hm2.
        pose proof (add_atom_obs m a cap (push_attr astack ((idx + aidx)%nat, sym)) true Hm) as Ob.
        pose proof (add_atom_facts m a cap (push_attr astack ((idx + aidx)%nat, sym)) true) as Fa.
        rewrite Ea in Hm2, Ob, Fa. cbn [fst snd] in Hm2, Ob, Fa. cbv zeta in Ob, Fa.
        destruct Ob as (N2 & Oold & Ocnt & Ocap). destruct Fa as (Ei & _).
        assert (Hr2 : RingsOK m2 rings) by (eapply RingsOK_ext; [|exact Hr]; lia).
        assert (Hq2' : Q2 m2).
        { replace m2 with (fst (add_atom m a cap (push_attr astack ((idx + aidx)%nat, sym)) true)) by now rewrite Ea. now apply HQ2_root. }
        assert (FR : forall st m', Frame m2 (PAtom (natoms m)) st m' -> Frame m prev state m').
        { intros st m' Fm. replace m2 with (fst (add_atom m a cap (push_attr astack ((idx + aidx)%nat, sym)) true)) in Fm by now rewrite Ea.
          eapply Frame_root; eassumption. }
        destruct nstate as [st|].
        -- destruct Hns as [-> Hst]. subst i.
           eapply Good_step; [exact Hsuf|apply FR|].
           apply (IH rest m2 maxd (cap - 0) (PAtom (natoms m)) rings astack _ Hl Hm2 Hq2' Hr2); [|exact Hrest].
           split; [lia|]. intros _. exists (natoms m). repeat split; auto; lia.
        -- eapply Good_step with (m1 := m2) (state1 := 0) (prev1 := PAtom (natoms m)); [exact Hsuf|apply FR|].
           now apply (finish_good bad Hbad).
      * (* the atom cannot bond: alpha = 0, the instance ends *)
        apply Z.eqb_neq in E0. assert (cap = 0) by lia. subst cap.
        destruct nstate as [st|]; [lia|].
        eapply Good_suffix; [exact Hsuf|]. now apply (finish_good bad Hbad).
    + (* the atom bonds to the previous atom with order mu *)
      apply Z.eqb_neq in Em. assert (Hmu1 : 1 <= mu) by lia.
      assert (Hspos : 0 < state) by lia.
      destruct (Hsp Hspos) as (p & Ep & Lp & Vp). subst prev.
      destruct (add_atom m a cap (push_attr astack ((idx + aidx)%nat, sym)) false) as [m2 i] eqn:Ea.
      pose proof (add_atom_wf m a cap (push_attr astack ((idx + aidx)%nat, sym)) false Hm Hcap Har (HP _ _ _ _ _ Eo)) as Hm2.
      pose proof (add_atom_obs m a cap (push_attr astack ((idx + aidx)%nat, sym)) false Hm) as Ob.
      pose proof (add_atom_facts m a cap (push_attr astack ((idx + aidx)%nat, sym)) false) as Fa.
      rewrite Ea in Hm2, Ob, Fa. cbn [fst snd] in Hm2, Ob, Fa. cbv zeta in Ob, Fa.
      destruct Ob as (N2 & Oold & Ocnt & Ocap). destruct Fa as (Ei & _). subst i.
      destruct (Oold p Lp) as [Ocp Ocapp].
      destruct (add_bond_ok m2 p (natoms m) mu stereo (push_attr astack ((idx + aidx)%nat, sym)) Hm2)
        as (m3 & Eb & Hm3 & Eat3 & _ & Hcnt3); try lia; try exact Ocnt.
      rewrite Eb. cbn [bind].
      assert (N3 : natoms m3 = S (natoms m)) by (unfold natoms in *; now rewrite Eat3).
      assert (Hcap3 : forall j, capOf m3 j = capOf m2 j) by (intro j; unfold capOf; now rewrite Eat3).
      assert (Hr3 : RingsOK m3 rings) by (eapply RingsOK_ext; [|exact Hr]; lia).
      assert (Hq3 : Q2 m3).
      { apply (HQ2_step m a cap (push_attr astack ((idx + aidx)%nat, sym)) p mu stereo (push_attr astack ((idx + aidx)%nat, sym)) m3 Hm Hq2 Lp ltac:(lia)).
        rewrite Ea. exact Eb. }
      assert (FB : forall st m', Frame m3 (PAtom (natoms m)) st m' -> Frame m (PAtom p) state m').
      { intros st m' Fm. eapply (Frame_bond m m3 p (natoms m) mu); try eassumption; try lia; try reflexivity.
        - intros j Hj. rewrite Hcap3. now apply Oold.
        - intros j Hj. rewrite Hcnt3. destruct (Oold j Hj) as [-> _].
          destruct (Nat.eqb_spec j p); destruct (Nat.eqb_spec j (natoms m)); cbn [orb]; try reflexivity; lia. }
      destruct nstate as [st|].
      * destruct Hns as [-> Hst].
        eapply Good_step; [exact Hsuf|apply FB|].
        apply (IH rest m3 maxd (cap - mu) (PAtom (natoms m)) rings astack _ Hl Hm3 Hq3 Hr3); [|exact Hrest].
        split; [lia|]. intros _. exists (natoms m). split; [reflexivity|]. split; [lia|].
        rewrite Hcnt3, Hcap3, Nat.eqb_refl, orb_true_r, Ocnt, Ocap. lia.
      * eapply Good_step with (m1 := m3) (state1 := 0) (prev1 := PAtom (natoms m)); [exact Hsuf|apply FB|].
        now apply (finish_good bad Hbad).
Qed.
End DeriveMain.

(* ---------- second pass: ring formation ---------- *)
Lemma find_some_dst (l : list dbond) b : (exists e, In e l /\ b_dst e = b) -> exists e, find (fun e => Nat.eqb (b_dst e) b) l = Some e.
Proof.
  intros (e & Hin & Hd). destruct (find (fun e0 => Nat.eqb (b_dst e0) b) l) eqn:E; [eauto|].
  eapply find_none in E; [|exact Hin]. cbn in E. rewrite Hd, Nat.eqb_refl in E. discriminate.
Qed.

Lemma In_insert_at {A} : forall (l : list A) pos x y, In y (insert_at l pos x) <-> y = x \/ In y l.
Proof.
  induction l as [|z l IH]; intros [|pos] x y; cbn; try (intuition congruence).
  rewrite IH. intuition congruence.
Qed.

Lemma length_insert_at {A} : forall (l : list A) pos x, length (insert_at l pos x) = S (length l).
Proof. induction l as [|z l IH]; intros [|pos] x; cbn; auto. Qed.

Lemma add_at_loc_ok l pos b : (pos <= length l)%nat ->
  exists l', add_at_loc l pos b = Ok l' /\ length l' = S (length l) /\ forall y, In y l' <-> y = b \/ In y l.
Proof.
  intro H. unfold add_at_loc. destruct (Nat.eqb_spec pos (length l)).
  - eexists. split; [reflexivity|]. split; [rewrite app_length; cbn; lia|].
    intro y. rewrite in_app_iff. cbn. intuition congruence.
  - assert (X : (pos <? length l)%nat = true) by (apply Nat.ltb_lt; lia). rewrite X.
    eexists. split; [reflexivity|]. split; [apply length_insert_at|apply In_insert_at].
Qed.

Lemma In_set_order l dst new y : In y (set_order l dst new) ->
  exists e, In e l /\ b_dst y = b_dst e /\ b_ring y = b_ring e /\ b_src y = b_src e /\
            (b_order y = b_order e \/ (b_dst e = dst /\ b_order y = new)).
Proof.
  unfold set_order. intro H. apply in_map_iff in H as (e & <- & Hin). exists e. split; [exact Hin|].
  destruct (Nat.eqb_spec (b_dst e) dst); cbn; auto 6.
Qed.

Lemma set_order_keeps_dst l dst new i : (exists e, In e l /\ b_dst e = i) -> exists e, In e (set_order l dst new) /\ b_dst e = i.
Proof.
  intros (e & Hin & Hd). unfold set_order.
  exists (if Nat.eqb (b_dst e) dst
          then {| b_src := b_src e; b_dst := b_dst e; b_order := new; b_stereo := b_stereo e; b_ring := b_ring e; b_attr := b_attr e |}
          else e).
  split; [apply in_map_iff; exists e; split; [reflexivity|exact Hin]|]. destruct (Nat.eqb (b_dst e) dst); exact Hd.
Qed.

Definition MadeOK (m : dmol) (made : list nat) : Prop :=
  length made = natoms m /\ forall i, (i < natoms m)%nat -> (nth i made 0 <= length (row m i))%nat.

Lemma get_ok m i : MolWF m -> (i < natoms m)%nat -> get_cap m i = Ok (capOf m i) /\ get_count m i = Ok (cnt m i).
Proof.
  intros [Ha Hc _ _ _ _ _] Hi. unfold get_cap, get_count, capOf, cnt.
  destruct (nth_error (atoms m) i) as [[[a c] at_]|] eqn:E; [|apply nth_error_None in E; unfold natoms in *; lia].
  split; [reflexivity|].
  destruct (nth_error (counts m) i) as [c0|] eqn:E2; [|apply nth_error_None in E2; unfold natoms in *; lia].
  now rewrite (nth_error_nth _ _ _ E2).
Qed.

Lemma row_upd m' m i f : adj m' = upd (adj m) i f -> (i < length (adj m))%nat ->
  forall j, row m' j = if Nat.eqb i j then f (row m j) else row m j.
Proof.
  intros E Hi j. unfold row. rewrite E, nth_upd. destruct (Nat.eqb_spec i j) as [->|]; [|reflexivity].
  cbn [andb]. assert (X : (j <? length (adj m))%nat = true) by (apply Nat.ltb_lt; exact Hi). now rewrite X.
Qed.

Lemma form_ring_good m made r : MolWF m -> Q2 m -> MadeOK m made ->
  (r_l r <= r_r r)%nat -> (r_r r < natoms m)%nat -> 1 <= r_order r <= 3 ->
  match form_ring (Ok (m, made)) r with
  | Ok (m', made') => MolWF m' /\ MadeOK m' made' /\ atoms m' = atoms m /\ roots m' = roots m /\ Q2 m'
  | Err _ => False end.
Proof.
  intros Hm Hq2 [Hml Hmade] Hlr Hrn Ho. unfold form_ring. cbn [bind]. cbv zeta.
  destruct (Nat.eqb_spec (r_l r) (r_r r)) as [E|Hne]; [split; [exact Hm|split; [split; [exact Hml|exact Hmade]|split; [reflexivity|split; [reflexivity|exact Hq2]]]]|].
  assert (Hl : (r_l r < natoms m)%nat) by lia.
  destruct (get_ok m (r_l r) Hm Hl) as [-> ->]. destruct (get_ok m (r_r r) Hm Hrn) as [-> ->]. cbn [bind].
  set (l := r_l r) in *. set (rr := r_r r) in *.
  destruct ((capOf m l - cnt m l <=? 0) || (capOf m rr - cnt m rr <=? 0)) eqn:Efree; [split; [exact Hm|split; [split; [exact Hml|exact Hmade]|split; [reflexivity|split; [reflexivity|exact Hq2]]]]|].
  apply orb_false_iff in Efree as [F1 F2]. apply Z.leb_gt in F1, F2.
  set (order := Z.min (Z.min (r_order r) (capOf m l - cnt m l)) (capOf m rr - cnt m rr)).
  assert (Hord : 1 <= order <= 3) by (unfold order; lia).
  assert (Hol : cnt m l + order <= capOf m l) by (unfold order; lia).
  assert (Hor : cnt m rr + order <= capOf m rr) by (unfold order; lia).
  pose proof Hm as [Ha Hc Hat Hb Hv Hro HQm].
  unfold has_bond. replace (Nat.min l rr) with l by lia. replace (Nat.max l rr) with rr by lia.
  destruct (find_bond m l rr) as [e|] eqn:Ef.
  - (* the pair is already bonded: raise the order, at most to 3 and to the free valence *)
    pose proof Ef as Ef0. unfold find_bond in Ef. pose proof (find_some _ _ Ef) as [Hein Hed]. apply Nat.eqb_eq in Hed.
    fold (row m l) in Hein. destruct (Hb l e Hein) as (B1 & B2 & B3 & B4).
    set (new := Z.min (order + b_order e) 3).
    assert (Hnew : 1 <= new <= 3) by (unfold new; lia).
    unfold update_bond_order.
    assert (X1 : (1 <=? new) && (new <=? 3) = true) by (apply andb_true_iff; split; apply Z.leb_le; lia).
    rewrite X1. cbn [negb]. replace (Nat.min l rr) with l by lia. replace (Nat.max l rr) with rr by lia.
    rewrite Ef0.
    destruct (Z.eqb_spec new (b_order e)) as [En|Hnn]; cbn [bind]; [split; [exact Hm|split; [split; [exact Hml|exact Hmade]|split; [reflexivity|split; [reflexivity|exact Hq2]]]]|].
    assert (Hdelta : new - b_order e <= order) by (unfold new; lia).
    destruct (b_ring e) eqn:Ering.
    + destruct (find_some_dst (row m rr) l) as [e2 Ee2].
      { destruct (B4 eq_refl) as (e' & He' & Hd'). rewrite Hed in He'. eauto. }
      assert (Ee2' : find_bond m rr l = Some e2) by exact Ee2. rewrite Ee2'. cbn [bind].
      set (m' := {| atoms := atoms m; roots := roots m;
                    adj := upd (upd (adj m) l (fun l0 => set_order l0 rr new)) rr (fun l0 => set_order l0 l new);
                    counts := upd (upd (counts m) l (fun c => c + (new - b_order e))) rr (fun c => c + (new - b_order e)) |}).
      assert (Hrow : forall j, row m' j = if Nat.eqb j l then set_order (row m j) rr new
                                          else if Nat.eqb j rr then set_order (row m j) l new else row m j).
      { intro j. unfold row, m'. cbn [adj]. rewrite !nth_upd, !upd_length, Ha.
        rewrite (Nat.eqb_sym rr j), (Nat.eqb_sym l j).
        assert (Xl : (l <? natoms m)%nat = true) by (apply Nat.ltb_lt; lia).
        assert (Xr : (rr <? natoms m)%nat = true) by (apply Nat.ltb_lt; lia).
        destruct (Nat.eqb_spec j rr) as [E1'|N1']; destruct (Nat.eqb_spec j l) as [E2'|N2']; cbn [andb].
        - exfalso. lia.
        - subst j. now rewrite Xr.
        - subst j. now rewrite Xl.
        - reflexivity. }
      assert (Hcnt : forall j, cnt m' j = if Nat.eqb j l || Nat.eqb j rr then cnt m j + (new - b_order e) else cnt m j).
      { intro j. unfold cnt, m'. cbn [counts]. rewrite !nth_upd, !upd_length, Hc.
        rewrite (Nat.eqb_sym rr j), (Nat.eqb_sym l j).
        assert (Xl : (l <? natoms m)%nat = true) by (apply Nat.ltb_lt; lia).
        assert (Xr : (rr <? natoms m)%nat = true) by (apply Nat.ltb_lt; lia).
        destruct (Nat.eqb_spec j rr) as [E1'|N1']; destruct (Nat.eqb_spec j l) as [E2'|N2']; cbn [andb orb].
        - exfalso. lia.
        - subst j. now rewrite Xr.
        - subst j. now rewrite Xl.
        - reflexivity. }
      assert (Hrows_dst : forall j i, (exists x, In x (row m j) /\ b_dst x = i) -> exists x, In x (row m' j) /\ b_dst x = i).
      { intros j i Hx. rewrite Hrow. destruct (Nat.eqb j l); [now apply set_order_keeps_dst|].
        destruct (Nat.eqb j rr); [now apply set_order_keeps_dst|exact Hx]. }
      assert (Eop : update_bond_order m l rr new = Ok m').
      { unfold update_bond_order. rewrite X1. cbn [negb].
        replace (Nat.min l rr) with l by lia. replace (Nat.max l rr) with rr by lia. rewrite Ef0.
        destruct (Z.eqb_spec new (b_order e)); [contradiction|]. rewrite Ering, Ee2'. reflexivity. }
      split; [|split; [|split; [reflexivity|split; [reflexivity|exact (HQ2_upd m l rr new m' Hm Hq2 ltac:(lia) Hrn Hnew Eop)]]]].
      * constructor.
        -- unfold m'. cbn [adj atoms natoms]. now rewrite !upd_length.
        -- unfold m'. cbn [counts atoms natoms]. now rewrite !upd_length.
        -- exact Hat.
        -- intros i y Hy. rewrite Hrow in Hy.
           assert (Hgen : forall dstx, In y (set_order (row m i) dstx new) -> bond_ok m' i y).
           { intros dstx Hy'. apply In_set_order in Hy' as (e0 & He0 & Ed & Er & _ & Eo).
             destruct (Hb i e0 He0) as (C1 & C2 & C3 & C4). split; [rewrite Ed; exact C1|].
             split; [destruct Eo as [->|[_ ->]]; [exact C2|exact Hnew]|].
             split; [rewrite Er, Ed; exact C3|]. rewrite Er, Ed. intro R. apply Hrows_dst. apply C4. exact R. }
           destruct (Nat.eqb i l); [now apply (Hgen rr)|]. destruct (Nat.eqb i rr); [now apply (Hgen l)|].
           destruct (Hb i y Hy) as (C1 & C2 & C3 & C4). split; [exact C1|]. split; [exact C2|]. split; [exact C3|].
           intro R. apply Hrows_dst. now apply C4.
        -- intros i Hi. rewrite Hcnt. change (capOf m' i) with (capOf m i).
           destruct (Nat.eqb_spec i l) as [->|]; cbn [orb]; [lia|].
           destruct (Nat.eqb_spec i rr) as [->|]; [lia|]. now apply Hv.
        -- exact Hro.
        -- apply (HQ_upd m l rr new m' Hm ltac:(lia) Hrn Hnew). unfold update_bond_order. rewrite X1. cbn [negb].
           replace (Nat.min l rr) with l by lia. replace (Nat.max l rr) with rr by lia. rewrite Ef0.
           destruct (Z.eqb_spec new (b_order e)); [contradiction|]. rewrite Ering, Ee2'. reflexivity.
      * split; [exact Hml|]. intros i Hi. rewrite Hrow.
        destruct (Nat.eqb i l); [unfold set_order; rewrite map_length; now apply Hmade|].
        destruct (Nat.eqb i rr); [unfold set_order; rewrite map_length; now apply Hmade|now apply Hmade].
    + (* a tree bond: only one direction is stored *)
      cbn [bind].
      set (m' := {| atoms := atoms m; roots := roots m;
                    adj := upd (adj m) l (fun l0 => set_order l0 rr new);
                    counts := upd (upd (counts m) l (fun c => c + (new - b_order e))) rr (fun c => c + (new - b_order e)) |}).
      assert (Hrow : forall j, row m' j = if Nat.eqb j l then set_order (row m j) rr new else row m j).
      { intro j. unfold row, m'. cbn [adj]. rewrite nth_upd, Ha, (Nat.eqb_sym l j).
        assert (Xl : (l <? natoms m)%nat = true) by (apply Nat.ltb_lt; lia).
        destruct (Nat.eqb_spec j l) as [->|]; cbn [andb]; [now rewrite Xl|reflexivity]. }
      assert (Hcnt : forall j, cnt m' j = if Nat.eqb j l || Nat.eqb j rr then cnt m j + (new - b_order e) else cnt m j).
      { intro j. unfold cnt, m'. cbn [counts]. rewrite !nth_upd, !upd_length, Hc.
        rewrite (Nat.eqb_sym rr j), (Nat.eqb_sym l j).
        assert (Xl : (l <? natoms m)%nat = true) by (apply Nat.ltb_lt; lia).
        assert (Xr : (rr <? natoms m)%nat = true) by (apply Nat.ltb_lt; lia).
        destruct (Nat.eqb_spec j rr) as [E1'|N1']; destruct (Nat.eqb_spec j l) as [E2'|N2']; cbn [andb orb].
        - exfalso. lia.
        - subst j. now rewrite Xr.
        - subst j. now rewrite Xl.
        - reflexivity. }
      assert (Hrows_dst : forall j i, (exists x, In x (row m j) /\ b_dst x = i) -> exists x, In x (row m' j) /\ b_dst x = i).
      { intros j i Hx. rewrite Hrow. destruct (Nat.eqb j l); [now apply set_order_keeps_dst|exact Hx]. }
      assert (Eop : update_bond_order m l rr new = Ok m').
      { unfold update_bond_order. rewrite X1. cbn [negb].
        replace (Nat.min l rr) with l by lia. replace (Nat.max l rr) with rr by lia. rewrite Ef0.
        destruct (Z.eqb_spec new (b_order e)); [contradiction|]. rewrite Ering. reflexivity. }
      split; [|split; [|split; [reflexivity|split; [reflexivity|exact (HQ2_upd m l rr new m' Hm Hq2 ltac:(lia) Hrn Hnew Eop)]]]].
      * constructor.
        -- unfold m'. cbn [adj atoms natoms]. now rewrite upd_length.
        -- unfold m'. cbn [counts atoms natoms]. now rewrite !upd_length.
        -- exact Hat.
        -- intros i y Hy. rewrite Hrow in Hy.
           destruct (Nat.eqb i l).
           ++ apply In_set_order in Hy as (e0 & He0 & Ed & Er & _ & Eo).
              destruct (Hb i e0 He0) as (C1 & C2 & C3 & C4). split; [rewrite Ed; exact C1|].
              split; [destruct Eo as [->|[_ ->]]; [exact C2|exact Hnew]|].
              split; [rewrite Er, Ed; exact C3|]. rewrite Er, Ed. intro R. apply Hrows_dst. apply C4. exact R.
           ++ destruct (Hb i y Hy) as (C1 & C2 & C3 & C4). split; [exact C1|]. split; [exact C2|]. split; [exact C3|].
              intro R. apply Hrows_dst. now apply C4.
        -- intros i Hi. rewrite Hcnt. change (capOf m' i) with (capOf m i).
           destruct (Nat.eqb_spec i l) as [->|]; cbn [orb]; [lia|].
           destruct (Nat.eqb_spec i rr) as [->|]; [lia|]. now apply Hv.
        -- exact Hro.
        -- apply (HQ_upd m l rr new m' Hm ltac:(lia) Hrn Hnew). unfold update_bond_order. rewrite X1. cbn [negb].
           replace (Nat.min l rr) with l by lia. replace (Nat.max l rr) with rr by lia. rewrite Ef0.
           destruct (Z.eqb_spec new (b_order e)); [contradiction|]. rewrite Ering. reflexivity.
      * split; [exact Hml|]. intros i Hi. rewrite Hrow.
        destruct (Nat.eqb i l); [unfold set_order; rewrite map_length; now apply Hmade|now apply Hmade].
  - (* a new ring bond, inserted after the ring bonds already made at both ends *)
    destruct (nth_error made l) as [pl|] eqn:Epl; [|apply nth_error_None in Epl; lia].
    destruct (nth_error made rr) as [pr|] eqn:Epr; [|apply nth_error_None in Epr; lia].
    assert (Hpl : (pl <= length (row m l))%nat) by (rewrite <- (nth_error_nth _ _ 0%nat Epl); now apply Hmade).
    assert (Hpr : (pr <= length (row m rr))%nat) by (rewrite <- (nth_error_nth _ _ 0%nat Epr); now apply Hmade).
    unfold add_ring_bond.
    destruct (nth_error (adj m) l) as [la|] eqn:Ela; [|apply nth_error_None in Ela; lia].
    assert (Hla : la = row m l) by (unfold row; now rewrite (nth_error_nth _ _ [] Ela)). subst la.
    set (ba := {| b_src := l; b_dst := rr; b_order := order; b_stereo := r_ls r; b_ring := true; b_attr := None |}).
    set (bb := {| b_src := rr; b_dst := l; b_order := order; b_stereo := r_rs r; b_ring := true; b_attr := None |}).
    destruct (add_at_loc_ok (row m l) pl ba Hpl) as (la' & Ela' & Hlla & Hinla). rewrite Ela'. cbn [bind].
    assert (Erow_rr : nth_error (upd (adj m) l (fun _ => la')) rr = Some (row m rr)).
    { rewrite nth_error_upd_other by lia. unfold row.
      destruct (nth_error (adj m) rr) as [x|] eqn:E; [now rewrite (nth_error_nth _ _ [] E)|apply nth_error_None in E; lia]. }
    rewrite Erow_rr.
    destruct (add_at_loc_ok (row m rr) pr bb Hpr) as (lb' & Elb' & Hllb & Hinlb). rewrite Elb'. cbn [bind].
    set (m' := {| atoms := atoms m; roots := roots m;
                  adj := upd (upd (adj m) l (fun _ => la')) rr (fun _ => lb');
                  counts := upd (upd (counts m) l (fun c => c + order)) rr (fun c => c + order) |}).
    assert (Hrow : forall j, row m' j = if Nat.eqb j l then la' else if Nat.eqb j rr then lb' else row m j).
    { intro j. unfold row, m'. cbn [adj]. rewrite !nth_upd, !upd_length, Ha.
      rewrite (Nat.eqb_sym rr j), (Nat.eqb_sym l j).
      assert (Xl : (l <? natoms m)%nat = true) by (apply Nat.ltb_lt; lia).
      assert (Xr : (rr <? natoms m)%nat = true) by (apply Nat.ltb_lt; lia).
      destruct (Nat.eqb_spec j rr) as [E1'|N1']; destruct (Nat.eqb_spec j l) as [E2'|N2']; cbn [andb].
      - exfalso. lia.
      - subst j. now rewrite Xr.
      - subst j. now rewrite Xl.
      - reflexivity. }
    assert (Hcnt : forall j, cnt m' j = if Nat.eqb j l || Nat.eqb j rr then cnt m j + order else cnt m j).
    { intro j. unfold cnt, m'. cbn [counts]. rewrite !nth_upd, !upd_length, Hc.
      rewrite (Nat.eqb_sym rr j), (Nat.eqb_sym l j).
      assert (Xl : (l <? natoms m)%nat = true) by (apply Nat.ltb_lt; lia).
      assert (Xr : (rr <? natoms m)%nat = true) by (apply Nat.ltb_lt; lia).
      destruct (Nat.eqb_spec j rr) as [E1'|N1']; destruct (Nat.eqb_spec j l) as [E2'|N2']; cbn [andb orb].
      - exfalso. lia.
      - subst j. now rewrite Xr.
      - subst j. now rewrite Xl.
      - reflexivity. }
    assert (Hgrow : forall j y, In y (row m j) -> In y (row m' j)).
    { intros j y Hy. rewrite Hrow. destruct (Nat.eqb_spec j l) as [->|]; [apply Hinla; now right|].
      destruct (Nat.eqb_spec j rr) as [->|]; [apply Hinlb; now right|exact Hy]. }
    assert (Enb : has_bond m l rr = false).
    { unfold has_bond. replace (Nat.min l rr) with l by lia. replace (Nat.max l rr) with rr by lia. now rewrite Ef. }
    assert (Eop : add_ring_bond m l rr order (r_ls r) (r_rs r) pl pr = Ok m').
    { unfold add_ring_bond. rewrite Ela. fold ba. rewrite Ela'. cbn [bind]. rewrite Erow_rr. fold bb. rewrite Elb'. reflexivity. }
    split; [|split; [|split; [reflexivity|split; [reflexivity|exact (HQ2_ring m l rr order (r_ls r) (r_rs r) pl pr m' Hm Hq2 ltac:(lia) Hrn Hord Enb Eop)]]]].
    + constructor.
      * unfold m'. cbn [adj atoms natoms]. now rewrite !upd_length.
      * unfold m'. cbn [counts atoms natoms]. now rewrite !upd_length.
      * exact Hat.
      * intros i y Hy.
        assert (Hold : forall y0, In y0 (row m i) -> bond_ok m' i y0).
        { intros y0 H0. destruct (Hb i y0 H0) as (C1 & C2 & C3 & C4). split; [exact C1|]. split; [exact C2|]. split; [exact C3|].
          intro R. destruct (C4 R) as (e' & He' & Hd'). exists e'. split; [now apply Hgrow|exact Hd']. }
        rewrite Hrow in Hy. destruct (Nat.eqb_spec i l) as [->|Nl].
        -- apply Hinla in Hy as [->|Hy]; [|now apply Hold].
           split; [exact Hrn|]. split; [exact Hord|]. split; [discriminate|]. intros _. exists bb. split; [|reflexivity].
           rewrite Hrow. cbn [b_dst ba]. destruct (Nat.eqb_spec rr l); [lia|]. rewrite Nat.eqb_refl. apply Hinlb. now left.
        -- destruct (Nat.eqb_spec i rr) as [->|Nr]; [|now apply Hold].
           apply Hinlb in Hy as [->|Hy]; [|now apply Hold].
           split; [exact Hl|]. split; [exact Hord|]. split; [discriminate|]. intros _. exists ba. split; [|reflexivity].
           rewrite Hrow. cbn [b_dst bb]. rewrite Nat.eqb_refl. apply Hinla. now left.
      * intros i Hi. rewrite Hcnt. change (capOf m' i) with (capOf m i).
        destruct (Nat.eqb_spec i l) as [->|]; cbn [orb]; [lia|].
        destruct (Nat.eqb_spec i rr) as [->|]; [lia|]. now apply Hv.
      * exact Hro.
      * apply (HQ_ring m l rr order (r_ls r) (r_rs r) pl pr m' Hm ltac:(lia) Hrn Hord).
        -- unfold has_bond. replace (Nat.min l rr) with l by lia. replace (Nat.max l rr) with rr by lia. now rewrite Ef.
        -- unfold add_ring_bond. rewrite Ela. fold ba. rewrite Ela'. cbn [bind]. rewrite Erow_rr. fold bb. rewrite Elb'. reflexivity.
    + split; [now rewrite !upd_length|]. intros i Hi. rewrite Hrow, !nth_upd, !upd_length, Hml.
      rewrite (Nat.eqb_sym rr i), (Nat.eqb_sym l i).
      assert (Xl : (l <? natoms m)%nat = true) by (apply Nat.ltb_lt; lia).
      assert (Xr : (rr <? natoms m)%nat = true) by (apply Nat.ltb_lt; lia).
      destruct (Nat.eqb_spec i rr) as [E1'|N1']; destruct (Nat.eqb_spec i l) as [E2'|N2']; cbn [andb].
      * exfalso. lia.
      * subst i. rewrite Xr. rewrite Hllb. rewrite (nth_error_nth _ _ 0%nat Epr). lia.
      * subst i. rewrite Xl, Hlla, (nth_error_nth _ _ 0%nat Epl). lia.
      * now apply Hmade.
Qed.

Lemma form_rings_good : forall rings m, MolWF m -> Q2 m -> RingsOK m rings ->
  exists m', form_rings m rings = Ok m' /\ MolWF m' /\ atoms m' = atoms m /\ roots m' = roots m /\ Q2 m'.
Proof.
  intros rings m Hm Hq2 Hr. unfold form_rings.
  assert (G : forall rings m made, MolWF m -> Q2 m -> MadeOK m made -> RingsOK m rings ->
              exists m' made', fold_left form_ring rings (Ok (m, made)) = Ok (m', made') /\
                               MolWF m' /\ atoms m' = atoms m /\ roots m' = roots m /\ Q2 m').
  { clear Hm Hr Hq2. clear m. clear rings. induction rings as [|r rings IH]; intros m made Hm Hq2 Hmd Hr; [exists m, made; auto|].
    inversion Hr as [|? ? (A & B & C) Hr']; subst. cbn [fold_left].
    pose proof (form_ring_good m made r Hm Hq2 Hmd A B C) as G.
    destruct (form_ring (Ok (m, made)) r) as [[m1 made1]|e]; [|contradiction].
    destruct G as (Hm1 & Hmd1 & Ea & Ero & Hq1).
    destruct (IH m1 made1 Hm1 Hq1 Hmd1) as (m' & made' & E & Hm' & Ea' & Ero' & Hq').
    { eapply RingsOK_ext; [|exact Hr']. unfold natoms. rewrite Ea. lia. }
    exists m', made'. split; [exact E|]. split; [exact Hm'|]. split; [congruence|]. split; [congruence|exact Hq']. }
  destruct (G rings m (repeat 0%nat (length (atoms m))) Hm Hq2) as (m' & made' & E & Hm' & Ea & Ero & Hq'); [|exact Hr|].
  - split; [now rewrite repeat_length|]. intros i Hi. rewrite nth_repeat. lia.
  - rewrite E. cbn [bind]. eauto 6.
Qed.

(* ---------- the writer cannot fail on such a graph ---------- *)
Lemma atom_to_smiles_ok a b : a_aromatic a = false -> exists s, atom_to_smiles a b = Ok s.
Proof.
  intro H. unfold atom_to_smiles. rewrite H.
  destruct (a_isotope a), (a_chirality a), (a_hcount a), (a_charge a =? 0); eauto.
Qed.

Lemma bond_to_smiles_ok o st : 1 <= o <= 3 -> exists s, bond_to_smiles o st = Ok s.
Proof.
  intro H. unfold bond_to_smiles.
  destruct (Z.eqb_spec o 1); [eauto|]. destruct (Z.eqb_spec o 2); [eauto|]. destruct (Z.eqb_spec o 3); [eauto|]. lia.
Qed.

Lemma write_atom_ok m : MolWF m -> forall fuel curr log,
  (curr < natoms m)%nat -> (natoms m - curr < fuel)%nat -> exists r, write_atom fuel m curr log = Ok r.
Proof.
  intros Hm. pose proof Hm as [Ha Hc Hat Hb Hv Hro HQm].
  induction fuel as [|f IH]; intros curr log Hcur Hf; [lia|].
  cbn [write_atom].
  destruct (nth_error (atoms m) curr) as [[[a c] at_]|] eqn:Ea; [|apply nth_error_None in Ea; unfold natoms in *; lia].
  destruct (nth_error (adj m) curr) as [bonds|] eqn:Eb; [|apply nth_error_None in Eb; lia].
  destruct (Hat _ _ _ _ Ea) as (_ & Har & _). destruct (atom_to_smiles_ok a true Har) as [tok ->]. cbn [bind].
  assert (Hrow : bonds = row m curr) by (unfold row; now rewrite (nth_error_nth _ _ [] Eb)).
  assert (Hall : forall e, In e bonds -> bond_ok m curr e) by (intros e He; apply Hb; now rewrite <- Hrow).
  clear Hrow Eb.
  match goal with
  | |- exists r, (do _ <- ?GO bonds log; _) = Ok r =>
      assert (G : forall l log0, (forall e, In e l -> bond_ok m curr e) -> exists r, GO l log0 = Ok r)
  end.
  { induction l as [|e rest IHl]; intros log0 Hl; [eauto|].
    destruct (Hl e (or_introl eq_refl)) as (B1 & B2 & B3 & _).
    destruct (bond_to_smiles_ok (b_order e) (b_stereo e) B2) as [btok Ebt].
    cbn beta iota. rewrite Ebt. cbn [bind]. cbv zeta.
    destruct (b_ring e) eqn:Er.
    - destruct (ring_label log0 (b_src e) (b_dst e)) as [log2 n].
      destruct (IHl log2 (fun e0 H0 => Hl e0 (or_intror H0))) as [[out log3] E3]. rewrite E3. cbn [bind]. eauto.
    - specialize (B3 eq_refl).
      destruct (IH (b_dst e) log0 B1 ltac:(lia)) as [[sub log2] E2]. rewrite E2. cbn [bind].
      destruct (IHl log2 (fun e0 H0 => Hl e0 (or_intror H0))) as [[out log3] E3]. rewrite E3. cbn [bind].
      destruct rest; eauto. }
  destruct (G bonds log Hall) as [[out log2] ->]. cbn [bind]. eauto.
Qed.

Lemma write_roots_ok m : MolWF m -> forall rs log base, (forall r, In r rs -> (r < natoms m)%nat) ->
  exists x, write_roots m rs log base = Ok x.
Proof.
  intros Hm. induction rs as [|r rs IH]; intros log base Hr; [cbn; eauto|].
  cbn [write_roots].
  destruct (write_atom_ok m Hm (S (length (atoms m))) r log (Hr r (or_introl eq_refl))) as [[evs log2] ->].
  { unfold natoms. lia. }
  cbn [bind]. destruct (IH log2 (base + length (concat (map w_tok evs)) + 1)%nat (fun r0 H0 => Hr r0 (or_intror H0))) as [[frags maps] ->].
  cbn [bind]. eauto.
Qed.

Lemma mol_to_smiles_ok m : MolWF m -> exists x, mol_to_smiles m = Ok x.
Proof.
  intro Hm. unfold mol_to_smiles. destruct (write_roots_ok m Hm (roots m) [] 0%nat (wf_roots m Hm)) as [[frags maps] ->].
  cbn [bind]. eauto.
Qed.

(* ---------- whole strings ---------- *)
Lemma enumerate_from_length {A} : forall (l : list A) k, length (enumerate_from k l) = length l.
Proof. induction l as [|x l IH]; intro k; cbn; auto. Qed.

Lemma enumerate_from_snd {A} : forall (l : list A) k, map snd (enumerate_from k l) = l.
Proof. induction l as [|x l IH]; intro k; cbn; [reflexivity|]. now rewrite IH. Qed.

Definition frag_ok (f : list str * option exn) : Prop :=
  (snd f = None \/ snd f = Some DecoderError) /\ Forall tok_ok (fst f).

Section Whole.
Variable T : table.
Hypothesis Hq : exists c, assoc (lit "?") T = Some c.
Hypothesis HP : forall t o st a cap, process_atom_symbol T t = Ok (Some (o, st, a, cap)) -> P a cap.

Lemma derive_frags_good : forall attribute tfrags m rings aidx,
  MolWF m -> Q2 m -> RingsOK m rings -> Forall frag_ok tfrags ->
  match derive_frags T attribute tfrags m rings aidx with
  | Ok (m', rings') => MolWF m' /\ RingsOK m' rings' /\ Q2 m'
  | Err e => e = DecoderError
  end.
Proof.
  intros attribute. induction tfrags as [|[ts bad] rest IH]; intros m rings aidx Hm Hq2 Hr Hf; [cbn; auto|].
  inversion Hf as [|? ? [Hb Ht] Hrest]; subst. cbn [fst snd] in *.
  unfold derive_frags. cbn [derive_frags_c]. fold (derive_frags_c (get_bonding_capacity T)).
  pose proof (derive_good T Hq bad Hb aidx HP (S (length ts)) (enumerate_from 0 ts) m None 0 PNone rings
                (if attribute then Some [] else None) 0%nat) as G.
  unfold derive in G.
  destruct (derive_c (get_bonding_capacity T) bad aidx (S (length ts)) (enumerate_from 0 ts) m None 0 PNone rings
              (if attribute then Some [] else None) 0) as [[[[ts' m2] rings2] n]|e]; cbn [bind].
  - assert (PP : Post (enumerate_from 0 ts) m 0 PNone (ts', m2, rings2, n)).
    { apply G; auto.
      - rewrite enumerate_from_length. lia.
      - split; [lia|]. intro; lia.
      - unfold toks_ok. apply Forall_forall. intros it Hin. rewrite Forall_forall in Ht. apply Ht.
        rewrite <- (enumerate_from_snd ts 0%nat). now apply in_map. }
    destruct PP as (Hm2 & Hr2 & _ & _ & Hq22). apply (IH m2 rings2 (aidx + n)%nat Hm2 Hq22 Hr2 Hrest).
  - apply G; auto.
    + rewrite enumerate_from_length. lia.
    + split; [lia|]. intro; lia.
    + unfold toks_ok. apply Forall_forall. intros it Hin. rewrite Forall_forall in Ht. apply Ht.
      rewrite <- (enumerate_from_snd ts 0%nat). now apply in_map.
Qed.

(* no atom symbol of the string overflows int(): the only crash the model knows in the decoder *)
Definition digits_ok (s : str) : Prop :=
  forall frag, In frag (split_char c_dot s) -> Forall tok_ok (fst (split_selfies frag)).

Lemma tokenize_all_ok s : digits_ok s -> Forall frag_ok (tokenize_all s false).
Proof.
  intro H. unfold tokenize_all. apply Forall_forall. intros f Hin. apply in_map_iff in Hin as (frag & <- & Hfr).
  specialize (H frag Hfr). unfold tokenize_selfies. destruct (split_selfies frag) as [ts bad0]. cbn [fst] in H.
  split; cbn [fst snd].
  - destruct bad0; auto.
  - apply Forall_forall. intros t Ht. apply filter_In in Ht as [Ht _]. rewrite Forall_forall in H. now apply H.
Qed.

(* the token streams of all fragments are fine: nothing but DecoderError is raised by the (modernising)
   tokenizer and int() accepts the digit fields of every token *)
Definition frags_ok (s : str) (compat : bool) : Prop := Forall frag_ok (tokenize_all s compat).

(* C01 (graph level): whatever the decoder derives, the graph is well formed and
   no atom's bond count exceeds its capacity under the table in force *)
Theorem decode_graph_wf_c : forall s compat attribute m, frags_ok s compat ->
  decode_graph T s compat attribute = Ok m -> MolWF m /\ Q2 m.
Proof.
  intros s compat attribute m Hd E. unfold decode_graph, decode_graph_c in E.
  pose proof (derive_frags_good attribute (tokenize_all s compat) empty_mol [] 0%nat wf_empty HQ2_0 (Forall_nil _) Hd) as G.
  unfold derive_frags in G.
  destruct (derive_frags_c (get_bonding_capacity T) attribute (tokenize_all s compat) empty_mol [] 0) as [[m1 rings]|e]; cbn [bind] in E; [|discriminate].
  destruct G as (Hm1 & Hr1 & Hq1). destruct (form_rings_good rings m1 Hm1 Hq1 Hr1) as (m' & E' & Hm' & _ & _ & Hq'). rewrite E' in E. inversion E; subst. auto.
Qed.

(* C08: the decoder returns or raises DecoderError *)
Theorem decoder_total_c : forall s compat attribute, frags_ok s compat ->
  (exists out, decoder T s compat attribute = Ok out) \/ decoder T s compat attribute = Err DecoderError.
Proof.
  intros s compat attribute Hd. unfold decoder, decoder_c, decode_graph_c.
  pose proof (derive_frags_good attribute (tokenize_all s compat) empty_mol [] 0%nat wf_empty HQ2_0 (Forall_nil _) Hd) as G.
  unfold derive_frags in G.
  destruct (derive_frags_c (get_bonding_capacity T) attribute (tokenize_all s compat) empty_mol [] 0) as [[m1 rings]|e]; cbn [bind].
  - destruct G as (Hm1 & Hr1 & Hq1). destruct (form_rings_good rings m1 Hm1 Hq1 Hr1) as (m' & E' & Hm' & _). rewrite E'. cbn [bind].
    left. apply (mol_to_smiles_ok m' Hm').
  - right. now rewrite G.
Qed.

Theorem decode_graph_wf : forall s attribute m, digits_ok s ->
  decode_graph T s false attribute = Ok m -> MolWF m /\ Q2 m.
Proof. intros s attribute m Hd. apply decode_graph_wf_c. now apply tokenize_all_ok. Qed.

Theorem decoder_total : forall s attribute, digits_ok s ->
  (exists out, decoder T s false attribute = Ok out) \/ decoder T s false attribute = Err DecoderError.
Proof. intros s attribute Hd. apply decoder_total_c. now apply tokenize_all_ok. Qed.
End Whole.
End Inv.
