(* RingCount.v — the number of pairs of atoms joined by ring bonds in the decoded graph is at most the
   number of ring symbols in the input: the hypothesis of C01's main theorem can be read off the string. *)
From Coq Require Import Ascii String List Arith ZArith NArith Bool Lia.
Import ListNotations.
From Selfies Require Import Base Generated Lex Atoms Grammar Compat Decoder BaseFacts StateFacts DecoderBasics ConfigFacts
  DecoderInv DecoderTree DecoderSum DeriveOk WriterSim WriterFinal.
Local Open Scope Z_scope.

(* ---------- ring symbols consumed vs ring requests queued ---------- *)
Definition rc (ts : toks) : nat := length (filter (fun it => is_ring_like (snd it)) ts).

Lemma rc_app a b : rc (a ++ b) = (rc a + rc b)%nat.
Proof. unfold rc. now rewrite filter_app, app_length. Qed.

Lemma rc_skipn k ts : (rc (skipn k ts) <= rc ts)%nat.
Proof. rewrite <- (firstn_skipn k ts) at 2. rewrite rc_app. lia. Qed.

Lemma read_index_suffix bad : forall n ts acc k syms ts' nr, read_index n ts bad acc k = Ok (syms, ts', nr) -> (rc ts' <= rc ts)%nat.
Proof.
  induction n as [|n IH]; intros ts acc k syms ts' nr E; cbn [read_index] in E; [inversion E; subst; lia|].
  destruct ts as [|[i s] r].
  - unfold raise_or in E. destruct bad; [discriminate|]. apply IH in E. exact E.
  - apply IH in E. unfold rc in *. cbn [filter snd]. destruct (is_ring_like s); cbn [length]; lia.
Qed.

Lemma drain_rc ts bad maxd nd ts' nd' : drain ts bad maxd nd = Ok (ts', nd') -> (rc ts' <= rc ts)%nat.
Proof.
  unfold drain. destruct maxd as [mx|].
  - destruct (_ <=? _)%nat; [intro E; inversion E; subst; apply rc_skipn|].
    unfold raise_or. destruct bad; [discriminate|]. intro E. inversion E; subst. unfold rc. cbn. lia.
  - unfold raise_or. destruct bad; [discriminate|]. intro E. inversion E; subst. unfold rc. cbn. lia.
Qed.

(* ---------- no ring bonds before the ring-forming pass ---------- *)
Definition NoRing (m : dmol) : Prop := forall x e, In e (row m x) -> b_ring e = false.

Lemma upd_row_in (ad : list (list dbond)) k f i e : In e (nth i (upd ad k f) []) -> In e (nth i ad []) \/ (i = k /\ In e (f (nth k ad []))).
Proof.
  rewrite nth_upd. destruct (Nat.eqb_spec k i) as [->|N]; cbn [andb]; [|now left].
  destruct (i <? length ad)%nat; [right; auto|now left].
Qed.

Lemma noring_empty : NoRing empty_mol.
Proof. intros x e. unfold row, empty_mol. cbn. destruct x; intros []. Qed.

Lemma noring_atom m a cap at_ root : NoRing m -> NoRing (fst (add_atom m a cap at_ root)).
Proof.
  intros H x e. unfold row, add_atom. cbn [fst adj]. intro He.
  destruct (Nat.lt_ge_cases x (length (adj m))) as [L|L].
  - rewrite app_nth1 in He by exact L. exact (H x e He).
  - rewrite app_nth2 in He by exact L. destruct (x - length (adj m))%nat as [|[|k]]; cbn in He; destruct He.
Qed.

Lemma noring_bond m src dst o st at_ m' : NoRing m -> add_bond m src dst o st at_ = Ok m' -> NoRing m'.
Proof.
  intros H E. unfold add_bond in E. destruct (negb _); [discriminate|]. destruct (negb _); [discriminate|]. injection E as <-.
  intros x e. unfold row. cbn [adj]. intro He. apply upd_row_in in He as [He|[-> He]]; [exact (H x e He)|].
  apply in_app_iff in He as [He|[<-|[]]]; [exact (H src e He)|reflexivity].
Qed.

Section Count.
Variable capf : capfun.
Variable bad : option exn.
Variable aidx : nat.

Lemma derive_rc : forall fuel ts m maxd state prev rings astack nd ts' m' rings' nd',
  derive_c capf bad aidx fuel ts m maxd state prev rings astack nd = Ok (ts', m', rings', nd') ->
  (length rings' + rc ts' <= length rings + rc ts)%nat /\ (NoRing m -> NoRing m').
Proof.
  induction fuel as [|f IH]; intros ts m maxd state prev rings astack nd ts' m' rings' nd' E; [discriminate|].
  cbn [derive_c] in E. cbv zeta in E.
  assert (Fin : forall ts0 (m0 : dmol) (rings0 : list ringreq) nd0,
            (do (t, n) <- drain ts0 bad maxd nd0; Ok (t, m0, rings0, n)) = Ok (ts', m', rings', nd') ->
            (length rings' + rc ts' <= length rings0 + rc ts0)%nat /\ (NoRing m0 -> NoRing m')).
  { intros ts0 m0 rings0 nd0 H. destruct (drain ts0 bad maxd nd0) as [[t n]|] eqn:Ed; cbn [bind] in H; [|discriminate].
    inversion H; subst. apply drain_rc in Ed. split; [lia|auto]. }
  assert (Cont : forall ts0 m0 nst prev0 rings0 nd0,
            match nst with
            | None => do (t, n) <- drain ts0 bad maxd nd0; Ok (t, m0, rings0, n)
            | Some st => derive_c capf bad aidx f ts0 m0 maxd st prev0 rings0 astack nd0 end = Ok (ts', m', rings', nd') ->
            (length rings' + rc ts' <= length rings0 + rc ts0)%nat /\ (NoRing m0 -> NoRing m')).
  { intros ts0 m0 nst prev0 rings0 nd0 H. destruct nst; [now apply IH in H|now apply Fin in H]. }
  destruct (negb (below nd maxd)); [now apply Fin in E|].
  destruct ts as [|[idx sym] rest].
  - unfold raise_or in E. destruct bad; [discriminate|]. now apply Fin in E.
  - assert (Hrc : (rc rest <= rc ((idx, sym) :: rest))%nat) by (unfold rc; cbn [filter snd]; destruct (is_ring_like sym); cbn [length]; lia).
    destruct (is_branch_like sym).
    { destruct (process_branch_symbol sym) as [[btype n]|]; [|discriminate].
      destruct (state <=? 1); [apply (Cont rest m (Some state)) in E; destruct E; split; [lia|auto]|].
      destruct (negb (next_branch_state_pre btype state)); [discriminate|].
      destruct (next_branch_state btype state) as [binit nstate].
      destruct (read_index n rest bad [] 0) as [[[syms rest2] nread]|] eqn:Eri; cbn [bind] in E; [|discriminate].
      apply read_index_suffix in Eri.
      destruct (derive_c capf bad aidx f rest2 m _ binit prev rings _ 0) as [[[[rest3 m2] rings2] nsub]|] eqn:Es; cbn [bind] in E; [|discriminate].
      apply IH in Es. apply (Cont rest3 m2 (Some nstate)) in E. destruct Es, E. split; [lia|auto]. }
    destruct (is_ring_like sym) eqn:Erl.
    { assert (Hrc1 : rc ((idx, sym) :: rest) = S (rc rest)) by (unfold rc; cbn [filter snd]; rewrite Erl; reflexivity).
      destruct (process_ring_symbol sym) as [[[rtype n] [ls rs]]|]; [|discriminate].
      destruct (state =? 0); [apply (Cont rest m (Some state)) in E; destruct E; split; [lia|auto]|].
      destruct (negb (next_ring_state_pre rtype state)); [discriminate|].
      destruct (next_ring_state rtype state) as [rorder nstate].
      destruct (read_index n rest bad [] 0) as [[[syms rest2] nread]|] eqn:Eri; cbn [bind] in E; [|discriminate].
      apply read_index_suffix in Eri.
      destruct prev as [| |p]; try discriminate.
      destruct (negb _); [discriminate|]. apply Cont in E. rewrite app_length in E. cbn [length] in E. destruct E. split; [lia|auto]. }
    destruct (is_eps_like sym); [apply Cont in E; destruct E; split; [lia|auto]|].
    destruct (process_atom_symbol_c capf sym) as [[[[[border stereo] a] cap]|]|]; cbn [bind] in E; try discriminate.
    destruct (next_atom_state border cap state) as [mu nstate].
    destruct (mu =? 0).
    + destruct (state =? 0); [|apply Cont in E; destruct E; split; [lia|auto]].
      destruct (add_atom m a cap _ true) as [m2 i] eqn:Ea. apply Cont in E. destruct E as [E1 E2]. split; [lia|].
      intro H. apply E2. change m2 with (fst (m2, i)). rewrite <- Ea. now apply noring_atom.
    + destruct (add_atom m a cap _ false) as [m2 i] eqn:Ea. destruct prev as [| |p]; try discriminate.
      destruct (add_bond m2 p i mu stereo _) as [m3|] eqn:Eb; cbn [bind] in E; [|discriminate]. apply Cont in E. destruct E as [E1 E2]. split; [lia|].
      intro H. apply E2. assert (H2 : NoRing m2) by (change m2 with (fst (m2, i)); rewrite <- Ea; now apply noring_atom). exact (noring_bond _ _ _ _ _ _ _ H2 Eb).
Qed.
End Count.

(* over all fragments *)
Definition ring_symbols_in (tfrags : list (list str * option exn)) : nat :=
  fold_right (fun f acc => (length (filter is_ring_like (fst f)) + acc)%nat) 0%nat tfrags.

Lemma rc_enumerate : forall ts k, rc (enumerate_from k ts) = length (filter is_ring_like ts).
Proof. induction ts as [|t r IH]; intro k; [reflexivity|]. unfold rc in *. cbn [enumerate_from filter snd]. destruct (is_ring_like t); cbn [length]; now rewrite IH. Qed.

Lemma derive_frags_rc capf attribute : forall tfrags m rings aidx m' rings',
  derive_frags_c capf attribute tfrags m rings aidx = Ok (m', rings') ->
  (length rings' <= length rings + ring_symbols_in tfrags)%nat /\ (NoRing m -> NoRing m').
Proof.
  induction tfrags as [|[ts bad] rest IH]; intros m rings aidx m' rings' E; cbn [derive_frags_c] in E.
  - inversion E; subst. cbn. split; [lia|auto].
  - destruct (derive_c capf bad aidx _ _ m None 0 PNone rings _ 0) as [[[[ts' m2] rings2] n]|] eqn:Ed; cbn [bind] in E; [|discriminate].
    apply derive_rc in Ed. rewrite rc_enumerate in Ed. apply IH in E. cbn [ring_symbols_in fold_right fst]. fold (ring_symbols_in rest).
    destruct Ed, E. split; [lia|auto].
Qed.

(* ---------- the ring-forming pass adds at most one new pair per request ---------- *)
Definition rkeys (m : dmol) : list (nat * nat) :=
  flat_map (fun x => map (fun e => key_of x (b_dst e)) (filter b_ring (row m x))) (seq 0 (natoms m)).

Lemma rkeys_in m k : In k (rkeys m) <-> exists x e, (x < natoms m)%nat /\ In e (row m x) /\ b_ring e = true /\ k = key_of x (b_dst e).
Proof.
  unfold rkeys. rewrite in_flat_map. split.
  - intros (x & Hx & Hk). apply in_seq in Hx. apply in_map_iff in Hk as (e & <- & He). apply filter_In in He as [He Hr]. exists x, e. repeat split; auto; lia.
  - intros (x & e & Hx & He & Hr & ->). exists x. split; [apply in_seq; lia|]. apply in_map_iff. exists e. split; [reflexivity|]. apply filter_In. auto.
Qed.

Lemma key_of_sym a b : key_of a b = key_of b a.
Proof. unfold key_of. now rewrite Nat.min_comm, Nat.max_comm. Qed.

Lemma ring_bond_rows m a b o sa sb pa pb m' : add_ring_bond m a b o sa sb pa pb = Ok m' ->
  atoms m' = atoms m /\ forall x e, In e (row m' x) -> In e (row m x) \/ key_of x (b_dst e) = key_of a b.
Proof.
  unfold add_ring_bond. intro E.
  destruct (nth_error (adj m) a) as [la|] eqn:Ela; [|discriminate].
  destruct (add_at_loc la pa _) as [la'|] eqn:Ela'; cbn [bind] in E; [|discriminate].
  destruct (nth_error (upd (adj m) a (fun _ => la')) b) as [lb|] eqn:Elb; [|discriminate].
  destruct (add_at_loc lb pb _) as [lb'|] eqn:Elb'; cbn [bind] in E; [|discriminate].
  injection E as <-. split; [reflexivity|].
  pose proof (add_at_loc_in _ _ _ _ Ela') as Ia. pose proof (add_at_loc_in _ _ _ _ Elb') as Ib.
  assert (Hla : la = nth a (adj m) []) by (symmetry; now apply nth_error_nth).
  assert (Hlb : lb = nth b (upd (adj m) a (fun _ => la')) []) by (symmetry; now apply nth_error_nth).
  assert (A1 : forall x e, In e (nth x (upd (adj m) a (fun _ => la')) []) -> In e (row m x) \/ key_of x (b_dst e) = key_of a b).
  { intros x e He. apply upd_row_in in He as [He|[-> He]]; [now left|].
    apply Ia in He as [->|He]; [right; reflexivity|left; unfold row; now rewrite <- Hla]. }
  intros x e. unfold row at 1. cbn [adj]. intro He. apply upd_row_in in He as [He|[-> He]]; [now apply A1|].
  apply Ib in He as [->|He]; [right; cbn [b_dst]; apply key_of_sym|]. apply A1. now rewrite <- Hlb.
Qed.

Lemma upd_order_rows m a b new m' : update_bond_order m a b new = Ok m' ->
  atoms m' = atoms m /\ forall x e, In e (row m' x) -> exists e1, In e1 (row m x) /\ b_dst e = b_dst e1 /\ b_ring e = b_ring e1.
Proof.
  unfold update_bond_order. intro E. destruct (negb _); [discriminate|].
  destruct (find_bond m (Nat.min a b) (Nat.max a b)) as [e0|]; [|discriminate].
  destruct (new =? b_order e0); [injection E as <-; split; [reflexivity|eauto]|].
  assert (H1 : forall (ad : list (list dbond)) k d x e, In e (nth x (upd ad k (fun l0 => set_order l0 d new)) []) ->
            exists e1, In e1 (nth x ad []) /\ b_dst e = b_dst e1 /\ b_ring e = b_ring e1).
  { intros ad k d x e He. apply upd_row_in in He as [He|[-> He]]; [eauto|].
    apply In_set_order in He as (e1 & He1 & Hd & Hr & _). eauto. }
  destruct (b_ring e0).
  - destruct (find_bond m (Nat.max a b) (Nat.min a b)); [|discriminate]. cbn [bind] in E. injection E as <-. split; [reflexivity|].
    intros x e. unfold row at 1. cbn [adj]. intro He. apply H1 in He as (e1 & He1 & -> & ->). apply H1 in He1 as (e2 & He2 & -> & ->). eauto.
  - cbn [bind] in E. injection E as <-. split; [reflexivity|]. intros x e. unfold row at 1. cbn [adj]. apply H1.
Qed.

Lemma form_ring_keys m made r m' made' : form_ring (Ok (m, made)) r = Ok (m', made') ->
  natoms m' = natoms m /\ incl (rkeys m') (key_of (r_l r) (r_r r) :: rkeys m).
Proof.
  unfold form_ring. cbn [bind]. cbv zeta. intro E.
  assert (Same : forall mm, mm = m -> natoms mm = natoms m /\ incl (rkeys mm) (key_of (r_l r) (r_r r) :: rkeys m)).
  { intros mm ->. split; [reflexivity|]. intros k Hk. now right. }
  destruct (Nat.eqb (r_l r) (r_r r)); [injection E as <- _; now apply Same|].
  destruct (get_cap m (r_l r)); cbn [bind] in E; [|discriminate].
  destruct (get_count m (r_l r)); cbn [bind] in E; [|discriminate].
  destruct (get_cap m (r_r r)); cbn [bind] in E; [|discriminate].
  destruct (get_count m (r_r r)); cbn [bind] in E; [|discriminate].
  destruct (_ || _); [injection E as <- _; now apply Same|].
  destruct (has_bond m (r_l r) (r_r r)).
  - destruct (find_bond m (r_l r) (r_r r)) as [e0|]; [|discriminate].
    destruct (update_bond_order m (r_l r) (r_r r) _) as [m2|] eqn:Eu; cbn [bind] in E; [|discriminate]. injection E as <- _.
    apply upd_order_rows in Eu as [Eat Hrows]. unfold natoms. rewrite Eat. split; [reflexivity|].
    intros k Hk. right. apply rkeys_in in Hk as (x & e & Hx & He & Hr & ->). apply Hrows in He as (e1 & He1 & -> & Hr1).
    apply rkeys_in. exists x, e1. unfold natoms in *. rewrite Eat in Hx. repeat split; auto. congruence.
  - destruct (nth_error made (r_l r)) as [pl|]; [|discriminate]. destruct (nth_error made (r_r r)) as [pr|]; [|discriminate].
    destruct (add_ring_bond m (r_l r) (r_r r) _ _ _ pl pr) as [m2|] eqn:Ea; cbn [bind] in E; [|discriminate]. injection E as <- _.
    apply ring_bond_rows in Ea as [Eat Hrows]. unfold natoms. rewrite Eat. split; [reflexivity|].
    intros k Hk. apply rkeys_in in Hk as (x & e & Hx & He & Hr & ->). apply Hrows in He as [He|Hk]; [|left; now symmetry].
    right. apply rkeys_in. exists x, e. unfold natoms in *. rewrite Eat in Hx. auto.
Qed.

Lemma fold_form_ring_err rings e : fold_left form_ring rings (Err e) = Err e.
Proof. induction rings as [|r rest IH]; [reflexivity|]. cbn [fold_left]. exact IH. Qed.

Lemma form_rings_keys : forall rings m made m' made', fold_left form_ring rings (Ok (m, made)) = Ok (m', made') ->
  natoms m' = natoms m /\ incl (rkeys m') (map (fun r => key_of (r_l r) (r_r r)) rings ++ rkeys m).
Proof.
  induction rings as [|r rest IH]; intros m made m' made' E; cbn [fold_left] in E.
  - injection E as <- _. split; [reflexivity|]. intros k Hk. exact Hk.
  - destruct (form_ring (Ok (m, made)) r) as [[m2 made2]|e] eqn:E1; [|rewrite fold_form_ring_err in E; discriminate].
    apply form_ring_keys in E1 as [N1 I1]. apply IH in E as [N2 I2]. split; [congruence|].
    intros k Hk. apply I2 in Hk. apply in_app_iff in Hk as [Hk|Hk]; [cbn [map]; right; apply in_app_iff; now left|].
    apply I1 in Hk as [<-|Hk]; [now left|]. right. apply in_app_iff. now right.
Qed.

Lemma rkeys_noring m : NoRing m -> rkeys m = [].
Proof.
  intro H. destruct (rkeys m) as [|k l] eqn:E; [reflexivity|]. assert (Hk : In k (rkeys m)) by (rewrite E; now left).
  apply rkeys_in in Hk as (x & e & _ & He & Hr & _). rewrite (H x e He) in Hr. discriminate.
Qed.

(* ---------- the statement ---------- *)
Definition ring_symbol_count (s : str) (compat : bool) : nat := ring_symbols_in (tokenize_all s compat).

Theorem ring_pairs_le_symbols capf s compat attribute m :
  decode_graph_c capf s compat attribute = Ok m -> (length (ring_pairs m) <= ring_symbol_count s compat)%nat.
Proof.
  unfold decode_graph_c. intro E.
  destruct (derive_frags_c capf attribute (tokenize_all s compat) empty_mol [] 0) as [[m1 rings]|] eqn:Ed; cbn [bind] in E; [|discriminate].
  apply derive_frags_rc in Ed as [Hlen Hnr]. specialize (Hnr noring_empty).
  unfold form_rings in E. destruct (fold_left form_ring rings _) as [[m2 made]|] eqn:Ef; cbn [bind] in E; [|discriminate]. injection E as <-.
  apply form_rings_keys in Ef as [_ Hincl]. rewrite (rkeys_noring m1 Hnr), app_nil_r in Hincl.
  unfold ring_pairs. fold (rkeys m2).
  apply Nat.le_trans with (length (map (fun r => key_of (r_l r) (r_r r)) rings)).
  - apply NoDup_incl_length; [apply NoDup_nodup|]. intros k Hk. apply nodup_In in Hk. now apply Hincl.
  - rewrite map_length. cbn [length] in Hlen. unfold ring_symbol_count. lia.
Qed.
