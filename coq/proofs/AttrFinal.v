(* AttrFinal.v — C17, decoder side: the attribution the decoder returns is truthful about both strings. *)
From Coq Require Import Ascii String List Arith ZArith NArith Bool Lia.
Import ListNotations.
From Selfies Require Import Base Generated Lex Atoms Grammar Decoder BaseFacts DecoderInv Hanging AttrOut AttrIn.
Local Open Scope Z_scope.

(* the symbols of the input that take part in the derivation, in order ([nop] and '.' left out) *)
Definition input_symbols (s : str) (compat : bool) : list str := concat (map fst (tokenize_all s compat)).

Theorem decoder_attribution_truthful T s compat attribute out maps :
  decoder T s compat attribute = Ok (out, maps) ->
  forall a, In a maps ->
    ends_at out (am_index a) (am_token a) /\
    match am_attr a with
    | None => True
    | Some l => Forall (fun e => nth_error (input_symbols s compat) (fst e) = Some (snd e)) l
    end /\
    ((exists at_, atom_to_smiles at_ true = Ok (am_token a) /\ atom_attr T (am_attr a) at_) \/
     (exists o st, bond_to_smiles o st = Ok (am_token a))).
Proof.
  intros E a Ha. unfold decoder, decoder_c, decode_graph_c in E. fold (derive_frags T) in E.
  destruct (derive_frags T attribute (tokenize_all s compat) empty_mol [] 0) as [[m1 rings]|] eqn:Ed; cbn [bind] in E; [|discriminate].
  destruct (form_rings m1 rings) as [m|] eqn:Ef; cbn [bind] in E; [|discriminate].
  split; [exact (output_tokens_located m out maps E a Ha)|].
  (* no fragment ends in an exception *)
  assert (Hall : Forall (fun f => snd f = None) (tokenize_all s compat)).
  { apply Forall_forall. intros f Hf. destruct (snd f) as [e0|] eqn:Es; [|reflexivity]. exfalso.
    apply (derive_frags_bad (get_bonding_capacity T) attribute (tokenize_all s compat) empty_mol [] 0%nat (m1, rings)); [|exact Ed].
    apply Exists_exists. exists f. split; [exact Hf|]. rewrite Es. discriminate. }
  assert (Htok : tokenize_all s compat = map (fun fr => (fr, @None exn)) (map fst (tokenize_all s compat))).
  { rewrite map_map. rewrite <- (map_id (tokenize_all s compat)) at 1. apply map_ext_in. intros [ts b] Hf. rewrite Forall_forall in Hall. specialize (Hall _ Hf). cbn in *. now subst b. }
  rewrite Htok in Ed.
  assert (I0 : AInv T (input_symbols s compat) empty_mol).
  { constructor; [intros i a0 c at_ H; destruct i; discriminate|]. intros x e H. unfold row, empty_mol in H. cbn in H. destruct x; destruct H. }
  pose proof (frags_attr T (input_symbols s compat) attribute _ _ _ _ _ _ [] Ed eq_refl ltac:(exists []; cbn [app]; unfold input_symbols; now rewrite app_nil_r) I0) as I1.
  pose proof (form_rings_attr T _ _ _ _ I1 Ef) as I2.
  unfold mol_to_smiles in E. destruct (write_roots m (roots m) [] 0) as [[frags mp]|] eqn:Ew; cbn [bind] in E; [|discriminate].
  inversion E; subst. exact (write_roots_events T _ m I2 _ _ _ _ _ Ew a Ha).
Qed.
