(* AttrFacts.v — attribution is observation-only in the decoder (C17):
   the attribution stack and the attribution index never influence control flow,
   the graph (up to the attribution fields stored in it) or the printed string.
   Holds for ALL strings, tables and flags; no side condition. *)
From Coq Require Import Ascii String List Arith ZArith NArith Bool Lia.
Import ListNotations.
From Selfies Require Import Base Generated Lex Atoms Grammar Compat Decoder BaseFacts ConfigFacts.
Local Open Scope Z_scope.

(* ---------- forgetting the attribution fields ---------- *)
Definition strip_bond (e : dbond) : dbond :=
  {| b_src := b_src e; b_dst := b_dst e; b_order := b_order e; b_stereo := b_stereo e; b_ring := b_ring e; b_attr := None |}.
Definition strip_atom (x : atom * Z * attrs) : atom * Z * attrs := let '(a, c, _) := x in (a, c, None).
Definition strip (m : dmol) : dmol :=
  {| atoms := map strip_atom (atoms m); roots := roots m; adj := map (map strip_bond) (adj m); counts := counts m |}.

Definition map_res {A B} (f : A -> B) (r : res A) : res B := match r with Ok a => Ok (f a) | Err e => Err e end.

Lemma map_res_bind {A B C} (f : B -> C) (r : res A) (k : A -> res B) :
  map_res f (bind r k) = bind r (fun a => map_res f (k a)).
Proof. destruct r; reflexivity. Qed.

Lemma upd_map {A B} (g : A -> B) (l : list A) i (f : A -> A) (f' : B -> B) :
  (forall x, g (f x) = f' (g x)) -> map g (upd l i f) = upd (map g l) i f'.
Proof. intro H. revert i. induction l as [|x l IH]; intros [|i]; cbn; try reflexivity; [now rewrite H|now rewrite IH]. Qed.

Lemma strip_empty : strip empty_mol = empty_mol.
Proof. reflexivity. Qed.

Lemma strip_add_atom m a cap at_ root :
  strip (fst (add_atom m a cap at_ root)) = fst (add_atom (strip m) a cap None root) /\
  snd (add_atom m a cap at_ root) = snd (add_atom (strip m) a cap None root).
Proof.
  unfold add_atom, strip. cbn [fst snd atoms roots adj counts]. rewrite !map_app, !map_length. cbn [map strip_atom]. split; reflexivity.
Qed.

Lemma strip_add_bond m src dst order st at_ :
  map_res strip (add_bond m src dst order st at_) = add_bond (strip m) src dst order st None.
Proof.
  unfold add_bond. destruct (negb (src <? dst)%nat); [reflexivity|].
  unfold strip at 2 3. cbn [adj counts]. rewrite map_length.
  destruct (negb _); [reflexivity|]. cbn [map_res]. unfold strip. cbn [atoms roots adj counts]. f_equal. f_equal.
  apply upd_map. intro l. rewrite map_app. reflexivity.
Qed.

(* ---------- the derivation ---------- *)
Definition strip4 (r : toks * dmol * list ringreq * nat) : toks * dmol * list ringreq * nat :=
  let '(ts, m, rings, n) := r in (ts, strip m, rings, n).

Lemma push_none a : push_attr None a = None.
Proof. reflexivity. Qed.

Section Derive.
Variable capf : capfun.
Variable bad : option exn.

Lemma derive_strip : forall fuel aidx aidx' ts m maxd state prev rings astack nd,
  map_res strip4 (derive_c capf bad aidx fuel ts m maxd state prev rings astack nd) =
  derive_c capf bad aidx' fuel ts (strip m) maxd state prev rings None nd.
Proof.
  induction fuel as [|f IH]; intros aidx aidx' ts m maxd state prev rings astack nd; [reflexivity|].
  cbn [derive_c]. cbv zeta.
  assert (Fin : forall ts0 m0 rings0 nd0,
            map_res strip4 (do (ts', nd') <- drain ts0 bad maxd nd0; Ok (ts', m0, rings0, nd')) =
            (do (ts', nd') <- drain ts0 bad maxd nd0; Ok (ts', strip m0, rings0, nd'))).
  { intros. destruct (drain ts0 bad maxd nd0) as [[a b]|e]; reflexivity. }
  assert (Cont : forall ts0 m0 nst prev0 rings0 nd0,
            map_res strip4 (match nst with
                            | None => do (ts', nd') <- drain ts0 bad maxd nd0; Ok (ts', m0, rings0, nd')
                            | Some st => derive_c capf bad aidx f ts0 m0 maxd st prev0 rings0 astack nd0 end) =
            match nst with
            | None => do (ts', nd') <- drain ts0 bad maxd nd0; Ok (ts', strip m0, rings0, nd')
            | Some st => derive_c capf bad aidx' f ts0 (strip m0) maxd st prev0 rings0 None nd0 end).
  { intros. destruct nst; [apply IH|apply Fin]. }
  destruct (negb (below nd maxd)); [apply Fin|].
  destruct ts as [|[idx sym] rest].
  - unfold raise_or. destruct bad; [reflexivity|apply Fin].
  - destruct (is_branch_like sym).
    { destruct (process_branch_symbol sym) as [[btype n]|]; [|reflexivity].
      destruct (state <=? 1); [apply (Cont rest m (Some state))|].
      destruct (negb (next_branch_state_pre btype state)); [reflexivity|].
      destruct (next_branch_state btype state) as [binit nstate].
      destruct (read_index n rest bad [] 0) as [[[syms rest2] nread]|e]; [|reflexivity]. cbn [bind].
      rewrite push_none.
      rewrite <- (IH aidx aidx' rest2 m (Some (N.to_nat (get_index_from_selfies syms) + 1)%nat) binit prev rings
                    (push_attr astack ((idx + aidx)%nat, sym)) 0%nat).
      destruct (derive_c capf bad aidx f rest2 m _ binit prev rings _ 0) as [[[[rest3 m2] rings2] nsub]|e]; [|reflexivity].
      cbn [map_res strip4 bind]. apply (Cont rest3 m2 (Some nstate)). }
    destruct (is_ring_like sym).
    { destruct (process_ring_symbol sym) as [[[rtype n] [ls rs]]|]; [|reflexivity].
      destruct (state =? 0); [apply (Cont rest m (Some state))|].
      destruct (negb (next_ring_state_pre rtype state)); [reflexivity|].
      destruct (next_ring_state rtype state) as [rorder nstate].
      destruct (read_index n rest bad [] 0) as [[[syms rest2] nread]|e]; [|reflexivity]. cbn [bind].
      destruct prev as [| |p]; try reflexivity.
      unfold strip at 1. cbn [atoms]. rewrite map_length. fold (strip m).
      destruct (negb (_ <? length (atoms m))%nat); [reflexivity|]. apply Cont. }
    destruct (is_eps_like sym); [apply Cont|].
    destruct (process_atom_symbol_c capf sym) as [[[[[border stereo] a] cap]|]|e]; cbn [bind]; try reflexivity.
    destruct (next_atom_state border cap state) as [mu nstate]. rewrite push_none.
    destruct (mu =? 0).
    + destruct (state =? 0); [|apply Cont].
      destruct (strip_add_atom m a cap (push_attr astack ((idx + aidx)%nat, sym)) true) as [E1 E2].
      destruct (add_atom m a cap (push_attr astack ((idx + aidx)%nat, sym)) true) as [m2 i].
      destruct (add_atom (strip m) a cap None true) as [m2' i']. cbn [fst snd] in E1, E2. subst m2' i'. apply Cont.
    + destruct (strip_add_atom m a cap (push_attr astack ((idx + aidx)%nat, sym)) false) as [E1 E2].
      destruct (add_atom m a cap (push_attr astack ((idx + aidx)%nat, sym)) false) as [m2 i].
      destruct (add_atom (strip m) a cap None false) as [m2' i']. cbn [fst snd] in E1, E2. subst m2' i'.
      destruct prev as [| |p]; try reflexivity.
      rewrite <- (strip_add_bond m2 p i mu stereo (push_attr astack ((idx + aidx)%nat, sym))).
      destruct (add_bond m2 p i mu stereo (push_attr astack ((idx + aidx)%nat, sym))) as [m3|e]; [|reflexivity].
      cbn [map_res bind]. apply Cont.
Qed.
End Derive.

(* ---------- ring formation ---------- *)
Lemma nth_error_strip_atoms m i :
  nth_error (atoms (strip m)) i = option_map strip_atom (nth_error (atoms m) i).
Proof. unfold strip. cbn [atoms]. apply nth_error_map. Qed.

Lemma get_cap_strip m i : get_cap (strip m) i = get_cap m i.
Proof. unfold get_cap. rewrite nth_error_strip_atoms. destruct (nth_error (atoms m) i) as [[[a c] at_]|]; reflexivity. Qed.

Lemma get_count_strip m i : get_count (strip m) i = get_count m i.
Proof. reflexivity. Qed.

Lemma row_strip m a : nth a (adj (strip m)) [] = map strip_bond (nth a (adj m) []).
Proof. unfold strip. cbn [adj]. change (@nil dbond) with (map strip_bond []) at 1. apply map_nth. Qed.

Lemma find_strip (l : list dbond) b :
  find (fun e => Nat.eqb (b_dst e) b) (map strip_bond l) = option_map strip_bond (find (fun e => Nat.eqb (b_dst e) b) l).
Proof. induction l as [|e l IH]; cbn; [reflexivity|]. destruct (Nat.eqb (b_dst e) b); [reflexivity|exact IH]. Qed.

Lemma find_bond_strip m a b : find_bond (strip m) a b = option_map strip_bond (find_bond m a b).
Proof. unfold find_bond. rewrite row_strip. apply find_strip. Qed.

Lemma has_bond_strip m a b : has_bond (strip m) a b = has_bond m a b.
Proof. unfold has_bond. rewrite find_bond_strip. destruct (find_bond m _ _); reflexivity. Qed.

Lemma set_order_strip l d new : map strip_bond (set_order l d new) = set_order (map strip_bond l) d new.
Proof. unfold set_order. rewrite !map_map. apply map_ext. intro e. cbn. destruct (Nat.eqb (b_dst e) d); reflexivity. Qed.

Lemma update_bond_order_strip m a b new :
  update_bond_order (strip m) a b new = map_res strip (update_bond_order m a b new).
Proof.
  unfold update_bond_order. destruct (negb _); [reflexivity|].
  rewrite !find_bond_strip. destruct (find_bond m (Nat.min a b) (Nat.max a b)) as [e|]; [|reflexivity].
  cbn [option_map strip_bond b_order b_ring]. destruct (new =? b_order e); [reflexivity|].
  destruct (b_ring e).
  - destruct (find_bond m (Nat.max a b) (Nat.min a b)) as [e2|]; [|reflexivity]. cbn [option_map bind map_res].
    unfold strip. cbn [atoms roots adj counts]. f_equal. f_equal.
    rewrite (upd_map (map strip_bond) _ _ _ (fun l => set_order l (Nat.min a b) new)) by (intro; apply set_order_strip).
    rewrite (upd_map (map strip_bond) _ _ _ (fun l => set_order l (Nat.max a b) new)) by (intro; apply set_order_strip).
    reflexivity.
  - cbn [bind map_res]. unfold strip. cbn [atoms roots adj counts]. f_equal. f_equal.
    rewrite (upd_map (map strip_bond) _ _ _ (fun l => set_order l (Nat.max a b) new)) by (intro; apply set_order_strip).
    reflexivity.
Qed.

Lemma insert_at_map {A B} (g : A -> B) : forall (l : list A) pos x, map g (insert_at l pos x) = insert_at (map g l) pos (g x).
Proof. induction l as [|y l IH]; intros [|pos] x; cbn; try reflexivity. now rewrite IH. Qed.

Lemma add_at_loc_strip l pos b : strip_bond b = b ->
  add_at_loc (map strip_bond l) pos b = map_res (map strip_bond) (add_at_loc l pos b).
Proof.
  intro Hb. unfold add_at_loc. rewrite map_length. destruct (pos =? length l)%nat.
  - cbn. rewrite map_app. cbn. now rewrite Hb.
  - destruct (pos <? length l)%nat; [|reflexivity]. cbn. rewrite insert_at_map. now rewrite Hb.
Qed.

Lemma nth_error_adj_strip m i : nth_error (adj (strip m)) i = option_map (map strip_bond) (nth_error (adj m) i).
Proof. unfold strip. cbn [adj]. apply nth_error_map. Qed.

Lemma add_ring_bond_strip m a b order sa sb pa pb :
  add_ring_bond (strip m) a b order sa sb pa pb = map_res strip (add_ring_bond m a b order sa sb pa pb).
Proof.
  unfold add_ring_bond. rewrite nth_error_adj_strip. destruct (nth_error (adj m) a) as [la|]; [|reflexivity]. cbn [option_map].
  rewrite add_at_loc_strip by reflexivity. destruct (add_at_loc la pa _) as [la'|]; [|reflexivity]. cbn [map_res bind].
  assert (E : upd (adj (strip m)) a (fun _ => map strip_bond la') = map (map strip_bond) (upd (adj m) a (fun _ => la'))).
  { unfold strip. cbn [adj]. symmetry. apply upd_map. reflexivity. }
  rewrite E. rewrite nth_error_map. destruct (nth_error (upd (adj m) a (fun _ => la')) b) as [lb|]; [|reflexivity]. cbn [option_map].
  rewrite add_at_loc_strip by reflexivity. destruct (add_at_loc lb pb _) as [lb'|]; [|reflexivity]. cbn [map_res bind].
  unfold strip. cbn [atoms roots adj counts]. f_equal. f_equal. symmetry. apply upd_map. reflexivity.
Qed.

Definition strip_st (x : dmol * list nat) : dmol * list nat := (strip (fst x), snd x).

Lemma form_ring_strip st r : form_ring (map_res strip_st st) r = map_res strip_st (form_ring st r).
Proof.
  destruct st as [[m made]|e]; [|reflexivity]. unfold form_ring. cbn [map_res strip_st fst snd bind]. cbv zeta.
  destruct (Nat.eqb (r_l r) (r_r r)); [reflexivity|].
  rewrite !get_cap_strip, !get_count_strip.
  destruct (get_cap m (r_l r)) as [lc|]; [|reflexivity]. cbn [bind].
  destruct (get_count m (r_l r)) as [lcnt|]; [|reflexivity]. cbn [bind].
  destruct (get_cap m (r_r r)) as [rc|]; [|reflexivity]. cbn [bind].
  destruct (get_count m (r_r r)) as [rcnt|]; [|reflexivity]. cbn [bind].
  destruct (_ || _); [reflexivity|].
  rewrite has_bond_strip. destruct (has_bond m (r_l r) (r_r r)).
  - rewrite find_bond_strip. destruct (find_bond m (r_l r) (r_r r)) as [e|]; [|reflexivity]. cbn [option_map strip_bond b_order].
    rewrite update_bond_order_strip. destruct (update_bond_order m _ _ _) as [m'|]; reflexivity.
  - destruct (nth_error made (r_l r)) as [pl|]; [|reflexivity]. destruct (nth_error made (r_r r)) as [pr|]; [|reflexivity].
    rewrite add_ring_bond_strip. destruct (add_ring_bond m _ _ _ _ _ _ _) as [m'|]; reflexivity.
Qed.

Lemma form_rings_strip m rings : form_rings (strip m) rings = map_res strip (form_rings m rings).
Proof.
  unfold form_rings.
  assert (G : forall rings st, fold_left form_ring rings (map_res strip_st st) = map_res strip_st (fold_left form_ring rings st)).
  { induction rings0 as [|r rs IH]; intro st; [reflexivity|]. cbn [fold_left]. rewrite form_ring_strip. apply IH. }
  change (Ok (strip m, repeat 0%nat (length (atoms (strip m))))) with (map_res strip_st (Ok (m, repeat 0%nat (length (atoms (strip m)))))).
  unfold strip at 1. cbn [atoms]. rewrite map_length. rewrite G.
  destruct (fold_left form_ring rings (Ok (m, repeat 0%nat (length (atoms m))))) as [[m' made]|e]; reflexivity.
Qed.

(* ---------- the writer ---------- *)
Definition strip_ev (e : wev) : wev := {| w_kind := w_kind e; w_tok := w_tok e; w_attr := None |}.
Definition strip_evs (x : list wev * list (nat * nat)) := (map strip_ev (fst x), snd x).
Definition strip_amap (a : amap) : amap := {| am_index := am_index a; am_token := am_token a; am_attr := None |}.

Lemma label_events_strip n : map strip_ev (label_events n) = label_events n.
Proof. unfold label_events. destruct (10 <=? n)%nat; reflexivity. Qed.

Lemma write_atom_strip m : forall fuel curr log,
  write_atom fuel (strip m) curr log = map_res strip_evs (write_atom fuel m curr log).
Proof.
  induction fuel as [|f IH]; intros curr log; [reflexivity|]. cbn [write_atom].
  rewrite nth_error_strip_atoms, nth_error_adj_strip.
  destruct (nth_error (atoms m) curr) as [[[a c] at_]|]; [|reflexivity]. cbn [option_map strip_atom].
  destruct (nth_error (adj m) curr) as [bonds|]; [|reflexivity]. cbn [option_map].
  destruct (atom_to_smiles a true) as [tok|]; [|reflexivity]. cbn [bind].
  match goal with |- (do _ <- ?GO1 (map strip_bond bonds) log; _) = map_res _ (do _ <- ?GO2 bonds log; _) =>
    assert (G : forall l lg, GO1 (map strip_bond l) lg = map_res strip_evs (GO2 l lg)) end.
  { induction l as [|e rest IHl]; intro lg; [reflexivity|]. cbn [map strip_bond b_order b_stereo b_ring b_attr b_src b_dst].
    destruct (bond_to_smiles (b_order e) (b_stereo e)) as [btok|]; [|reflexivity]. cbn [bind].
    destruct (b_ring e).
    - destruct (ring_label lg (b_src e) (b_dst e)) as [log2 n]. rewrite IHl.
      match goal with |- context [map_res strip_evs (?X rest log2)] => destruct (X rest log2) as [[out log3]|] end; [|reflexivity].
      cbn [map_res bind]. unfold strip_evs. cbn [fst snd map]. rewrite map_app, label_events_strip. reflexivity.
    - rewrite IH. destruct (write_atom f m (b_dst e) lg) as [[sub log2]|]; [|reflexivity]. cbn [map_res bind]. unfold strip_evs at 1. cbn [fst snd].
      rewrite IHl.
      match goal with |- context [map_res strip_evs (?X rest log2)] => destruct (X rest log2) as [[out log3]|] end; [|reflexivity].
      destruct rest; cbn [map_res bind]; unfold strip_evs; cbn [fst snd map]; rewrite ?map_app; cbn [map strip_ev w_kind w_tok]; reflexivity. }
  rewrite G.
  match goal with |- context [map_res strip_evs (?X bonds log)] => destruct (X bonds log) as [[out log2]|] end; reflexivity.
Qed.

Lemma maps_of_strip : forall evs pos base, maps_of (map strip_ev evs) pos base = map strip_amap (maps_of evs pos base).
Proof.
  induction evs as [|e r IH]; intros pos base; [reflexivity|]. cbn [map maps_of strip_ev w_tok w_kind w_attr].
  rewrite IH. destruct (w_kind e); try reflexivity; destruct (w_tok e); reflexivity.
Qed.

Lemma toks_strip evs : map w_tok (map strip_ev evs) = map w_tok evs.
Proof. rewrite map_map. reflexivity. Qed.

Definition strip_out (x : list str * list amap) := (fst x, map strip_amap (snd x)).

Lemma write_roots_strip m : forall rs log base,
  write_roots (strip m) rs log base = map_res strip_out (write_roots m rs log base).
Proof.
  induction rs as [|r rest IH]; intros log base; [reflexivity|]. cbn [write_roots].
  unfold strip at 1. cbn [atoms]. rewrite map_length. rewrite write_atom_strip.
  destruct (write_atom (S (length (atoms m))) m r log) as [[evs log2]|]; [|reflexivity]. cbn [map_res bind]. unfold strip_evs at 1. cbn [fst snd].
  rewrite toks_strip, IH.
  destruct (write_roots m rest log2 _) as [[frags maps]|]; [|reflexivity]. cbn [map_res bind]. unfold strip_out. cbn [fst snd].
  rewrite maps_of_strip, map_app. reflexivity.
Qed.

Definition strip_result (x : str * list amap) := (fst x, map strip_amap (snd x)).

Lemma mol_to_smiles_strip m : mol_to_smiles (strip m) = map_res strip_result (mol_to_smiles m).
Proof.
  unfold mol_to_smiles. change (roots (strip m)) with (roots m). rewrite write_roots_strip.
  destruct (write_roots m (roots m) [] 0) as [[frags maps]|]; reflexivity.
Qed.

(* ---------- whole decoder ---------- *)
Definition strip2 (x : dmol * list ringreq) := (strip (fst x), snd x).

Lemma derive_frags_strip capf : forall tfrags m rings aidx aidx',
  derive_frags_c capf false tfrags (strip m) rings aidx' = map_res strip2 (derive_frags_c capf true tfrags m rings aidx).
Proof.
  induction tfrags as [|[ts bad] rest IH]; intros m rings aidx aidx'; [reflexivity|]. cbn [derive_frags_c].
  rewrite <- (derive_strip capf bad (S (length ts)) aidx aidx' (enumerate_from 0 ts) m None 0 PNone rings (Some []) 0%nat).
  destruct (derive_c capf bad aidx (S (length ts)) (enumerate_from 0 ts) m None 0 PNone rings (Some []) 0) as [[[[ts' m2] rings2] n]|]; [|reflexivity].
  cbn [map_res strip4 bind]. apply IH.
Qed.

(* without attribution the decoder returns exactly what it returns with attribution, the attribution erased:
   same outcome (value or exception), same string, same attribution indices and tokens *)
Theorem decoder_attribute_observation_only capf s compat :
  decoder_c capf s compat false = map_res strip_result (decoder_c capf s compat true).
Proof.
  unfold decoder_c, decode_graph_c.
  pose proof (derive_frags_strip capf (tokenize_all s compat) empty_mol [] 0%nat 0%nat) as E. rewrite strip_empty in E. rewrite E.
  destruct (derive_frags_c capf true (tokenize_all s compat) empty_mol [] 0) as [[m rings]|]; [|reflexivity].
  cbn [map_res strip2 fst snd bind]. rewrite form_rings_strip.
  destruct (form_rings m rings) as [m'|]; [|reflexivity]. cbn [map_res bind]. apply mol_to_smiles_strip.
Qed.
