(* AttrIn.v — C17: every contributing input token of an attribution entry is the symbol at the reported
   position of the input, and every atom is attributed to the enclosing branch symbols followed by the
   atom symbol that created it. *)
From Coq Require Import Ascii String List Arith ZArith NArith Bool Lia.
Import ListNotations.
From Selfies Require Import Base Generated Lex Atoms Grammar Decoder BaseFacts StateFacts ConfigFacts DecoderBasics DecoderInv RingCount DocDerive.
Local Open Scope Z_scope.

Section Frag.
Variable T : table.
Variable G : list str.        (* all symbols of the input, [nop] and dots left out *)
Variable toks : list str.     (* the symbols of this fragment *)
Variable aidx : nat.          (* position of its first symbol in G *)
Hypothesis HG : forall i s, nth_error toks i = Some s -> nth_error G (i + aidx) = Some s.

Definition truthful (a : attrs) : Prop :=
  match a with None => True | Some l => Forall (fun e => nth_error G (fst e) = Some (snd e)) l end.

(* enclosing branch symbols, then the atom symbol that made the atom *)
Definition atom_attr (at_ : attrs) (a : atom) : Prop :=
  match at_ with
  | None => True
  | Some l => exists st i sym, l = st ++ [(i, sym)] /\ Forall (fun e => is_branch_like (snd e) = true) st /\
                               exists o s cap, process_atom_symbol T sym = Ok (Some (o, s, a, cap))
  end.

Definition stack_ok (a : attrs) : Prop :=
  truthful a /\ match a with None => True | Some l => Forall (fun e => is_branch_like (snd e) = true) l end.

Record AInv (m : dmol) : Prop := {
  ai_atoms : forall i a c at_, nth_error (atoms m) i = Some (a, c, at_) -> truthful at_ /\ atom_attr at_ a;
  ai_bonds : forall x e, In e (row m x) -> truthful (b_attr e) }.

(* the token list carries the right positions *)
Definition AtI (ts : Decoder.toks) (pos : nat) : Prop := ts = enumerate_from pos (skipn pos toks).

Lemma enumerate_skipn {A} : forall k p (l : list A), skipn k (enumerate_from p l) = enumerate_from (p + k) (skipn k l).
Proof.
  induction k as [|k IH]; intros p l; [now rewrite Nat.add_0_r|]. destruct l as [|x l]; [reflexivity|].
  cbn [enumerate_from skipn]. rewrite IH. f_equal. lia.
Qed.

Lemma AtI_cons idx sym rest pos : AtI ((idx, sym) :: rest) pos -> idx = pos /\ nth_error toks pos = Some sym /\ AtI rest (S pos).
Proof.
  unfold AtI. intro H. destruct (skipn pos toks) as [|t r] eqn:E; [discriminate|]. cbn [enumerate_from] in H. injection H as -> -> ->.
  split; [reflexivity|]. split.
  - rewrite <- (firstn_skipn pos toks), E. assert (L : length (firstn pos toks) = pos).
    { rewrite firstn_length. apply Nat.min_l. destruct (Nat.le_gt_cases pos (length toks)); [assumption|]. rewrite skipn_all2 in E by lia. discriminate. }
    rewrite nth_error_app2 by lia. now rewrite L, Nat.sub_diag.
  - f_equal. replace (S pos) with (pos + 1)%nat by lia. rewrite <- skipn_skipn', E. reflexivity.
Qed.

Lemma AtI_skipn ts pos k : AtI ts pos -> AtI (skipn k ts) (pos + k).
Proof. unfold AtI. intros ->. now rewrite enumerate_skipn, skipn_skipn'. Qed.

Lemma truthful_push a i s : truthful a -> nth_error G i = Some s -> truthful (push_attr a (i, s)).
Proof. destruct a as [l|]; [|auto]. cbn. intros H E. apply Forall_app. split; [exact H|]. constructor; [exact E|constructor]. Qed.

Lemma ainv_atom m a cap at_ root : AInv m -> truthful at_ -> atom_attr at_ a -> AInv (fst (add_atom m a cap at_ root)).
Proof.
  intros [HA HB] Ht Ha. constructor.
  - intros i a0 c at0 E. unfold add_atom in E. cbn [fst atoms] in E.
    destruct (Nat.lt_ge_cases i (length (atoms m))) as [L|L].
    + rewrite nth_error_app1 in E by exact L. eauto.
    + rewrite nth_error_app2 in E by exact L. destruct (i - length (atoms m))%nat as [|[|k]]; cbn in E; try discriminate. injection E as <- _ <-. auto.
  - intros x e He. unfold row, add_atom in He. cbn [fst adj] in He.
    destruct (Nat.lt_ge_cases x (length (adj m))) as [L|L].
    + rewrite app_nth1 in He by exact L. eauto.
    + rewrite app_nth2 in He by exact L. destruct (x - length (adj m))%nat as [|[|k]]; cbn in He; destruct He.
Qed.

Lemma ainv_bond m src dst o st at_ m' : AInv m -> truthful at_ -> add_bond m src dst o st at_ = Ok m' -> AInv m'.
Proof.
  intros [HA HB] Ht E. unfold add_bond in E. destruct (negb _); [discriminate|]. destruct (negb _); [discriminate|]. injection E as <-.
  constructor; [exact HA|]. intros x e He. unfold row in He. cbn [adj] in He. apply upd_row_in in He as [He|[-> He]]; [eauto|].
  apply in_app_iff in He as [He|[<-|[]]]; [eauto|exact Ht].
Qed.

Theorem derive_attr : forall fuel ts m maxd state prev rings astack nd ts' m' rings' nd',
  derive T None aidx fuel ts m maxd state prev rings astack nd = Ok (ts', m', rings', nd') ->
  forall pos, AtI ts pos -> AInv m -> stack_ok astack -> AInv m' /\ exists pos', AtI ts' pos'.
Proof.
  induction fuel as [|f IH]; intros ts m maxd state prev rings astack nd ts' m' rings' nd' E pos HA HI HS; [discriminate|].
  unfold derive in E. cbn [derive_c] in E. cbv zeta in E. fold (derive T) in E.
  assert (Fin : forall ts0 (m0 : dmol) (rings0 : list ringreq) nd0 pos0,
            (do (t, n) <- drain ts0 None maxd nd0; Ok (t, m0, rings0, n)) = Ok (ts', m', rings', nd') ->
            AtI ts0 pos0 -> AInv m0 -> AInv m' /\ exists pos', AtI ts' pos').
  { intros ts0 m0 rings0 nd0 pos0 H A0 I0. unfold drain in H. destruct maxd as [mx|].
    - destruct (_ <=? _)%nat; cbn [raise_or bind] in H; injection H as <- <- <- <-; (split; [exact I0|]).
      + eexists. apply AtI_skipn. exact A0.
      + exists (length toks). unfold AtI. now rewrite skipn_all.
    - cbn [raise_or bind] in H. injection H as <- <- <- <-. split; [exact I0|]. exists (length toks). unfold AtI. now rewrite skipn_all. }
  assert (Cont : forall ts0 m0 nst prev0 rings0 nd0 pos0,
            match nst with
            | None => do (t, n) <- drain ts0 None maxd nd0; Ok (t, m0, rings0, n)
            | Some st => derive T None aidx f ts0 m0 maxd st prev0 rings0 astack nd0 end = Ok (ts', m', rings', nd') ->
            AtI ts0 pos0 -> AInv m0 -> AInv m' /\ exists pos', AtI ts' pos').
  { intros ts0 m0 nst prev0 rings0 nd0 pos0 H A0 I0. destruct nst; [exact (IH _ _ _ _ _ _ _ _ _ _ _ _ H pos0 A0 I0 HS)|exact (Fin _ _ _ _ _ H A0 I0)]. }
  destruct (negb (below nd maxd)); [exact (Fin _ _ _ _ _ E HA HI)|].
  destruct ts as [|[idx sym] rest]; [cbn [raise_or] in E; exact (Fin _ _ _ _ _ E HA HI)|].
  destruct (AtI_cons _ _ _ _ HA) as (-> & Hnth & HA1).
  pose proof (HG _ _ Hnth) as HGs.
  destruct (is_branch_like sym) eqn:Ebl.
  { destruct (process_branch_symbol sym) as [[btype n]|]; [|discriminate].
    destruct (state <=? 1); [exact (Cont _ _ (Some state) _ _ _ _ E HA1 HI)|].
    destruct (negb (next_branch_state_pre btype state)); [discriminate|].
    destruct (next_branch_state btype state) as [binit nstate].
    rewrite read_index_spec in E. cbn [bind rev app] in E.
    destruct (derive T None aidx f (skipn n rest) m _ binit prev rings _ 0) as [[[[rest3 m2] rings2] nsub]|] eqn:Es; cbn [bind] in E; [|discriminate].
    assert (HS2 : stack_ok (push_attr astack ((pos + aidx)%nat, sym))).
    { destruct HS as [S1 S2]. split; [now apply truthful_push|]. destruct astack as [l|]; [|exact I]. cbn. apply Forall_app. split; [exact S2|]. constructor; [exact Ebl|constructor]. }
    destruct (IH _ _ _ _ _ _ _ _ _ _ _ _ Es _ (AtI_skipn _ _ n HA1) HI HS2) as [I2 [pos3 A3]].
    exact (Cont _ _ (Some nstate) _ _ _ _ E A3 I2). }
  destruct (is_ring_like sym).
  { destruct (process_ring_symbol sym) as [[[rtype n] [ls rs]]|]; [|discriminate].
    destruct (state =? 0); [exact (Cont _ _ (Some state) _ _ _ _ E HA1 HI)|].
    destruct (negb (next_ring_state_pre rtype state)); [discriminate|].
    destruct (next_ring_state rtype state) as [rorder nstate].
    rewrite read_index_spec in E. cbn [bind rev app] in E.
    destruct prev as [| |p]; try discriminate.
    destruct (negb _); [discriminate|]. exact (Cont _ _ _ _ _ _ _ E (AtI_skipn _ _ n HA1) HI). }
  destruct (is_eps_like sym); [exact (Cont _ _ _ _ _ _ _ E HA1 HI)|].
  fold (process_atom_symbol T) in E.
  destruct (process_atom_symbol T sym) as [[[[[border stereo] a] cap]|]|] eqn:Epa; cbn [bind] in E; try discriminate.
  destruct (next_atom_state border cap state) as [mu nstate].
  assert (Ht : truthful (push_attr astack ((pos + aidx)%nat, sym))) by (destruct HS as [S1 _]; now apply truthful_push).
  assert (Haa : atom_attr (push_attr astack ((pos + aidx)%nat, sym)) a).
  { destruct HS as [_ S2]. destruct astack as [l|]; [|exact I]. cbn. exists l, (pos + aidx)%nat, sym. split; [reflexivity|]. split; [exact S2|eauto]. }
  destruct (mu =? 0).
  - destruct (state =? 0); [|exact (Cont _ _ _ _ _ _ _ E HA1 HI)].
    pose proof (ainv_atom m a cap _ true HI Ht Haa) as I2.
    destruct (add_atom m a cap _ true) as [m2 i]. exact (Cont _ _ _ _ _ _ _ E HA1 I2).
  - pose proof (ainv_atom m a cap _ false HI Ht Haa) as I2.
    destruct (add_atom m a cap _ false) as [m2 i]. destruct prev as [| |p]; try discriminate.
    destruct (add_bond m2 p i mu stereo _) as [m3|] eqn:Eb; cbn [bind] in E; [|discriminate].
    exact (Cont _ _ _ _ _ _ _ E HA1 (ainv_bond _ _ _ _ _ _ _ I2 Ht Eb)).
Qed.
End Frag.

(* ---------- how many symbols an instance consumes ---------- *)
Section Count.
Variable capf : capfun.
Variable aidx : nat.

Lemma derive_count : forall fuel ts m maxd state prev rings astack nd ts' m' rings' nd',
  derive_c capf None aidx fuel ts m maxd state prev rings astack nd = Ok (ts', m', rings', nd') ->
  (nd' + length ts' = nd + length ts)%nat /\ (maxd = None -> ts' = []).
Proof.
  induction fuel as [|f IH]; intros ts m maxd state prev rings astack nd ts' m' rings' nd' E; [discriminate|].
  cbn [derive_c] in E. cbv zeta in E.
  assert (Fin : forall ts0 (m0 : dmol) (rings0 : list ringreq) nd0,
            (do (t, n) <- drain ts0 None maxd nd0; Ok (t, m0, rings0, n)) = Ok (ts', m', rings', nd') ->
            (nd' + length ts' = nd0 + length ts0)%nat /\ (maxd = None -> ts' = [])).
  { intros ts0 m0 rings0 nd0 H. unfold drain in H. destruct maxd as [mx|].
    - destruct (Nat.leb_spec (mx - nd0) (length ts0)); cbn [raise_or bind] in H; injection H as <- <- <- <-; (split; [|discriminate]).
      + rewrite skipn_length. lia.
      + cbn. lia.
    - cbn [raise_or bind] in H. injection H as <- <- <- <-. split; [cbn; lia|reflexivity]. }
  assert (Cont : forall ts0 m0 nst prev0 rings0 nd0,
            match nst with
            | None => do (t, n) <- drain ts0 None maxd nd0; Ok (t, m0, rings0, n)
            | Some st => derive_c capf None aidx f ts0 m0 maxd st prev0 rings0 astack nd0 end = Ok (ts', m', rings', nd') ->
            (nd' + length ts' = nd0 + length ts0)%nat /\ (maxd = None -> ts' = [])).
  { intros ts0 m0 nst prev0 rings0 nd0 H. destruct nst; [exact (IH _ _ _ _ _ _ _ _ _ _ _ _ H)|exact (Fin _ _ _ _ H)]. }
  destruct (negb (below nd maxd)); [exact (Fin _ _ _ _ E)|].
  destruct ts as [|[idx sym] rest]; [cbn [raise_or] in E; exact (Fin _ _ _ _ E)|].
  cbn [length].
  destruct (is_branch_like sym).
  { destruct (process_branch_symbol sym) as [[btype n]|]; [|discriminate].
    destruct (state <=? 1); [destruct (Cont _ _ (Some state) _ _ _ E) as [A B]; split; [lia|exact B]|].
    destruct (negb (next_branch_state_pre btype state)); [discriminate|].
    destruct (next_branch_state btype state) as [binit nstate].
    rewrite read_index_spec in E. cbn [bind rev app] in E.
    destruct (derive_c capf None aidx f (skipn n rest) m _ binit prev rings _ 0) as [[[[rest3 m2] rings2] nsub]|] eqn:Es; cbn [bind] in E; [|discriminate].
    destruct (IH _ _ _ _ _ _ _ _ _ _ _ _ Es) as [A1 _]. destruct (Cont _ _ (Some nstate) _ _ _ E) as [A2 B2].
    rewrite skipn_length in A1. split; [lia|exact B2]. }
  destruct (is_ring_like sym).
  { destruct (process_ring_symbol sym) as [[[rtype n] [ls rs]]|]; [|discriminate].
    destruct (state =? 0); [destruct (Cont _ _ (Some state) _ _ _ E) as [A B]; split; [lia|exact B]|].
    destruct (negb (next_ring_state_pre rtype state)); [discriminate|].
    destruct (next_ring_state rtype state) as [rorder nstate].
    rewrite read_index_spec in E. cbn [bind rev app] in E.
    destruct prev as [| |p]; try discriminate.
    destruct (negb _); [discriminate|]. destruct (Cont _ _ _ _ _ _ E) as [A B]. rewrite skipn_length in A. split; [lia|exact B]. }
  destruct (is_eps_like sym); [destruct (Cont _ _ _ _ _ _ E) as [A B]; split; [lia|exact B]|].
  destruct (process_atom_symbol_c capf sym) as [[[[[border stereo] a] cap]|]|]; cbn [bind] in E; try discriminate.
  destruct (next_atom_state border cap state) as [mu nstate].
  destruct (mu =? 0).
  - destruct (state =? 0); [|destruct (Cont _ _ _ _ _ _ E) as [A B]; split; [lia|exact B]].
    destruct (add_atom m a cap _ true) as [m2 i]. destruct (Cont _ _ _ _ _ _ E) as [A B]; split; [lia|exact B].
  - destruct (add_atom m a cap _ false) as [m2 i]. destruct prev as [| |p]; try discriminate.
    destruct (add_bond m2 p i mu stereo _) as [m3|]; cbn [bind] in E; [|discriminate]. destruct (Cont _ _ _ _ _ _ E) as [A B]; split; [lia|exact B].
Qed.
End Count.

(* ---------- all fragments ---------- *)
Lemma frags_attr T G attribute : forall (frs : list (list str)) m rings aidx m' rings' PRE,
  derive_frags T attribute (map (fun fr => (fr, @None exn)) frs) m rings aidx = Ok (m', rings') ->
  length PRE = aidx -> (exists SUF, G = PRE ++ concat frs ++ SUF) -> AInv T G m -> AInv T G m'.
Proof.
  induction frs as [|fr rest IH]; intros m rings aidx m' rings' PRE E HP [SUF HGe] HI.
  - cbn in E. injection E as <- <-. exact HI.
  - unfold derive_frags in E. cbn [map derive_frags_c] in E. fold (derive_frags T) in E. fold (derive T) in E.
    destruct (derive T None aidx (S (length fr)) (enumerate_from 0 fr) m None 0 PNone rings _ 0) as [[[[ts' m2] rings2] n]|] eqn:Ed; cbn [bind] in E; [|discriminate].
    assert (HG : forall i s, nth_error fr i = Some s -> nth_error G (i + aidx) = Some s).
    { intros i s Hi. rewrite HGe. cbn [concat]. rewrite nth_error_app2 by lia. replace (i + aidx - length PRE)%nat with i by lia.
      rewrite <- app_assoc, nth_error_app1 by (apply nth_error_Some; congruence). exact Hi. }
    assert (HS : stack_ok G (if attribute then Some [] else None)) by (destruct attribute; split; constructor).
    destruct (derive_attr T G fr aidx HG _ _ _ _ _ _ _ _ _ _ _ _ _ Ed 0%nat eq_refl HI HS) as [I2 _].
    destruct (derive_count _ _ _ _ _ _ _ _ _ _ _ _ _ _ _ Ed) as [Hc Hnil]. rewrite (Hnil eq_refl), enumerate_length in Hc. cbn [length] in Hc.
    apply (IH _ _ _ _ _ (PRE ++ fr) E); [rewrite app_length; lia| |exact I2].
    exists SUF. rewrite HGe. cbn [concat]. now rewrite <- !app_assoc.
Qed.

(* ---------- the ring pass keeps the attributions ---------- *)
Lemma form_ring_attr T G m made r m' made' : AInv T G m -> form_ring (Ok (m, made)) r = Ok (m', made') -> AInv T G m'.
Proof.
  intros [HA HB] E. unfold form_ring in E. cbn [bind] in E. cbv zeta in E.
  destruct (Nat.eqb (r_l r) (r_r r)); [injection E as <- _; now constructor|].
  destruct (get_cap m (r_l r)); cbn [bind] in E; [|discriminate].
  destruct (get_count m (r_l r)); cbn [bind] in E; [|discriminate].
  destruct (get_cap m (r_r r)); cbn [bind] in E; [|discriminate].
  destruct (get_count m (r_r r)); cbn [bind] in E; [|discriminate].
  destruct (_ || _); [injection E as <- _; now constructor|].
  destruct (has_bond m (r_l r) (r_r r)).
  - destruct (find_bond m (r_l r) (r_r r)) as [e0|]; [|discriminate].
    destruct (update_bond_order m (r_l r) (r_r r) _) as [m2|] eqn:Eu; cbn [bind] in E; [|discriminate]. injection E as <- _.
    unfold update_bond_order in Eu. destruct (negb _); [discriminate|].
    destruct (find_bond m _ _) as [e1|]; [|discriminate]. destruct (_ =? b_order e1); [injection Eu as <-; now constructor|].
    assert (Hset : forall (ad : list (list dbond)) k d new x e, (forall y e', In e' (nth y ad []) -> truthful G (b_attr e')) ->
              In e (nth x (upd ad k (fun l0 => set_order l0 d new)) []) -> truthful G (b_attr e)).
    { intros ad k d new x e Hold He. apply upd_row_in in He as [He|[-> He]]; [eauto|].
      apply DecoderSum.In_set_order_inv in He as (e' & He' & ->). destruct (Nat.eqb (b_dst e') d); [cbn [DecoderSum.setord b_attr]|]; eauto. }
    destruct (b_ring e1).
    + destruct (find_bond m _ _); [|discriminate]. cbn [bind] in Eu. injection Eu as <-. constructor; [exact HA|].
      intros x e He. unfold row in He. cbn [adj] in He. eapply Hset; [|exact He]. intros y e' He'. eapply Hset; [|exact He']. intros z e'' H''. exact (HB z e'' H'').
    + cbn [bind] in Eu. injection Eu as <-. constructor; [exact HA|].
      intros x e He. unfold row in He. cbn [adj] in He. eapply Hset; [|exact He]. intros z e'' H''. exact (HB z e'' H'').
  - destruct (nth_error made (r_l r)) as [pl|]; [|discriminate]. destruct (nth_error made (r_r r)) as [pr|]; [|discriminate].
    destruct (add_ring_bond m (r_l r) (r_r r) _ _ _ pl pr) as [m2|] eqn:Ea; cbn [bind] in E; [|discriminate]. injection E as <- _.
    unfold add_ring_bond in Ea.
    destruct (nth_error (adj m) (r_l r)) as [la|] eqn:Ela; [|discriminate].
    destruct (add_at_loc la pl _) as [la'|] eqn:Ela'; cbn [bind] in Ea; [|discriminate].
    destruct (nth_error (upd (adj m) (r_l r) (fun _ => la')) (r_r r)) as [lb|] eqn:Elb; [|discriminate].
    destruct (add_at_loc lb pr _) as [lb'|] eqn:Elb'; cbn [bind] in Ea; [|discriminate]. injection Ea as <-.
    pose proof (DecoderTree.add_at_loc_in _ _ _ _ Ela') as Ia. pose proof (DecoderTree.add_at_loc_in _ _ _ _ Elb') as Ib.
    assert (Hla : la = nth (r_l r) (adj m) []) by (symmetry; now apply nth_error_nth).
    assert (Hlb : lb = nth (r_r r) (upd (adj m) (r_l r) (fun _ => la')) []) by (symmetry; now apply nth_error_nth).
    assert (A1 : forall x e, In e (nth x (upd (adj m) (r_l r) (fun _ => la')) []) -> truthful G (b_attr e)).
    { intros x e He. apply upd_row_in in He as [He|[-> He]]; [exact (HB x e He)|].
      apply Ia in He as [->|He]; [exact I|]. rewrite Hla in He. exact (HB _ e He). }
    constructor; [exact HA|]. intros x e He. unfold row in He. cbn [adj] in He. apply upd_row_in in He as [He|[-> He]]; [exact (A1 x e He)|].
    apply Ib in He as [->|He]; [exact I|]. rewrite Hlb in He. exact (A1 _ e He).
Qed.

Lemma form_rings_attr T G m rings m' : AInv T G m -> form_rings m rings = Ok m' -> AInv T G m'.
Proof.
  intros HI E. unfold form_rings in E. destruct (fold_left form_ring rings _) as [[m2 made]|] eqn:Ef; cbn [bind] in E; [|discriminate]. injection E as <-.
  assert (Gn : forall rings m0 made0 m1 made1, fold_left form_ring rings (Ok (m0, made0)) = Ok (m1, made1) -> AInv T G m0 -> AInv T G m1).
  { clear. induction rings as [|r rest IH]; intros m0 made0 m1 made1 Ef HI; cbn [fold_left] in Ef.
    - injection Ef as <- _. exact HI.
    - destruct (form_ring (Ok (m0, made0)) r) as [[mx madex]|ee] eqn:E1; [|rewrite fold_form_ring_err in Ef; discriminate].
      exact (IH _ _ _ _ Ef (form_ring_attr T G _ _ _ _ _ HI E1)). }
  exact (Gn _ _ _ _ _ Ef HI).
Qed.

(* ---------- the writer copies the attributions of atoms and bonds ---------- *)
Definition ev_ok (T : table) (G : list str) (ev : wev) : Prop :=
  truthful G (w_attr ev) /\
  (w_kind ev = WAtom -> exists a, atom_to_smiles a true = Ok (w_tok ev) /\ atom_attr T (w_attr ev) a) /\
  (w_kind ev = WBond -> exists o st, bond_to_smiles o st = Ok (w_tok ev)).

Lemma write_atom_events T G m : AInv T G m -> forall fuel c log evs log',
  write_atom fuel m c log = Ok (evs, log') -> Forall (ev_ok T G) evs.
Proof.
  intros [HA HB]. induction fuel as [|f IH]; intros c log evs log' E; [discriminate|]. cbn [write_atom] in E.
  destruct (nth_error (atoms m) c) as [[[a cap] at_]|] eqn:Ea; [|discriminate].
  destruct (nth_error (adj m) c) as [bonds|] eqn:Eb; [|discriminate].
  destruct (atom_to_smiles a true) as [tok|] eqn:Et; cbn [bind] in E; [|discriminate].
  assert (Hb : forall e, In e bonds -> truthful G (b_attr e)).
  { intros e He. apply (HB c e). unfold row. now rewrite (nth_error_nth _ _ [] Eb). }
  match type of E with (do _ <- ?GA bonds log; _) = _ =>
    assert (Gl : forall l lg out lg', (forall e, In e l -> truthful G (b_attr e)) -> GA l lg = Ok (out, lg') -> Forall (ev_ok T G) out) end.
  { induction l as [|e rest IHl]; intros lg out lg' Hl Eg; [injection Eg as <- _; constructor|].
    destruct (bond_to_smiles (b_order e) (b_stereo e)) as [btok|] eqn:Ebt; cbn [bind] in Eg; [|discriminate].
    assert (Hbev : ev_ok T G {| w_kind := WBond; w_tok := btok; w_attr := b_attr e |}).
    { split; [exact (Hl e (or_introl eq_refl))|]. split; [cbn; discriminate|]. intros _. cbn. eauto. }
    assert (Hp : forall s, ev_ok T G (punct s)) by (intro s; split; [exact I|split; cbn; discriminate]).
    assert (Hrest : forall e', In e' rest -> truthful G (b_attr e')) by (intros e' H'; apply Hl; now right).
    destruct (b_ring e).
    - destruct (ring_label lg (b_src e) (b_dst e)) as [log2 n].
      match type of Eg with (do _ <- ?X; _) = _ => destruct X as [[out0 lg3]|] eqn:Er end; cbn [bind] in Eg; [|discriminate].
      injection Eg as <- _. constructor; [exact Hbev|]. apply Forall_app. split; [|exact (IHl _ _ _ Hrest Er)].
      unfold label_events. apply Forall_app. split; [destruct (10 <=? n)%nat; repeat constructor; cbn; discriminate|repeat constructor; cbn; discriminate].
    - destruct (write_atom f m (b_dst e) lg) as [[sub lg2]|] eqn:Es; cbn [bind] in Eg; [|discriminate].
      match type of Eg with (do _ <- ?X; _) = _ => destruct X as [[out0 lg3]|] eqn:Er end; cbn [bind] in Eg; [|discriminate].
      pose proof (IH _ _ _ _ Es) as Hsub. pose proof (IHl _ _ _ Hrest Er) as Hout.
      destruct rest as [|e2 r2]; injection Eg as <- _.
      + constructor; [exact Hbev|]. apply Forall_app. split; assumption.
      + constructor; [apply Hp|]. constructor; [exact Hbev|]. apply Forall_app. split; [exact Hsub|]. constructor; [apply Hp|exact Hout]. }
  match type of E with (do _ <- ?X; _) = _ => destruct X as [[out lg2]|] eqn:Eg end; cbn [bind] in E; [|discriminate].
  injection E as <- _. constructor; [|exact (Gl _ _ _ _ Hb Eg)].
  destruct (HA c a cap at_ Ea) as [H1 H2]. split; [exact H1|]. split; [intros _; exists a; split; [exact Et|exact H2]|cbn; discriminate].
Qed.

Definition map_ok (T : table) (G : list str) (a : amap) : Prop :=
  truthful G (am_attr a) /\
  ((exists at_, atom_to_smiles at_ true = Ok (am_token a) /\ atom_attr T (am_attr a) at_) \/
   (exists o st, bond_to_smiles o st = Ok (am_token a))).

Lemma maps_of_events T G : forall evs pos base, Forall (ev_ok T G) evs ->
  forall a, In a (maps_of evs pos base) -> map_ok T G a.
Proof.
  induction evs as [|e r IH]; intros pos base H a Ha; [destruct Ha|]. inversion H as [|? ? He Hr]; subst.
  cbn [maps_of] in Ha. destruct He as (H1 & H2 & H3).
  destruct (w_kind e) eqn:Ek; [| |eauto].
  - destruct (w_tok e) eqn:Et; [eauto|]. destruct Ha as [<-|Ha]; [|eauto]. split; [exact H1|]. left. cbn [am_token am_attr]. exact (H2 eq_refl).
  - destruct (w_tok e) eqn:Et; [eauto|]. destruct Ha as [<-|Ha]; [|eauto]. split; [exact H1|]. right. cbn [am_token]. exact (H3 eq_refl).
Qed.

Lemma write_roots_events T G m : AInv T G m -> forall rs log base frags maps,
  write_roots m rs log base = Ok (frags, maps) -> forall a, In a maps -> map_ok T G a.
Proof.
  intro HI. induction rs as [|r rest IH]; intros log base frags maps E a Ha; cbn [write_roots] in E.
  - inversion E; subst. destruct Ha.
  - destruct (write_atom _ m r log) as [[evs log2]|] eqn:Ew; cbn [bind] in E; [|discriminate].
    destruct (write_roots m rest log2 _) as [[frags' maps']|] eqn:Er; cbn [bind] in E; [|discriminate]. inversion E; subst; clear E.
    apply in_app_iff in Ha as [Ha|Ha]; [|exact (IH _ _ _ _ Er a Ha)].
    exact (maps_of_events T G evs 0 base (write_atom_events T G m HI _ _ _ _ _ Ew) a Ha).
Qed.
