(* DocAtoms.v — C02: an atom symbol the decoder accepts is an atom symbol of the documented grammar
   (spec/DocGrammar.v), read with the same bond order, mark and atom, and given the same alpha. *)
From Coq Require Import Ascii String List Arith ZArith NArith Bool Lia.
Import ListNotations.
From Selfies Require Import Base Generated Lex Atoms Grammar Decoder Reader DocGrammar BaseFacts DecoderInv TokFacts DecFacts AlphaClosure WriterAtoms WriterFinal.
Local Open Scope Z_scope.

Definition nf (p : N -> bool) (r : str) : Prop := match r with [] => True | c :: _ => p c = false end.

Lemma strip_brackets_tiles X : strip_brackets (91%N :: X ++ [93%N]) = Some X.
Proof. unfold strip_brackets. rewrite N.eqb_refl, rev_app_distr. cbn [rev app]. rewrite N.eqb_refl, rev_involutive. reflexivity. Qed.

Lemma int_of_decimals_number ds n : Forall (fun c => is_09 c = true) ds -> int_of_decimals ds = Ok n -> n = number ds.
Proof.
  intros F. unfold int_of_decimals. destruct (_ && _); [discriminate|]. unfold number.
  generalize 0%N as acc. induction F as [|c l Hc F IH]; intros acc E; [now inversion E|].
  rewrite (decimal_val_09_eq c Hc) in E. cbn [fold_left]. unfold dval. now apply IH.
Qed.

Lemma organic_same s : mem_str s organic = mem_str s organic_subset.
Proof.
  assert (A : forallb (fun x => mem_str x organic_subset) organic = true) by (vm_compute; reflexivity).
  assert (B : forallb (fun x => mem_str x organic) organic_subset = true) by (vm_compute; reflexivity).
  rewrite forallb_forall in A, B.
  destruct (mem_str s organic) eqn:E1; destruct (mem_str s organic_subset) eqn:E2; try reflexivity.
  - apply mem_str_In in E1. rewrite (A _ E1) in E2. discriminate.
  - apply mem_str_In in E2. rewrite (B _ E2) in E1. discriminate.
Qed.

(* ---------- the pieces that may follow the element ---------- *)
Definition h_ok (h : str) : Prop := h = [] \/ exists d, h = [72%N; d] /\ is_09 d = true.
Definition chg_ok (g : str) : Prop :=
  g = [] \/ exists sg d1 ds, g = sg :: d1 :: ds /\ (sg = 43 \/ sg = 45)%N /\ is_19 d1 = true /\ Forall (fun c => is_09 c = true) ds.

Lemma chg_first p g r : chg_ok g -> p 43%N = false -> p 45%N = false -> nf p r -> nf p (g ++ r).
Proof. intros [->|(sg & d1 & ds & -> & [-> | ->] & _)] H1 H2 Hr; cbn; auto. Qed.

Lemma h_first p h r : h_ok h -> p 72%N = false -> nf p r -> nf p (h ++ r).
Proof. intros [->|(d & -> & _)] H1 Hr; cbn; auto. Qed.

Lemma chi_first p c r : chi_ok c -> p 64%N = false -> nf p r -> nf p (c ++ r).
Proof. intros [->|[->| ->]] H1 Hr; cbn; auto. Qed.

Lemma read_chi_tiles c r : chi_ok c -> nf (fun x => N.eqb x 64) r ->
  read_chi (c ++ r) = (match c with [] => None | _ => Some c end, r).
Proof.
  intros [->|[->| ->]] Hr; cbn [app lit].
  - destruct r as [|x r']; [reflexivity|]. cbn in Hr. unfold read_chi. now rewrite Hr.
  - cbn. destruct r as [|x r']; [reflexivity|]. cbn in Hr. now rewrite Hr.
  - reflexivity.
Qed.

Lemma read_h_tiles h r : h_ok h -> nf (fun x => N.eqb x 72) r ->
  read_h (h ++ r) = Some (match h with [_; d] => Some (dval d) | _ => None end, r).
Proof.
  intros [->|(d & -> & Hd)] Hr; cbn [app].
  - destruct r as [|x r']; [reflexivity|]. cbn in Hr. unfold read_h. now rewrite Hr.
  - unfold read_h. rewrite N.eqb_refl. change (is_digit d) with (is_09 d). now rewrite Hd.
Qed.

Lemma read_charge_tiles g : chg_ok g ->
  read_charge g = Some (match g with [] => 0 | sg :: ds => Z.of_N (number ds) * sign_of sg end).
Proof.
  intros [->|(sg & d1 & ds & -> & Hsg & H1 & Hds)]; [reflexivity|].
  unfold read_charge. assert (X : (N.eqb sg 43 || N.eqb sg 45) = true) by (destruct Hsg as [-> | ->]; reflexivity). rewrite X.
  change (is_nz_digit d1) with (is_19 d1). rewrite H1. cbn [andb].
  assert (Y : forallb is_digit ds = true) by (apply forallb_forall; intros x Hx; rewrite Forall_forall in Hds; exact (Hds x Hx)).
  rewrite Y. reflexivity.
Qed.

(* ---------- the bond prefix ---------- *)
Lemma bond_prefix_cases c : is_bond_prefix c = true -> c = 61%N \/ c = 35%N \/ c = 47%N \/ c = 92%N.
Proof.
  unfold is_bond_prefix. cbn -[N.eqb]. 
  destruct (N.eqb_spec c 61); [auto|]. destruct (N.eqb_spec c 35); [auto|]. destruct (N.eqb_spec c 47); [auto|]. destruct (N.eqb_spec c 92); [auto|].
  discriminate.
Qed.

Lemma read_prefix_none s : nf (fun c => N.eqb c 61 || N.eqb c 35 || N.eqb c 47 || N.eqb c 92) s -> read_prefix s = (1, None, s).
Proof.
  destruct s as [|c r]; [reflexivity|]. cbn [nf]. intro H. apply orb_false_iff in H as [H H4]. apply orb_false_iff in H as [H H3]. apply orb_false_iff in H as [H1 H2].
  unfold read_prefix. now rewrite H1, H2, H3, H4.
Qed.

Lemma first_not_prefix iso elem r : Forall (fun c => is_09 c = true) iso -> elem_shape elem = true ->
  nf (fun c => N.eqb c 61 || N.eqb c 35 || N.eqb c 47 || N.eqb c 92) (iso ++ elem ++ r).
Proof.
  intros Fi He. destruct iso as [|d ds].
  - destruct elem as [|e1 [|e2 [|? ?]]]; try discriminate; cbn [app nf elem_shape] in *.
    + unfold is_upper in He. apply andb_true_iff in He as [A B]. apply N.leb_le in A, B.
      repeat (apply orb_false_iff; split); apply N.eqb_neq; lia.
    + apply andb_true_iff in He as [He _]. unfold is_upper in He. apply andb_true_iff in He as [A B]. apply N.leb_le in A, B.
      repeat (apply orb_false_iff; split); apply N.eqb_neq; lia.
  - inversion Fi as [|? ? Hd _]; subst. cbn [app nf]. unfold is_09 in Hd. apply andb_true_iff in Hd as [A B]. apply N.leb_le in A, B.
    repeat (apply orb_false_iff; split); apply N.eqb_neq; lia.
Qed.

(* ---------- the part after the prefix ---------- *)
Definition doc_body (s1 : str) : option satom :=
  if mem_str s1 organic then
    Some {| sa_elem := s1; sa_arom := false; sa_iso := None; sa_chi := None; sa_h := None; sa_charge := 0 |}
  else
  let '(iso, s2) := take_while is_digit s1 in
  match s2 with
  | e1 :: s3 =>
    if negb (is_up e1) then None else
    let '(elem, s4) := match s3 with
                       | e2 :: r => if is_low e2 then ([e1; e2], r) else ([e1], s3)
                       | [] => ([e1], s3) end in
    if negb (mem_str elem elements) then None else
    let '(chi, s5) := read_chi s4 in
    match read_h s5 with
    | None => None
    | Some (h, s6) =>
      match read_charge s6 with
      | None => None
      | Some c =>
          Some {| sa_elem := elem; sa_arom := false;
                  sa_iso := match iso with [] => None | _ => Some (number iso) end;
                  sa_chi := chi; sa_h := Some (match h with Some x => x | None => 0%N end);
                  sa_charge := c |}
      end
    end
  | [] => None
  end.

Lemma parse_atom_symbol_body sym : parse_atom_symbol sym =
  match strip_brackets sym with
  | None => None
  | Some body => let '(beta, mark, s1) := read_prefix body in
                 match doc_body s1 with Some a => Some (beta, mark, a) | None => None end
  end.
Proof.
  unfold parse_atom_symbol, doc_body. destruct (strip_brackets sym) as [body|]; [|reflexivity].
  destruct (read_prefix body) as [[beta mark] s1]. destruct (mem_str s1 organic); [reflexivity|].
  destruct (take_while is_digit s1) as [iso s2]. destruct s2 as [|e1 s3]; [reflexivity|].
  destruct (negb (is_up e1)); [reflexivity|].
  destruct (match s3 with e2 :: r => if is_low e2 then ([e1; e2], r) else ([e1], s3) | [] => ([e1], s3) end) as [elem s4].
  destruct (negb (mem_str elem elements)); [reflexivity|]. destruct (read_chi s4) as [chi s5].
  destruct (read_h s5) as [[h s6]|]; [|reflexivity]. destruct (read_charge s6); reflexivity.
Qed.

Lemma doc_body_tiles iso elem chi h g : Forall (fun c => is_09 c = true) iso -> elem_shape elem = true ->
  chi_ok chi -> h_ok h -> chg_ok g -> mem_str elem elements = true ->
  mem_str (iso ++ elem ++ chi ++ h ++ g) organic = false ->
  doc_body (iso ++ elem ++ chi ++ h ++ g) =
    Some {| sa_elem := elem; sa_arom := false; sa_iso := match iso with [] => None | _ => Some (number iso) end;
            sa_chi := match chi with [] => None | _ => Some chi end;
            sa_h := Some (match h with [_; d] => dval d | _ => 0%N end);
            sa_charge := match g with [] => 0 | sg :: ds => Z.of_N (number ds) * sign_of sg end |}.
Proof.
  intros Fi He Hc Hh Hg Hel Horg. unfold doc_body. rewrite Horg.
  assert (R1 : nf is_low (chi ++ h ++ g)).
  { apply chi_first; [exact Hc|reflexivity|]. apply h_first; [exact Hh|reflexivity|]. rewrite <- (app_nil_r g). apply chg_first; [exact Hg|reflexivity|reflexivity|exact I]. }
  assert (R2 : nf (fun x => N.eqb x 64) (h ++ g)).
  { apply h_first; [exact Hh|reflexivity|]. rewrite <- (app_nil_r g). apply chg_first; [exact Hg|reflexivity|reflexivity|exact I]. }
  assert (R3 : nf (fun x => N.eqb x 72) g).
  { rewrite <- (app_nil_r g). apply chg_first; [exact Hg|reflexivity|reflexivity|exact I]. }
  destruct elem as [|e1 [|e2 [|? ?]]]; try discriminate; cbn [elem_shape] in He.
  - (* one-letter element *)
    assert (Hd : is_digit e1 = false).
    { unfold is_upper in He. apply andb_true_iff in He as [A B]. apply N.leb_le in A, B. unfold is_digit. apply andb_false_iff. right. apply N.leb_gt. lia. }
    cbn [app]. rewrite (take_while_stop is_digit iso e1 _ Fi Hd).
    change (is_up e1) with (is_upper e1). rewrite He. cbn [negb].
    assert (X : match chi ++ h ++ g with e2 :: r => if is_low e2 then ([e1; e2], r) else ([e1], chi ++ h ++ g) | [] => ([e1], chi ++ h ++ g) end = ([e1], chi ++ h ++ g)).
    { destruct (chi ++ h ++ g) as [|e2 r]; [reflexivity|]. cbn in R1. now rewrite R1. }
    rewrite X, Hel. cbn [negb]. rewrite (read_chi_tiles chi (h ++ g) Hc R2), (read_h_tiles h g Hh R3), (read_charge_tiles g Hg).
    f_equal. f_equal. destruct Hh as [->|(d & -> & _)]; reflexivity.
  - apply andb_true_iff in He as [He1 He2].
    assert (Hd : is_digit e1 = false).
    { unfold is_upper in He1. apply andb_true_iff in He1 as [A B]. apply N.leb_le in A, B. unfold is_digit. apply andb_false_iff. right. apply N.leb_gt. lia. }
    cbn [app]. rewrite (take_while_stop is_digit iso e1 _ Fi Hd).
    change (is_up e1) with (is_upper e1). rewrite He1. cbn [negb]. change (is_low e2) with (is_lower e2). rewrite He2, Hel. cbn [negb].
    rewrite (read_chi_tiles chi (h ++ g) Hc R2), (read_h_tiles h g Hh R3), (read_charge_tiles g Hg).
    f_equal. f_equal. destruct Hh as [->|(d & -> & _)]; reflexivity.
Qed.

(* ---------- the symbol as a whole ---------- *)
Theorem doc_parse_of_model sym o st a : process_atom_nocache sym = Ok (Some (o, st, a)) ->
  parse_atom_symbol sym = Some (o, st, abs_atom a).
Proof.
  unfold process_atom_nocache. destruct (match_selfies_atom sym) as [f|] eqn:Em; [|discriminate].
  destruct (match_tiles sym f Em) as (Et & Hb & Hiso & Hel & Hchi & Hh & Hc).
  remember (match f_bond f with Some c => [c] | None => [] end) as B eqn:EB.
  remember (f_iso f ++ f_elem f ++ f_chi f ++ f_h f ++ f_charge f)%list as S1 eqn:ES1.
  assert (Et' : sym = (91%N :: B ++ S1 ++ [93%N])%list) by (rewrite Et, ES1; now rewrite <- !app_assoc).
  assert (Hlen : length B = match f_bond f with Some _ => 1%nat | None => 0%nat end) by (rewrite EB; destruct (f_bond f); reflexivity).
  assert (Hbody : slice sym (1 + match f_bond f with Some _ => 1 | None => 0 end) (length sym - 1) = S1).
  { rewrite <- Hlen, Et'. change (91%N :: B ++ S1 ++ [93%N])%list with ((91%N :: B) ++ S1 ++ [93%N])%list.
    pose proof (slice_mid (91%N :: B) S1 [93%N]) as X. cbn [length] in X.
    replace (length ((91%N :: B) ++ S1 ++ [93%N]) - 1)%nat with (S (length B) + length S1)%nat; [exact X|].
    rewrite !app_length. cbn [length]. lia. }
  rewrite Hbody.
  assert (Horg : mem_str S1 organic_subset = true -> S1 = f_elem f).
  { intro H. apply mem_str_In in H. clear Hbody Et.
    destruct (f_bond f) as [c|] eqn:Ebond.
    - destruct (bond_prefix_cases c Hb) as [->|[->|[->| ->]]]; subst B; cbn in H;
        repeat (destruct H as [H|H]; [rewrite <- H in Et' |- *; clear H ES1; subst sym; vm_compute in Em; injection Em as <-; reflexivity|]); destruct H.
    - subst B; cbn in H;
        repeat (destruct H as [H|H]; [rewrite <- H in Et' |- *; clear H ES1; subst sym; vm_compute in Em; injection Em as <-; reflexivity|]); destruct H. }
  assert (Hpre : read_prefix (B ++ S1) = (fst (smiles_to_bond2 (f_bond f)) / 2, snd (smiles_to_bond2 (f_bond f)), S1)).
  { destruct (f_bond f) as [c|] eqn:Ebond; subst B.
    - destruct (bond_prefix_cases c Hb) as [->|[->|[->| ->]]]; reflexivity.
    - cbn [app]. rewrite read_prefix_none; [reflexivity|]. subst S1. now apply first_not_prefix. }
  rewrite parse_atom_symbol_body.
  assert (Hstrip : strip_brackets sym = Some (B ++ S1)%list).
  { rewrite Et'. change (91%N :: B ++ S1 ++ [93%N])%list with (91%N :: (B ++ S1 ++ [93%N]))%list. rewrite app_assoc. apply strip_brackets_tiles. }
  rewrite Hstrip, Hpre.
  destruct (smiles_to_bond2 (f_bond f)) as [order2 stereo]. cbn [fst snd].
  destruct (mem_str S1 organic_subset) eqn:Eorg.
  - intro E. injection E as <- <- <-. unfold doc_body. rewrite organic_same, Eorg. rewrite (Horg eq_refl). reflexivity.
  - destruct (match f_iso f with [] => Ok None | _ => _ end) as [iso|] eqn:Eiso; cbn [bind]; [|discriminate].
    destruct (mem_str (f_elem f) elements) eqn:Eel; cbn [negb]; [|discriminate].
    destruct (match f_h f with [] => Ok 0%N | _ => _ end) as [h|] eqn:Eh; cbn [bind]; [|discriminate].
    destruct (match f_charge f with [] => Ok 0 | _ => _ end) as [chg|] eqn:Ec; cbn [bind]; [|discriminate].
    intro E. injection E as <- <- <-.
    rewrite ES1. rewrite doc_body_tiles; try assumption; [|now rewrite organic_same, <- ES1].
    unfold abs_atom. cbn [a_element a_isotope a_chirality a_hcount a_charge]. f_equal. f_equal.
    f_equal.
    + destruct (f_iso f) as [|d ds] eqn:Ei; [now inversion Eiso|].
      destruct (int_of_decimals (d :: ds)) as [n|] eqn:En; cbn [bind] in Eiso; [|discriminate]. injection Eiso as <-.
      now rewrite (int_of_decimals_number _ _ Hiso En).
    + destruct (f_chi f); reflexivity.
    + destruct Hh as [Hh|(d & Hh & Hd)]; rewrite Hh in *; [now inversion Eh|].
      apply int_of_decimals_number in Eh; [|repeat constructor; exact Hd]. rewrite Eh. reflexivity.
    + destruct Hc as [Hc|(sg & d1 & ds & Hc & Hsg & H1 & Hds)]; rewrite Hc in *; [now inversion Ec|].
      destruct (int_of_decimals (d1 :: ds)) as [n|] eqn:En; cbn [bind] in Ec; [|discriminate]. injection Ec as <-.
      apply int_of_decimals_number in En; [now rewrite En|]. constructor; [|exact Hds].
      unfold is_19 in H1. unfold is_09. apply andb_true_iff in H1 as [A B']. apply N.leb_le in A, B'. apply andb_true_iff. split; apply N.leb_le; lia.
Qed.

Theorem doc_symbol_of_model T sym o st a cap : process_atom_symbol T sym = Ok (Some (o, st, a, cap)) ->
  parse_atom_symbol sym = Some (o, st, abs_atom a) /\ alpha T (abs_atom a) = Some cap.
Proof.
  unfold process_atom_symbol, process_atom_symbol_c.
  destruct (process_atom_nocache sym) as [[[[o' st'] a']|]|] eqn:Ep; cbn [bind]; try discriminate.
  unfold bonding_capacity_c. destruct (get_bonding_capacity T (a_element a') (a_charge a')) as [c|] eqn:Ec; cbn [bind]; [|discriminate].
  destruct (_ <? 0) eqn:Eneg; [discriminate|]. intro E. injection E as <- <- <- <-.
  split; [now apply doc_parse_of_model|].
  unfold alpha. rewrite (capacity_eq T a' c Ec). unfold abs_atom. cbn [sa_h].
  replace (match a_hcount a' with Some h => h | None => 0%N end) with (match a_hcount a' with Some h => h | None => 0%N end) by reflexivity.
  assert (X : c - Z.of_N (match a_hcount a' with Some h => h | None => 0%N end) = c - match a_hcount a' with None => 0 | Some h => Z.of_N h end)
    by (destruct (a_hcount a'); reflexivity).
  rewrite X, Eneg. reflexivity.
Qed.
