(* EncStereo.v — C04 (marks on chain bonds, at the level of symbols): the tree bond into the k-th atom carries the '/' or '\'
   written before the k-th atom token of the input; kekulize never touches marks; the atom symbol printed for that atom is
   prefixed with the bond's character, and the decoder's symbol reader reads the same mark back from it. *)
From Coq Require Import Ascii String List Arith ZArith NArith Bool Lia.
Import ListNotations.
From Selfies Require Import Base Generated Lex Atoms Grammar Decoder Smiles PySet Matching Kekulize Encoder BaseFacts ConfigFacts DecoderInv
  EncHyp EncShape EncTokens EncRows EncAttr.
Local Open Scope nat_scope.

(* ---------- a property of every stored edge ---------- *)
Section EdgeP.
Variable Pe : ebond -> Prop.
Hypothesis Horder : forall e o, Pe e -> Pe (with_order2 e o).

Definition EdgeP (m : emol) : Prop := forall j row e, nth_error (m_adj m) j = Some row -> In (Some e) row -> Pe e.

Lemma edge_upd m i (f : list (option ebond) -> list (option ebond)) :
  EdgeP m -> (forall row e, nth_error (m_adj m) i = Some row -> In (Some e) (f row) -> Pe e) ->
  forall j row e, nth_error (upd (m_adj m) i f) j = Some row -> In (Some e) row -> Pe e.
Proof.
  intros Hm Hf j row e Hn Hin. rewrite nth_error_upd in Hn. destruct (Nat.eqb_spec i j) as [->|Hne]; [|exact (Hm _ _ _ Hn Hin)].
  destruct (nth_error (m_adj m) j) as [r0|] eqn:E0; [|discriminate]. cbn in Hn. inversion Hn; subst. exact (Hf r0 e eq_refl Hin).
Qed.

Lemma at_loc_edge m b pos m' : EdgeP m -> Pe b -> mg_add_bond_at_loc m b pos = Ok m' -> EdgeP m'.
Proof.
  intros Hm Hb. unfold mg_add_bond_at_loc. destruct (lget (m_adj m) (e_src b)) as [out|] eqn:El; cbn [bind]; [|discriminate].
  destruct (add_bond_at_loc out pos b) as [out'|] eqn:Ea; cbn [bind]; [|discriminate]. intro E; inversion E; subst.
  unfold EdgeP. cbn [set_adj m_adj]. apply edge_upd; [exact Hm|]. intros row e Hr Hin. apply lget_In in El. rewrite El in Hr. inversion Hr; subst.
  destruct (add_loc_In _ _ _ _ _ Ea Hin) as [->|H]; [exact Hb|exact (Hm _ _ _ El H)].
Qed.

Lemma edge_same m m' : m_adj m' = m_adj m -> EdgeP m -> EdgeP m'.
Proof. unfold EdgeP. intros ->. auto. Qed.

Lemma add_bond_edge m src dst o2 st at_ m' : EdgeP m ->
  Pe {| e_src := src; e_dst := dst; e_order2 := o2; e_stereo := st; e_ring := false; e_attr := at_ |} ->
  mg_add_bond m src dst o2 st at_ = Ok m' -> EdgeP m'.
Proof.
  intros Hm Hb. unfold mg_add_bond. destruct (negb _); [discriminate|].
  destruct (mg_add_bond_at_loc _ _ _) as [m1|] eqn:E1; cbn [bind]; [|discriminate].
  destruct (mg_add_count2 m1 _ _) as [m2|] eqn:E2; cbn [bind]; [|discriminate].
  destruct (mg_add_count2 m2 _ _) as [m3|] eqn:E3; cbn [bind]; [|discriminate].
  apply at_loc_edge in E1; [|exact Hm|exact Hb]. apply add_count_adj in E2, E3.
  assert (A3 : EdgeP m3) by (apply (edge_same m1); [congruence|exact E1]).
  destruct (_ =? _)%Z; intro E; inversion E; subst; exact A3.
Qed.

Lemma placeholder_edge m src m' k : EdgeP m -> mg_add_placeholder_bond m src = Ok (m', k) -> EdgeP m'.
Proof.
  intro Hm. unfold mg_add_placeholder_bond. destruct (lget _ _); cbn [bind]; [|discriminate]. intro E; inversion E; subst.
  unfold EdgeP. cbn [set_adj m_adj]. apply edge_upd; [exact Hm|]. intros row e Hr Hin.
  apply in_app_iff in Hin as [Hin|[Hin|[]]]; [exact (Hm _ _ _ Hr Hin)|discriminate].
Qed.

Hypothesis Hring : forall e, e_ring e = true -> Pe e.

Lemma add_ring_edge m a b o2 sa sb pa pb m' : EdgeP m -> mg_add_ring_bond m a b o2 sa sb pa pb = Ok m' -> EdgeP m'.
Proof.
  intros Hm. unfold mg_add_ring_bond.
  destruct (mg_add_bond_at_loc m _ _) as [m1|] eqn:E1; cbn [bind]; [|discriminate].
  destruct (mg_add_bond_at_loc m1 _ _) as [m2|] eqn:E2; cbn [bind]; [|discriminate].
  destruct (mg_add_count2 m2 _ _) as [m3|] eqn:E3; cbn [bind]; [|discriminate].
  destruct (mg_add_count2 m3 _ _) as [m4|] eqn:E4; cbn [bind]; [|discriminate].
  destruct (lupd (m_ringflags m4) _ _) as [f1|]; cbn [bind]; [|discriminate].
  destruct (lupd f1 _ _) as [f2|]; cbn [bind]; [|discriminate].
  apply at_loc_edge in E1; [|exact Hm|apply Hring; reflexivity]. apply at_loc_edge in E2; [|exact E1|apply Hring; reflexivity]. apply add_count_adj in E3, E4.
  assert (A4 : EdgeP m4) by (apply (edge_same m2); [congruence|exact E2]).
  destruct (_ =? _)%Z; intro E; inversion E; subst; exact A4.
Qed.

Lemma make_ring_edge m lt la lp rt ra m' : EdgeP m -> make_ring_bonds m lt la lp rt ra = Ok m' -> EdgeP m'.
Proof.
  intro Hm. unfold make_ring_bonds. destruct (_ =? _); [discriminate|]. destruct (mg_has_bond _ _ _); [discriminate|].
  match goal with |- (let '(b0, b1) := ?X in _) = _ -> _ => destruct X as [b0 b1] end.
  destruct (negb _); [discriminate|].
  destruct (smiles_to_bond2 (t_bond lt)) as [lo ls]. destruct (smiles_to_bond2 (t_bond rt)) as [ro rs].
  destruct (mg_get_atom m la); cbn [bind]; [|discriminate]. destruct (mg_get_atom m ra); cbn [bind]; [|discriminate].
  match goal with |- (let '(x, y) := ?X in _) = _ -> _ => destruct X as [lo' ro'] end. now apply add_ring_edge.
Qed.

Lemma set_edge_all l dst o e : In (Some e) (set_edge_order2 l dst o) -> exists e0, In (Some e0) l /\ (e = e0 \/ e = with_order2 e0 o).
Proof.
  unfold set_edge_order2. intro H. apply in_map_iff in H as ([x|] & Hx & Hin); [|discriminate].
  destruct (_ =? _) in Hx; inversion Hx; subst; eexists; (split; [exact Hin|auto]).
Qed.

Lemma update_order_edge m a b o m' : EdgeP m -> mg_update_bond_order m a b o = Ok m' -> EdgeP m'.
Proof.
  intro Hm. unfold mg_update_bond_order. destruct (negb _); [discriminate|].
  destruct (mg_get_dirbond m _ _) as [ab|]; cbn [bind]; [|discriminate].
  destruct (_ =? _)%Z; [intro E; inversion E; subst; exact Hm|].
  match goal with |- (do adj1 <- ?X; _) = _ -> _ => destruct X as [adj1|] eqn:Ead end; cbn [bind]; [|discriminate].
  assert (Hset : forall mm, EdgeP mm -> forall i d, forall j row e, nth_error (upd (m_adj mm) i (fun l => set_edge_order2 l d o)) j = Some row -> In (Some e) row -> Pe e).
  { intros mm Hmm i d. apply edge_upd; [exact Hmm|]. intros row e Hr Hin. apply set_edge_all in Hin as (e0 & H0 & [-> | ->]); [exact (Hmm _ _ _ Hr H0)|apply Horder; exact (Hmm _ _ _ Hr H0)]. }
  assert (A1 : forall j row e, nth_error adj1 j = Some row -> In (Some e) row -> Pe e).
  { destruct (e_ring ab).
    - destruct (mg_get_dirbond m _ _); cbn [bind] in Ead; [|discriminate]. inversion Ead; subst.
      set (mm := set_adj m (upd (m_adj m) (Nat.min a b) (fun l => set_edge_order2 l (Nat.max a b) o))).
      assert (Hmm : EdgeP mm) by (unfold EdgeP, mm; cbn [set_adj m_adj]; apply (Hset m Hm)).
      change (upd (m_adj m) (Nat.min a b) (fun l => set_edge_order2 l (Nat.max a b) o)) with (m_adj mm). apply (Hset mm Hmm).
    - inversion Ead; subst. apply (Hset m Hm). }
  destruct (mg_add_count2 (set_adj m adj1) _ _) as [m1|] eqn:E1; cbn [bind]; [|discriminate].
  intro E2. apply add_count_adj in E1, E2. unfold EdgeP. rewrite E2, E1. exact A1.
Qed.

Lemma single_bonds_edge : forall adjs m node m', EdgeP m -> set_single_bonds m node adjs = Ok m' -> EdgeP m'.
Proof.
  induction adjs as [|x r IH]; intros m node m' Hm E; cbn [set_single_bonds] in E; [inversion E; subst; exact Hm|].
  destruct (mg_update_bond_order m node x 2) as [m1|] eqn:E1; cbn [bind] in E; [|discriminate].
  apply update_order_edge in E1; [|exact Hm]. exact (IH _ _ _ E1 E).
Qed.

Lemma double_bonds_edge : forall pairs m l2n m', EdgeP m -> set_double_bonds m l2n pairs = Ok m' -> EdgeP m'.
Proof.
  induction pairs as [|[i oj] r IH]; intros m l2n m' Hm E; cbn [set_double_bonds] in E; [inversion E; subst; exact Hm|].
  destruct (lget l2n i); cbn [bind] in E; [|discriminate]. destruct oj as [j|]; [|discriminate].
  destruct (lget l2n j); cbn [bind] in E; [|discriminate].
  destruct (mg_update_bond_order m _ _ 4) as [m1|] eqn:E1; cbn [bind] in E; [|discriminate].
  apply update_order_edge in E1; [|exact Hm]. exact (IH _ _ _ E1 E).
Qed.

Lemma dearomatize_edge : forall ds m m', EdgeP m -> dearomatize m ds = Ok m' -> EdgeP m'.
Proof.
  induction ds as [|[node adjs] r IH]; intros m m' Hm E; cbn [dearomatize] in E; [inversion E; subst; exact Hm|].
  destruct (set_single_bonds m node adjs) as [m1|] eqn:E1; cbn [bind] in E; [|discriminate].
  destruct (lupd (m_atoms m1) _ _) as [atoms'|]; cbn [bind] in E; [|discriminate].
  destruct (lupd (m_counts2 m1) _ _) as [counts'|]; cbn [bind] in E; [|discriminate].
  apply IH in E; [exact E|]. apply single_bonds_edge in E1; [|exact Hm]. exact E1.
Qed.

Theorem kekulize_edge m m' : EdgeP m -> kekulize m = Ok (Some m') -> EdgeP m'.
Proof.
  intros Hm. unfold kekulize. destruct (ds_is_empty _); [intro E; inversion E; subst; exact Hm|].
  destruct (any_bad_element _ _) as [bad|]; cbn [bind]; [|discriminate]. destruct bad; [discriminate|].
  destruct (kept_nodes_of _ _) as [kept|]; cbn [bind]; [|discriminate].
  destruct (pruned_ds_of _ _ _) as [pruned|]; cbn [bind]; [|discriminate].
  destruct (find_perfect_matching pruned) as [[mt|]|]; cbn [bind]; try discriminate.
  destruct (dearomatize m _) as [m1|] eqn:E1; cbn [bind]; [|discriminate].
  destruct (set_double_bonds m1 _ _) as [m2|] eqn:E2; cbn [bind]; [|discriminate].
  intro E; inversion E; subst. apply dearomatize_edge in E1; [|exact Hm]. apply double_bonds_edge in E2; [|exact E1]. exact E2.
Qed.
End EdgeP.

(* ---------- the mark of the tree bond into atom k is the mark written before the k-th atom token ---------- *)
Definition mark_of (ex : list (nat * token)) (e : ebond) : Prop :=
  e_ring e = false -> exists pos tok, nth_error ex (e_dst e) = Some (pos, tok) /\ e_stereo e = snd (smiles_to_bond2 (t_bond tok)).

Lemma mark_order ex e o : mark_of ex e -> mark_of ex (with_order2 e o). Proof. exact (fun H => H). Qed.
Lemma mark_ring ex e : e_ring e = true -> mark_of ex e. Proof. intros H H'. congruence. Qed.
Lemma mark_mono ex X e : mark_of ex e -> mark_of (ex ++ X) e.
Proof. intros H Hr. destruct (H Hr) as (pos & tok & Hn & Hs). exists pos, tok. split; [|exact Hs]. rewrite nth_error_app1; [exact Hn|]. apply nth_error_Some. congruence. Qed.
Lemma edgep_mono ex X m : EdgeP (mark_of ex) m -> EdgeP (mark_of (ex ++ X)) m.
Proof. intros H j row e Hn Hin. apply mark_mono. exact (H j row e Hn Hin). Qed.

Lemma attach_edge ex m tok a prev i m' idx i' : EdgeP (mark_of ex) m -> length ex = mg_len m -> attach_atom m tok a prev i = Ok (m', idx, i') ->
  EdgeP (mark_of (ex ++ [(i', tok)])) m' /\ mg_len m' = S (mg_len m).
Proof.
  intros Hm Hlen E. pose proof (attach_atoms _ _ _ _ _ _ _ _ E) as At.
  assert (L : mg_len m' = S (mg_len m)).
  { apply (f_equal (@length atom)) in At. unfold atoms_of in At. rewrite app_length, !map_length in At. unfold mg_len. cbn [length] in At. lia. }
  split; [|exact L]. revert E. unfold attach_atom. destruct (mg_add_atom m a _) as [m1 ix] eqn:Ea.
  assert (A1 : EdgeP (mark_of (ex ++ [(i', tok)])) m1 /\ ix = mg_len m).
  { unfold mg_add_atom in Ea. inversion Ea; subst. split; [|reflexivity]. intros j row e Hn Hin. cbn [m_adj] in Hn.
    destruct (Nat.lt_ge_cases j (length (m_adj m))) as [Lt|G].
    - rewrite nth_error_app1 in Hn by exact Lt. apply mark_mono. exact (Hm _ _ _ Hn Hin).
    - rewrite nth_error_app2 in Hn by exact G. destruct (j - length (m_adj m)) as [|k]; cbn in Hn; [inversion Hn; subst; destruct Hin|destruct k; discriminate]. }
  destruct A1 as [A1 Eix]. subst ix.
  destruct (mg_add_attr_atom m1 (mg_len m) _) as [m2|] eqn:E2; cbn [bind]; [|discriminate].
  apply add_attr_adj in E2. assert (A2 : EdgeP (mark_of (ex ++ [(i', tok)])) m2) by (apply (edge_same _ m1); assumption).
  destruct prev as [src|]; [|intro E; inversion E; subst; exact A2].
  destruct (smiles_to_bond2 (t_bond tok)) as [o2 st] eqn:Eb. destruct (mg_get_atom m2 src); cbn [bind]; [|discriminate].
  destruct (mg_add_bond m2 _ _ _ _ _) as [m3|] eqn:E3; cbn [bind]; [|discriminate].
  intro E; inversion E; subst. eapply (add_bond_edge (mark_of _)); [exact A2| |exact E3].
  intros _. cbn [e_dst e_stereo]. do 2 eexists. split; [rewrite nth_error_app2 by lia; rewrite Hlen, Nat.sub_diag; reflexivity|]. cbn [snd fst]. now rewrite Eb.
Qed.

Lemma derive_loop_marks : forall ts st st' rest ex, EdgeP (mark_of ex) (p_mol st) -> length ex = mg_len (p_mol st) ->
  derive_loop ts st = Ok (st', rest) ->
  exists X, EdgeP (mark_of (ex ++ X)) (p_mol st') /\ length (ex ++ X) = mg_len (p_mol st') /\ expect ts (p_i st) = X ++ expect rest (p_i st').
Proof.
  induction ts as [|tok r IH]; intros st st' rest ex Hm Hl E; cbn [derive_loop] in E.
  { inversion E; subst. exists []. rewrite app_nil_r. auto. }
  destruct (p_prev st) as [|prev below]; [discriminate|]. cbn [expect].
  assert (Same : forall m', m_atoms m' = m_atoms (p_mol st) -> length ex = mg_len m') by (intros m' H; unfold mg_len in *; now rewrite H).
  destruct (t_type tok).
  - destruct (smiles_to_atom (t_text tok)) as [[a|]|] eqn:Ea; cbn [bind] in E; try discriminate.
    destruct (attach_atom _ _ _ _ _) as [[[m' idx] i']|] eqn:Eat; cbn [bind] in E; [|discriminate].
    destruct (attach_edge ex _ _ _ _ _ _ _ _ Hm Hl Eat) as [A L].
    assert (Ei : i' = match t_bond tok with Some _ => S (p_i st) | None => p_i st end).
    { revert Eat. unfold attach_atom. destruct (mg_add_atom _ a _) as [m1 ix]. destruct (mg_add_attr_atom m1 ix _); cbn [bind]; [|discriminate].
      destruct prev; [|intro H; now inversion H]. destruct (smiles_to_bond2 _). destruct (mg_get_atom _ _); cbn [bind]; [|discriminate].
      destruct (mg_add_bond _ _ _ _ _ _); cbn [bind]; [|discriminate]. intro H; now inversion H. }
    assert (IHE := fun H1 H2 => IH _ _ _ (ex ++ [(i', tok)]) H1 H2 E). cbn [p_mol p_i] in IHE.
    destruct (IHE A ltac:(rewrite app_length; cbn [length]; lia)) as (X & H1 & H2 & H3).
    exists ((i', tok) :: X). rewrite <- app_assoc in H1, H2. cbn [app] in H1, H2. split; [exact H1|]. split; [exact H2|].
    rewrite <- Ei. cbn [app]. now rewrite H3.
  - destruct (p_chain_start st); [discriminate|].
    destruct (str_eqb _ _).
    + assert (IHE := fun H1 H2 => IH _ _ _ ex H1 H2 E). cbn [p_mol p_i] in IHE. exact (IHE Hm Hl).
    + destruct (p_branch st); [discriminate|]. assert (IHE := fun H1 H2 => IH _ _ _ ex H1 H2 E). cbn [p_mol p_i] in IHE. exact (IHE Hm Hl).
  - destruct (p_chain_start st); [discriminate|].
    destruct (ring_log_find _ _) as [[[ltok latom] lpos]|].
    + destruct (atom_index prev) as [ratom|]; cbn [bind] in E; [|discriminate].
      destruct (make_ring_bonds _ _ _ _ _ _) as [m'|] eqn:Er; cbn [bind] in E; [|discriminate].
      assert (IHE := fun H1 H2 => IH _ _ _ ex H1 H2 E). cbn [p_mol p_i] in IHE.
      exact (IHE (make_ring_edge _ (mark_ring ex) _ _ _ _ _ _ _ Hm Er) (Same _ (make_ring_atoms _ _ _ _ _ _ _ Er))).
    + destruct (atom_index prev) as [src|]; cbn [bind] in E; [|discriminate].
      destruct (mg_add_placeholder_bond _ _) as [[m' lpos]|] eqn:Epl; cbn [bind] in E; [|discriminate].
      assert (IHE := fun H1 H2 => IH _ _ _ ex H1 H2 E). cbn [p_mol p_i] in IHE.
      exact (IHE (placeholder_edge _ _ _ _ _ Hm Epl) (Same _ (placeholder_atoms _ _ _ _ Epl))).
  - inversion E; subst. exists []. cbn [p_mol p_i]. rewrite app_nil_r. auto.
Qed.

Lemma fragments_marks : forall fuel m ts i m' ex, EdgeP (mark_of ex) m -> length ex = mg_len m -> fragments_loop fuel m ts i = Ok m' ->
  EdgeP (mark_of (ex ++ expect ts i)) m'.
Proof.
  induction fuel as [|f IH]; intros m ts i m' ex Hm Hl E; [discriminate|]. cbn [fragments_loop] in E.
  destruct ts as [|t r]; [inversion E; subst; cbn [expect]; now rewrite app_nil_r|].
  destruct (derive_mol_from_tokens m (t :: r) i) as [[[m1 i1] rest]|] eqn:Ed; cbn [bind] in E; [|discriminate].
  unfold derive_mol_from_tokens in Ed.
  destruct (derive_loop (t :: r) _) as [[st rest']|] eqn:El; cbn [bind] in Ed; [|discriminate].
  assert (DL := fun H1 H2 => derive_loop_marks _ _ _ _ ex H1 H2 El). cbn [p_mol p_i] in DL.
  destruct (DL Hm Hl) as (X & H1 & H2 & H3).
  destruct (_ =? _); [discriminate|]. destruct (p_branch st); [|discriminate]. destruct (p_rings st); [|discriminate].
  inversion Ed; subst. rewrite H3, app_assoc. exact (IH _ _ _ _ _ H1 H2 E).
Qed.

Theorem parsed_marks smiles attributable m ts : smiles_to_mol smiles attributable = Ok m -> tokenize_smiles smiles = Ok ts ->
  EdgeP (mark_of (expect ts 0)) m.
Proof.
  unfold smiles_to_mol. destruct smiles as [|c s]; [discriminate|]. intros E Et. rewrite Et in E. cbn [bind] in E.
  apply (fragments_marks (S (length ts)) (mg_empty attributable) ts 0 m []); [|reflexivity|exact E].
  intros j row e Hn. destruct j; discriminate.
Qed.

(* ---------- the walk, remembering the bond through which each atom is entered ---------- *)
Definition in_graph (m : emol) (b : ebond) : Prop := exists j row, nth_error (m_adj m) j = Some row /\ In (Some b) row.
Definition entered (m : emol) (b : option ebond) (i : nat) : Prop :=
  match b with None => True | Some b0 => e_dst b0 = i /\ e_ring b0 = false /\ in_graph m b0 end.
Definition printed_via (m : emol) (i : nat) (a : atom) (at_ : attrs) (tok : str) : Prop :=
  mg_get_atom m i = Ok (a, at_) /\ exists b, atom_to_selfies b a = Ok tok /\ entered m b i.

Section WalkV.
Variable P : nat -> atom -> attrs -> str -> Prop.
Variable m : emol.
Hypothesis HP : forall i a at_ tok, printed_via m i a at_ tok -> P i a at_ tok.

Lemma out_loop_walked_v (walk : ebond -> nat -> nat -> res (list str * list amap)) :
  forall bonds, (forall b ai o ts ms, In b bonds -> e_ring b = false -> walk b ai o = Ok (ts, ms) -> Walked P m ts (map ent ms)) ->
  forall aidx off ts ms, out_loop m walk bonds aidx off = Ok (ts, ms) -> Rest P m ts (map ent ms).
Proof.
  induction bonds as [|b rest IH]; intros Hw aidx off ts ms E; cbn [out_loop] in E; [inversion E; subst; constructor|].
  assert (Hw' : forall b0 ai o ts0 ms0, In b0 rest -> e_ring b0 = false -> walk b0 ai o = Ok (ts0, ms0) -> Walked P m ts0 (map ent ms0)) by (intros; eapply Hw; [right|..]; eassumption).
  destruct (e_ring b) eqn:Ering.
  - destruct (e_src b <? e_dst b); [exact (IH Hw' _ _ _ _ E)|].
    destruct (mg_get_dirbond m (e_dst b) (e_src b)) as [rv|]; cbn [bind] in E; [|discriminate].
    destruct (get_selfies_from_index _) as [Q|]; cbn [bind] in E; [|discriminate].
    destruct (ring_bonds_to_selfies rv b) as [rs|]; cbn [bind] in E; [|discriminate].
    match type of E with (do _ <- ?X; _) = _ => destruct X as [[ts1 ms1]|] eqn:E1 end; cbn [bind] in E; [|discriminate].
    cbv zeta in E. inversion E; subst; clear E. cbn [map]. rewrite map_app, maps_for_ent.
    match goal with |- Rest P m (?sym :: Q ++ ts1) _ => apply (R_ring P m (sym :: Q) (mg_get_attr m (e_attr b)) ts1 (map ent ms1)) end. exact (IH Hw' _ _ _ _ E1).
  - destruct rest as [|b2 rest2]; [apply R_last; exact (Hw _ _ _ _ _ (or_introl eq_refl) Ering E)|].
    destruct (walk b off 0) as [[branch bmaps]|] eqn:Eb; cbn [bind] in E; [|discriminate].
    destruct (get_selfies_from_index _) as [Q|]; cbn [bind] in E; [|discriminate].
    destruct (bond_to_selfies b false) as [bs|]; cbn [bind] in E; [|discriminate].
    match type of E with (do _ <- ?X; _) = _ => destruct X as [[ts1 ms1]|] eqn:E1 end; cbn [bind] in E; [|discriminate].
    cbv zeta in E. inversion E; subst; clear E. rewrite !map_app, map_map, maps_for_ent. cbn [map].
    replace (map (fun x => ent (shift_amap (S (length Q)) x)) bmaps) with (map ent bmaps) by (apply map_ext; reflexivity).
    apply (R_branch P m _ Q _ branch); [exact (Hw _ _ _ _ _ (or_introl eq_refl) Ering Eb)|exact (IH Hw' _ _ _ _ E1)].
Qed.

Lemma all_some_In' : forall raw bonds b, Encoder.all_some raw = Ok bonds -> In b bonds -> In (Some b) raw.
Proof.
  induction raw as [|[x|] r IH]; intros bonds b E Hb; cbn [Encoder.all_some] in E; [inversion E; subst; destruct Hb| |discriminate].
  destruct (Encoder.all_some r) as [t|]; cbn [bind] in E; [|discriminate]. inversion E; subst. destruct Hb as [->|Hb]; [now left|right; exact (IH _ _ eq_refl Hb)].
Qed.

Lemma walk_walked_v : forall fuel b curr aidx off ts ms, entered m b curr -> fragment_walk fuel m b curr aidx off = Ok (ts, ms) -> Walked P m ts (map ent ms).
Proof.
  induction fuel as [|f IH]; intros b curr aidx off ts ms Hb E; [discriminate|]. cbn [fragment_walk] in E.
  destruct (mg_get_atom m curr) as [[a at_]|] eqn:Ea; cbn [bind fst snd] in E; [|discriminate].
  destruct (atom_to_selfies b a) as [tok|] eqn:Et; cbn [bind fst] in E; [|discriminate].
  destruct (mg_get_out_dirbonds m curr) as [raw|] eqn:Eraw; cbn [bind] in E; [|discriminate].
  destruct (Encoder.all_some raw) as [bonds|] eqn:Eall; cbn [bind] in E; [|discriminate].
  match type of E with (do _ <- ?X; _) = _ => destruct X as [[ts1 ms1]|] eqn:E1 end; cbn [bind] in E; [|discriminate].
  inversion E; subst; clear E. cbn [map]. unfold ent at 1. cbn [mk_amap am_token am_attr].
  apply (W_atom P m curr a at_); [apply HP; split; [exact Ea|exists b; split; [exact Et|exact Hb]]|].
  eapply out_loop_walked_v; [|exact E1]. intros b0 ai o ts0 ms0 Hin Hr H.
  apply (IH (Some b0) (e_dst b0) ai o ts0 ms0); [|exact H]. split; [reflexivity|]. split; [exact Hr|].
  unfold ring_bonds_first in Hin. apply in_app_iff in Hin. assert (Hin' : In b0 bonds) by (destruct Hin as [Hi|Hi]; apply filter_In in Hi; tauto).
  unfold mg_get_out_dirbonds in Eraw. apply lget_In in Eraw. exists curr, raw. split; [exact Eraw|exact (all_some_In' _ _ _ Eall Hin')].
Qed.

Lemma encode_roots_walked_v : forall roots aidx frags maps, encode_roots m roots aidx = Ok (frags, maps) ->
  exists tss mss, frags = map (@concat N) tss /\ maps = concat mss /\ Forall2 (fun ts ms => Walked P m ts (map ent ms)) tss mss.
Proof.
  induction roots as [|r rest IH]; intros aidx frags maps E; cbn [encode_roots] in E.
  - inversion E; subst. exists [], []. repeat split; constructor.
  - destruct (fragment_to_selfies m r aidx) as [[derived mp]|] eqn:Ef; cbn [bind] in E; [|discriminate].
    destruct (encode_roots m rest _) as [[frags' maps']|] eqn:Er; cbn [bind] in E; [|discriminate]. inversion E; subst; clear E.
    destruct (IH _ _ _ Er) as (tss & mss & -> & -> & F). exists (derived :: tss), (mp :: mss). repeat split.
    constructor; [|exact F]. unfold fragment_to_selfies in Ef. exact (walk_walked_v _ None _ _ _ _ _ I Ef).
Qed.
End WalkV.

(* ---------- the theorem ---------- *)
(* what is known of the bond prefix of an atom symbol: the first symbol of a fragment has none; any other is printed as
   '=' or '#', or - a single bond - carries exactly the mark written before the atom token the atom was made from,
   and that is what the decoder's reader (smiles_to_bond2 of the prefix character) gets back *)
Definition mark_back (ts : list token) (i : nat) (a : atom) (at_ : attrs) (tok : str) : Prop :=
  exists t bc, atom_to_smiles a false = Ok t /\ tok = (lit "[" ++ bc ++ t ++ lit "]")%list /\
    (bc = [] \/ exists pos tk, nth_error (expect ts 0) i = Some (pos, tk) /\
       (bc = lit "=" \/ bc = lit "#" \/
        (fst (smiles_to_bond2 (hd_error bc)) = 2%Z /\ snd (smiles_to_bond2 (hd_error bc)) = snd (smiles_to_bond2 (t_bond tk))))).

Lemma stereo_reads_back c : is_stereo_char c = true -> smiles_to_bond2 (Some c) = (2%Z, Some c).
Proof.
  intro H. destruct (stereo_cases c H) as [-> | ->]; reflexivity.
Qed.

Theorem encoder_marks_faithful T smiles strict attribute x maps ts :
  encoder T smiles strict attribute = Ok (x, maps) -> tokenize_smiles smiles = Ok ts ->
  exists m tss mss,
    x = join (lit ".") (map (@concat N) tss) /\
    maps = filter (fun a => match am_token a with [] => false | _ => true end) (concat mss) /\
    Forall2 (fun toks ms => Walked (mark_back ts) m toks (map ent ms)) tss mss.
Proof.
  intros E Et. unfold encoder, encoder_c in E.
  destruct (smiles_to_mol smiles attribute) as [m0|e] eqn:Ep; [|destruct e; discriminate].
  pose proof (parsed_marks _ _ _ _ Ep Et) as M0. unfold encode_mol in E.
  destruct (kekulize m0) as [[m1|]|] eqn:Ek; cbn [bind] in E; try discriminate.
  pose proof (kekulize_edge _ (mark_order _) _ _ M0 Ek) as M1.
  match type of E with (do _ <- ?X; _) = _ => destruct X; cbn [bind] in E; [|discriminate] end.
  destruct (invert_pass m1 (m_atoms m1) 0) as [atoms'|] eqn:Ei; cbn [bind] in E; [|discriminate].
  set (m2 := set_atoms m1 atoms') in *.
  assert (M2 : EdgeP (mark_of (expect ts 0)) m2) by exact M1.
  destruct (encode_roots m2 _ 0) as [[frags maps0]|] eqn:Er; cbn [bind] in E; [|discriminate].
  inversion E; subst x maps; clear E.
  assert (HP : forall i a at_ tok, printed_via m2 i a at_ tok -> mark_back ts i a at_ tok).
  { intros i a9 at_ tok [_ (b & Hb & Hent)]. unfold atom_to_selfies in Hb. destruct (a_aromatic a9); [discriminate|].
    destruct (match b with None => Ok [] | Some b0 => bond_to_selfies b0 true end) as [bc|] eqn:Ebc; cbn [bind] in Hb; [|discriminate].
    destruct (atom_to_smiles a9 false) as [t|] eqn:Eas; cbn [bind] in Hb; [|discriminate]. inversion Hb; subst tok.
    exists t, bc. split; [exact Eas|]. split; [reflexivity|].
    destruct b as [b0|]; [|inversion Ebc; now left].
    destruct Hent as (Hd & Hr & (j & row & Hn & Hin)). destruct (M2 j row b0 Hn Hin Hr) as (pos & tk & Hx & Hs). rewrite Hd in Hx.
    unfold bond_to_selfies in Ebc. cbn [negb andb] in Ebc. unfold ebond_to_smiles in Ebc.
    destruct (e_order2 b0 =? 2)%Z.
    - inversion Ebc; subst bc; clear Ebc. destruct (e_stereo b0) as [c|] eqn:Es.
      + destruct (is_stereo_char c) eqn:Ec; [|now left]. right. exists pos, tk. split; [exact Hx|]. right. right.
        cbn [hd_error]. rewrite (stereo_reads_back c Ec). cbn [fst snd]. split; [reflexivity|exact Hs].
      + now left.
    - destruct (e_order2 b0 =? 4)%Z; [inversion Ebc; right; exists pos, tk; split; [exact Hx|now left]|].
      destruct (e_order2 b0 =? 6)%Z; [inversion Ebc; right; exists pos, tk; split; [exact Hx|right; now left]|discriminate]. }
  destruct (encode_roots_walked_v (mark_back ts) m2 HP _ _ _ _ Er) as (tss & mss & -> & -> & W).
  exists m2, tss, mss. repeat split. exact W.
Qed.
