(* WriterFinal.v — C01, the last mile: for every graph the decoder builds (GraphOK) with fewer than 100
   ring bonds, the SMILES string its writer prints is accepted by the independent reader and the
   molecule read from it is a simple graph that obeys the table:  valid_smiles_under T out = true. *)
From Coq Require Import Ascii String List Arith ZArith NArith Bool Lia.
Import ListNotations.
From Selfies Require Import Base Generated Lex Atoms Decoder Reader BaseFacts ConfigFacts DecoderInv DecoderTree DecoderSum
  WriterAtoms WriterLex WriterToks WriterSim.
Local Open Scope Z_scope.

Lemma pl_dot : PieceLex (lit ".") [RDot].
Proof. split; [right; reflexivity|]. intros rest l _ Hl. now apply dot_lex. Qed.

Lemma join_cons sep x y r : join sep (x :: y :: r) = (x ++ sep ++ join sep (y :: r))%list.
Proof. reflexivity. Qed.

(* ---------- the abstract writer follows the writer (same control flow, same ring log) ---------- *)
Lemma write_atom_atoks m : forall fuel curr log evs log', write_atom fuel m curr log = Ok (evs, log') ->
  (length log <= length log')%nat /\ exists ts, atoks fuel m curr log = Ok (ts, log').
Proof.
  induction fuel as [|f IH]; intros curr log evs log' E; [discriminate|].
  cbn [write_atom atoks] in *.
  destruct (nth_error (atoms m) curr) as [[[a c] at_]|]; [|discriminate].
  destruct (nth_error (adj m) curr) as [bonds|]; [|discriminate].
  destruct (atom_to_smiles a true) as [tok|]; cbn [bind] in E; [|discriminate].
  match type of E with (do _ <- ?GO bonds log; _) = _ =>
    match goal with |- _ /\ exists ts, (do _ <- ?GA bonds log; _) = _ =>
      assert (G : forall l lg out lg', GO l lg = Ok (out, lg') -> (length lg <= length lg')%nat /\ exists ts, GA l lg = Ok (ts, lg')) end end.
  { induction l as [|e rest IHl]; intros lg out lg' Eg.
    - inversion Eg; subst. split; [lia|eauto].
    - destruct (bond_to_smiles (b_order e) (b_stereo e)) as [btok|]; cbn [bind] in Eg; [|discriminate].
      destruct (b_ring e).
      + pose proof (ring_label_facts lg (b_src e) (b_dst e)) as RL.
        destruct (ring_label lg (b_src e) (b_dst e)) as [log2 n]. destruct RL as [RL1 _].
        match type of Eg with (do _ <- ?X; _) = _ => destruct X as [[out0 log3]|] eqn:Er end; cbn [bind] in Eg; [|discriminate].
        inversion Eg; subst; clear Eg. destruct (IHl log2 out0 lg' Er) as (L2 & ts0 & Ea0). split; [lia|].
        rewrite Ea0. cbn [bind]. eauto.
      + destruct (write_atom f m (b_dst e) lg) as [[sub log2]|] eqn:Es; cbn [bind] in Eg; [|discriminate].
        match type of Eg with (do _ <- ?X; _) = _ => destruct X as [[out0 log3]|] eqn:Er end; cbn [bind] in Eg; [|discriminate].
        assert (E3 : log3 = lg') by (destruct rest; inversion Eg; reflexivity). subst log3.
        destruct (IHl log2 out0 lg' Er) as (L2 & ts0 & Ea0). destruct (IH (b_dst e) lg sub log2 Es) as (L1 & tsub & Easub).
        split; [lia|]. rewrite Easub. cbn [bind]. rewrite Ea0. cbn [bind]. destruct rest; eauto. }
  match type of E with (do _ <- ?X; _) = _ => destruct X as [[out log2]|] eqn:Eg end; cbn [bind] in E; [|discriminate].
  inversion E; subst; clear E. destruct (G bonds log out log' Eg) as (L & ts & Ea'). split; [exact L|]. rewrite Ea'. cbn [bind]. eauto.
Qed.

(* the writer's per-fragment strings and the logs between the fragments *)
Fixpoint wroots (m : dmol) (rs : list nat) (log : list (nat * nat)) : res (list (list wev) * list (nat * nat)) :=
  match rs with
  | [] => Ok ([], log)
  | r :: rest =>
    do (evs, log2) <- write_atom (S (length (atoms m))) m r log;
    do (l, log3) <- wroots m rest log2;
    Ok (evs :: l, log3)
  end.

Lemma write_roots_wroots m : forall rs log base frags maps, write_roots m rs log base = Ok (frags, maps) ->
  exists evss logf, wroots m rs log = Ok (evss, logf) /\ frags = map str_of evss.
Proof.
  induction rs as [|r rest IH]; intros log base frags maps E; cbn [write_roots wroots] in *.
  - inversion E; subst. exists [], log. auto.
  - destruct (write_atom _ m r log) as [[evs log2]|]; cbn [bind] in *; [|discriminate].
    destruct (write_roots m rest log2 _) as [[frags' maps']|] eqn:Er; cbn [bind] in E; [|discriminate].
    inversion E; subst; clear E. destruct (IH log2 _ frags' maps' Er) as (evss & logf & -> & ->). cbn [bind].
    exists (evs :: evss), logf. split; reflexivity.
Qed.

Lemma wroots_rtoks m : forall rs log evss logf, wroots m rs log = Ok (evss, logf) ->
  (length log <= length logf)%nat /\ exists ts, rtoks m rs log = Ok (ts, logf).
Proof.
  induction rs as [|r rest IH]; intros log evss logf E; cbn [wroots rtoks] in *.
  - inversion E; subst. split; [lia|eauto].
  - destruct (write_atom _ m r log) as [[evs log2]|] eqn:Ew; cbn [bind] in E; [|discriminate].
    destruct (wroots m rest log2) as [[l log3]|] eqn:Er; cbn [bind] in E; [|discriminate]. inversion E; subst; clear E.
    destruct (write_atom_atoks m _ r log evs log2 Ew) as (L1 & ts1 & Ea). destruct (IH log2 l logf Er) as (L2 & ts2 & Er2).
    split; [lia|]. rewrite Ea. cbn [bind]. rewrite Er2. cbn [bind]. eauto.
Qed.

Section Roots.
Variable m : dmol.
Hypothesis Hatoms : forall i a c at_, nth_error (atoms m) i = Some (a, c, at_) -> AtomShape a.
Hypothesis Hbonds : forall i bonds e, nth_error (adj m) i = Some bonds -> In e bonds -> 1 <= b_order e <= 3.

(* with all labels below 100, the printed string of all fragments is tokenised into rtoks *)
Lemma wroots_lex : forall rs log evss logf, wroots m rs log = Ok (evss, logf) -> (length logf < 100)%nat ->
  exists ts, rtoks m rs log = Ok (ts, logf) /\ PieceLex (join (lit ".") (map str_of evss)) ts.
Proof.
  induction rs as [|r rest IH]; intros log evss logf E Hlen; cbn [wroots rtoks] in *.
  - inversion E; subst. exists []. split; [reflexivity|apply pl_nil].
  - destruct (write_atom _ m r log) as [[evs log2]|] eqn:Ew; cbn [bind] in E; [|discriminate].
    destruct (wroots m rest log2) as [[l log3]|] eqn:Er; cbn [bind] in E; [|discriminate]. inversion E; subst; clear E.
    destruct (wroots_rtoks m rest log2 l logf Er) as (L2 & _).
    destruct (write_atom_toks m Hatoms Hbonds _ r log evs log2 Ew ltac:(lia)) as (_ & ts1 & Ea & P1 & F1).
    destruct (IH log2 l logf Er Hlen) as (ts2 & Er2 & P2).
    rewrite Ea. cbn [bind]. rewrite Er2. cbn [bind]. eexists. split; [reflexivity|].
    destruct rest as [|r2 rest2].
    + cbn [wroots] in Er. inversion Er; subst. cbn [map join]. exact P1.
    + destruct l as [|evs2 l2]; [cbn [wroots] in Er; destruct (write_atom _ m r2 log2) as [[? ?]|]; cbn [bind] in Er; [destruct (wroots m rest2 _) as [[? ?]|]; cbn [bind] in Er; discriminate|discriminate]|].
      cbn [map]. rewrite join_cons. apply pl_app; [exact P1|]. change (RDot :: ts2) with ([RDot] ++ ts2). apply pl_app; [apply pl_dot|exact P2].
Qed.
End Roots.
