(* WriterFinal.v — C01, the last mile: for every graph the decoder builds (GraphOK) with fewer than 100
   ring bonds, the SMILES string its writer prints is accepted by the independent reader and the
   molecule read from it is a simple graph that obeys the table:  valid_smiles_under T out = true. *)
From Coq Require Import Ascii String List Arith ZArith NArith Bool Lia.
Import ListNotations.
From Selfies Require Import Base Generated Lex Atoms Decoder Reader BaseFacts ConfigFacts DecoderInv DecoderTree DecoderSum
  WriterAtoms WriterLex WriterToks WriterSim.
Local Open Scope Z_scope.

Lemma pl_dot : PieceLex (lit ".") [RDot].
Proof. split; [right; reflexivity|]. intros rest l _ Hl. now apply dot_lex. Qed.

Lemma join_cons sep x y r : join sep (x :: y :: r) = (x ++ sep ++ join sep (y :: r))%list.
Proof. reflexivity. Qed.

(* ---------- the abstract writer follows the writer (same control flow, same ring log) ---------- *)
Lemma write_atom_atoks m : forall fuel curr log evs log', write_atom fuel m curr log = Ok (evs, log') ->
  (length log <= length log')%nat /\ exists ts, atoks fuel m curr log = Ok (ts, log').
Proof.
  induction fuel as [|f IH]; intros curr log evs log' E; [discriminate|].
  cbn [write_atom atoks] in *.
  destruct (nth_error (atoms m) curr) as [[[a c] at_]|]; [|discriminate].
  destruct (nth_error (adj m) curr) as [bonds|]; [|discriminate].
  destruct (atom_to_smiles a true) as [tok|]; cbn [bind] in E; [|discriminate].
  match type of E with (do _ <- ?GO bonds log; _) = _ =>
    match goal with |- _ /\ exists ts, (do _ <- ?GA bonds log; _) = _ =>
      assert (G : forall l lg out lg', GO l lg = Ok (out, lg') -> (length lg <= length lg')%nat /\ exists ts, GA l lg = Ok (ts, lg')) end end.
  { induction l as [|e rest IHl]; intros lg out lg' Eg.
    - inversion Eg; subst. split; [lia|eauto].
    - destruct (bond_to_smiles (b_order e) (b_stereo e)) as [btok|]; cbn [bind] in Eg; [|discriminate].
      destruct (b_ring e).
      + pose proof (ring_label_facts lg (b_src e) (b_dst e)) as RL.
        destruct (ring_label lg (b_src e) (b_dst e)) as [log2 n]. destruct RL as [RL1 _].
        match type of Eg with (do _ <- ?X; _) = _ => destruct X as [[out0 log3]|] eqn:Er end; cbn [bind] in Eg; [|discriminate].
        inversion Eg; subst; clear Eg. destruct (IHl log2 out0 lg' Er) as (L2 & ts0 & Ea0). split; [lia|].
        rewrite Ea0. cbn [bind]. eauto.
      + destruct (write_atom f m (b_dst e) lg) as [[sub log2]|] eqn:Es; cbn [bind] in Eg; [|discriminate].
        match type of Eg with (do _ <- ?X; _) = _ => destruct X as [[out0 log3]|] eqn:Er end; cbn [bind] in Eg; [|discriminate].
        assert (E3 : log3 = lg') by (destruct rest; inversion Eg; reflexivity). subst log3.
        destruct (IHl log2 out0 lg' Er) as (L2 & ts0 & Ea0). destruct (IH (b_dst e) lg sub log2 Es) as (L1 & tsub & Easub).
        split; [lia|]. rewrite Easub. cbn [bind]. rewrite Ea0. cbn [bind]. destruct rest; eauto. }
  match type of E with (do _ <- ?X; _) = _ => destruct X as [[out log2]|] eqn:Eg end; cbn [bind] in E; [|discriminate].
  inversion E; subst; clear E. destruct (G bonds log out log' Eg) as (L & ts & Ea'). split; [exact L|]. rewrite Ea'. cbn [bind]. eauto.
Qed.

(* the writer's per-fragment strings and the logs between the fragments *)
Fixpoint wroots (m : dmol) (rs : list nat) (log : list (nat * nat)) : res (list (list wev) * list (nat * nat)) :=
  match rs with
  | [] => Ok ([], log)
  | r :: rest =>
    do (evs, log2) <- write_atom (S (length (atoms m))) m r log;
    do (l, log3) <- wroots m rest log2;
    Ok (evs :: l, log3)
  end.

Lemma write_roots_wroots m : forall rs log base frags maps, write_roots m rs log base = Ok (frags, maps) ->
  exists evss logf, wroots m rs log = Ok (evss, logf) /\ frags = map str_of evss.
Proof.
  induction rs as [|r rest IH]; intros log base frags maps E; cbn [write_roots wroots] in *.
  - inversion E; subst. exists [], log. auto.
  - destruct (write_atom _ m r log) as [[evs log2]|]; cbn [bind] in *; [|discriminate].
    destruct (write_roots m rest log2 _) as [[frags' maps']|] eqn:Er; cbn [bind] in E; [|discriminate].
    inversion E; subst; clear E. destruct (IH log2 _ frags' maps' Er) as (evss & logf & -> & ->). cbn [bind].
    exists (evs :: evss), logf. split; reflexivity.
Qed.

Lemma wroots_rtoks m : forall rs log evss logf, wroots m rs log = Ok (evss, logf) ->
  (length log <= length logf)%nat /\ exists ts, rtoks m rs log = Ok (ts, logf).
Proof.
  induction rs as [|r rest IH]; intros log evss logf E; cbn [wroots rtoks] in *.
  - inversion E; subst. split; [lia|eauto].
  - destruct (write_atom _ m r log) as [[evs log2]|] eqn:Ew; cbn [bind] in E; [|discriminate].
    destruct (wroots m rest log2) as [[l log3]|] eqn:Er; cbn [bind] in E; [|discriminate]. inversion E; subst; clear E.
    destruct (write_atom_atoks m _ r log evs log2 Ew) as (L1 & ts1 & Ea). destruct (IH log2 l logf Er) as (L2 & ts2 & Er2).
    split; [lia|]. rewrite Ea. cbn [bind]. rewrite Er2. cbn [bind]. eauto.
Qed.

Section Roots.
Variable m : dmol.
Hypothesis Hatoms : forall i a c at_, nth_error (atoms m) i = Some (a, c, at_) -> AtomShape a.
Hypothesis Hbonds : forall i bonds e, nth_error (adj m) i = Some bonds -> In e bonds -> 1 <= b_order e <= 3.

(* with all labels below 100, the printed string of all fragments is tokenised into rtoks *)
Lemma wroots_lex : forall rs log evss logf, wroots m rs log = Ok (evss, logf) -> (length logf < 100)%nat ->
  exists ts, rtoks m rs log = Ok (ts, logf) /\ PieceLex (join (lit ".") (map str_of evss)) ts.
Proof.
  induction rs as [|r rest IH]; intros log evss logf E Hlen; cbn [wroots rtoks] in *.
  - inversion E; subst. exists []. split; [reflexivity|apply pl_nil].
  - destruct (write_atom _ m r log) as [[evs log2]|] eqn:Ew; cbn [bind] in E; [|discriminate].
    destruct (wroots m rest log2) as [[l log3]|] eqn:Er; cbn [bind] in E; [|discriminate]. inversion E; subst; clear E.
    destruct (wroots_rtoks m rest log2 l logf Er) as (L2 & _).
    destruct (write_atom_toks m Hatoms Hbonds _ r log evs log2 Ew ltac:(lia)) as (_ & ts1 & Ea & P1 & F1).
    destruct (IH log2 l logf Er Hlen) as (ts2 & Er2 & P2).
    rewrite Ea. cbn [bind]. rewrite Er2. cbn [bind]. eexists. split; [reflexivity|].
    destruct rest as [|r2 rest2].
    + cbn [wroots] in Er. inversion Er; subst. cbn [map join]. exact P1.
    + destruct l as [|evs2 l2]; [cbn [wroots] in Er; destruct (write_atom _ m r2 log2) as [[? ?]|]; cbn [bind] in Er; [destruct (wroots m rest2 _) as [[? ?]|]; cbn [bind] in Er; discriminate|discriminate]|].
      cbn [map]. rewrite join_cons. apply pl_app; [exact P1|]. change (RDot :: ts2) with ([RDot] ++ ts2). apply pl_app; [apply pl_dot|exact P2].
Qed.
End Roots.

(* ---------- shape of the token list: dots only between non-empty fragments ---------- *)
Definition notdot (t : stok) : bool := match t with RDot => false | _ => true end.
Definition chk (ts : list stok) : bool := last_ok ts && no_double_dot ts && Reader.first_ok ts.

Lemma atoks_nodot m : forall fuel c log ts log', atoks fuel m c log = Ok (ts, log') -> forallb notdot ts = true /\ ts <> [].
Proof.
  induction fuel as [|f IH]; intros c log ts log' E; [discriminate|]. cbn [atoks] in E.
  destruct (nth_error (atoms m) c) as [[[a cap] at_]|]; [|discriminate].
  destruct (nth_error (adj m) c) as [bonds|]; [|discriminate].
  match type of E with (do _ <- ?GA bonds log; _) = _ =>
    assert (G : forall l lg out lg', GA l lg = Ok (out, lg') -> forallb notdot out = true) end.
  { induction l as [|e rest IHl]; intros lg out lg' Eg; [inversion Eg; reflexivity|].
    assert (Hbt : forallb notdot (btoks (b_order e) (b_stereo e)) = true).
    { unfold btoks. destruct (b_order e =? 1); [destruct (b_stereo e) as [c0|]; [destruct (is_stereo_char c0)|]; reflexivity|].
      destruct (b_order e =? 2); [reflexivity|]. destruct (b_order e =? 3); reflexivity. }
    destruct (b_ring e).
    - destruct (ring_label lg (b_src e) (b_dst e)) as [log2 n].
      match type of Eg with (do _ <- ?X; _) = _ => destruct X as [[out0 log3]|] eqn:Er end; cbn [bind] in Eg; [|discriminate].
      inversion Eg; subst. rewrite forallb_app, Hbt. cbn. exact (IHl _ _ _ Er).
    - destruct (atoks f m (b_dst e) lg) as [[sub log2]|] eqn:Es; cbn [bind] in Eg; [|discriminate].
      match type of Eg with (do _ <- ?X; _) = _ => destruct X as [[out0 log3]|] eqn:Er end; cbn [bind] in Eg; [|discriminate].
      destruct (IH _ _ _ _ Es) as [Hs _]. pose proof (IHl _ _ _ Er) as Ho.
      destruct rest; inversion Eg; subst; cbn [forallb notdot]; rewrite ?forallb_app, ?Hbt, ?Hs; cbn [forallb notdot andb]; rewrite ?Ho; reflexivity. }
  match type of E with (do _ <- ?X; _) = _ => destruct X as [[out log2]|] eqn:Eg end; cbn [bind] in E; [|discriminate].
  inversion E; subst. split; [cbn; exact (G _ _ _ _ Eg)|discriminate].
Qed.

Lemma chk_single ts : forallb notdot ts = true -> ts <> [] -> chk ts = true.
Proof.
  intros H Hne. unfold chk. assert (A : no_double_dot ts = true).
  { clear Hne. induction ts as [|t r IH]; [reflexivity|]. cbn in H. apply andb_true_iff in H as [Ht Hr].
    cbn [no_double_dot]. destruct t; try (now apply IH); discriminate. }
  assert (B : Reader.first_ok ts = true) by (destruct ts as [|t r]; [contradiction|]; cbn in H; destruct t; try reflexivity; discriminate).
  assert (C : last_ok ts = true).
  { unfold last_ok. destruct (rev ts) as [|t r] eqn:Er; [reflexivity|].
    assert (In t ts) by (apply in_rev; rewrite Er; now left). rewrite forallb_forall in H. specialize (H t H0). destruct t; try reflexivity; discriminate. }
  now rewrite A, B, C.
Qed.

Lemma chk_app t1 t2 : forallb notdot t1 = true -> t1 <> [] -> t2 <> [] -> chk t2 = true -> chk (t1 ++ RDot :: t2) = true.
Proof.
  intros H1 Hn1 Hn2 H2. unfold chk in *. apply andb_true_iff in H2 as [H2 F2]. apply andb_true_iff in H2 as [L2 D2].
  assert (A : no_double_dot (t1 ++ RDot :: t2) = true).
  { clear Hn1. induction t1 as [|t r IH].
    - cbn [app no_double_dot]. destruct t2 as [|u r2]; [contradiction|]. destruct u; try exact D2. discriminate F2.
    - cbn in H1. apply andb_true_iff in H1 as [Ht Hr]. cbn [app no_double_dot]. destruct t; try (now apply IH); discriminate. }
  assert (B : Reader.first_ok (t1 ++ RDot :: t2) = true) by (destruct t1 as [|t r]; [contradiction|]; cbn in H1; destruct t; try reflexivity; discriminate).
  assert (C : last_ok (t1 ++ RDot :: t2) = true).
  { unfold last_ok in *. rewrite rev_app_distr. cbn [rev]. rewrite <- app_assoc.
    destruct (rev t2) as [|u r] eqn:Er; [apply (f_equal (@rev _)) in Er; rewrite rev_involutive in Er; cbn in Er; contradiction|].
    cbn [app]. exact L2. }
  now rewrite A, B, C.
Qed.

Lemma rtoks_chk m : forall rs log ts lf, rtoks m rs log = Ok (ts, lf) -> chk ts = true /\ (rs <> [] -> ts <> []).
Proof.
  induction rs as [|r rest IH]; intros log ts lf E; cbn [rtoks] in E.
  - inversion E; subst. split; [reflexivity|intro H; contradiction].
  - destruct (atoks _ m r log) as [[ts1 log2]|] eqn:Ea; cbn [bind] in E; [|discriminate].
    destruct (rtoks m rest log2) as [[ts2 log3]|] eqn:Er; cbn [bind] in E; [|discriminate]. inversion E; subst; clear E.
    destruct (atoks_nodot m _ _ _ _ _ Ea) as [Hd Hn]. destruct (IH _ _ _ Er) as [Hc Hne].
    destruct rest as [|r2 rest2].
    + split; [now apply chk_single|intros _; exact Hn].
    + split; [apply chk_app; auto; apply Hne; discriminate|intros _; destruct ts1; [contradiction|discriminate]].
Qed.

(* ---------- sums ---------- *)
Lemma bond_sum2_acc row : forall acc, fold_left (fun a s => a + sl_order2 s) row acc = acc + fold_left (fun a s => a + sl_order2 s) row 0.
Proof.
  induction row as [|s r IH]; intro acc; cbn [fold_left]; [lia|]. rewrite (IH (acc + sl_order2 s)), (IH (0 + sl_order2 s)). lia.
Qed.
Lemma bond_sum2_app a b : bond_sum2 (a ++ b) = bond_sum2 a + bond_sum2 b.
Proof. unfold bond_sum2. rewrite fold_left_app. apply bond_sum2_acc. Qed.
Lemma bond_sum2_slots (f : dbond -> nat) (g : dbond -> bool) l : bond_sum2 (map (fun e => mkslot (f e) e (g e)) l) = 2 * osum l.
Proof.
  induction l as [|e l IH]; [reflexivity|]. change (map _ (e :: l)) with ([mkslot (f e) e (g e)] ++ map (fun e => mkslot (f e) e (g e)) l).
  rewrite bond_sum2_app, IH. unfold osum. cbn [zsum]. unfold bond_sum2. cbn [fold_left mkslot sl_order2]. lia.
Qed.

Section Valid.
Variable T : table.
Variable m : dmol.
Hypothesis HG : MolWF (fun a c => CapOf T a c /\ AtomShape a) SumInv m.
Hypothesis HT : TreeInv m.

Let Hb : forall i e, In e (row m i) -> (b_dst e < natoms m)%nat /\ 1 <= b_order e <= 3 /\ (b_ring e = false -> (i < b_dst e)%nat).
Proof. intros i e He. destruct (wf_bonds _ _ _ HG i e He) as (A & B & C & _). auto. Qed.
Let Hnd : forall i, NoDup (map b_dst (row m i)) := si_nodup _ (wf_extra _ _ _ HG).
Let Hsym := si_sym _ (wf_extra _ _ _ HG).
Let Hadj : length (adj m) = natoms m := wf_adj _ _ _ HG.

Lemma zsum_find x l : NoDup (map b_dst l) ->
  zsum (inw x) l = match find (is_par x) l with Some e => b_order e | None => 0 end.
Proof.
  induction l as [|e l IH]; intro Hn; [reflexivity|]. cbn [map] in Hn. inversion Hn as [|? ? He Hn']; subst.
  cbn [zsum find]. unfold inw at 1. unfold is_par at 1. destruct (negb (b_ring e) && Nat.eqb (b_dst e) x) eqn:E.
  - rewrite zsum_zero; [lia|]. intros y Hy. unfold inw. destruct (negb (b_ring y) && Nat.eqb (b_dst y) x) eqn:Ey; [|reflexivity].
    exfalso. apply andb_true_iff in E as [_ E]. apply andb_true_iff in Ey as [_ Ey]. apply Nat.eqb_eq in E, Ey.
    apply He. rewrite E, <- Ey. now apply in_map.
  - rewrite IH by exact Hn'. lia.
Qed.

Lemma adj_rows : adj m = map (row m) (seq 0 (length (adj m))).
Proof.
  apply nth_ext with (d := []) (d' := row m (length (adj m))); [now rewrite map_length, seq_length|].
  intros n Hn. rewrite map_nth. rewrite seq_nth by exact Hn. reflexivity.
Qed.

Lemma zsum_map {A B} (f : B -> Z) (g : A -> B) l : zsum f (map g l) = zsum (fun a => f (g a)) l.
Proof. induction l as [|a l IH]; cbn [map zsum]; [reflexivity|]. now rewrite IH. Qed.

Lemma isum_par x : isum (adj m) x = match par m x with Some (_, e) => b_order e | None => 0 end.
Proof.
  unfold isum. rewrite adj_rows, zsum_map, Hadj. unfold par.
  assert (G : forall ps, NoDup ps -> zsum (fun p => zsum (inw x) (row m p)) ps = match par_in m ps x with Some (_, e) => b_order e | None => 0 end).
  { induction ps as [|p r IH]; intro Hn; [reflexivity|]. inversion Hn as [|? ? Hp Hn']; subst. cbn [zsum par_in].
    rewrite (zsum_find x (row m p) (Hnd p)). destruct (find (is_par x) (row m p)) as [e|] eqn:Ef.
    - rewrite zsum_zero; [lia|]. intros q Hq. rewrite (zsum_find x (row m q) (Hnd q)).
      destruct (find (is_par x) (row m q)) as [e2|] eqn:Ef2; [|reflexivity]. exfalso.
      apply find_some in Ef as [A1 A2]. apply find_some in Ef2 as [B1 B2]. unfold is_par in A2, B2.
      apply andb_true_iff in A2 as [A2 A3]. apply andb_true_iff in B2 as [B2 B3]. apply negb_true_iff in A2, B2. apply Nat.eqb_eq in A3, B3.
      assert (p = q) by (apply (t_par _ HT p q x); [exists e; auto|exists e2; auto]). subst q. contradiction.
    - rewrite IH by exact Hn'. lia. }
  apply G. apply seq_NoDup.
Qed.

(* the capacity the reader looks up is the one the decoder looked up *)
Lemma cap_key_eq a : cap_key (abs_atom a) = constraint_key (a_element a) (a_charge a).
Proof.
  unfold cap_key, constraint_key, abs_atom. cbn [sa_charge sa_elem]. destruct (a_charge a) as [|p|p]; cbn; reflexivity.
Qed.

Lemma capacity_eq a v : get_bonding_capacity T (a_element a) (a_charge a) = Ok v -> capacity T (abs_atom a) = Some v.
Proof.
  unfold get_bonding_capacity, capacity. rewrite cap_key_eq. destruct (assoc (constraint_key _ _) T); [intro H; now inversion H|].
  change (lit "?") with [63%N]. destruct (assoc [63%N] T); [intro H; now inversion H|discriminate].
Qed.

(* ---------- the pairs of atoms joined by a ring bond ---------- *)
Definition pair_dec : forall a b : nat * nat, {a = b} + {a <> b}.
Proof. decide equality; apply Nat.eq_dec. Defined.

Definition ring_pairs : list (nat * nat) :=
  nodup pair_dec (flat_map (fun x => map (fun e => key_of x (b_dst e)) (filter b_ring (row m x))) (seq 0 (natoms m))).

Hypothesis Hrings : (length ring_pairs < 100)%nat.

Lemma combine_map_in {A B C} (f : A -> B) (g : A -> C) l a b : In (a, b) (combine (map f l) (map g l)) -> exists x, In x l /\ a = f x /\ b = g x.
Proof.
  induction l as [|x l IH]; cbn; [intros []|]. intros [E|H]; [inversion E; exists x; auto|]. destruct (IH H) as (y & Hy & E1 & E2). exists y. auto.
Qed.

Lemma combine_seq_in {A C} (g : A -> C) : forall l s i b, In (i, b) (combine (seq s (length l)) (map g l)) -> exists x, nth_error l (i - s) = Some x /\ b = g x /\ (s <= i)%nat.
Proof.
  induction l as [|x l IH]; intros s i b; cbn; [intros []|]. intros [E|H].
  - inversion E; subst. exists x. rewrite Nat.sub_diag. auto.
  - destruct (IH (S s) i b H) as (y & Ey & Eb & L). exists y. replace (i - s)%nat with (S (i - S s)) by lia. auto with arith.
Qed.

Lemma pos_nth ord i x : NoDup ord -> nth_error ord i = Some x -> pos ord x = i.
Proof.
  intros Hn E. assert (Hin : In x ord) by (eapply nth_error_In; exact E).
  rewrite NoDup_nth_error in Hn. apply Hn; [now apply pos_lt|]. rewrite (nth_pos ord x Hin). now symmetry.
Qed.

Lemma nodup_map_inj {A B} (f : A -> B) l : (forall a b, In a l -> In b l -> f a = f b -> a = b) -> NoDup l -> NoDup (map f l).
Proof.
  intros Hinj Hn. induction Hn as [|x l Hx Hn IH]; [constructor|]. cbn [map]. constructor.
  - intro Hin. apply in_map_iff in Hin as (y & Ey & Hy). assert (y = x) by (apply Hinj; [now right|now left|exact Ey]). subst. contradiction.
  - apply IH. intros a b Ha Hb0 E. apply Hinj; auto; now right.
Qed.

Lemma has_dup_nodup l : NoDup l -> has_dup l = false.
Proof.
  induction 1 as [|x l Hx Hn IH]; [reflexivity|]. cbn. rewrite IH, orb_false_r.
  destruct (existsb (Nat.eqb x) l) eqn:E; [|reflexivity]. apply existsb_exists in E as (y & Hy & Ey). apply Nat.eqb_eq in Ey. subst. contradiction.
Qed.

(* the neighbours of an atom: its parent, then the targets of its row *)
Definition nbrs_of (x : nat) : list nat := (match par m x with Some (p, _) => [p] | None => [] end) ++ map b_dst (row m x).

Lemma nbrs_facts x : NoDup (nbrs_of x) /\ ~ In x (nbrs_of x) /\ forall y, In y (nbrs_of x) -> (y < natoms m)%nat.
Proof.
  unfold nbrs_of. destruct (par m x) as [[p e]|] eqn:Ep.
  - destruct (par_some m Hb _ _ _ Ep) as (Hein & Hre & Hd & Hlt). cbn [app]. split; [|split].
    + constructor; [|apply Hnd]. intro Hin. apply in_map_iff in Hin as (e2 & Ed2 & He2).
      destruct (Hb x e2 He2) as (_ & _ & F). destruct (b_ring e2) eqn:Er2; [|specialize (F eq_refl); lia].
      destruct (Hsym x e2 He2 Er2) as (e3 & He3 & Hd3 & _ & Hr3). rewrite Ed2 in He3.
      (* two entries of the parent's row lead to x: the tree bond and a ring bond *)
      assert (G : forall l a b, NoDup (map b_dst l) -> In a l -> In b l -> b_dst a = b_dst b -> a = b).
      { induction l as [|z l IH]; intros a b Hn Ha Hb' E; [destruct Ha|]. cbn [map] in Hn. inversion Hn as [|? ? Hz Hn']; subst.
        destruct Ha as [<-|Ha]; destruct Hb' as [<-|Hb']; auto.
        - exfalso. apply Hz. rewrite E. now apply in_map.
        - exfalso. apply Hz. rewrite <- E. now apply in_map. }
      assert (e = e3) by (apply (G (row m p)); auto; congruence). subst e3. congruence.
    + intros [E|Hin]; [lia|]. apply in_map_iff in Hin as (e2 & Ed2 & He2). exact (t_noself _ HT x e2 He2 Ed2).
    + intros y [<-|Hin]; [destruct (Hb p e Hein) as (A & _); lia|]. apply in_map_iff in Hin as (e2 & <- & He2). now apply (Hb x e2).
  - cbn [app]. split; [apply Hnd|split].
    + intro Hin. apply in_map_iff in Hin as (e2 & Ed2 & He2). exact (t_noself _ HT x e2 He2 Ed2).
    + intros y Hin. apply in_map_iff in Hin as (e2 & <- & He2). now apply (Hb x e2).
Qed.

Lemma frow_to ord x : map sl_to (frow m ord x) = map (pos ord) (nbrs_of x).
Proof.
  unfold frow, fps, nbrs_of. rewrite !map_app, !map_map. f_equal. destruct (par m x) as [[p e]|]; reflexivity.
Qed.

Lemma frow_sum ord x : bond_sum2 (frow m ord x) = 2 * valence m x.
Proof.
  unfold frow, valence. rewrite bond_sum2_app, (bond_sum2_slots (fun e => pos ord (b_dst e)) b_ring), isum_par. unfold fps.
  destruct (par m x) as [[p e]|]; [unfold bond_sum2; cbn [fold_left mkslot sl_order2]|unfold bond_sum2; cbn [fold_left]]; lia.
Qed.

Lemma frow_orders ord x s : In s (frow m ord x) -> (sl_order2 s =? 3) = false.
Proof.
  unfold frow, fps. intro H. apply in_app_iff in H as [H|H].
  - destruct (par m x) as [[p e]|] eqn:Ep; [|destruct H]. destruct H as [<-|[]]. destruct (par_some m Hb _ _ _ Ep) as (Hein & _).
    destruct (Hb p e Hein) as (_ & Ho & _). cbn [mkslot sl_order2]. apply Z.eqb_neq. lia.
  - apply in_map_iff in H as (e & <- & He). destruct (Hb x e He) as (_ & Ho & _). cbn [mkslot sl_order2]. apply Z.eqb_neq. lia.
Qed.

(* ---------- what the reader reads from the printed string ---------- *)
Theorem printed_reads_ord out maps : mol_to_smiles m = Ok (out, maps) ->
  exists ord, NoDup ord /\ (forall j, In j ord <-> (j < natoms m)%nat) /\
    read_smiles out = Some {| sm_atoms := map (aat m) ord; sm_nbrs := map (frow m ord) ord |} /\ ord = eord m.
Proof.
  intro E. unfold mol_to_smiles in E.
  destruct (write_roots m (roots m) [] 0) as [[frags maps']|] eqn:Ew; cbn [bind] in E; [|discriminate]. inversion E; subst out maps'; clear E.
  destruct (write_roots_wroots m _ _ _ _ _ Ew) as (evss & logf & Ewr & ->).
  destruct (wroots_rtoks m _ _ _ _ Ewr) as (_ & ts & Ert).
  destruct (read_graph_ord m Hb Hnd Hsym HT Hadj ts logf Ert) as (st' & ord & Es & Q & S & O & At & Rows & Hndo & Hord & _ & Hkeys & Hndl & Eord).
  (* fewer than 100 labels *)
  assert (Hlog : (length logf < 100)%nat).
  { apply Nat.le_lt_trans with (length ring_pairs); [|exact Hrings]. apply NoDup_incl_length; [exact Hndl|].
    intros key Hk. destruct (Hkeys key Hk) as (x & e & He & Hr & ->). unfold ring_pairs. apply nodup_In. apply in_flat_map. exists x. split.
    - apply in_seq. destruct (Nat.lt_ge_cases x (natoms m)) as [L|L]; [lia|]. unfold row in He. rewrite nth_overflow in He by lia. destruct He.
    - apply in_map_iff. exists e. split; [reflexivity|]. apply filter_In. auto. }
  assert (Hatoms : forall i a c at_, nth_error (atoms m) i = Some (a, c, at_) -> AtomShape a).
  { intros i a c at_ Ei. destruct (wf_atoms _ _ _ HG i a c at_ Ei) as (_ & _ & _ & Sh). exact Sh. }
  assert (Hbonds : forall i bonds e, nth_error (adj m) i = Some bonds -> In e bonds -> 1 <= b_order e <= 3).
  { intros i bonds e Ei He. assert (bonds = row m i) by (unfold row; symmetry; now apply nth_error_nth). subst. now apply (Hb i e). }
  destruct (wroots_lex m Hatoms Hbonds _ _ _ _ Ewr Hlog) as (ts' & Ert' & [_ PL]). rewrite Ert in Ert'. inversion Ert'; subst ts'; clear Ert'.
  pose proof (PL [] [] I lexes_nil) as Lx. rewrite !app_nil_r in Lx. change (lit ".") with [46%N] in Lx.
  exists ord. split; [exact Hndo|]. split; [exact Hord|]. split; [|exact Eord].
  unfold read_smiles. rewrite (lexes_read _ _ Lx).
  destruct (rtoks_chk m _ _ _ _ Ert) as [Hchk _]. unfold chk in Hchk. rewrite Hchk. cbn [negb].
  change {| r_atoms := []; r_nbrs := []; r_prev := None; r_stack := []; r_pend := None; r_open := [] |} with init_state.
  rewrite Es, Q, S, O, Rows, At.
  reflexivity.
Qed.

Theorem printed_reads out maps : mol_to_smiles m = Ok (out, maps) ->
  exists ord, NoDup ord /\ (forall j, In j ord <-> (j < natoms m)%nat) /\
    read_smiles out = Some {| sm_atoms := map (aat m) ord; sm_nbrs := map (frow m ord) ord |}.
Proof. intro E. destruct (printed_reads_ord out maps E) as (ord & A & B & C & _). exists ord. auto. Qed.

(* ---------- C01, the printed string ---------- *)
Theorem printed_valid out maps : mol_to_smiles m = Ok (out, maps) -> valid_smiles_under T out = true.
Proof.
  intro E. unfold mol_to_smiles in E.
  destruct (write_roots m (roots m) [] 0) as [[frags maps']|] eqn:Ew; cbn [bind] in E; [|discriminate]. inversion E; subst out maps'; clear E.
  destruct (write_roots_wroots m _ _ _ _ _ Ew) as (evss & logf & Ewr & ->).
  destruct (wroots_rtoks m _ _ _ _ Ewr) as (_ & ts & Ert).
  destruct (read_graph m Hb Hnd Hsym HT Hadj ts logf Ert) as (st' & ord & Es & Q & S & O & At & Rows & Hndo & Hord & _ & Hkeys & Hndl).
  (* fewer than 100 labels *)
  assert (Hlog : (length logf < 100)%nat).
  { apply Nat.le_lt_trans with (length ring_pairs); [|exact Hrings]. apply NoDup_incl_length; [exact Hndl|].
    intros key Hk. destruct (Hkeys key Hk) as (x & e & He & Hr & ->). unfold ring_pairs. apply nodup_In. apply in_flat_map. exists x. split.
    - apply in_seq. destruct (Nat.lt_ge_cases x (natoms m)) as [L|L]; [lia|]. unfold row in He. rewrite nth_overflow in He by lia. destruct He.
    - apply in_map_iff. exists e. split; [reflexivity|]. apply filter_In. auto. }
  assert (Hatoms : forall i a c at_, nth_error (atoms m) i = Some (a, c, at_) -> AtomShape a).
  { intros i a c at_ Ei. destruct (wf_atoms _ _ _ HG i a c at_ Ei) as (_ & _ & _ & Sh). exact Sh. }
  assert (Hbonds : forall i bonds e, nth_error (adj m) i = Some bonds -> In e bonds -> 1 <= b_order e <= 3).
  { intros i bonds e Ei He. assert (bonds = row m i) by (unfold row; symmetry; now apply nth_error_nth). subst. now apply (Hb i e). }
  destruct (wroots_lex m Hatoms Hbonds _ _ _ _ Ewr Hlog) as (ts' & Ert' & [_ PL]). rewrite Ert in Ert'. inversion Ert'; subst ts'; clear Ert'.
  pose proof (PL [] [] I lexes_nil) as Lx. rewrite !app_nil_r in Lx. change (lit ".") with [46%N] in Lx.
  unfold valid_smiles_under, read_smiles. rewrite (lexes_read _ _ Lx).
  destruct (rtoks_chk m _ _ _ _ Ert) as [Hchk _]. unfold chk in Hchk. rewrite Hchk. cbn [negb].
  change {| r_atoms := []; r_nbrs := []; r_prev := None; r_stack := []; r_pend := None; r_open := [] |} with init_state.
  rewrite Es, Q, S, O, Rows, At.
  apply andb_true_iff. split; [apply andb_true_iff; split|].
  - (* a simple graph *)
    unfold simple_graph. cbn [sm_nbrs]. apply forallb_forall. intros [i rowi] Hin. rewrite map_length in Hin.
    destruct (combine_seq_in (frow m ord) ord 0%nat i rowi Hin) as (x & Ex & -> & _). rewrite Nat.sub_0_r in Ex.
    assert (Hx : In x ord) by (eapply nth_error_In; exact Ex).
    destruct (nbrs_facts x) as (Nn & Nx & Nlt).
    assert (Hinj : forall a b, In a (x :: nbrs_of x) -> In b (x :: nbrs_of x) -> pos ord a = pos ord b -> a = b).
    { intros a b Ha Hb' Eab. apply (pos_inj ord); auto; apply Hord.
      - destruct Ha as [<-|Ha]; [now apply Hord|now apply Nlt].
      - destruct Hb' as [<-|Hb']; [now apply Hord|now apply Nlt]. }
    apply andb_true_iff. split; apply negb_true_iff.
    + rewrite frow_to. apply has_dup_nodup. apply nodup_map_inj; [|exact Nn].
      intros a b Ha Hb' Eab. apply Hinj; auto; now right.
    + destruct (existsb (fun s => Nat.eqb (sl_to s) i) (frow m ord x)) eqn:Ex2; [|reflexivity]. exfalso.
      apply existsb_exists in Ex2 as (s & Hs & Es2). apply Nat.eqb_eq in Es2.
      assert (Hto : In (sl_to s) (map sl_to (frow m ord x))) by now apply in_map.
      rewrite frow_to in Hto. apply in_map_iff in Hto as (y & Ey & Hy).
      rewrite <- (pos_nth ord i x Hndo Ex) in Es2. rewrite <- Ey in Es2.
      apply Nx. assert (y = x) by (apply Hinj; [now right|now left|exact Es2]). now subst.
  - (* the valences *)
    unfold valence_ok. cbn [sm_atoms sm_nbrs]. apply forallb_forall. intros [a rowx] Hin.
    destruct (combine_map_in (aat m) (frow m ord) ord a rowx Hin) as (x & Hx & -> & ->).
    assert (Hxn : (x < natoms m)%nat) by now apply Hord.
    destruct (nth_error (atoms m) x) as [[[ax c] at_]|] eqn:Ea; [|apply nth_error_None in Ea; unfold natoms in Hxn; lia].
    destruct (wf_atoms _ _ _ HG x ax c at_ Ea) as (Hc0 & _ & Hcap & _).
    unfold aat. rewrite Ea. unfold CapOf, bonding_capacity, bonding_capacity_c in Hcap.
    destruct (get_bonding_capacity T (a_element ax) (a_charge ax)) as [v|] eqn:Ev; cbn [bind] in Hcap; [|discriminate].
    inversion Hcap as [Hcv]. rewrite (capacity_eq ax v Ev). rewrite frow_sum.
    pose proof (wf_val _ _ _ HG x Hxn) as Hv. unfold capOf in Hv. rewrite Ea in Hv.
    rewrite (si_val _ (wf_extra _ _ _ HG) x Hxn) in Hv.
    apply Z.leb_le. unfold abs_atom. cbn [sa_h]. destruct (a_hcount ax); lia.
  - (* a Kekule form *)
    unfold kekule_form. cbn [sm_atoms sm_nbrs]. apply andb_true_iff. split.
    + apply forallb_forall. intros a Ha. apply in_map_iff in Ha as (x & <- & _). now rewrite aat_arom.
    + apply forallb_forall. intros rowx Hr. apply in_map_iff in Hr as (x & <- & _). apply forallb_forall. intros s Hs.
      now rewrite (frow_orders ord x s Hs).
Qed.
End Valid.

(* ---------- from strings ---------- *)
Definition P2 (T : table) (a : atom) (c : Z) : Prop := CapOf T a c /\ AtomShape a.

Lemma pas_p2 T t o st a cap : process_atom_symbol T t = Ok (Some (o, st, a, cap)) -> P2 T a cap.
Proof.
  intro E. split; [exact (pas_cap T t o st a cap E)|].
  unfold process_atom_symbol, process_atom_symbol_c in E.
  destruct (process_atom_nocache t) as [[[[o' st'] a']|]|] eqn:En; cbn [bind] in E; try discriminate.
  destruct (bonding_capacity_c (get_bonding_capacity T) a') as [c|]; cbn [bind] in E; [|discriminate].
  destruct (c <? 0); inversion E; subst. exact (nocache_shape t o st a En).
Qed.

Theorem decode_graph_ok2 T s compat attribute m : (exists c, assoc (lit "?") T = Some c) -> frags_ok s compat ->
  decode_graph T s compat attribute = Ok m -> MolWF (P2 T) SumInv m /\ TreeInv m.
Proof.
  intros Hq Hd E.
  exact (decode_graph_wf_c (P2 T) SumInv sum_empty (sum_add_atom (P2 T)) (sum_add_bond (P2 T)) (sum_upd (P2 T)) (sum_add_ring (P2 T))
           TreeInv tree_empty (tree_root (P2 T) SumInv) (tree_step (P2 T) SumInv) (tree_upd (P2 T) SumInv) (tree_ring (P2 T) SumInv)
           T Hq (pas_p2 T) s compat attribute m Hd E).
Qed.

(* C01: what the decoder returns is a valid SMILES string under the table in force, as judged by the independent reader,
   whenever fewer than 100 pairs of atoms are joined by ring bonds (beyond that the writer prints the label %100: known finding) *)
Theorem decoder_output_valid T s compat attribute out maps :
  (exists c, assoc (lit "?") T = Some c) -> frags_ok s compat ->
  decoder T s compat attribute = Ok (out, maps) ->
  (forall m, decode_graph T s compat attribute = Ok m -> (length (ring_pairs m) < 100)%nat) ->
  valid_smiles_under T out = true.
Proof.
  intros Hq Hd E Hr. unfold decoder, decoder_c in E. fold (decode_graph_c (get_bonding_capacity T) s compat attribute) in E.
  change (decode_graph_c (get_bonding_capacity T) s compat attribute) with (decode_graph T s compat attribute) in E.
  destruct (decode_graph T s compat attribute) as [m|] eqn:Eg; cbn [bind] in E; [|discriminate].
  destruct (decode_graph_ok2 T s compat attribute m Hq Hd Eg) as [HG HT].
  exact (printed_valid T m HG HT (Hr m eq_refl) out maps E).
Qed.
