(* EncChir.v — C04, tetrahedral tags outside rings: an atom that has no ring bond keeps the @ / @@ tag of the SMILES atom it
   was read from; an atom with ring bonds carries that tag or its inverse.  The reader stores the atom read from the
   k-th atom token as the k-th atom; kekulize touches neither a tag nor the ring flags; the inversion pass looks at an
   atom only if its ring flag is set; the symbol is printed from that atom. *)
From Coq Require Import Ascii String List Arith ZArith NArith Bool Lia.
Import ListNotations.
From Selfies Require Import Base Generated Lex Atoms Grammar Decoder Smiles PySet Matching Kekulize Encoder BaseFacts ConfigFacts DecoderInv
  ParserTotal EncHyp EncShape EncTokens EncRows EncAttr EncFaithful.
Local Open Scope nat_scope.

Definition chir_eq (p q : atom * attrs) : Prop := a_chirality (fst q) = a_chirality (fst p).

Lemma chir_refl l : Forall2 chir_eq l l.
Proof. induction l; constructor; [reflexivity|assumption]. Qed.
Lemma chir_trans : forall l1 l2 l3, Forall2 chir_eq l1 l2 -> Forall2 chir_eq l2 l3 -> Forall2 chir_eq l1 l3.
Proof.
  induction l1 as [|x r IH]; intros l2 l3 H1 H2; inversion H1 as [|? ? ? ? Hx Hr]; subst; inversion H2 as [|? ? ? ? Hy Hs]; subst; constructor.
  - unfold chir_eq in *. congruence.
  - eapply IH; eassumption.
Qed.
Lemma chir_upd (f : atom * attrs -> atom * attrs) : (forall p, chir_eq p (f p)) -> forall l i, Forall2 chir_eq l (upd l i f).
Proof.
  intro H. induction l as [|x r IH]; intro i; [constructor|]. destruct i; cbn [upd]; constructor.
  - apply H. - apply chir_refl. - reflexivity. - apply IH.
Qed.

Lemma add_count_rf m i d m' : mg_add_count2 m i d = Ok m' -> m_ringflags m' = m_ringflags m.
Proof. unfold mg_add_count2. destruct (lupd _ _ _); cbn [bind]; [intro E; inversion E; reflexivity|discriminate]. Qed.
Lemma update_order_rf m a b o m' : mg_update_bond_order m a b o = Ok m' -> m_ringflags m' = m_ringflags m.
Proof.
  unfold mg_update_bond_order. destruct (negb _); [discriminate|].
  destruct (mg_get_dirbond m _ _) as [ab|]; cbn [bind]; [|discriminate].
  destruct (_ =? _)%Z; [intro E; now inversion E|].
  destruct (if e_ring ab then _ else _) as [adj1|]; cbn [bind]; [|discriminate].
  destruct (mg_add_count2 (set_adj m adj1) _ _) as [m1|] eqn:E1; cbn [bind]; [|discriminate].
  intro E2. apply add_count_rf in E1, E2. rewrite E2, E1. reflexivity.
Qed.
Lemma single_bonds_rf : forall adjs m node m', set_single_bonds m node adjs = Ok m' -> m_ringflags m' = m_ringflags m.
Proof.
  induction adjs as [|x r IH]; intros m node m' E; cbn [set_single_bonds] in E; [now inversion E|].
  destruct (mg_update_bond_order m node x 2) as [m1|] eqn:E1; cbn [bind] in E; [|discriminate].
  apply update_order_rf in E1. apply IH in E. congruence.
Qed.
Lemma double_bonds_rf : forall prs m l2n m', set_double_bonds m l2n prs = Ok m' -> m_ringflags m' = m_ringflags m.
Proof.
  induction prs as [|[i oj] r IH]; intros m l2n m' E; cbn [set_double_bonds] in E; [now inversion E|].
  destruct (lget l2n i); cbn [bind] in E; [|discriminate]. destruct oj as [j|]; [|discriminate].
  destruct (lget l2n j); cbn [bind] in E; [|discriminate].
  destruct (mg_update_bond_order m _ _ 4) as [m1|] eqn:E1; cbn [bind] in E; [|discriminate].
  apply update_order_rf in E1. apply IH in E. congruence.
Qed.

Lemma dearomatize_chir : forall ds m m', dearomatize m ds = Ok m' -> Forall2 chir_eq (m_atoms m) (m_atoms m') /\ m_ringflags m' = m_ringflags m.
Proof.
  induction ds as [|[node adjs] r IH]; intros m m' E; cbn [dearomatize] in E; [inversion E; subst; split; [apply chir_refl|reflexivity]|].
  destruct (set_single_bonds m node adjs) as [m1|] eqn:E1; cbn [bind] in E; [|discriminate].
  destruct (lupd (m_atoms m1) _ _) as [atoms'|] eqn:Ea; cbn [bind] in E; [|discriminate].
  destruct (lupd (m_counts2 m1) _ _) as [counts'|]; cbn [bind] in E; [|discriminate].
  apply IH in E as [A B]. cbn [set_counts2 set_atoms m_atoms m_ringflags] in A, B.
  pose proof (single_bonds_atoms _ _ _ _ E1) as S1. pose proof (single_bonds_rf _ _ _ _ E1) as F1. apply lupd_eq in Ea. subst atoms'.
  split; [|congruence]. rewrite <- S1. eapply chir_trans; [|exact A]. apply chir_upd. intro p. unfold chir_eq. cbn [fst]. destruct (fst p); reflexivity.
Qed.

Theorem kekulize_chir m m' : kekulize m = Ok (Some m') -> Forall2 chir_eq (m_atoms m) (m_atoms m') /\ m_ringflags m' = m_ringflags m.
Proof.
  unfold kekulize. destruct (ds_is_empty _); [intro E; inversion E; subst; split; [apply chir_refl|reflexivity]|].
  destruct (any_bad_element _ _) as [bad|]; cbn [bind]; [|discriminate]. destruct bad; [discriminate|].
  destruct (kept_nodes_of _ _) as [kn|]; cbn [bind]; [|discriminate].
  destruct (pruned_ds_of _ _ _) as [pruned|]; cbn [bind]; [|discriminate].
  destruct (find_perfect_matching pruned) as [[mt|]|]; cbn [bind]; try discriminate.
  destruct (dearomatize m _) as [m1|] eqn:E1; cbn [bind]; [|discriminate].
  destruct (set_double_bonds m1 _ _) as [m2|] eqn:E2; cbn [bind]; [|discriminate].
  intro E; inversion E; subst. cbn [set_ds m_atoms m_ringflags].
  apply dearomatize_chir in E1 as [A B]. rewrite (double_bonds_atoms _ _ _ _ E2), (double_bonds_rf _ _ _ _ E2). auto.
Qed.

(* the inversion pass: only atoms whose ring flag is set are looked at *)
Definition inv_rel (flags : list bool) (idx : nat) (p q : atom * attrs) : Prop :=
  (nth_error flags idx = Some false -> fst q = fst p) /\
  (a_chirality (fst q) = a_chirality (fst p) \/ a_chirality (fst q) = a_chirality (invert_chirality (fst p))).

Lemma invert_pass_chir m : forall atoms idx atoms', invert_pass m atoms idx = Ok atoms' ->
  forall k p q, nth_error atoms k = Some p -> nth_error atoms' k = Some q -> inv_rel (m_ringflags m) (idx + k) p q.
Proof.
  induction atoms as [|[a at_] r IH]; intros idx atoms' E k p q Hp Hq; cbn [invert_pass] in E; [destruct k; discriminate|].
  match type of E with (do a' <- ?X; _) = _ => destruct X as [a'|] eqn:Ea end; cbn [bind] in E; [|discriminate].
  destruct (invert_pass m r (S idx)) as [rest|] eqn:Er; cbn [bind] in E; [|discriminate]. inversion E; subst atoms'.
  destruct k as [|k]; cbn in Hp, Hq.
  - assert (Ep : p = (a, at_)) by congruence. assert (Eq : q = (a', at_)) by congruence. subst p q. clear Hp Hq.
    rewrite Nat.add_0_r. unfold inv_rel. cbn [fst].
    destruct (a_chirality a) as [c|] eqn:Ec.
    + destruct (mg_has_out_ring_bond m idx) as [flag|] eqn:Ef; cbn [bind] in Ea; [|discriminate]. unfold mg_has_out_ring_bond in Ef. apply lget_In in Ef.
      destruct flag.
      * destruct (should_invert_chirality m idx) as [inv|]; cbn [bind] in Ea; [|discriminate]. assert (Ea' : a' = if inv then invert_chirality a else a) by congruence.
        split; [rewrite Ef; discriminate|]. rewrite Ea'. destruct inv; [now right|now left].
      * assert (Ea' : a' = a) by congruence. rewrite Ea'. split; [reflexivity|now left].
    + assert (Ea' : a' = a) by congruence. rewrite Ea'. split; [reflexivity|now left].
  - replace (idx + S k) with (S idx + k) by lia. exact (IH (S idx) rest Er k p q Hp Hq).
Qed.

(* ---------- the theorem ---------- *)
Definition chir_back (flags : list bool) (ts : list token) (i : nat) (a : atom) (at_ : attrs) (tok : str) : Prop :=
  exists pos tk a0 t bc, nth_error (expect ts 0) i = Some (pos, tk) /\ smiles_to_atom (t_text tk) = Ok (Some a0) /\
    atom_to_smiles a false = Ok t /\ tok = (lit "[" ++ bc ++ t ++ lit "]")%list /\
    (nth_error flags i = Some false -> a_chirality a = a_chirality a0) /\
    (a_chirality a = a_chirality a0 \/ a_chirality a = a_chirality (invert_chirality a0)).

Theorem encoder_tags_faithful T smiles strict x maps ts :
  encoder T smiles strict true = Ok (x, maps) -> tokenize_smiles smiles = Ok ts ->
  exists m tss mss,
    x = join (lit ".") (map (@concat N) tss) /\
    maps = filter (fun a => match am_token a with [] => false | _ => true end) (concat mss) /\
    Forall2 (fun toks ms => Walked (chir_back (m_ringflags m) ts) m toks (map ent ms)) tss mss.
Proof.
  intros E Et. unfold encoder, encoder_c in E.
  destruct (smiles_to_mol smiles true) as [m0|e] eqn:Ep; [|destruct e; discriminate].
  destruct (parsed_attr _ _ _ Ep Et) as [A0 _]. unfold encode_mol in E.
  destruct (kekulize m0) as [[m1|]|] eqn:Ek; cbn [bind] in E; try discriminate.
  destruct (kekulize_chir _ _ Ek) as [K1 F1].
  match type of E with (do _ <- ?X; _) = _ => destruct X; cbn [bind] in E; [|discriminate] end.
  destruct (invert_pass m1 (m_atoms m1) 0) as [atoms'|] eqn:Ei; cbn [bind] in E; [|discriminate].
  pose proof (invert_pass_chir m1 _ _ _ Ei) as K2. cbn [plus] in K2.
  set (m2 := set_atoms m1 atoms') in *.
  destruct (encode_roots m2 _ 0) as [[frags maps0]|] eqn:Er; cbn [bind] in E; [|discriminate].
  inversion E; subst x maps; clear E.
  assert (HP : forall i a9 at_ tok, printed_from m2 i a9 at_ tok -> chir_back (m_ringflags m2) ts i a9 at_ tok).
  { intros i a9 at_ tok [Hg (b & Hb)]. unfold mg_get_atom in Hg. apply lget_In in Hg. unfold m2 in Hg. cbn [set_atoms m_atoms] in Hg.
    (* the atom of m1 and of m0 at the same index *)
    assert (L1 : length atoms' = length (m_atoms m1)).
    { clear -Ei. revert Ei. generalize 0. generalize atoms'. induction (m_atoms m1) as [|[a at0] r IH]; intros l n E; cbn [invert_pass] in E; [inversion E; reflexivity|].
      match type of E with (do a' <- ?X; _) = _ => destruct X as [a'|] end; cbn [bind] in E; [|discriminate].
      destruct (invert_pass m1 r (S n)) as [rest|] eqn:Er; cbn [bind] in E; [|discriminate]. inversion E; subst. cbn [length]. f_equal. exact (IH _ _ Er). }
    destruct (nth_error (m_atoms m1) i) as [p1|] eqn:H1; [|apply nth_error_None in H1; assert (i < length atoms') by (apply nth_error_Some; congruence); lia].
    destruct (K2 i p1 (a9, at_) H1 Hg) as [I1 I2]. cbn [fst] in I1, I2.
    assert (X : exists p0, nth_error (m_atoms m0) i = Some p0 /\ chir_eq p0 p1).
    { clear -K1 H1. revert i H1. induction K1 as [|p q l l' Hpq Hl IH]; intros [|i] H1; cbn in H1; try discriminate; [inversion H1; subst; exists p; auto|exact (IH i H1)]. }
    destruct X as (p0 & H0 & C01). destruct (Forall2_nth _ _ _ _ _ A0 H0) as ([pos tk] & Hn & Ha0 & _). cbn [fst snd] in Ha0.
    unfold atom_to_selfies in Hb. destruct (a_aromatic a9); [discriminate|].
    destruct (match b with None => Ok [] | Some b0 => bond_to_selfies b0 true end) as [bc|]; cbn [bind] in Hb; [|discriminate].
    destruct (atom_to_smiles a9 false) as [t|] eqn:Eas; cbn [bind] in Hb; [|discriminate]. inversion Hb; subst tok.
    exists pos, tk, (fst p0), t, bc. split; [exact Hn|]. split; [exact Ha0|]. split; [exact Eas|]. split; [reflexivity|].
    unfold chir_eq in C01. cbn [set_atoms m_ringflags]. split.
    - intro Hf. rewrite (I1 Hf). exact C01.
    - destruct I2 as [I2|I2]; [left; congruence|right]. rewrite I2. unfold invert_chirality. cbn [a_chirality]. now rewrite C01. }
  destruct (encode_roots_walked (chir_back (m_ringflags m2) ts) m2 HP _ _ _ _ Er) as (tss & mss & -> & -> & W).
  exists m2, tss, mss. repeat split. exact W.
Qed.
