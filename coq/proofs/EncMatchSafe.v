(* EncMatchSafe.v — C09: the augmenting phase of find_perfect_matching raises no exception.  On a graph whose adjacency
   entries are node numbers, started from any matching whose entries are node numbers and whose partners are themselves
   matched, with `unmatched` holding exactly the unmatched nodes: the loop over `unmatched` (pop, BFS, path, flip,
   discard) can end in no Python exception - not the assert on matching[root], no IndexError, no TypeError from the
   parents table, no KeyError from the set.  The only failure left in the model is its own fuel (OutOfFuel), i.e.
   non-termination, which is not excluded here. *)
From Coq Require Import Ascii String List Arith ZArith NArith Bool Lia.
Import ListNotations.
From Selfies Require Import Base Generated Lex Atoms Grammar Decoder Smiles PySet Matching Kekulize Encoder BaseFacts ConfigFacts
  ParserTotal EncShape EncKey EncIndex EncKek EncMatch.
Local Open Scope nat_scope.

Definition fuel_only (e : exn) : Prop := e = OutOfFuel.

(* ---------- the set model: only its probes can fail ---------- *)
Lemma add_probe_err tbl mask key : forall fuel i p fs e, add_probe fuel tbl mask key i p fs = Err e -> fuel_only e.
Proof.
  induction fuel as [|f IH]; intros i p fs e E; [inversion E; reflexivity|]. cbn [add_probe] in E.
  destruct (add_scan tbl key i (run_length i mask) fs) as [j [d|]| |fs']; try discriminate. exact (IH _ _ _ _ E).
Qed.
Lemma clean_probe_err tbl mask : forall fuel i p e, clean_probe fuel tbl mask i p = Err e -> fuel_only e.
Proof.
  induction fuel as [|f IH]; intros i p e E; [inversion E; reflexivity|]. cbn [clean_probe] in E.
  destruct (clean_scan tbl i (run_length i mask)); [discriminate|exact (IH _ _ _ E)].
Qed.
Lemma look_probe_err tbl mask key : forall fuel i p e, look_probe fuel tbl mask key i p = Err e -> fuel_only e.
Proof.
  induction fuel as [|f IH]; intros i p e E; [inversion E; reflexivity|]. cbn [look_probe] in E.
  destruct (look_scan tbl key i (run_length i mask)); try discriminate. exact (IH _ _ _ E).
Qed.
Lemma reinsert_err mask : forall old tbl e, reinsert old tbl mask = Err e -> fuel_only e.
Proof.
  induction old as [|x r IH]; intros tbl e E; cbn [reinsert] in E; [discriminate|].
  destruct x as [| |k]; [exact (IH _ _ E)|exact (IH _ _ E)|].
  unfold insert_clean in E. destruct (clean_probe _ _ _ _ _) as [j|e1] eqn:Ec; cbn [bind] in E; [exact (IH _ _ E)|inversion E; subst; exact (clean_probe_err _ _ _ _ _ _ Ec)].
Qed.
Lemma ps_add_err s key e : ps_add s key = Err e -> fuel_only e.
Proof.
  unfold ps_add. destruct (add_probe _ _ _ _ _ _ _) as [w|e1] eqn:E1; cbn [bind]; [|intro H; inversion H; subst; exact (add_probe_err _ _ _ _ _ _ _ _ E1)].
  destruct w; try discriminate. destruct (_ <? _); [discriminate|]. unfold table_resize.
  destruct (reinsert _ _ _) as [t|e1] eqn:Er; cbn [bind]; [discriminate|intro H; inversion H; subst; exact (reinsert_err _ _ _ _ Er)].
Qed.
Lemma ps_of_list_err l e : ps_of_list l = Err e -> fuel_only e.
Proof.
  unfold ps_of_list. generalize ps_empty. induction l as [|x r IH]; intros s E; cbn [ps_add_all] in E; [discriminate|].
  destruct (ps_add s x) as [s1|e1] eqn:E1; cbn [bind] in E; [exact (IH _ E)|inversion E; subst; exact (ps_add_err _ _ _ E1)].
Qed.
Lemma ps_discard_err key s e : ps_discard key s = Err e -> fuel_only e.
Proof.
  unfold ps_discard. destruct (look_probe _ _ _ _ _ _) as [[j|]|e1] eqn:E1; cbn [bind]; try discriminate. intro H; inversion H; subst. exact (look_probe_err _ _ _ _ _ _ _ E1).
Qed.
Lemma ps_pop_err s e : ps_nonempty s = true -> ps_pop s = Err e -> fuel_only e.
Proof.
  unfold ps_nonempty, ps_pop. intro Hn. apply negb_true_iff in Hn. rewrite Hn.
  destruct (match first_key_from _ _ with Some h => Some h | None => _ end) as [[j k]|]; [discriminate|]. intro H; inversion H; reflexivity.
Qed.

(* pop and discard add nothing *)
Lemma tmem_upd_dummy k tbl j : tmem k (upd tbl j (fun _ => SDummy)) -> tmem k tbl.
Proof.
  intros [i Hi]. destruct (Nat.eq_dec j i) as [->|Hne].
  - destruct (nth_error tbl i) as [x|] eqn:E; [rewrite (nth_upd_same _ _ _ _ E) in Hi; discriminate|].
    exfalso. assert (X : i < length (upd tbl i (fun _ => SDummy))) by (apply nth_error_Some; congruence). rewrite upd_length in X. apply nth_error_None in E. lia.
  - rewrite nth_upd_other in Hi by exact Hne. exists i. exact Hi.
Qed.
Lemma ps_discard_sub key s s' k : ps_discard key s = Ok s' -> mem k s' -> mem k s.
Proof.
  unfold ps_discard, mem. destruct (look_probe _ _ _ _ _ _) as [[j|]|]; cbn [bind]; try discriminate; intro H; inversion H; subst; cbn [ps_table]; [apply tmem_upd_dummy|auto].
Qed.
Lemma ps_pop_sub s s' x k : ps_pop s = Ok (x, s') -> mem k s' -> mem k s.
Proof.
  unfold ps_pop, mem. destruct (_ =? _); [discriminate|].
  destruct (match first_key_from _ _ with Some h => Some h | None => _ end) as [[j k0]|]; [|discriminate]. intro H; inversion H; subst. cbn [ps_table]. apply tmem_upd_dummy.
Qed.
(* what pop returns was a member, and is none afterwards when keys are not repeated *)

(* ---------- lists: get / set_at never fail in range ---------- *)
Lemma get_ok {A} (l : list A) i : i < length l -> exists x, get l i = Ok x /\ nth_error l i = Some x.
Proof. intro H. unfold get. destruct (nth_error l i) as [x|] eqn:E; [eauto|apply nth_error_None in E; lia]. Qed.
Lemma get_err {A} (l : list A) i e : get l i = Err e -> length l <= i.
Proof. unfold get. destruct (nth_error l i) eqn:E; [discriminate|]. intros _. now apply nth_error_None. Qed.
Lemma set_at_ok {A} (l : list A) i x : i < length l -> set_at l i x = Ok (upd l i (fun _ => x)).
Proof. intro H. unfold set_at. apply Nat.ltb_lt in H. now rewrite H. Qed.

(* the first node of a path built from the free end is that end *)
Lemma build_path_tail parents root : forall fuel node acc path, build_path fuel parents root node acc = Ok path -> exists pre, path = rev (pre ++ acc).
Proof.
  induction fuel as [|f IH]; intros node acc path E; [discriminate|]. cbn [build_path] in E.
  destruct (node =? root); [inversion E; subst; exists []; reflexivity|].
  destruct (get parents node) as [[[[p0|] [p1|]]|]|]; cbn [bind] in E; try discriminate.
  destruct (IH _ _ _ E) as [pre Hp]. exists (pre ++ [p0; p1]). rewrite Hp, <- app_assoc. reflexivity.
Qed.

Lemma build_path_head parents root fuel node a path : node <> root -> nth_error parents node = Some (Some (Some a, Some node)) ->
  build_path (S fuel) parents root node [] = Ok path -> hd_error path = Some node.
Proof.
  intros Hne Hn E. cbn [build_path] in E. destruct (Nat.eqb_spec node root); [contradiction|]. unfold get in E. rewrite Hn in E. cbn [bind] in E.
  destruct (build_path_tail _ _ _ _ _ _ E) as [pre ->]. rewrite rev_app_distr. reflexivity.
Qed.

Section Safe.
Variable g : graph.
Let n := length g.
Hypothesis GR : forall i li j, nth_error g i = Some li -> In j li -> j < n.

(* matchings: entries are nodes, and a partner is itself matched *)
Record MR (m : matching) : Prop := {
  mr_len : length m = n;
  mr_rng : forall i j, nth_error m i = Some (Some j) -> j < n;
  mr_wm : forall i j, nth_error m i = Some (Some j) -> exists y, nth_error m j = Some (Some y)
}.
Definition matched (m : matching) (i : nat) : Prop := exists y, nth_error m i = Some (Some y).

Lemma mr_set2 m a b : MR m -> a < n -> b < n -> MR (upd (upd m a (fun _ => Some b)) b (fun _ => Some a)).
Proof.
  intros [L R W] Ha Hb. assert (La : a < length m) by lia. assert (Lb : b < length (upd m a (fun _ => Some b))) by (rewrite upd_length; lia).
  assert (N : forall i, nth_error (upd (upd m a (fun _ => Some b)) b (fun _ => Some a)) i =
                        if Nat.eqb b i then Some (Some a) else if Nat.eqb a i then Some (Some b) else nth_error m i).
  { intro i. rewrite nth_set by exact Lb. destruct (Nat.eqb b i); [reflexivity|]. now rewrite nth_set by exact La. }
  constructor.
  - now rewrite !upd_length.
  - intros i j Hn. rewrite N in Hn. destruct (Nat.eqb b i); [inversion Hn; subst; exact Ha|]. destruct (Nat.eqb a i); [inversion Hn; subst; exact Hb|exact (R i j Hn)].
  - intros i j Hn. rewrite N in Hn. unfold matched. rewrite N.
    assert (X : forall j0, (j0 = a \/ j0 = b \/ exists y, nth_error m j0 = Some (Some y)) ->
                exists y, (if Nat.eqb b j0 then Some (Some a) else if Nat.eqb a j0 then Some (Some b) else nth_error m j0) = Some (Some y)).
    { intros j0 H. destruct (Nat.eqb_spec b j0); [eauto|]. destruct (Nat.eqb_spec a j0); [eauto|]. destruct H as [H|[H|H]]; [congruence|congruence|exact H]. }
    destruct (Nat.eqb b i); [inversion Hn; subst; apply X; now left|]. destruct (Nat.eqb a i); [inversion Hn; subst; apply X; right; now left|].
    apply X. right. right. exact (W i j Hn).
Qed.

(* ---------- the BFS ---------- *)
Variable root : nat.
Variable m : matching.
Hypothesis HM : MR m.
Hypothesis Hroot : root < n.
Hypothesis Hfree : nth_error m root = Some None.

Definition full (parents : parents_t) (v : nat) : Prop := exists a b, nth_error parents v = Some (Some (Some a, Some b)).
(* a node that may be dequeued: the root, or a matched node with a complete entry *)
Definition okn (parents : parents_t) (v : nat) : Prop := v < n /\ (v = root \/ (full parents v /\ matched m v)).

Record PJ (parents : parents_t) : Prop := {
  pj_len : length parents = n;
  pj_ent : forall v a b, nth_error parents v = Some (Some (Some a, Some b)) ->
             v <> root /\ okn parents a /\ b < n /\ (v = b \/ matched m b)
}.

Lemma full_set parents x e v : x < length parents -> full parents v -> (x = v -> exists a b, e = (Some a, Some b)) ->
  full (upd parents x (fun _ => Some e)) v.
Proof.
  intros Lx (a & b & Hv) He. unfold full. rewrite nth_set by exact Lx. destruct (Nat.eqb_spec x v) as [->|Hne]; [|eauto].
  destruct (He eq_refl) as (a' & b' & ->). eauto.
Qed.

Lemma pj_set parents x node adj : PJ parents -> x < n -> x <> root -> okn parents node -> adj < n -> (x = adj \/ matched m adj) ->
  PJ (upd parents x (fun _ => Some (Some node, Some adj))).
Proof.
  intros [L E] Hx Hxr Hnode Hadj Hrel. assert (Lx : x < length parents) by lia.
  assert (Okn : forall v, okn parents v -> okn (upd parents x (fun _ => Some (Some node, Some adj))) v).
  { intros v [Hv [->|[Hf Hmv]]]; (split; [exact Hv|]); [now left|right]. split; [|exact Hmv]. apply full_set; [exact Lx|exact Hf|intros _; eauto]. }
  constructor; [now rewrite upd_length|].
  intros v a b Hn. rewrite nth_set in Hn by exact Lx. destruct (Nat.eqb_spec x v) as [->|Hne].
  - inversion Hn; subst a b. split; [exact Hxr|]. split; [exact (Okn _ Hnode)|]. split; [exact Hadj|exact Hrel].
  - destruct (E v a b Hn) as (A & B & C & D). split; [exact A|]. split; [exact (Okn _ B)|]. split; [exact C|exact D].
Qed.

Lemma okn_set parents x node adj v : x < length parents -> okn parents v -> okn (upd parents x (fun _ => Some (Some node, Some adj))) v.
Proof.
  intros Lx [Hv [->|[Hf Hmv]]]; (split; [exact Hv|]); [now left|right]. split; [|exact Hmv]. apply full_set; [exact Lx|exact Hf|intros _; eauto].
Qed.

Lemma not_matched_root : ~ matched m root.
Proof. intros [y Hy]. congruence. Qed.

Lemma scan_adj_safe : forall adjs node parents queue, PJ parents -> okn parents node -> (forall a, In a adjs -> a < n) -> Forall (okn parents) queue ->
  exists p' q' oe, scan_adj adjs node root m parents queue = Ok (p', q', oe) /\ PJ p' /\ Forall (okn p') q' /\
    (forall x, oe = Some x -> x <> root /\ x < n /\ (exists a, nth_error p' x = Some (Some (Some a, Some x))) /\ nth_error m x = Some None).
Proof.
  induction adjs as [|adj r IH]; intros node parents queue HP Hnode Ha Hq; cbn [scan_adj].
  - exists parents, queue, None. split; [reflexivity|]. split; [exact HP|]. split; [exact Hq|discriminate].
  - assert (Hr : forall a, In a r -> a < n) by (intros; apply Ha; now right). pose proof (Ha adj (or_introl eq_refl)) as Hadj.
    destruct (get_ok m adj ltac:(rewrite (mr_len _ HM); exact Hadj)) as (madj & Eg & Hn). rewrite Eg. cbn [bind].
    destruct madj as [adj_mate|].
    + pose proof (mr_rng _ HM _ _ Hn) as Hmate. pose proof (mr_wm _ HM _ _ Hn) as Hmm.
      destruct (get_ok parents adj_mate ltac:(rewrite (pj_len _ HP); exact Hmate)) as (pm & Egp & Hnp). rewrite Egp. cbn [bind].
      destruct pm as [pm|]; [exact (IH node parents queue HP Hnode Hr Hq)|].
      assert (Lx : adj_mate < length parents) by (rewrite (pj_len _ HP); exact Hmate).
      rewrite (set_at_ok parents adj_mate _ Lx). cbn [bind].
      assert (Hxr : adj_mate <> root) by (intros ->; exact (not_matched_root Hmm)).
      pose proof (pj_set parents adj_mate node adj HP Hmate Hxr Hnode Hadj (or_intror (ex_intro _ adj_mate Hn))) as HP1.
      apply (IH node _ (queue ++ [adj_mate]) HP1 (okn_set _ _ _ _ _ Lx Hnode) Hr).
      apply Forall_app. split; [eapply Forall_impl; [|exact Hq]; intros v Hv; exact (okn_set _ _ _ _ _ Lx Hv)|].
      constructor; [|constructor]. split; [exact Hmate|right]. split; [|exact Hmm]. unfold full. rewrite nth_set by exact Lx. rewrite Nat.eqb_refl. eauto.
    + destruct (Nat.eqb_spec adj root) as [Er|Er]; [exact (IH node parents queue HP Hnode Hr Hq)|].
      assert (Lx : adj < length parents) by (rewrite (pj_len _ HP); exact Hadj).
      rewrite (set_at_ok parents adj _ Lx). cbn [bind]. eexists _, queue, (Some adj). split; [reflexivity|].
      split; [exact (pj_set parents adj node adj HP Hadj Er Hnode Hadj (or_introl eq_refl))|].
      split; [eapply Forall_impl; [|exact Hq]; intros v Hv; exact (okn_set _ _ _ _ _ Lx Hv)|].
      intros x Hx. inversion Hx; subst x. split; [exact Er|]. split; [exact Hadj|]. split; [|exact Hn]. exists node. rewrite nth_set by exact Lx. now rewrite Nat.eqb_refl.
Qed.

Definition found (p' : parents_t) (oe : option nat) : Prop :=
  forall x, oe = Some x -> x <> root /\ x < n /\ (exists a, nth_error p' x = Some (Some (Some a, Some x))) /\ nth_error m x = Some None.

Lemma bfs_safe : forall fuel parents queue, PJ parents -> Forall (okn parents) queue ->
  match bfs fuel g root m parents queue with Ok (p', oe) => PJ p' /\ found p' oe | Err e => fuel_only e end.
Proof.
  induction fuel as [|f IH]; intros parents queue HP Hq; cbn [bfs]; [reflexivity|].
  destruct queue as [|node q]; [split; [exact HP|intros x Hx; discriminate]|].
  inversion Hq as [|? ? Hnode Hq']; subst.
  destruct (get_ok g node (proj1 Hnode)) as (adjs & Eg & Hn). rewrite Eg. cbn [bind].
  destruct (scan_adj_safe adjs node parents q HP Hnode (fun a Ha => GR node adjs a Hn Ha) Hq') as (p1 & q1 & oe & Es & HP1 & Hq1 & Hf). rewrite Es. cbn [bind].
  destruct oe as [x|]; [split; [exact HP1|exact Hf]|exact (IH p1 q1 HP1 Hq1)].
Qed.

(* nodes of the path: the root, the free end, or matched nodes *)
Definition pnode (oend : nat) (x : nat) : Prop := x < n /\ (x = root \/ x = oend \/ matched m x).

Lemma build_path_safe parents oend : PJ parents -> forall fuel node acc, node < n -> (node = root \/ full parents node) -> pnode oend node -> Forall (pnode oend) acc ->
  match build_path fuel parents root node acc with Ok path => Forall (pnode oend) path | Err e => fuel_only e end.
Proof.
  intros HP. induction fuel as [|f IH]; intros node acc Hn Hf Hpn Hacc; cbn [build_path]; [reflexivity|].
  destruct (Nat.eqb_spec node root) as [->|Hne]; [apply Forall_rev; exact Hacc|].
  destruct Hf as [Hf|(a & b & Hf)]; [contradiction|]. unfold get. rewrite Hf. cbn [bind].
  destruct (pj_ent _ HP node a b Hf) as (_ & (Ha & Hokn) & Hb & Hrel).
  apply IH; [exact Ha|destruct Hokn as [->|[X _]]; [now left|now right]| |].
  - split; [exact Ha|]. destruct Hokn as [->|[_ X]]; [now left|right; now right].
  - constructor; [split; [exact Ha|]; destruct Hokn as [->|[_ X]]; [now left|right; now right]|].
    constructor; [|exact Hacc]. split; [exact Hb|]. destruct Hrel as [<-|X]; [destruct Hpn as [_ Y]; exact Y|right; now right].
Qed.

Lemma find_path_safe :
  match find_augmenting_path g root m with
  | Ok None => True
  | Ok (Some path) => exists oend, nth_error m oend = Some None /\ oend <> root /\ Forall (pnode oend) path /\ hd_error path = Some oend
  | Err e => fuel_only e
  end.
Proof.
  unfold find_augmenting_path. unfold get. rewrite Hfree. cbn [bind].
  assert (L0 : root < length (map (fun _ : list nat => @None (option nat * option nat)) g)) by (rewrite map_length; exact Hroot).
  rewrite (set_at_ok _ root _ L0). cbn [bind].
  assert (HP0 : PJ (upd (map (fun _ : list nat => @None (option nat * option nat)) g) root (fun _ => Some (None, None)))).
  { constructor; [now rewrite upd_length, map_length|]. intros v a b Hn. rewrite nth_set in Hn by exact L0. destruct (root =? v); [discriminate|]. exfalso. exact (nth_map_none _ _ _ Hn). }
  pose proof (bfs_safe (S (S (length g))) _ [root] HP0 ltac:(constructor; [split; [exact Hroot|now left]|constructor])) as B.
  destruct (bfs _ g root m _ [root]) as [[parents oe]|e]; cbn [bind]; [|exact B]. destruct B as [HP Hf].
  destruct oe as [oend|]; [|exact I]. destruct (Hf oend eq_refl) as (Hne & Hlt & (a0 & Hent) & Hnone).
  pose proof (build_path_safe parents oend HP (S (S (length g))) oend [] Hlt (or_intror (ex_intro _ a0 (ex_intro _ oend Hent))) ltac:(split; [exact Hlt|right; now left]) ltac:(constructor)) as P.
  destruct (build_path _ parents root oend []) as [path|e] eqn:Ebp; cbn [bind]; [|exact P]. exists oend. split; [exact Hnone|]. split; [exact Hne|]. split; [exact P|].
  exact (build_path_head parents root _ oend a0 path Hne Hent Ebp).
Qed.
End Safe.

(* ---------- the set model keeps its keys distinct ---------- *)
From Coq Require Import Permutation.

Definition KU (s : pyset) : Prop := NoDup (ps_keys (ps_table s)).

Lemma tmem_keys k : forall tbl, tmem k tbl <-> In k (ps_keys tbl).
Proof.
  induction tbl as [|x r IH]; [split; [intros [j Hj]; destruct j; discriminate|intros []]|]. split.
  - intros [j Hj]. destruct j; cbn in Hj.
    + inversion Hj; subst. now left.
    + assert (In k (ps_keys r)) by (apply IH; exists j; exact Hj). destruct x; cbn [ps_keys]; auto. now right.
  - intro H. destruct x as [| |k0]; cbn [ps_keys] in H.
    + apply IH in H as [j Hj]. exists (S j). exact Hj.
    + apply IH in H as [j Hj]. exists (S j). exact Hj.
    + destruct H as [->|H]; [exists 0; reflexivity|apply IH in H as [j Hj]; exists (S j); exact Hj].
Qed.

Lemma keys_upd_key k : forall tbl j x, nth_error tbl j = Some x -> nokey x -> Permutation (ps_keys (upd tbl j (fun _ => SKey k))) (k :: ps_keys tbl).
Proof.
  induction tbl as [|y r IH]; intros [|j] x H Hx; cbn in H; try discriminate.
  - inversion H; subst. destruct x; cbn in *; try reflexivity. destruct Hx.
  - cbn [upd]. specialize (IH j x H Hx). destruct y; cbn [ps_keys]; [exact IH|exact IH|]. rewrite IH. apply perm_swap.
Qed.
Lemma keys_upd_dummy : forall tbl j k, nth_error tbl j = Some (SKey k) -> Permutation (k :: ps_keys (upd tbl j (fun _ => SDummy))) (ps_keys tbl).
Proof.
  induction tbl as [|y r IH]; intros [|j] k H; cbn in H; try discriminate.
  - inversion H; subst. reflexivity.
  - cbn [upd]. specialize (IH j k H). destruct y; cbn [ps_keys]; [exact IH|exact IH|]. rewrite perm_swap. now rewrite IH.
Qed.
Lemma keys_repeat n : ps_keys (repeat SUnused n) = [].
Proof. induction n; cbn; auto. Qed.

Lemma insert_clean_keys tbl mask key t : insert_clean tbl mask key = Ok t -> Permutation (ps_keys t) (key :: ps_keys tbl).
Proof.
  unfold insert_clean. destruct (clean_probe _ _ _ _ _) as [j|] eqn:E; cbn [bind]; [|discriminate]. intro H; inversion H; subst.
  apply clean_probe_spec in E. exact (keys_upd_key key _ _ _ E I).
Qed.
Lemma reinsert_keys mask : forall old tbl t, reinsert old tbl mask = Ok t -> Permutation (ps_keys t) (ps_keys old ++ ps_keys tbl).
Proof.
  induction old as [|x r IH]; intros tbl t E; cbn [reinsert] in E; [inversion E; subst; reflexivity|].
  destruct x as [| |k0]; cbn [ps_keys]; [exact (IH _ _ E)|exact (IH _ _ E)|].
  destruct (insert_clean tbl mask k0) as [t1|] eqn:E1; cbn [bind] in E; [|discriminate].
  rewrite (IH _ _ E), (insert_clean_keys _ _ _ _ E1). cbn [app]. symmetry. apply Permutation_middle.
Qed.

Lemma ps_add_keys s key s' : ~ mem key s -> ps_add s key = Ok s' -> Permutation (ps_keys (ps_table s')) (key :: ps_keys (ps_table s)).
Proof.
  intro Hn. unfold ps_add. destruct (add_probe _ _ _ _ _ _ _) as [w|] eqn:E; cbn [bind]; [|discriminate].
  apply add_probe_spec in E; [|intros d Hd; discriminate]. destruct w as [|j|d].
  - contradiction.
  - pose proof (keys_upd_key key _ _ _ E I) as P1. destruct (_ <? _); [intro H; inversion H; subst; exact P1|].
    unfold table_resize. destruct (reinsert _ _ _) as [t|] eqn:Er; cbn [bind]; [|discriminate]. intro H; inversion H; subst. cbn [ps_table] in *.
    rewrite (reinsert_keys _ _ _ _ Er), keys_repeat, app_nil_r. exact P1.
  - intro H; inversion H; subst. exact (keys_upd_key key _ _ _ E I).
Qed.

Lemma ps_add_all_keys : forall l s s', NoDup l -> (forall k, In k l -> ~ mem k s) -> ps_add_all s l = Ok s' ->
  Permutation (ps_keys (ps_table s')) (l ++ ps_keys (ps_table s)).
Proof.
  induction l as [|x r IH]; intros s s' Hnd Hnm E; cbn [ps_add_all] in E; [inversion E; subst; reflexivity|].
  destruct (ps_add s x) as [s1|] eqn:E1; cbn [bind] in E; [|discriminate]. inversion Hnd as [|? ? Hx Hr]; subst.
  pose proof (ps_add_keys s x s1 (Hnm x (or_introl eq_refl)) E1) as P1.
  rewrite (IH s1 s' Hr); [| |exact E].
  - rewrite P1. cbn [app]. symmetry. apply Permutation_middle.
  - intros k Hk Hm. unfold mem in Hm. apply tmem_keys in Hm. apply (Permutation_in _ P1) in Hm. destruct Hm as [<-|Hm]; [contradiction|].
    apply (Hnm k (or_intror Hk)). apply tmem_keys. exact Hm.
Qed.

Lemma ps_of_list_keys l s : NoDup l -> ps_of_list l = Ok s -> Permutation (ps_keys (ps_table s)) l.
Proof.
  intros Hnd E. unfold ps_of_list in E.
  rewrite (ps_add_all_keys l ps_empty s Hnd); [unfold ps_empty; cbn [ps_table]; rewrite keys_repeat, app_nil_r; reflexivity|intros k _ Hm; exact (tmem_repeat k _ Hm)|exact E].
Qed.
Lemma ps_of_list_ku l s : NoDup l -> ps_of_list l = Ok s -> KU s.
Proof. intros Hnd E. exact (Permutation_NoDup (Permutation_sym (ps_of_list_keys l s Hnd E)) Hnd). Qed.

Lemma remove_ku tbl j key : NoDup (ps_keys tbl) -> nth_error tbl j = Some (SKey key) ->
  NoDup (ps_keys (upd tbl j (fun _ => SDummy))) /\ ~ tmem key (upd tbl j (fun _ => SDummy)).
Proof.
  intros Hk Hj. pose proof (keys_upd_dummy _ _ _ Hj) as P.
  pose proof (Permutation_NoDup (Permutation_sym P) Hk) as Nd. inversion Nd as [|? ? Hx Hr]; subst. split; [exact Hr|]. intro Hm. apply tmem_keys in Hm. contradiction.
Qed.

Lemma ps_pop_ku s k s' : KU s -> ps_pop s = Ok (k, s') -> KU s' /\ ~ mem k s' /\ mem k s.
Proof.
  intros Hk. unfold ps_pop. destruct (_ =? _); [discriminate|].
  set (start := ps_finger s mod S (ps_mask s)).
  assert (X : forall j k0, match first_key_from (skipn start (ps_table s)) start with Some h => Some h | None => first_key_from (firstn start (ps_table s)) 0 end = Some (j, k0) ->
                nth_error (ps_table s) j = Some (SKey k0)).
  { intros j k0. destruct (first_key_from (skipn start (ps_table s)) start) as [[j1 k1]|] eqn:E1.
    - intro H; inversion H; subst. destruct (first_key_spec _ _ _ _ E1) as [L H1]. rewrite nth_skipn in H1. replace (start + (j - start)) with j in H1 by lia. exact H1.
    - intro E2. destruct (first_key_spec _ _ _ _ E2) as [_ H2]. rewrite Nat.sub_0_r in H2. exact (nth_firstn _ _ _ _ H2). }
  destruct (match first_key_from (skipn start (ps_table s)) start with Some h => Some h | None => _ end) as [[j k0]|] eqn:Eh; [|discriminate].
  intro H; inversion H; subst. pose proof (X _ _ eq_refl) as Hj. destruct (remove_ku _ j k Hk Hj) as [A B]. split; [exact A|]. split; [exact B|]. exists j. exact Hj.
Qed.

(* ---------- lookups find every stored key ---------- *)
Definition ND (tbl : list slot) : Prop := forall j, nth_error tbl j <> Some SDummy.
Definition LCt (tbl : list slot) (mask : nat) : Prop :=
  forall k, tmem k tbl -> exists j, look_probe (probe_fuel mask k) tbl mask k (k mod S mask) k = Ok (Some j).
Definition LC (s : pyset) : Prop := LCt (ps_table s) (ps_mask s).

(* changing a slot that a successful lookup never read as unused does not change the lookup *)
Lemma look_scan_upd tbl k x (f : slot -> slot) : nth_error tbl x = Some SUnused -> forall c i,
  look_scan tbl k i c <> LUnused -> look_scan (upd tbl x f) k i c = look_scan tbl k i c.
Proof.
  intros Hx. induction c as [|c IH]; intros i Hne; cbn [look_scan] in *; [reflexivity|].
  destruct (Nat.eq_dec x i) as [->|Hxi]; [rewrite Hx in Hne; congruence|]. rewrite nth_upd_other by exact Hxi.
  destruct (nth_error tbl i) as [[| |k0]|]; try reflexivity; try congruence; [exact (IH _ Hne)|].
  destruct (k0 =? k); [reflexivity|exact (IH _ Hne)].
Qed.
Lemma look_probe_upd tbl mask k x (f : slot -> slot) j : nth_error tbl x = Some SUnused -> forall fuel i p,
  look_probe fuel tbl mask k i p = Ok (Some j) -> look_probe fuel (upd tbl x f) mask k i p = Ok (Some j).
Proof.
  intros Hx. induction fuel as [|fu IH]; intros i p E; [discriminate|]. cbn [look_probe] in *.
  rewrite (look_scan_upd tbl k x f Hx); [|intro H; rewrite H in E; discriminate].
  destruct (look_scan tbl k i (run_length i mask)); [discriminate|exact E|exact (IH _ _ E)].
Qed.

(* replacing a key by a dummy does not change the lookup of another key *)
Lemma look_scan_dummy tbl k x k0 : nth_error tbl x = Some (SKey k0) -> k0 <> k -> forall c i,
  look_scan (upd tbl x (fun _ => SDummy)) k i c = look_scan tbl k i c.
Proof.
  intros Hx Hne. induction c as [|c IH]; intro i; cbn [look_scan]; [reflexivity|].
  destruct (Nat.eq_dec x i) as [->|Hxi].
  - rewrite (nth_upd_same _ _ _ _ Hx), Hx. destruct (Nat.eqb_spec k0 k); [contradiction|apply IH].
  - rewrite nth_upd_other by exact Hxi. destruct (nth_error tbl i) as [[| |k1]|]; try reflexivity; [apply IH|destruct (k1 =? k); [reflexivity|apply IH]].
Qed.
Lemma look_probe_dummy tbl mask k x k0 : nth_error tbl x = Some (SKey k0) -> k0 <> k -> forall fuel i p,
  look_probe fuel (upd tbl x (fun _ => SDummy)) mask k i p = look_probe fuel tbl mask k i p.
Proof.
  intros Hx Hne. induction fuel as [|fu IH]; intros i p; cbn [look_probe]; [reflexivity|].
  rewrite (look_scan_dummy tbl k x k0 Hx Hne). destruct (look_scan tbl k i (run_length i mask)); try reflexivity. apply IH.
Qed.

(* without dummies: where add / insert_clean put a new key is where the lookup finds it *)
Lemma add_scan_look tbl key j : ND tbl -> ~ tmem key tbl -> nth_error tbl j = Some SUnused -> forall c i,
  match add_scan tbl key i c None with
  | AUnused j' fs => fs = None /\ (j' = j -> look_scan (upd tbl j (fun _ => SKey key)) key i c = LFound j)
  | AActive => False
  | AMore fs => fs = None /\ look_scan (upd tbl j (fun _ => SKey key)) key i c = LMore
  end.
Proof.
  intros Hnd Hnm Hj. induction c as [|c IH]; intro i; cbn [add_scan look_scan]; [split; reflexivity|].
  destruct (nth_error tbl i) as [[| |k]|] eqn:Ei.
  - split; [reflexivity|]. intros ->. rewrite (nth_upd_same _ _ _ _ Ei). now rewrite Nat.eqb_refl.
  - exfalso. exact (Hnd i Ei).
  - destruct (Nat.eqb_spec k key) as [->|Hk]; [apply Hnm; exists i; exact Ei|].
    assert (Hij : j <> i) by (intros ->; congruence).
    specialize (IH (S i)). rewrite nth_upd_other by exact Hij. rewrite Ei. destruct (Nat.eqb_spec k key); [contradiction|]. exact IH.
  - split; [reflexivity|]. assert (Hij : j <> i) by (intros ->; congruence). rewrite nth_upd_other by exact Hij. now rewrite Ei.
Qed.

Lemma add_probe_look tbl mask key j : ND tbl -> ~ tmem key tbl -> nth_error tbl j = Some SUnused -> forall fuel i p w,
  add_probe fuel tbl mask key i p None = Ok w -> w = AddFresh j -> look_probe fuel (upd tbl j (fun _ => SKey key)) mask key i p = Ok (Some j).
Proof.
  intros Hnd Hnm Hj. induction fuel as [|fu IH]; intros i p w E Hw; [discriminate|]. cbn [add_probe look_probe] in *.
  pose proof (add_scan_look tbl key j Hnd Hnm Hj (run_length i mask) i) as S.
  destruct (add_scan tbl key i (run_length i mask) None) as [j' fs| |fs].
  - destruct S as [-> S]. inversion E; subst w. inversion H0; subst j'. now rewrite (S eq_refl).
  - destruct S.
  - destruct S as [-> S]. rewrite S. exact (IH _ _ _ E Hw).
Qed.
Lemma add_probe_nd tbl mask key : ND tbl -> forall fuel i p w, add_probe fuel tbl mask key i p None = Ok w -> forall d, w <> AddReuse d.
Proof.
  intros Hnd. assert (S : forall c i, match add_scan tbl key i c None with AUnused _ fs => fs = None | AActive => True | AMore fs => fs = None end).
  { induction c as [|c IH]; intro i; cbn [add_scan]; [reflexivity|]. destruct (nth_error tbl i) as [[| |k]|] eqn:Ei; try reflexivity; [exfalso; exact (Hnd i Ei)|].
    destruct (k =? key); [exact I|apply IH]. }
  induction fuel as [|fu IH]; intros i p w E d; [discriminate|]. cbn [add_probe] in E. specialize (S (run_length i mask) i).
  destruct (add_scan tbl key i (run_length i mask) None) as [j' fs| |fs]; [subst fs; inversion E; discriminate|inversion E; discriminate|subst fs; exact (IH _ _ _ E d)].
Qed.

Lemma clean_scan_look tbl key j : ~ tmem key tbl -> nth_error tbl j = Some SUnused -> forall c i,
  match clean_scan tbl i c with
  | Some j' => j' = j -> look_scan (upd tbl j (fun _ => SKey key)) key i c = LFound j
  | None => look_scan (upd tbl j (fun _ => SKey key)) key i c = LMore \/ exists x, nth_error tbl x = Some SDummy
  end.
Proof.
  intros Hnm Hj. induction c as [|c IH]; intro i; cbn [clean_scan look_scan]; [now left|].
  destruct (nth_error tbl i) as [[| |k]|] eqn:Ei.
  - intros ->. rewrite (nth_upd_same _ _ _ _ Ei). now rewrite Nat.eqb_refl.
  - specialize (IH (S i)). destruct (clean_scan tbl (S i) c); [|right; eauto]. intros Hjj. assert (Hij : j <> i) by (intros ->; congruence).
    rewrite nth_upd_other by exact Hij. rewrite Ei. exact (IH Hjj).
  - assert (Hk : k <> key) by (intros ->; apply Hnm; exists i; exact Ei). assert (Hij : j <> i) by (intros ->; congruence).
    specialize (IH (S i)). rewrite nth_upd_other by exact Hij. rewrite Ei. destruct (Nat.eqb_spec k key); [contradiction|]. exact IH.
  - left. assert (Hij : j <> i) by (intros ->; congruence). rewrite nth_upd_other by exact Hij. now rewrite Ei.
Qed.
Lemma clean_probe_look tbl mask key j : ND tbl -> ~ tmem key tbl -> nth_error tbl j = Some SUnused -> forall fuel i p,
  clean_probe fuel tbl mask i p = Ok j -> look_probe fuel (upd tbl j (fun _ => SKey key)) mask key i p = Ok (Some j).
Proof.
  intros Hnd Hnm Hj. induction fuel as [|fu IH]; intros i p E; [discriminate|]. cbn [clean_probe look_probe] in *.
  pose proof (clean_scan_look tbl key j Hnm Hj (run_length i mask) i) as S.
  destruct (clean_scan tbl i (run_length i mask)) as [j'|].
  - inversion E; subst j'. now rewrite (S eq_refl).
  - destruct S as [S|[x Hx]]; [rewrite S; exact (IH _ _ E)|exfalso; exact (Hnd x Hx)].
Qed.

Lemma nd_upd_key tbl j k : ND tbl -> ND (upd tbl j (fun _ => SKey k)).
Proof.
  intros H i Hi. destruct (Nat.eq_dec j i) as [->|Hne]; [|rewrite nth_upd_other in Hi by exact Hne; exact (H i Hi)].
  destruct (nth_error tbl i) as [x|] eqn:E; [rewrite (nth_upd_same _ _ _ _ E) in Hi; discriminate|].
  assert (X : i < length (upd tbl i (fun _ => SKey k))) by (apply nth_error_Some; congruence). rewrite upd_length in X. apply nth_error_None in E. lia.
Qed.

(* inserting a new key at the unused slot its probe reaches keeps every lookup, and adds its own *)
Lemma lct_insert tbl mask key j : ND tbl -> LCt tbl mask -> ~ tmem key tbl -> nth_error tbl j = Some SUnused ->
  look_probe (probe_fuel mask key) (upd tbl j (fun _ => SKey key)) mask key (key mod S mask) key = Ok (Some j) ->
  LCt (upd tbl j (fun _ => SKey key)) mask.
Proof.
  intros Hnd Hl Hnm Hj Hlook k Hk. destruct (Nat.eq_dec k key) as [->|Hne]; [eauto|].
  assert (Hk0 : tmem k tbl).
  { destruct Hk as [i Hi]. destruct (Nat.eq_dec j i) as [->|Hji]; [rewrite (nth_upd_same _ _ _ _ Hj) in Hi; congruence|rewrite nth_upd_other in Hi by exact Hji; exists i; exact Hi]. }
  destruct (Hl k Hk0) as [j0 Hj0]. exists j0. exact (look_probe_upd _ _ _ _ _ _ Hj _ _ _ Hj0).
Qed.

Lemma insert_clean_lc tbl mask key t : ND tbl -> LCt tbl mask -> ~ tmem key tbl -> insert_clean tbl mask key = Ok t -> ND t /\ LCt t mask.
Proof.
  intros Hnd Hl Hnm. unfold insert_clean. destruct (clean_probe _ _ _ _ _) as [j|] eqn:E; cbn [bind]; [|discriminate]. intro H; inversion H; subst t.
  pose proof (clean_probe_spec _ _ _ _ _ _ E) as Hj. split; [exact (nd_upd_key _ _ _ Hnd)|].
  exact (lct_insert tbl mask key j Hnd Hl Hnm Hj (clean_probe_look tbl mask key j Hnd Hnm Hj _ _ _ E)).
Qed.

Lemma reinsert_lc mask : forall old tbl t, ND tbl -> LCt tbl mask -> NoDup (ps_keys old ++ ps_keys tbl) -> reinsert old tbl mask = Ok t -> ND t /\ LCt t mask.
Proof.
  induction old as [|x r IH]; intros tbl t Hnd Hl Hu E; cbn [reinsert] in E; [inversion E; subst; auto|].
  destruct x as [| |k0]; cbn [ps_keys] in Hu; [exact (IH _ _ Hnd Hl Hu E)|exact (IH _ _ Hnd Hl Hu E)|].
  destruct (insert_clean tbl mask k0) as [t1|] eqn:E1; cbn [bind] in E; [|discriminate].
  cbn [app] in Hu. inversion Hu as [|? ? Hx Hr]; subst.
  assert (Hnm : ~ tmem k0 tbl) by (intro Hm; apply Hx; apply in_app_iff; right; now apply tmem_keys).
  destruct (insert_clean_lc _ _ _ _ Hnd Hl Hnm E1) as [N1 L1]. apply (IH t1 t N1 L1); [|exact E].
  apply (Permutation_NoDup (l := k0 :: ps_keys r ++ ps_keys tbl)); [|exact Hu].
  rewrite (insert_clean_keys _ _ _ _ E1). apply Permutation_middle.
Qed.

Lemma lct_repeat n mask : LCt (repeat SUnused n) mask.
Proof. intros k Hk. exfalso. exact (tmem_repeat k n Hk). Qed.
Lemma nd_repeat n : ND (repeat SUnused n).
Proof. intros j Hj. apply nth_error_In, repeat_spec in Hj. discriminate. Qed.

Lemma ps_add_lc s key s' : ND (ps_table s) -> LC s -> KU s -> ~ mem key s -> ps_add s key = Ok s' -> ND (ps_table s') /\ LC s'.
Proof.
  unfold LC, KU, mem. intros Hnd Hl Hu Hnm. unfold ps_add.
  destruct (add_probe _ _ _ _ _ _ _) as [w|] eqn:E; cbn [bind]; [|discriminate].
  assert (F0 : fsinv (ps_table s) None) by (intros d Hd; discriminate). pose proof (add_probe_spec _ _ _ _ _ _ _ _ F0 E) as Sp. pose proof (add_probe_nd _ _ _ Hnd _ _ _ _ E) as NoReuse.
  destruct w as [|j|d]; [contradiction| |exfalso; exact (NoReuse d eq_refl)].
  pose proof (add_probe_look _ _ _ j Hnd Hnm Sp _ _ _ _ E eq_refl) as Hlook.
  pose proof (lct_insert _ _ _ j Hnd Hl Hnm Sp Hlook) as L1. pose proof (nd_upd_key _ j key Hnd) as N1.
  destruct (_ <? _); [intro H; inversion H; subst; cbn [ps_table ps_mask]; auto|].
  unfold table_resize. destruct (reinsert _ _ _) as [t|] eqn:Er; cbn [bind]; [|discriminate]. intro H; inversion H; subst. cbn [ps_table ps_mask] in *.
  apply (reinsert_lc _ _ _ _ (nd_repeat _) (lct_repeat _ _)) in Er; [exact Er|]. rewrite keys_repeat, app_nil_r.
  exact (Permutation_NoDup (Permutation_sym (keys_upd_key key _ _ _ Sp I)) (NoDup_cons _ (fun Hin => Hnm (proj2 (tmem_keys _ _) Hin)) Hu)).
Qed.

Lemma ps_add_all_lc : forall l s s', NoDup l -> (forall k, In k l -> ~ mem k s) -> ND (ps_table s) -> LC s -> KU s ->
  ps_add_all s l = Ok s' -> LC s' /\ KU s'.
Proof.
  induction l as [|x r IH]; intros s s' Hnd Hnm Hd Hl Hu E; cbn [ps_add_all] in E; [inversion E; subst; auto|].
  destruct (ps_add s x) as [s1|] eqn:E1; cbn [bind] in E; [|discriminate]. inversion Hnd as [|? ? Hx Hr]; subst.
  pose proof (Hnm x (or_introl eq_refl)) as Hnx. destruct (ps_add_lc s x s1 Hd Hl Hu Hnx E1) as [D1 L1].
  pose proof (ps_add_keys s x s1 Hnx E1) as P1.
  assert (U1 : KU s1) by (unfold KU; apply (Permutation_NoDup (Permutation_sym P1)); constructor; [intro Hin; apply Hnx; now apply tmem_keys|exact Hu]).
  apply (IH s1 s' Hr); [|exact D1|exact L1|exact U1|exact E].
  intros k Hk Hm. unfold mem in Hm. apply tmem_keys in Hm. apply (Permutation_in _ P1) in Hm. destruct Hm as [<-|Hm]; [contradiction|].
  apply (Hnm k (or_intror Hk)). apply tmem_keys. exact Hm.
Qed.

Lemma ps_of_list_full l s : NoDup l -> ps_of_list l = Ok s -> SI s /\ KU s /\ LC s /\ forall k, mem k s <-> In k l.
Proof.
  intros Hnd E. destruct (ps_of_list_spec l s E) as [Hs _]. pose proof (ps_of_list_keys l s Hnd E) as P.
  destruct (ps_add_all_lc l ps_empty s Hnd) as [Hl Hu]; [intros k _ Hm; exact (tmem_repeat k _ Hm)|apply nd_repeat|apply lct_repeat|unfold KU, ps_empty; cbn [ps_table]; rewrite keys_repeat; constructor|exact E|].
  split; [exact Hs|]. split; [exact Hu|]. split; [exact Hl|]. intro k. unfold mem. rewrite tmem_keys. split; intro H; [exact (Permutation_in _ P H)|exact (Permutation_in _ (Permutation_sym P) H)].
Qed.

(* removing the key of slot j keeps the other lookups *)
Lemma remove_lc tbl mask j key : NoDup (ps_keys tbl) -> LCt tbl mask -> nth_error tbl j = Some (SKey key) -> LCt (upd tbl j (fun _ => SDummy)) mask.
Proof.
  intros Hu Hl Hj k Hk. pose proof (tmem_upd_dummy _ _ _ Hk) as Hk0. destruct (remove_ku tbl j key Hu Hj) as [_ Hnk].
  assert (Hne : key <> k) by (intros ->; contradiction). destruct (Hl k Hk0) as [j0 Hj0]. exists j0. rewrite (look_probe_dummy tbl mask k j key Hj Hne). exact Hj0.
Qed.

Lemma ps_discard_full key s s' : KU s -> LC s -> ps_discard key s = Ok s' -> KU s' /\ LC s' /\ ~ mem key s'.
Proof.
  unfold KU, LC, mem. intros Hu Hl. unfold ps_discard. destruct (look_probe _ _ _ _ _ _) as [[j|]|] eqn:E; cbn [bind]; [| |discriminate]; intro H; inversion H; subst; cbn [ps_table ps_mask].
  - apply look_probe_spec in E. destruct (remove_ku _ j key Hu E) as [A B]. split; [exact A|]. split; [exact (remove_lc _ _ j key Hu Hl E)|exact B].
  - split; [exact Hu|]. split; [exact Hl|]. intro Hm. destruct (Hl key Hm) as [j Hj]. congruence.
Qed.

Lemma ps_pop_full s k s' : KU s -> LC s -> ps_pop s = Ok (k, s') -> KU s' /\ LC s' /\ ~ mem k s' /\ mem k s.
Proof.
  intros Hu Hl E. destruct (ps_pop_ku s k s' Hu E) as (A & B & C). split; [exact A|]. split; [|auto].
  unfold ps_pop in E. destruct (_ =? _); [discriminate|].
  set (start := ps_finger s mod S (ps_mask s)) in *.
  assert (X : forall j k0, match first_key_from (skipn start (ps_table s)) start with Some h => Some h | None => first_key_from (firstn start (ps_table s)) 0 end = Some (j, k0) ->
                nth_error (ps_table s) j = Some (SKey k0)).
  { intros j k0. destruct (first_key_from (skipn start (ps_table s)) start) as [[j1 k1]|] eqn:E1.
    - intro H; inversion H; subst. destruct (first_key_spec _ _ _ _ E1) as [L H1]. rewrite nth_skipn in H1. replace (start + (j - start)) with j in H1 by lia. exact H1.
    - intro E2. destruct (first_key_spec _ _ _ _ E2) as [_ H2]. rewrite Nat.sub_0_r in H2. exact (nth_firstn _ _ _ _ H2). }
  destruct (match first_key_from (skipn start (ps_table s)) start with Some h => Some h | None => _ end) as [[j k0]|] eqn:Eh; [|discriminate].
  inversion E; subst. unfold LC. cbn [ps_table ps_mask]. exact (remove_lc _ _ j k Hu Hl (X _ _ eq_refl)).
Qed.

(* ---------- flipping a path ---------- *)
Lemma flip_safe g : forall path m1, pairs g path -> Forall (fun x => x < length m1) path -> exists m', flip_augmenting_path m1 path = Ok m'.
Proof.
  fix IH 1. intros [|a [|b r]] m1 Hp Hr; cbn [flip_augmenting_path]; [eauto|destruct Hp|]. cbn [pairs] in Hp. destruct Hp as [_ Hp].
  inversion Hr as [|? ? Ha Hr1]; subst. inversion Hr1 as [|? ? Hb Hr2]; subst.
  rewrite (set_at_ok m1 a _ Ha). cbn [bind]. rewrite (set_at_ok _ b _ ltac:(rewrite upd_length; exact Hb)). cbn [bind].
  apply IH; [exact Hp|]. eapply Forall_impl; [|exact Hr2]. intros x Hx. now rewrite !upd_length.
Qed.

Lemma flip_mr g (GR : forall i li j, nth_error g i = Some li -> In j li -> j < length g) : forall path m1 m', MR g m1 -> Forall (fun x => x < length g) path ->
  flip_augmenting_path m1 path = Ok m' -> MR g m'.
Proof.
  fix IH 1. intros [|a [|b r]] m1 m' Hm Hr E; cbn [flip_augmenting_path] in E; [inversion E; subst; exact Hm|discriminate|].
  inversion Hr as [|? ? Ha Hr1]; subst. inversion Hr1 as [|? ? Hb Hr2]; subst.
  destruct (set_at m1 a _) as [m2|] eqn:E1; cbn [bind] in E; [|discriminate]. destruct (set_at m2 b _) as [m3|] eqn:E2; cbn [bind] in E; [|discriminate].
  apply set_at_spec in E1 as [-> _]. apply set_at_spec in E2 as [-> _].
  exact (IH r _ m' (mr_set2 g m1 a b Hm Ha Hb) Hr2 E).
Qed.

Lemma flip_outside : forall path m1 m' x, flip_augmenting_path m1 path = Ok m' -> ~ In x path -> nth_error m' x = nth_error m1 x.
Proof.
  fix IH 1. intros [|a [|b r]] m1 m' x E Hx; cbn [flip_augmenting_path] in E; [inversion E; reflexivity|discriminate|].
  destruct (set_at m1 a _) as [m2|] eqn:E1; cbn [bind] in E; [|discriminate]. destruct (set_at m2 b _) as [m3|] eqn:E2; cbn [bind] in E; [|discriminate].
  apply set_at_spec in E1 as [-> _]. apply set_at_spec in E2 as [-> _].
  rewrite (IH r _ m' x E); [|intro H; apply Hx; right; now right].
  rewrite nth_upd_other by (intros ->; apply Hx; right; now left). apply nth_upd_other. intros ->. apply Hx. now left.
Qed.

Lemma flip_inside : forall path m1 m' x, flip_augmenting_path m1 path = Ok m' -> In x path -> exists y, nth_error m' x = Some (Some y).
Proof.
  fix IH 1. intros [|a [|b r]] m1 m' x E Hx; cbn [flip_augmenting_path] in E; [destruct Hx|discriminate|].
  destruct (set_at m1 a _) as [m2|] eqn:E1; cbn [bind] in E; [|discriminate]. destruct (set_at m2 b _) as [m3|] eqn:E2; cbn [bind] in E; [|discriminate].
  destruct (in_dec Nat.eq_dec x r) as [Hir|Hir]; [exact (IH r _ m' x E Hir)|].
  apply set_at_spec in E1 as [-> L1]. apply set_at_spec in E2 as [-> L2].
  rewrite (flip_outside _ _ _ _ E Hir). destruct Hx as [<-|[<-|Hx]]; [|exists a; rewrite nth_set by exact L2; now rewrite Nat.eqb_refl|contradiction].
  rewrite nth_set by exact L2. destruct (Nat.eqb_spec b a); [eauto|]. rewrite nth_set by exact L1. rewrite Nat.eqb_refl. eauto.
Qed.

(* ---------- the loop over `unmatched` ---------- *)
Section Augment.
Variable g : graph.
Hypothesis GR : forall i li j, nth_error g i = Some li -> In j li -> j < length g.

Record AJ (m : matching) (u : pyset) : Prop := {
  aj_mr : MR g m;
  aj_si : SI u;
  aj_ku : KU u;
  aj_lc : LC u;
  aj_in : forall i, nth_error m i = Some None -> mem i u;
  aj_out : forall i, mem i u -> nth_error m i = Some None
}.

Lemma augment_safe : forall fuel m u, AJ m u ->
  match augment_loop pyset ps_nonempty ps_pop ps_discard fuel g m u with Ok _ => True | Err e => fuel_only e end.
Proof.
  induction fuel as [|f IH]; intros m u [Hm Hs Hu Hl Hin Hout]; cbn [augment_loop]; [reflexivity|].
  destruct (ps_nonempty u) eqn:En; cbn [negb]; [|exact I].
  destruct (ps_pop u) as [[root u1]|e] eqn:Epop; cbn [bind]; [|exact (ps_pop_err _ _ En Epop)].
  destruct (ps_pop_full _ _ _ Hu Hl Epop) as (U1 & L1 & Nr1 & Mr). destruct (ps_pop_spec _ _ _ Hs Epop) as [S1 K1].
  pose proof (Hout root Mr) as Hfree. assert (Hroot : root < length g) by (rewrite <- (mr_len _ _ Hm); apply nth_error_Some; congruence).
  pose proof (find_path_safe g GR root m Hm Hroot Hfree) as FP. pose proof (find_path_spec g root m) as FS.
  destruct (find_augmenting_path g root m) as [[path|]|e] eqn:Ef; cbn [bind]; [|exact I|exact FP].
  destruct FP as (oend & Hoend & Hne & Hpn & Hhd). destruct (FS path eq_refl) as [Pp Pr].
  assert (Hrng : Forall (fun x => x < length g) path) by (eapply Forall_impl; [|exact Hpn]; intros x [Hx _]; exact Hx).
  destruct (flip_safe g path m Pp ltac:(rewrite (mr_len _ _ Hm); exact Hrng)) as [m' Efl]. rewrite Efl. cbn [bind].
  destruct path as [|p0 rest] eqn:Epath; [destruct Pr|]. cbn [get nth_error bind].
  destruct (get_ok (p0 :: rest) (length (p0 :: rest) - 1) ltac:(cbn [length]; lia)) as (pl & Egl & Hnl). rewrite Egl. cbn [bind].
  destruct (ps_discard p0 u1) as [u2|e] eqn:Ed2; cbn [bind]; [|exact (ps_discard_err _ _ _ Ed2)].
  destruct (ps_discard pl u2) as [u3|e] eqn:Ed3; cbn [bind]; [|exact (ps_discard_err _ _ _ Ed3)].
  destruct (ps_discard_full _ _ _ U1 L1 Ed2) as (U2 & L2 & N2). destruct (ps_discard_spec _ _ _ S1 Ed2) as [S2 K2].
  destruct (ps_discard_full _ _ _ U2 L2 Ed3) as (U3 & L3 & N3). destruct (ps_discard_spec _ _ _ S2 Ed3) as [S3 K3].
  apply IH. constructor; [exact (flip_mr g GR _ _ _ Hm Hrng Efl)|exact S3|exact U3|exact L3| |].
  - intros i Hi. 
    assert (Np : ~ In i (p0 :: rest)).
    { intro Hin'. destruct (flip_inside _ _ _ _ Efl Hin') as [y Hy]. congruence. }
    rewrite (flip_outside _ _ _ _ Efl Np) in Hi. pose proof (Hin i Hi) as Hmem.
    apply nth_error_In in Hnl.
    apply K3; [intros ->; contradiction|]. apply K2; [intros ->; apply Np; now left|]. apply K1; [intros ->; contradiction|exact Hmem].
  - intros i Hi. pose proof (ps_discard_sub _ _ _ _ Ed3 Hi) as H2. pose proof (ps_discard_sub _ _ _ _ Ed2 H2) as H1. pose proof (ps_pop_sub _ _ _ _ Epop H1) as H0.
    pose proof (Hout i H0) as Hnone.
    assert (Np : ~ In i (p0 :: rest)).
    { intro Hin'. rewrite Forall_forall in Hpn. destruct (Hpn i Hin') as [_ [->|[->|[y Hy]]]]; [contradiction| |congruence].
      (* i is the free end: it is the head of the path, which was discarded *)
      cbn [hd_error] in Hhd. inversion Hhd; subst p0. exact (N2 H2). }
    rewrite (flip_outside _ _ _ _ Efl Np). exact Hnone.
Qed.
End Augment.

(* ---------- the greedy phase hands over such a matching ---------- *)
Lemma greedy_loop_mr g (GR : forall i li j, nth_error g i = Some li -> In j li -> j < length g) :
  forall fuel m fd h m', MR g m -> greedy_loop fuel g m fd h = Ok m' -> MR g m'.
Proof.
  induction fuel as [|f IH]; intros m fd h m' Hm E; [discriminate|]. cbn [greedy_loop] in E.
  destruct (heappop h) as [[[d node] h1]|]; [|inversion E; subst; exact Hm].
  destruct (get m node) as [mn|] eqn:Egm; cbn [bind] in E; [|discriminate]. destruct (get fd node) as [dn|]; cbn [bind] in E; [|discriminate].
  destruct mn; [exact (IH _ _ _ _ Hm E)|]. destruct (_ =? _)%Z; [exact (IH _ _ _ _ Hm E)|].
  destruct (get g node) as [gn|] eqn:Eg; cbn [bind] in E; [|discriminate]. apply get_spec in Eg.
  destruct (first_unmatched gn m) as [mate|] eqn:Ef; cbn [bind] in E; [|discriminate]. apply first_unmatched_in in Ef.
  destruct (set_at m node _) as [m1|] eqn:E1; cbn [bind] in E; [|discriminate].
  destruct (set_at m1 mate _) as [m2|] eqn:E2; cbn [bind] in E; [|discriminate].
  destruct (get g mate); cbn [bind] in E; [|discriminate]. destruct (dec_free _ _ _ _) as [[fd' h2]|]; cbn [bind] in E; [|discriminate].
  apply set_at_spec in E1 as [-> L1]. apply set_at_spec in E2 as [-> L2].
  apply (IH _ _ _ _ (mr_set2 g m node mate Hm ltac:(rewrite <- (mr_len _ _ Hm); exact L1) (GR node gn mate Eg Ef)) E).
Qed.

Lemma greedy_mr g (GR : forall i li j, nth_error g i = Some li -> In j li -> j < length g) m : greedy_matching g = Ok m -> MR g m.
Proof.
  unfold greedy_matching. apply (greedy_loop_mr g GR). constructor; [now rewrite map_length| |]; intros i j H; exfalso; exact (nth_map_none _ _ _ H).
Qed.

Lemma enum_fst_ge {A} : forall (l : list A) k i x, In (i, x) (enum_from k l) -> k <= i.
Proof. intros l k i x H. exact (proj1 (enum_from_nth l k i x H)). Qed.
Lemma nodup_enum {A} (f : nat * A -> bool) : forall (l : list A) k, NoDup (map fst (filter f (enum_from k l))).
Proof.
  induction l as [|x r IH]; intro k; cbn [enum_from filter map]; [constructor|].
  destruct (f (k, x)); [|apply IH]. cbn [map fst]. constructor; [|apply IH].
  intro Hin. apply in_map_iff in Hin as ([i y] & Hi & Hf). cbn [fst] in Hi. subst i. apply filter_In in Hf as [Hf _]. apply enum_fst_ge in Hf. lia.
Qed.
Lemma unmatched_spec m i : In i (unmatched_nodes m) <-> nth_error m i = Some None.
Proof.
  unfold unmatched_nodes. split.
  - intro H. apply in_map_iff in H as ([j y] & Hj & Hf). cbn [fst] in Hj. subst j. apply filter_In in Hf as [Hf Hy]. cbn [snd] in Hy.
    apply enum_from_nth in Hf as [_ Hn]. rewrite Nat.sub_0_r in Hn. destruct y; [discriminate|exact Hn].
  - intro H. apply in_map_iff. exists (i, None). split; [reflexivity|]. apply filter_In. split; [exact (enum_from_in m 0 i None H)|reflexivity].
Qed.

(* ---------- assembled ---------- *)
Theorem matching_raises_only_in_greedy g e : (forall i li j, nth_error g i = Some li -> In j li -> j < length g) ->
  find_perfect_matching g = Err e -> fuel_only e \/ greedy_matching g = Err e.
Proof.
  intros GR. unfold find_perfect_matching, find_perfect_matching_with.
  destruct (greedy_matching g) as [m0|e0] eqn:Eg; cbn [bind]; [|intro H; inversion H; now right].
  destruct (ps_of_list (unmatched_nodes m0)) as [u|e0] eqn:Eu; cbn [bind]; [|intro H; inversion H; subst; left; exact (ps_of_list_err _ _ Eu)].
  destruct (ps_of_list_full _ _ (nodup_enum _ m0 0) Eu) as (Su & Uu & Lu & Mu).
  intro E. left. pose proof (augment_safe g GR (S (length g)) m0 u) as A. rewrite E in A. apply A.
  constructor; [exact (greedy_mr g GR m0 Eg)|exact Su|exact Uu|exact Lu| |]; intros i Hi; [apply Mu; now apply unmatched_spec|apply unmatched_spec; now apply Mu].
Qed.
