(* EncMatch.v — C09, middle stage: the matching that find_perfect_matching returns can be written back.  Partial
   correctness only (nothing here says the matching loops return): IF find_perfect_matching g = Ok (Some mt) THEN mt has
   one entry per node, every entry is Some j, and i - mt[i] is an edge of g in one of the two directions.  The "every
   entry is Some" half needs the semantics of the CPython set model (PySet.v): used = number of active slots, add /
   resize keep every key, pop and discard remove only the key they name. *)
From Coq Require Import Ascii String List Arith ZArith NArith Bool Lia.
Import ListNotations.
From Selfies Require Import Base Generated Lex Atoms Grammar Decoder Smiles PySet Matching Kekulize Encoder BaseFacts ConfigFacts
  ParserTotal EncShape EncKey EncIndex EncKek.
Local Open Scope nat_scope.

Lemma nth_upd_same {A} (f : A -> A) : forall (l : list A) i x, nth_error l i = Some x -> nth_error (upd l i f) i = Some (f x).
Proof. induction l as [|y r IH]; intros [|i] x H; cbn in *; try discriminate; [now inversion H|now apply IH]. Qed.
Lemma nth_upd_other {A} (f : A -> A) : forall (l : list A) i j, i <> j -> nth_error (upd l i f) j = nth_error l j.
Proof. induction l as [|y r IH]; intros [|i] [|j] H; cbn; try reflexivity; try congruence. apply IH. congruence. Qed.

(* ====================================================================== *)
(* the CPython set model                                                    *)
(* ====================================================================== *)
Definition cnt (tbl : list slot) : nat := length (ps_keys tbl).
Definition tmem (k : nat) (tbl : list slot) : Prop := exists j, nth_error tbl j = Some (SKey k).
Definition mem (k : nat) (s : pyset) : Prop := tmem k (ps_table s).
Definition SI (s : pyset) : Prop := ps_used s = cnt (ps_table s).
Definition nokey (x : slot) : Prop := match x with SKey _ => False | _ => True end.

Lemma cnt_upd_key k : forall tbl j x, nth_error tbl j = Some x -> nokey x -> cnt (upd tbl j (fun _ => SKey k)) = S (cnt tbl).
Proof.
  unfold cnt. induction tbl as [|y r IH]; intros [|j] x H Hx; cbn in H; try discriminate.
  - inversion H; subst. destruct x; cbn in *; try reflexivity. destruct Hx.
  - cbn [upd]. destruct y; cbn [ps_keys length]; rewrite ?(IH _ _ H Hx); reflexivity.
Qed.
Lemma cnt_upd_dummy : forall tbl j k, nth_error tbl j = Some (SKey k) -> S (cnt (upd tbl j (fun _ => SDummy))) = cnt tbl.
Proof.
  unfold cnt. induction tbl as [|y r IH]; intros [|j] k H; cbn in H; try discriminate.
  - inversion H; subst. reflexivity.
  - cbn [upd]. destruct y; cbn [ps_keys length]; rewrite ?(IH _ _ H); reflexivity.
Qed.
Lemma tmem_upd_other k tbl j (f : slot -> slot) x : nth_error tbl j = Some x -> x <> SKey k -> tmem k tbl -> tmem k (upd tbl j f).
Proof.
  intros Hj Hx [i Hi]. exists i. destruct (Nat.eq_dec j i) as [->|Hne]; [congruence|]. now rewrite nth_upd_other.
Qed.
Lemma tmem_upd_same k tbl j x : nth_error tbl j = Some x -> tmem k (upd tbl j (fun _ => SKey k)).
Proof. intro H. exists j. now rewrite (nth_upd_same _ _ _ _ H). Qed.
Lemma cnt_repeat n : cnt (repeat SUnused n) = 0.
Proof. unfold cnt. induction n; cbn; auto. Qed.
Lemma tmem_repeat k n : ~ tmem k (repeat SUnused n).
Proof. intros [j Hj]. apply nth_error_In, repeat_spec in Hj. discriminate. Qed.
Lemma cnt_zero tbl : cnt tbl = 0 -> forall k, ~ tmem k tbl.
Proof.
  unfold cnt. induction tbl as [|y r IH]; intros H k [j Hj]; [destruct j; discriminate|].
  destruct j; cbn in Hj.
  - inversion Hj; subst. discriminate.
  - assert (H' : length (ps_keys r) = 0) by (destruct y; cbn in H; [exact H|exact H|discriminate]). exact (IH H' k (ex_intro _ j Hj)).
Qed.
Lemma nth_skipn {A} : forall n (l : list A) i, nth_error (skipn n l) i = nth_error l (n + i).
Proof. induction n; intros [|x r] i; cbn; auto. destruct i; reflexivity. Qed.
Lemma nth_firstn {A} : forall n (l : list A) i x, nth_error (firstn n l) i = Some x -> nth_error l i = Some x.
Proof. induction n; intros [|y r] [|i] x H; cbn in *; try discriminate; auto. Qed.

(* set_add_entry *)
Definition fsinv (tbl : list slot) (fs : option nat) : Prop := forall d, fs = Some d -> nth_error tbl d = Some SDummy.

Lemma add_scan_spec tbl key : forall cnt0 i fs, fsinv tbl fs ->
  match add_scan tbl key i cnt0 fs with
  | AActive => tmem key tbl
  | AUnused j fs' => nth_error tbl j = Some SUnused /\ fsinv tbl fs'
  | AMore fs' => fsinv tbl fs'
  end.
Proof.
  induction cnt0 as [|c IH]; intros i fs Hf; cbn [add_scan]; [exact Hf|].
  destruct (nth_error tbl i) as [[| |k]|] eqn:E; [split; assumption| | |exact Hf].
  - apply IH. intros d Hd. inversion Hd; subst. exact E.
  - destruct (k =? key) eqn:Ek; [apply Nat.eqb_eq in Ek; subst; exists i; exact E|apply IH; exact Hf].
Qed.

Lemma add_probe_spec tbl mask key : forall fuel i p fs w, fsinv tbl fs -> add_probe fuel tbl mask key i p fs = Ok w ->
  match w with
  | AddNothing => tmem key tbl
  | AddFresh j => nth_error tbl j = Some SUnused
  | AddReuse d => nth_error tbl d = Some SDummy
  end.
Proof.
  induction fuel as [|f IH]; intros i p fs w Hf E; [discriminate|]. cbn [add_probe] in E.
  pose proof (add_scan_spec tbl key (run_length i mask) i fs Hf) as S. destruct (add_scan tbl key i (run_length i mask) fs) as [j [d|]| |fs'].
  - inversion E; subst. destruct S as [_ S]. exact (S d eq_refl).
  - inversion E; subst. exact (proj1 S).
  - inversion E; subst. exact S.
  - exact (IH _ _ _ _ S E).
Qed.

Lemma clean_scan_spec tbl : forall c i j, clean_scan tbl i c = Some j -> nth_error tbl j = Some SUnused.
Proof.
  induction c as [|c IH]; intros i j E; [discriminate|]. cbn [clean_scan] in E.
  destruct (nth_error tbl i) as [[| |k]|] eqn:En; [inversion E; subst; exact En| | |discriminate]; exact (IH _ _ E).
Qed.
Lemma clean_probe_spec tbl mask : forall fuel i p j, clean_probe fuel tbl mask i p = Ok j -> nth_error tbl j = Some SUnused.
Proof.
  induction fuel as [|f IH]; intros i p j E; [discriminate|]. cbn [clean_probe] in E.
  destruct (clean_scan tbl i (run_length i mask)) as [j0|] eqn:Ec; [inversion E; subst; exact (clean_scan_spec _ _ _ _ Ec)|exact (IH _ _ _ E)].
Qed.
Lemma insert_clean_spec tbl mask key t : insert_clean tbl mask key = Ok t ->
  cnt t = S (cnt tbl) /\ tmem key t /\ forall k, tmem k tbl -> tmem k t.
Proof.
  unfold insert_clean. destruct (clean_probe _ _ _ _ _) as [j|] eqn:E; cbn [bind]; [|discriminate]. intro H; inversion H; subst.
  apply clean_probe_spec in E. split; [exact (cnt_upd_key key _ _ _ E I)|]. split; [exact (tmem_upd_same _ _ _ _ E)|].
  intros k Hk. apply (tmem_upd_other k _ _ _ _ E); [discriminate|exact Hk].
Qed.
Lemma reinsert_spec mask : forall old tbl t, reinsert old tbl mask = Ok t ->
  cnt t = cnt tbl + cnt old /\ forall k, tmem k tbl \/ tmem k old -> tmem k t.
Proof.
  induction old as [|x r IH]; intros tbl t E; cbn [reinsert] in E.
  - inversion E; subst. split; [unfold cnt; cbn; lia|]. intros k [H|[j Hj]]; [exact H|destruct j; discriminate].
  - assert (Skip : nokey x -> reinsert r tbl mask = Ok t -> cnt t = cnt tbl + cnt (x :: r) /\ forall k, tmem k tbl \/ tmem k (x :: r) -> tmem k t).
    { intros Hx E'. destruct (IH _ _ E') as [C M]. split; [rewrite C; unfold cnt; destruct x; cbn; try reflexivity; destruct Hx|].
      intros k [H|[j Hj]]; [apply M; now left|]. destruct j; cbn in Hj; [inversion Hj; subst; destruct Hx|apply M; right; exists j; exact Hj]. }
    destruct x as [| |k0]; [exact (Skip I E)|exact (Skip I E)|].
    destruct (insert_clean tbl mask k0) as [t1|] eqn:E1; cbn [bind] in E; [|discriminate].
    destruct (insert_clean_spec _ _ _ _ E1) as (C1 & M1 & K1). destruct (IH _ _ E) as [C M].
    split; [rewrite C, C1; unfold cnt; cbn; lia|]. intros k [H|[j Hj]]; [apply M; left; now apply K1|].
    destruct j; cbn in Hj; [inversion Hj; subst; apply M; now left|apply M; right; exists j; exact Hj].
Qed.

Lemma ps_add_spec s key s' : SI s -> ps_add s key = Ok s' -> SI s' /\ mem key s' /\ forall k, mem k s -> mem k s'.
Proof.
  unfold SI, mem. intros Hs. unfold ps_add.
  destruct (add_probe _ _ _ _ _ _ _) as [w|] eqn:E; cbn [bind]; [|discriminate].
  apply add_probe_spec in E; [|intros d Hd; discriminate]. destruct w as [|j|d].
  - intro H; inversion H; subst. auto.
  - set (s1 := {| ps_table := upd (ps_table s) j (fun _ => SKey key); ps_mask := ps_mask s; ps_fill := S (ps_fill s); ps_used := S (ps_used s); ps_finger := ps_finger s |}).
    assert (H1 : ps_used s1 = cnt (ps_table s1) /\ tmem key (ps_table s1) /\ forall k, tmem k (ps_table s) -> tmem k (ps_table s1)).
    { unfold s1. cbn [ps_used ps_table]. split; [rewrite (cnt_upd_key key _ _ _ E I); congruence|]. split; [exact (tmem_upd_same _ _ _ _ E)|].
      intros k Hk. apply (tmem_upd_other k _ _ _ _ E); [discriminate|exact Hk]. }
    destruct (_ <? _); [intro H; inversion H; subst; exact H1|].
    unfold table_resize. destruct (reinsert _ _ _) as [t|] eqn:Er; cbn [bind]; [|discriminate]. intro H; inversion H; subst. cbn [ps_used ps_table].
    destruct (reinsert_spec _ _ _ _ Er) as [C M]. destruct H1 as (A & B & K). rewrite cnt_repeat in C. cbn [plus] in C.
    split; [rewrite C; exact A|]. split; [apply M; now right|]. intros k Hk. apply M. right. now apply K.
  - intro H; inversion H; subst. cbn [ps_used ps_table]. split; [rewrite (cnt_upd_key key _ _ _ E I); congruence|]. split; [exact (tmem_upd_same _ _ _ _ E)|].
    intros k Hk. apply (tmem_upd_other k _ _ _ _ E); [discriminate|exact Hk].
Qed.

Lemma ps_add_all_spec : forall l s s', SI s -> ps_add_all s l = Ok s' -> SI s' /\ forall k, In k l \/ mem k s -> mem k s'.
Proof.
  induction l as [|x r IH]; intros s s' Hs E; cbn [ps_add_all] in E; [inversion E; subst; split; [exact Hs|intros k [[]|H]; exact H]|].
  destruct (ps_add s x) as [s1|] eqn:E1; cbn [bind] in E; [|discriminate].
  destruct (ps_add_spec _ _ _ Hs E1) as (S1 & M1 & K1). destruct (IH _ _ S1 E) as [S2 M2]. split; [exact S2|].
  intros k [[->|H]|H]; apply M2; [now right|now left|right; now apply K1].
Qed.

Lemma ps_of_list_spec l s : ps_of_list l = Ok s -> SI s /\ forall k, In k l -> mem k s.
Proof.
  intro E. destruct (ps_add_all_spec l ps_empty s) as [A B]; [unfold SI, ps_empty; cbn [ps_used ps_table]; now rewrite cnt_repeat|exact E|]. split; [exact A|]. intros k H. apply B. now left.
Qed.

Lemma ps_empty_spec s : SI s -> ps_nonempty s = false -> forall k, ~ mem k s.
Proof.
  unfold SI, ps_nonempty, mem. intros Hs H. apply negb_false_iff, Nat.eqb_eq in H. apply cnt_zero. congruence.
Qed.

Lemma look_scan_spec tbl key : forall c i j, look_scan tbl key i c = LFound j -> nth_error tbl j = Some (SKey key).
Proof.
  induction c as [|c IH]; intros i j E; [discriminate|]. cbn [look_scan] in E.
  destruct (nth_error tbl i) as [[| |k]|] eqn:En; try discriminate; [exact (IH _ _ E)|].
  destruct (k =? key) eqn:Ek; [apply Nat.eqb_eq in Ek; inversion E; subst; exact En|exact (IH _ _ E)].
Qed.
Lemma look_probe_spec tbl mask key : forall fuel i p j, look_probe fuel tbl mask key i p = Ok (Some j) -> nth_error tbl j = Some (SKey key).
Proof.
  induction fuel as [|f IH]; intros i p j E; [discriminate|]. cbn [look_probe] in E.
  destruct (look_scan tbl key i (run_length i mask)) as [|j0|] eqn:Es; [discriminate|inversion E; subst; exact (look_scan_spec _ _ _ _ _ Es)|exact (IH _ _ _ E)].
Qed.

Lemma remove_spec s j key s' : SI s -> nth_error (ps_table s) j = Some (SKey key) -> ps_table s' = upd (ps_table s) j (fun _ => SDummy) -> ps_used s' = ps_used s - 1 ->
  SI s' /\ forall k, k <> key -> mem k s -> mem k s'.
Proof.
  unfold SI, mem. intros Hs Hj Ht Hu. pose proof (cnt_upd_dummy _ _ _ Hj) as C. split; [rewrite Hu, Ht; lia|].
  intros k Hk Hm. rewrite Ht. apply (tmem_upd_other k _ _ _ _ Hj); [congruence|exact Hm].
Qed.

Lemma ps_discard_spec key s s' : SI s -> ps_discard key s = Ok s' -> SI s' /\ forall k, k <> key -> mem k s -> mem k s'.
Proof.
  intros Hs. unfold ps_discard. destruct (look_probe _ _ _ _ _ _) as [[j|]|] eqn:E; cbn [bind]; [| |discriminate]; intro H; inversion H; subst; [|auto].
  apply look_probe_spec in E. apply (remove_spec s j key _ Hs E); reflexivity.
Qed.

Lemma first_key_spec : forall tbl i j k, first_key_from tbl i = Some (j, k) -> i <= j /\ nth_error tbl (j - i) = Some (SKey k).
Proof.
  induction tbl as [|x r IH]; intros i j k E; [discriminate|]. cbn [first_key_from] in E.
  destruct x as [| |k0]; [| |inversion E; subst; rewrite Nat.sub_diag; split; [lia|reflexivity]];
    destruct (IH _ _ _ E) as [L H]; (split; [lia|]); replace (j - i) with (S (j - S i)) by lia; exact H.
Qed.

Lemma ps_pop_spec s k s' : SI s -> ps_pop s = Ok (k, s') -> SI s' /\ forall k', k' <> k -> mem k' s -> mem k' s'.
Proof.
  intros Hs. unfold ps_pop. destruct (_ =? _); [discriminate|].
  set (start := ps_finger s mod S (ps_mask s)).
  assert (X : forall j k0, match first_key_from (skipn start (ps_table s)) start with Some h => Some h | None => first_key_from (firstn start (ps_table s)) 0 end = Some (j, k0) ->
                nth_error (ps_table s) j = Some (SKey k0)).
  { intros j k0. destruct (first_key_from (skipn start (ps_table s)) start) as [[j1 k1]|] eqn:E1.
    - intro H; inversion H; subst. destruct (first_key_spec _ _ _ _ E1) as [L H1]. rewrite nth_skipn in H1. replace (start + (j - start)) with j in H1 by lia. exact H1.
    - intro E2. destruct (first_key_spec _ _ _ _ E2) as [_ H2]. rewrite Nat.sub_0_r in H2. exact (nth_firstn _ _ _ _ H2). }
  destruct (match first_key_from (skipn start (ps_table s)) start with Some h => Some h | None => _ end) as [[j k0]|] eqn:Eh; [|discriminate].
  intro H; inversion H; subst. apply (remove_spec s j k _ Hs (X _ _ eq_refl)); reflexivity.
Qed.

(* ====================================================================== *)
(* the matching                                                             *)
(* ====================================================================== *)
Definition gedge (g : graph) (i j : nat) : Prop := exists li, nth_error g i = Some li /\ In j li.
Definition MV (g : graph) (m : matching) : Prop :=
  length m = length g /\ forall i j, nth_error m i = Some (Some j) -> gedge g i j \/ gedge g j i.

Lemma get_spec {A} (l : list A) i x : get l i = Ok x -> nth_error l i = Some x.
Proof. unfold get. destruct (nth_error l i); [intro H; now inversion H|discriminate]. Qed.
Lemma set_at_spec {A} (l : list A) i x l' : set_at l i x = Ok l' -> l' = upd l i (fun _ => x) /\ i < length l.
Proof. unfold set_at. destruct (i <? length l) eqn:E; [intro H; inversion H; split; [reflexivity|now apply Nat.ltb_lt]|discriminate]. Qed.

Lemma nth_set {A} (l : list A) i x j : i < length l -> nth_error (upd l i (fun _ => x)) j = if Nat.eqb i j then Some x else nth_error l j.
Proof.
  intro H. destruct (Nat.eqb_spec i j) as [->|Hne]; [|now apply nth_upd_other].
  destruct (nth_error l j) as [y|] eqn:E; [exact (nth_upd_same _ _ _ _ E)|apply nth_error_None in E; lia].
Qed.

Lemma mv_set g m a b m' : MV g m -> gedge g a b \/ gedge g b a -> set_at m a (Some b) = Ok m' -> MV g m'.
Proof.
  intros [L H] He E. apply set_at_spec in E as [-> La]. split; [now rewrite upd_length|].
  intros i j Hn. rewrite nth_set in Hn by exact La. destruct (Nat.eqb_spec a i) as [->|Hne]; [inversion Hn; subst; exact He|exact (H i j Hn)].
Qed.

Lemma first_unmatched_in : forall nbrs m i, first_unmatched nbrs m = Ok i -> In i nbrs.
Proof.
  induction nbrs as [|x r IH]; intros m i E; cbn [first_unmatched] in E; [discriminate|].
  destruct (get m x) as [[y|]|]; cbn [bind] in E; [right; exact (IH _ _ E)|inversion E; now left|discriminate].
Qed.

Lemma greedy_loop_mv g : forall fuel m fd h m', MV g m -> greedy_loop fuel g m fd h = Ok m' -> MV g m'.
Proof.
  induction fuel as [|f IH]; intros m fd h m' Hm E; [discriminate|]. cbn [greedy_loop] in E.
  destruct (heappop h) as [[[d node] h1]|]; [|inversion E; subst; exact Hm].
  destruct (get m node) as [mn|]; cbn [bind] in E; [|discriminate]. destruct (get fd node) as [dn|]; cbn [bind] in E; [|discriminate].
  destruct mn; [exact (IH _ _ _ _ Hm E)|]. destruct (_ =? _)%Z; [exact (IH _ _ _ _ Hm E)|].
  destruct (get g node) as [gn|] eqn:Eg; cbn [bind] in E; [|discriminate]. apply get_spec in Eg.
  destruct (first_unmatched gn m) as [mate|] eqn:Ef; cbn [bind] in E; [|discriminate]. apply first_unmatched_in in Ef.
  assert (He : gedge g node mate) by (exists gn; auto).
  destruct (set_at m node _) as [m1|] eqn:E1; cbn [bind] in E; [|discriminate].
  destruct (set_at m1 mate _) as [m2|] eqn:E2; cbn [bind] in E; [|discriminate].
  destruct (get g mate); cbn [bind] in E; [|discriminate]. destruct (dec_free _ _ _ _) as [[fd' h2]|]; cbn [bind] in E; [|discriminate].
  apply (IH _ _ _ _ (mv_set _ _ _ _ _ (mv_set _ _ _ _ _ Hm (or_introl He) E1) (or_intror He) E2) E).
Qed.

Lemma nth_map_none {A B} (l : list A) i (y : B) : nth_error (map (fun _ => @None B) l) i <> Some (Some y).
Proof. revert i. induction l as [|x r IH]; intros [|i]; cbn; try discriminate. apply IH. Qed.

Lemma greedy_mv g m : greedy_matching g = Ok m -> MV g m.
Proof.
  unfold greedy_matching. apply greedy_loop_mv. split; [now rewrite map_length|]. intros i j H. exfalso. exact (nth_map_none _ _ _ H).
Qed.

(* ---------- augmenting paths ---------- *)
Definition PI (g : graph) (parents : parents_t) : Prop :=
  forall v p0 p1, nth_error parents v = Some (Some (Some p0, Some p1)) -> gedge g p0 p1.

Lemma pi_set g parents x node adj p' : PI g parents -> gedge g node adj -> set_at parents x (Some (Some node, Some adj)) = Ok p' -> PI g p'.
Proof.
  intros H He E. apply set_at_spec in E as [-> L]. intros v p0 p1 Hn. rewrite nth_set in Hn by exact L.
  destruct (Nat.eqb_spec x v) as [->|Hne]; [inversion Hn; subst; exact He|exact (H v p0 p1 Hn)].
Qed.

Lemma scan_adj_spec g node root m : forall adjs parents queue p' q' oe, (forall a, In a adjs -> gedge g node a) -> PI g parents ->
  scan_adj adjs node root m parents queue = Ok (p', q', oe) -> PI g p' /\ (forall x, oe = Some x -> x <> root).
Proof.
  induction adjs as [|adj r IH]; intros parents queue p' q' oe Ha Hp E; cbn [scan_adj] in E; [inversion E; subst; split; [exact Hp|discriminate]|].
  assert (Hr : forall a, In a r -> gedge g node a) by (intros; apply Ha; now right). pose proof (Ha adj (or_introl eq_refl)) as He.
  destruct (get m adj) as [[adj_mate|]|]; cbn [bind] in E; [| |discriminate].
  - destruct (get parents adj_mate) as [[pm|]|]; cbn [bind] in E; [exact (IH _ _ _ _ _ Hr Hp E)| |discriminate].
    destruct (set_at parents adj_mate _) as [p1|] eqn:Es; cbn [bind] in E; [|discriminate]. exact (IH _ _ _ _ _ Hr (pi_set _ _ _ _ _ _ Hp He Es) E).
  - destruct (adj =? root) eqn:Er; [exact (IH _ _ _ _ _ Hr Hp E)|].
    destruct (set_at parents adj _) as [p1|] eqn:Es; cbn [bind] in E; [|discriminate]. inversion E; subst.
    split; [exact (pi_set _ _ _ _ _ _ Hp He Es)|]. intros x Hx; inversion Hx; subst. now apply Nat.eqb_neq.
Qed.

Lemma bfs_spec g root m : forall fuel parents queue p' oe, PI g parents -> bfs fuel g root m parents queue = Ok (p', oe) ->
  PI g p' /\ (forall x, oe = Some x -> x <> root).
Proof.
  induction fuel as [|f IH]; intros parents queue p' oe Hp E; [discriminate|]. cbn [bfs] in E.
  destruct queue as [|node q]; [inversion E; subst; split; [exact Hp|discriminate]|].
  destruct (get g node) as [adjs|] eqn:Eg; cbn [bind] in E; [|discriminate]. apply get_spec in Eg.
  destruct (scan_adj adjs node root m parents q) as [[[p1 q1] oe1]|] eqn:Es; cbn [bind] in E; [|discriminate].
  destruct (scan_adj_spec g node root m adjs parents q p1 q1 oe1) as [P1 O1]; [intros a Ha; exists adjs; auto|exact Hp|exact Es|].
  destruct oe1; [inversion E; subst; auto|exact (IH _ _ _ _ P1 E)].
Qed.

Fixpoint pairs (g : graph) (l : list nat) : Prop :=
  match l with [] => True | [_] => False | a :: b :: r => gedge g b a /\ pairs g r end.
Fixpoint rpairs (g : graph) (l : list nat) : Prop :=
  match l with [] => True | [_] => False | p0 :: p1 :: r => gedge g p0 p1 /\ rpairs g r end.

Lemma pairs_app g : forall xs ys, pairs g xs -> pairs g ys -> pairs g (xs ++ ys).
Proof. fix IH 1. intros [|a [|b r]] ys Hx Hy; cbn in *; [exact Hy|destruct Hx|]. destruct Hx as [H1 H2]. split; [exact H1|]. apply IH; assumption. Qed.
Lemma rpairs_rev g : forall l, rpairs g l -> pairs g (rev l).
Proof.
  fix IH 1. intros [|p0 [|p1 r]] H; cbn [rpairs] in H; [exact I|destruct H|]. destruct H as [H1 H2].
  change (rev (p0 :: p1 :: r)) with ((rev r ++ [p1]) ++ [p0]). rewrite <- app_assoc. apply pairs_app; [exact (IH r H2)|]. cbn. auto.
Qed.

Lemma build_path_spec g parents root : PI g parents -> forall fuel node acc path, rpairs g acc -> (acc = [] \/ hd_error acc = Some node) ->
  build_path fuel parents root node acc = Ok path -> pairs g path /\ (In root path \/ (acc = [] /\ node = root)).
Proof.
  intros Hp. induction fuel as [|f IH]; intros node acc path Hr Hh E; [discriminate|]. cbn [build_path] in E.
  destruct (Nat.eqb_spec node root) as [->|Hne].
  - inversion E; subst. split; [exact (rpairs_rev _ _ Hr)|]. destruct Hh as [->|Hh]; [right; auto|left].
    apply in_rev. rewrite rev_involutive. destruct acc; inversion Hh; subst. now left.
  - destruct (get parents node) as [[[[p0|] [p1|]]|]|] eqn:Eg; cbn [bind] in E; try discriminate. apply get_spec in Eg.
    destruct (IH p0 (p0 :: p1 :: acc) path) as [A B]; [split; [exact (Hp _ _ _ Eg)|exact Hr]|right; reflexivity|exact E|].
    split; [exact A|]. destruct B as [B|[B _]]; [now left|discriminate].
Qed.

Lemma find_path_spec g root m path : find_augmenting_path g root m = Ok (Some path) -> pairs g path /\ In root path.
Proof.
  unfold find_augmenting_path. destruct (get m root) as [[x|]|]; cbn [bind]; try discriminate.
  destruct (set_at _ root _) as [parents1|] eqn:E1; cbn [bind]; [|discriminate].
  assert (P1 : PI g parents1).
  { apply set_at_spec in E1 as [-> L]. intros v p0 p1 Hn. rewrite nth_set in Hn by exact L. destruct (root =? v); [discriminate|].
    exfalso. exact (nth_map_none _ _ _ Hn). }
  destruct (bfs _ g root m parents1 [root]) as [[parents oe]|] eqn:Eb; cbn [bind]; [|discriminate].
  destruct (bfs_spec _ _ _ _ _ _ _ _ P1 Eb) as [P2 O2]. destruct oe as [other_end|]; [|discriminate].
  destruct (build_path _ parents root other_end []) as [p|] eqn:Ep; cbn [bind]; [|discriminate]. intro H; inversion H; subst.
  destruct (build_path_spec g parents root P2 _ other_end [] path I (or_introl eq_refl) Ep) as [A [B|[_ B]]]; [auto|]. exfalso. exact (O2 _ eq_refl B).
Qed.

Lemma flip_spec g : forall path m m', MV g m -> pairs g path -> flip_augmenting_path m path = Ok m' ->
  MV g m' /\ forall x, (In x path \/ exists y, nth_error m x = Some (Some y)) -> exists y, nth_error m' x = Some (Some y).
Proof.
  fix IH 1. intros [|a [|b r]] m m' Hm Hp E; cbn [flip_augmenting_path] in E; [inversion E; subst; split; [exact Hm|intros x [[]|H]; exact H]|discriminate|].
  cbn [pairs] in Hp. destruct Hp as [He Hp].
  destruct (set_at m a _) as [m1|] eqn:E1; cbn [bind] in E; [|discriminate].
  destruct (set_at m1 b _) as [m2|] eqn:E2; cbn [bind] in E; [|discriminate].
  pose proof (mv_set _ _ _ _ _ Hm (or_intror He) E1) as M1. pose proof (mv_set _ _ _ _ _ M1 (or_introl He) E2) as M2.
  destruct (IH r m2 m' M2 Hp E) as [M3 F3]. split; [exact M3|].
  apply set_at_spec in E1 as [-> L1]. apply set_at_spec in E2 as [-> L2].
  intros x Hx. apply F3.
  destruct (Nat.eq_dec x b) as [->|Hb]; [right; exists a; rewrite nth_set by exact L2; now rewrite Nat.eqb_refl|].
  destruct (Nat.eq_dec x a) as [->|Ha]; [right; exists b; rewrite nth_set by exact L2; destruct (Nat.eqb_spec b a); [congruence|]; rewrite nth_set by exact L1; now rewrite Nat.eqb_refl|].
  destruct Hx as [[Hx|[Hx|Hx]]|[y Hy]]; [congruence|congruence|now left|right; exists y].
  rewrite nth_set by exact L2. destruct (Nat.eqb_spec b x); [congruence|]. rewrite nth_set by exact L1. destruct (Nat.eqb_spec a x); [congruence|exact Hy].
Qed.

Definition AI (g : graph) (m : matching) (u : pyset) : Prop :=
  MV g m /\ SI u /\ forall i, nth_error m i = Some None -> mem i u.

Lemma augment_spec g : forall fuel m u mt, AI g m u -> augment_loop pyset ps_nonempty ps_pop ps_discard fuel g m u = Ok (Some mt) ->
  MV g mt /\ forall i, i < length mt -> exists j, nth_error mt i = Some (Some j).
Proof.
  induction fuel as [|f IH]; intros m u mt (Hm & Hs & Hu) E; [discriminate|]. cbn [augment_loop] in E.
  destruct (ps_nonempty u) eqn:En; cbn [negb] in E.
  - destruct (ps_pop u) as [[root u1]|] eqn:Epop; cbn [bind] in E; [|discriminate].
    destruct (find_augmenting_path g root m) as [[path|]|] eqn:Ef; cbn [bind] in E; try discriminate.
    destruct (flip_augmenting_path m path) as [m'|] eqn:Efl; cbn [bind] in E; [|discriminate].
    destruct (get path 0) as [p0|] eqn:E0; cbn [bind] in E; [|discriminate].
    destruct (get path (length path - 1)) as [pl|] eqn:El; cbn [bind] in E; [|discriminate].
    destruct (ps_discard p0 u1) as [u2|] eqn:Ed2; cbn [bind] in E; [|discriminate].
    destruct (ps_discard pl u2) as [u3|] eqn:Ed3; cbn [bind] in E; [|discriminate].
    destruct (find_path_spec _ _ _ _ Ef) as [Pp Pr]. destruct (flip_spec g path m m' Hm Pp Efl) as [M' F'].
    destruct (ps_pop_spec _ _ _ Hs Epop) as [S1 K1]. destruct (ps_discard_spec _ _ _ S1 Ed2) as [S2 K2]. destruct (ps_discard_spec _ _ _ S2 Ed3) as [S3 K3].
    apply (IH m' u3 mt); [|exact E]. split; [exact M'|]. split; [exact S3|]. intros i Hi.
    assert (Np : ~ In i path) by (intro Hin; destruct (F' i (or_introl Hin)) as [y Hy]; congruence).
    assert (Hmi : nth_error m i = Some None).
    { destruct (nth_error m i) as [[y|]|] eqn:Emi; [destruct (F' i (or_intror (ex_intro _ y Emi))) as [y' Hy']; congruence|reflexivity|].
      apply nth_error_None in Emi. assert (X : i < length m') by (apply nth_error_Some; congruence). destruct Hm as [Lm _], M' as [Lm' _]. lia. }
    apply get_spec, nth_error_In in E0, El.
    apply K3; [intros ->; contradiction|]. apply K2; [intros ->; contradiction|]. apply K1; [intros ->; contradiction|]. exact (Hu i Hmi).
  - inversion E; subst. split; [exact Hm|]. intros i Hi. destruct (nth_error mt i) as [[j|]|] eqn:Ei; [eauto| |apply nth_error_None in Ei; lia].
    exfalso. exact (ps_empty_spec _ Hs En i (Hu i Ei)).
Qed.

Lemma enum_from_in {A} : forall (l : list A) k i x, nth_error l i = Some x -> In (k + i, x) (enum_from k l).
Proof.
  induction l as [|y r IH]; intros k [|i] x H; cbn in H; try discriminate; cbn [enum_from].
  - inversion H; subst. rewrite Nat.add_0_r. now left.
  - right. replace (k + S i) with (S k + i) by lia. now apply IH.
Qed.
Lemma enum_from_nth {A} : forall (l : list A) k i x, In (i, x) (enum_from k l) -> k <= i /\ nth_error l (i - k) = Some x.
Proof.
  induction l as [|y r IH]; intros k i x H; cbn [enum_from] in H; [destruct H|]. destruct H as [H|H].
  - inversion H; subst. rewrite Nat.sub_diag. split; [lia|reflexivity].
  - destruct (IH _ _ _ H) as [L N]. split; [lia|]. replace (i - k) with (S (i - S k)) by lia. exact N.
Qed.

Theorem perfect_matching_valid g mt : find_perfect_matching g = Ok (Some mt) ->
  MV g mt /\ forall i, i < length mt -> exists j, nth_error mt i = Some (Some j).
Proof.
  unfold find_perfect_matching, find_perfect_matching_with.
  destruct (greedy_matching g) as [m0|] eqn:Eg; cbn [bind]; [|discriminate].
  destruct (ps_of_list (unmatched_nodes m0)) as [u|] eqn:Eu; cbn [bind]; [|discriminate].
  apply augment_spec. destruct (ps_of_list_spec _ _ Eu) as [Su Mu]. split; [exact (greedy_mv _ _ Eg)|]. split; [exact Su|].
  intros i Hi. apply Mu. unfold unmatched_nodes. apply in_map_iff. exists (i, None). split; [reflexivity|].
  apply filter_In. split; [exact (enum_from_in m0 0 i None Hi)|reflexivity].
Qed.

(* ====================================================================== *)
(* writing the matching back                                                *)
(* ====================================================================== *)
Lemma label_spec : forall n v label sorted a l, nth_error (label_table n v label sorted) a = Some (Some l) ->
  exists k, l = label + k /\ nth_error sorted k = Some (v + a).
Proof.
  induction n as [|n IH]; intros v label sorted a l H; cbn [label_table] in H; [destruct a; discriminate|].
  destruct sorted as [|x r].
  - destruct a as [|a]; cbn in H; [discriminate|]. destruct (IH _ _ _ _ _ H) as (k & _ & Hk). destruct k; discriminate.
  - destruct (Nat.eqb_spec x v) as [->|Hne].
    + destruct a as [|a]; cbn in H.
      * inversion H; subst. exists 0. split; [lia|]. cbn. f_equal. lia.
      * destruct (IH _ _ _ _ _ H) as (k & Hl & Hk). exists (S k). split; [lia|]. cbn. rewrite Hk. f_equal. lia.
    + destruct a as [|a]; cbn in H; [discriminate|]. destruct (IH _ _ _ _ _ H) as (k & Hl & Hk). exists k. split; [exact Hl|]. rewrite Hk. f_equal. lia.
Qed.

Lemma relabel_spec labels : forall adjs j, In j (relabel labels adjs) -> exists a, In a adjs /\ nth_error labels a = Some (Some j).
Proof.
  induction adjs as [|a r IH]; intros j H; cbn [relabel] in H; [destruct H|].
  destruct (nth_error labels a) as [[l|]|] eqn:E.
  - destruct H as [->|H]; [exists a; split; [now left|exact E]|]. destruct (IH _ H) as (a' & Ha & Hl). exists a'. split; [now right|exact Hl].
  - destruct (IH _ H) as (a' & Ha & Hl). exists a'. split; [now right|exact Hl].
  - destruct (IH _ H) as (a' & Ha & Hl). exists a'. split; [now right|exact Hl].
Qed.

Lemma pruned_spec m labels : forall sorted g, pruned_ds_of m labels sorted = Ok g ->
  length g = length sorted /\ forall i li, nth_error g i = Some li ->
    exists node adjs, nth_error sorted i = Some node /\ ds_lookup (m_ds m) node = Some adjs /\ li = relabel labels adjs.
Proof.
  induction sorted as [|x r IH]; intros g E; cbn [pruned_ds_of] in E.
  - inversion E; subst. split; [reflexivity|]. intros [|i] li H; discriminate.
  - destruct (ds_lookup (m_ds m) x) as [adjs|] eqn:El; [|discriminate].
    destruct (pruned_ds_of m labels r) as [rest|] eqn:Er; cbn [bind] in E; [|discriminate]. inversion E; subst.
    destruct (IH _ eq_refl) as [L H]. split; [cbn; now rewrite L|]. intros [|i] li Hn; cbn in Hn; [inversion Hn; subst; exists x, adjs; auto|exact (H i li Hn)].
Qed.

Lemma gedge_link m sorted g : K2 m (m_ds m) -> pruned_ds_of m (label_table (mg_len m) 0 0 sorted) sorted = Ok g ->
  forall i j, gedge g i j -> exists ni nj, nth_error sorted i = Some ni /\ nth_error sorted j = Some nj /\ linkE m ni nj.
Proof.
  intros H2 E i j He. destruct He as (li & Hn & Hj). destruct (pruned_spec _ _ _ _ E) as [_ P]. destruct (P i li Hn) as (node & adjs & Hs & Hl & ->).
  apply relabel_spec in Hj as (a & Ha & Hlab). apply label_spec in Hlab as (k & Hk & Hs'). cbn in Hk, Hs'. subst k.
  exists node, a. split; [exact Hs|]. split; [exact Hs'|]. exact (H2 node adjs a Hl Ha).
Qed.

Lemma double_bonds_ok l2n : forall prs m1, UOK m1 ->
  (forall i oj, In (i, oj) prs -> exists j ni nj, oj = Some j /\ nth_error l2n i = Some ni /\ nth_error l2n j = Some nj /\ linkE m1 ni nj) ->
  exists m2, set_double_bonds m1 l2n prs = Ok m2.
Proof.
  induction prs as [|[i oj] r IH]; intros m1 Hu H; cbn [set_double_bonds]; [eauto|].
  destruct (H i oj (or_introl eq_refl)) as (j & ni & nj & -> & Hi & Hj & Hl).
  unfold lget. rewrite Hi, Hj. cbn [bind].
  destruct (update_ok m1 ni nj 4 Hu Hl ltac:(lia)) as (m2 & E2 & U2 & G2 & _). rewrite E2. cbn [bind].
  apply (IH m2 U2). intros i0 oj0 Hin. destruct (H i0 oj0 (or_intror Hin)) as (j0 & a & b & A & B & C & D).
  exists j0, a, b. split; [exact A|]. split; [exact B|]. split; [exact C|exact (linkE_grows _ _ _ _ _ G2 D)].
Qed.

Theorem kekulize_fails_only_inside_matching m e : KPre m -> kekulize m = Err e -> exists g, pruned_ds m = Ok g /\ find_perfect_matching g = Err e.
Proof.
  intros Hp Ek. destruct (kekulize_fails_only_in_matching m e Hp Ek) as (g & Eg & [Em|(mt & kept & m1 & Em & Ekept & E1 & E2)]); [eauto|]. exfalso.
  destruct (kekulize_prefix m Hp) as (_ & _ & _ & m1' & E1' & U1 & G1 & _). rewrite E1 in E1'. inversion E1'; subst m1'.
  unfold pruned_ds in Eg. rewrite Ekept in Eg. cbn [bind] in Eg.
  destruct (perfect_matching_valid _ _ Em) as [[Lm Hm] Hperf]. destruct (pruned_spec _ _ _ _ Eg) as [Lg _].
  destruct (double_bonds_ok (sort_nat kept) (enum_from 0 mt) m1 U1) as [m2 E2']; [|congruence].
  intros i oj Hin. apply enum_from_nth in Hin as [_ Hn]. rewrite Nat.sub_0_r in Hn.
  destruct (Hperf i) as [j Hj]; [apply nth_error_Some; congruence|]. rewrite Hj in Hn. inversion Hn; subst oj.
  assert (X : exists ni nj, nth_error (sort_nat kept) i = Some ni /\ nth_error (sort_nat kept) j = Some nj /\ linkE m ni nj).
  { destruct (Hm i j Hj) as [He|He]; [exact (gedge_link m _ g (proj2 (kp_dsk _ Hp)) Eg i j He)|].
    destruct (gedge_link m _ g (proj2 (kp_dsk _ Hp)) Eg j i He) as (a & b & A & B & C). exists b, a. split; [exact B|]. split; [exact A|exact (linkE_sym _ _ _ C)]. }
  destruct X as (ni & nj & A & B & C). exists j, ni, nj. split; [reflexivity|]. split; [exact A|]. split; [exact B|exact (linkE_grows _ _ _ _ _ G1 C)].
Qed.
