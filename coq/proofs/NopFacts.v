(* NopFacts.v — C13: [nop] symbols are invisible to the decoder. *)
From Coq Require Import Ascii String List Arith ZArith NArith Bool Lia.
Import ListNotations.
From Selfies Require Import Base Lex Atoms Grammar Compat Decoder BaseFacts WfSpec LexFacts.

(* a fragment: items without dots *)
Definition dotfree (fr : list item) : Prop := Forall (fun i => snd i = false) fr.
Definition wfd (fr : list item) : Prop := wf fr /\ dotfree fr.

Definition not_nop (t : str) : bool := negb (str_eqb t nop_sym).

Lemma tokens_dotfree fr : dotfree fr -> tokens fr = symbols fr.
Proof.
  induction fr as [|[b d] fr IH]; intro H; [reflexivity|]. inversion H; subst. cbn in H2. subst d.
  change (tokens ((b, false) :: fr)) with (tokens_item (b, false) ++ tokens fr).
  rewrite IH by assumption. reflexivity.
Qed.

(* no dot inside the rendering of a dot-free well-formed fragment *)
Lemma no_dot_in_render fr : wfd fr -> ~ In c_dot (render fr).
Proof.
  intros [Hw Hd]. induction fr as [|[b d] fr IH]; [intros []|].
  inversion Hw as [|? ? Hi Hw']; subst. inversion Hd as [|? ? Hb Hd']; subst. cbn in Hb. subst d.
  change (render ((b, false) :: fr)) with (render_item (b, false) ++ render fr).
  rewrite in_app_iff. intros [H|H]; [|now apply IH].
  unfold render_item, sym_of in H. cbn [fst snd] in H. rewrite app_nil_r in H.
  destruct H as [H|H]; [unfold c_dot in H; discriminate|].
  apply in_app_iff in H as [H|[H|[]]]; [|unfold c_dot in H; discriminate].
  unfold wf_item in Hi. cbn [fst] in Hi. rewrite forallb_forall in Hi. specialize (Hi _ H).
  apply body_char_spec in Hi as (_ & _ & Hi). apply Hi. reflexivity.
Qed.

Lemma split_char_aux_nodot : forall s cur, ~ In c_dot s ->
  split_char_aux c_dot s cur = [rev cur ++ s].
Proof.
  induction s as [|x s IH]; intros cur H; cbn [split_char_aux]; [now rewrite app_nil_r|].
  destruct (N.eqb_spec x c_dot) as [->|Hx]; [exfalso; apply H; now left|].
  rewrite IH by (intro; apply H; now right). cbn [rev]. now rewrite <- app_assoc.
Qed.

Lemma split_char_aux_app : forall s r cur, ~ In c_dot s ->
  split_char_aux c_dot (s ++ c_dot :: r) cur = (rev cur ++ s) :: split_char_aux c_dot r [].
Proof.
  induction s as [|x s IH]; intros r cur H; cbn [app split_char_aux].
  - rewrite N.eqb_refl, app_nil_r. reflexivity.
  - destruct (N.eqb_spec x c_dot) as [->|Hx]; [exfalso; apply H; now left|].
    rewrite IH by (intro; apply H; now right). cbn [rev]. now rewrite <- app_assoc.
Qed.

Lemma split_join : forall ss : list str, ss <> [] -> Forall (fun s => ~ In c_dot s) ss ->
  split_char c_dot (join [c_dot] ss) = ss.
Proof.
  unfold split_char. induction ss as [|s ss IH]; intros Hne H; [congruence|].
  inversion H; subst. destruct ss as [|s2 ss'].
  - cbn [join]. now rewrite split_char_aux_nodot.
  - change (join [c_dot] (s :: s2 :: ss')) with (s ++ [c_dot] ++ join [c_dot] (s2 :: ss')).
    cbn [app]. rewrite split_char_aux_app by assumption. cbn [rev app]. f_equal.
    apply IH; [discriminate|assumption].
Qed.

(* what the decoder sees of one fragment depends only on its symbols without [nop] *)
Lemma tokenize_fragment fr compat : wfd fr ->
  tokenize_selfies (render fr) compat =
  let ts := filter not_nop (symbols fr) in if compat then modernize_all ts None else (ts, None).
Proof.
  intros [Hw Hd]. unfold tokenize_selfies. rewrite split_wf by exact Hw.
  rewrite tokens_dotfree by exact Hd. reflexivity.
Qed.

Definition render_frags (frs : list (list item)) : str := join [c_dot] (map render frs).

Lemma tokenize_all_frags frs compat : frs <> [] -> Forall wfd frs ->
  tokenize_all (render_frags frs) compat =
  map (fun fr => let ts := filter not_nop (symbols fr) in
                 if compat then modernize_all ts None else (ts, None)) frs.
Proof.
  intros Hne H. unfold tokenize_all, render_frags. rewrite split_join.
  - rewrite map_map. apply map_ext_in. intros fr Hin. apply tokenize_fragment.
    rewrite Forall_forall in H. now apply H.
  - destruct frs; [congruence|discriminate].
  - apply Forall_forall. intros s Hs. apply in_map_iff in Hs as (fr & <- & Hin).
    apply no_dot_in_render. rewrite Forall_forall in H. now apply H.
Qed.

Theorem nop_invisible : forall T compat attribute frs frs',
  frs <> [] -> Forall wfd frs -> Forall wfd frs' ->
  map (fun fr => filter not_nop (symbols fr)) frs = map (fun fr => filter not_nop (symbols fr)) frs' ->
  decoder T (render_frags frs) compat attribute = decoder T (render_frags frs') compat attribute.
Proof.
  intros T compat attribute frs frs' Hne H H' E.
  assert (Hne' : frs' <> []).
  { intro; subst frs'. destruct frs; [congruence|discriminate]. }
  unfold decoder, decoder_c, decode_graph_c.
  rewrite (tokenize_all_frags frs compat Hne H), (tokenize_all_frags frs' compat Hne' H').
  replace (map (fun fr => let ts := filter not_nop (symbols fr) in
                          if compat then modernize_all ts None else (ts, None)) frs')
    with (map (fun fr => let ts := filter not_nop (symbols fr) in
                          if compat then modernize_all ts None else (ts, None)) frs); [reflexivity|].
  rewrite <- (map_map (fun fr => filter not_nop (symbols fr))
                      (fun ts => if compat then modernize_all ts None else (ts, None))).
  rewrite E, map_map. reflexivity.
Qed.

(* inserting one [nop] item anywhere in a fragment does not change the filtered symbols *)
Definition nop_item : item := (lit "nop", false).
Lemma insert_nop_same a b :
  filter not_nop (symbols (a ++ nop_item :: b)) = filter not_nop (symbols (a ++ b)).
Proof.
  unfold symbols. rewrite !map_app, !filter_app. f_equal.
Qed.

Corollary nop_insertion_invisible : forall T compat attribute pre a b post,
  Forall wfd (pre ++ (a ++ b) :: post) ->
  decoder T (render_frags (pre ++ (a ++ nop_item :: b) :: post)) compat attribute
  = decoder T (render_frags (pre ++ (a ++ b) :: post)) compat attribute.
Proof.
  intros T compat attribute pre a b post H. apply nop_invisible.
  - destruct pre; discriminate.
  - apply Forall_app in H as [Hp Hq]. inversion Hq as [|? ? [Hw Hd] Hpost]; subst.
    apply Forall_app. split; [exact Hp|]. constructor; [|exact Hpost].
    apply Forall_app in Hw as [Hwa Hwb]. apply Forall_app in Hd as [Hda Hdb].
    split; apply Forall_app; split; try assumption; constructor; try assumption; reflexivity.
  - exact H.
  - rewrite !map_app. cbn [map]. now rewrite insert_nop_same.
Qed.

Example nop_example :
  render_frags [[(lit "C", false); nop_item; (lit "Branch1", false); nop_item; (lit "C", false)]; [nop_item]; [(lit "N", false)]]
  = lit "[C][nop][Branch1][nop][C].[nop].[N]".
Proof. reflexivity. Qed.
