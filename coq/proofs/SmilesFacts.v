(* SmilesFacts.v — the early-exit character class tests of Smiles.v agree with
   the plain table scans of Atoms.v (the generated tables are sorted). *)
From Coq Require Import List NArith Bool Lia.
Import ListNotations.
From Selfies Require Import Base Generated Atoms Decoder Smiles.

(* every range is well-formed and strictly below the next one *)
Fixpoint sorted_ranges (rs : list (N * N)) : bool :=
  match rs with
  | [] => true
  | (lo, hi) :: r =>
      (lo <=? hi)%N && match r with
                       | [] => true
                       | (lo', _) :: _ => (hi <? lo')%N
                       end && sorted_ranges r
  end.

Lemma in_ranges_below c rs :
  sorted_ranges rs = true ->
  (match rs with [] => True | (lo, _) :: _ => (c < lo)%N end) ->
  in_ranges c rs = false.
Proof.
  revert c. induction rs as [|[lo hi] r IH]; intros c Hs Hc; cbn; [reflexivity|].
  cbn in Hs. apply andb_prop in Hs as [Hs Hr]. apply andb_prop in Hs as [Hlh Hnext].
  apply N.leb_le in Hlh.
  assert (E : (lo <=? c)%N = false) by (apply N.leb_gt; exact Hc).
  rewrite E. cbn. apply IH; [exact Hr|].
  destruct r as [|[lo' hi'] r']; [exact I|].
  apply N.ltb_lt in Hnext. lia.
Qed.

Lemma in_sorted_ranges_eq c rs :
  sorted_ranges rs = true -> in_sorted_ranges c rs = in_ranges c rs.
Proof.
  induction rs as [|[lo hi] r IH]; intros Hs; cbn; [reflexivity|].
  pose proof Hs as Hs0.
  cbn in Hs. apply andb_prop in Hs as [Hs Hr]. apply andb_prop in Hs as [Hlh Hnext].
  destruct (c <? lo)%N eqn:E1.
  - apply N.ltb_lt in E1. symmetry.
    change (in_ranges c ((lo, hi) :: r) = false).
    apply in_ranges_below; [exact Hs0|exact E1].
  - apply N.ltb_ge in E1. assert (E : (lo <=? c)%N = true) by (apply N.leb_le; exact E1).
    rewrite E. cbn. destruct (c <=? hi)%N; cbn; [reflexivity|]. apply IH. exact Hr.
Qed.

Lemma isalpha_ranges_sorted : sorted_ranges isalpha_ranges = true.
Proof. vm_compute. reflexivity. Qed.
Lemma isdigit_ranges_sorted : sorted_ranges isdigit_ranges = true.
Proof. vm_compute. reflexivity. Qed.
Lemma isnumeric_ranges_sorted : sorted_ranges isnumeric_ranges = true.
Proof. vm_compute. reflexivity. Qed.

Theorem isalpha_s_eq c : isalpha_s c = isalpha c.
Proof. apply in_sorted_ranges_eq, isalpha_ranges_sorted. Qed.
Theorem isdigit_s_eq c : isdigit_s c = isdigit c.
Proof. apply in_sorted_ranges_eq, isdigit_ranges_sorted. Qed.
Theorem isnumeric_s_eq c : isnumeric_s c = isnumeric c.
Proof. apply in_sorted_ranges_eq, isnumeric_ranges_sorted. Qed.
