(* EncUniq.v — C09, last stage: no two edges of one adjacency row lead to the same atom (a chain bond leads to a fresh atom;
   a ring closure is refused between atoms that are already bonded), and the two directions of a ring bond always carry
   the same order: so the assertion of _ring_bonds_to_selfies never fires. *)
From Coq Require Import Ascii String List Arith ZArith NArith Bool Lia.
Import ListNotations.
From Selfies Require Import Base Generated Lex Atoms Grammar Decoder Smiles PySet Matching Kekulize Encoder BaseFacts ConfigFacts DecoderInv
  ParserTotal EncHyp EncShape EncTokens EncRows EncAttr EncStereo EncFuel EncIndex EncKey EncAttrErr EncArom.
Local Open Scope nat_scope.

(* ---------- at most one edge per destination in a row ---------- *)
Definition U (m : emol) : Prop := forall j row p q e1 e2, nth_error (m_adj m) j = Some row ->
  nth_error row p = Some (Some e1) -> nth_error row q = Some (Some e2) -> e_dst e1 = e_dst e2 -> p = q.

Definition fresh_dst (m : emol) (s d : nat) : Prop := forall row e, nth_error (m_adj m) s = Some row -> In (Some e) row -> e_dst e <> d.

Lemma u_other m m' s f : row_change m m' s f -> forall j, j <> s -> nth_error (m_adj m') j = nth_error (m_adj m) j.
Proof. intros H j Hne. rewrite H, nth_error_upd. destruct (Nat.eqb_spec s j); [congruence|reflexivity]. Qed.
Lemma u_this m m' s f row : row_change m m' s f -> nth_error (m_adj m) s = Some row -> nth_error (m_adj m') s = Some (f row).
Proof. intros H Hr. rewrite H, nth_error_upd, Nat.eqb_refl, Hr. reflexivity. Qed.
Lemma u_this_inv m m' s f row' : row_change m m' s f -> nth_error (m_adj m') s = Some row' -> exists row, nth_error (m_adj m) s = Some row /\ row' = f row.
Proof. intros H Hr. rewrite H, nth_error_upd, Nat.eqb_refl in Hr. destruct (nth_error (m_adj m) s) as [r0|]; [|discriminate]. cbn in Hr. inversion Hr; eauto. Qed.

Lemma u_append m m' s b : row_change m m' s (fun l => l ++ [Some b]) -> U m -> fresh_dst m s (e_dst b) -> U m'.
Proof.
  intros Hc Hu Hf j row' p q e1 e2 Hn H1 H2 Hd. destruct (Nat.eq_dec j s) as [->|Hne]; [|rewrite (u_other _ _ _ _ Hc j Hne) in Hn; exact (Hu _ _ _ _ _ _ Hn H1 H2 Hd)].
  destruct (u_this_inv _ _ _ _ _ Hc Hn) as (row & Hr & ->). rewrite nth_app_some in H1, H2.
  destruct (Nat.ltb_spec p (length row)) as [Lp|Gp], (Nat.ltb_spec q (length row)) as [Lq|Gq].
  - exact (Hu _ _ _ _ _ _ Hr H1 H2 Hd).
  - destruct (Nat.eqb_spec q (length row)); [|discriminate]. inversion H2; subst e2. exfalso. exact (Hf row e1 Hr (nth_error_In _ _ H1) Hd).
  - destruct (Nat.eqb_spec p (length row)); [|discriminate]. inversion H1; subst e1. exfalso. exact (Hf row e2 Hr (nth_error_In _ _ H2) (eq_sym Hd)).
  - destruct (Nat.eqb_spec p (length row)), (Nat.eqb_spec q (length row)); try discriminate. lia.
Qed.

Lemma u_fill m m' s q0 b : row_change m m' s (fun l => upd l q0 (fun _ => Some b)) -> U m -> fresh_dst m s (e_dst b) -> U m'.
Proof.
  intros Hc Hu Hf j row' p q e1 e2 Hn H1 H2 Hd. destruct (Nat.eq_dec j s) as [->|Hne]; [|rewrite (u_other _ _ _ _ Hc j Hne) in Hn; exact (Hu _ _ _ _ _ _ Hn H1 H2 Hd)].
  destruct (u_this_inv _ _ _ _ _ Hc Hn) as (row & Hr & ->). rewrite nth_error_upd in H1, H2.
  destruct (Nat.eqb_spec q0 p) as [Ep|Np], (Nat.eqb_spec q0 q) as [Eq|Nq].
  - congruence.
  - destruct (nth_error row p); [|discriminate]. cbn in H1. inversion H1; subst e1. exfalso. exact (Hf row e2 Hr (nth_error_In _ _ H2) (eq_sym Hd)).
  - destruct (nth_error row q); [|discriminate]. cbn in H2. inversion H2; subst e2. exfalso. exact (Hf row e1 Hr (nth_error_In _ _ H1) Hd).
  - exact (Hu _ _ _ _ _ _ Hr H1 H2 Hd).
Qed.

Lemma u_append_none m m' s : row_change m m' s (fun l => l ++ [None]) -> U m -> U m'.
Proof.
  intros Hc Hu j row' p q e1 e2 Hn H1 H2 Hd. destruct (Nat.eq_dec j s) as [->|Hne]; [|rewrite (u_other _ _ _ _ Hc j Hne) in Hn; exact (Hu _ _ _ _ _ _ Hn H1 H2 Hd)].
  destruct (u_this_inv _ _ _ _ _ Hc Hn) as (row & Hr & ->). rewrite nth_app_some in H1, H2.
  destruct (Nat.ltb_spec p (length row)) as [Lp|Gp]; [|destruct (p =? length row); discriminate].
  destruct (Nat.ltb_spec q (length row)) as [Lq|Gq]; [|destruct (q =? length row); discriminate].
  exact (Hu _ _ _ _ _ _ Hr H1 H2 Hd).
Qed.

Lemma u_same m m' : m_adj m' = m_adj m -> U m -> U m'.
Proof. unfold U. intros ->. auto. Qed.

Lemma u_set_edge m i d o : U m -> U (set_adj m (upd (m_adj m) i (fun l => set_edge_order2 l d o))).
Proof.
  intros Hu j row' p q e1 e2 Hn H1 H2 Hd. cbn [set_adj m_adj] in Hn. rewrite nth_error_upd in Hn. destruct (Nat.eqb_spec i j) as [<-|Hne]; [|exact (Hu _ _ _ _ _ _ Hn H1 H2 Hd)].
  destruct (nth_error (m_adj m) i) as [r0|] eqn:E0; [|discriminate]. cbn in Hn. inversion Hn; subst row'. unfold set_edge_order2 in H1, H2. rewrite nth_error_map in H1, H2.
  destruct (nth_error r0 p) as [[x1|]|] eqn:P1; cbn in H1; try discriminate. destruct (nth_error r0 q) as [[x2|]|] eqn:P2; cbn in H2; try discriminate.
  apply (Hu i r0 p q x1 x2 E0 P1 P2). destruct (_ =? _) in H1; destruct (_ =? _) in H2; inversion H1; inversion H2; subst; exact Hd.
Qed.

(* ---------- opposite edges carry the same order ---------- *)
Definition EQ (m : emol) : Prop := forall a b ra rb ea eb, nth_error (m_adj m) a = Some ra -> In (Some ea) ra -> e_dst ea = b ->
  nth_error (m_adj m) b = Some rb -> In (Some eb) rb -> e_dst eb = a -> e_order2 ea = e_order2 eb.

Lemma find_edge_none l d : find_edge l d = None -> forall e, In (Some e) l -> e_dst e <> d.
Proof.
  induction l as [|[x|] r IH]; cbn [find_edge]; intros H e Hin; [destruct Hin| |].
  - destruct (e_dst x =? d) eqn:Eq; [discriminate|]. destruct Hin as [Hi|Hi]; [inversion Hi; subst; now apply Nat.eqb_neq|exact (IH H e Hi)].
  - destruct Hin as [Hi|Hi]; [discriminate|exact (IH H e Hi)].
Qed.

(* no bond yet between two atoms, in either direction *)
Lemma unbonded m a b : RowP m -> RS m -> a <> b -> mg_has_bond m a b = false -> fresh_dst m a b /\ fresh_dst m b a.
Proof.
  intros Hrow Hrs Hab Hb. unfold mg_has_bond, mg_find_dirbond in Hb.
  assert (Core : forall x y, x < y -> (match nth_error (m_adj m) x with Some l => find_edge l y | None => None end) = None -> fresh_dst m x y /\ fresh_dst m y x).
  { intros x y Hxy Hf. assert (F1 : fresh_dst m x y).
    { intros row e Hn Hin. rewrite Hn in Hf. exact (find_edge_none _ _ Hf e Hin). }
    split; [exact F1|]. intros row e Hn Hin Hd. destruct (Hrow _ _ _ Hn Hin) as [Hs Hfw].
    destruct (e_ring e) eqn:Er; [|specialize (Hfw eq_refl); lia].
    destruct (Hrs y x) as (row2 & e2 & Hn2 & Hin2 & Hd2 & _); [exists row, e; auto|]. exact (F1 row2 e2 Hn2 Hin2 Hd2). }
  destruct (Nat.lt_ge_cases a b) as [L|G].
  - rewrite Nat.min_l, Nat.max_r in Hb by lia. apply (Core a b L). destruct (nth_error (m_adj m) a) as [l|]; [destruct (find_edge l b); [discriminate|reflexivity]|reflexivity].
  - rewrite Nat.min_r, Nat.max_l in Hb by lia. assert (L : b < a) by lia. destruct (Core b a L) as [X Y]; [|tauto].
    destruct (nth_error (m_adj m) b) as [l|]; [destruct (find_edge l a); [discriminate|reflexivity]|reflexivity].
Qed.

(* ---------- one bond added to one row ---------- *)
Lemma at_loc_rows m b pos m' : mg_add_bond_at_loc m b pos = Ok m' ->
  exists out out', nth_error (m_adj m) (e_src b) = Some out /\ m_adj m' = upd (m_adj m) (e_src b) (fun _ => out') /\
                   forall e, In (Some e) out' <-> e = b \/ In (Some e) out.
Proof.
  unfold mg_add_bond_at_loc. destruct (lget (m_adj m) (e_src b)) as [out|] eqn:El; cbn [bind]; [|discriminate].
  destruct (add_bond_at_loc out pos b) as [out'|] eqn:Ea; cbn [bind]; [|discriminate]. intro E; inversion E; subst.
  exists out, out'. split; [exact (lget_In _ _ _ El)|]. split; [reflexivity|]. intro e. exact (add_loc_iff _ _ _ _ e Ea).
Qed.

Lemma eq_at_loc m b pos m' : mg_add_bond_at_loc m b pos = Ok m' -> EQ m -> e_src b <> e_dst b ->
  (forall rb eb, nth_error (m_adj m) (e_dst b) = Some rb -> In (Some eb) rb -> e_dst eb = e_src b -> e_order2 eb = e_order2 b) -> EQ m'.
Proof.
  intros E He Hne Hop. destruct (at_loc_rows _ _ _ _ E) as (out & out' & Ho & Hadj & Hin).
  assert (Row : forall j row, nth_error (m_adj m') j = Some row -> (j = e_src b /\ row = out') \/ (j <> e_src b /\ nth_error (m_adj m) j = Some row)).
  { intros j row Hn. rewrite Hadj, nth_error_upd in Hn. destruct (Nat.eqb_spec (e_src b) j) as [<-|H]; [left; rewrite Ho in Hn; cbn in Hn; inversion Hn; auto|right; auto]. }
  intros a b' ra rb ea eb Ha Hia Hda Hb Hib Hdb.
  (* ea is the new bond or an old edge; likewise eb *)
  assert (Ca : (a = e_src b /\ ea = b) \/ exists ra0, nth_error (m_adj m) a = Some ra0 /\ In (Some ea) ra0).
  { destruct (Row _ _ Ha) as [[-> ->]|[H1 H2]]; [apply Hin in Hia as [->|H]; [now left|right; eauto]|right; eauto]. }
  assert (Cb : (b' = e_src b /\ eb = b) \/ exists rb0, nth_error (m_adj m) b' = Some rb0 /\ In (Some eb) rb0).
  { destruct (Row _ _ Hb) as [[-> ->]|[H1 H2]]; [apply Hin in Hib as [->|H]; [now left|right; eauto]|right; eauto]. }
  destruct Ca as [[-> ->]|(ra0 & Ha0 & Hia0)], Cb as [[-> ->]|(rb0 & Hb0 & Hib0)].
  - congruence.
  - subst b'. symmetry. exact (Hop rb0 eb Hb0 Hib0 Hdb).
  - subst a. exact (Hop ra0 ea Ha0 Hia0 Hda).
  - exact (He a b' ra0 rb0 ea eb Ha0 Hia0 Hda Hb0 Hib0 Hdb).
Qed.

Lemma eq_same m m' : m_adj m' = m_adj m -> EQ m -> EQ m'.
Proof. unfold EQ. intros ->. auto. Qed.

Lemma fresh_same m m' s d : m_adj m' = m_adj m -> fresh_dst m s d -> fresh_dst m' s d.
Proof. unfold fresh_dst. intros ->. auto. Qed.

Lemma ue_add_bond m src dst o2 st at_ m' : U m -> EQ m -> src <> dst -> fresh_dst m src dst -> fresh_dst m dst src ->
  mg_add_bond m src dst o2 st at_ = Ok m' -> U m' /\ EQ m'.
Proof.
  intros Hu He Hne F1 F2. unfold mg_add_bond. destruct (negb _); [discriminate|].
  destruct (mg_add_bond_at_loc _ _ _) as [m1|] eqn:E1; cbn [bind]; [|discriminate].
  destruct (mg_add_count2 m1 _ _) as [m2|] eqn:E2; cbn [bind]; [|discriminate].
  destruct (mg_add_count2 m2 _ _) as [m3|] eqn:E3; cbn [bind]; [|discriminate].
  pose proof (at_loc_none_change _ _ _ E1) as C1. cbn [e_src] in C1.
  assert (U1 : U m1) by (apply (u_append _ _ _ _ C1 Hu); exact F1).
  assert (Q1 : EQ m1).
  { apply (eq_at_loc _ _ _ _ E1 He); cbn [e_src e_dst e_order2]; [exact Hne|]. intros rb eb Hn Hin Hd. exfalso. exact (F2 rb eb Hn Hin Hd). }
  apply add_count_adj in E2, E3. assert (A3 : m_adj m3 = m_adj m1) by congruence.
  destruct (_ =? _)%Z; intro E; inversion E; subst; (split; [exact (u_same _ _ A3 U1)|exact (eq_same _ _ A3 Q1)]).
Qed.

Lemma ue_attach m tok a prev i m' idx i' : EdgeP (inb (mg_len m)) m -> length (m_adj m) = mg_len m -> prev_in (mg_len m) prev -> U m -> EQ m ->
  attach_atom m tok a prev i = Ok (m', idx, i') -> U m' /\ EQ m'.
Proof.
  intros Hin Hlen Hp Hu He. unfold attach_atom. destruct (mg_add_atom m a _) as [m1 ix] eqn:Ea.
  assert (A1 : U m1 /\ EQ m1 /\ ix = mg_len m /\ m_adj m1 = m_adj m ++ [[]]).
  { unfold mg_add_atom in Ea. inversion Ea; subst. cbn [m_adj]. split; [|split; [|auto]].
    - intros j row p q e1 e2 Hn H1 H2 Hd. cbn [m_adj] in Hn. destruct (Nat.lt_ge_cases j (length (m_adj m))) as [Lt|G].
      + rewrite nth_error_app1 in Hn by exact Lt. exact (Hu _ _ _ _ _ _ Hn H1 H2 Hd).
      + rewrite nth_error_app2 in Hn by exact G. destruct (j - length (m_adj m)) as [|k]; cbn in Hn; [inversion Hn; subst; destruct p; discriminate|destruct k; discriminate].
    - intros x y ra rb ea eb Ha Hia Hda Hb Hib Hdb. cbn [m_adj] in Ha, Hb.
      assert (Old : forall j row e, nth_error (m_adj m ++ [[]]) j = Some row -> In (Some e) row -> nth_error (m_adj m) j = Some row).
      { intros j row e Hn Hi. destruct (Nat.lt_ge_cases j (length (m_adj m))) as [Lt|G]; [now rewrite nth_error_app1 in Hn|].
        rewrite nth_error_app2 in Hn by exact G. destruct (j - length (m_adj m)) as [|k]; cbn in Hn; [inversion Hn; subst; destruct Hi|destruct k; discriminate]. }
      exact (He x y ra rb ea eb (Old _ _ _ Ha Hia) Hia Hda (Old _ _ _ Hb Hib) Hib Hdb). }
  destruct A1 as (U1 & Q1 & Eix & Adj1). subst ix.
  destruct (mg_add_attr_atom m1 (mg_len m) _) as [m2|] eqn:E2; cbn [bind]; [|discriminate].
  apply add_attr_adj in E2. pose proof (u_same _ _ E2 U1) as U2. pose proof (eq_same _ _ E2 Q1) as Q2.
  destruct prev as [src|]; [|intro E; inversion E; subst; auto].
  destruct (smiles_to_bond2 (t_bond tok)) as [o2 st]. destruct (mg_get_atom m2 src); cbn [bind]; [|discriminate].
  destruct (mg_add_bond m2 _ _ _ _ _) as [m3|] eqn:E3; cbn [bind]; [|discriminate].
  intro E; inversion E; subst. cbn [prev_in] in Hp. apply (ue_add_bond m2 src (mg_len m) _ _ _ _ U2 Q2 ltac:(lia)) in E3; [exact E3| |].
  - intros row e Hn Hi. rewrite E2, Adj1 in Hn. rewrite nth_error_app1 in Hn by lia. pose proof (proj1 (Hin _ _ _ Hn Hi)). lia.
  - intros row e Hn Hi. rewrite E2, Adj1 in Hn. rewrite nth_error_app2 in Hn by lia. rewrite Hlen, Nat.sub_diag in Hn. cbn in Hn. inversion Hn; subst. destruct Hi.
Qed.

Lemma ue_make_ring m lt la lp rt ra m' : RowP m -> RS m -> U m -> EQ m -> slot_none m la lp ->
  make_ring_bonds m lt la lp rt ra = Ok m' -> U m' /\ EQ m'.
Proof.
  intros Hrow Hrs Hu He Hs. unfold make_ring_bonds. destruct (Nat.eqb_spec la ra) as [|Hne]; [discriminate|]. destruct (mg_has_bond m la ra) eqn:Hb; [discriminate|].
  destruct (unbonded m la ra Hrow Hrs Hne Hb) as [F1 F2].
  match goal with |- (let '(b0, b1) := ?X in _) = _ -> _ => destruct X as [b0 b1] end.
  destruct (negb _); [discriminate|].
  destruct (smiles_to_bond2 (t_bond lt)) as [lo ls]. destruct (smiles_to_bond2 (t_bond rt)) as [ro rs].
  destruct (mg_get_atom m la); cbn [bind]; [|discriminate]. destruct (mg_get_atom m ra); cbn [bind]; [|discriminate].
  match goal with |- (let '(x, y) := ?X in _) = _ -> _ => destruct X as [lo' ro'] end.
  unfold mg_add_ring_bond. set (oo := Z.max lo' ro').
  destruct (mg_add_bond_at_loc m _ (Some lp)) as [m1|] eqn:E1; cbn [bind]; [|discriminate].
  destruct (mg_add_bond_at_loc m1 _ None) as [m2|] eqn:E2; cbn [bind]; [|discriminate].
  destruct (mg_add_count2 m2 _ _) as [m3|] eqn:E3; cbn [bind]; [|discriminate].
  destruct (mg_add_count2 m3 _ _) as [m4|] eqn:E4; cbn [bind]; [|discriminate].
  destruct (lupd (m_ringflags m4) _ _) as [f1|]; cbn [bind]; [|discriminate].
  destruct (lupd f1 _ _) as [f2|]; cbn [bind]; [|discriminate].
  pose proof (fun H => at_loc_fill_change _ _ _ _ H E1) as C1. pose proof (at_loc_none_change _ _ _ E2) as C2. cbn [e_src] in C1, C2. specialize (C1 Hs).
  assert (U1 : U m1) by (apply (u_fill _ _ _ _ _ C1 Hu); exact F1).
  assert (Q1 : EQ m1).
  { apply (eq_at_loc _ _ _ _ E1 He); cbn [e_src e_dst e_order2]; [exact Hne|]. intros rb eb Hn Hin Hd. exfalso. exact (F2 rb eb Hn Hin Hd). }
  (* row ra is untouched by the first insertion; row la now holds the new bond and nothing else towards ra *)
  destruct (at_loc_rows _ _ _ _ E1) as (out & out' & Ho & Hadj & Hin1). cbn [e_src] in Ho, Hadj.
  assert (F2' : fresh_dst m1 ra la).
  { intros row e Hn Hi. rewrite Hadj, nth_error_upd in Hn. destruct (Nat.eqb_spec la ra); [congruence|]. exact (F2 row e Hn Hi). }
  assert (U2 : U m2) by (apply (u_append _ _ _ _ C2 U1); exact F2').
  assert (Q2 : EQ m2).
  { apply (eq_at_loc _ _ _ _ E2 Q1); cbn [e_src e_dst e_order2]; [congruence|]. intros rb eb Hn Hi Hd.
    rewrite Hadj, nth_error_upd, Nat.eqb_refl, Ho in Hn. cbn in Hn. inversion Hn; subst rb. apply Hin1 in Hi as [->|Hi]; [reflexivity|exfalso; exact (F1 out eb Ho Hi Hd)]. }
  apply add_count_adj in E3, E4. assert (A4 : m_adj m4 = m_adj m2) by congruence.
  destruct (_ =? _)%Z; intro E; inversion E; subst; (split; [exact (u_same _ _ A4 U2)|exact (eq_same _ _ A4 Q2)]).
Qed.

(* ---------- the reader ---------- *)
(* the loop processes a token other than '.' and goes on with the rest *)
Lemma derive_loop_cons tok r st : t_type tok <> TDot ->
  derive_loop (tok :: r) st = (do p <- derive_loop [tok] st; derive_loop r (fst p)).
Proof.
  intro Ht. cbn [derive_loop]. destruct (p_prev st) as [|prev below]; [reflexivity|].
  destruct (t_type tok); [| | |congruence].
  - destruct (smiles_to_atom (t_text tok)) as [[a|]|]; cbn [bind]; try reflexivity.
    destruct (attach_atom _ _ _ _ _) as [[[m' idx] i']|]; cbn [bind fst]; reflexivity.
  - destruct (p_chain_start st); [reflexivity|]. destruct (str_eqb _ _); [reflexivity|]. destruct (p_branch st); reflexivity.
  - destruct (p_chain_start st); [reflexivity|]. destruct (ring_log_find _ _) as [[[ltok latom] lpos]|].
    + destruct (atom_index prev); cbn [bind]; [|reflexivity]. destruct (make_ring_bonds _ _ _ _ _ _); cbn [bind fst]; reflexivity.
    + destruct (atom_index prev); cbn [bind]; [|reflexivity]. destruct (mg_add_placeholder_bond _ _) as [[m' lpos]|]; cbn [bind fst]; reflexivity.
Qed.

Record Big (st : pstate) : Prop := {
  b_p : PInv st; b_l : LInv st; b_rs : RS (p_mol st); b_row : RowP (p_mol st);
  b_len : length (m_adj (p_mol st)) = mg_len (p_mol st);
  b_u : U (p_mol st); b_eq : EQ (p_mol st)
}.

Lemma adj_len_step : forall ts st st' rest, length (m_adj (p_mol st)) = mg_len (p_mol st) -> derive_loop ts st = Ok (st', rest) ->
  length (m_adj (p_mol st')) = mg_len (p_mol st').
Proof.
  induction ts as [|tok r IH]; intros st st' rest Hl E; cbn [derive_loop] in E; [inversion E; subst; exact Hl|].
  destruct (p_prev st) as [|prev below]; [discriminate|].
  assert (Keep : forall m', m_atoms m' = m_atoms (p_mol st) -> length (m_adj m') = length (m_adj (p_mol st)) -> length (m_adj m') = mg_len m') by (intros m' H1 H2; unfold mg_len in *; congruence).
  destruct (t_type tok).
  - destruct (smiles_to_atom (t_text tok)) as [[a|]|]; cbn [bind] in E; try discriminate.
    destruct (attach_atom _ _ _ _ _) as [[[m' idx] i']|] eqn:Eat; cbn [bind] in E; [|discriminate]. apply IH in E; [exact E|]. cbn [p_mol].
    revert Eat. unfold attach_atom. destruct (mg_add_atom (p_mol st) a _) as [m1 ix] eqn:Ea.
    assert (L1 : length (m_adj m1) = mg_len m1) by (unfold mg_add_atom in Ea; inversion Ea; subst; unfold mg_len in *; cbn [m_adj m_atoms]; rewrite !app_length; cbn [length]; lia).
    destruct (mg_add_attr_atom m1 ix _) as [m2|] eqn:E2; cbn [bind]; [|discriminate].
    assert (L2 : length (m_adj m2) = mg_len m2).
    { pose proof (add_attr_adj _ _ _ _ E2) as A2. pose proof (add_attr_atoms _ _ _ _ E2) as At2. unfold mg_len, atoms_of in *. apply (f_equal (@length atom)) in At2. rewrite !map_length in At2. congruence. }
    destruct prev as [src|]; [|intro E0; inversion E0; subst; exact L2].
    destruct (smiles_to_bond2 (t_bond tok)) as [o2 stv]. destruct (mg_get_atom m2 src); cbn [bind]; [|discriminate].
    destruct (mg_add_bond m2 _ _ _ _ _) as [m3|] eqn:E3; cbn [bind]; [|discriminate]. intro E0; inversion E0; subst.
    pose proof (add_bond_atoms _ _ _ _ _ _ _ E3) as A3. unfold mg_len in *. rewrite A3, <- L2.
    revert E3. unfold mg_add_bond. destruct (negb _); [discriminate|].
    destruct (mg_add_bond_at_loc m2 _ None) as [x1|] eqn:X1; cbn [bind]; [|discriminate].
    destruct (mg_add_count2 x1 _ _) as [x2|] eqn:X2; cbn [bind]; [|discriminate].
    destruct (mg_add_count2 x2 _ _) as [x3|] eqn:X3; cbn [bind]; [|discriminate].
    pose proof (at_loc_none_change _ _ _ X1) as C1. apply add_count_adj in X2, X3.
    assert (L : length (m_adj x3) = length (m_adj m2)) by (rewrite X3, X2, C1; apply upd_length).
    destruct (_ =? _)%Z; intro E3; inversion E3; subst; exact L.
  - destruct (p_chain_start st); [discriminate|].
    destruct (str_eqb _ _); [apply IH in E; [exact E|exact Hl]|]. destruct (p_branch st); [discriminate|]. apply IH in E; [exact E|exact Hl].
  - destruct (p_chain_start st); [discriminate|].
    destruct (ring_log_find _ _) as [[[ltok latom] lpos]|].
    + destruct (atom_index prev) as [ratom|]; cbn [bind] in E; [|discriminate].
      destruct (make_ring_bonds _ _ _ _ _ _) as [m'|] eqn:Er; cbn [bind] in E; [|discriminate].
      apply IH in E; [exact E|]. cbn [p_mol]. apply Keep; [exact (make_ring_atoms _ _ _ _ _ _ _ Er)|].
      revert Er. unfold make_ring_bonds. destruct (_ =? _); [discriminate|]. destruct (mg_has_bond _ _ _); [discriminate|].
      match goal with |- (let '(b0, b1) := ?X in _) = _ -> _ => destruct X as [b0 b1] end.
      destruct (negb _); [discriminate|].
      destruct (smiles_to_bond2 (t_bond ltok)) as [lo ls]. destruct (smiles_to_bond2 (t_bond tok)) as [ro rs].
      destruct (mg_get_atom _ latom); cbn [bind]; [|discriminate]. destruct (mg_get_atom _ ratom); cbn [bind]; [|discriminate].
      match goal with |- (let '(x, y) := ?X in _) = _ -> _ => destruct X as [lo' ro'] end.
      unfold mg_add_ring_bond.
      destruct (mg_add_bond_at_loc _ _ (Some lpos)) as [m1|] eqn:E1; cbn [bind]; [|discriminate].
      destruct (mg_add_bond_at_loc m1 _ None) as [m2|] eqn:E2; cbn [bind]; [|discriminate].
      destruct (mg_add_count2 m2 _ _) as [m3|] eqn:E3; cbn [bind]; [|discriminate].
      destruct (mg_add_count2 m3 _ _) as [m4|] eqn:E4; cbn [bind]; [|discriminate].
      destruct (lupd (m_ringflags m4) _ _) as [f1|]; cbn [bind]; [|discriminate].
      destruct (lupd f1 _ _) as [f2|]; cbn [bind]; [|discriminate].
      destruct (at_loc_rows _ _ _ _ E1) as (o1 & o1' & _ & A1 & _). destruct (at_loc_rows _ _ _ _ E2) as (o2 & o2' & _ & A2 & _). apply add_count_adj in E3, E4.
      assert (L : length (m_adj m4) = length (m_adj (p_mol st))) by (rewrite E4, E3, A2, upd_length, A1, upd_length; reflexivity).
      destruct (_ =? _)%Z; intro E0; inversion E0; subst; exact L.
    + destruct (atom_index prev) as [src|]; cbn [bind] in E; [|discriminate].
      destruct (mg_add_placeholder_bond _ _) as [[m' lpos]|] eqn:Epl; cbn [bind] in E; [|discriminate].
      apply IH in E; [exact E|]. cbn [p_mol]. apply Keep; [exact (placeholder_atoms _ _ _ _ Epl)|].
      unfold mg_add_placeholder_bond in Epl. destruct (lget _ _); cbn [bind] in Epl; [|discriminate]. inversion Epl; subst. cbn [set_adj m_adj]. apply upd_length.
  - inversion E; subst. exact Hl.
Qed.

Lemma step_ue tok st st1 r1 : Big st -> derive_loop [tok] st = Ok (st1, r1) -> U (p_mol st1) /\ EQ (p_mol st1).
Proof.
  intros [[He Hr Hp Hl] [LA LB LC] Hrs Hrow Hlen Hu Hq] E. cbn [derive_loop] in E.
  destruct (p_prev st) as [|prev below]; [discriminate|]. inversion Hp as [|? ? Hp0 Hpb]; subst.
  destruct (t_type tok).
  - destruct (smiles_to_atom (t_text tok)) as [[a|]|]; cbn [bind] in E; try discriminate.
    destruct (attach_atom _ _ _ _ _) as [[[m' idx] i']|] eqn:Eat; cbn [bind] in E; [|discriminate]. inversion E; subst. cbn [p_mol].
    exact (ue_attach _ _ _ _ _ _ _ _ He Hlen Hp0 Hu Hq Eat).
  - destruct (p_chain_start st); [discriminate|].
    destruct (str_eqb _ _); [inversion E; subst; auto|]. destruct (p_branch st); [discriminate|]. inversion E; subst; auto.
  - destruct (p_chain_start st); [discriminate|].
    destruct (ring_log_find _ _) as [[[ltok latom] lpos]|] eqn:Ef.
    + destruct (atom_index prev) as [ratom|]; cbn [bind] in E; [|discriminate].
      destruct (make_ring_bonds _ _ _ _ _ _) as [m'|] eqn:Er; cbn [bind] in E; [|discriminate]. inversion E; subst. cbn [p_mol].
      exact (ue_make_ring _ _ _ _ _ _ _ Hrow Hrs Hu Hq (LB _ _ (find_in_log _ _ _ _ _ Ef)) Er).
    + destruct (atom_index prev) as [src|]; cbn [bind] in E; [|discriminate].
      destruct (mg_add_placeholder_bond _ _) as [[m' lpos]|] eqn:Epl; cbn [bind] in E; [|discriminate]. inversion E; subst. cbn [p_mol].
      unfold mg_add_placeholder_bond in Epl. destruct (lget _ _); cbn [bind] in Epl; [|discriminate]. inversion Epl; subst.
      assert (Ch : row_change (p_mol st) (set_adj (p_mol st) (upd (m_adj (p_mol st)) src (fun l => l ++ [None]))) src (fun l => l ++ [None])) by reflexivity.
      split; [exact (u_append_none _ _ _ Ch Hu)|].
      intros xa xb ra rb ea eb Ha Hia Hda Hb Hib Hdb. cbn [set_adj m_adj] in Ha, Hb.
      assert (Old : forall j row e, nth_error (upd (m_adj (p_mol st)) src (fun l => l ++ [None])) j = Some row -> In (Some e) row ->
                exists row0, nth_error (m_adj (p_mol st)) j = Some row0 /\ In (Some e) row0).
      { intros j row e Hn Hi. rewrite nth_error_upd in Hn. destruct (Nat.eqb_spec src j) as [<-|Hne]; [|eauto].
        destruct (nth_error (m_adj (p_mol st)) src) as [r0|]; [|discriminate]. cbn in Hn. inversion Hn; subst. apply in_app_iff in Hi as [Hi|[Hi|[]]]; [eauto|discriminate]. }
      destruct (Old _ _ _ Ha Hia) as (ra0 & Ha0 & Hia0). destruct (Old _ _ _ Hb Hib) as (rb0 & Hb0 & Hib0).
      exact (Hq xa xb ra0 rb0 ea eb Ha0 Hia0 Hda Hb0 Hib0 Hdb).
  - inversion E; subst. auto.
Qed.

Lemma derive_loop_ue : forall ts st st' rest, Big st -> derive_loop ts st = Ok (st', rest) -> U (p_mol st') /\ EQ (p_mol st').
Proof.
  induction ts as [|tok r IH]; intros st st' rest HB E; [cbn in E; inversion E; subst; destruct HB; auto|].
  destruct (t_type tok) eqn:Ety.
  1-3: rewrite derive_loop_cons in E by congruence;
       destruct (derive_loop [tok] st) as [[st1 r1]|] eqn:E1; cbn [bind fst] in E; [|discriminate];
       apply (IH st1 st' rest); [|exact E];
       destruct (step_ue _ _ _ _ HB E1) as [U1 Q1]; destruct HB as [HP HL HRS HROW HLEN HU HQ];
       constructor; [exact (derive_loop_pinv _ _ _ _ HP E1)|exact (derive_loop_linv _ _ _ _ HL E1)|exact (derive_loop_rs _ _ _ _ HRS E1)|
                     exact (proj1 (derive_loop_row _ _ _ _ HROW E1))|exact (adj_len_step _ _ _ _ HLEN E1)|exact U1|exact Q1].
  cbn [derive_loop] in E. destruct (p_prev st); [discriminate|]. rewrite Ety in E. inversion E; subst. cbn [p_mol]. destruct HB; auto.
Qed.

Definition GUE (m : emol) : Prop :=
  EdgeP (inb (mg_len m)) m /\ Forall (fun r => r < mg_len m) (m_roots m) /\ NoNone m /\ RS m /\ RowP m /\ length (m_adj m) = mg_len m /\ U m /\ EQ m.

Lemma fragments_gue : forall fuel m ts i m', GUE m -> fragments_loop fuel m ts i = Ok m' -> GUE m'.
Proof.
  induction fuel as [|f IH]; intros m ts i m' HG E; [discriminate|]. cbn [fragments_loop] in E.
  destruct ts as [|t r]; [inversion E; subst; exact HG|].
  destruct (derive_mol_from_tokens m (t :: r) i) as [[[m1 i1] rest]|] eqn:Ed; cbn [bind] in E; [|discriminate].
  apply IH in E; [exact E|]. unfold derive_mol_from_tokens in Ed.
  destruct (derive_loop (t :: r) _) as [[st rest']|] eqn:El; cbn [bind] in Ed; [|discriminate].
  destruct HG as (He & Hr & Hnn & Hrs & Hrow & Hlen & Hu & Hq).
  assert (HB : Big {| p_mol := m; p_i := i; p_tok := None; p_prev := [None]; p_branch := []; p_rings := []; p_chain_start := true |}).
  { constructor; cbn [p_mol p_prev p_rings]; try assumption.
    - constructor; cbn [p_mol p_prev p_rings]; [exact He|exact Hr|constructor; [exact I|constructor]|constructor].
    - constructor; cbn [p_mol p_rings map]; [intros j p Hs; exact (Hnn j p Hs)|intros j p []|constructor]. }
  destruct (derive_loop_ue _ _ _ _ HB El) as [U1 Q1]. destruct HB as [HP HL _ _ _ _ _].
  pose proof (derive_loop_pinv _ _ _ _ HP El) as [A B _ _]. pose proof (derive_loop_linv _ _ _ _ HL El) as [LA _ _].
  pose proof (fun H => derive_loop_rs _ _ _ _ H El) as RS1. pose proof (fun H => proj1 (derive_loop_row _ _ _ _ H El)) as ROW1. pose proof (fun H => adj_len_step _ _ _ _ H El) as LEN1.
  cbn [p_mol] in RS1, ROW1, LEN1. specialize (RS1 Hrs). specialize (ROW1 Hrow). specialize (LEN1 Hlen).
  cbn [p_mol] in *.
  destruct (_ =? _); [discriminate|]. destruct (p_branch st); [|discriminate]. destruct (p_rings st) eqn:Er; [|discriminate].
  inversion Ed; subst. unfold GUE. split; [exact A|]. split; [exact B|]. split; [intros j0 p0 Hs; exact (LA j0 p0 Hs)|].
  split; [exact RS1|]. split; [exact ROW1|]. split; [exact LEN1|]. split; [exact U1|exact Q1].
Qed.

Theorem parsed_gue smiles attributable m : smiles_to_mol smiles attributable = Ok m -> GUE m.
Proof.
  unfold smiles_to_mol. destruct smiles as [|c s]; [discriminate|].
  destruct (tokenize_smiles (c :: s)) as [ts|]; cbn [bind]; [|discriminate].
  apply fragments_gue. unfold GUE, mg_empty, mg_len. cbn [m_adj m_atoms m_roots length].
  split; [intros j0 row e Hn; destruct j0; discriminate|]. split; [constructor|].
  split; [intros j0 p0 (row & Hn & _); destruct j0; discriminate|].
  split; [intros j0 d (row & e & Hn & _); destruct j0; discriminate|].
  split; [intros j0 row e Hn; destruct j0; discriminate|]. split; [reflexivity|].
  split; [intros j0 row p0 q0 e1 e2 Hn; destruct j0; discriminate|intros a0 b0 ra rb ea eb Ha; destruct a0; discriminate].
Qed.

(* ---------- kekulize keeps both ---------- *)
Lemma find_edge_dst l d e : find_edge l d = Some e -> e_dst e = d.
Proof.
  induction l as [|[x|] r IH]; cbn [find_edge]; [discriminate| |exact IH].
  destruct (e_dst x =? d) eqn:Eq; [intro H; inversion H; subst; now apply Nat.eqb_eq|exact IH].
Qed.

Lemma set_edge_desc l d o e' : In (Some e') (set_edge_order2 l d o) ->
  exists e0, In (Some e0) l /\ e_dst e' = e_dst e0 /\ e_order2 e' = (if e_dst e0 =? d then o else e_order2 e0).
Proof.
  unfold set_edge_order2. intro H. apply in_map_iff in H as ([x|] & Hx & Hin); [|discriminate].
  exists x. split; [exact Hin|]. destruct (e_dst x =? d); inversion Hx; subst; auto.
Qed.

Lemma upd_set_desc m i d o j row' e' : nth_error (upd (m_adj m) i (fun l => set_edge_order2 l d o)) j = Some row' -> In (Some e') row' ->
  exists row0 e0, nth_error (m_adj m) j = Some row0 /\ In (Some e0) row0 /\ e_dst e' = e_dst e0 /\
                  e_order2 e' = (if (i =? j) && (e_dst e0 =? d) then o else e_order2 e0).
Proof.
  intros Hn Hin. rewrite nth_error_upd in Hn. destruct (Nat.eqb_spec i j) as [<-|Hne]; cbn [andb].
  - destruct (nth_error (m_adj m) i) as [r0|] eqn:E0; [|discriminate]. cbn in Hn. inversion Hn; subst row'.
    destruct (set_edge_desc _ _ _ _ Hin) as (e0 & H0 & H1 & H2). exists r0, e0. auto.
  - exists row', e'. auto.
Qed.

Lemma In_pos {A} (l : list A) x : In x l -> exists p, nth_error l p = Some x. Proof. apply In_nth_error. Qed.

Lemma update_order_ue m a0 b0 o m' : RowP m -> RS m -> U m -> EQ m -> mg_update_bond_order m a0 b0 o = Ok m' -> U m' /\ EQ m'.
Proof.
  intros Hrow Hrs Hu Hq. unfold mg_update_bond_order. destruct (negb _); [discriminate|].
  set (a := Nat.min a0 b0). set (b := Nat.max a0 b0).
  destruct (mg_get_dirbond m a b) as [ab|] eqn:Eab; cbn [bind]; [|discriminate].
  destruct (_ =? _)%Z; [intro E; inversion E; subst; auto|].
  unfold mg_get_dirbond, mg_find_dirbond in Eab. destruct (nth_error (m_adj m) a) as [rowa|] eqn:Era; [|discriminate].
  destruct (find_edge rowa b) as [x|] eqn:Ef; [|discriminate]. inversion Eab; subst x.
  pose proof (find_edge_In _ _ _ Ef) as Hab_in. pose proof (find_edge_dst _ _ _ Ef) as Hab_d.
  match goal with |- (do adj1 <- ?X; _) = _ -> _ => destruct X as [adj1|] eqn:Ead end; cbn [bind]; [|discriminate].
  assert (Main : U (set_adj m adj1) /\ EQ (set_adj m adj1)).
  { destruct (e_ring ab) eqn:Ering.
    - destruct (mg_get_dirbond m b a); cbn [bind] in Ead; [|discriminate]. inversion Ead; subst adj1; clear Ead.
      set (mm := set_adj m (upd (m_adj m) a (fun l => set_edge_order2 l b o))).
      split; [exact (u_set_edge mm b a o (u_set_edge m a b o Hu))|].
      intros x y ra rb ea eb Ha Hia Hda Hb Hib Hdb. cbn [set_adj m_adj] in Ha, Hb.
      assert (D : forall j row' e', nth_error (upd (upd (m_adj m) a (fun l => set_edge_order2 l b o)) b (fun l => set_edge_order2 l a o)) j = Some row' -> In (Some e') row' ->
                exists row0 e0, nth_error (m_adj m) j = Some row0 /\ In (Some e0) row0 /\ e_dst e' = e_dst e0 /\
                  e_order2 e' = (if ((b =? j) && (e_dst e0 =? a)) || ((a =? j) && (e_dst e0 =? b)) then o else e_order2 e0)).
      { intros j row' e' Hn Hi. destruct (upd_set_desc mm b a o j row' e' Hn Hi) as (r1 & e1 & Hn1 & Hi1 & Hd1 & Ho1). cbn [mm set_adj m_adj] in Hn1.
        destruct (upd_set_desc m a b o j r1 e1 Hn1 Hi1) as (r0 & e0 & Hn0 & Hi0 & Hd0 & Ho0). exists r0, e0. split; [exact Hn0|]. split; [exact Hi0|]. split; [congruence|].
        rewrite Ho1, Ho0, Hd0. destruct ((b =? j) && (e_dst e0 =? a)); cbn [orb]; [reflexivity|]. reflexivity. }
      destruct (D _ _ _ Ha Hia) as (ra0 & ea0 & Hna & Hina & Hdea & Hoa). destruct (D _ _ _ Hb Hib) as (rb0 & eb0 & Hnb & Hinb & Hdeb & Hob).
      pose proof (Hq x y ra0 rb0 ea0 eb0 Hna Hina ltac:(congruence) Hnb Hinb ltac:(congruence)) as Heq.
      rewrite Hoa, Hob. rewrite <- Hdea, <- Hdeb, Hda, Hdb.
      destruct (Nat.eqb_spec b x), (Nat.eqb_spec y a), (Nat.eqb_spec a x), (Nat.eqb_spec y b), (Nat.eqb_spec b y), (Nat.eqb_spec x a), (Nat.eqb_spec a y), (Nat.eqb_spec x b); cbn [andb orb]; try congruence; try lia.
    - inversion Ead; subst adj1; clear Ead. split; [exact (u_set_edge m a b o Hu)|].
      intros x y ra rb ea eb Ha Hia Hda Hb Hib Hdb. cbn [set_adj m_adj] in Ha, Hb.
      destruct (upd_set_desc m a b o x ra ea Ha Hia) as (ra0 & ea0 & Hna & Hina & Hdea & Hoa).
      destruct (upd_set_desc m a b o y rb eb Hb Hib) as (rb0 & eb0 & Hnb & Hinb & Hdeb & Hob).
      pose proof (Hq x y ra0 rb0 ea0 eb0 Hna Hina ltac:(congruence) Hnb Hinb ltac:(congruence)) as Heq.
      (* a non-ring bond a -> b has no edge back *)
      assert (Noback : forall rb1 e1, nth_error (m_adj m) b = Some rb1 -> In (Some e1) rb1 -> e_dst e1 = a -> False).
      { intros rb1 e1 Hn1 Hi1 Hd1. destruct (Hrow _ _ _ Hn1 Hi1) as [Hs1 Hf1]. destruct (e_ring e1) eqn:Er1.
        - destruct (Hrs b a) as (r2 & e2 & Hn2 & Hi2 & Hd2 & Hr2); [exists rb1, e1; auto|]. rewrite Era in Hn2. inversion Hn2; subst r2.
          destruct (In_pos _ _ Hab_in) as [p Hp]. destruct (In_pos _ _ Hi2) as [q Hq2]. assert (p = q) by (apply (Hu a rowa p q ab e2 Era Hp Hq2); congruence). subst q. congruence.
        - specialize (Hf1 eq_refl). unfold a, b in *. lia. }
      rewrite Hoa, Hob.
      destruct (Nat.eqb_spec a x) as [<-|Nax]; cbn [andb].
      + destruct (Nat.eqb_spec (e_dst ea0) b) as [Eb|Nb].
        * exfalso. apply (Noback rb0 eb0); [|exact Hinb|congruence]. rewrite <- Hnb. f_equal. congruence.
        * destruct (Nat.eqb_spec a y) as [<-|Nay]; cbn [andb]; [|exact Heq]. destruct (Nat.eqb_spec (e_dst eb0) b) as [Eb2|Nb2]; [|exact Heq].
          exfalso. apply Nb. congruence.
      + destruct (Nat.eqb_spec a y) as [<-|Nay]; cbn [andb]; [|exact Heq]. destruct (Nat.eqb_spec (e_dst eb0) b) as [Eb2|Nb2]; [|exact Heq].
        exfalso. apply (Noback ra0 ea0); [|exact Hina|congruence]. rewrite <- Hna. f_equal. congruence. }
  destruct Main as [U1 Q1].
  destruct (mg_add_count2 (set_adj m adj1) _ _) as [m1|] eqn:E1; cbn [bind]; [|discriminate].
  intro E2. apply add_count_adj in E1, E2. assert (A : m_adj m' = m_adj (set_adj m adj1)) by congruence.
  split; [exact (u_same _ _ A U1)|exact (eq_same _ _ A Q1)].
Qed.

Definition Q4 (m : emol) : Prop := RowP m /\ RS m /\ U m /\ EQ m.

Lemma update_order_q4 m a b o m' : Q4 m -> mg_update_bond_order m a b o = Ok m' -> Q4 m'.
Proof.
  intros (Hrow & Hrs & Hu & Hq) E. destruct (update_order_ue _ _ _ _ _ Hrow Hrs Hu Hq E) as [U1 Q1].
  split; [exact (proj1 (update_order_row _ _ _ _ _ Hrow E))|]. split; [exact (rs_same _ _ (update_order_grows _ _ _ _ _ E) Hrs)|]. split; assumption.
Qed.
Lemma single_bonds_q4 : forall adjs m node m', Q4 m -> set_single_bonds m node adjs = Ok m' -> Q4 m'.
Proof.
  induction adjs as [|x r IH]; intros m node m' Hm E; cbn [set_single_bonds] in E; [inversion E; subst; exact Hm|].
  destruct (mg_update_bond_order m node x 2) as [m1|] eqn:E1; cbn [bind] in E; [|discriminate].
  exact (IH _ _ _ (update_order_q4 _ _ _ _ _ Hm E1) E).
Qed.
Lemma double_bonds_q4 : forall pairs m l2n m', Q4 m -> set_double_bonds m l2n pairs = Ok m' -> Q4 m'.
Proof.
  induction pairs as [|[i oj] r IH]; intros m l2n m' Hm E; cbn [set_double_bonds] in E; [inversion E; subst; exact Hm|].
  destruct (lget l2n i); cbn [bind] in E; [|discriminate]. destruct oj as [j|]; [|discriminate].
  destruct (lget l2n j); cbn [bind] in E; [|discriminate].
  destruct (mg_update_bond_order m _ _ 4) as [m1|] eqn:E1; cbn [bind] in E; [|discriminate].
  exact (IH _ _ _ (update_order_q4 _ _ _ _ _ Hm E1) E).
Qed.
Lemma q4_same m m' : m_adj m' = m_adj m -> Q4 m -> Q4 m'.
Proof.
  intros H (A & B & C & D). split; [exact (row_same _ _ H A)|]. split; [|split; [exact (u_same _ _ H C)|exact (eq_same _ _ H D)]].
  apply (rs_same m m'); [apply grows_refl; exact H|exact B].
Qed.
Lemma dearomatize_q4 : forall ds m m', Q4 m -> dearomatize m ds = Ok m' -> Q4 m'.
Proof.
  induction ds as [|[node adjs] r IH]; intros m m' Hm E; cbn [dearomatize] in E; [inversion E; subst; exact Hm|].
  destruct (set_single_bonds m node adjs) as [m1|] eqn:E1; cbn [bind] in E; [|discriminate].
  destruct (lupd (m_atoms m1) _ _) as [atoms'|]; cbn [bind] in E; [|discriminate].
  destruct (lupd (m_counts2 m1) _ _) as [counts'|]; cbn [bind] in E; [|discriminate].
  apply IH in E; [exact E|]. apply (q4_same m1); [reflexivity|exact (single_bonds_q4 _ _ _ _ Hm E1)].
Qed.
Theorem kekulize_q4 m m' : Q4 m -> kekulize m = Ok (Some m') -> Q4 m'.
Proof.
  intros Hm. unfold kekulize. destruct (ds_is_empty _); [intro E; inversion E; subst; exact Hm|].
  destruct (any_bad_element _ _) as [bad|]; cbn [bind]; [|discriminate]. destruct bad; [discriminate|].
  destruct (kept_nodes_of _ _) as [kept|]; cbn [bind]; [|discriminate].
  destruct (pruned_ds_of _ _ _) as [pruned|]; cbn [bind]; [|discriminate].
  destruct (find_perfect_matching pruned) as [[mt|]|]; cbn [bind]; try discriminate.
  destruct (dearomatize m _) as [m1|] eqn:E1; cbn [bind]; [|discriminate].
  destruct (set_double_bonds m1 _ _) as [m2|] eqn:E2; cbn [bind]; [|discriminate].
  intro E; inversion E; subst. apply (q4_same m2); [reflexivity|]. exact (double_bonds_q4 _ _ _ _ (dearomatize_q4 _ _ _ Hm E1) E2).
Qed.

(* ---------- hence: the assertion of _ring_bonds_to_selfies never fires ---------- *)
Definition noassert (e : exn) : Prop := e <> AssertionError.

Lemma ebond_noassert b e : ebond_to_smiles b = Err e -> noassert e.
Proof. unfold ebond_to_smiles. repeat destruct (_ =? _)%Z; try discriminate. intro H; inversion H; discriminate. Qed.
Lemma bond_sel_noassert b sh e : bond_to_selfies b sh = Err e -> noassert e.
Proof. unfold bond_to_selfies. destruct (_ && _); [discriminate|apply ebond_noassert]. Qed.
Lemma atom_sel_noassert b a e : a_aromatic a = false -> atom_to_selfies b a = Err e -> noassert e.
Proof.
  intro Har. unfold atom_to_selfies, atom_to_smiles. rewrite Har. destruct b as [b0|]; cbn [bind].
  - destruct (bond_to_selfies b0 true) as [bc|e1] eqn:Eb; cbn [bind]; [|intro H; inversion H; subst; exact (bond_sel_noassert _ _ _ Eb)].
    destruct (a_isotope a), (a_chirality a), (a_hcount a), (a_charge a =? 0)%Z; discriminate.
  - destruct (a_isotope a), (a_chirality a), (a_hcount a), (a_charge a =? 0)%Z; discriminate.
Qed.

Lemma syms_noassert : forall ds e, syms_of_digits ds = Err e -> noassert e.
Proof.
  induction ds as [|d r IH]; intros e; cbn [syms_of_digits]; [discriminate|].
  destruct (nth_error index_alphabet (N.to_nat d)); [|intro H; inversion H; discriminate].
  destruct (syms_of_digits r) as [t|e1] eqn:E1; cbn [bind]; [discriminate|]. intro H; inversion H; subst. exact (IH _ eq_refl).
Qed.
Lemma index_noassert idx e : get_selfies_from_index idx = Err e -> noassert e.
Proof.
  unfold get_selfies_from_index. destruct (idx <? 0)%Z; [intro H; inversion H; discriminate|].
  destruct index_alphabet; [intro H; inversion H; discriminate|]. destruct (_ =? _)%N; [discriminate|apply syms_noassert].
Qed.
Lemma dirbond_noassert m s d e : mg_get_dirbond m s d = Err e -> noassert e.
Proof. unfold mg_get_dirbond. destruct (mg_find_dirbond m s d); [discriminate|]. intro H; inversion H; discriminate. Qed.

Section Walk.
Variable m : emol.
Hypothesis Hq4 : Q4 m.
Hypothesis Hna : Forall (fun p => a_aromatic (fst p) = false) (m_atoms m).

Lemma out_loop_noassert (walk : ebond -> nat -> nat -> res (list str * list amap)) curr raw :
  nth_error (m_adj m) curr = Some raw ->
  forall bonds, (forall b ai o e, walk b ai o = Err e -> noassert e) -> Forall (fun b => In (Some b) raw) bonds ->
  forall aidx off e, out_loop m walk bonds aidx off = Err e -> noassert e.
Proof.
  intros Hraw. destruct Hq4 as (Hrow & Hrs & Hu & Hq). induction bonds as [|b rest IH]; intros Hw Hb aidx off e E; cbn [out_loop] in E; [discriminate|].
  inversion Hb as [|? ? Hb1 Hb']; subst.
  destruct (e_ring b) eqn:Ering.
  - destruct (e_src b <? e_dst b); [exact (IH Hw Hb' _ _ _ E)|].
    destruct (mg_get_dirbond m (e_dst b) (e_src b)) as [rv|e1] eqn:Erv; cbn [bind] in E; [|inversion E; subst; exact (dirbond_noassert _ _ _ _ Erv)].
    destruct (get_selfies_from_index _) as [Q|e1] eqn:EQ; cbn [bind] in E; [|inversion E; subst; exact (index_noassert _ _ EQ)].
    assert (Eo : e_order2 rv = e_order2 b).
    { destruct (Hrow _ _ _ Hraw Hb1) as [Hs _]. unfold mg_get_dirbond, mg_find_dirbond in Erv. destruct (nth_error (m_adj m) (e_dst b)) as [rowd|] eqn:Ed; [|discriminate].
      destruct (find_edge rowd (e_src b)) as [x|] eqn:Ef; [|discriminate]. inversion Erv; subst x.
      apply (Hq (e_dst b) curr rowd raw rv b Ed (find_edge_In _ _ _ Ef)); [rewrite (find_edge_dst _ _ _ Ef); exact Hs|exact Hraw|exact Hb1|reflexivity]. }
    destruct (ring_bonds_to_selfies rv b) as [rs|e1] eqn:Er; cbn [bind] in E.
    + match type of E with (do _ <- ?X; _) = _ => destruct X as [[ts1 ms1]|e1] eqn:E1 end; cbn [bind] in E; [discriminate|].
      inversion E; subst. exact (IH Hw Hb' _ _ _ E1).
    + inversion E; subst. unfold ring_bonds_to_selfies in Er. rewrite Eo, Z.eqb_refl in Er. cbn [negb] in Er.
      destruct (_ || _) in Er; [exact (bond_sel_noassert _ _ _ Er)|discriminate].
  - destruct rest as [|b2 rest2]; [exact (Hw _ _ _ _ E)|].
    destruct (walk b off 0) as [[branch bmaps]|e1] eqn:Eb; cbn [bind] in E; [|inversion E; subst; exact (Hw _ _ _ _ Eb)].
    destruct (get_selfies_from_index _) as [Q|e1] eqn:EQ; cbn [bind] in E; [|inversion E; subst; exact (index_noassert _ _ EQ)].
    destruct (bond_to_selfies b false) as [bs|e1] eqn:Ebs; cbn [bind] in E; [|inversion E; subst; exact (bond_sel_noassert _ _ _ Ebs)].
    match type of E with (do _ <- ?X; _) = _ => destruct X as [[ts1 ms1]|e1] eqn:E1 end; cbn [bind] in E; [discriminate|].
    inversion E; subst. exact (IH Hw Hb' _ _ _ E1).
Qed.

Lemma all_some_noassert l e : Encoder.all_some l = Err e -> noassert e.
Proof.
  induction l as [|[b|] r IH]; cbn [Encoder.all_some]; [discriminate| |intro H; inversion H; discriminate].
  destruct (Encoder.all_some r) as [t|e1]; cbn [bind]; [discriminate|]. intro H; inversion H; subst. now apply IH.
Qed.
Lemma lget_noassert {A} (l : list A) i e : lget l i = Err e -> noassert e.
Proof. unfold lget. destruct (nth_error l i); [discriminate|]. intro H; inversion H; discriminate. Qed.

Lemma walk_noassert : forall fuel b curr aidx off e, fragment_walk fuel m b curr aidx off = Err e -> noassert e.
Proof.
  induction fuel as [|f IH]; intros b curr aidx off e E; [inversion E; discriminate|]. cbn [fragment_walk] in E.
  destruct (mg_get_atom m curr) as [[a at_]|e1] eqn:Ea; cbn [bind fst snd] in E; [|inversion E; subst; exact (lget_noassert _ _ _ Ea)].
  assert (Har : a_aromatic a = false).
  { unfold mg_get_atom in Ea. apply lget_In in Ea. rewrite Forall_forall in Hna. exact (Hna (a, at_) (nth_error_In _ _ Ea)). }
  destruct (atom_to_selfies b a) as [tok|e1] eqn:Et; cbn [bind fst] in E; [|inversion E; subst; exact (atom_sel_noassert _ _ _ Har Et)].
  destruct (mg_get_out_dirbonds m curr) as [raw|e1] eqn:Eraw; cbn [bind] in E; [|inversion E; subst; exact (lget_noassert _ _ _ Eraw)].
  destruct (Encoder.all_some raw) as [bonds|e1] eqn:Eall; cbn [bind] in E; [|inversion E; subst; exact (all_some_noassert _ _ Eall)].
  match type of E with (do _ <- ?X; _) = _ => destruct X as [[ts1 ms1]|e1] eqn:E1 end; cbn [bind] in E; [discriminate|].
  inversion E; subst e1; clear E. unfold mg_get_out_dirbonds in Eraw. apply lget_In in Eraw.
  refine (out_loop_noassert _ curr raw Eraw _ (fun b0 ai o e0 H => IH _ _ _ _ _ H) _ _ _ _ E1).
  apply Forall_forall. intros b0 Hb0. unfold ring_bonds_first in Hb0. apply in_app_iff in Hb0. apply (all_some_In' _ _ _ Eall). destruct Hb0 as [H|H]; apply filter_In in H; tauto.
Qed.

Lemma encode_roots_noassert : forall roots aidx e, encode_roots m roots aidx = Err e -> noassert e.
Proof.
  induction roots as [|r rest IH]; intros aidx e E; cbn [encode_roots] in E; [discriminate|].
  destruct (fragment_to_selfies m r aidx) as [[derived mp]|e1] eqn:Ef; cbn [bind] in E.
  - destruct (encode_roots m rest _) as [[frags' maps']|e1] eqn:Er; cbn [bind] in E; [discriminate|]. inversion E; subst. exact (IH _ _ Er).
  - inversion E; subst. unfold fragment_to_selfies in Ef. exact (walk_noassert _ _ _ _ _ _ Ef).
Qed.
End Walk.

Lemma atom_smiles_noassert a br e : a_aromatic a = false -> atom_to_smiles a br = Err e -> noassert e.
Proof. intro H. unfold atom_to_smiles. rewrite H. destruct (a_isotope a), (a_chirality a), (a_hcount a), (a_charge a =? 0)%Z; discriminate. Qed.

Lemma constraint_errors_noassert capf m : (forall el c e, capf el c = Err e -> noassert e) -> forall atoms idx e,
  Forall (fun p => a_aromatic (fst p) = false) atoms -> bond_constraint_errors capf m atoms idx = Err e -> noassert e.
Proof.
  intro Hc. induction atoms as [|[a at_] r IH]; intros idx e Hna E; cbn [bond_constraint_errors] in E; [discriminate|]. inversion Hna as [|? ? Ha Hr]; subst. cbn [fst] in Ha.
  unfold bonding_capacity_c in E. destruct (capf (a_element a) (a_charge a)) as [c|e1] eqn:Ec; cbn [bind] in E; [|inversion E; subst; exact (Hc _ _ _ Ec)].
  destruct (mg_get_bond_count2 m idx) as [c2|e1] eqn:Eb; cbn [bind] in E; [|inversion E; subst; unfold mg_get_bond_count2, lget in Eb; destruct (nth_error _ _); inversion Eb; discriminate].
  destruct (_ <? _)%Z; [|exact (IH _ _ Hr E)].
  destruct (atom_to_smiles a true) as [x|e1] eqn:Ea; cbn [bind] in E; [|inversion E; subst; exact (atom_smiles_noassert _ _ _ Ha Ea)].
  destruct (bond_constraint_errors capf m r (S idx)) as [x2|e1] eqn:Er; cbn [bind] in E; [discriminate|inversion E; subst; exact (IH _ _ Hr Er)].
Qed.

Lemma invert_pass_noassert m : forall atoms idx e, invert_pass m atoms idx = Err e -> noassert e.
Proof.
  induction atoms as [|[a at_] r IH]; intros idx e E; cbn [invert_pass] in E; [discriminate|].
  match type of E with (do a' <- ?X; _) = _ => destruct X as [a'|e1] eqn:Ea end; cbn [bind] in E.
  - destruct (invert_pass m r (S idx)) as [rest|e1] eqn:Er; cbn [bind] in E; [discriminate|inversion E; subst; exact (IH _ _ Er)].
  - inversion E; subst e1; clear E. destruct (a_chirality a); [|discriminate].
    destruct (mg_has_out_ring_bond m idx) as [flag|e1] eqn:Ef; cbn [bind] in Ea; [|inversion Ea; subst; unfold mg_has_out_ring_bond, lget in Ef; destruct (nth_error _ _); inversion Ef; discriminate].
    destruct flag; [|discriminate].
    destruct (should_invert_chirality m idx) as [inv|e1] eqn:Es; cbn [bind] in Ea; [discriminate|]. inversion Ea; subst e1.
    unfold should_invert_chirality in Es. destruct (mg_get_out_dirbonds m idx) as [ob|e2] eqn:Eo; cbn [bind] in Es; [|inversion Es; subst; unfold mg_get_out_dirbonds, lget in Eo; destruct (nth_error _ _); inversion Eo; discriminate].
    destruct (partition_bonds ob 0) as [[[p0 p1] p2]|e2] eqn:Ep; cbn [bind] in Es; [discriminate|]. inversion Es; subst.
    clear -Ep. revert Ep. generalize 0. induction ob as [|[b|] rr IHo]; intros i Ep; cbn [partition_bonds] in Ep; [discriminate| |inversion Ep; discriminate].
    destruct (partition_bonds rr (S i)) as [[[q0 q1] q2]|e3] eqn:Eq; cbn [bind] in Ep; [|inversion Ep; subst; exact (IHo _ Eq)].
    destruct (negb (e_ring b)); [discriminate|]. destruct (_ <? _); discriminate.
Qed.

Lemma capacity_noassert T el c e : get_bonding_capacity T el c = Err e -> noassert e.
Proof. unfold get_bonding_capacity. destruct (assoc _ T); [discriminate|]. destruct (assoc _ T); [discriminate|]. intro H; inversion H; discriminate. Qed.

Theorem encoder_after_kekulize_no_assertion_error T smiles strict attribute m0 m1 e :
  smiles_to_mol smiles attribute = Ok m0 -> kekulize m0 = Ok (Some m1) ->
  encoder T smiles strict attribute = Err e -> noassert e.
Proof.
  intros Ep Ek E. unfold encoder, encoder_c in E. rewrite Ep in E. unfold encode_mol in E. rewrite Ek in E. cbn [bind] in E.
  destruct (parsed_gue _ _ _ Ep) as (_ & _ & _ & Hrs & Hrow & _ & Hu & Hq).
  pose proof (kekulize_q4 _ _ (conj Hrow (conj Hrs (conj Hu Hq))) Ek) as Q1.
  pose proof (kekulize_dearomatizes _ _ (parsed_aro _ _ _ Ep) Ek) as N1.
  match type of E with (do _ <- ?X; _) = _ => destruct X as [u|e1] eqn:Ec end; cbn [bind] in E.
  - destruct (invert_pass m1 (m_atoms m1) 0) as [atoms'|e1] eqn:Ei; cbn [bind] in E; [|inversion E; subst; exact (invert_pass_noassert _ _ _ _ Ei)].
    assert (N2 : Forall (fun p => a_aromatic (fst p) = false) atoms').
    { assert (X : Forall (fun a => a_aromatic a = false) (map fst atoms')).
      { apply (invert_pass_atoms (fun a => a_aromatic a = false)) with (m := m1) (atoms := m_atoms m1) (idx := 0); [intros a Ha; destruct a; exact Ha| |exact Ei].
        apply Forall_forall. intros a Ha. apply in_map_iff in Ha as (p & <- & Hp). rewrite Forall_forall in N1. exact (N1 p Hp). }
      apply Forall_forall. intros p Hp. rewrite Forall_forall in X. apply X. now apply in_map. }
    destruct (encode_roots (set_atoms m1 atoms') _ 0) as [[frags maps]|e1] eqn:Er; cbn [bind] in E; [discriminate|].
    inversion E; subst. exact (encode_roots_noassert (set_atoms m1 atoms') Q1 N2 _ _ _ Er).
  - inversion E; subst e1; clear E. destruct strict; [|discriminate]. unfold check_bond_constraints in Ec.
    destruct (bond_constraint_errors _ m1 (m_atoms m1) 0) as [bad|e1] eqn:Eb; cbn [bind] in Ec.
    + destruct bad; [inversion Ec; discriminate|discriminate].
    + inversion Ec; subst. exact (constraint_errors_noassert _ _ (capacity_noassert T) _ _ _ N1 Eb).
Qed.
