(* WriterLex.v — C01, the printed string: the pieces the decoder's writer prints (atoms, bond
   symbols, parentheses, ring labels below 100) are tokenised by the independent reader
   (spec/Reader.v) into the corresponding reader tokens. *)
From Coq Require Import Ascii String List Arith ZArith NArith Bool Lia.
Import ListNotations.
From Selfies Require Import Base Generated Lex Atoms Decoder Reader BaseFacts DecoderInv TokFacts DecFacts AlphaClosure WriterAtoms.
Local Open Scope Z_scope.

Definition lexes (s : str) (l : list stok) : Prop := exists f, lex_smiles f s = Some l.

Lemma lexes_nil : lexes [] [].
Proof. exists 1%nat. reflexivity. Qed.

(* a piece is either empty or starts with a character that is not a lower-case letter *)
Definition piece_ok (p : str) : Prop := p = [] \/ first_ok p.

Lemma safe_app p r : piece_ok p -> safe_start r -> safe_start (p ++ r).
Proof. intros [->|H] Hr; [exact Hr|]. destruct p as [|c p']; [destruct H|exact H]. Qed.

(* ---------- bond symbols ---------- *)
Definition btoks (o : Z) (st : option N) : list stok :=
  if o =? 1 then match st with Some c => if is_stereo_char c then [RBond 2 (Some c)] else [] | None => [] end
  else if o =? 2 then [RBond 4 None] else if o =? 3 then [RBond 6 None] else [].

Lemma stereo_chars c : is_stereo_char c = true -> c = 47%N \/ c = 92%N.
Proof.
  unfold is_stereo_char. assert (E : smiles_stereo_bonds = [47%N; 92%N] \/ smiles_stereo_bonds = [92%N; 47%N]) by (left; reflexivity) || (right; reflexivity).
  destruct E as [-> | ->]; cbn -[N.eqb]; destruct (N.eqb_spec c 47); destruct (N.eqb_spec c 92); auto; discriminate.
Qed.

Lemma bond_lex o st tok : 1 <= o <= 3 -> bond_to_smiles o st = Ok tok ->
  piece_ok tok /\ forall rest l, lexes rest l -> lexes (tok ++ rest) (btoks o st ++ l).
Proof.
  intros Ho. unfold bond_to_smiles, btoks.
  destruct (Z.eqb_spec o 1) as [->|N1].
  - intro E. injection E as <-. destruct st as [c|]; [|split; [now left|auto]].
    destruct (is_stereo_char c) eqn:Es; [|split; [now left|auto]].
    destruct (stereo_chars c Es) as [-> | ->]; (split; [right; reflexivity|]); intros rest l [f Hf]; exists (S f); cbn [app lex_smiles]; cbn -[lex_smiles]; now rewrite Hf.
  - destruct (Z.eqb_spec o 2) as [->|N2].
    + intro E. injection E as <-. split; [right; reflexivity|]. intros rest l [f Hf]. exists (S f). cbn [app lit lex_smiles]. cbn -[lex_smiles]. now rewrite Hf.
    + destruct (Z.eqb_spec o 3) as [->|N3]; [|lia].
      intro E. injection E as <-. split; [right; reflexivity|]. intros rest l [f Hf]. exists (S f). cbn [app lit lex_smiles]. cbn -[lex_smiles]. now rewrite Hf.
Qed.

(* ---------- parentheses, dots ---------- *)
Lemma open_lex rest l : lexes rest l -> lexes (lit "(" ++ rest) (ROpen :: l).
Proof. intros [f Hf]. exists (S f). cbn [app lit lex_smiles]. cbn -[lex_smiles]. now rewrite Hf. Qed.
Lemma close_lex rest l : lexes rest l -> lexes (lit ")" ++ rest) (RClose :: l).
Proof. intros [f Hf]. exists (S f). cbn [app lit lex_smiles]. cbn -[lex_smiles]. now rewrite Hf. Qed.
Lemma dot_lex rest l : lexes rest l -> lexes (lit "." ++ rest) (RDot :: l).
Proof. intros [f Hf]. exists (S f). cbn [app lit lex_smiles]. cbn -[lex_smiles]. now rewrite Hf. Qed.

(* ---------- ring labels 1 .. 99 ---------- *)
Definition label_str (n : nat) : str := concat (map w_tok (label_events n)).

Lemma label_chars n : (1 <= n < 100)%nat ->
  (exists d, label_str n = [d] /\ is_digit d = true /\ dval d = N.of_nat n) \/
  (exists d1 d2, label_str n = [37%N; d1; d2] /\ is_digit d1 = true /\ is_digit d2 = true /\ N.eqb d1 48 = false /\ (dval d1 * 10 + dval d2)%N = N.of_nat n).
Proof.
  intro H. assert (Hin : In n (seq 1 99)) by (apply in_seq; lia). clear H.
  assert (F : forallb (fun n => match label_str n with
                               | [d] => is_digit d && N.eqb (dval d) (N.of_nat n)
                               | [p; d1; d2] => N.eqb p 37 && is_digit d1 && is_digit d2 && negb (N.eqb d1 48) && N.eqb (dval d1 * 10 + dval d2) (N.of_nat n)
                               | _ => false end) (seq 1 99) = true) by (vm_compute; reflexivity).
  rewrite forallb_forall in F. specialize (F n Hin).
  destruct (label_str n) as [|a [|b [|c [|? ?]]]]; try discriminate.
  - left. exists a. apply andb_true_iff in F as [A B]. apply N.eqb_eq in B. auto.
  - right. exists b, c. repeat (apply andb_true_iff in F as [F ?]). apply N.eqb_eq in F. subst a.
    repeat split; auto; [now apply negb_true_iff|now apply N.eqb_eq].
Qed.

Lemma label_lex n rest l : (1 <= n < 100)%nat -> lexes rest l ->
  lexes (label_str n ++ rest) (RRing (N.of_nat n) :: l) /\ first_ok (label_str n).
Proof.
  intros Hn [f Hf]. destruct (label_chars n Hn) as [(d & -> & Hd & Hv)|(d1 & d2 & -> & H1 & H2 & H3 & Hv)].
  - split.
    + exists (S f). cbn [app lex_smiles]. unfold is_digit in Hd. apply andb_true_iff in Hd as [A B]. apply N.leb_le in A, B.
      assert (Z0 : is_digit d = true) by (unfold is_digit; apply andb_true_iff; split; apply N.leb_le; lia).
      repeat match goal with |- context [N.eqb d ?k] => destruct (N.eqb_spec d k); [exfalso; lia|] end.
      rewrite Z0, Hf, Hv. reflexivity.
    + cbn. unfold is_digit in Hd. unfold is_low. apply andb_true_iff in Hd as [A B]. apply N.leb_le in B. apply andb_false_iff. left. apply N.leb_gt. lia.
  - split; [|reflexivity].
    exists (S f). cbn [app lex_smiles]. cbn -[lex_smiles is_digit dval N.mul N.add]. rewrite H1, H2, H3. cbn [andb negb]. rewrite Hf, Hv. reflexivity.
Qed.

(* ---------- enough fuel ---------- *)
Lemma split_at_rb_len : forall s a b, split_at_rb s = Some (a, b) -> (length b < length s)%nat.
Proof.
  induction s as [|c r IH]; intros a b E; cbn [split_at_rb] in E; [discriminate|].
  destruct (N.eqb c 93); [inversion E; subst; cbn; lia|].
  destruct (split_at_rb r) as [[a' b']|] eqn:Er; [|discriminate]. inversion E; subst. specialize (IH _ _ eq_refl). cbn [length]. lia.
Qed.

Lemma lex_enough : forall f s l, lex_smiles f s = Some l -> forall f', (length s < f')%nat -> lex_smiles f' s = Some l.
Proof.
  induction f as [|f IH]; intros s l E f' Hf'; [discriminate|].
  destruct f' as [|f']; [lia|]. cbn [lex_smiles] in *. destruct s as [|c r]; [exact E|]. cbn [length] in Hf'.
  assert (K : forall t rest, (length rest <= length r)%nat ->
            match lex_smiles f rest with Some l0 => Some (t :: l0) | None => None end = Some l ->
            match lex_smiles f' rest with Some l0 => Some (t :: l0) | None => None end = Some l).
  { intros t rest Hr H. destruct (lex_smiles f rest) as [l0|] eqn:El; [|discriminate]. rewrite (IH rest l0 El f' ltac:(lia)). exact H. }
  repeat match goal with
         | |- context [if ?c then _ else _] => destruct c
         end; try (apply K; [cbn [length]; lia|exact E]); try exact E.
  all: repeat match goal with
         | H : context [match ?x with _ => _ end] |- _ => lazymatch x with
               | lex_smiles _ _ => fail
               | _ => destruct x eqn:?; try discriminate end
         end; try (apply K; [cbn [length] in *; lia|assumption]); try assumption.
  all: try (apply K; [|assumption]; match goal with Hs : split_at_rb _ = Some _ |- _ => apply split_at_rb_len in Hs; cbn [length] in *; lia end).
Qed.

Lemma lexes_read s l : lexes s l -> lex_smiles (S (length s)) s = Some l.
Proof. intros [f Hf]. eapply lex_enough; [exact Hf|lia]. Qed.
