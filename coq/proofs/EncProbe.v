(* EncProbe.v — C09: the probe loops of the CPython set model terminate.  After the perturbation has died out the probe
   sequence is i -> 5i+1 modulo the table size, a power of two; that map has full period, so within `size` rounds the
   scan starts at an unused slot (the table is never full), where every probe loop stops. *)
From Coq Require Import Ascii String List Arith ZArith NArith Bool Lia.
Import ListNotations.
From Selfies Require Import Base PySet Matching BaseFacts ConfigFacts EncMatch EncMatchSafe.
Local Open Scope Z_scope.

(* ---------- i -> 5i+1 has full period modulo 2^k ---------- *)
Definition U (x : Z) : Z := 5 * x + 1.
Fixpoint iterU (n : nat) (x : Z) : Z := match n with O => x | S n' => U (iterU n' x) end.

Lemma iterU_add n m x : iterU (n + m) x = iterU n (iterU m x).
Proof. induction n as [|n IH]; cbn [Nat.add iterU]; [reflexivity|now rewrite IH]. Qed.

(* U^(2^k) x = A_k x + B_k with A_k = 1 + 2^(k+2) a, B_k = 2^k b, b odd *)
Lemma iterU_pow2 (k : nat) : exists a b, (forall x, iterU (2 ^ k) x = (1 + 2 ^ (Z.of_nat k + 2) * a) * x + 2 ^ Z.of_nat k * (2 * b + 1)).
Proof.
  induction k as [|k (a & b & IH)].
  - exists 1, 0. intro x. change (iterU (2 ^ 0) x) with (U x). unfold U. change (Z.of_nat 0) with 0. change (2 ^ (0 + 2)) with 4. change (2 ^ 0) with 1. lia.
  - set (K := Z.of_nat k) in *. assert (HK : 0 <= K) by (unfold K; lia).
    replace (2 ^ S k)%nat with (2 ^ k + 2 ^ k)%nat by (cbn; lia).
    replace (Z.of_nat (S k)) with (K + 1) by (unfold K; lia).
    assert (P1 : 2 ^ (K + 1 + 2) = 2 * 2 ^ (K + 2)) by (replace (K + 1 + 2) with (Z.succ (K + 2)) by lia; rewrite Z.pow_succ_r by lia; reflexivity).
    assert (P2 : 2 ^ (K + 1) = 2 * 2 ^ K) by (replace (K + 1) with (Z.succ K) by lia; rewrite Z.pow_succ_r by lia; reflexivity).
    assert (P3 : 2 ^ (K + 2) = 4 * 2 ^ K) by (replace (K + 2) with (Z.succ (Z.succ K)) by lia; rewrite !Z.pow_succ_r by lia; lia).
    set (P := 2 ^ K) in *.
    exists (a + 2 * P * a * a), (b + a * P * (2 * b + 1)).
    intro x. rewrite iterU_add, !IH. rewrite P1, P2, P3. ring.
Qed.

Lemma iterU_mod n M x : 0 < M -> iterU n (x mod M) mod M = iterU n x mod M.
Proof.
  intro HM. induction n as [|n IH]; cbn [iterU]; [apply Z.mod_mod; lia|]. unfold U.
  rewrite Z.add_mod, Z.mul_mod, IH, <- Z.mul_mod, <- Z.add_mod by lia. reflexivity.
Qed.

(* U^(2^k) x = x + 2^k modulo 2^(k+1) *)
Lemma iterU_half k x : iterU (2 ^ k) x mod 2 ^ (Z.of_nat k + 1) = (x + 2 ^ Z.of_nat k) mod 2 ^ (Z.of_nat k + 1).
Proof.
  destruct (iterU_pow2 k) as (a & b & H). rewrite H. set (K := Z.of_nat k). assert (HK : 0 <= K) by (unfold K; lia).
  assert (P2 : 2 ^ (K + 1) = 2 * 2 ^ K) by (replace (K + 1) with (Z.succ K) by lia; rewrite Z.pow_succ_r by lia; reflexivity).
  assert (P3 : 2 ^ (K + 2) = 2 * 2 ^ (K + 1)) by (replace (K + 2) with (Z.succ (K + 1)) by lia; rewrite Z.pow_succ_r by lia; reflexivity).
  replace ((1 + 2 ^ (K + 2) * a) * x + 2 ^ K * (2 * b + 1)) with ((x + 2 ^ K) + (2 * a * x + b) * 2 ^ (K + 1)) by (rewrite P3, P2; ring).
  apply Z.mod_add. pose proof (Z.pow_pos_nonneg 2 (K + 1)). lia.
Qed.

Theorem lcg_reaches (k : nat) : forall x u, exists t, (t < 2 ^ k)%nat /\ iterU t x mod 2 ^ Z.of_nat k = u mod 2 ^ Z.of_nat k.
Proof.
  induction k as [|k IH]; intros x u.
  - exists 0%nat. split; [cbn; lia|]. cbn. now rewrite !Z.mod_1_r.
  - destruct (IH x u) as (t & Ht & E). set (K := Z.of_nat k) in *. assert (HK : 0 <= K) by (unfold K; lia).
    replace (Z.of_nat (S k)) with (K + 1) by (unfold K; lia).
    assert (P2 : 2 ^ (K + 1) = 2 * 2 ^ K) by (replace (K + 1) with (Z.succ K) by lia; rewrite Z.pow_succ_r by lia; reflexivity).
    assert (Pp : 0 < 2 ^ K) by (apply Z.pow_pos_nonneg; lia).
    set (y := iterU t x) in *.
    (* y and u agree modulo 2^K: modulo 2^(K+1) they agree or differ by 2^K *)
    assert (C : y mod 2 ^ (K + 1) = u mod 2 ^ (K + 1) \/ (y + 2 ^ K) mod 2 ^ (K + 1) = u mod 2 ^ (K + 1)).
    { rewrite P2. set (P := 2 ^ K) in *. 
      assert (Hy := Z.div_mod y (2 * P) ltac:(lia)). assert (Hu := Z.div_mod u (2 * P) ltac:(lia)).
      assert (By := Z.mod_pos_bound y (2 * P) ltac:(lia)). assert (Bu := Z.mod_pos_bound u (2 * P) ltac:(lia)).
      assert (E' : (y mod (2 * P)) mod P = (u mod (2 * P)) mod P).
      { rewrite <- !Znumtheory.Zmod_div_mod by (try lia; exists 2; lia). exact E. }
      set (ym := y mod (2 * P)) in *. set (um := u mod (2 * P)) in *.
      assert (Hym := Z.div_mod ym P ltac:(lia)). assert (Hum := Z.div_mod um P ltac:(lia)).
      assert (Bym := Z.mod_pos_bound ym P ltac:(lia)). assert (Bum := Z.mod_pos_bound um P ltac:(lia)).
      assert (Qy : ym / P = 0 \/ ym / P = 1) by nia. assert (Qu : um / P = 0 \/ um / P = 1) by nia.
      destruct (Z.eq_dec ym um) as [Heq|Hne]; [now left|right].
      assert (Hs : (y + P) mod (2 * P) = (ym + P) mod (2 * P)) by (unfold ym; rewrite Z.add_mod_idemp_l by lia; reflexivity).
      rewrite Hs. destruct Qy as [Qy|Qy], Qu as [Qu|Qu]; rewrite Qy, Qu in *.
      - exfalso. lia.
      - rewrite Z.mod_small by lia. lia.
      - replace (ym + P) with (um + 1 * (2 * P)) by lia. rewrite Z.mod_add by lia. apply Z.mod_small. lia.
      - exfalso. lia. }
    destruct C as [C|C].
    + exists t. split; [cbn; lia|exact C].
    + exists (2 ^ k + t)%nat. split; [cbn; lia|]. rewrite iterU_add. fold y. pose proof (iterU_half k y) as Hh. fold K in Hh. rewrite Hh. exact C.
Qed.

(* ---------- the probe state ---------- *)
Local Open Scope nat_scope.
Definition adv (mask : nat) (st : nat * nat) : nat * nat := let p' := next_perturb (snd st) in (next_index (fst st) p' mask, p').
Fixpoint advn (mask r : nat) (st : nat * nat) : nat * nat := match r with O => st | S r' => advn mask r' (adv mask st) end.

Lemma advn_add mask a : forall b st, advn mask (a + b) st = advn mask b (advn mask a st).
Proof. induction a as [|a IH]; intros b st; cbn [Nat.add advn]; [reflexivity|apply IH]. Qed.

Lemma advn_snd mask : forall r i p, snd (advn mask r (i, p)) = p / 32 ^ r.
Proof.
  induction r as [|r IH]; intros i p; cbn [advn]; [cbn [snd Nat.pow]; now rewrite Nat.div_1_r|].
  unfold adv at 1. cbn [fst snd]. rewrite IH. unfold next_perturb, PERTURB_SHIFT_DIV. rewrite Nat.div_div by (try lia; apply Nat.pow_nonzero; lia).
  reflexivity.
Qed.

Lemma perturb_dies p : p / 32 ^ (S (Nat.log2 (S p))) = 0.
Proof.
  apply Nat.div_small. destruct (Nat.log2_spec (S p) ltac:(lia)) as [_ H].
  assert (X : forall r, 2 ^ r <= 32 ^ r) by (intro r; apply Nat.pow_le_mono_l; lia).
  specialize (X (S (Nat.log2 (S p)))). lia.
Qed.

Lemma advn_zero_Z mask k : Z.of_nat (S mask) = (2 ^ Z.of_nat k)%Z -> forall t i,
  Z.of_nat (fst (advn mask t (i, 0))) = if Nat.eqb t 0 then Z.of_nat i else (iterU t (Z.of_nat i) mod 2 ^ Z.of_nat k)%Z.
Proof.
  intros HM. assert (Mp : (0 < 2 ^ Z.of_nat k)%Z) by (apply Z.pow_pos_nonneg; lia).
  assert (Step : forall i, adv mask (i, 0) = ((i * 5 + 1) mod S mask, 0)).
  { intro i. unfold adv, next_perturb, next_index, PERTURB_SHIFT_DIV. cbn [fst snd]. rewrite Nat.div_0_l by lia. now rewrite Nat.add_0_r. }
  assert (StepZ : forall i, Z.of_nat ((i * 5 + 1) mod S mask) = (U (Z.of_nat i) mod 2 ^ Z.of_nat k)%Z).
  { intro i. rewrite Nat2Z.inj_mod, HM. unfold U. f_equal. lia. }
  induction t as [|t IH]; intro i; [reflexivity|]. cbn [advn Nat.eqb]. rewrite Step, IH.
  destruct t as [|t]; cbn [Nat.eqb].
  - rewrite StepZ. reflexivity.
  - rewrite StepZ. rewrite iterU_mod by exact Mp. replace (S (S t)) with (S t + 1)%nat by lia. rewrite iterU_add. reflexivity.
Qed.

(* from any state the scan index reaches any given slot within the fuel of the probe loops *)
Lemma reaches_slot mask k key i u : Z.of_nat (S mask) = (2 ^ Z.of_nat k)%Z -> u < S mask ->
  exists r, r < probe_fuel mask key /\ fst (advn mask r (i, key)) = u.
Proof.
  intros HM Hu. set (R := S (Nat.log2 (S key))).
  destruct (advn mask R (i, key)) as [iR pR] eqn:ER.
  assert (HpR : pR = 0) by (pose proof (advn_snd mask R i key) as X; rewrite ER in X; cbn [snd] in X; rewrite X; apply perturb_dies).
  subst pR. destruct (lcg_reaches k (Z.of_nat iR) (Z.of_nat u)) as (t & Ht & E).
  assert (Sz : (2 ^ k = S mask)%nat) by (apply Nat2Z.inj; rewrite HM; rewrite Nat2Z.inj_pow; reflexivity).
  assert (Uz : (Z.of_nat u mod 2 ^ Z.of_nat k = Z.of_nat u)%Z) by (apply Z.mod_small; rewrite <- HM; lia).
  destruct t as [|t].
  - (* already there, or one full period later *)
    cbn [iterU] in E. assert (iR mod S mask = u).
    { apply Nat2Z.inj. rewrite Nat2Z.inj_mod, HM, E. exact Uz. }
    destruct (Nat.eq_dec iR u) as [Heq|Hne].
    + exists R. split; [unfold probe_fuel, R; lia|]. rewrite ER. exact Heq.
    + (* iR >= size is impossible after at least one step, but R >= 1 steps were taken: iR < size *)
      exfalso. assert (iR < S mask).
      { unfold R in ER. cbn [advn] in ER. clear -ER.
        assert (X : forall r st, fst (advn mask r (adv mask st)) < S mask).
        { induction r as [|r IH]; intro st; cbn [advn]; [unfold adv, next_index; cbn [fst]; apply Nat.mod_upper_bound; lia|apply IH]. }
        specialize (X (Nat.log2 (S key)) (i, key)). rewrite ER in X. exact X. }
      rewrite Nat.mod_small in H by assumption. contradiction.
  - exists (R + S t). split; [unfold probe_fuel; fold R; lia|]. rewrite advn_add, ER.
    apply Nat2Z.inj. rewrite (advn_zero_Z mask k HM (S t) iR). cbn [Nat.eqb]. rewrite E. exact Uz.
Qed.

(* ---------- every probe loop stops when its scan starts at an unused slot ---------- *)
Lemma run_length_pos i mask : exists c, run_length i mask = S c.
Proof. unfold run_length. destruct (_ <=? _); eauto. Qed.

Lemma look_probe_hits tbl mask key : forall fuel i p, (exists r, r < fuel /\ nth_error tbl (fst (advn mask r (i, p))) = Some SUnused) ->
  exists o, look_probe fuel tbl mask key i p = Ok o.
Proof.
  induction fuel as [|f IH]; intros i p (r & Hr & Hu); [lia|]. cbn [look_probe].
  destruct (run_length_pos i mask) as [c Ec]. rewrite Ec.
  destruct (look_scan tbl key i (S c)) eqn:Es; [eauto|eauto|].
  destruct r as [|r].
  - cbn [advn fst] in Hu. cbn [look_scan] in Es. rewrite Hu in Es. discriminate.
  - apply IH. exists r. split; [lia|]. exact Hu.
Qed.

Lemma clean_probe_hits tbl mask : forall fuel i p, (exists r, r < fuel /\ nth_error tbl (fst (advn mask r (i, p))) = Some SUnused) ->
  exists j, clean_probe fuel tbl mask i p = Ok j.
Proof.
  induction fuel as [|f IH]; intros i p (r & Hr & Hu); [lia|]. cbn [clean_probe].
  destruct (run_length_pos i mask) as [c Ec]. rewrite Ec.
  destruct (clean_scan tbl i (S c)) eqn:Es; [eauto|].
  destruct r as [|r].
  - cbn [advn fst] in Hu. cbn [clean_scan] in Es. rewrite Hu in Es. discriminate.
  - apply IH. exists r. split; [lia|]. exact Hu.
Qed.

Lemma add_probe_hits tbl mask key : forall fuel i p fs, (exists r, r < fuel /\ nth_error tbl (fst (advn mask r (i, p))) = Some SUnused) ->
  exists w, add_probe fuel tbl mask key i p fs = Ok w.
Proof.
  induction fuel as [|f IH]; intros i p fs (r & Hr & Hu); [lia|]. cbn [add_probe].
  destruct (run_length_pos i mask) as [c Ec]. rewrite Ec.
  destruct (add_scan tbl key i (S c) fs) as [j [d|]| |fs'] eqn:Es; [eauto|eauto|eauto|].
  destruct r as [|r].
  - cbn [advn fst] in Hu. cbn [add_scan] in Es. rewrite Hu in Es. discriminate.
  - apply IH. exists r. split; [lia|]. exact Hu.
Qed.

(* ---------- the table is a power of two long and never full ---------- *)
Definition used_slot (x : slot) : bool := match x with SUnused => false | _ => true end.
Definition nu (tbl : list slot) : nat := length (filter used_slot tbl).

Lemma nu_le tbl : nu tbl <= length tbl.
Proof. unfold nu. induction tbl as [|x r IH]; cbn [filter length]; [lia|]. destruct (used_slot x); cbn [length]; lia. Qed.
Lemma has_unused : forall tbl, nu tbl < length tbl -> exists u, nth_error tbl u = Some SUnused.
Proof.
  unfold nu. induction tbl as [|x r IH]; cbn [filter length]; [lia|]. destruct x; cbn [used_slot length]; intro H; [exists 0; reflexivity| |];
    (destruct IH as [u Hu]; [lia|exists (S u); exact Hu]).
Qed.
Lemma nu_upd tbl j x y : nth_error tbl j = Some x -> nu (upd tbl j (fun _ => y)) + (if used_slot x then 1 else 0) = nu tbl + (if used_slot y then 1 else 0).
Proof.
  unfold nu. revert j. induction tbl as [|z r IH]; intros [|j] H; cbn in H; try discriminate.
  - inversion H; subst. cbn [upd filter]. destruct (used_slot x), (used_slot y); cbn [length]; lia.
  - cbn [upd filter]. specialize (IH j H). destruct (used_slot z); cbn [length]; lia.
Qed.
Lemma nu_repeat n : nu (repeat SUnused n) = 0.
Proof. unfold nu. induction n; cbn; auto. Qed.

Record TB (tbl : list slot) (mask : nat) : Prop := {
  tb_len : length tbl = S mask;
  tb_pow : exists k, S mask = 2 ^ k;
  tb_room : nu tbl < length tbl
}.

Lemma tb_reach tbl mask key i : TB tbl mask -> exists r, r < probe_fuel mask key /\ nth_error tbl (fst (advn mask r (i, key))) = Some SUnused.
Proof.
  intros [L [k Hk] Hr]. destruct (has_unused tbl Hr) as [u Hu].
  assert (Lu : u < S mask) by (rewrite <- L; apply nth_error_Some; congruence).
  assert (HM : Z.of_nat (S mask) = (2 ^ Z.of_nat k)%Z) by (rewrite Hk, Nat2Z.inj_pow; reflexivity).
  destruct (reaches_slot mask k key i u HM Lu) as (r & Hrf & Hru). exists r. split; [exact Hrf|]. now rewrite Hru.
Qed.

Lemma insert_clean_total tbl mask key : TB tbl mask -> exists t, insert_clean tbl mask key = Ok t /\ length t = length tbl /\ nu t = S (nu tbl).
Proof.
  intro Ht. unfold insert_clean. destruct (clean_probe_hits tbl mask _ _ _ (tb_reach tbl mask key (key mod S mask) Ht)) as [j Ej]. rewrite Ej. cbn [bind].
  eexists. split; [reflexivity|]. split; [now rewrite upd_length|]. pose proof (clean_probe_spec _ _ _ _ _ _ Ej) as Hj. pose proof (nu_upd tbl j SUnused (SKey key) Hj) as X. cbn [used_slot] in X. lia.
Qed.

Lemma reinsert_total mask : forall old tbl, length tbl = S mask -> (exists k, S mask = 2 ^ k) -> nu tbl + cnt old < length tbl ->
  exists t, reinsert old tbl mask = Ok t /\ length t = length tbl /\ nu t = nu tbl + cnt old.
Proof.
  induction old as [|x r IH]; intros tbl L Hp Hr; cbn [reinsert]; [exists tbl; unfold cnt; cbn; auto|].
  destruct x as [| |k0]; [apply IH; auto|apply IH; auto|].
  unfold cnt in *. cbn [ps_keys length] in Hr.
  destruct (insert_clean_total tbl mask k0 (Build_TB _ _ L Hp ltac:(lia))) as (t1 & E1 & L1 & N1). rewrite E1. cbn [bind].
  destruct (IH t1 ltac:(congruence) Hp ltac:(rewrite L1, N1; lia)) as (t & E & Lt & Nt). exists t. split; [exact E|]. split; [congruence|]. rewrite Nt, N1. cbn [ps_keys length]. lia.
Qed.

Lemma grow_size_spec minused : forall fuel ns, (exists a, ns = 2 ^ a) -> minused < ns * 2 ^ fuel ->
  (exists a, grow_size fuel ns minused = 2 ^ a) /\ minused < grow_size fuel ns minused.
Proof.
  induction fuel as [|f IH]; intros ns Hp Hb; cbn [grow_size]; [cbn in Hb; split; [exact Hp|lia]|].
  destruct (Nat.leb_spec ns minused) as [Le|Gt]; [|split; [exact Hp|exact Gt]].
  apply IH; [destruct Hp as [a ->]; exists (S a); cbn; lia|]. cbn [Nat.pow] in Hb. lia.
Qed.

(* the state of a set *)
Record TS (s : pyset) : Prop := {
  ts_tb : length (ps_table s) = S (ps_mask s);
  ts_pow : exists k, S (ps_mask s) = 2 ^ k;
  ts_nu : nu (ps_table s) = ps_fill s;
  ts_load : ps_fill s * 5 < ps_mask s * 3
}.
Lemma ts_tbl s : TS s -> TB (ps_table s) (ps_mask s).
Proof. intros [L P N Ld]. constructor; [exact L|exact P|]. rewrite N, L. lia. Qed.

Lemma ts_empty : TS ps_empty.
Proof. constructor; cbn; [reflexivity|exists 3; reflexivity|reflexivity|lia]. Qed.

Lemma ps_add_total s key : TS s -> SI s -> exists s', ps_add s key = Ok s' /\ TS s'.
Proof.
  intros Ht Hs. pose proof Ht as [L P N Ld]. unfold ps_add.
  destruct (add_probe_hits (ps_table s) (ps_mask s) key _ _ _ None (tb_reach _ _ key (key mod S (ps_mask s)) (ts_tbl s Ht))) as [w Ew]. rewrite Ew. cbn [bind].
  assert (F0 : fsinv (ps_table s) None) by (intros d Hd; discriminate). pose proof (add_probe_spec _ _ _ _ _ _ _ _ F0 Ew) as Sp.
  destruct w as [|j|d].
  - eauto.
  - set (s1 := {| ps_table := upd (ps_table s) j (fun _ => SKey key); ps_mask := ps_mask s; ps_fill := S (ps_fill s); ps_used := S (ps_used s); ps_finger := ps_finger s |}).
    pose proof (nu_upd _ j SUnused (SKey key) Sp) as X. cbn [used_slot] in X.
    destruct (ps_fill s1 * 5 <? ps_mask s * 3) eqn:Eload.
    + exists s1. split; [reflexivity|]. apply Nat.ltb_lt in Eload. constructor; cbn [s1 ps_table ps_mask ps_fill] in *; [now rewrite upd_length|exact P|lia|exact Eload].
    + unfold table_resize. set (minused := if 50000 <? ps_used s1 then ps_used s1 * 2 else ps_used s1 * 4).
      destruct (grow_size_spec minused (S minused) PySet_MINSIZE (ex_intro _ 3 eq_refl)) as [[a Ha] Hgt].
      { unfold PySet_MINSIZE. pose proof (Nat.pow_gt_lin_r 2 (S minused) ltac:(lia)). lia. }
      set (newsize := grow_size (S minused) PySet_MINSIZE minused) in *.
      assert (Np : 1 <= newsize) by (rewrite Ha; pose proof (Nat.pow_nonzero 2 a ltac:(lia)); lia).
      assert (Cu : cnt (ps_table s1) = ps_used s1) by (cbn [s1 ps_table ps_used]; rewrite (cnt_upd_key key _ _ _ Sp I); unfold SI in Hs; congruence).
      assert (Um : ps_used s1 * 2 <= minused) by (unfold minused; destruct (50000 <? ps_used s1); lia).
      destruct (reinsert_total (newsize - 1) (ps_table s1) (repeat SUnused newsize)) as (t & Et & Lt & Nt).
      { rewrite repeat_length. lia. } { exists a. lia. } { rewrite nu_repeat, repeat_length, Cu. lia. }
      rewrite Et. cbn [bind]. eexists. split; [reflexivity|]. rewrite repeat_length in Lt. rewrite nu_repeat, Cu in Nt.
      constructor; cbn [ps_table ps_mask ps_fill]; [lia|exists a; lia|exact Nt|]. cbn [s1 ps_used] in *. lia.
  - eexists. split; [reflexivity|]. pose proof (nu_upd _ d SDummy (SKey key) Sp) as X. cbn [used_slot] in X.
    constructor; cbn [ps_table ps_mask ps_fill]; [now rewrite upd_length|exact P|lia|exact Ld].
Qed.

Lemma ps_add_all_total : forall l s, TS s -> SI s -> exists s', ps_add_all s l = Ok s' /\ TS s'.
Proof.
  induction l as [|x r IH]; intros s Ht Hs; cbn [ps_add_all]; [eauto|].
  destruct (ps_add_total s x Ht Hs) as (s1 & E1 & T1). rewrite E1. cbn [bind]. apply IH; [exact T1|exact (proj1 (ps_add_spec _ _ _ Hs E1))].
Qed.
Lemma ps_of_list_total l : exists s, ps_of_list l = Ok s /\ TS s.
Proof. apply ps_add_all_total; [exact ts_empty|]. unfold SI, ps_empty. cbn [ps_used ps_table]. now rewrite cnt_repeat. Qed.

Lemma ts_remove s j k s' : TS s -> nth_error (ps_table s) j = Some (SKey k) -> ps_table s' = upd (ps_table s) j (fun _ => SDummy) -> ps_mask s' = ps_mask s -> ps_fill s' = ps_fill s -> TS s'.
Proof.
  intros [L P N Ld] Hj Ht Hm Hf. pose proof (nu_upd _ j (SKey k) SDummy Hj) as X. cbn [used_slot] in X.
  constructor; rewrite ?Ht, ?Hm, ?Hf; [now rewrite upd_length|exact P|lia|exact Ld].
Qed.

Lemma ps_discard_total key s : TS s -> exists s', ps_discard key s = Ok s' /\ TS s'.
Proof.
  intro Ht. unfold ps_discard.
  destruct (look_probe_hits (ps_table s) (ps_mask s) key _ _ _ (tb_reach _ _ key (key mod S (ps_mask s)) (ts_tbl s Ht))) as [o Eo]. rewrite Eo. cbn [bind].
  destruct o as [j|]; [|eauto]. eexists. split; [reflexivity|]. apply look_probe_spec in Eo. apply (ts_remove s j key _ Ht Eo); reflexivity.
Qed.

Lemma ps_pop_total s : TS s -> SI s -> ps_nonempty s = true -> exists k s', ps_pop s = Ok (k, s') /\ TS s'.
Proof.
  intros Ht Hs Hn. destruct (ps_pop s) as [[k s']|e] eqn:E.
  - exists k, s'. split; [reflexivity|]. unfold ps_pop in E. destruct (_ =? _); [discriminate|].
    set (start := ps_finger s mod S (ps_mask s)) in *.
    destruct (match first_key_from (skipn start (ps_table s)) start with Some h => Some h | None => _ end) as [[j k0]|] eqn:Eh; [|discriminate].
    assert (Hj : nth_error (ps_table s) j = Some (SKey k0)).
    { destruct (first_key_from (skipn start (ps_table s)) start) as [[j1 k1]|] eqn:E1.
      - inversion Eh; subst. destruct (first_key_spec _ _ _ _ E1) as [L H1]. rewrite nth_skipn in H1. replace (start + (j - start)) with j in H1 by lia. exact H1.
      - destruct (first_key_spec _ _ _ _ Eh) as [_ H2]. rewrite Nat.sub_0_r in H2. exact (nth_firstn _ _ _ _ H2). }
    inversion E; subst. apply (ts_remove s j k _ Ht Hj); reflexivity.
  - exfalso. unfold ps_pop in E. unfold ps_nonempty in Hn. apply negb_true_iff in Hn. rewrite Hn in E.
    set (start := ps_finger s mod S (ps_mask s)) in *.
    destruct (match first_key_from (skipn start (ps_table s)) start with Some h => Some h | None => _ end) as [[j k0]|] eqn:Eh; [discriminate|].
    (* no active entry although used > 0 *)
    assert (Z0 : cnt (ps_table s) = 0).
    { assert (FK : forall tbl i, first_key_from tbl i = None -> cnt tbl = 0).
      { induction tbl as [|x r IH]; intros i H; [reflexivity|]. cbn [first_key_from] in H. destruct x; [exact (IH _ H)|exact (IH _ H)|discriminate]. }
      destruct (first_key_from (skipn start (ps_table s)) start) as [h|] eqn:E1; [discriminate|].
      rewrite <- (firstn_skipn start (ps_table s)). unfold cnt. assert (A : forall a b, ps_keys (a ++ b) = ps_keys a ++ ps_keys b).
      { induction a as [|x r IHa]; intro b; [reflexivity|]. cbn [app ps_keys]. destruct x; cbn [ps_keys app]; now rewrite IHa. }
      rewrite A, app_length. pose proof (FK _ _ E1) as X1. pose proof (FK _ _ Eh) as X2. unfold cnt in X1, X2. lia. }
    unfold SI in Hs. apply Nat.eqb_neq in Hn. lia.
Qed.
