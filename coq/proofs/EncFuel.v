(* EncFuel.v — C09/C10: the fuel of the encoder's walk is a modelling device only.  Tree bonds lead to atoms of larger
   index (the reader asserts src < dst when it adds one), so a walk entered with one unit of fuel per remaining atom never
   runs out: after the reader and kekulize have succeeded, nothing in encoder() can end in OutOfFuel. *)
From Coq Require Import Ascii String List Arith ZArith NArith Bool Lia.
Import ListNotations.
From Selfies Require Import Base Generated Lex Atoms Grammar Decoder Smiles PySet Matching Kekulize Encoder BaseFacts
  EncHyp EncShape EncTokens EncRows.
Local Open Scope nat_scope.

Definition nofuel (e : exn) : Prop := e <> OutOfFuel.

Lemma lget_err {A} (l : list A) i e : lget l i = Err e -> nofuel e.
Proof. unfold lget. destruct (nth_error l i); [discriminate|]. intro H; inversion H; discriminate. Qed.

Lemma ebond_err b e : ebond_to_smiles b = Err e -> nofuel e.
Proof. unfold ebond_to_smiles. repeat destruct (_ =? _)%Z; try discriminate. intro H; inversion H; discriminate. Qed.

Lemma bond_sel_err b sh e : bond_to_selfies b sh = Err e -> nofuel e.
Proof. unfold bond_to_selfies. destruct (_ && _); [discriminate|apply ebond_err]. Qed.

Lemma atom_smiles_err a br e : atom_to_smiles a br = Err e -> nofuel e.
Proof.
  unfold atom_to_smiles. destruct (a_aromatic a); [intro H; inversion H; discriminate|].
  destruct (a_isotope a), (a_chirality a), (a_hcount a), (a_charge a =? 0)%Z; discriminate.
Qed.

Lemma atom_sel_err b a e : atom_to_selfies b a = Err e -> nofuel e.
Proof.
  unfold atom_to_selfies. destruct (a_aromatic a); [intro H; inversion H; discriminate|].
  destruct b as [b0|]; cbn [bind].
  - destruct (bond_to_selfies b0 true) as [bc|e1] eqn:Eb; cbn [bind]; [|intro H; inversion H; subst; exact (bond_sel_err _ _ _ Eb)].
    destruct (atom_to_smiles a false) as [t|e2] eqn:Ea; cbn [bind]; [discriminate|intro H; inversion H; subst; exact (atom_smiles_err _ _ _ Ea)].
  - destruct (atom_to_smiles a false) as [t|e2] eqn:Ea; cbn [bind]; [discriminate|intro H; inversion H; subst; exact (atom_smiles_err _ _ _ Ea)].
Qed.

Lemma all_some_err l e : Encoder.all_some l = Err e -> nofuel e.
Proof.
  induction l as [|[b|] r IH]; cbn [Encoder.all_some]; [discriminate| |intro H; inversion H; discriminate].
  destruct (Encoder.all_some r) as [t|e1]; cbn [bind]; [discriminate|]. intro H; inversion H; subst. now apply IH.
Qed.

Lemma dirbond_err m s d e : mg_get_dirbond m s d = Err e -> nofuel e.
Proof. unfold mg_get_dirbond. destruct (mg_find_dirbond m s d); [discriminate|]. intro H; inversion H; discriminate. Qed.

Lemma syms_err : forall ds e, syms_of_digits ds = Err e -> nofuel e.
Proof.
  induction ds as [|d r IH]; intros e; cbn [syms_of_digits]; [discriminate|].
  destruct (nth_error index_alphabet (N.to_nat d)); [|intro H; inversion H; discriminate].
  destruct (syms_of_digits r) as [t|e1] eqn:E1; cbn [bind]; [discriminate|]. intro H; inversion H; subst. exact (IH _ eq_refl).
Qed.

Lemma index_err idx e : get_selfies_from_index idx = Err e -> nofuel e.
Proof.
  unfold get_selfies_from_index. destruct (idx <? 0)%Z; [intro H; inversion H; discriminate|].
  destruct index_alphabet; [intro H; inversion H; discriminate|]. destruct (_ =? _)%N; [discriminate|apply syms_err].
Qed.

Lemma ring_sel_err lb rb e : ring_bonds_to_selfies lb rb = Err e -> nofuel e.
Proof.
  unfold ring_bonds_to_selfies. destruct (negb (_ =? _)%Z); [intro H; inversion H; discriminate|].
  destruct (_ || _); [apply bond_sel_err|discriminate].
Qed.

Section Walk.
Variable m : emol.
Hypothesis Hrow : RowP m.

Definition enough (fuel curr : nat) : Prop := 1 <= fuel /\ (curr < mg_len m -> mg_len m - curr < fuel).

Lemma out_loop_fuel (walk : ebond -> nat -> nat -> res (list str * list amap)) :
  forall bonds, (forall b ai o e, In b bonds -> e_ring b = false -> walk b ai o = Err e -> nofuel e) ->
  forall aidx off e, out_loop m walk bonds aidx off = Err e -> nofuel e.
Proof.
  induction bonds as [|b rest IH]; intros Hw aidx off e E; cbn [out_loop] in E; [discriminate|].
  assert (Hw' : forall b0 ai o e0, In b0 rest -> e_ring b0 = false -> walk b0 ai o = Err e0 -> nofuel e0) by (intros; eapply Hw; [right|..]; eassumption).
  destruct (e_ring b) eqn:Ering.
  - destruct (e_src b <? e_dst b); [exact (IH Hw' _ _ _ E)|].
    destruct (mg_get_dirbond m (e_dst b) (e_src b)) as [rv|e1] eqn:Erv; cbn [bind] in E; [|inversion E; subst; exact (dirbond_err _ _ _ _ Erv)].
    destruct (get_selfies_from_index _) as [Q|e1] eqn:EQ; cbn [bind] in E; [|inversion E; subst; exact (index_err _ _ EQ)].
    destruct (ring_bonds_to_selfies rv b) as [rs|e1] eqn:Er; cbn [bind] in E; [|inversion E; subst; exact (ring_sel_err _ _ _ Er)].
    match type of E with (do _ <- ?X; _) = _ => destruct X as [[ts1 ms1]|e1] eqn:E1 end; cbn [bind] in E; [discriminate|].
    inversion E; subst. exact (IH Hw' _ _ _ E1).
  - destruct rest as [|b2 rest2]; [exact (Hw _ _ _ _ (or_introl eq_refl) Ering E)|].
    destruct (walk b off 0) as [[branch bmaps]|e1] eqn:Eb; cbn [bind] in E; [|inversion E; subst; exact (Hw _ _ _ _ (or_introl eq_refl) Ering Eb)].
    destruct (get_selfies_from_index _) as [Q|e1] eqn:EQ; cbn [bind] in E; [|inversion E; subst; exact (index_err _ _ EQ)].
    destruct (bond_to_selfies b false) as [bs|e1] eqn:Ebs; cbn [bind] in E; [|inversion E; subst; exact (bond_sel_err _ _ _ Ebs)].
    match type of E with (do _ <- ?X; _) = _ => destruct X as [[ts1 ms1]|e1] eqn:E1 end; cbn [bind] in E; [discriminate|].
    inversion E; subst. exact (IH Hw' _ _ _ E1).
Qed.

Lemma all_some_In : forall raw bonds b, Encoder.all_some raw = Ok bonds -> In b bonds -> In (Some b) raw.
Proof.
  induction raw as [|[x|] r IH]; intros bonds b E Hb; cbn [Encoder.all_some] in E; [inversion E; subst; destruct Hb| |discriminate].
  destruct (Encoder.all_some r) as [t|]; cbn [bind] in E; [|discriminate]. inversion E; subst. destruct Hb as [->|Hb]; [now left|right; exact (IH _ _ eq_refl Hb)].
Qed.

Lemma walk_fuel : forall fuel b curr aidx off e, enough fuel curr -> fragment_walk fuel m b curr aidx off = Err e -> nofuel e.
Proof.
  induction fuel as [|f IH]; intros b curr aidx off e [H1 H2] E; [exfalso; lia|]. cbn [fragment_walk] in E.
  destruct (mg_get_atom m curr) as [[a at_]|e1] eqn:Ea; cbn [bind fst snd] in E; [|inversion E; subst; exact (lget_err _ _ _ Ea)].
  destruct (atom_to_selfies b a) as [tok|e1] eqn:Et; cbn [bind fst] in E; [|inversion E; subst; exact (atom_sel_err _ _ _ Et)].
  destruct (mg_get_out_dirbonds m curr) as [raw|e1] eqn:Eraw; cbn [bind] in E; [|inversion E; subst; exact (lget_err _ _ _ Eraw)].
  destruct (Encoder.all_some raw) as [bonds|e1] eqn:Eall; cbn [bind] in E; [|inversion E; subst; exact (all_some_err _ _ Eall)].
  match type of E with (do _ <- ?X; _) = _ => destruct X as [[ts1 ms1]|e1] eqn:E1 end; cbn [bind] in E; [discriminate|].
  inversion E; subst e1; clear E.
  assert (Hcurr : curr < mg_len m).
  { unfold mg_get_atom in Ea. apply lget_In in Ea. unfold mg_len. apply nth_error_Some. congruence. }
  specialize (H2 Hcurr).
  refine (out_loop_fuel _ _ _ _ _ _ E1). intros b0 ai o e0 Hb0 Hr0 Ew.
  unfold ring_bonds_first in Hb0. apply in_app_iff in Hb0. assert (Hin : In b0 bonds) by (destruct Hb0 as [Hb0|Hb0]; apply filter_In in Hb0; tauto).
  unfold mg_get_out_dirbonds in Eraw. apply lget_In in Eraw.
  destruct (Hrow _ _ _ Eraw (all_some_In _ _ _ Eall Hin)) as [Hs Hf]. specialize (Hf Hr0).
  eapply IH; [|exact Ew]. split; [lia|intros; lia].
Qed.
End Walk.

Theorem emission_never_out_of_fuel m : RowP m -> forall roots aidx e, encode_roots m roots aidx = Err e -> nofuel e.
Proof.
  intro Hrow. induction roots as [|r rest IH]; intros aidx e E; cbn [encode_roots] in E; [discriminate|].
  destruct (fragment_to_selfies m r aidx) as [[derived mp]|e1] eqn:Ef; cbn [bind] in E.
  - destruct (encode_roots m rest _) as [[frags' maps']|e1] eqn:Er; cbn [bind] in E; [discriminate|]. inversion E; subst. exact (IH _ _ Er).
  - inversion E; subst. unfold fragment_to_selfies in Ef. eapply (walk_fuel m Hrow); [|exact Ef]. split; [lia|intros; lia].
Qed.

(* the strict check and the inversion pass have no fuel at all *)
Lemma constraint_errors_err capf m : (forall el c e, capf el c = Err e -> nofuel e) -> forall atoms idx e, bond_constraint_errors capf m atoms idx = Err e -> nofuel e.
Proof.
  intro Hc. induction atoms as [|[a at_] r IH]; intros idx e E; cbn [bond_constraint_errors] in E; [discriminate|].
  unfold bonding_capacity_c in E. destruct (capf (a_element a) (a_charge a)) as [c|e1] eqn:Ec; cbn [bind] in E; [|inversion E; subst; exact (Hc _ _ _ Ec)].
  destruct (mg_get_bond_count2 m idx) as [c2|e1] eqn:Eb; cbn [bind] in E; [|inversion E; subst; exact (lget_err _ _ _ Eb)].
  destruct (_ <? _)%Z; [|exact (IH _ _ E)].
  destruct (atom_to_smiles a true) as [x|e1] eqn:Ea; cbn [bind] in E; [|inversion E; subst; exact (atom_smiles_err _ _ _ Ea)].
  destruct (bond_constraint_errors capf m r (S idx)) as [x2|e1] eqn:Er; cbn [bind] in E; [discriminate|inversion E; subst; exact (IH _ _ Er)].
Qed.

Lemma partition_err : forall bonds i e, partition_bonds bonds i = Err e -> nofuel e.
Proof.
  induction bonds as [|[b|] r IH]; intros i e E; cbn [partition_bonds] in E; [discriminate| |inversion E; discriminate].
  destruct (partition_bonds r (S i)) as [[[p0 p1] p2]|e1] eqn:Ep; cbn [bind] in E; [|inversion E; subst; exact (IH _ _ Ep)].
  destruct (negb (e_ring b)); [discriminate|]. destruct (_ <? _); discriminate.
Qed.

Lemma invert_pass_err m : forall atoms idx e, invert_pass m atoms idx = Err e -> nofuel e.
Proof.
  induction atoms as [|[a at_] r IH]; intros idx e E; cbn [invert_pass] in E; [discriminate|].
  match type of E with (do a' <- ?X; _) = _ => destruct X as [a'|e1] eqn:Ea end; cbn [bind] in E.
  - destruct (invert_pass m r (S idx)) as [rest|e1] eqn:Er; cbn [bind] in E; [discriminate|inversion E; subst; exact (IH _ _ Er)].
  - inversion E; subst e1; clear E. destruct (a_chirality a); [|discriminate].
    destruct (mg_has_out_ring_bond m idx) as [flag|e1] eqn:Ef; cbn [bind] in Ea; [|inversion Ea; subst; exact (lget_err _ _ _ Ef)].
    destruct flag; [|discriminate].
    destruct (should_invert_chirality m idx) as [inv|e1] eqn:Es; cbn [bind] in Ea; [discriminate|]. inversion Ea; subst e1.
    unfold should_invert_chirality in Es. destruct (mg_get_out_dirbonds m idx) as [ob|e2] eqn:Eo; cbn [bind] in Es; [|inversion Es; subst; exact (lget_err _ _ _ Eo)].
    destruct (partition_bonds ob 0) as [[[p0 p1] p2]|e2] eqn:Ep; cbn [bind] in Es; [discriminate|inversion Es; subst; exact (partition_err _ _ _ Ep)].
Qed.

Lemma capacity_err T el c e : get_bonding_capacity T el c = Err e -> nofuel e.
Proof. unfold get_bonding_capacity. destruct (assoc _ T); [discriminate|]. destruct (assoc _ T); [discriminate|]. intro H; inversion H; discriminate. Qed.

(* once the reader and kekulize have returned, encoder() cannot end in OutOfFuel *)
Theorem encoder_after_kekulize_no_fuel T smiles strict attribute m0 m1 e :
  smiles_to_mol smiles attribute = Ok m0 -> kekulize m0 = Ok (Some m1) ->
  encoder T smiles strict attribute = Err e -> nofuel e.
Proof.
  intros Ep Ek E. unfold encoder, encoder_c in E. rewrite Ep in E. unfold encode_mol in E. rewrite Ek in E. cbn [bind] in E.
  destruct (parsed_row _ _ _ Ep) as [R0 _]. destruct (kekulize_row _ _ R0 Ek) as [R1 _].
  match type of E with (do _ <- ?X; _) = _ => destruct X as [u|e1] eqn:Ec end; cbn [bind] in E.
  - destruct (invert_pass m1 (m_atoms m1) 0) as [atoms'|e1] eqn:Ei; cbn [bind] in E; [|inversion E; subst; exact (invert_pass_err _ _ _ _ Ei)].
    assert (R2 : RowP (set_atoms m1 atoms')) by exact R1.
    destruct (encode_roots (set_atoms m1 atoms') _ 0) as [[frags maps]|e1] eqn:Er; cbn [bind] in E; [discriminate|].
    inversion E; subst. exact (emission_never_out_of_fuel _ R2 _ _ _ Er).
  - inversion E; subst e1; clear E. destruct strict; [|discriminate]. unfold check_bond_constraints in Ec.
    destruct (bond_constraint_errors _ m1 (m_atoms m1) 0) as [bad|e1] eqn:Eb; cbn [bind] in Ec.
    + destruct bad; [inversion Ec; discriminate|discriminate].
    + inversion Ec; subst. exact (constraint_errors_err _ _ (capacity_err T) _ _ _ Eb).
Qed.
