(* EncKek.v — C09, middle stage: what kekulize does before and after the matching never crashes.  Reader invariant DSK:
   every key of the delocalisation subgraph has an entry, and every listed pair is joined by a stored edge (from the
   smaller index to the larger).  With the alignment of the arrays (GWF), keys below the number of atoms (DSI) and the
   two tables AROMATIC_VALENCES / VALENCE_ELECTRONS agreeing on their keys, the element test, _prune_from_ds over every
   key, the relabelling and dearomatize all return; what is left to the matching is named in the final theorem. *)
From Coq Require Import Ascii String List Arith ZArith NArith Bool Lia.
Import ListNotations.
From Selfies Require Import Base Generated Lex Atoms Grammar Decoder Smiles PySet Matching Kekulize Encoder BaseFacts ConfigFacts DecoderInv
  ParserTotal EncHyp EncShape EncTokens EncRows EncAttr EncStereo EncFuel EncIndex EncKey EncAttrErr EncArom EncUniq EncOrders.
Local Open Scope nat_scope.

(* ---------- the reader invariant ---------- *)
Definition linkE (m : emol) (k d : nat) : Prop := exists r, edge_in m (Nat.min k d) (Nat.max k d) r.
Definition K1 (D : dsub) : Prop := forall k, In k (ds_keys D) -> ds_lookup D k <> None.
Definition K2 (m : emol) (D : dsub) : Prop := forall k l d, ds_lookup D k = Some l -> In d l -> linkE m k d.
Definition DSK (m : emol) : Prop := K1 (m_ds m) /\ K2 m (m_ds m).

Lemma linkE_sym m a b : linkE m a b -> linkE m b a.
Proof. unfold linkE. now rewrite Nat.min_comm, Nat.max_comm. Qed.
Lemma linkE_grows m m' new a b : grows m m' new -> linkE m a b -> linkE m' a b.
Proof. intros G [r H]. exists r. apply G. now left. Qed.

Lemma store_k1 D k v : K1 D -> K1 (ds_store D k v).
Proof.
  intros H j Hj. destruct (Nat.eq_dec j k) as [->|Hne]; [rewrite lookup_store_same; discriminate|].
  rewrite lookup_store_other by exact Hne. apply H. unfold ds_store in Hj. cbn [ds_keys] in Hj.
  destruct (ds_lookup D k); [exact Hj|]. apply in_app_iff in Hj as [Hj|[Hj|[]]]; [exact Hj|congruence].
Qed.

Lemma append_k2 m D a b : K2 m D -> linkE m a b -> K2 m (ds_append D a b).
Proof.
  intros H Hl k l d Hk Hd. unfold ds_append in Hk. destruct (Nat.eq_dec k a) as [->|Hne].
  - rewrite lookup_store_same in Hk. inversion Hk; subst l. destruct (ds_lookup D a) as [v|] eqn:E.
    + apply in_app_iff in Hd as [Hd|[Hd|[]]]; [exact (H a v d E Hd)|subst; exact Hl].
    + destruct Hd as [Hd|[]]; subst; exact Hl.
  - rewrite lookup_store_other in Hk by exact Hne. exact (H k l d Hk Hd).
Qed.

Lemma k2_grows m m' new D : grows m m' new -> K2 m D -> K2 m' D.
Proof. intros G H k l d Hk Hd. exact (linkE_grows _ _ _ _ _ G (H k l d Hk Hd)). Qed.

Lemma dsk_step m m' new a b : DSK m -> grows m m' new ->
  (m_ds m' = m_ds m \/ (m_ds m' = ds_append (ds_append (m_ds m) a b) b a /\ linkE m' a b)) -> DSK m'.
Proof.
  intros [H1 H2] G [E|[E L]]; unfold DSK; rewrite E; split.
  - exact H1.
  - exact (k2_grows _ _ _ _ G H2).
  - apply store_k1, store_k1, H1.
  - apply append_k2; [apply append_k2; [exact (k2_grows _ _ _ _ G H2)|exact L]|exact (linkE_sym _ _ _ L)].
Qed.

Lemma add_bond_dsk m src dst o2 st at_ m' : DSK m -> mg_add_bond m src dst o2 st at_ = Ok m' -> DSK m'.
Proof.
  intros Hd E. pose proof (add_bond_grows _ _ _ _ _ _ _ E) as G. apply (dsk_step m m' _ src dst Hd G).
  unfold mg_add_bond in E. destruct (src <? dst) eqn:Elt; cbn [negb] in E; [|discriminate]. apply Nat.ltb_lt in Elt.
  destruct (mg_add_bond_at_loc _ _ _) as [m1|] eqn:E1; cbn [bind] in E; [|discriminate].
  destruct (mg_add_count2 m1 _ _) as [m2|] eqn:E2; cbn [bind] in E; [|discriminate].
  destruct (mg_add_count2 m2 _ _) as [m3|] eqn:E3; cbn [bind] in E; [|discriminate].
  apply at_loc_ds in E1. apply add_count_ds in E2, E3.
  destruct (_ =? _)%Z; inversion E; subst m'; [right|left; congruence]. split; [cbn [set_ds m_ds]; congruence|].
  exists false. rewrite Nat.min_l, Nat.max_r by lia. apply G. right. now left.
Qed.

Lemma add_ring_dsk m a b o2 sa sb pa pb m' : DSK m -> mg_add_ring_bond m a b o2 sa sb pa pb = Ok m' -> DSK m'.
Proof.
  intros Hd E. pose proof (add_ring_grows _ _ _ _ _ _ _ _ _ E) as G. apply (dsk_step m m' _ a b Hd G).
  unfold mg_add_ring_bond in E.
  destruct (mg_add_bond_at_loc m _ _) as [m1|] eqn:E1; cbn [bind] in E; [|discriminate].
  destruct (mg_add_bond_at_loc m1 _ _) as [m2|] eqn:E2; cbn [bind] in E; [|discriminate].
  destruct (mg_add_count2 m2 _ _) as [m3|] eqn:E3; cbn [bind] in E; [|discriminate].
  destruct (mg_add_count2 m3 _ _) as [m4|] eqn:E4; cbn [bind] in E; [|discriminate].
  destruct (lupd (m_ringflags m4) _ _) as [f1|]; cbn [bind] in E; [|discriminate].
  destruct (lupd f1 _ _) as [f2|]; cbn [bind] in E; [|discriminate].
  apply at_loc_ds in E1, E2. apply add_count_ds in E3, E4.
  destruct (_ =? _)%Z; inversion E; subst m'; [right|left; cbn [set_ringflags m_ds]; congruence]. split; [cbn [set_ds set_ringflags m_ds]; congruence|].
  exists true. apply G. right. destruct (Nat.le_ge_cases a b) as [L|L]; [rewrite Nat.min_l, Nat.max_r by lia; now left|rewrite Nat.min_r, Nat.max_l by lia; right; now left].
Qed.

Lemma make_ring_dsk m lt la lp rt ra m' : DSK m -> make_ring_bonds m lt la lp rt ra = Ok m' -> DSK m'.
Proof.
  intros Hd. unfold make_ring_bonds. destruct (_ =? _); [discriminate|]. destruct (mg_has_bond _ _ _); [discriminate|].
  match goal with |- (let '(b0, b1) := ?X in _) = _ -> _ => destruct X as [b0 b1] end.
  destruct (negb _); [discriminate|].
  destruct (smiles_to_bond2 (t_bond lt)) as [lo ls]. destruct (smiles_to_bond2 (t_bond rt)) as [ro rs].
  destruct (mg_get_atom m la); cbn [bind]; [|discriminate]. destruct (mg_get_atom m ra); cbn [bind]; [|discriminate].
  match goal with |- (let '(x, y) := ?X in _) = _ -> _ => destruct X as [lo' ro'] end.
  apply add_ring_dsk; assumption.
Qed.

Lemma placeholder_dsk m src m' k : DSK m -> mg_add_placeholder_bond m src = Ok (m', k) -> DSK m'.
Proof. intros Hd E. apply (dsk_step m m' _ 0 0 Hd (placeholder_grows _ _ _ _ E)). left. exact (placeholder_ds _ _ _ _ E). Qed.

Lemma add_atom_grows m a root : grows m (fst (mg_add_atom m a root)) [].
Proof.
  intros j d r. unfold edge_in, mg_add_atom. cbn [fst m_adj]. split.
  - intros (row & e & Hn & Hin & He). left. destruct (Nat.lt_ge_cases j (length (m_adj m))) as [Lt|G].
    + rewrite nth_error_app1 in Hn by exact Lt. eauto.
    + rewrite nth_error_app2 in Hn by exact G. destruct (j - length (m_adj m)) as [|k]; cbn in Hn; [inversion Hn; subst; destruct Hin|destruct k; discriminate].
  - intros [(row & e & Hn & Hin & He)|[]]. exists row, e. split; [|auto]. rewrite nth_error_app1; [exact Hn|]. apply nth_error_Some. congruence.
Qed.

Lemma attach_dsk m tok a prev i m' idx i' : DSK m -> attach_atom m tok a prev i = Ok (m', idx, i') -> DSK m'.
Proof.
  intros [H1 H2]. unfold attach_atom. pose proof (add_atom_grows m a (match prev with None => true | Some _ => false end)) as G1.
  destruct (mg_add_atom m a _) as [m1 ix] eqn:Ea. cbn [fst] in G1.
  assert (D1 : DSK m1).
  { unfold mg_add_atom in Ea. inversion Ea; subst m1 ix. split; cbn [m_ds].
    - destruct (a_aromatic a); [apply store_k1|]; exact H1.
    - destruct (a_aromatic a); [|exact (k2_grows _ _ _ _ G1 H2)]. intros k l d Hk Hd. unfold ds_set_empty in Hk.
      destruct (Nat.eq_dec k (mg_len m)) as [->|Hne]; [rewrite lookup_store_same in Hk; inversion Hk; subst; destruct Hd|].
      rewrite lookup_store_other in Hk by exact Hne. exact (linkE_grows _ _ _ _ _ G1 (H2 k l d Hk Hd)). }
  destruct (mg_add_attr_atom m1 ix _) as [m2|] eqn:E2; cbn [bind]; [|discriminate].
  assert (D2 : DSK m2).
  { pose proof (add_attr_adj _ _ _ _ E2) as A2.
    assert (Dd : m_ds m2 = m_ds m1) by (unfold mg_add_attr_atom in E2; destruct (m_attributable m1); [destruct (lupd _ _ _); cbn [bind] in E2; [inversion E2; reflexivity|discriminate]|inversion E2; reflexivity]).
    apply (dsk_step m1 m2 [] 0 0 D1 (grows_refl _ _ A2)). now left. }
  destruct prev as [src|]; [|intro E; inversion E; subst; exact D2].
  destruct (smiles_to_bond2 (t_bond tok)) as [o2 st].
  destruct (mg_get_atom m2 src); cbn [bind]; [|discriminate].
  destruct (mg_add_bond m2 _ _ _ _ _) as [m3|] eqn:E3; cbn [bind]; [|discriminate].
  intro E; inversion E; subst. exact (add_bond_dsk _ _ _ _ _ _ _ D2 E3).
Qed.

Lemma derive_loop_dsk : forall ts st st' rest, DSK (p_mol st) -> derive_loop ts st = Ok (st', rest) -> DSK (p_mol st').
Proof.
  induction ts as [|tok r IH]; intros st st' rest Hd E; cbn [derive_loop] in E; [inversion E; subst; exact Hd|].
  destruct (p_prev st) as [|prev below]; [discriminate|].
  destruct (t_type tok).
  - destruct (smiles_to_atom (t_text tok)) as [[a|]|]; cbn [bind] in E; try discriminate.
    destruct (attach_atom _ _ _ _ _) as [[[m' idx] i']|] eqn:Eat; cbn [bind] in E; [|discriminate].
    apply IH in E; [exact E|]. cbn [p_mol]. exact (attach_dsk _ _ _ _ _ _ _ _ Hd Eat).
  - destruct (p_chain_start st); [discriminate|].
    destruct (str_eqb _ _); [apply IH in E; [exact E|exact Hd]|]. destruct (p_branch st); [discriminate|]. apply IH in E; [exact E|exact Hd].
  - destruct (p_chain_start st); [discriminate|].
    destruct (ring_log_find _ _) as [[[ltok latom] lpos]|].
    + destruct (atom_index prev) as [ratom|]; cbn [bind] in E; [|discriminate].
      destruct (make_ring_bonds _ _ _ _ _ _) as [m'|] eqn:Er; cbn [bind] in E; [|discriminate].
      apply IH in E; [exact E|]. cbn [p_mol]. exact (make_ring_dsk _ _ _ _ _ _ _ Hd Er).
    + destruct (atom_index prev) as [src|]; cbn [bind] in E; [|discriminate].
      destruct (mg_add_placeholder_bond _ _) as [[m' lpos]|] eqn:Epl; cbn [bind] in E; [|discriminate].
      apply IH in E; [exact E|]. cbn [p_mol]. exact (placeholder_dsk _ _ _ _ Hd Epl).
  - inversion E; subst. exact Hd.
Qed.

Lemma fragments_dsk : forall fuel m ts i m', DSK m -> fragments_loop fuel m ts i = Ok m' -> DSK m'.
Proof.
  induction fuel as [|f IH]; intros m ts i m' Hd E; [discriminate|]. cbn [fragments_loop] in E.
  destruct ts as [|t r]; [inversion E; subst; exact Hd|].
  destruct (derive_mol_from_tokens m (t :: r) i) as [[[m1 i1] rest]|] eqn:Ed; cbn [bind] in E; [|discriminate].
  unfold derive_mol_from_tokens in Ed.
  destruct (derive_loop (t :: r) _) as [[st rest']|] eqn:El; cbn [bind] in Ed; [|discriminate].
  pose proof (derive_loop_dsk _ _ _ _ (Hd : DSK (p_mol {| p_mol := m; p_i := i; p_tok := None; p_prev := [None]; p_branch := []; p_rings := []; p_chain_start := true |})) El) as D1.
  destruct (_ =? _); [discriminate|]. destruct (p_branch st); [|discriminate]. destruct (p_rings st); [|discriminate].
  inversion Ed; subst. exact (IH _ _ _ _ D1 E).
Qed.

Theorem parsed_dsk smiles attributable m : smiles_to_mol smiles attributable = Ok m -> DSK m.
Proof.
  unfold smiles_to_mol. destruct smiles as [|c s]; [discriminate|].
  destruct (tokenize_smiles (c :: s)) as [ts|]; cbn [bind]; [|discriminate].
  apply fragments_dsk. split; [intros k []|]. intros k l d Hk. unfold ds_lookup in Hk. cbn in Hk. destruct k; discriminate.
Qed.

(* ---------- an unbracketed atom carries no charge ---------- *)
Definition HC0 (a : atom) : Prop := a_hcount a = None -> a_charge a = 0%Z.

Lemma smiles_atom_hc0 s a : smiles_to_atom s = Ok (Some a) -> HC0 a.
Proof.
  unfold smiles_to_atom, HC0. destruct s as [|c0 r]; [discriminate|].
  destruct (_ && _).
  - destruct (match_bracket_atom _) as [g|]; [|discriminate].
    match goal with |- (do _ <- ?X; _) = _ -> _ => destruct X as [iso|] end; cbn [bind]; [|discriminate].
    destruct (negb _); [discriminate|].
    match goal with |- (do _ <- ?X; _) = _ -> _ => destruct X as [h|] end; cbn [bind]; [|discriminate].
    match goal with |- (do _ <- ?X; _) = _ -> _ => destruct X as [chg|] end; cbn [bind]; [|discriminate].
    intro E; inversion E; subst; cbn. discriminate.
  - destruct (mem_str _ organic_subset); [intro E; inversion E; reflexivity|]. destruct (mem_str _ _); [intro E; inversion E; reflexivity|discriminate].
Qed.

Theorem parsed_hc0 smiles attributable m : smiles_to_mol smiles attributable = Ok m -> Forall HC0 (atoms_of m).
Proof.
  apply (parsed_atoms (fun _ => True) HC0 (fun tok a _ Ea => smiles_atom_hc0 _ a Ea)).
  intros ts _. apply Forall_forall. intros; exact I.
Qed.

(* ---------- the two tables of _prune_from_ds agree ---------- *)
Lemma aromatic_tables_checked :
  forallb (fun p => match snd p with [] => false | _ :: _ => true end &&
                    match assoc (fst p) valence_electrons with Some _ => true | None => false end) aromatic_valences = true.
Proof. vm_compute. reflexivity. Qed.

Lemma aromatic_tables_ok el : in_aromatic_valences el = true ->
  exists v0 vs ve, aromatic_valences_of el = Ok (v0 :: vs) /\ valence_electrons_of el = Ok ve.
Proof.
  unfold in_aromatic_valences, aromatic_valences_of, valence_electrons_of. destruct (assoc el aromatic_valences) as [v|] eqn:E; [|discriminate]. intros _.
  apply assoc_in in E. pose proof (proj1 (forallb_forall _ _) aromatic_tables_checked _ E) as H. cbn [fst snd] in H.
  apply andb_true_iff in H as [H1 H2]. destruct v as [|v0 vs]; [discriminate|]. destruct (assoc el valence_electrons) as [ve|]; [|discriminate]. eauto.
Qed.

Lemma last_valence_ok v0 vs : exists v, last_valence (v0 :: vs) = Ok v.
Proof.
  unfold last_valence. destruct (rev (v0 :: vs)) as [|x r] eqn:E; [|eauto].
  apply (f_equal (@length Z)) in E. rewrite rev_length in E. discriminate.
Qed.

(* ---------- before the matching ---------- *)
Lemma items_spec D v l : In (v, l) (ds_items D) -> ds_lookup D v = Some l /\ In v (ds_keys D).
Proof.
  unfold ds_items. intro H. apply in_flat_map in H as (k & Hk & Hin). destruct (ds_lookup D k) as [x|] eqn:E; [|destruct Hin].
  destruct Hin as [Hin|[]]. inversion Hin; subst. auto.
Qed.

Lemma get_atom_ok m v : v < mg_len m -> exists aa, mg_get_atom m v = Ok aa /\ nth_error (m_atoms m) v = Some aa.
Proof.
  intro H. unfold mg_get_atom, lget, mg_len in *. destruct (nth_error (m_atoms m) v) as [aa|] eqn:E; [eauto|]. apply nth_error_None in E. lia.
Qed.

Lemma any_bad_total m : forall items, (forall v l, In (v, l) items -> v < mg_len m) -> exists b, any_bad_element m items = Ok b.
Proof.
  induction items as [|[v l] r IH]; intro H; cbn [any_bad_element]; [eauto|].
  assert (Hr : forall v0 l0, In (v0, l0) r -> v0 < mg_len m) by (intros; eapply H; right; eauto).
  destruct l as [|x l]; [exact (IH Hr)|]. destruct (get_atom_ok m v (H v _ (or_introl eq_refl))) as (aa & Ea & _). rewrite Ea. cbn [bind].
  destruct (negb _); [eauto|exact (IH Hr)].
Qed.

Lemma any_bad_false m : forall items, any_bad_element m items = Ok false ->
  forall v l, In (v, l) items -> l <> [] -> exists aa, mg_get_atom m v = Ok aa /\ in_aromatic_valences (a_element (fst aa)) = true.
Proof.
  induction items as [|[v l] r IH]; intros E v0 l0 Hin Hl; [destruct Hin|]. cbn [any_bad_element] in E.
  destruct l as [|x l].
  - destruct Hin as [Hin|Hin]; [inversion Hin; subst; congruence|exact (IH E _ _ Hin Hl)].
  - destruct (mg_get_atom m v) as [aa|] eqn:Ea; cbn [bind] in E; [|discriminate].
    destruct (in_aromatic_valences (a_element (fst aa))) eqn:Ei; cbn [negb] in E; [|discriminate].
    destruct Hin as [Hin|Hin]; [inversion Hin; subst; eauto|exact (IH E _ _ Hin Hl)].
Qed.

Lemma prune_total m k l : GWF m -> ds_lookup (m_ds m) k = Some l -> k < mg_len m ->
  (l <> [] -> exists aa, mg_get_atom m k = Ok aa /\ in_aromatic_valences (a_element (fst aa)) = true /\ HC0 (fst aa)) ->
  exists p, prune_from_ds m k = Ok p.
Proof.
  intros [_ Gc _] Hl Hk Ha. unfold prune_from_ds. rewrite Hl. destruct l as [|x l]; [eauto|].
  destruct Ha as (aa & Ea & Ei & Hc); [discriminate|]. rewrite Ea. cbn [bind].
  destruct (aromatic_tables_ok _ Ei) as (v0 & vs & ve & Ev & Ee). rewrite Ev. cbn [bind].
  unfold mg_get_bond_count2, lget. destruct (nth_error (m_counts2 m) k) as [c2|] eqn:Ec; [|apply nth_error_None in Ec; lia]. cbn [bind].
  destruct (a_hcount (fst aa)) as [h|] eqn:Eh.
  - destruct (last_valence_ok v0 vs) as [vl Evl]. rewrite Evl. cbn [bind]. rewrite Ee. cbn [bind]. destruct (existsb _ _); eauto.
  - rewrite (Hc Eh). cbn. eauto.
Qed.

Lemma kept_total m : forall keys, (forall k, In k keys -> exists p, prune_from_ds m k = Ok p) ->
  exists kept, kept_nodes_of m keys = Ok kept /\ incl kept keys.
Proof.
  induction keys as [|k r IH]; intro H; cbn [kept_nodes_of]; [exists []; split; [reflexivity|intros x []]|].
  destruct (H k (or_introl eq_refl)) as [p Ep]. rewrite Ep. cbn [bind].
  destruct IH as (rest & Er & Hi); [intros; apply H; now right|]. rewrite Er. cbn [bind].
  destruct p; eexists; (split; [reflexivity|]); intros x Hx; [right; now apply Hi|destruct Hx as [->|Hx]; [now left|right; now apply Hi]].
Qed.

Lemma insert_sorted_in x y : forall l, In y (insert_sorted x l) -> y = x \/ In y l.
Proof.
  induction l as [|z r IH]; cbn [insert_sorted]; [intros [->|[]]; now left|].
  destruct (x <=? z); [intros [->|H]; [now left|now right]|intros [->|H]; [right; now left|destruct (IH H); [now left|right; now right]]].
Qed.
Lemma sort_nat_in y : forall l, In y (sort_nat l) -> In y l.
Proof.
  induction l as [|x r IH]; cbn [sort_nat fold_right]; [intros []|]. intro H. apply insert_sorted_in in H as [->|H]; [now left|right; now apply IH].
Qed.

Lemma pruned_total m labels : forall sorted, (forall x, In x sorted -> ds_lookup (m_ds m) x <> None) -> exists g, pruned_ds_of m labels sorted = Ok g.
Proof.
  induction sorted as [|x r IH]; intro H; cbn [pruned_ds_of]; [eauto|].
  destruct (ds_lookup (m_ds m) x) as [adjs|] eqn:E; [|exfalso; exact (H x (or_introl eq_refl) E)].
  destruct IH as [g Eg]; [intros; apply H; now right|]. rewrite Eg. cbn [bind]. eauto.
Qed.

(* ---------- lowering the listed pairs ---------- *)
Definition Bnd (m : emol) : Prop := forall j d r, edge_in m j d r -> d < mg_len m.
Definition UOK (m : emol) : Prop := GWF m /\ RS m /\ Bnd m.

Lemma dirbond_ok m j d r : edge_in m j d r -> exists e, mg_get_dirbond m j d = Ok e /\ edge_in m j d (e_ring e).
Proof.
  intros (row & e & Hn & Hin & Hd & Hr). unfold mg_get_dirbond, mg_find_dirbond. rewrite Hn.
  destruct (find_edge_some row d (ex_intro _ e (conj Hin Hd))) as [e' Ef]. rewrite Ef. exists e'. split; [reflexivity|].
  exists row, e'. split; [exact Hn|]. split; [exact (find_edge_In _ _ _ Ef)|]. split; [exact (find_edge_dst _ _ _ Ef)|reflexivity].
Qed.

Lemma update_ok m a0 b0 o : UOK m -> linkE m a0 b0 -> (2 <= o <= 6)%Z ->
  exists m', mg_update_bond_order m a0 b0 o = Ok m' /\ UOK m' /\ grows m m' [] /\ mg_len m' = mg_len m.
Proof.
  intros (Hg & Hrs & Hb) [r Hl] Ho.
  assert (Fin : forall m', mg_update_bond_order m a0 b0 o = Ok m' -> UOK m' /\ grows m m' [] /\ mg_len m' = mg_len m).
  { intros m' E. pose proof (update_order_grows _ _ _ _ _ E) as G. destruct (update_order_gwf _ _ _ _ _ Hg E) as (G1 & _ & L1).
    split; [|split; [exact G|exact L1]]. split; [exact G1|]. split; [exact (rs_same _ _ G Hrs)|].
    intros j d r0 He. rewrite L1. apply G in He as [He|[]]. exact (Hb _ _ _ He). }
  destruct (mg_update_bond_order m a0 b0 o) as [m'|e] eqn:E; [exists m'; split; [reflexivity|exact (Fin m' eq_refl)]|]. exfalso. clear Fin.
  unfold mg_update_bond_order in E. replace (negb _) with false in E by (symmetry; apply negb_false_iff, andb_true_iff; split; apply Z.leb_le; lia).
  destruct (dirbond_ok _ _ _ _ Hl) as (ab & Eab & Hab). rewrite Eab in E. cbn [bind] in E.
  destruct (_ =? _)%Z; [discriminate|].
  assert (La : Nat.min a0 b0 < mg_len m).
  { destruct Hl as (row & e0 & Hn & _). destruct Hg as [Ga _ _]. rewrite <- Ga. apply nth_error_Some. congruence. }
  pose proof (Hb _ _ _ Hl) as Lb.
  assert (X : exists adj1, (if e_ring ab then do _ <- mg_get_dirbond m (Nat.max a0 b0) (Nat.min a0 b0); Ok (upd (upd (m_adj m) (Nat.min a0 b0) (fun l => set_edge_order2 l (Nat.max a0 b0) o)) (Nat.max a0 b0) (fun l => set_edge_order2 l (Nat.min a0 b0) o))
                            else Ok (upd (m_adj m) (Nat.min a0 b0) (fun l => set_edge_order2 l (Nat.max a0 b0) o))) = Ok adj1 /\ length adj1 = length (m_adj m)).
  { destruct (e_ring ab) eqn:Er.
    - destruct (dirbond_ok _ _ _ _ (Hrs _ _ Hab)) as (ba & Eba & _). rewrite Eba. cbn [bind]. eexists; split; [reflexivity|now rewrite !upd_length].
    - eexists; split; [reflexivity|now rewrite upd_length]. }
  destruct X as (adj1 & Ead & Len). rewrite Ead in E. cbn [bind] in E.
  assert (G1 : GWF (set_adj m adj1)) by (destruct Hg as [A B C]; constructor; unfold mg_len in *; cbn [set_adj m_adj m_counts2 m_ringflags m_atoms]; congruence).
  destruct (add_count_ok (set_adj m adj1) (Nat.min a0 b0) (o - e_order2 ab) La G1) as (m1 & E1 & G2 & L2 & _). rewrite E1 in E. cbn [bind] in E.
  destruct (add_count_ok m1 (Nat.max a0 b0) (o - e_order2 ab)) as (m2 & E2 & _); [rewrite L2; exact Lb|exact G2|]. rewrite E2 in E. discriminate.
Qed.

Lemma single_bonds_ok : forall adjs m node, UOK m -> (forall d, In d adjs -> linkE m node d) ->
  exists m', set_single_bonds m node adjs = Ok m' /\ UOK m' /\ grows m m' [] /\ mg_len m' = mg_len m.
Proof.
  induction adjs as [|x r IH]; intros m node Hu Hl; cbn [set_single_bonds].
  - exists m. split; [reflexivity|]. split; [exact Hu|]. split; [apply grows_refl; reflexivity|reflexivity].
  - destruct (update_ok m node x 2 Hu (Hl x (or_introl eq_refl)) ltac:(lia)) as (m1 & E1 & U1 & G1 & L1). rewrite E1. cbn [bind].
    destruct (IH m1 node U1) as (m2 & E2 & U2 & G2 & L2); [intros d Hd; exact (linkE_grows _ _ _ _ _ G1 (Hl d (or_intror Hd)))|].
    exists m2. split; [exact E2|]. split; [exact U2|]. split; [exact (grows_trans _ _ _ _ _ G1 G2)|congruence].
Qed.

Lemma uok_same m m' : m_adj m' = m_adj m -> length (m_counts2 m') = length (m_counts2 m) -> length (m_ringflags m') = length (m_ringflags m) ->
  length (m_atoms m') = length (m_atoms m) -> UOK m -> UOK m'.
Proof.
  intros Ea Ec Ef Et ([A B C] & Hrs & Hb). assert (L : mg_len m' = mg_len m) by (unfold mg_len; exact Et).
  split; [constructor; rewrite L; congruence|]. split; [exact (rs_same _ _ (grows_refl _ _ Ea) Hrs)|].
  intros j d r He. rewrite L. apply (grows_refl _ _ Ea) in He as [He|[]]. exact (Hb _ _ _ He).
Qed.

Lemma dearomatize_ok : forall L m, UOK m -> (forall node adjs, In (node, adjs) L -> node < mg_len m /\ forall d, In d adjs -> linkE m node d) ->
  exists m', dearomatize m L = Ok m' /\ UOK m' /\ grows m m' [] /\ mg_len m' = mg_len m.
Proof.
  induction L as [|[node adjs] r IH]; intros m Hu Hl; cbn [dearomatize].
  - exists m. split; [reflexivity|]. split; [exact Hu|]. split; [apply grows_refl; reflexivity|reflexivity].
  - destruct (Hl node adjs (or_introl eq_refl)) as [Hn Hd].
    destruct (single_bonds_ok adjs m node Hu Hd) as (m1 & E1 & U1 & G1 & L1). rewrite E1. cbn [bind].
    pose proof U1 as ([A B C] & _ & _).
    unfold lupd. replace (node <? length (m_atoms m1)) with true by (symmetry; apply Nat.ltb_lt; unfold mg_len in *; lia). cbn [bind].
    replace (node <? length (m_counts2 m1)) with true by (symmetry; apply Nat.ltb_lt; unfold mg_len in *; lia). cbn [bind].
    set (m1' := set_counts2 (set_atoms m1 _) _).
    assert (U1' : UOK m1') by (apply (uok_same m1); unfold m1'; cbn [set_counts2 set_atoms m_adj m_counts2 m_ringflags m_atoms]; rewrite ?upd_length; auto).
    assert (L1' : mg_len m1' = mg_len m1) by (unfold mg_len, m1'; cbn [set_counts2 set_atoms m_atoms]; now rewrite upd_length).
    assert (G1' : grows m1 m1' []) by (apply grows_refl; reflexivity).
    destruct (IH m1' U1') as (m2 & E2 & U2 & G2 & L2).
    { intros n0 a0 Hin. destruct (Hl n0 a0 (or_intror Hin)) as [X Y]. split; [rewrite L1', L1; exact X|].
      intros d Hd0. exact (linkE_grows _ _ _ _ _ G1' (linkE_grows _ _ _ _ _ G1 (Y d Hd0))). }
    exists m2. split; [exact E2|]. split; [exact U2|]. split; [|congruence].
    pose proof (grows_trans _ _ _ _ _ (grows_trans _ _ _ _ _ G1 G1') G2) as G. exact G.
Qed.

(* ---------- assembled: kekulize can fail only inside the matching or while applying its result ---------- *)
Record KPre (m : emol) : Prop := {
  kp_uok : UOK m;
  kp_keys : forall k, ds_lookup (m_ds m) k <> None -> k < mg_len m;
  kp_dsk : DSK m;
  kp_hc0 : Forall HC0 (atoms_of m)
}.

Theorem parsed_kpre smiles attributable m : smiles_to_mol smiles attributable = Ok m -> KPre m.
Proof.
  intro Ep. pose proof (smiles_to_mol_total smiles attributable) as T. rewrite Ep in T.
  destruct (parsed_gi _ _ _ Ep) as [Hi _]. destruct (parsed_dsi _ _ _ Ep) as [_ Hk].
  constructor; [|exact Hk|exact (parsed_dsk _ _ _ Ep)|exact (parsed_hc0 _ _ _ Ep)].
  split; [exact T|]. split; [exact (parsed_rs _ _ _ Ep)|]. intros j d r (row & e & Hn & Hin & Hd & _). subst d. exact (proj1 (Hi j row e Hn Hin)).
Qed.

Lemma kekulize_prefix m : KPre m ->
  exists bad, any_bad_element m (ds_items (m_ds m)) = Ok bad /\
  (bad = false -> exists kept g, kept_nodes_of m (ds_keys (m_ds m)) = Ok kept /\
     pruned_ds_of m (label_table (mg_len m) 0 0 (sort_nat kept)) (sort_nat kept) = Ok g) /\
  exists m1, dearomatize m (ds_items (m_ds m)) = Ok m1 /\ UOK m1 /\ grows m m1 [] /\ mg_len m1 = mg_len m.
Proof.
  intros [Hu Hk [H1 H2] Hc].
  assert (Hitems : forall v l, In (v, l) (ds_items (m_ds m)) -> v < mg_len m).
  { intros v l Hin. apply items_spec in Hin as [Hl _]. apply Hk. congruence. }
  destruct (any_bad_total m _ Hitems) as [bad Eb]. exists bad. split; [exact Eb|]. split.
  - intros ->. destruct (kept_total m (ds_keys (m_ds m))) as (kept & Ek & Hi).
    { intros k Hin. pose proof (H1 k Hin) as Hl. destruct (ds_lookup (m_ds m) k) as [l|] eqn:El; [|congruence].
      apply (prune_total m k l (proj1 Hu) El); [apply Hk; congruence|]. intro Hne.
      assert (Hin' : In (k, l) (ds_items (m_ds m))) by (unfold ds_items; apply in_flat_map; exists k; split; [exact Hin|rewrite El; now left]).
      destruct (any_bad_false m _ Eb k l Hin' Hne) as (aa & Ea & Ei). exists aa. split; [exact Ea|]. split; [exact Ei|].
      unfold mg_get_atom in Ea. apply lget_In in Ea. rewrite Forall_forall in Hc. apply Hc. unfold atoms_of. apply in_map. exact (nth_error_In _ _ Ea). }
    exists kept. destruct (pruned_total m (label_table (mg_len m) 0 0 (sort_nat kept)) (sort_nat kept)) as [g Eg]; [|eauto].
    intros x Hx. apply H1, Hi. exact (sort_nat_in _ _ Hx).
  - apply (dearomatize_ok _ m Hu). intros node adjs Hin. split; [exact (Hitems _ _ Hin)|]. intros d Hd. apply items_spec in Hin as [Hl _]. exact (H2 node adjs d Hl Hd).
Qed.

Theorem kekulize_fails_only_in_matching m e : KPre m -> kekulize m = Err e ->
  exists g, pruned_ds m = Ok g /\
    (find_perfect_matching g = Err e \/
     exists mt kept m1, find_perfect_matching g = Ok (Some mt) /\ kept_nodes_of m (ds_keys (m_ds m)) = Ok kept /\
       dearomatize m (ds_items (m_ds m)) = Ok m1 /\ set_double_bonds m1 (sort_nat kept) (enum_from 0 mt) = Err e).
Proof.
  intros Hp. destruct (kekulize_prefix m Hp) as (bad & Eb & Hk & m1 & E1 & _).
  unfold kekulize, pruned_ds. destruct (ds_is_empty _); [discriminate|]. rewrite Eb. cbn [bind]. destruct bad; [discriminate|].
  destruct (Hk eq_refl) as (kept & g & Ek & Eg). rewrite Ek. cbn [bind]. rewrite Eg. cbn [bind]. intro H. exists g. split; [reflexivity|].
  destruct (find_perfect_matching g) as [[mt|]|e1] eqn:Em; cbn [bind] in H; [|discriminate|inversion H; now left].
  rewrite E1 in H. cbn [bind] in H. destruct (set_double_bonds m1 _ _) as [m2|e2] eqn:E2; cbn [bind] in H; [discriminate|].
  inversion H; subst. right. exists mt, kept, m1. auto.
Qed.
