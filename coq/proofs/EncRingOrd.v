(* EncRingOrd.v — C03, ring-closure bonds, reader side: the order the reader stores for a ring bond is the one written at a
   pair of ring-digit tokens of the input that carry the same label (the larger of the two orders written there; 1.5 when
   both atoms are aromatic and no bond character is written at either digit).  Composed with EncRing.v: every ring symbol
   of the encoder's output has the order written at such a pair of digits, up to kekulisation of an aromatic bond. *)
From Coq Require Import Ascii String List Arith ZArith NArith Bool Lia.
Import ListNotations.
From Selfies Require Import Base Generated Lex Atoms Grammar Decoder Smiles PySet Matching Kekulize Encoder BaseFacts ConfigFacts DecoderInv
  ParserTotal EncHyp EncShape EncTokens EncRows EncAttr EncStereo EncFuel EncIndex EncKey EncAttrErr EncArom EncUniq EncOrders EncKek EncMatch EncKeep EncOrd EncRing.
Local Open Scope nat_scope.

Section RingOrd.
Variable S : token -> Prop.

Definition written (lt rt : token) (o : Z) (st : option N) : Prop :=
  S lt /\ S rt /\ t_type lt = TRing /\ t_type rt = TRing /\ t_text lt = t_text rt /\
  (o = Z.max (fst (smiles_to_bond2 (t_bond lt))) (fst (smiles_to_bond2 (t_bond rt))) \/
   (t_bond lt = None /\ t_bond rt = None /\ o = 3%Z)) /\
  (st = snd (smiles_to_bond2 (t_bond lt)) \/ st = snd (smiles_to_bond2 (t_bond rt))).

Definition ring_of (e : ebond) : Prop := e_ring e = true -> exists lt rt, written lt rt (e_order2 e) (e_stereo e).

Definition RLog (l : list (str * (token * nat * nat))) : Prop :=
  forall k tok a p, In (k, (tok, a, p)) l -> S tok /\ t_type tok = TRing /\ t_text tok = k.

Lemma rlog_find l k tok a p : RLog l -> ring_log_find l k = Some (tok, a, p) -> S tok /\ t_type tok = TRing /\ t_text tok = k.
Proof.
  induction l as [|[k' v] r IH]; intros H E; cbn [ring_log_find] in E; [discriminate|].
  destruct (str_eqb k k') eqn:Ek.
  - inversion E; subst. apply str_eqb_eq in Ek. subst k'. exact (H _ _ _ _ (or_introl eq_refl)).
  - apply IH; [|exact E]. intros k0 t0 a0 p0 Hin. exact (H _ _ _ _ (or_intror Hin)).
Qed.

Lemma rlog_remove l k : RLog l -> RLog (ring_log_remove l k).
Proof.
  induction l as [|[k' v] r IH]; intros H; cbn [ring_log_remove]; [exact H|].
  assert (Hr : RLog r) by (intros k0 t0 a0 p0 Hin; exact (H _ _ _ _ (or_intror Hin))).
  destruct (str_eqb k k'); [exact Hr|]. intros k0 t0 a0 p0 [Heq|Hin]; [exact (H _ _ _ _ (or_introl Heq))|exact (IH Hr _ _ _ _ Hin)].
Qed.

Lemma add_ring_edge_w m a b o2 sa sb pa pb m' : (exists lt rt, written lt rt o2 sa) -> (exists lt rt, written lt rt o2 sb) ->
  EdgeP ring_of m -> mg_add_ring_bond m a b o2 sa sb pa pb = Ok m' -> EdgeP ring_of m'.
Proof.
  intros Hw Hw2 Hm. unfold mg_add_ring_bond.
  destruct (mg_add_bond_at_loc m _ _) as [m1|] eqn:E1; cbn [bind]; [|discriminate].
  destruct (mg_add_bond_at_loc m1 _ _) as [m2|] eqn:E2; cbn [bind]; [|discriminate].
  destruct (mg_add_count2 m2 _ _) as [m3|] eqn:E3; cbn [bind]; [|discriminate].
  destruct (mg_add_count2 m3 _ _) as [m4|] eqn:E4; cbn [bind]; [|discriminate].
  destruct (lupd (m_ringflags m4) _ _) as [f1|]; cbn [bind]; [|discriminate].
  destruct (lupd f1 _ _) as [f2|]; cbn [bind]; [|discriminate].
  apply (at_loc_edge ring_of) in E1; [|exact Hm|intros _; exact Hw]. apply (at_loc_edge ring_of) in E2; [|exact E1|intros _; exact Hw2]. apply add_count_adj in E3, E4.
  assert (A4 : EdgeP ring_of m4) by (apply (edge_same ring_of m2); [congruence|exact E2]).
  destruct (_ =? _)%Z; intro E; inversion E; subst; exact A4.
Qed.

Lemma make_ring_edge_w m lt la lp rt ra m' : S lt -> S rt -> t_type lt = TRing -> t_type rt = TRing -> t_text lt = t_text rt ->
  EdgeP ring_of m -> make_ring_bonds m lt la lp rt ra = Ok m' -> EdgeP ring_of m'.
Proof.
  intros Sl Sr Tl Tr Tx Hm.
  assert (Key : forall o2 pa pb, (o2 = Z.max (fst (smiles_to_bond2 (t_bond lt))) (fst (smiles_to_bond2 (t_bond rt))) \/ (t_bond lt = None /\ t_bond rt = None /\ o2 = 3%Z)) ->
     mg_add_ring_bond m la ra o2 (snd (smiles_to_bond2 (t_bond lt))) (snd (smiles_to_bond2 (t_bond rt))) pa pb = Ok m' -> EdgeP ring_of m').
  { intros o2 pa pb Ho. apply add_ring_edge_w; [| |exact Hm]; exists lt, rt; repeat (split; [assumption|]); [left|right]; reflexivity. }
  unfold make_ring_bonds. destruct (_ =? _); [discriminate|]. destruct (mg_has_bond _ _ _); [discriminate|]. cbv zeta.
  destruct (smiles_to_bond2 (t_bond lt)) as [lo ls] eqn:Esl. destruct (smiles_to_bond2 (t_bond rt)) as [ro rs] eqn:Esr. cbn [fst snd] in Key.
  destruct (t_bond lt) as [lb|] eqn:Elb; destruct (t_bond rt) as [rb|] eqn:Erb; cbv iota beta;
  (destruct (negb _); [discriminate|]); (destruct (mg_get_atom m la); cbn [bind]; [|discriminate]); (destruct (mg_get_atom m ra); cbn [bind]; [|discriminate]);
  rewrite ?andb_false_r; cbv iota beta.
  1-3: intro E; eapply Key; [|exact E]; left; reflexivity.
  match goal with |- context [if ?c then _ else _] => destruct c end; cbv iota beta; intro E; (eapply Key; [|exact E]); [right; repeat split; reflexivity|left; reflexivity].
Qed.

Lemma derive_loop_ring : forall ts st st' rest, (forall t, In t ts -> S t) -> EdgeP ring_of (p_mol st) -> RLog (p_rings st) ->
  derive_loop ts st = Ok (st', rest) -> EdgeP ring_of (p_mol st') /\ RLog (p_rings st') /\ incl rest ts.
Proof.
  induction ts as [|tok r IH]; intros st st' rest HS Hm Hl E; cbn [derive_loop] in E.
  { inversion E; subst. split; [exact Hm|]. split; [exact Hl|]. apply incl_refl. }
  assert (HS' : forall t, In t r -> S t) by (intros t Ht; apply HS; now right).
  assert (Fin : forall st1, EdgeP ring_of (p_mol st1) -> RLog (p_rings st1) -> derive_loop r st1 = Ok (st', rest) ->
                EdgeP ring_of (p_mol st') /\ RLog (p_rings st') /\ incl rest (tok :: r)).
  { intros st1 H1 H2 E1. destruct (IH _ _ _ HS' H1 H2 E1) as (A & B & C). split; [exact A|]. split; [exact B|]. now apply incl_tl. }
  destruct (p_prev st) as [|prev below]; [discriminate|].
  destruct (t_type tok) eqn:Ety.
  - destruct (smiles_to_atom (t_text tok)) as [[a|]|] eqn:Ea; cbn [bind] in E; try discriminate.
    destruct (attach_atom _ _ _ _ _) as [[[m' idx] i']|] eqn:Eat; cbn [bind] in E; [|discriminate].
    apply (Fin _) in E; [exact E| |exact Hl]. cbn [p_mol].
    revert Eat. unfold attach_atom. destruct (mg_add_atom (p_mol st) a _) as [m1 ix] eqn:Eadd.
    assert (A1 : EdgeP ring_of m1).
    { unfold mg_add_atom in Eadd. inversion Eadd; subst. intros j row e Hn Hin. cbn [m_adj] in Hn.
      destruct (Nat.lt_ge_cases j (length (m_adj (p_mol st)))) as [Lt|G].
      - rewrite nth_error_app1 in Hn by exact Lt. exact (Hm _ _ _ Hn Hin).
      - rewrite nth_error_app2 in Hn by exact G. destruct (j - length (m_adj (p_mol st))) as [|k]; cbn in Hn; [inversion Hn; subst; destruct Hin|destruct k; discriminate]. }
    destruct (mg_add_attr_atom m1 ix _) as [m2|] eqn:E2; cbn [bind]; [|discriminate].
    apply add_attr_adj in E2. assert (A2 : EdgeP ring_of m2) by (apply (edge_same _ m1); assumption).
    destruct prev as [src|]; [|intro X; inversion X; subst; exact A2].
    destruct (smiles_to_bond2 (t_bond tok)) as [o2 sx]. destruct (mg_get_atom m2 src) as [pa|]; cbn [bind]; [|discriminate].
    destruct (mg_add_bond m2 _ _ _ _ _) as [m3|] eqn:E3; cbn [bind]; [|discriminate].
    intro X; inversion X; subst. eapply (add_bond_edge ring_of); [exact A2| |exact E3]. intro Hr. cbn [e_ring] in Hr. discriminate.
  - destruct (p_chain_start st); [discriminate|].
    destruct (str_eqb _ _); [apply Fin in E; [exact E|exact Hm|exact Hl]|]. destruct (p_branch st); [discriminate|]. apply Fin in E; [exact E|exact Hm|exact Hl].
  - destruct (p_chain_start st); [discriminate|].
    destruct (ring_log_find _ _) as [[[ltok latom] lpos]|] eqn:Ef.
    + destruct (atom_index prev) as [ratom|]; cbn [bind] in E; [|discriminate].
      destruct (make_ring_bonds _ _ _ _ _ _) as [m'|] eqn:Er; cbn [bind] in E; [|discriminate].
      destruct (rlog_find _ _ _ _ _ Hl Ef) as (Sl & Tl & Tx).
      apply (Fin _) in E; [exact E| |exact (rlog_remove _ _ Hl)]. cbn [p_mol].
      exact (make_ring_edge_w _ _ _ _ _ _ _ Sl (HS _ (or_introl eq_refl)) Tl Ety Tx Hm Er).
    + destruct (atom_index prev) as [src|]; cbn [bind] in E; [|discriminate].
      destruct (mg_add_placeholder_bond _ _) as [[m' lpos]|] eqn:Epl; cbn [bind] in E; [|discriminate].
      apply (Fin _) in E; [exact E|exact (placeholder_edge _ _ _ _ _ Hm Epl)|].
      cbn [p_rings]. intros k t0 a0 p0 Hin. apply in_app_iff in Hin as [Hin|[Heq|[]]]; [exact (Hl _ _ _ _ Hin)|].
      inversion Heq; subst. repeat split; auto. apply HS. now left.
  - inversion E; subst. cbn [p_mol p_rings]. split; [exact Hm|]. split; [exact Hl|]. now apply incl_tl, incl_refl.
Qed.

Lemma fragments_ring : forall fuel m ts i m', (forall t, In t ts -> S t) -> EdgeP ring_of m -> fragments_loop fuel m ts i = Ok m' -> EdgeP ring_of m'.
Proof.
  induction fuel as [|f IH]; intros m ts i m' HS Hm E; [discriminate|]. cbn [fragments_loop] in E.
  destruct ts as [|t r]; [inversion E; subst; exact Hm|].
  destruct (derive_mol_from_tokens m (t :: r) i) as [[[m1 i1] rest]|] eqn:Ed; cbn [bind] in E; [|discriminate].
  unfold derive_mol_from_tokens in Ed.
  destruct (derive_loop (t :: r) _) as [[st rest']|] eqn:El; cbn [bind] in Ed; [|discriminate].
  assert (DL := fun H1 H2 => derive_loop_ring _ _ _ _ HS H1 H2 El). cbn [p_mol p_rings] in DL.
  destruct (DL Hm ltac:(intros k t0 a0 p0 [])) as (H1 & _ & H3).
  destruct (_ =? _); [discriminate|]. destruct (p_branch st); [|discriminate]. destruct (p_rings st); [|discriminate].
  inversion Ed; subst. apply (IH _ _ _ _ (fun t0 Ht => HS _ (H3 _ Ht)) H1 E).
Qed.
End RingOrd.

Theorem parsed_ring_ords smiles attributable m ts : smiles_to_mol smiles attributable = Ok m -> tokenize_smiles smiles = Ok ts ->
  EdgeP (ring_of (fun t => In t ts)) m.
Proof.
  unfold smiles_to_mol. destruct smiles as [|c s]; [discriminate|]. intros E Et. rewrite Et in E. cbn [bind] in E.
  apply (fragments_ring _ (S (length ts)) (mg_empty attributable) ts 0 m); [auto| |exact E].
  intros j row e Hn. destruct j; discriminate.
Qed.

(* ---------- composed with the walk: what every ring symbol of the output says ---------- *)
Scheme TW_min := Minimality for TW Sort Prop with TR_min := Minimality for TR Sort Prop.

Lemma tw_mono (P Q : list str -> Prop) : (forall t, P t -> Q t) -> forall ts, TW P ts -> TW Q ts.
Proof.
  intro H. apply (TW_min P (fun ts => TW Q ts) (fun ts => TR Q ts)).
  - intros tok ts _ IH. now constructor.
  - constructor.
  - intros toks ts HP _ IH. apply TR_ring; auto.
  - intros bsym Qx branch ts _ IH1 _ IH2. now apply TR_branch.
  - intros ts _ IH. now apply TR_last.
Qed.

(* the ring symbol toks is printed with the order o0 or, when o0 is the aromatic 1.5, with 1 or 2; o0 is written at two ring digits *)
Definition ring_written (ts : list token) (toks : list str) : Prop :=
  exists rs rest o0 lt rt, toks = (lit "[" ++ rs ++ rest)%list :: tl toks /\
    (exists st0, written (fun t => In t ts) lt rt o0 st0) /\ R o0 (fst (smiles_to_bond2 (hd_error rs))).

Theorem encoder_ring_orders_written T smiles strict attribute x maps ts :
  encoder T smiles strict attribute = Ok (x, maps) -> tokenize_smiles smiles = Ok ts ->
  exists tss, x = join (lit ".") (map (@concat N) tss) /\ Forall (TW (ring_written ts)) tss.
Proof.
  intros E Et. destruct (encoder_ring_orders _ _ _ _ _ _ E) as (m0 & m & tss & Ep & -> & W).
  pose proof (parsed_ring_ords _ _ _ _ Ep Et) as RO.
  exists tss. split; [reflexivity|]. rewrite Forall_forall in *. intros l Hl. apply (tw_mono (ring_back m0 m)); [|exact (W l Hl)].
  intros toks (b & rs & Q & row0 & e0 & _ & _ & _ & _ & -> & Ho & Hn0 & Hi0 & _ & Hr0 & HR).
  destruct (RO _ _ _ Hn0 Hi0 Hr0) as (lt & rt & Hw).
  exists rs, (lit "Ring" ++ str_of_nat (length Q) ++ lit "]")%list, (e_order2 e0), lt, rt. split; [reflexivity|]. split; [eexists; exact Hw|]. rewrite Ho. exact HR.
Qed.
