(* AlphaClosure.v — C07: every string over the semantically robust alphabet of an accepted table
   decodes without raising, and the graph it decodes to obeys the table. *)
From Coq Require Import Ascii String List Arith ZArith NArith Bool Lia.
Import ListNotations.
From Selfies Require Import Base Generated Lex Atoms Grammar Compat Decoder Config WfSpec AlphaSpec
  BaseFacts StateFacts LexFacts DecoderBasics ConfigFacts AlphaFacts DecoderInv DecoderSum TokFacts DecFacts DeriveOk.
Local Open Scope Z_scope.

(* ---------- shape of element symbols (finite sweep over the regenerated element list) ---------- *)
Definition elem_shape (e : str) : bool :=
  match e with
  | [E1] => is_upper E1
  | [E1; e2] => is_upper E1 && is_lower e2
  | _ => false
  end.

Lemma elements_shape : forallb elem_shape elements = true.
Proof. vm_compute. reflexivity. Qed.

Lemma upper_facts c : is_upper c = true -> is_09 c = false /\ is_bond_prefix c = false /\ is_lower c = false /\ body_char c = true.
Proof.
  unfold is_upper, is_09, is_lower, is_bond_prefix, body_char. intro H. apply andb_true_iff in H as [H1 H2]. apply N.leb_le in H1, H2.
  repeat split.
  - apply andb_false_iff. right. apply N.leb_gt. lia.
  - cbn. repeat (match goal with |- context [N.eqb c ?k] => let E := fresh in destruct (N.eqb_spec c k) as [E|E]; [exfalso; lia|] end). reflexivity.
  - apply andb_false_iff. left. apply N.leb_gt. lia.
  - repeat (match goal with |- context [N.eqb c ?k] => let E := fresh in destruct (N.eqb_spec c k) as [E|E]; [exfalso; lia|] end). reflexivity.
Qed.

Lemma span_stop (p : N -> bool) ds x r : Forall (fun c => p c = true) ds -> p x = false -> span p (ds ++ x :: r) = (ds, x :: r).
Proof. intros F Hx. induction F as [|c l Hc F IH]; cbn [app span]; [now rewrite Hx|]. now rewrite Hc, IH. Qed.

(* the charged atom symbol [b E sg d1 ds] is matched with exactly these fields *)
Lemma match_charged b e sg d1 ds :
  In b [[]; [61%N]; [35%N]] -> elem_shape e = true -> (sg = 43 \/ sg = 45)%N -> is_19 d1 = true -> Forall (fun c => is_09 c = true) ds ->
  match_selfies_atom (lit "[" ++ b ++ e ++ sg :: d1 :: ds ++ lit "]") =
  Some {| f_bond := match b with [] => None | c :: _ => Some c end; f_iso := []; f_elem := e; f_chi := []; f_h := [];
          f_charge := sg :: d1 :: ds |}.
Proof.
  intros Hb He Hsg Hd1 Hds.
  assert (Sp : span is_09 (ds ++ [93%N]) = (ds, [93%N])) by (apply span_stop; [exact Hds|reflexivity]).
  assert (L43 : is_lower 43 = false) by reflexivity. assert (L45 : is_lower 45 = false) by reflexivity.
  assert (B61 : is_bond_prefix 61 = true) by reflexivity. assert (B35 : is_bond_prefix 35 = true) by reflexivity.
  destruct e as [|E1 [|e2 [|? ?]]]; try discriminate; cbn [elem_shape] in He.
  - destruct (upper_facts E1 He) as (U1 & U2 & U3 & _).
    destruct Hb as [<-|[<-|[<-|[]]]]; destruct Hsg as [-> | ->]; unfold match_selfies_atom;
      repeat (cbn -[is_upper is_lower is_09 is_19 is_bond_prefix]; rewrite ?U1, ?U2, ?U3, ?He, ?Hd1, ?Sp, ?L43, ?L45, ?B61, ?B35).
    all: reflexivity.
  - apply andb_true_iff in He as [He He2]. destruct (upper_facts E1 He) as (U1 & U2 & U3 & _).
    destruct Hb as [<-|[<-|[<-|[]]]]; destruct Hsg as [-> | ->]; unfold match_selfies_atom;
      repeat (cbn -[is_upper is_lower is_09 is_19 is_bond_prefix]; rewrite ?U1, ?U2, ?U3, ?He, ?He2, ?Hd1, ?Sp, ?L43, ?L45, ?B61, ?B35).
    all: reflexivity.
Qed.

Lemma slice_mid (p x q : str) : slice (p ++ x ++ q) (length p) (length p + length x) = x.
Proof.
  unfold slice. rewrite skipn_app, Nat.sub_diag, skipn_all. cbn [skipn app].
  replace (length p + length x - length p)%nat with (length x) by lia.
  rewrite firstn_app, Nat.sub_diag, firstn_all. cbn [firstn]. apply app_nil_r.
Qed.

Lemma organic_no_sign : forallb (fun x => negb (mem_N 43%N x) && negb (mem_N 45%N x)) organic_subset = true.
Proof. vm_compute. reflexivity. Qed.

Lemma mem_N_In c (l : str) : mem_N c l = true <-> In c l.
Proof. induction l as [|x l IH]; cbn; [split; [discriminate|tauto]|]. destruct (N.eqb_spec c x) as [->|Hne]; cbn; [tauto|]. rewrite IH. split; [auto|intros [E|H]; [congruence|exact H]]. Qed.

Lemma not_organic_with_sign body sg : (sg = 43 \/ sg = 45)%N -> In sg body -> mem_str body organic_subset = false.
Proof.
  intros Hsg Hin. destruct (mem_str body organic_subset) eqn:E; [|reflexivity]. apply mem_str_In in E.
  pose proof organic_no_sign as F. rewrite forallb_forall in F. specialize (F body E). apply andb_true_iff in F as [F1 F2].
  apply negb_true_iff in F1, F2.
  destruct Hsg as [-> | ->]; [apply mem_N_In in Hin; congruence|apply mem_N_In in Hin; congruence].
Qed.

Lemma canonical_cons c : canonical c -> exists d1 ds, c = d1 :: ds /\ is_19 d1 = true /\ Forall (fun x => is_09 x = true) ds.
Proof.
  intros (Hne & F & Hhd). destruct c as [|d1 ds]; [contradiction|]. exists d1, ds. split; [reflexivity|].
  inversion F as [|? ? H1 F']; subst. split; [|exact F']. cbn in Hhd. unfold is_09 in H1. unfold is_19.
  apply andb_true_iff in H1 as [A B]. apply N.leb_le in A. apply andb_true_iff. split; [apply N.leb_le; lia|exact B].
Qed.

Lemma elements_mem e : In e elements -> mem_str e elements = true /\ elem_shape e = true.
Proof.
  intro H. split; [now apply mem_str_In|]. pose proof elements_shape as F. rewrite forallb_forall in F. now apply F.
Qed.

(* the atom symbol built from a charged key is a symbol of the grammar with that key's capacity *)
Theorem charged_symbol_in_grammar (T : table) b m e sg c cap :
  In (b, m) bond_prefix_orders -> In e elements -> (sg = 43 \/ sg = 45)%N -> canonical c -> within_limit (length c) ->
  assoc (e ++ sg :: c)%list T = Some cap -> 0 <= cap ->
  exists a, process_atom_symbol T (lit "[" ++ b ++ e ++ sg :: c ++ lit "]")%list = Ok (Some (m, None, a, cap)).
Proof.
  intros Hb He Hsg Hc W Hk Hcap.
  destruct (elements_mem e He) as [Hmem Hshape].
  destruct (canonical_cons c Hc) as (d1 & ds & Ec & Hd1 & Hds). subst c.
  pose proof Hc as (_ & Fc & _).
  assert (Hbl : In b [[]; [61%N]; [35%N]]).
  { destruct Hb as [X|[X|[X|[]]]]; inversion X; subst; cbn; auto. }
  unfold process_atom_symbol, process_atom_symbol_c, process_atom_nocache.
  change (sg :: (d1 :: ds) ++ lit "]")%list with (sg :: d1 :: ds ++ lit "]")%list.
  rewrite (match_charged b e sg d1 ds Hbl Hshape Hsg Hd1 Hds). cbn [f_bond f_iso f_elem f_chi f_h f_charge].
  (* the body between the brackets (after the bond character) carries a sign, so it is not an organic-subset atom *)
  assert (Ebody : slice (lit "[" ++ b ++ e ++ sg :: d1 :: ds ++ lit "]")%list
                        (1 + match (match b with [] => None | x :: _ => Some x end) with Some _ => 1 | None => 0 end)
                        (length (lit "[" ++ b ++ e ++ sg :: d1 :: ds ++ lit "]")%list - 1) = (e ++ sg :: d1 :: ds)%list).
  {
    replace (lit "[" ++ b ++ e ++ sg :: d1 :: ds ++ lit "]")%list with ((lit "[" ++ b) ++ (e ++ sg :: d1 :: ds) ++ lit "]")%list
      by (rewrite <- !app_assoc; cbn [app]; reflexivity).
    assert (L1 : (1 + match (match b with [] => None | x :: _ => Some x end) with Some _ => 1 | None => 0 end = length (lit "[" ++ b))%nat).
    { destruct Hbl as [<-|[<-|[<-|[]]]]; reflexivity. }
    rewrite L1.
    replace (length ((lit "[" ++ b) ++ (e ++ sg :: d1 :: ds) ++ lit "]") - 1)%nat with (length (lit "[" ++ b) + length (e ++ sg :: d1 :: ds))%nat
      by (rewrite !app_length; cbn [length lit]; lia).
    apply slice_mid. }
  destruct (smiles_to_bond2 (match b with [] => None | x :: _ => Some x end)) as [o2 stereo] eqn:Eb2.
  assert (Hob : o2 / 2 = m /\ stereo = None).
  { destruct Hb as [X|[X|[X|[]]]]; inversion X; subst; vm_compute in Eb2; inversion Eb2; subst; split; reflexivity. }
  destruct Hob as [Ho ->].
  rewrite Ebody. rewrite (not_organic_with_sign (e ++ sg :: d1 :: ds)%list sg Hsg) by (apply in_app_iff; right; now left).
  cbn [bind]. rewrite Hmem. cbn [negb bind].
  rewrite (int_of_decimals_value (d1 :: ds) Fc W). cbn [bind].
  destruct (str_of_N_int (d1 :: ds) Hc) as [Estr Hpos]. set (n := horner 10 (vals (d1 :: ds))) in *.
  unfold bonding_capacity_c. cbn [a_element a_charge a_hcount].
  assert (Ekey : constraint_key e (Z.of_N n * sign_of sg) = (e ++ sg :: d1 :: ds)%list).
  { unfold constraint_key. destruct n as [|p] eqn:En; [lia|].
    destruct Hsg as [-> | ->]; cbn [sign_of N.eqb Pos.eqb Z.of_N Z.mul Pos.mul]; rewrite ?Pos.mul_1_r; cbn [Z.eqb str_of_Z_signed];
      f_equal; f_equal; exact Estr. }
  unfold get_bonding_capacity. rewrite Ekey, Hk. cbn [bind]. rewrite Z.sub_0_r.
  assert (X : (cap <? 0) = false) by (apply Z.ltb_ge; lia). rewrite X, Ho. eauto.
Qed.

(* ---------- what a validated key looks like ---------- *)
Lemma find_char_aux_spec c : forall s i a, find_char_aux c s i = Some a ->
  (i <= a)%nat /\ nth_error s (a - i) = Some c.
Proof.
  induction s as [|x r IH]; intros i a H; cbn [find_char_aux] in H; [discriminate|].
  destruct (N.eqb_spec x c) as [->|Hne].
  - inversion H; subst. rewrite Nat.sub_diag. split; [lia|reflexivity].
  - apply IH in H as [L E]. split; [lia|]. replace (a - i)%nat with (S (a - S i)) by lia. exact E.
Qed.

Lemma find_char_spec c s a : find_char c s 0 = Some a -> nth_error s a = Some c.
Proof. unfold find_char. cbn [skipn]. intro H. apply find_char_aux_spec in H as [_ E]. now rewrite Nat.sub_0_r in E. Qed.

Lemma nth_error_split_at {A} (l : list A) j x : nth_error l j = Some x -> l = firstn j l ++ x :: skipn (S j) l.
Proof.
  revert j. induction l as [|y l IH]; intros [|j] H; cbn in *; try discriminate.
  - now inversion H.
  - f_equal. now apply IH.
Qed.

Lemma valid_key_shape k : valid_key k = true -> k <> lit "?" ->
  In k elements \/
  exists e sg c, k = (e ++ sg :: c)%list /\ In e elements /\ (sg = 43 \/ sg = 45)%N /\ canonical c.
Proof.
  unfold valid_key. intros H Hq. destruct (str_eqb k (lit "?")) eqn:Eq; [apply str_eqb_eq in Eq; contradiction|].
  destruct (last_sign_pos k) as [j|] eqn:Ej; [|left; now apply mem_str_In].
  right. apply andb_true_iff in H as [H H4]. apply andb_true_iff in H as [H H3]. apply andb_true_iff in H as [H1 H2].
  apply andb_true_iff in H3 as [H3a H3b]. apply mem_str_In in H1.
  assert (Hj : exists sg, nth_error k j = Some sg /\ (sg = 43 \/ sg = 45)%N).
  { unfold last_sign_pos in Ej.
    destruct (find_char 43 k 0) as [a|] eqn:Ea; destruct (find_char 45 k 0) as [b|] eqn:Eb; inversion Ej; subst; clear Ej.
    - apply find_char_spec in Ea, Eb. destruct (Nat.max_spec a b) as [[_ ->]|[_ ->]]; eauto.
    - apply find_char_spec in Ea. eauto.
    - apply find_char_spec in Eb. eauto. }
  destruct Hj as (sg & Hn & Hsg).
  exists (firstn j k), sg, (skipn (S j) k). split; [now apply nth_error_split_at|]. split; [exact H1|]. split; [exact Hsg|].
  set (c := skipn (S j) k) in *. split; [|split].
  - destruct c; [discriminate|discriminate].
  - apply Forall_forall. intros x Hx. rewrite forallb_forall in H3b. exact (H3b x Hx).
  - destruct c as [|x r]; [discriminate|]. cbn. apply negb_true_iff in H4. now apply N.eqb_neq in H4.
Qed.

(* ---------- classification of atom symbols of the alphabet ---------- *)
Lemma slice_neg_last4 (p : str) x y z w : slice_neg (p ++ [x; y; z; w]) 4 2 = [x; y].
Proof.
  unfold slice_neg. rewrite app_length. cbn [length].
  replace (length p + 4 - 4)%nat with (length p) by lia. replace (length p + 4 - 2)%nat with (length p + 2)%nat by lia.
  unfold slice. rewrite skipn_app, Nat.sub_diag, skipn_all. cbn [skipn app].
  replace (length p + 2 - length p)%nat with 2%nat by lia. reflexivity.
Qed.

Lemma snoc_exists {A} (l : list A) : l <> [] -> exists init z, l = init ++ [z].
Proof. intro H. destruct (exists_last H) as (init & z & E). eauto. Qed.

Lemma charged_not_branch_ring b e sg c :
  In b [[]; [61%N]; [35%N]] -> elem_shape e = true -> (sg = 43 \/ sg = 45)%N -> canonical c ->
  let s := (lit "[" ++ b ++ e ++ sg :: c ++ lit "]")%list in
  is_branch_like s = false /\ is_ring_like s = false /\ is_eps_like s = false /\ str_eqb s nop_sym = false.
Proof.
  intros Hb He Hsg Hc s. pose proof Hc as (Hne & Fc & _).
  (* the character before the last digit is a digit or the sign *)
  destruct (snoc_exists c Hne) as (init & z & Ec).
  assert (Hy : exists p x y, s = (p ++ [x; y; z; 93%N])%list /\ y <> 104%N /\ y <> 103%N).
  { destruct (list_eq_dec N.eq_dec init []) as [Ei|Ei].
    - (* one digit: the character before it is the sign *)
      subst init. cbn [app] in Ec.
      assert (Hp2 : (lit "[" ++ b ++ e)%list <> []) by discriminate.
      destruct (snoc_exists _ Hp2) as (p & x & E3).
      exists p, x, sg. split; [|destruct Hsg as [-> | ->]; split; discriminate].
      unfold s. rewrite Ec.
      replace (lit "[" ++ b ++ e ++ sg :: [z] ++ lit "]")%list with ((lit "[" ++ b ++ e) ++ [sg; z; 93%N])%list
        by (rewrite <- !app_assoc; cbn [app lit]; reflexivity).
      rewrite E3, <- app_assoc. reflexivity.
    - (* several digits: the character before the last one is a digit *)
      destruct (snoc_exists init Ei) as (init3 & y & E4).
      assert (Hd : is_09 y = true).
      { rewrite Forall_forall in Fc. apply Fc. rewrite Ec, E4. apply in_app_iff. left. apply in_app_iff. right. now left. }
      assert (Hp2 : (lit "[" ++ b ++ e ++ sg :: init3)%list <> []) by discriminate.
      destruct (snoc_exists _ Hp2) as (p & x & E3).
      exists p, x, y. split.
      + unfold s. rewrite Ec, E4.
        replace (lit "[" ++ b ++ e ++ sg :: ((init3 ++ [y]) ++ [z]) ++ lit "]")%list
          with ((lit "[" ++ b ++ e ++ sg :: init3) ++ [y; z; 93%N])%list
          by (rewrite <- !app_assoc; cbn [app lit]; reflexivity).
        rewrite E3, <- app_assoc. reflexivity.
      + unfold is_09 in Hd. apply andb_true_iff in Hd as [_ D2]. apply N.leb_le in D2. split; intro; subst; discriminate || lia. }
  destruct Hy as (p & x & y & Es & Hy1 & Hy2).
  assert (Hhead : exists h r, s = 91%N :: h :: r /\ h <> 101%N /\ h <> 110%N).
  { unfold s. destruct e as [|E1 e']; [discriminate|]. assert (He1 : is_upper E1 = true).
    { destruct e' as [|e2 [|? ?]]; cbn [elem_shape] in He; [exact He|apply andb_true_iff in He; tauto|discriminate]. }
    unfold is_upper in He1. apply andb_true_iff in He1 as [A B]. apply N.leb_le in A, B.
    destruct Hb as [<-|[<-|[<-|[]]]]; cbn [lit app]; eexists _, _; (split; [reflexivity|split; intro; subst; discriminate || lia]). }
  destruct Hhead as (h & r & Eh & Hh1 & Hh2).
  unfold is_branch_like, is_ring_like, is_eps_like. rewrite Es, slice_neg_last4. rewrite <- Es.
  repeat split.
  - cbn. destruct (N.eqb x 99); [|reflexivity]. cbn. destruct (N.eqb_spec y 104); [contradiction|reflexivity].
  - cbn. destruct (N.eqb x 110); [|reflexivity]. cbn. destruct (N.eqb_spec y 103); [contradiction|reflexivity].
  - rewrite Eh. cbn. destruct (N.eqb_spec h 101); [contradiction|reflexivity].
  - rewrite Eh. cbn. destruct (N.eqb_spec h 110); [contradiction|reflexivity].
Qed.

(* ---------- symbols of the alphabet are well-formed bracket symbols ---------- *)
Definition is_symbol (x : str) : Prop := exists body, x = sym_of body /\ forallb body_char body = true.

Definition wfsym (x : str) : bool :=
  match x with
  | 91%N :: r => match rev r with 93%N :: rb => forallb body_char rb | _ => false end
  | _ => false
  end.

Lemma wfsym_is_symbol x : wfsym x = true -> is_symbol x.
Proof.
  unfold wfsym. destruct x as [|c r]; [discriminate|].
  destruct (N.eqb_spec c 91) as [->|Hne].
  - destruct (rev r) as [|d rb] eqn:Er; [discriminate|]. destruct (N.eqb_spec d 93) as [->|Hd].
    + intro H. exists (rev rb). split.
      * unfold sym_of. f_equal. rewrite <- (rev_involutive r), Er. reflexivity.
      * rewrite forallb_forall in *. intros y Hy. apply H. now apply in_rev.
    + destruct d as [|p]; try discriminate. repeat (destruct p as [p|p|]; try discriminate). contradiction.
  - destruct c as [|p]; try discriminate. repeat (destruct p as [p|p|]; try discriminate). contradiction.
Qed.

Lemma elements_body : forallb (forallb body_char) elements = true.
Proof. vm_compute. reflexivity. Qed.

Lemma digit_body c : is_09 c = true -> body_char c = true.
Proof.
  unfold is_09, body_char. intro H. apply andb_true_iff in H as [A B]. apply N.leb_le in A, B.
  repeat (match goal with |- context [N.eqb c ?k] => let E := fresh in destruct (N.eqb_spec c k) as [E|E]; [exfalso; lia|] end). reflexivity.
Qed.

Lemma atom_symbol_is_symbol b k : In b [[]; [61%N]; [35%N]] -> forallb body_char k = true -> is_symbol (lit "[" ++ b ++ k ++ lit "]")%list.
Proof.
  intros Hb Hk. exists (b ++ k)%list. split.
  - unfold sym_of. cbn [lit app]. now rewrite <- app_assoc.
  - rewrite forallb_app, Hk, andb_true_r. destruct Hb as [<-|[<-|[<-|[]]]]; reflexivity.
Qed.

Lemma key_body k : (In k elements \/ exists e sg c, k = (e ++ sg :: c)%list /\ In e elements /\ (sg = 43 \/ sg = 45)%N /\ canonical c) ->
  forallb body_char k = true.
Proof.
  pose proof elements_body as F. rewrite forallb_forall in F.
  intros [H|(e & sg & c & -> & He & Hsg & (_ & Fc & _))]; [now apply F|].
  rewrite forallb_app, (F e He). cbn [forallb andb].
  assert (body_char sg = true) as -> by (destruct Hsg as [-> | ->]; reflexivity). cbn [andb].
  apply forallb_forall. intros x Hx. rewrite Forall_forall in Fc. apply digit_body. now apply Fc.
Qed.

(* ---------- the fixed part of the alphabet (index, branch and ring symbols): finite check ---------- *)
Definition fixed_ok (x : str) : bool :=
  wfsym x && negb (str_eqb x nop_sym) &&
  match process_atom_nocache x with
  | Err _ => false
  | Ok o =>
    if is_branch_like x then match process_branch_symbol x with Some _ => true | None => false end
    else if is_ring_like x then match process_ring_symbol x with Some _ => true | None => false end
    else if is_eps_like x then true
    else match o with
         | Some (_, _, a) => match a_hcount a with None => true | Some h => N.eqb h 0 end
         | None => false
         end
  end.

Lemma fixed_all_ok : forallb fixed_ok spec_fixed = true.
Proof. vm_compute. reflexivity. Qed.

Definition table_ok (T : table) : Prop :=
  (exists c, assoc (lit "?") T = Some c) /\ NoDup (map fst T) /\
  forall k v, In (k, v) T -> valid_key k = true /\ 0 <= v /\ within_limit (length k).

Lemma assoc_of_In {A} (T : list (str * A)) k v : NoDup (map fst T) -> In (k, v) T -> assoc k T = Some v.
Proof.
  induction T as [|[k' v'] T IH]; intros Hnd Hin; [destruct Hin|]. cbn [map fst] in Hnd. inversion Hnd as [|? ? Hk Hnd']; subst.
  cbn [assoc]. destruct Hin as [E|Hin].
  - inversion E; subst. now rewrite str_eqb_refl.
  - destruct (str_eqb k k') eqn:Ek.
    + apply str_eqb_eq in Ek. subst k'. exfalso. apply Hk. apply in_map_iff. exists (k, v). split; [reflexivity|exact Hin].
    + now apply IH.
Qed.

Lemma capacity_nonneg T e ch v : table_ok T -> get_bonding_capacity T e ch = Ok v -> 0 <= v.
Proof.
  intros (Hq & Hnd & Hv) E. unfold get_bonding_capacity in E.
  destruct (assoc (constraint_key e ch) T) as [x|] eqn:Ea.
  - inversion E; subst. apply assoc_in in Ea. now apply Hv in Ea.
  - destruct (assoc (lit "?") T) as [x|] eqn:Eq; inversion E; subst. apply assoc_in in Eq. now apply Hv in Eq.
Qed.

Lemma pas_tok_ok T t x : process_atom_symbol T t = Ok (Some x) -> tok_ok t.
Proof.
  unfold process_atom_symbol, process_atom_symbol_c, tok_ok. destruct (process_atom_nocache t) as [o|]; [eauto|discriminate].
Qed.

Lemma fixed_good T x : table_ok T -> In x spec_fixed -> good_tok T x /\ is_symbol x /\ x <> nop_sym.
Proof.
  intros HT Hin. pose proof fixed_all_ok as F. rewrite forallb_forall in F. specialize (F x Hin). unfold fixed_ok in F.
  apply andb_true_iff in F as [F F3]. apply andb_true_iff in F as [F1 F2].
  split; [|split; [now apply wfsym_is_symbol|apply negb_true_iff in F2; now apply str_eqb_neq in F2]].
  destruct (process_atom_nocache x) as [o|] eqn:Eo; [|discriminate].
  split; [exists o; exact Eo|].
  destruct (is_branch_like x); [destruct (process_branch_symbol x); [discriminate|discriminate F3]|].
  destruct (is_ring_like x); [destruct (process_ring_symbol x); [discriminate|discriminate F3]|].
  destruct (is_eps_like x); [exact I|].
  destruct o as [[[ord st] a]|]; [|discriminate].
  unfold process_atom_symbol, process_atom_symbol_c. rewrite Eo. cbn [bind]. unfold bonding_capacity_c.
  destruct HT as (Hq & Hnd & Hv).
  destruct (capacity_total T Hq (a_element a) (a_charge a)) as [v Ev]. rewrite Ev. cbn [bind].
  pose proof (capacity_nonneg T _ _ _ (conj Hq (conj Hnd Hv)) Ev) as Hv0.
  assert (Eh : (v - match a_hcount a with Some h => Z.of_N h | None => 0 end) = v).
  { destruct (a_hcount a) as [h|]; [apply N.eqb_eq in F3; subst; cbn|]; lia. }
  rewrite Eh. assert (X : (v <? 0) = false) by (apply Z.ltb_ge; lia). rewrite X. eauto.
Qed.

(* ---------- atom symbols of the alphabet ---------- *)
Definition neutral_class_ok (e b : str) : bool :=
  let s := (lit "[" ++ b ++ e ++ lit "]")%list in
  negb (is_branch_like s) && negb (is_ring_like s) && negb (is_eps_like s) && negb (str_eqb s nop_sym).

Lemma neutral_class : forallb (fun e => forallb (fun bm => neutral_class_ok e (fst bm)) bond_prefix_orders) elements = true.
Proof. vm_compute. reflexivity. Qed.

Lemma prefixes_list b m : In (b, m) bond_prefix_orders -> In b [[]; [61%N]; [35%N]].
Proof. intros [X|[X|[X|[]]]]; inversion X; subst; cbn; auto. Qed.

Theorem atom_symbol_good T k cap b m : table_ok T -> In (k, cap) T -> k <> lit "?" -> In (b, m) bond_prefix_orders -> m <= cap ->
  let x := (lit "[" ++ b ++ k ++ lit "]")%list in good_tok T x /\ is_symbol x /\ x <> nop_sym.
Proof.
  intros HT Hin Hq Hb Hm x. pose proof HT as (Hqq & Hnd & Hv). destruct (Hv k cap Hin) as (Hvk & Hcap & Hlen).
  pose proof (assoc_of_In T k cap Hnd Hin) as Ha.
  pose proof (valid_key_shape k Hvk Hq) as Hshape.
  split; [|split].
  - destruct Hshape as [He|(e & sg & c & Ek & He & Hsg & Hc)].
    + destruct (neutral_alphabet_symbol_in_grammar T k cap b m He Hb Ha Hm) as (a & Ea & _).
      split; [eapply pas_tok_ok; exact Ea|].
      pose proof neutral_class as F. rewrite forallb_forall in F. specialize (F k He). rewrite forallb_forall in F. specialize (F (b, m) Hb).
      cbn [fst] in F. unfold neutral_class_ok in F. fold x in F.
      apply andb_true_iff in F as [F _]. apply andb_true_iff in F as [F F3]. apply andb_true_iff in F as [F1 F2].
      apply negb_true_iff in F1, F2, F3. rewrite F1, F2, F3. eauto.
    + subst k.
      assert (W : within_limit (length c)).
      { eapply within_limit_le; [|exact Hlen]. rewrite app_length. cbn [length]. lia. }
      destruct (charged_symbol_in_grammar T b m e sg c cap Hb He Hsg Hc W Ha Hcap) as (a & Ea).
      assert (Ex : x = (lit "[" ++ b ++ e ++ sg :: c ++ lit "]")%list) by (unfold x; now rewrite <- app_assoc).
      rewrite Ex. split; [eapply pas_tok_ok; exact Ea|].
      destruct (elements_mem e He) as [_ Hsh].
      destruct (charged_not_branch_ring b e sg c (prefixes_list b m Hb) Hsh Hsg Hc) as (C1 & C2 & C3 & _).
      cbv zeta in C1, C2, C3. rewrite C1, C2, C3. eauto.
  - apply atom_symbol_is_symbol; [eapply prefixes_list; exact Hb|now apply key_body].
  - destruct Hshape as [He|(e & sg & c & Ek & He & Hsg & Hc)].
    + pose proof neutral_class as F. rewrite forallb_forall in F. specialize (F k He). rewrite forallb_forall in F. specialize (F (b, m) Hb).
      cbn [fst] in F. unfold neutral_class_ok in F. fold x in F. apply andb_true_iff in F as [_ F]. apply negb_true_iff in F. now apply str_eqb_neq in F.
    + subst k. destruct (elements_mem e He) as [_ Hsh].
      destruct (charged_not_branch_ring b e sg c (prefixes_list b m Hb) Hsh Hsg Hc) as (_ & _ & _ & C4).
      cbv zeta in C4. apply str_eqb_neq in C4. unfold x. now rewrite <- app_assoc.
Qed.

(* every member of the alphabet *)
Theorem alphabet_symbol_good T x : table_ok T -> In x (compute_alphabet T) -> good_tok T x /\ is_symbol x /\ x <> nop_sym.
Proof.
  intros HT Hin. pose proof (proj1 (alphabet_is_spec T x) Hin) as Hs. clear Hin. destruct Hs as [Hf|(k & c & b & m & Hk & Hb & Hq & Hm & ->)].
  - now apply fixed_good.
  - apply (atom_symbol_good T k c b m HT Hk Hq); [|exact Hm].
    destruct Hb as [X|[X|[X|[]]]]; inversion X; subst; cbn; auto.
Qed.

(* ---------- a concatenation of alphabet symbols tokenises back into those symbols ---------- *)
Lemma symbols_render xs : Forall is_symbol xs -> exists l, wf l /\ render l = concat xs /\ tokens l = xs.
Proof.
  induction 1 as [|x xs (body & -> & Hb) _ (l & Hw & Hr & Ht)]; [exists []; repeat split; constructor|].
  exists ((body, false) :: l). split; [constructor; [exact Hb|exact Hw]|]. split.
  - change (render ((body, false) :: l)) with ((sym_of body ++ []) ++ render l). rewrite Hr, app_nil_r. reflexivity.
  - change (tokens ((body, false) :: l)) with ((sym_of body :: []) ++ tokens l). now rewrite Ht.
Qed.

Lemma split_char_aux_nodot c : forall s cur, ~ In c s -> split_char_aux c s cur = [rev cur ++ s].
Proof.
  induction s as [|x r IH]; intros cur H; cbn [split_char_aux]; [now rewrite app_nil_r|].
  destruct (N.eqb_spec x c) as [->|Hne]; [exfalso; apply H; now left|].
  rewrite IH by (intro; apply H; now right). cbn [rev]. now rewrite <- app_assoc.
Qed.

Lemma symbol_nodot x : is_symbol x -> ~ In c_dot x.
Proof.
  intros (body & -> & Hb) Hin. unfold sym_of in Hin. destruct Hin as [E|Hin]; [discriminate|].
  apply in_app_iff in Hin as [Hin|[E|[]]]; [|discriminate].
  rewrite forallb_forall in Hb. specialize (Hb _ Hin). discriminate.
Qed.

Lemma filter_all {A} (p : A -> bool) l : (forall x, In x l -> p x = true) -> filter p l = l.
Proof. induction l as [|x l IH]; intro H; cbn; [reflexivity|]. rewrite (H x (or_introl eq_refl)), IH; [reflexivity|]. intros y Hy. apply H. now right. Qed.

Lemma tokenize_symbols xs : Forall is_symbol xs -> Forall (fun x => x <> nop_sym) xs ->
  tokenize_all (concat xs) false = [(xs, None)].
Proof.
  intros Hs Hn. unfold tokenize_all, split_char.
  rewrite split_char_aux_nodot.
  2:{ intro Hin. apply in_concat in Hin as (x & Hx & Hin). rewrite Forall_forall in Hs. exact (symbol_nodot x (Hs x Hx) Hin). }
  cbn [rev app map]. unfold tokenize_selfies.
  destruct (symbols_render xs Hs) as (l & Hw & Hr & Ht). rewrite <- Hr, (split_wf l Hw), Ht.
  rewrite filter_all; [reflexivity|].
  intros x Hx. rewrite Forall_forall in Hn. apply negb_true_iff. apply str_eqb_neq. now apply Hn.
Qed.

(* ---------- C07: closure ---------- *)
Section Closure.
Variable T : table.
Hypothesis HT : table_ok T.
Variable xs : list str.
Hypothesis Hxs : Forall (fun x => In x (compute_alphabet T)) xs.

Let Hq : exists c, assoc (lit "?") T = Some c := proj1 HT.

Lemma xs_facts : Forall (good_tok T) xs /\ Forall is_symbol xs /\ Forall (fun x => x <> nop_sym) xs.
Proof.
  repeat split; apply Forall_forall; intros x Hx; rewrite Forall_forall in Hxs; destruct (alphabet_symbol_good T x HT (Hxs x Hx)) as (A & B & C); assumption.
Qed.

Theorem alphabet_string_decodes attribute : exists out, decoder T (concat xs) false attribute = Ok out.
Proof.
  destruct xs_facts as (Hg & Hs & Hn). apply (decoder_ok T Hq). rewrite (tokenize_symbols xs Hs Hn).
  constructor; [|constructor]. split; [reflexivity|exact Hg].
Qed.

Lemma alphabet_string_digits_ok : digits_ok (concat xs).
Proof.
  destruct xs_facts as (Hg & Hs & Hn). intros frag Hf.
  unfold split_char in Hf. rewrite split_char_aux_nodot in Hf.
  2:{ intro Hin. apply in_concat in Hin as (x & Hx & Hin). rewrite Forall_forall in Hs. exact (symbol_nodot x (Hs x Hx) Hin). }
  cbn [rev app] in Hf. destruct Hf as [<-|[]].
  destruct (symbols_render xs Hs) as (l & Hw & Hr & Ht). rewrite <- Hr, (split_wf l Hw), Ht. cbn [fst].
  eapply Forall_impl; [|exact Hg]. intros t [A _]. exact A.
Qed.

(* ... and the molecule it decodes to obeys the table *)
Theorem alphabet_string_graph_ok attribute m : decode_graph T (concat xs) false attribute = Ok m -> GraphOK T m.
Proof. apply (decode_graph_ok T (concat xs) attribute m Hq alphabet_string_digits_ok). Qed.
End Closure.

(* ---------- an executable test for table_ok ---------- *)
Fixpoint nodup_strs (l : list str) : bool :=
  match l with [] => true | x :: r => negb (mem_str x r) && nodup_strs r end.

Lemma nodup_strs_sound l : nodup_strs l = true -> NoDup l.
Proof.
  induction l as [|x r IH]; intro H; [constructor|]. cbn in H. apply andb_true_iff in H as [A B].
  constructor; [|now apply IH]. intro Hin. apply mem_str_In in Hin. rewrite Hin in A. discriminate.
Qed.

Definition table_okb (T : table) : bool :=
  match assoc (lit "?") T with Some _ => true | None => false end
  && nodup_strs (map fst T)
  && forallb (fun kv => valid_key (fst kv) && (0 <=? snd kv) && (N.of_nat (length (fst kv)) <=? int_max_str_digits)%N) T.

Lemma table_okb_sound T : table_okb T = true -> table_ok T.
Proof.
  unfold table_okb. intro H. apply andb_true_iff in H as [H H3]. apply andb_true_iff in H as [H1 H2].
  split; [destruct (assoc (lit "?") T); [eauto|discriminate]|]. split; [now apply nodup_strs_sound|].
  intros k v Hin. rewrite forallb_forall in H3. specialize (H3 (k, v) Hin). cbn [fst snd] in H3.
  apply andb_true_iff in H3 as [H3 C]. apply andb_true_iff in H3 as [A B].
  split; [exact A|]. split; [now apply Z.leb_le|right; now apply N.leb_le].
Qed.
