(* WriterToks.v — C01: the string the decoder's writer prints for a subtree is tokenised by
   the independent reader into exactly the token list of an abstract writer [atoks] that
   walks the same graph and emits reader tokens directly (ring labels below 100). *)
From Coq Require Import Ascii String List Arith ZArith NArith Bool Lia.
Import ListNotations.
From Selfies Require Import Base Generated Lex Atoms Decoder Reader BaseFacts DecoderInv TokFacts DecFacts AlphaClosure WriterAtoms WriterLex.
Local Open Scope Z_scope.

Definition str_of (evs : list wev) : str := concat (map w_tok evs).

Lemma str_of_app a b : str_of (a ++ b) = (str_of a ++ str_of b)%list.
Proof. unfold str_of. now rewrite map_app, concat_app. Qed.
Lemma str_of_cons e evs : str_of (e :: evs) = (w_tok e ++ str_of evs)%list.
Proof. reflexivity. Qed.

(* a printed piece and the tokens it is read as *)
Definition PieceLex (s : str) (ts : list stok) : Prop :=
  piece_ok s /\ forall rest l, safe_start rest -> lexes rest l -> lexes (s ++ rest) (ts ++ l).

Lemma pl_nil : PieceLex [] [].
Proof. split; [now left|auto]. Qed.

Lemma pl_app s1 t1 s2 t2 : PieceLex s1 t1 -> PieceLex s2 t2 -> PieceLex (s1 ++ s2) (t1 ++ t2).
Proof.
  intros [P1 L1] [P2 L2]. split.
  - destruct P1 as [->|F1]; [exact P2|]. right. destruct s1; [destruct F1|exact F1].
  - intros rest l Hs Hl. rewrite <- !app_assoc. apply L1; [now apply safe_app|now apply L2].
Qed.

Lemma pl_atom a : AtomShape a -> exists tok, atom_to_smiles a true = Ok tok /\ PieceLex tok [RAtom (abs_atom a)].
Proof.
  intro H. destruct (atom_token_read a H) as (tok & E & F & L). exists tok. split; [exact E|]. split; [now right|].
  intros rest l Hs [f Hf]. exists (S f). now apply L.
Qed.

Lemma pl_bond o st tok : 1 <= o <= 3 -> bond_to_smiles o st = Ok tok -> PieceLex tok (btoks o st).
Proof. intros Ho E. destruct (bond_lex o st tok Ho E) as [P L]. split; [exact P|]. intros rest l _ Hl. now apply L. Qed.

Lemma pl_label n : (1 <= n < 100)%nat -> PieceLex (label_str n) [RRing (N.of_nat n)].
Proof.
  intro Hn. split; [right; exact (proj2 (label_lex n [] [] Hn lexes_nil))|].
  intros rest l _ Hl. exact (proj1 (label_lex n rest l Hn Hl)).
Qed.

Lemma pl_open : PieceLex (lit "(") [ROpen].
Proof. split; [right; reflexivity|]. intros rest l _ Hl. now apply open_lex. Qed.
Lemma pl_close : PieceLex (lit ")") [RClose].
Proof. split; [right; reflexivity|]. intros rest l _ Hl. now apply close_lex. Qed.

(* ---------- the abstract writer ---------- *)
Fixpoint atoks (fuel : nat) (m : dmol) (curr : nat) (log : list (nat * nat)) : res (list stok * list (nat * nat)) :=
  match fuel with O => Err OutOfFuel | S f =>
  match nth_error (atoms m) curr, nth_error (adj m) curr with
  | Some (a, _, _), Some bonds =>
    let fix go (l : list dbond) (log : list (nat * nat)) : res (list stok * list (nat * nat)) :=
      match l with
      | [] => Ok ([], log)
      | e :: rest =>
        let bt := btoks (b_order e) (b_stereo e) in
        if b_ring e then
          let '(log2, n) := ring_label log (b_src e) (b_dst e) in
          do (out, log3) <- go rest log2;
          Ok (bt ++ RRing (N.of_nat n) :: out, log3)
        else
          do (sub, log2) <- atoks f m (b_dst e) log;
          do (out, log3) <- go rest log2;
          match rest with
          | [] => Ok (bt ++ sub ++ out, log3)
          | _ => Ok (ROpen :: bt ++ sub ++ RClose :: out, log3)
          end
      end in
    do (out, log2) <- go bonds log;
    Ok (RAtom (abs_atom a) :: out, log2)
  | _, _ => Err IndexError
  end end.

Lemma ring_label_facts log a b : let '(log2, n) := ring_label log a b in
  (length log <= length log2)%nat /\ (1 <= n <= length log2)%nat.
Proof.
  unfold ring_label.
  assert (G : forall l i k, (fix go (l : list (nat * nat)) (i : nat) : option nat :=
                              match l with [] => None | k0 :: r => if pair_eqb k0 (Nat.min a b, Nat.max a b) then Some i else go r (S i) end) l i = Some k ->
              (i <= k < i + length l)%nat).
  { induction l as [|k0 r IH]; intros i k E; [discriminate|]. destruct (pair_eqb k0 _); [inversion E; subst; cbn; lia|].
    apply IH in E. cbn [length]. lia. }
  destruct ((fix go (l : list (nat * nat)) (i : nat) : option nat := match l with [] => None | k0 :: r => if pair_eqb k0 (Nat.min a b, Nat.max a b) then Some i else go r (S i) end) log 1%nat) as [k|] eqn:E.
  - apply G in E. lia.
  - rewrite app_length. cbn. lia.
Qed.

Section Tok.
Variable m : dmol.
Hypothesis Hatoms : forall i a c at_, nth_error (atoms m) i = Some (a, c, at_) -> AtomShape a.
Hypothesis Hbonds : forall i bonds e, nth_error (adj m) i = Some bonds -> In e bonds -> 1 <= b_order e <= 3.

Lemma write_atom_toks : forall fuel curr log evs log', write_atom fuel m curr log = Ok (evs, log') -> (length log' < 100)%nat ->
  (length log <= length log')%nat /\ exists ts, atoks fuel m curr log = Ok (ts, log') /\ PieceLex (str_of evs) ts /\ first_ok (str_of evs).
Proof.
  induction fuel as [|f IH]; intros curr log evs log' E Hlen; [discriminate|].
  cbn [write_atom atoks] in *.
  destruct (nth_error (atoms m) curr) as [[[a c] at_]|] eqn:Ea; [|discriminate].
  destruct (nth_error (adj m) curr) as [bonds|] eqn:Eb; [|discriminate].
  destruct (pl_atom a (Hatoms _ _ _ _ Ea)) as (tok & Et & Pt). rewrite Et in E. cbn [bind] in E.
  pose proof (fun e => Hbonds curr bonds e Eb) as Hbo. clear Eb.
  match type of E with (do _ <- ?GO bonds log; _) = _ =>
    match goal with |- _ /\ exists ts, (do _ <- ?GA bonds log; _) = _ /\ _ =>
      assert (G : forall l lg out lg', (forall e, In e l -> 1 <= b_order e <= 3) -> GO l lg = Ok (out, lg') -> (length lg' < 100)%nat ->
                    (length lg <= length lg')%nat /\ exists ts, GA l lg = Ok (ts, lg') /\ PieceLex (str_of out) ts) end end.
  { induction l as [|e rest IHl]; intros lg out lg' Hl Eg Hlg.
    - inversion Eg; subst. split; [lia|]. exists []. split; [reflexivity|apply pl_nil].
    - assert (Hoe : 1 <= b_order e <= 3) by (apply Hl; now left).
      assert (Hl' : forall e0, In e0 rest -> 1 <= b_order e0 <= 3) by (intros; apply Hl; now right).
      destruct (bond_to_smiles (b_order e) (b_stereo e)) as [btok|] eqn:Ebt; cbn [bind] in Eg; [|discriminate].
      pose proof (pl_bond _ _ _ Hoe Ebt) as Pb.
      destruct (b_ring e).
      + pose proof (ring_label_facts lg (b_src e) (b_dst e)) as RL.
        destruct (ring_label lg (b_src e) (b_dst e)) as [log2 n]. destruct RL as [RL1 RL2].
        match type of Eg with (do _ <- ?X; _) = _ => destruct X as [[out0 log3]|] eqn:Er end; cbn [bind] in Eg; [|discriminate].
        inversion Eg; subst; clear Eg.
        destruct (IHl log2 out0 lg' Hl' Er Hlg) as (L2 & ts0 & Ea0 & P0). split; [lia|].
        rewrite Ea0. cbn [bind]. eexists. split; [reflexivity|].
        change ({| w_kind := WBond; w_tok := btok; w_attr := b_attr e |} :: label_events n ++ out0)
          with ([{| w_kind := WBond; w_tok := btok; w_attr := b_attr e |}] ++ label_events n ++ out0).
        rewrite !str_of_app. change (str_of [{| w_kind := WBond; w_tok := btok; w_attr := b_attr e |}]) with (btok ++ [])%list. rewrite app_nil_r.
        apply pl_app; [exact Pb|]. change (RRing (N.of_nat n) :: ts0) with ([RRing (N.of_nat n)] ++ ts0).
        apply pl_app; [|exact P0]. apply (pl_label n). lia.
      + destruct (write_atom f m (b_dst e) lg) as [[sub log2]|] eqn:Es; cbn [bind] in Eg; [|discriminate].
        match type of Eg with (do _ <- ?X; _) = _ => destruct X as [[out0 log3]|] eqn:Er end; cbn [bind] in Eg; [|discriminate].
        assert (E3 : log3 = lg') by (destruct rest; inversion Eg; reflexivity). subst log3.
        destruct (IHl log2 out0 lg' Hl' Er Hlg) as (L2 & ts0 & Ea0 & P0).
        destruct (IH (b_dst e) lg sub log2 Es ltac:(lia)) as (L1 & tsub & Easub & Psub & _).
        split; [lia|]. rewrite Easub. cbn [bind]. rewrite Ea0. cbn [bind].
        destruct rest as [|e2 rest2].
        * inversion Eg; subst; clear Eg. eexists. split; [reflexivity|].
          change ({| w_kind := WBond; w_tok := btok; w_attr := b_attr e |} :: sub ++ out0)
            with ([{| w_kind := WBond; w_tok := btok; w_attr := b_attr e |}] ++ sub ++ out0).
          rewrite !str_of_app. change (str_of [{| w_kind := WBond; w_tok := btok; w_attr := b_attr e |}]) with (btok ++ [])%list. rewrite app_nil_r.
          apply pl_app; [exact Pb|]. apply pl_app; assumption.
        * inversion Eg; subst; clear Eg. eexists. split; [reflexivity|].
          change (punct "(" :: {| w_kind := WBond; w_tok := btok; w_attr := b_attr e |} :: sub ++ punct ")" :: out0)
            with ([punct "("] ++ [{| w_kind := WBond; w_tok := btok; w_attr := b_attr e |}] ++ sub ++ [punct ")"] ++ out0).
          rewrite !str_of_app.
          change (str_of [punct "("]) with (lit "(" ++ [])%list. change (str_of [punct ")"]) with (lit ")" ++ [])%list.
          change (str_of [{| w_kind := WBond; w_tok := btok; w_attr := b_attr e |}]) with (btok ++ [])%list. rewrite !app_nil_r.
          change (ROpen :: btoks (b_order e) (b_stereo e) ++ tsub ++ RClose :: ts0)
            with ([ROpen] ++ btoks (b_order e) (b_stereo e) ++ tsub ++ [RClose] ++ ts0).
          apply pl_app; [apply pl_open|]. apply pl_app; [exact Pb|]. apply pl_app; [exact Psub|]. apply pl_app; [apply pl_close|exact P0]. }
  match type of E with (do _ <- ?X; _) = _ => destruct X as [[out log2]|] eqn:Eg end; cbn [bind] in E; [|discriminate].
  inversion E; subst; clear E.
  destruct (G bonds log out log' Hbo Eg Hlen) as (L & ts & Ea' & Po). split; [exact L|].
  rewrite Ea'. cbn [bind]. eexists. split; [reflexivity|].
  rewrite str_of_cons. cbn [w_tok]. split.
  - change (RAtom (abs_atom a) :: ts) with ([RAtom (abs_atom a)] ++ ts). apply pl_app; assumption.
  - destruct Pt as [[->|F] _]; [|destruct tok; [destruct F|exact F]].
    exfalso. destruct (atom_token_read a (Hatoms _ _ _ _ Ea)) as (tok' & Et' & F' & _). rewrite Et in Et'. inversion Et'; subst. destruct F'.
Qed.
End Tok.

(* ---------- all fragments ---------- *)
Fixpoint rtoks (m : dmol) (rs : list nat) (log : list (nat * nat)) : res (list stok * list (nat * nat)) :=
  match rs with
  | [] => Ok ([], log)
  | r :: rest =>
    do (ts, log2) <- atoks (S (length (atoms m))) m r log;
    do (ts', log3) <- rtoks m rest log2;
    Ok (match rest with [] => ts | _ => ts ++ RDot :: ts' end, log3)
  end.

