(* EncOrd.v — C03, bond half at symbol level: the bond prefix of the symbol printed for an atom agrees with the bond written
   before that atom's token in the SMILES.  An explicit '-', '=', '#', '/', '\' is reproduced with the same order; a bond
   written ':' or left implicit is printed as a single or a double bond (implicit between non-aromatic atoms: single, by
   the first clause).  Through: the reader (ord_of, along the token loop), kekulize (EncKeep.v: only aromatic orders
   change, every other field of an edge is kept), the walk (the bond through which an atom is entered). *)
From Coq Require Import Ascii String List Arith ZArith NArith Bool Lia.
Import ListNotations.
From Selfies Require Import Base Generated Lex Atoms Grammar Decoder Smiles PySet Matching Kekulize Encoder BaseFacts ConfigFacts DecoderInv
  ParserTotal EncHyp EncShape EncTokens EncRows EncAttr EncStereo EncFuel EncIndex EncKey EncAttrErr EncArom EncUniq EncOrders EncKek EncMatch EncKeep.
Local Open Scope nat_scope.

Definition ord_of (ex : list (nat * token)) (e : ebond) : Prop :=
  e_ring e = false -> exists pos tok, nth_error ex (e_dst e) = Some (pos, tok) /\
    (e_order2 e = fst (smiles_to_bond2 (t_bond tok)) \/ (t_bond tok = None /\ e_order2 e = 3%Z)).

Lemma ord_ring ex e : e_ring e = true -> ord_of ex e. Proof. intros H H'. congruence. Qed.
Lemma ord_mono ex X e : ord_of ex e -> ord_of (ex ++ X) e.
Proof. intros H Hr. destruct (H Hr) as (pos & tok & Hn & Hs). exists pos, tok. split; [|exact Hs]. rewrite nth_error_app1; [exact Hn|]. apply nth_error_Some. congruence. Qed.

Lemma attach_edge_o ex m tok a prev i m' idx i' : EdgeP (ord_of ex) m -> length ex = mg_len m -> attach_atom m tok a prev i = Ok (m', idx, i') ->
  EdgeP (ord_of (ex ++ [(i', tok)])) m' /\ mg_len m' = S (mg_len m).
Proof.
  intros Hm Hlen E. pose proof (attach_atoms _ _ _ _ _ _ _ _ E) as At.
  assert (L : mg_len m' = S (mg_len m)).
  { apply (f_equal (@length atom)) in At. unfold atoms_of in At. rewrite app_length, !map_length in At. unfold mg_len. cbn [length] in At. lia. }
  split; [|exact L]. revert E. unfold attach_atom. destruct (mg_add_atom m a _) as [m1 ix] eqn:Ea.
  assert (A1 : EdgeP (ord_of (ex ++ [(i', tok)])) m1 /\ ix = mg_len m).
  { unfold mg_add_atom in Ea. inversion Ea; subst. split; [|reflexivity]. intros j row e Hn Hin. cbn [m_adj] in Hn.
    destruct (Nat.lt_ge_cases j (length (m_adj m))) as [Lt|G].
    - rewrite nth_error_app1 in Hn by exact Lt. apply ord_mono. exact (Hm _ _ _ Hn Hin).
    - rewrite nth_error_app2 in Hn by exact G. destruct (j - length (m_adj m)) as [|k]; cbn in Hn; [inversion Hn; subst; destruct Hin|destruct k; discriminate]. }
  destruct A1 as [A1 Eix]. subst ix.
  destruct (mg_add_attr_atom m1 (mg_len m) _) as [m2|] eqn:E2; cbn [bind]; [|discriminate].
  apply add_attr_adj in E2. assert (A2 : EdgeP (ord_of (ex ++ [(i', tok)])) m2) by (apply (edge_same _ m1); assumption).
  destruct prev as [src|]; [|intro E; inversion E; subst; exact A2].
  destruct (smiles_to_bond2 (t_bond tok)) as [o2 st] eqn:Eb. destruct (mg_get_atom m2 src) as [pa|]; cbn [bind]; [|discriminate].
  destruct (mg_add_bond m2 _ _ _ _ _) as [m3|] eqn:E3; cbn [bind]; [|discriminate].
  intro E; inversion E; subst. eapply (add_bond_edge (ord_of _)); [exact A2| |exact E3].
  intros _. cbn [e_dst e_order2]. do 2 eexists. split; [rewrite nth_error_app2 by lia; rewrite Hlen, Nat.sub_diag; reflexivity|]. cbn [snd fst]. rewrite Eb. cbn [fst].
  destruct (a_aromatic (fst pa) && a_aromatic a) eqn:Ear; cbn [andb]; [|now left]. destruct (t_bond tok); [now left|right; auto].
Qed.

Lemma derive_loop_ords : forall ts st st' rest ex, EdgeP (ord_of ex) (p_mol st) -> length ex = mg_len (p_mol st) ->
  derive_loop ts st = Ok (st', rest) ->
  exists X, EdgeP (ord_of (ex ++ X)) (p_mol st') /\ length (ex ++ X) = mg_len (p_mol st') /\ expect ts (p_i st) = X ++ expect rest (p_i st').
Proof.
  induction ts as [|tok r IH]; intros st st' rest ex Hm Hl E; cbn [derive_loop] in E.
  { inversion E; subst. exists []. rewrite app_nil_r. auto. }
  destruct (p_prev st) as [|prev below]; [discriminate|]. cbn [expect].
  assert (Same : forall m', m_atoms m' = m_atoms (p_mol st) -> length ex = mg_len m') by (intros m' H; unfold mg_len in *; now rewrite H).
  destruct (t_type tok).
  - destruct (smiles_to_atom (t_text tok)) as [[a|]|] eqn:Ea; cbn [bind] in E; try discriminate.
    destruct (attach_atom _ _ _ _ _) as [[[m' idx] i']|] eqn:Eat; cbn [bind] in E; [|discriminate].
    destruct (attach_edge_o ex _ _ _ _ _ _ _ _ Hm Hl Eat) as [A L].
    assert (Ei : i' = match t_bond tok with Some _ => S (p_i st) | None => p_i st end).
    { revert Eat. unfold attach_atom. destruct (mg_add_atom _ a _) as [m1 ix]. destruct (mg_add_attr_atom m1 ix _); cbn [bind]; [|discriminate].
      destruct prev; [|intro H; now inversion H]. destruct (smiles_to_bond2 _). destruct (mg_get_atom _ _); cbn [bind]; [|discriminate].
      destruct (mg_add_bond _ _ _ _ _ _); cbn [bind]; [|discriminate]. intro H; now inversion H. }
    assert (IHE := fun H1 H2 => IH _ _ _ (ex ++ [(i', tok)]) H1 H2 E). cbn [p_mol p_i] in IHE.
    destruct (IHE A ltac:(rewrite app_length; cbn [length]; lia)) as (X & H1 & H2 & H3).
    exists ((i', tok) :: X). rewrite <- app_assoc in H1, H2. cbn [app] in H1, H2. split; [exact H1|]. split; [exact H2|].
    rewrite <- Ei. cbn [app]. now rewrite H3.
  - destruct (p_chain_start st); [discriminate|].
    destruct (str_eqb _ _).
    + assert (IHE := fun H1 H2 => IH _ _ _ ex H1 H2 E). cbn [p_mol p_i] in IHE. exact (IHE Hm Hl).
    + destruct (p_branch st); [discriminate|]. assert (IHE := fun H1 H2 => IH _ _ _ ex H1 H2 E). cbn [p_mol p_i] in IHE. exact (IHE Hm Hl).
  - destruct (p_chain_start st); [discriminate|].
    destruct (ring_log_find _ _) as [[[ltok latom] lpos]|].
    + destruct (atom_index prev) as [ratom|]; cbn [bind] in E; [|discriminate].
      destruct (make_ring_bonds _ _ _ _ _ _) as [m'|] eqn:Er; cbn [bind] in E; [|discriminate].
      assert (IHE := fun H1 H2 => IH _ _ _ ex H1 H2 E). cbn [p_mol p_i] in IHE.
      exact (IHE (make_ring_edge _ (ord_ring ex) _ _ _ _ _ _ _ Hm Er) (Same _ (make_ring_atoms _ _ _ _ _ _ _ Er))).
    + destruct (atom_index prev) as [src|]; cbn [bind] in E; [|discriminate].
      destruct (mg_add_placeholder_bond _ _) as [[m' lpos]|] eqn:Epl; cbn [bind] in E; [|discriminate].
      assert (IHE := fun H1 H2 => IH _ _ _ ex H1 H2 E). cbn [p_mol p_i] in IHE.
      exact (IHE (placeholder_edge _ _ _ _ _ Hm Epl) (Same _ (placeholder_atoms _ _ _ _ Epl))).
  - inversion E; subst. exists []. cbn [p_mol p_i]. rewrite app_nil_r. auto.
Qed.

Lemma fragments_ords : forall fuel m ts i m' ex, EdgeP (ord_of ex) m -> length ex = mg_len m -> fragments_loop fuel m ts i = Ok m' ->
  EdgeP (ord_of (ex ++ expect ts i)) m'.
Proof.
  induction fuel as [|f IH]; intros m ts i m' ex Hm Hl E; [discriminate|]. cbn [fragments_loop] in E.
  destruct ts as [|t r]; [inversion E; subst; cbn [expect]; now rewrite app_nil_r|].
  destruct (derive_mol_from_tokens m (t :: r) i) as [[[m1 i1] rest]|] eqn:Ed; cbn [bind] in E; [|discriminate].
  unfold derive_mol_from_tokens in Ed.
  destruct (derive_loop (t :: r) _) as [[st rest']|] eqn:El; cbn [bind] in Ed; [|discriminate].
  assert (DL := fun H1 H2 => derive_loop_ords _ _ _ _ ex H1 H2 El). cbn [p_mol p_i] in DL.
  destruct (DL Hm Hl) as (X & H1 & H2 & H3).
  destruct (_ =? _); [discriminate|]. destruct (p_branch st); [|discriminate]. destruct (p_rings st); [|discriminate].
  inversion Ed; subst. rewrite H3, app_assoc. exact (IH _ _ _ _ _ H1 H2 E).
Qed.

Theorem parsed_ords smiles attributable m ts : smiles_to_mol smiles attributable = Ok m -> tokenize_smiles smiles = Ok ts ->
  EdgeP (ord_of (expect ts 0)) m.
Proof.
  unfold smiles_to_mol. destruct smiles as [|c s]; [discriminate|]. intros E Et. rewrite Et in E. cbn [bind] in E.
  apply (fragments_ords (S (length ts)) (mg_empty attributable) ts 0 m []); [|reflexivity|exact E].
  intros j row e Hn. destruct j; discriminate.
Qed.

(* ---------- through kekulize: an edge of the kekulised graph and the reader's edge in the same slot ---------- *)
Definition strip (e : ebond) : ebond := with_order2 e 0.

Lemma rel_strong m0 m1 : U m0 -> skel (m_adj m1) = skel (m_adj m0) -> Rel m0 m1 ->
  forall j row1 e1, nth_error (m_adj m1) j = Some row1 -> In (Some e1) row1 ->
    exists row0 e0, nth_error (m_adj m0) j = Some row0 /\ In (Some e0) row0 /\ strip e0 = strip e1 /\ R (e_order2 e0) (e_order2 e1).
Proof.
  intros Hu Hs Hr j row1 e1 Hn Hin. destruct (Hr j row1 e1 Hn Hin) as (row0 & e0 & Hn0 & Hi0 & Hd & HR).
  exists row0. destruct (In_nth_error _ _ Hin) as [p Hp].
  assert (Hrow : map (option_map strip) row1 = map (option_map strip) row0).
  { unfold skel in Hs. apply (f_equal (fun l => nth_error l j)) in Hs. rewrite !nth_error_map, Hn, Hn0 in Hs. cbn in Hs. now inversion Hs. }
  apply (f_equal (fun l => nth_error l p)) in Hrow. rewrite !nth_error_map, Hp in Hrow. cbn [option_map] in Hrow.
  destruct (nth_error row0 p) as [[e0'|]|] eqn:Hp0; cbn [option_map] in Hrow; try discriminate.
  assert (Hst : strip e1 = strip e0') by congruence.
  assert (e0' = e0).
  { destruct (In_nth_error _ _ Hi0) as [q Hq]. assert (p = q); [|subst q; congruence].
    apply (Hu j row0 p q e0' e0 Hn0 Hp0 Hq). apply (f_equal e_dst) in Hst. unfold strip in Hst. cbn [with_order2 e_dst] in Hst. congruence. }
  subst e0'. exists e0. split; [exact Hn0|]. split; [exact Hi0|]. split; [symmetry; exact Hst|exact HR].
Qed.

(* ---------- the walk, remembering the bond through which each atom is entered, and the roots ---------- *)
Definition entered_r (m : emol) (b : option ebond) (i : nat) : Prop :=
  match b with None => In i (m_roots m) | Some b0 => e_dst b0 = i /\ e_ring b0 = false /\ in_graph m b0 end.
Definition printed_r (m : emol) (i : nat) (a : atom) (at_ : attrs) (tok : str) : Prop :=
  mg_get_atom m i = Ok (a, at_) /\ exists b, atom_to_selfies b a = Ok tok /\ entered_r m b i.

Section WalkR.
Variable P : nat -> atom -> attrs -> str -> Prop.
Variable m : emol.
Hypothesis HP : forall i a at_ tok, printed_r m i a at_ tok -> P i a at_ tok.

Lemma walk_walked_r : forall fuel b curr aidx off ts ms, entered_r m b curr -> fragment_walk fuel m b curr aidx off = Ok (ts, ms) -> Walked P m ts (map ent ms).
Proof.
  induction fuel as [|f IH]; intros b curr aidx off ts ms Hb E; [discriminate|]. cbn [fragment_walk] in E.
  destruct (mg_get_atom m curr) as [[a at_]|] eqn:Ea; cbn [bind fst snd] in E; [|discriminate].
  destruct (atom_to_selfies b a) as [tok|] eqn:Et; cbn [bind fst] in E; [|discriminate].
  destruct (mg_get_out_dirbonds m curr) as [raw|] eqn:Eraw; cbn [bind] in E; [|discriminate].
  destruct (Encoder.all_some raw) as [bonds|] eqn:Eall; cbn [bind] in E; [|discriminate].
  match type of E with (do _ <- ?X; _) = _ => destruct X as [[ts1 ms1]|] eqn:E1 end; cbn [bind] in E; [|discriminate].
  inversion E; subst; clear E. cbn [map]. unfold ent at 1. cbn [mk_amap am_token am_attr].
  apply (W_atom P m curr a at_); [apply HP; split; [exact Ea|exists b; split; [exact Et|exact Hb]]|].
  eapply out_loop_walked_v; [|exact E1]. intros b0 ai o ts0 ms0 Hin Hr H.
  apply (IH (Some b0) (e_dst b0) ai o ts0 ms0); [|exact H]. split; [reflexivity|]. split; [exact Hr|].
  unfold ring_bonds_first in Hin. apply in_app_iff in Hin. assert (Hin' : In b0 bonds) by (destruct Hin as [Hi|Hi]; apply filter_In in Hi; tauto).
  unfold mg_get_out_dirbonds in Eraw. apply lget_In in Eraw. exists curr, raw. split; [exact Eraw|exact (all_some_In' _ _ _ Eall Hin')].
Qed.

Lemma encode_roots_walked_r : forall roots aidx frags maps, incl roots (m_roots m) -> encode_roots m roots aidx = Ok (frags, maps) ->
  exists tss mss, frags = map (@concat N) tss /\ maps = concat mss /\ Forall2 (fun ts ms => Walked P m ts (map ent ms)) tss mss.
Proof.
  induction roots as [|r rest IH]; intros aidx frags maps Hi E; cbn [encode_roots] in E.
  - inversion E; subst. exists [], []. repeat split; constructor.
  - destruct (fragment_to_selfies m r aidx) as [[derived mp]|] eqn:Ef; cbn [bind] in E; [|discriminate].
    destruct (encode_roots m rest _) as [[frags' maps']|] eqn:Er; cbn [bind] in E; [|discriminate]. inversion E; subst; clear E.
    destruct (IH _ _ _ (fun x Hx => Hi x (or_intror Hx)) Er) as (tss & mss & -> & -> & F). exists (derived :: tss), (mp :: mss). repeat split.
    constructor; [|exact F]. unfold fragment_to_selfies in Ef. exact (walk_walked_r _ None _ _ _ _ _ (Hi r (or_introl eq_refl)) Ef).
Qed.
End WalkR.

(* ---------- the theorem ---------- *)
(* the bond prefix of an atom symbol: the first symbol of a fragment (a root of the graph) has none; any other agrees in
   order with the bond written before the atom's token, up to kekulisation of an aromatic or implicit bond *)
Definition order_back (roots : list nat) (ts : list token) (i : nat) (a : atom) (at_ : attrs) (tok : str) : Prop :=
  exists t bc, atom_to_smiles a false = Ok t /\ tok = (lit "[" ++ bc ++ t ++ lit "]")%list /\
    ((In i roots /\ bc = []) \/
     exists pos tk, nth_error (expect ts 0) i = Some (pos, tk) /\
       let p := fst (smiles_to_bond2 (hd_error bc)) in let s := fst (smiles_to_bond2 (t_bond tk)) in
       (p = s \/ ((s = 3 \/ t_bond tk = None) /\ (p = 2 \/ p = 4)))%Z).

Theorem encoder_orders_faithful T smiles strict attribute x maps ts :
  encoder T smiles strict attribute = Ok (x, maps) -> tokenize_smiles smiles = Ok ts ->
  exists m tss mss,
    x = join (lit ".") (map (@concat N) tss) /\
    maps = filter (fun a => match am_token a with [] => false | _ => true end) (concat mss) /\
    Forall2 (fun toks ms => Walked (order_back (m_roots m) ts) m toks (map ent ms)) tss mss.
Proof.
  intros E Et. unfold encoder, encoder_c in E.
  destruct (smiles_to_mol smiles attribute) as [m0|e] eqn:Ep; [|destruct e; discriminate].
  pose proof (parsed_ords _ _ _ _ Ep Et) as M0. unfold encode_mol in E.
  destruct (kekulize m0) as [[m1|]|] eqn:Ek; cbn [bind] in E; try discriminate.
  destruct (parsed_kekulize_keeps _ _ _ _ Ep Ek) as [Hsk Hrel].
  destruct (parsed_gue _ _ _ Ep) as (_ & _ & _ & _ & _ & _ & Hu & _).
  pose proof (rel_strong m0 m1 Hu Hsk Hrel) as RS1.
  match type of E with (do _ <- ?X; _) = _ => destruct X; cbn [bind] in E; [|discriminate] end.
  destruct (invert_pass m1 (m_atoms m1) 0) as [atoms'|] eqn:Ei; cbn [bind] in E; [|discriminate].
  set (m2 := set_atoms m1 atoms') in *.
  destruct (encode_roots m2 _ 0) as [[frags maps0]|] eqn:Er; cbn [bind] in E; [|discriminate].
  inversion E; subst x maps; clear E.
  assert (HP : forall i a at_ tok, printed_r m2 i a at_ tok -> order_back (m_roots m2) ts i a at_ tok).
  { intros i a9 at_ tok [_ (b & Hb & Hent)]. unfold atom_to_selfies in Hb. destruct (a_aromatic a9); [discriminate|].
    destruct (match b with None => Ok [] | Some b0 => bond_to_selfies b0 true end) as [bc|] eqn:Ebc; cbn [bind] in Hb; [|discriminate].
    destruct (atom_to_smiles a9 false) as [t|] eqn:Eas; cbn [bind] in Hb; [|discriminate]. inversion Hb; subst tok.
    exists t, bc. split; [exact Eas|]. split; [reflexivity|].
    destruct b as [b0|]; [|inversion Ebc; left; split; [exact Hent|reflexivity]]. right.
    destruct Hent as (Hd & Hr & (j & row & Hn & Hin)).
    destruct (RS1 j row b0 Hn Hin) as (row0 & e0 & Hn0 & Hi0 & Hst & HR).
    assert (Hr0 : e_ring e0 = false) by (pose proof (f_equal e_ring Hst) as X; unfold strip in X; cbn [with_order2 e_ring] in X; congruence).
    assert (Hd0 : e_dst e0 = i) by (pose proof (f_equal e_dst Hst) as X; unfold strip in X; cbn [with_order2 e_dst] in X; congruence).
    destruct (M0 j row0 e0 Hn0 Hi0 Hr0) as (pos & tk & Hx & Ho). rewrite Hd0 in Hx. exists pos, tk. split; [exact Hx|]. cbv zeta.
    unfold bond_to_selfies in Ebc. cbn [negb andb] in Ebc. unfold ebond_to_smiles in Ebc.
    assert (Pr : fst (smiles_to_bond2 (hd_error bc)) = e_order2 b0).
    { destruct (Z.eqb_spec (e_order2 b0) 2) as [E2|N2].
      - inversion Ebc; subst bc. rewrite E2. destruct (e_stereo b0) as [c|]; [|reflexivity]. destruct (is_stereo_char c) eqn:Ec; [|reflexivity].
        cbn [hd_error]. now rewrite (stereo_reads_back c Ec).
      - destruct (Z.eqb_spec (e_order2 b0) 4) as [E4|N4]; [inversion Ebc; subst bc; rewrite E4; reflexivity|].
        destruct (Z.eqb_spec (e_order2 b0) 6) as [E6|N6]; [inversion Ebc; subst bc; rewrite E6; reflexivity|discriminate]. }
    rewrite Pr. destruct HR as [HR|[H3 HR]].
    - rewrite HR. destruct Ho as [Ho|[Hn3 Ho3]]; [now left|]. exfalso. rewrite HR, Ho3 in Ebc. cbn in Ebc. discriminate.
    - right. split; [|exact HR]. destruct Ho as [Ho|[Hn3 _]]; [left; congruence|now right]. }
  destruct (encode_roots_walked_r (order_back (m_roots m2) ts) m2 HP _ _ _ _ (fun x H => H) Er) as (tss & mss & -> & -> & W).
  exists m2, tss, mss. repeat split. exact W.
Qed.
