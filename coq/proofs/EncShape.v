(* EncShape.v — C10: the atoms the encoder walks over are the atoms the SMILES reader built, up to the aromatic
   flag (cleared by kekulize) and the chirality tag (flipped by the inversion pass): any property of atoms that
   smiles_to_atom establishes and that these two rewrites preserve holds of every atom the walk prints. *)
From Coq Require Import Ascii String List Arith ZArith NArith Bool Lia.
Import ListNotations.
From Selfies Require Import Base Generated Lex Atoms Grammar Decoder Smiles PySet Matching Kekulize Encoder BaseFacts EncHyp.
Local Open Scope Z_scope.


(* ---------- list updates ---------- *)
Lemma map_upd {A B} (g : A -> B) (f : A -> A) (h : B -> B) : (forall x, g (f x) = h (g x)) ->
  forall l i, map g (upd l i f) = upd (map g l) i h.
Proof.
  intro H. induction l as [|x r IH]; intro i; [reflexivity|]. destruct i as [|i]; cbn [upd map]; [now rewrite H|now rewrite IH].
Qed.

Lemma upd_id {A} (l : list A) i : upd l i (fun x => x) = l.
Proof. revert i. induction l as [|x r IH]; intro i; [reflexivity|]. destruct i; cbn [upd]; [reflexivity|now rewrite IH]. Qed.

Lemma Forall_upd {A} (P : A -> Prop) (f : A -> A) : (forall x, P x -> P (f x)) -> forall l i, Forall P l -> Forall P (upd l i f).
Proof.
  intro H. induction l as [|x r IH]; intros i F; [constructor|]. inversion F; subst.
  destruct i; cbn [upd]; constructor; auto.
Qed.

Lemma lupd_eq {A} (l : list A) i f l' : lupd l i f = Ok l' -> l' = upd l i f.
Proof. unfold lupd. destruct (_ <? _)%nat; [intro E; now inversion E|discriminate]. Qed.

(* ---------- the graph operations that leave the atoms alone ---------- *)
Lemma add_count_atoms m i d m' : mg_add_count2 m i d = Ok m' -> m_atoms m' = m_atoms m.
Proof. unfold mg_add_count2. destruct (lupd _ _ _); cbn [bind]; [intro E; inversion E; reflexivity|discriminate]. Qed.

Lemma add_at_loc_atoms m b pos m' : mg_add_bond_at_loc m b pos = Ok m' -> m_atoms m' = m_atoms m.
Proof.
  unfold mg_add_bond_at_loc. destruct (lget _ _); cbn [bind]; [|discriminate].
  destruct (add_bond_at_loc _ _ _); cbn [bind]; [intro E; inversion E; reflexivity|discriminate].
Qed.

Lemma add_bond_atoms m src dst o2 st at_ m' : mg_add_bond m src dst o2 st at_ = Ok m' -> m_atoms m' = m_atoms m.
Proof.
  unfold mg_add_bond. destruct (negb _); [discriminate|].
  destruct (mg_add_bond_at_loc _ _ _) as [m1|] eqn:E1; cbn [bind]; [|discriminate].
  destruct (mg_add_count2 m1 _ _) as [m2|] eqn:E2; cbn [bind]; [|discriminate].
  destruct (mg_add_count2 m2 _ _) as [m3|] eqn:E3; cbn [bind]; [|discriminate].
  apply add_at_loc_atoms in E1. apply add_count_atoms in E2, E3.
  destruct (_ =? _); intro E; inversion E; subst; cbn [set_ds m_atoms]; congruence.
Qed.

Lemma placeholder_atoms m src m' k : mg_add_placeholder_bond m src = Ok (m', k) -> m_atoms m' = m_atoms m.
Proof. unfold mg_add_placeholder_bond. destruct (lget _ _); cbn [bind]; [intro E; inversion E; reflexivity|discriminate]. Qed.

Lemma add_ring_atoms m a b o2 sa sb pa pb m' : mg_add_ring_bond m a b o2 sa sb pa pb = Ok m' -> m_atoms m' = m_atoms m.
Proof.
  unfold mg_add_ring_bond.
  destruct (mg_add_bond_at_loc m _ _) as [m1|] eqn:E1; cbn [bind]; [|discriminate].
  destruct (mg_add_bond_at_loc m1 _ _) as [m2|] eqn:E2; cbn [bind]; [|discriminate].
  destruct (mg_add_count2 m2 _ _) as [m3|] eqn:E3; cbn [bind]; [|discriminate].
  destruct (mg_add_count2 m3 _ _) as [m4|] eqn:E4; cbn [bind]; [|discriminate].
  destruct (lupd (m_ringflags m4) _ _) as [f1|]; cbn [bind]; [|discriminate].
  destruct (lupd f1 _ _) as [f2|]; cbn [bind]; [|discriminate].
  apply add_at_loc_atoms in E1, E2. apply add_count_atoms in E3, E4.
  destruct (_ =? _); intro E; inversion E; subst; cbn [set_ds set_ringflags m_atoms]; congruence.
Qed.

Lemma make_ring_atoms m lt la lp rt ra m' : make_ring_bonds m lt la lp rt ra = Ok m' -> m_atoms m' = m_atoms m.
Proof.
  unfold make_ring_bonds. destruct (_ =? _)%nat; [discriminate|]. destruct (mg_has_bond _ _ _); [discriminate|].
  match goal with |- (let '(b0, b1) := ?X in _) = _ -> _ => destruct X as [b0 b1] end.
  destruct (negb _); [discriminate|].
  destruct (smiles_to_bond2 (t_bond lt)) as [lo ls]. destruct (smiles_to_bond2 (t_bond rt)) as [ro rs].
  destruct (mg_get_atom m la); cbn [bind]; [|discriminate]. destruct (mg_get_atom m ra); cbn [bind]; [|discriminate].
  match goal with |- (let '(x, y) := ?X in _) = _ -> _ => destruct X as [lo' ro'] end. apply add_ring_atoms.
Qed.

Lemma add_attr_atoms m i at_ m' : mg_add_attr_atom m i at_ = Ok m' -> atoms_of m' = atoms_of m.
Proof.
  unfold mg_add_attr_atom, atoms_of. destruct (m_attributable m); [|intro E; now inversion E].
  destruct (lupd _ _ _) as [l|] eqn:El; cbn [bind]; [|discriminate]. intro E; inversion E; subst. cbn [set_atoms m_atoms].
  apply lupd_eq in El. subst l. rewrite (map_upd fst _ (fun x => x)) by reflexivity. apply upd_id.
Qed.

Lemma attach_atoms m tok a prev i m' idx i' : attach_atom m tok a prev i = Ok (m', idx, i') -> atoms_of m' = atoms_of m ++ [a].
Proof.
  unfold attach_atom. destruct (mg_add_atom m a _) as [m1 ix] eqn:Ea.
  assert (A1 : atoms_of m1 = atoms_of m ++ [a]).
  { unfold mg_add_atom in Ea. inversion Ea; subst. unfold atoms_of. cbn [m_atoms]. now rewrite map_app. }
  destruct (mg_add_attr_atom m1 ix _) as [m2|] eqn:E2; cbn [bind]; [|discriminate].
  apply add_attr_atoms in E2. destruct prev as [src|]; [|intro E; inversion E; subst; congruence].
  destruct (smiles_to_bond2 (t_bond tok)) as [o2 st]. destruct (mg_get_atom m2 src); cbn [bind]; [|discriminate].
  destruct (mg_add_bond m2 _ _ _ _ _) as [m3|] eqn:E3; cbn [bind]; [|discriminate].
  apply add_bond_atoms in E3. intro E; inversion E; subst. unfold atoms_of in *. rewrite E3. congruence.
Qed.

(* ---------- the reader ---------- *)
Section Reader.
Variable Q : token -> Prop.
Variable P : atom -> Prop.
Hypothesis HP : forall tok a, Q tok -> smiles_to_atom (t_text tok) = Ok (Some a) -> P a.

Definition AP (m : emol) : Prop := Forall P (atoms_of m).

Lemma derive_loop_atoms : forall ts st st' rest, Forall Q ts -> AP (p_mol st) ->
  derive_loop ts st = Ok (st', rest) -> AP (p_mol st') /\ Forall Q rest.
Proof.
  induction ts as [|tok r IH]; intros st st' rest Hq Hm E; cbn [derive_loop] in E.
  { inversion E; subst. split; [exact Hm|constructor]. }
  inversion Hq as [|? ? Hq1 Hq2]; subst.
  destruct (p_prev st) as [|prev below]; [discriminate|].
  destruct (t_type tok).
  - (* atom *)
    destruct (smiles_to_atom (t_text tok)) as [[a|]|] eqn:Ea; cbn [bind] in E; try discriminate.
    destruct (attach_atom _ _ _ _ _) as [[[m' idx] i']|] eqn:Eat; cbn [bind] in E; [|discriminate].
    apply (IH _ _ _ Hq2) in E; [exact E|]. cbn [p_mol]. unfold AP. rewrite (attach_atoms _ _ _ _ _ _ _ _ Eat).
    apply Forall_app. split; [exact Hm|]. constructor; [exact (HP tok a Hq1 Ea)|constructor].
  - (* branch *)
    destruct (p_chain_start st); [discriminate|].
    destruct (str_eqb _ _).
    + apply (IH _ _ _ Hq2) in E; [exact E|exact Hm].
    + destruct (p_branch st); [discriminate|]. apply (IH _ _ _ Hq2) in E; [exact E|exact Hm].
  - (* ring *)
    destruct (p_chain_start st); [discriminate|].
    destruct (ring_log_find _ _) as [[[ltok latom] lpos]|].
    + destruct (atom_index prev) as [ratom|]; cbn [bind] in E; [|discriminate].
      destruct (make_ring_bonds _ _ _ _ _ _) as [m'|] eqn:Er; cbn [bind] in E; [|discriminate].
      apply (IH _ _ _ Hq2) in E; [exact E|]. cbn [p_mol]. unfold AP, atoms_of. rewrite (make_ring_atoms _ _ _ _ _ _ _ Er). exact Hm.
    + destruct (atom_index prev) as [src|]; cbn [bind] in E; [|discriminate].
      destruct (mg_add_placeholder_bond _ _) as [[m' lpos]|] eqn:Epl; cbn [bind] in E; [|discriminate].
      apply (IH _ _ _ Hq2) in E; [exact E|]. cbn [p_mol]. unfold AP, atoms_of. rewrite (placeholder_atoms _ _ _ _ Epl). exact Hm.
  - (* dot *)
    inversion E; subst. cbn [p_mol]. split; [exact Hm|exact Hq2].
Qed.

Lemma derive_mol_atoms m ts i m' i' rest : Forall Q ts -> AP m -> derive_mol_from_tokens m ts i = Ok (m', i', rest) ->
  AP m' /\ Forall Q rest.
Proof.
  intros Hq Hm. unfold derive_mol_from_tokens.
  destruct (derive_loop ts _) as [[st rest']|] eqn:El; cbn [bind]; [|discriminate].
  apply derive_loop_atoms in El; [|exact Hq|exact Hm].
  destruct (_ =? _)%nat; [discriminate|]. destruct (p_branch st); [|discriminate]. destruct (p_rings st); [|discriminate].
  intro E; inversion E; subst. exact El.
Qed.

Lemma fragments_atoms : forall fuel m ts i m', Forall Q ts -> AP m -> fragments_loop fuel m ts i = Ok m' -> AP m'.
Proof.
  induction fuel as [|f IH]; intros m ts i m' Hq Hm E; [discriminate|]. cbn [fragments_loop] in E.
  destruct ts as [|t r]; [inversion E; subst; exact Hm|].
  destruct (derive_mol_from_tokens m (t :: r) i) as [[[m1 i1] rest]|] eqn:Ed; cbn [bind] in E; [|discriminate].
  apply derive_mol_atoms in Ed as [A B]; [|exact Hq|exact Hm]. exact (IH _ _ _ _ B A E).
Qed.

Theorem parsed_atoms smiles attributable m : (forall ts, tokenize_smiles smiles = Ok ts -> Forall Q ts) ->
  smiles_to_mol smiles attributable = Ok m -> AP m.
Proof.
  intros Hq. unfold smiles_to_mol. destruct smiles as [|c s]; [discriminate|].
  destruct (tokenize_smiles (c :: s)) as [ts|] eqn:Et; cbn [bind]; [|discriminate].
  apply fragments_atoms; [exact (Hq ts eq_refl)|constructor].
Qed.
End Reader.

(* ---------- kekulize: the aromatic flag is cleared, nothing else ---------- *)
Section Kek.
Variable P : atom -> Prop.
Hypothesis Hclear : forall a, P a -> P (clear_aromatic a).

Lemma update_order_atoms m a b o m' : mg_update_bond_order m a b o = Ok m' -> m_atoms m' = m_atoms m.
Proof.
  unfold mg_update_bond_order. destruct (negb _); [discriminate|].
  destruct (mg_get_dirbond m _ _) as [ab|]; cbn [bind]; [|discriminate].
  destruct (_ =? _); [intro E; now inversion E|].
  destruct (if e_ring ab then _ else _) as [adj1|]; cbn [bind]; [|discriminate].
  destruct (mg_add_count2 (set_adj m adj1) _ _) as [m1|] eqn:E1; cbn [bind]; [|discriminate].
  intro E2. apply add_count_atoms in E1, E2. rewrite E2, E1. reflexivity.
Qed.

Lemma single_bonds_atoms : forall adjs m node m', set_single_bonds m node adjs = Ok m' -> m_atoms m' = m_atoms m.
Proof.
  induction adjs as [|x r IH]; intros m node m' E; cbn [set_single_bonds] in E; [now inversion E|].
  destruct (mg_update_bond_order m node x 2) as [m1|] eqn:E1; cbn [bind] in E; [|discriminate].
  apply update_order_atoms in E1. apply IH in E. congruence.
Qed.

Lemma double_bonds_atoms : forall pairs m l2n m', set_double_bonds m l2n pairs = Ok m' -> m_atoms m' = m_atoms m.
Proof.
  induction pairs as [|[i oj] r IH]; intros m l2n m' E; cbn [set_double_bonds] in E; [now inversion E|].
  destruct (lget l2n i); cbn [bind] in E; [|discriminate]. destruct oj as [j|]; [|discriminate].
  destruct (lget l2n j); cbn [bind] in E; [|discriminate].
  destruct (mg_update_bond_order m _ _ 4) as [m1|] eqn:E1; cbn [bind] in E; [|discriminate].
  apply update_order_atoms in E1. apply IH in E. congruence.
Qed.

Lemma dearomatize_atoms : forall ds m m', Forall P (atoms_of m) -> dearomatize m ds = Ok m' -> Forall P (atoms_of m').
Proof.
  induction ds as [|[node adjs] r IH]; intros m m' Hm E; cbn [dearomatize] in E; [inversion E; subst; exact Hm|].
  destruct (set_single_bonds m node adjs) as [m1|] eqn:E1; cbn [bind] in E; [|discriminate].
  destruct (lupd (m_atoms m1) _ _) as [atoms'|] eqn:Ea; cbn [bind] in E; [|discriminate].
  destruct (lupd (m_counts2 m1) _ _) as [counts'|]; cbn [bind] in E; [|discriminate].
  apply IH in E; [exact E|]. unfold atoms_of. cbn [set_counts2 set_atoms m_atoms].
  apply lupd_eq in Ea. subst atoms'. rewrite (map_upd fst _ clear_aromatic) by reflexivity.
  apply Forall_upd; [exact Hclear|]. apply single_bonds_atoms in E1. unfold atoms_of in Hm. now rewrite E1.
Qed.

Theorem kekulize_atoms m m' : Forall P (atoms_of m) -> kekulize m = Ok (Some m') -> Forall P (atoms_of m').
Proof.
  intros Hm. unfold kekulize. destruct (ds_is_empty _); [intro E; inversion E; subst; exact Hm|].
  destruct (any_bad_element _ _) as [bad|]; cbn [bind]; [|discriminate]. destruct bad; [discriminate|].
  destruct (kept_nodes_of _ _) as [kept|]; cbn [bind]; [|discriminate].
  destruct (pruned_ds_of _ _ _) as [pruned|]; cbn [bind]; [|discriminate].
  destruct (find_perfect_matching pruned) as [[mt|]|]; cbn [bind]; try discriminate.
  destruct (dearomatize m _) as [m1|] eqn:E1; cbn [bind]; [|discriminate].
  destruct (set_double_bonds m1 _ _) as [m2|] eqn:E2; cbn [bind]; [|discriminate].
  intro E; inversion E; subst. unfold atoms_of. cbn [set_ds m_atoms].
  apply double_bonds_atoms in E2. rewrite E2. exact (dearomatize_atoms _ _ _ Hm E1).
Qed.
End Kek.

(* ---------- the inversion pass flips chirality tags, nothing else ---------- *)
Section Inv.
Variable P : atom -> Prop.
Hypothesis Hinv : forall a, P a -> P (invert_chirality a).

Lemma invert_pass_atoms m : forall atoms idx atoms', Forall P (map fst atoms) -> invert_pass m atoms idx = Ok atoms' ->
  Forall P (map fst atoms').
Proof.
  induction atoms as [|[a at_] r IH]; intros idx atoms' Hm E; cbn [invert_pass] in E; [inversion E; constructor|].
  cbn [map fst] in Hm. inversion Hm as [|? ? Ha Hr]; subst.
  match type of E with (do a' <- ?X; _) = _ => destruct X as [a'|] eqn:Ea end; cbn [bind] in E; [|discriminate].
  destruct (invert_pass m r (S idx)) as [rest|] eqn:Er; cbn [bind] in E; [|discriminate].
  inversion E; subst. cbn [map fst]. constructor; [|exact (IH _ _ Hr Er)].
  destruct (a_chirality a); [|inversion Ea; subst; exact Ha].
  destruct (mg_has_out_ring_bond m idx) as [flag|]; cbn [bind] in Ea; [|discriminate].
  destruct flag; [|inversion Ea; subst; exact Ha].
  destruct (should_invert_chirality m idx) as [inv|]; cbn [bind] in Ea; [|discriminate].
  inversion Ea; subst. destruct inv; [apply Hinv; exact Ha|exact Ha].
Qed.
End Inv.

(* ---------- the stereo marks on the edges are '/' or '\' ---------- *)
Definition sok (s : option N) : Prop := match s with Some c => is_stereo_char c = true | None => True end.
Definition EP (oe : option ebond) : Prop := match oe with Some e => sok (e_stereo e) | None => True end.
Definition AdjP (m : emol) : Prop := Forall (Forall EP) (m_adj m).

Lemma bond2_sok bc : sok (snd (smiles_to_bond2 bc)).
Proof. unfold smiles_to_bond2. cbn [snd]. destruct bc as [c|]; [|exact I]. destruct (is_stereo_char c) eqn:E; [exact E|exact I]. Qed.

Lemma Forall_insert_at {A} (P : A -> Prop) : forall (l : list A) pos x, Forall P l -> P x -> Forall P (insert_at l pos x).
Proof.
  induction l as [|y r IH]; intros pos x Hl Hx; destruct pos; cbn [insert_at]; try (constructor; [exact Hx|exact Hl]).
  inversion Hl; subst. constructor; [assumption|]. now apply IH.
Qed.

Lemma Forall_upd_row {A} (P : A -> Prop) (f : A -> A) : forall l i, Forall P l -> (forall x, nth_error l i = Some x -> P x -> P (f x)) -> Forall P (upd l i f).
Proof.
  induction l as [|x r IH]; intros i F H; [constructor|]. inversion F; subst.
  destruct i; cbn [upd]; constructor; auto.
Qed.

Lemma add_loc_EP out pos b out' : Forall EP out -> sok (e_stereo b) -> add_bond_at_loc out pos b = Ok out' -> Forall EP out'.
Proof.
  intros Ho Hb. unfold add_bond_at_loc.
  assert (Happ : Forall EP (out ++ [Some b])) by (apply Forall_app; split; [exact Ho|constructor; [exact Hb|constructor]]).
  destruct pos as [p|]; [|intro E; inversion E; subst; exact Happ].
  destruct (p =? length out)%nat; [intro E; inversion E; subst; exact Happ|].
  destruct (nth_error out p) as [[e|]|]; [| |discriminate]; intro E; inversion E; subst.
  - apply Forall_insert_at; assumption.
  - apply Forall_upd; [|exact Ho]. intros _ _. exact Hb.
Qed.

Lemma lget_In {A} (l : list A) i x : lget l i = Ok x -> nth_error l i = Some x.
Proof. unfold lget. destruct (nth_error l i); [intro E; now inversion E|discriminate]. Qed.

Lemma at_loc_adj m b pos m' : AdjP m -> sok (e_stereo b) -> mg_add_bond_at_loc m b pos = Ok m' -> AdjP m'.
Proof.
  intros Hm Hb. unfold mg_add_bond_at_loc. destruct (lget (m_adj m) (e_src b)) as [out|] eqn:El; cbn [bind]; [|discriminate].
  destruct (add_bond_at_loc out pos b) as [out'|] eqn:Ea; cbn [bind]; [|discriminate]. intro E; inversion E; subst.
  unfold AdjP. cbn [set_adj m_adj]. apply Forall_upd_row; [exact Hm|]. intros x Hx Px.
  apply lget_In in El. eapply add_loc_EP; [|exact Hb|exact Ea]. unfold AdjP in Hm. rewrite Forall_forall in Hm. apply Hm. eapply nth_error_In; exact El.
Qed.

Lemma add_count_adj m i d m' : mg_add_count2 m i d = Ok m' -> m_adj m' = m_adj m.
Proof. unfold mg_add_count2. destruct (lupd _ _ _); cbn [bind]; [intro E; inversion E; reflexivity|discriminate]. Qed.

Lemma add_bond_adj m src dst o2 st at_ m' : AdjP m -> sok st -> mg_add_bond m src dst o2 st at_ = Ok m' -> AdjP m'.
Proof.
  intros Hm Hs. unfold mg_add_bond. destruct (negb _); [discriminate|].
  destruct (mg_add_bond_at_loc _ _ _) as [m1|] eqn:E1; cbn [bind]; [|discriminate].
  destruct (mg_add_count2 m1 _ _) as [m2|] eqn:E2; cbn [bind]; [|discriminate].
  destruct (mg_add_count2 m2 _ _) as [m3|] eqn:E3; cbn [bind]; [|discriminate].
  apply at_loc_adj in E1; [|exact Hm|exact Hs]. apply add_count_adj in E2, E3.
  assert (A3 : AdjP m3) by (unfold AdjP in *; congruence).
  destruct (_ =? _); intro E; inversion E; subst; exact A3.
Qed.

Lemma placeholder_adj m src m' k : AdjP m -> mg_add_placeholder_bond m src = Ok (m', k) -> AdjP m'.
Proof.
  intro Hm. unfold mg_add_placeholder_bond. destruct (lget _ _); cbn [bind]; [|discriminate]. intro E; inversion E; subst.
  unfold AdjP. cbn [set_adj m_adj]. apply Forall_upd; [|exact Hm]. intros x Hx. apply Forall_app. split; [exact Hx|constructor; [exact I|constructor]].
Qed.

Lemma add_ring_adj m a b o2 sa sb pa pb m' : AdjP m -> sok sa -> sok sb -> mg_add_ring_bond m a b o2 sa sb pa pb = Ok m' -> AdjP m'.
Proof.
  intros Hm Ha Hb. unfold mg_add_ring_bond.
  destruct (mg_add_bond_at_loc m _ _) as [m1|] eqn:E1; cbn [bind]; [|discriminate].
  destruct (mg_add_bond_at_loc m1 _ _) as [m2|] eqn:E2; cbn [bind]; [|discriminate].
  destruct (mg_add_count2 m2 _ _) as [m3|] eqn:E3; cbn [bind]; [|discriminate].
  destruct (mg_add_count2 m3 _ _) as [m4|] eqn:E4; cbn [bind]; [|discriminate].
  destruct (lupd (m_ringflags m4) _ _) as [f1|]; cbn [bind]; [|discriminate].
  destruct (lupd f1 _ _) as [f2|]; cbn [bind]; [|discriminate].
  apply at_loc_adj in E1; [|exact Hm|exact Ha]. apply at_loc_adj in E2; [|exact E1|exact Hb]. apply add_count_adj in E3, E4.
  assert (A4 : AdjP m4) by (unfold AdjP in *; congruence).
  destruct (_ =? _); intro E; inversion E; subst; exact A4.
Qed.

Lemma make_ring_adj m lt la lp rt ra m' : AdjP m -> make_ring_bonds m lt la lp rt ra = Ok m' -> AdjP m'.
Proof.
  intro Hm. unfold make_ring_bonds. destruct (_ =? _)%nat; [discriminate|]. destruct (mg_has_bond _ _ _); [discriminate|].
  match goal with |- (let '(b0, b1) := ?X in _) = _ -> _ => destruct X as [b0 b1] end.
  destruct (negb _); [discriminate|].
  pose proof (bond2_sok (t_bond lt)) as Sl. pose proof (bond2_sok (t_bond rt)) as Sr.
  destruct (smiles_to_bond2 (t_bond lt)) as [lo ls]. destruct (smiles_to_bond2 (t_bond rt)) as [ro rs]. cbn [snd] in Sl, Sr.
  destruct (mg_get_atom m la); cbn [bind]; [|discriminate]. destruct (mg_get_atom m ra); cbn [bind]; [|discriminate].
  match goal with |- (let '(x, y) := ?X in _) = _ -> _ => destruct X as [lo' ro'] end. apply add_ring_adj; assumption.
Qed.

Lemma add_attr_adj m i at_ m' : mg_add_attr_atom m i at_ = Ok m' -> m_adj m' = m_adj m.
Proof.
  unfold mg_add_attr_atom. destruct (m_attributable m); [|intro E; now inversion E].
  destruct (lupd _ _ _); cbn [bind]; [intro E; inversion E; reflexivity|discriminate].
Qed.

Lemma attach_adj m tok a prev i m' idx i' : AdjP m -> attach_atom m tok a prev i = Ok (m', idx, i') -> AdjP m'.
Proof.
  intro Hm. unfold attach_atom. destruct (mg_add_atom m a _) as [m1 ix] eqn:Ea.
  assert (A1 : AdjP m1).
  { unfold mg_add_atom in Ea. inversion Ea; subst. unfold AdjP. cbn [m_adj]. apply Forall_app. split; [exact Hm|constructor; constructor]. }
  destruct (mg_add_attr_atom m1 ix _) as [m2|] eqn:E2; cbn [bind]; [|discriminate].
  apply add_attr_adj in E2. assert (A2 : AdjP m2) by (unfold AdjP in *; congruence).
  destruct prev as [src|]; [|intro E; inversion E; subst; exact A2].
  pose proof (bond2_sok (t_bond tok)) as Sb.
  destruct (smiles_to_bond2 (t_bond tok)) as [o2 st]. cbn [snd] in Sb. destruct (mg_get_atom m2 src); cbn [bind]; [|discriminate].
  destruct (mg_add_bond m2 _ _ _ _ _) as [m3|] eqn:E3; cbn [bind]; [|discriminate].
  apply add_bond_adj in E3; [|exact A2|exact Sb]. intro E; inversion E; subst. exact E3.
Qed.

Lemma derive_loop_adj : forall ts st st' rest, AdjP (p_mol st) -> derive_loop ts st = Ok (st', rest) -> AdjP (p_mol st').
Proof.
  induction ts as [|tok r IH]; intros st st' rest Hm E; cbn [derive_loop] in E; [inversion E; subst; exact Hm|].
  destruct (p_prev st) as [|prev below]; [discriminate|].
  destruct (t_type tok).
  - destruct (smiles_to_atom (t_text tok)) as [[a|]|]; cbn [bind] in E; try discriminate.
    destruct (attach_atom _ _ _ _ _) as [[[m' idx] i']|] eqn:Eat; cbn [bind] in E; [|discriminate].
    apply IH in E; [exact E|]. cbn [p_mol]. exact (attach_adj _ _ _ _ _ _ _ _ Hm Eat).
  - destruct (p_chain_start st); [discriminate|].
    destruct (str_eqb _ _); [apply IH in E; [exact E|exact Hm]|].
    destruct (p_branch st); [discriminate|]. apply IH in E; [exact E|exact Hm].
  - destruct (p_chain_start st); [discriminate|].
    destruct (ring_log_find _ _) as [[[ltok latom] lpos]|].
    + destruct (atom_index prev) as [ratom|]; cbn [bind] in E; [|discriminate].
      destruct (make_ring_bonds _ _ _ _ _ _) as [m'|] eqn:Er; cbn [bind] in E; [|discriminate].
      apply IH in E; [exact E|]. cbn [p_mol]. exact (make_ring_adj _ _ _ _ _ _ _ Hm Er).
    + destruct (atom_index prev) as [src|]; cbn [bind] in E; [|discriminate].
      destruct (mg_add_placeholder_bond _ _) as [[m' lpos]|] eqn:Epl; cbn [bind] in E; [|discriminate].
      apply IH in E; [exact E|]. cbn [p_mol]. exact (placeholder_adj _ _ _ _ Hm Epl).
  - inversion E; subst. exact Hm.
Qed.

Lemma fragments_adj : forall fuel m ts i m', AdjP m -> fragments_loop fuel m ts i = Ok m' -> AdjP m'.
Proof.
  induction fuel as [|f IH]; intros m ts i m' Hm E; [discriminate|]. cbn [fragments_loop] in E.
  destruct ts as [|t r]; [inversion E; subst; exact Hm|].
  destruct (derive_mol_from_tokens m (t :: r) i) as [[[m1 i1] rest]|] eqn:Ed; cbn [bind] in E; [|discriminate].
  apply IH in E; [exact E|]. unfold derive_mol_from_tokens in Ed.
  destruct (derive_loop (t :: r) _) as [[st rest']|] eqn:El; cbn [bind] in Ed; [|discriminate].
  apply derive_loop_adj in El; [|exact Hm].
  destruct (_ =? _)%nat; [discriminate|]. destruct (p_branch st); [|discriminate]. destruct (p_rings st); [|discriminate].
  inversion Ed; subst. exact El.
Qed.

Theorem parsed_adj smiles attributable m : smiles_to_mol smiles attributable = Ok m -> AdjP m.
Proof.
  unfold smiles_to_mol. destruct smiles as [|c s]; [discriminate|].
  destruct (tokenize_smiles (c :: s)) as [ts|]; cbn [bind]; [|discriminate].
  apply fragments_adj. constructor.
Qed.

(* kekulize rewrites orders, never marks *)
Lemma set_edge_EP l dst o : Forall EP l -> Forall EP (set_edge_order2 l dst o).
Proof.
  intro H. unfold set_edge_order2. apply Forall_forall. intros x Hx. apply in_map_iff in Hx as (y & <- & Hy).
  rewrite Forall_forall in H. specialize (H y Hy). destruct y as [e|]; [|exact I]. destruct (_ =? _)%nat; exact H.
Qed.

Lemma update_order_adj m a b o m' : AdjP m -> mg_update_bond_order m a b o = Ok m' -> AdjP m'.
Proof.
  intro Hm. unfold mg_update_bond_order. destruct (negb _); [discriminate|].
  destruct (mg_get_dirbond m _ _) as [ab|]; cbn [bind]; [|discriminate].
  destruct (_ =? _); [intro E; inversion E; subst; exact Hm|].
  match goal with |- (do adj1 <- ?X; _) = _ -> _ => destruct X as [adj1|] eqn:Ead end; cbn [bind]; [|discriminate].
  assert (A1 : Forall (Forall EP) adj1).
  { destruct (e_ring ab).
    - destruct (mg_get_dirbond m _ _); cbn [bind] in Ead; [|discriminate]. inversion Ead; subst.
      apply Forall_upd; [intros x Hx; now apply set_edge_EP|]. apply Forall_upd; [intros x Hx; now apply set_edge_EP|exact Hm].
    - inversion Ead; subst. apply Forall_upd; [intros x Hx; now apply set_edge_EP|exact Hm]. }
  destruct (mg_add_count2 (set_adj m adj1) _ _) as [m1|] eqn:E1; cbn [bind]; [|discriminate].
  intro E2. apply add_count_adj in E1, E2. unfold AdjP. rewrite E2, E1. exact A1.
Qed.

Lemma single_bonds_adj : forall adjs m node m', AdjP m -> set_single_bonds m node adjs = Ok m' -> AdjP m'.
Proof.
  induction adjs as [|x r IH]; intros m node m' Hm E; cbn [set_single_bonds] in E; [inversion E; subst; exact Hm|].
  destruct (mg_update_bond_order m node x 2) as [m1|] eqn:E1; cbn [bind] in E; [|discriminate].
  apply update_order_adj in E1; [|exact Hm]. exact (IH _ _ _ E1 E).
Qed.

Lemma double_bonds_adj : forall pairs m l2n m', AdjP m -> set_double_bonds m l2n pairs = Ok m' -> AdjP m'.
Proof.
  induction pairs as [|[i oj] r IH]; intros m l2n m' Hm E; cbn [set_double_bonds] in E; [inversion E; subst; exact Hm|].
  destruct (lget l2n i); cbn [bind] in E; [|discriminate]. destruct oj as [j|]; [|discriminate].
  destruct (lget l2n j); cbn [bind] in E; [|discriminate].
  destruct (mg_update_bond_order m _ _ 4) as [m1|] eqn:E1; cbn [bind] in E; [|discriminate].
  apply update_order_adj in E1; [|exact Hm]. exact (IH _ _ _ E1 E).
Qed.

Lemma dearomatize_adj : forall ds m m', AdjP m -> dearomatize m ds = Ok m' -> AdjP m'.
Proof.
  induction ds as [|[node adjs] r IH]; intros m m' Hm E; cbn [dearomatize] in E; [inversion E; subst; exact Hm|].
  destruct (set_single_bonds m node adjs) as [m1|] eqn:E1; cbn [bind] in E; [|discriminate].
  destruct (lupd (m_atoms m1) _ _) as [atoms'|]; cbn [bind] in E; [|discriminate].
  destruct (lupd (m_counts2 m1) _ _) as [counts'|]; cbn [bind] in E; [|discriminate].
  apply IH in E; [exact E|]. apply single_bonds_adj in E1; [|exact Hm]. exact E1.
Qed.

Theorem kekulize_adj m m' : AdjP m -> kekulize m = Ok (Some m') -> AdjP m'.
Proof.
  intros Hm. unfold kekulize. destruct (ds_is_empty _); [intro E; inversion E; subst; exact Hm|].
  destruct (any_bad_element _ _) as [bad|]; cbn [bind]; [|discriminate]. destruct bad; [discriminate|].
  destruct (kept_nodes_of _ _) as [kept|]; cbn [bind]; [|discriminate].
  destruct (pruned_ds_of _ _ _) as [pruned|]; cbn [bind]; [|discriminate].
  destruct (find_perfect_matching pruned) as [[mt|]|]; cbn [bind]; try discriminate.
  destruct (dearomatize m _) as [m1|] eqn:E1; cbn [bind]; [|discriminate].
  destruct (set_double_bonds m1 _ _) as [m2|] eqn:E2; cbn [bind]; [|discriminate].
  intro E; inversion E; subst. apply dearomatize_adj in E1; [|exact Hm]. apply double_bonds_adj in E2; [|exact E1]. exact E2.
Qed.
