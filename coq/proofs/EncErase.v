(* EncErase.v — C17, encoder side: requesting attribution never changes the translation.
   Erasing every attribution from the graph (and the attributable flag) commutes with every operation of the reader,
   of kekulize, of the strict check, of the inversion pass and of the emitting walk: encoder(s, attribute=False) is
   encoder(s, attribute=True) with the attribution erased - same outcome, same string, same indices and tokens. *)
From Coq Require Import Ascii String List Arith ZArith NArith Bool Lia.
Import ListNotations.
From Selfies Require Import Base Generated Lex Atoms Grammar Decoder Smiles PySet Matching Kekulize Encoder BaseFacts ConfigFacts EncHyp EncShape.
Local Open Scope nat_scope.

Definition rmap {A B} (f : A -> B) (r : res A) : res B := match r with Ok x => Ok (f x) | Err e => Err e end.

Definition era_e (e : ebond) : ebond :=
  {| e_src := e_src e; e_dst := e_dst e; e_order2 := e_order2 e; e_stereo := e_stereo e; e_ring := e_ring e; e_attr := None |}.
Definition era_row (l : list (option ebond)) : list (option ebond) := map (option_map era_e) l.
Definition era_a (p : atom * attrs) : atom * attrs := (fst p, None).
Definition era (m : emol) : emol :=
  {| m_attributable := false; m_roots := m_roots m; m_atoms := map era_a (m_atoms m); m_adj := map era_row (m_adj m);
     m_counts2 := m_counts2 m; m_ringflags := m_ringflags m; m_ds := m_ds m |}.
Definition era_map (a : amap) : amap := {| am_index := am_index a; am_token := am_token a; am_attr := None |}.

(* ---------- lists ---------- *)
Lemma lget_map {A B} (g : A -> B) l i : lget (map g l) i = rmap g (lget l i).
Proof. unfold lget. rewrite nth_error_map. destruct (nth_error l i); reflexivity. Qed.

Lemma upd_map {A B} (g : A -> B) (f : A -> A) (h : B -> B) : (forall x, g (f x) = h (g x)) -> forall l i, upd (map g l) i h = map g (upd l i f).
Proof. intro H. induction l as [|x r IH]; intro i; [reflexivity|]. destruct i; cbn [upd map]; [now rewrite H|now rewrite IH]. Qed.

Lemma lupd_map {A B} (g : A -> B) (f : A -> A) (h : B -> B) : (forall x, g (f x) = h (g x)) -> forall l i, lupd (map g l) i h = rmap (map g) (lupd l i f).
Proof. intros H l i. unfold lupd. rewrite map_length. destruct (i <? length l); [cbn [rmap]; now rewrite (upd_map g f h H)|reflexivity]. Qed.

Lemma insert_at_map' {A B} (g : A -> B) : forall (l : list A) pos x, insert_at (map g l) pos (g x) = map g (insert_at l pos x).
Proof. induction l as [|y r IH]; intros [|p] x; cbn [insert_at map]; try reflexivity. now rewrite IH. Qed.

Lemma era_e_idem e : era_e (era_e e) = era_e e. Proof. reflexivity. Qed.

Lemma mg_len_era m : mg_len (era m) = mg_len m.
Proof. unfold mg_len, era. cbn [m_atoms]. apply map_length. Qed.

(* ---------- graph operations ---------- *)
Lemma get_atom_era m i : mg_get_atom (era m) i = rmap era_a (mg_get_atom m i).
Proof. unfold mg_get_atom. cbn [era m_atoms]. apply lget_map. Qed.

Lemma add_count_era m i d : mg_add_count2 (era m) i d = rmap era (mg_add_count2 m i d).
Proof. unfold mg_add_count2. cbn [era m_counts2]. destruct (lupd (m_counts2 m) i _); reflexivity. Qed.

Lemma add_loc_era out pos b : add_bond_at_loc (era_row out) pos (era_e b) = rmap era_row (add_bond_at_loc out pos b).
Proof.
  unfold add_bond_at_loc, era_row.
  assert (Happ : map (option_map era_e) out ++ [Some (era_e b)] = map (option_map era_e) (out ++ [Some b])) by (now rewrite map_app).
  destruct pos as [p|]; [|cbn [rmap]; now rewrite Happ].
  rewrite map_length. destruct (p =? length out); [cbn [rmap]; now rewrite Happ|].
  rewrite nth_error_map. destruct (nth_error out p) as [[e|]|]; cbn [option_map rmap]; [| |reflexivity].
  - f_equal. exact (insert_at_map' (option_map era_e) out p (Some b)).
  - f_equal. apply (upd_map (option_map era_e) (fun _ => Some b) (fun _ => Some (era_e b))). reflexivity.
Qed.

Lemma set_adj_era m x : set_adj (era m) (map era_row x) = era (set_adj m x). Proof. reflexivity. Qed.

Lemma at_loc_era m b pos : mg_add_bond_at_loc (era m) (era_e b) pos = rmap era (mg_add_bond_at_loc m b pos).
Proof.
  unfold mg_add_bond_at_loc. cbn [era m_adj e_src era_e]. rewrite lget_map.
  destruct (lget (m_adj m) (e_src b)) as [out|]; cbn [rmap bind]; [|reflexivity].
  rewrite add_loc_era. destruct (add_bond_at_loc out pos b) as [out'|]; cbn [rmap bind]; [|reflexivity].
  f_equal. rewrite (upd_map era_row (fun _ => out') (fun _ => era_row out')) by reflexivity. reflexivity.
Qed.

Lemma set_ds_era m d : set_ds (era m) d = era (set_ds m d). Proof. reflexivity. Qed.
Lemma set_flags_era m f : set_ringflags (era m) f = era (set_ringflags m f). Proof. reflexivity. Qed.

Lemma add_bond_era m src dst o2 st at_ : mg_add_bond (era m) src dst o2 st None = rmap era (mg_add_bond m src dst o2 st at_).
Proof.
  unfold mg_add_bond. destruct (negb _); [reflexivity|].
  change {| e_src := src; e_dst := dst; e_order2 := o2; e_stereo := st; e_ring := false; e_attr := None |}
    with (era_e {| e_src := src; e_dst := dst; e_order2 := o2; e_stereo := st; e_ring := false; e_attr := at_ |}).
  rewrite at_loc_era. destruct (mg_add_bond_at_loc m _ None) as [m1|]; cbn [rmap bind]; [|reflexivity].
  rewrite add_count_era. destruct (mg_add_count2 m1 src o2) as [m2|]; cbn [rmap bind]; [|reflexivity].
  rewrite add_count_era. destruct (mg_add_count2 m2 dst o2) as [m3|]; cbn [rmap bind]; [|reflexivity].
  destruct (_ =? _)%Z; reflexivity.
Qed.

Lemma placeholder_era m src : mg_add_placeholder_bond (era m) src = rmap (fun p => (era (fst p), snd p)) (mg_add_placeholder_bond m src).
Proof.
  unfold mg_add_placeholder_bond. cbn [era m_adj]. rewrite lget_map. destruct (lget (m_adj m) src) as [out|]; cbn [rmap bind]; [|reflexivity].
  unfold era_row at 2. rewrite map_length. f_equal. f_equal.
  change (set_adj (era m) (upd (map era_row (m_adj m)) src (fun l => l ++ [None]))) with (set_adj (era m) (upd (map era_row (m_adj m)) src (fun l => l ++ [None]))).
  rewrite (upd_map era_row (fun l => l ++ [None]) (fun l => l ++ [None])); [reflexivity|].
  intro x. unfold era_row. now rewrite map_app.
Qed.

Lemma add_ring_era m a b o2 sa sb pa pb : mg_add_ring_bond (era m) a b o2 sa sb pa pb = rmap era (mg_add_ring_bond m a b o2 sa sb pa pb).
Proof.
  unfold mg_add_ring_bond.
  change {| e_src := a; e_dst := b; e_order2 := o2; e_stereo := sa; e_ring := true; e_attr := None |}
    with (era_e {| e_src := a; e_dst := b; e_order2 := o2; e_stereo := sa; e_ring := true; e_attr := None |}).
  change {| e_src := b; e_dst := a; e_order2 := o2; e_stereo := sb; e_ring := true; e_attr := None |}
    with (era_e {| e_src := b; e_dst := a; e_order2 := o2; e_stereo := sb; e_ring := true; e_attr := None |}).
  rewrite at_loc_era. destruct (mg_add_bond_at_loc m _ pa) as [m1|]; cbn [rmap bind]; [|reflexivity].
  rewrite at_loc_era. destruct (mg_add_bond_at_loc m1 _ pb) as [m2|]; cbn [rmap bind]; [|reflexivity].
  rewrite add_count_era. destruct (mg_add_count2 m2 a o2) as [m3|]; cbn [rmap bind]; [|reflexivity].
  rewrite add_count_era. destruct (mg_add_count2 m3 b o2) as [m4|]; cbn [rmap bind]; [|reflexivity].
  cbn [era m_ringflags]. destruct (lupd (m_ringflags m4) a _) as [f1|]; cbn [bind rmap]; [|reflexivity].
  destruct (lupd f1 b _) as [f2|]; cbn [bind rmap]; [|reflexivity].
  destruct (_ =? _)%Z; reflexivity.
Qed.

Lemma find_edge_era l d : find_edge (era_row l) d = option_map era_e (find_edge l d).
Proof. induction l as [|[e|] r IH]; cbn [era_row map option_map find_edge]; [reflexivity| |exact IH]. cbn [era_e e_dst]. destruct (_ =? _); [reflexivity|exact IH]. Qed.

Lemma find_dirbond_era m s d : mg_find_dirbond (era m) s d = option_map era_e (mg_find_dirbond m s d).
Proof. unfold mg_find_dirbond. cbn [era m_adj]. rewrite nth_error_map. destruct (nth_error (m_adj m) s); cbn [option_map]; [apply find_edge_era|reflexivity]. Qed.

Lemma get_dirbond_era m s d : mg_get_dirbond (era m) s d = rmap era_e (mg_get_dirbond m s d).
Proof. unfold mg_get_dirbond. rewrite find_dirbond_era. destruct (mg_find_dirbond m s d); reflexivity. Qed.

Lemma has_bond_era m a b : mg_has_bond (era m) a b = mg_has_bond m a b.
Proof. unfold mg_has_bond. rewrite find_dirbond_era. destruct (mg_find_dirbond m _ _); reflexivity. Qed.

Lemma make_ring_era m lt la lp rt ra : make_ring_bonds (era m) lt la lp rt ra = rmap era (make_ring_bonds m lt la lp rt ra).
Proof.
  unfold make_ring_bonds. destruct (_ =? _); [reflexivity|]. rewrite has_bond_era. destruct (mg_has_bond m la ra); [reflexivity|].
  cbv zeta. set (p := match t_bond lt with None => (t_bond rt, t_bond lt) | Some _ => (t_bond lt, t_bond rt) end). destruct p as [b0 b1].
  destruct (negb _); [reflexivity|].
  destruct (smiles_to_bond2 (t_bond lt)) as [lo ls]. destruct (smiles_to_bond2 (t_bond rt)) as [ro rs].
  rewrite !get_atom_era. destruct (mg_get_atom m la) as [x|]; cbn [rmap bind]; [|reflexivity].
  destruct (mg_get_atom m ra) as [y|]; cbn [rmap bind]; [|reflexivity]. cbn [era_a fst].
  match goal with |- context [match ?X with pair _ _ => _ end] => destruct X as [lo' ro'] end. apply add_ring_era.
Qed.

Lemma add_atom_era m a r : mg_add_atom (era m) a r = (era (fst (mg_add_atom m a r)), snd (mg_add_atom m a r)).
Proof.
  unfold mg_add_atom. rewrite mg_len_era. cbn [fst snd]. f_equal. unfold era. cbn [m_attributable m_roots m_atoms m_adj m_counts2 m_ringflags m_ds].
  rewrite !map_app. reflexivity.
Qed.

Lemma era_era m : era (era m) = era m.
Proof.
  unfold era. cbn [m_attributable m_roots m_atoms m_adj m_counts2 m_ringflags m_ds]. f_equal.
  - rewrite map_map. apply map_ext. reflexivity.
  - rewrite map_map. apply map_ext. intro l. unfold era_row. rewrite map_map. apply map_ext. intros [e|]; reflexivity.
Qed.

(* with attribution the entry of the fresh atom is extended - an update that cannot fail, the atom was just added *)
Lemma add_attr_fresh m a r at_ : exists m2, mg_add_attr_atom (fst (mg_add_atom m a r)) (snd (mg_add_atom m a r)) at_ = Ok m2 /\
  era m2 = era (fst (mg_add_atom m a r)).
Proof.
  unfold mg_add_attr_atom, mg_add_atom. cbn [fst snd m_attributable m_atoms].
  destruct (m_attributable m); [|eexists; split; reflexivity].
  unfold lupd. rewrite app_length. cbn [length]. unfold mg_len.
  destruct (Nat.ltb_spec (length (m_atoms m)) (length (m_atoms m) + 1)) as [_|H]; [|lia]. cbn [bind].
  eexists. split; [reflexivity|]. unfold era. cbn [set_atoms m_attributable m_roots m_atoms m_adj m_counts2 m_ringflags m_ds]. f_equal.
  rewrite <- (upd_map era_a (fun p => (fst p, merge_attr (snd p) at_)) (fun x => x)) by reflexivity. apply upd_id.
Qed.

(* ---------- the reader ---------- *)
Definition era3 (x : emol * nat * nat) : emol * nat * nat := let '(m, a, b) := x in (era m, a, b).

Lemma attach_era m tok a prev i : attach_atom (era m) tok a prev i = rmap era3 (attach_atom m tok a prev i).
Proof.
  unfold attach_atom. rewrite add_atom_era.
  destruct (add_attr_fresh m a (match prev with None => true | Some _ => false end)
              [(match t_bond tok with Some _ => S i | None => i end, t_text tok)]) as (m2 & E2 & Em2).
  destruct (mg_add_atom m a _) as [m1 idx]. cbn [fst snd] in *. rewrite E2. cbn [bind].
  unfold mg_add_attr_atom at 1. cbn [era m_attributable bind]. fold (era m1). rewrite <- Em2.
  destruct prev as [src|]; [|reflexivity].
  destruct (smiles_to_bond2 (t_bond tok)) as [o2 st].
  rewrite get_atom_era. destruct (mg_get_atom m2 src) as [pa|]; cbn [rmap bind]; [|reflexivity]. cbn [era_a fst].
  cbn [era m_attributable]. fold (era m2).
  rewrite (add_bond_era m2 src idx _ st (if m_attributable m2 then Some [(match t_bond tok with Some _ => S i | None => i end, t_text tok)] else None)).
  destruct (mg_add_bond m2 src idx _ st _); reflexivity.
Qed.

Definition era_st (st : pstate) : pstate :=
  {| p_mol := era (p_mol st); p_i := p_i st; p_tok := p_tok st; p_prev := p_prev st; p_branch := p_branch st;
     p_rings := p_rings st; p_chain_start := p_chain_start st |}.
Definition era_sr (p : pstate * list token) : pstate * list token := (era_st (fst p), snd p).

Lemma derive_loop_era : forall ts st, derive_loop ts (era_st st) = rmap era_sr (derive_loop ts st).
Proof.
  induction ts as [|tok r IH]; intro st; cbn [derive_loop]; [reflexivity|].
  cbn [era_st p_prev p_mol p_i p_branch p_rings p_chain_start].
  destruct (p_prev st) as [|prev below]; [reflexivity|].
  destruct (t_type tok).
  - destruct (smiles_to_atom (t_text tok)) as [[a|]|]; cbn [bind]; try reflexivity.
    rewrite attach_era. destruct (attach_atom (p_mol st) tok a prev (p_i st)) as [[[m' idx] i']|]; cbn [rmap bind era3]; [|reflexivity].
    exact (IH {| p_mol := m'; p_i := S i'; p_tok := Some tok; p_prev := Some idx :: below; p_branch := p_branch st; p_rings := p_rings st; p_chain_start := false |}).
  - destruct (p_chain_start st); [reflexivity|].
    destruct (str_eqb _ _).
    + exact (IH {| p_mol := p_mol st; p_i := S (p_i st); p_tok := Some tok; p_prev := prev :: prev :: below; p_branch := tok :: p_branch st; p_rings := p_rings st; p_chain_start := true |}).
    + destruct (p_branch st) as [|b0 branch']; [reflexivity|].
      exact (IH {| p_mol := p_mol st; p_i := S (p_i st); p_tok := Some tok; p_prev := below; p_branch := branch'; p_rings := p_rings st; p_chain_start := false |}).
  - destruct (p_chain_start st); [reflexivity|].
    destruct (ring_log_find _ _) as [[[ltok latom] lpos]|].
    + destruct (atom_index prev) as [ratom|]; cbn [bind]; [|reflexivity].
      rewrite make_ring_era. destruct (make_ring_bonds (p_mol st) ltok latom lpos tok ratom) as [m'|]; cbn [rmap bind]; [|reflexivity].
      exact (IH {| p_mol := m'; p_i := S (p_i st); p_tok := Some tok; p_prev := prev :: below; p_branch := p_branch st; p_rings := ring_log_remove (p_rings st) (t_text tok); p_chain_start := false |}).
    + destruct (atom_index prev) as [src|]; cbn [bind]; [|reflexivity].
      rewrite placeholder_era. destruct (mg_add_placeholder_bond (p_mol st) src) as [[m' lpos]|]; cbn [rmap bind fst snd]; [|reflexivity].
      exact (IH {| p_mol := m'; p_i := S (p_i st); p_tok := Some tok; p_prev := prev :: below; p_branch := p_branch st; p_rings := p_rings st ++ [(t_text tok, (tok, src, lpos))]; p_chain_start := false |}).
  - reflexivity.
Qed.

Lemma derive_mol_era m ts i : derive_mol_from_tokens (era m) ts i = rmap (fun x => let '(m', i', rest) := x in (era m', i', rest)) (derive_mol_from_tokens m ts i).
Proof.
  unfold derive_mol_from_tokens.
  change {| p_mol := era m; p_i := i; p_tok := None; p_prev := [None]; p_branch := []; p_rings := []; p_chain_start := true |}
    with (era_st {| p_mol := m; p_i := i; p_tok := None; p_prev := [None]; p_branch := []; p_rings := []; p_chain_start := true |}).
  rewrite derive_loop_era. destruct (derive_loop ts _) as [[st rest]|]; cbn [rmap bind era_sr fst snd]; [|reflexivity].
  cbn [era_st p_mol p_branch p_rings p_i]. rewrite mg_len_era. destruct (_ =? _); [reflexivity|].
  destruct (p_branch st); [|reflexivity]. destruct (p_rings st); reflexivity.
Qed.

Lemma fragments_era : forall fuel m ts i, fragments_loop fuel (era m) ts i = rmap era (fragments_loop fuel m ts i).
Proof.
  induction fuel as [|f IH]; intros m ts i; [reflexivity|]. cbn [fragments_loop].
  destruct ts as [|t r]; [reflexivity|]. rewrite derive_mol_era.
  destruct (derive_mol_from_tokens m (t :: r) i) as [[[m' i'] rest]|]; cbn [rmap bind]; [apply IH|reflexivity].
Qed.

Theorem smiles_to_mol_era s : smiles_to_mol s false = rmap era (smiles_to_mol s true).
Proof.
  unfold smiles_to_mol. destruct s as [|c r]; [reflexivity|].
  destruct (tokenize_smiles (c :: r)) as [ts|]; cbn [bind rmap]; [|reflexivity].
  change (mg_empty false) with (era (mg_empty true)). apply fragments_era.
Qed.

(* ---------- kekulize ---------- *)
Lemma count2_era m i : mg_get_bond_count2 (era m) i = mg_get_bond_count2 m i. Proof. reflexivity. Qed.

Lemma prune_era m node : prune_from_ds (era m) node = prune_from_ds m node.
Proof.
  unfold prune_from_ds. cbn [era m_ds]. destruct (ds_lookup (m_ds m) node) as [[|x adjs]|]; try reflexivity.
  rewrite get_atom_era, count2_era. destruct (mg_get_atom m node) as [aa|]; reflexivity.
Qed.

Lemma any_bad_era m : forall ds, any_bad_element (era m) ds = any_bad_element m ds.
Proof.
  induction ds as [|[v [|x l]] r IH]; cbn [any_bad_element]; [reflexivity|exact IH|].
  rewrite get_atom_era. destruct (mg_get_atom m v) as [aa|]; cbn [rmap bind era_a fst]; [|reflexivity]. now rewrite IH.
Qed.

Lemma kept_era m : forall keys, kept_nodes_of (era m) keys = kept_nodes_of m keys.
Proof. induction keys as [|k r IH]; cbn [kept_nodes_of]; [reflexivity|]. now rewrite prune_era, IH. Qed.

Lemma pruned_era m labels : forall sorted, pruned_ds_of (era m) labels sorted = pruned_ds_of m labels sorted.
Proof. induction sorted as [|n r IH]; cbn [pruned_ds_of]; [reflexivity|]. cbn [era m_ds]. fold (era m). now rewrite IH. Qed.

Lemma set_edge_era l d o : set_edge_order2 (era_row l) d o = era_row (set_edge_order2 l d o).
Proof.
  unfold set_edge_order2, era_row. rewrite !map_map. apply map_ext. intros [e|]; cbn [option_map]; [|reflexivity].
  cbn [era_e e_dst]. destruct (_ =? _); reflexivity.
Qed.

Lemma update_order_era m a b o : mg_update_bond_order (era m) a b o = rmap era (mg_update_bond_order m a b o).
Proof.
  unfold mg_update_bond_order. destruct (negb _); [reflexivity|]. rewrite get_dirbond_era.
  destruct (mg_get_dirbond m (Nat.min a b) (Nat.max a b)) as [ab|]; cbn [rmap bind]; [|reflexivity].
  cbn [era_e e_order2 e_ring]. destruct (_ =? _)%Z; [reflexivity|].
  assert (U : forall x i d, upd (map era_row x) i (fun l => set_edge_order2 l d o) = map era_row (upd x i (fun l => set_edge_order2 l d o))).
  { intros x i d. apply (upd_map era_row). intro l. symmetry. apply set_edge_era. }
  destruct (e_ring ab).
  - rewrite get_dirbond_era. destruct (mg_get_dirbond m (Nat.max a b) (Nat.min a b)); cbn [rmap bind]; [|reflexivity].
    cbn [era m_adj]. rewrite !U. fold (era m). rewrite set_adj_era.
    rewrite add_count_era. destruct (mg_add_count2 _ (Nat.min a b) _) as [m1|]; cbn [rmap bind]; [|reflexivity]. apply add_count_era.
  - cbn [bind]. cbn [era m_adj]. rewrite U. fold (era m). rewrite set_adj_era.
    rewrite add_count_era. destruct (mg_add_count2 _ (Nat.min a b) _) as [m1|]; cbn [rmap bind]; [|reflexivity]. apply add_count_era.
Qed.

Lemma single_bonds_era : forall adjs m node, set_single_bonds (era m) node adjs = rmap era (set_single_bonds m node adjs).
Proof.
  induction adjs as [|x r IH]; intros m node; cbn [set_single_bonds]; [reflexivity|].
  rewrite update_order_era. destruct (mg_update_bond_order m node x 2) as [m1|]; cbn [rmap bind]; [apply IH|reflexivity].
Qed.

Lemma double_bonds_era : forall pairs m l2n, set_double_bonds (era m) l2n pairs = rmap era (set_double_bonds m l2n pairs).
Proof.
  induction pairs as [|[i oj] r IH]; intros m l2n; cbn [set_double_bonds]; [reflexivity|].
  destruct (lget l2n i); cbn [bind]; [|reflexivity]. destruct oj as [j|]; [|reflexivity].
  destruct (lget l2n j); cbn [bind]; [|reflexivity].
  rewrite update_order_era. destruct (mg_update_bond_order m _ _ 4) as [m1|]; cbn [rmap bind]; [apply IH|reflexivity].
Qed.

Lemma dearomatize_era : forall ds m, dearomatize (era m) ds = rmap era (dearomatize m ds).
Proof.
  induction ds as [|[node adjs] r IH]; intros m; cbn [dearomatize]; [reflexivity|].
  rewrite single_bonds_era. destruct (set_single_bonds m node adjs) as [m1|]; cbn [rmap bind]; [|reflexivity].
  cbn [era m_atoms m_counts2].
  rewrite (lupd_map era_a (fun p => (clear_aromatic (fst p), snd p)) (fun p => (clear_aromatic (fst p), snd p))) by reflexivity.
  destruct (lupd (m_atoms m1) node _) as [atoms'|]; cbn [rmap bind]; [|reflexivity].
  destruct (lupd (m_counts2 m1) node _) as [counts'|]; cbn [rmap bind]; [|reflexivity].
  fold (era m1). exact (IH (set_counts2 (set_atoms m1 atoms') counts')).
Qed.

Theorem kekulize_era m : kekulize (era m) = rmap (option_map era) (kekulize m).
Proof.
  unfold kekulize. cbn [era m_ds]. fold (era m). destruct (ds_is_empty (m_ds m)); [reflexivity|].
  rewrite any_bad_era. destruct (any_bad_element m _) as [bad|]; cbn [rmap bind]; [|reflexivity]. destruct bad; [reflexivity|].
  rewrite kept_era. destruct (kept_nodes_of m _) as [kept|]; cbn [rmap bind]; [|reflexivity].
  rewrite mg_len_era, pruned_era. destruct (pruned_ds_of m _ _) as [pruned|]; cbn [rmap bind]; [|reflexivity].
  destruct (find_perfect_matching pruned) as [[mt|]|]; cbn [rmap bind]; try reflexivity.
  rewrite dearomatize_era. destruct (dearomatize m _) as [m1|]; cbn [rmap bind]; [|reflexivity].
  rewrite double_bonds_era. destruct (set_double_bonds m1 _ _) as [m2|]; reflexivity.
Qed.

(* ---------- strict check, inversion pass ---------- *)
Lemma constraint_errors_era capf m : forall atoms idx,
  bond_constraint_errors capf (era m) (map era_a atoms) idx = bond_constraint_errors capf m atoms idx.
Proof.
  induction atoms as [|[a at_] r IH]; intro idx; cbn [map era_a fst bond_constraint_errors]; [reflexivity|].
  destruct (bonding_capacity_c capf a); cbn [bind]; [|reflexivity]. rewrite count2_era.
  destruct (mg_get_bond_count2 m idx); cbn [bind]; [|reflexivity]. rewrite IH. reflexivity.
Qed.

Lemma check_era capf m : check_bond_constraints capf (era m) = check_bond_constraints capf m.
Proof. unfold check_bond_constraints. cbn [era m_atoms]. fold (era m). now rewrite constraint_errors_era. Qed.

Lemma partition_era : forall l i, partition_bonds (era_row l) i = partition_bonds l i.
Proof.
  induction l as [|[b|] r IH]; intro i; cbn [era_row map option_map partition_bonds]; [reflexivity| |reflexivity].
  fold (era_row r). rewrite IH. reflexivity.
Qed.

Lemma should_invert_era m idx : should_invert_chirality (era m) idx = should_invert_chirality m idx.
Proof.
  unfold should_invert_chirality, mg_get_out_dirbonds. cbn [era m_adj]. rewrite lget_map.
  destruct (lget (m_adj m) idx) as [ob|]; cbn [rmap bind]; [|reflexivity]. now rewrite partition_era.
Qed.

Lemma invert_pass_era m : forall atoms idx, invert_pass (era m) (map era_a atoms) idx = rmap (map era_a) (invert_pass m atoms idx).
Proof.
  induction atoms as [|[a at_] r IH]; intro idx; cbn [map era_a fst invert_pass]; [reflexivity|].
  unfold mg_has_out_ring_bond. cbn [era m_ringflags]. rewrite should_invert_era.
  match goal with |- (do a' <- ?X; _) = _ => destruct X as [a'|] end; cbn [rmap bind]; [|reflexivity].
  rewrite IH. destruct (invert_pass m r (S idx)); reflexivity.
Qed.

(* ---------- the emitting walk ---------- *)
Definition era_out (p : list str * list amap) : list str * list amap := (fst p, map era_map (snd p)).

Lemma maps_for_era m toks pos aidx at_ : maps_for toks pos aidx (mg_get_attr (era m) None) = map era_map (maps_for toks pos aidx at_).
Proof. revert pos. induction toks as [|t r IH]; intro pos; cbn [maps_for map]; [reflexivity|]. now rewrite IH. Qed.

Lemma bond_sel_era b sh : bond_to_selfies (era_e b) sh = bond_to_selfies b sh. Proof. reflexivity. Qed.
Lemma ring_sel_era a b : ring_bonds_to_selfies (era_e a) (era_e b) = ring_bonds_to_selfies a b. Proof. reflexivity. Qed.

Lemma out_loop_era m (w w' : ebond -> nat -> nat -> res (list str * list amap)) :
  (forall b ai o, w' (era_e b) ai o = rmap era_out (w b ai o)) ->
  forall bonds aidx off, out_loop (era m) w' (map era_e bonds) aidx off = rmap era_out (out_loop m w bonds aidx off).
Proof.
  intro Hw. induction bonds as [|b rest IH]; intros aidx off; cbn [map out_loop]; [reflexivity|].
  change (e_ring (era_e b)) with (e_ring b). change (e_src (era_e b)) with (e_src b). change (e_dst (era_e b)) with (e_dst b).
  change (e_attr (era_e b)) with (@None (list attr)).
  destruct (e_ring b).
  - destruct (e_src b <? e_dst b); [apply IH|].
    rewrite get_dirbond_era. destruct (mg_get_dirbond m (e_dst b) (e_src b)) as [rv|]; cbn [rmap bind]; [|reflexivity].
    destruct (get_selfies_from_index _) as [Q|]; cbn [bind]; [|reflexivity].
    rewrite (ring_sel_era rv b).
    destruct (ring_bonds_to_selfies rv b) as [rs|]; cbn [bind]; [|reflexivity].
    rewrite IH. destruct (out_loop m w rest aidx _) as [[ts ms]|]; cbn [rmap bind era_out fst snd]; [|reflexivity].
    unfold era_out. cbn [fst snd]. rewrite map_app, <- (maps_for_era m _ _ _ (mg_get_attr m (e_attr b))). reflexivity.
  - destruct rest as [|b2 rest2]; [cbn [map]; apply Hw|].
    cbn [map]. rewrite Hw. destruct (w b off 0) as [[branch bmaps]|]; cbn [rmap bind era_out fst snd]; [|reflexivity].
    destruct (get_selfies_from_index _) as [Q|]; cbn [bind]; [|reflexivity].
    rewrite bond_sel_era. destruct (bond_to_selfies b false) as [bs|]; cbn [bind]; [|reflexivity].
    change (era_e b2 :: map era_e rest2) with (map era_e (b2 :: rest2)). rewrite IH.
    destruct (out_loop m w (b2 :: rest2) aidx _) as [[ts ms]|]; cbn [rmap bind era_out fst snd]; [|reflexivity].
    unfold era_out. cbn [fst snd]. rewrite !map_app, !map_map. cbn [map]. rewrite <- (maps_for_era m _ _ _ (mg_get_attr m (e_attr b))). reflexivity.
Qed.

Lemma all_some_era : forall raw, Encoder.all_some (era_row raw) = rmap (map era_e) (Encoder.all_some raw).
Proof.
  induction raw as [|[b|] r IH]; cbn [era_row map option_map Encoder.all_some]; [reflexivity| |reflexivity].
  fold (era_row r). rewrite IH. destruct (Encoder.all_some r); reflexivity.
Qed.

Lemma ring_first_era l : ring_bonds_first (map era_e l) = map era_e (ring_bonds_first l).
Proof.
  unfold ring_bonds_first. rewrite map_app. f_equal; induction l as [|b r IH]; cbn [map filter]; try reflexivity; cbn [era_e e_ring]; destruct (e_ring b); cbn [negb map]; now rewrite IH.
Qed.

Lemma atom_sel_era b a : atom_to_selfies (option_map era_e b) a = atom_to_selfies b a.
Proof. destruct b; reflexivity. Qed.

Lemma walk_era m : forall fuel b curr aidx off,
  fragment_walk fuel (era m) (option_map era_e b) curr aidx off = rmap era_out (fragment_walk fuel m b curr aidx off).
Proof.
  induction fuel as [|f IH]; intros b curr aidx off; [reflexivity|]. cbn [fragment_walk].
  rewrite get_atom_era. destruct (mg_get_atom m curr) as [[a at_]|]; cbn [rmap bind era_a fst snd]; [|reflexivity].
  rewrite atom_sel_era. destruct (atom_to_selfies b a) as [tok|]; cbn [bind]; [|reflexivity].
  unfold mg_get_out_dirbonds. cbn [era m_adj]. rewrite lget_map. fold (era m).
  destruct (lget (m_adj m) curr) as [raw|]; cbn [rmap bind]; [|reflexivity].
  rewrite all_some_era. destruct (Encoder.all_some raw) as [bonds|]; cbn [rmap bind]; [|reflexivity].
  rewrite ring_first_era.
  rewrite (out_loop_era m (fun b0 ai o => fragment_walk f m (Some b0) (e_dst b0) ai o) (fun b0 ai o => fragment_walk f (era m) (Some b0) (e_dst b0) ai o)).
  - destruct (out_loop m _ (ring_bonds_first bonds) aidx (S off)) as [[ts ms]|]; reflexivity.
  - intros b0 ai o. exact (IH (Some b0) (e_dst b0) ai o).
Qed.

Lemma encode_roots_era m : forall roots aidx, encode_roots (era m) roots aidx = rmap era_out (encode_roots m roots aidx).
Proof.
  induction roots as [|r rest IH]; intro aidx; cbn [encode_roots]; [reflexivity|].
  unfold fragment_to_selfies. rewrite mg_len_era. rewrite (walk_era m _ None).
  destruct (fragment_walk _ m None r aidx 0) as [[derived mp]|]; cbn [rmap bind era_out fst snd]; [|reflexivity].
  rewrite IH. destruct (encode_roots m rest _) as [[frags maps']|]; cbn [rmap bind]; [|reflexivity].
  unfold era_out. cbn [fst snd]. now rewrite map_app.
Qed.

Lemma filter_era_map ms : filter (fun a => match am_token a with [] => false | _ => true end) (map era_map ms) =
  map era_map (filter (fun a => match am_token a with [] => false | _ => true end) ms).
Proof. induction ms as [|a r IH]; cbn [map filter]; [reflexivity|]. cbn [era_map am_token]. destruct (am_token a); cbn [map]; now rewrite IH. Qed.

Theorem encode_mol_era capf m strict : encode_mol capf (era m) strict = rmap (fun p => (fst p, map era_map (snd p))) (encode_mol capf m strict).
Proof.
  unfold encode_mol. rewrite kekulize_era. destruct (kekulize m) as [[m1|]|]; cbn [rmap option_map bind]; try reflexivity.
  rewrite check_era. match goal with |- (do _ <- ?X; _) = _ => destruct X; cbn [rmap bind]; [|reflexivity] end.
  cbn [era m_atoms]. fold (era m1). rewrite invert_pass_era.
  destruct (invert_pass m1 (m_atoms m1) 0) as [atoms'|]; cbn [rmap bind]; [|reflexivity].
  change (set_atoms (era m1) (map era_a atoms')) with (era (set_atoms m1 atoms')).
  change (m_roots (era (set_atoms m1 atoms'))) with (m_roots (set_atoms m1 atoms')).
  rewrite encode_roots_era. destruct (encode_roots (set_atoms m1 atoms') _ 0) as [[frags maps]|]; cbn [rmap bind era_out fst snd]; [|reflexivity].
  now rewrite filter_era_map.
Qed.

(* attribute=False is attribute=True with the attribution erased *)
Theorem encoder_attribute_erased T s strict :
  encoder T s strict false = rmap (fun p => (fst p, map era_map (snd p))) (encoder T s strict true).
Proof.
  unfold encoder, encoder_c. rewrite smiles_to_mol_era.
  destruct (smiles_to_mol s true) as [m0|e]; cbn [rmap]; [apply encode_mol_era|destruct e; reflexivity].
Qed.
