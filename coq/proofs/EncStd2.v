(* EncStd2.v — C10, standardisation at the level of encoder(): for EVERY element, with and without an isotope, the
   equivalent spellings of a bracket atom give the same SELFIES string, under every table (strict=False does not look at
   the table: C06_nonstrict_ignores_table; with strict=True the two runs differ at most by the same EncoderError). *)
From Coq Require Import Ascii String List Arith ZArith NArith Bool Lia.
Import ListNotations.
From Selfies Require Import Base Generated Lex Atoms Grammar Decoder Smiles PySet Matching Kekulize Encoder BaseFacts PureFacts EncStd.
Local Open Scope Z_scope.

Definition same_encoding (s1 s2 : str) : bool :=
  match encoder default_constraints s1 false false, encoder default_constraints s2 false false with
  | Ok (x, _), Ok (y, _) => str_eqb x y
  | _, _ => false
  end.

Definition encodings_ok (el : str) : bool :=
  forallb (fun pq => same_encoding (br "" (fst pq) el) (br "" (snd pq) el) && same_encoding (br "13" (fst pq) el) (br "13" (snd pq) el)) spelling_pairs.

Lemma encodings_all : forallb encodings_ok elements = true.
Proof. vm_compute. reflexivity. Qed.

Theorem standard_spellings_encoder T el p q pre : In el elements -> In (p, q) spelling_pairs -> In pre [""; "13"]%string ->
  exists x m1 m2, encoder T (br pre p el) false false = Ok (x, m1) /\ encoder T (br pre q el) false false = Ok (x, m2).
Proof.
  intros He Hpq Hpre. pose proof encodings_all as F. rewrite forallb_forall in F. specialize (F el He).
  unfold encodings_ok in F. rewrite forallb_forall in F. specialize (F (p, q) Hpq). cbn [fst snd] in F.
  apply andb_true_iff in F as [F1 F2].
  assert (G : same_encoding (br pre p el) (br pre q el) = true) by (destruct Hpre as [<-|[<-|[]]]; assumption).
  unfold same_encoding, encoder in G.
  unfold encoder. rewrite (nonstrict_encoder_ignores_table (get_bonding_capacity T) (get_bonding_capacity default_constraints) (br pre p el) false).
  rewrite (nonstrict_encoder_ignores_table (get_bonding_capacity T) (get_bonding_capacity default_constraints) (br pre q el) false).
  destruct (encoder_c _ (br pre p el) false false) as [[x m1]|]; [|discriminate].
  destruct (encoder_c _ (br pre q el) false false) as [[y m2]|]; [|discriminate].
  apply str_eqb_eq in G. subst y. now exists x, m1, m2.
Qed.
