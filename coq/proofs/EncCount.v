(* EncCount.v — C06: the stored bond count of every atom is the sum of the orders of its bonds.  The strict check of the
   encoder compares _bond_counts[i] with the capacity; this file shows that the reader keeps _bond_counts[i] equal to the
   sum over the stored edges incident to atom i (edges of row i, plus chain edges of other rows that end at i; a ring
   bond is stored in both rows and counts once in each), all in half units. *)
From Coq Require Import Ascii String List Arith ZArith NArith Bool Lia.
Import ListNotations.
From Selfies Require Import Base Generated Lex Atoms Grammar Decoder Smiles PySet Matching Kekulize Encoder BaseFacts ConfigFacts DecoderInv EncoderFacts
  ParserTotal EncHyp EncShape EncTokens EncRows EncAttr EncStereo EncFuel EncIndex EncKey EncAttrErr EncArom EncUniq EncOrders EncKek.
Local Open Scope Z_scope.

Definition w (i j : nat) (oe : option ebond) : Z :=
  match oe with
  | None => 0
  | Some e => (if Nat.eqb j i then e_order2 e else 0) + (if negb (e_ring e) && Nat.eqb (e_dst e) i then e_order2 e else 0)
  end.
Fixpoint rowsum (i j : nat) (row : list (option ebond)) : Z :=
  match row with [] => 0 | oe :: r => w i j oe + rowsum i j r end.
Fixpoint sumrows (i j : nat) (adj : list (list (option ebond))) : Z :=
  match adj with [] => 0 | row :: r => rowsum i j row + sumrows i (S j) r end.
Definition tot (m : emol) (i : nat) : Z := sumrows i 0 (m_adj m).

Record CS (m : emol) : Prop := {
  cs_len : length (m_counts2 m) = length (m_adj m);
  cs_atoms : length (m_adj m) = mg_len m;
  cs_sum : forall i c, nth_error (m_counts2 m) i = Some c -> c = tot m i
}.

Lemma rowsum_app i j a b : rowsum i j (a ++ b) = rowsum i j a + rowsum i j b.
Proof. induction a as [|x r IH]; cbn [app rowsum]; [lia|rewrite IH; lia]. Qed.
Lemma sumrows_app i : forall a j b, sumrows i j (a ++ b) = sumrows i j a + sumrows i (j + length a) b.
Proof.
  induction a as [|x r IH]; intros j b; cbn [app sumrows length]; [now rewrite Nat.add_0_r|].
  rewrite IH. replace (S j + length r)%nat with (j + S (length r))%nat by lia. lia.
Qed.
Lemma sumrows_upd i f : forall adj j0 s row, nth_error adj s = Some row ->
  sumrows i j0 (upd adj s f) = sumrows i j0 adj - rowsum i (j0 + s) row + rowsum i (j0 + s) (f row).
Proof.
  induction adj as [|x r IH]; intros j0 [|s] row H; cbn in H; try discriminate; cbn [upd sumrows].
  - inversion H; subst. rewrite Nat.add_0_r. lia.
  - rewrite (IH (S j0) s row H). replace (S j0 + s)%nat with (j0 + S s)%nat by lia. lia.
Qed.

Lemma rowsum_upd_slot i j x : forall row p old, nth_error row p = Some old -> rowsum i j (upd row p (fun _ => x)) = rowsum i j row - w i j old + w i j x.
Proof.
  induction row as [|y r IH]; intros [|p] old H; cbn in H; try discriminate; cbn [upd rowsum].
  - inversion H; subst. lia.
  - rewrite (IH p old H). lia.
Qed.
Lemma rowsum_insert i j x : forall row p, rowsum i j (insert_at row p x) = rowsum i j row + w i j x.
Proof.
  induction row as [|y r IH]; intros p.
  - destruct p; cbn [insert_at rowsum]; lia.
  - destruct p; cbn [insert_at rowsum]; [lia|]. rewrite IH. lia.
Qed.

Lemma add_loc_rowsum i j out pos b out' : add_bond_at_loc out pos b = Ok out' -> rowsum i j out' = rowsum i j out + w i j (Some b).
Proof.
  unfold add_bond_at_loc. destruct pos as [p|].
  - destruct (p =? length out)%nat; [intro E; inversion E; subst; rewrite rowsum_app; cbn [rowsum]; lia|].
    destruct (nth_error out p) as [[x|]|] eqn:En; [| |discriminate]; intro E; inversion E; subst.
    + apply rowsum_insert.
    + rewrite (rowsum_upd_slot i j (Some b) out p None En). cbn [w]. lia.
  - intro E; inversion E; subst. rewrite rowsum_app. cbn [rowsum]. lia.
Qed.

Lemma at_loc_tot m b pos m' i : mg_add_bond_at_loc m b pos = Ok m' -> tot m' i = tot m i + w i (e_src b) (Some b).
Proof.
  unfold mg_add_bond_at_loc, tot. destruct (lget (m_adj m) (e_src b)) as [out|] eqn:El; cbn [bind]; [|discriminate]. apply lget_In in El.
  destruct (add_bond_at_loc out pos b) as [out'|] eqn:Ea; cbn [bind]; [|discriminate]. intro E; inversion E; subst. cbn [set_adj m_adj].
  rewrite (sumrows_upd i _ _ 0 _ _ El). cbn [plus]. rewrite (add_loc_rowsum i _ _ _ _ _ Ea). lia.
Qed.

Lemma nth_upd_gen {A} (f : A -> A) : forall l k i, nth_error (upd l k f) i = if Nat.eqb k i then option_map f (nth_error l i) else nth_error l i.
Proof.
  induction l as [|x r IH]; intros k i.
  - cbn [upd]. destruct k; cbn [upd]; destruct (Nat.eqb _ i); destruct i; reflexivity.
  - destruct k, i; cbn; try reflexivity. apply IH.
Qed.

Lemma add_count_counts m k d m' : mg_add_count2 m k d = Ok m' -> m_counts2 m' = upd (m_counts2 m) k (fun x => x + d) /\ m_adj m' = m_adj m /\ mg_len m' = mg_len m.
Proof. unfold mg_add_count2. destruct (lupd _ _ _) as [c|] eqn:E; cbn [bind]; [|discriminate]. apply lupd_eq in E. intro H; inversion H; subst. auto. Qed.

Definition ind (b : bool) (o : Z) : Z := if b then o else 0.

(* two count updates after the edges have been stored *)
Lemma cs_two m m1 m2 m3 a b o : CS m -> m_adj m1 = m_adj m1 -> length (m_adj m1) = length (m_adj m) -> mg_len m1 = mg_len m -> m_counts2 m1 = m_counts2 m ->
  (forall i, tot m1 i = tot m i + ind (Nat.eqb a i) o + ind (Nat.eqb b i) o) ->
  mg_add_count2 m1 a o = Ok m2 -> mg_add_count2 m2 b o = Ok m3 -> CS m3.
Proof.
  intros [L A S] _ La Lm Hc Ht E2 E3. destruct (add_count_counts _ _ _ _ E2) as (C2 & A2 & M2). destruct (add_count_counts _ _ _ _ E3) as (C3 & A3 & M3).
  constructor.
  - rewrite C3, C2, Hc, A3, A2, !upd_length. congruence.
  - rewrite A3, A2, M3, M2. congruence.
  - intros i c Hn. rewrite C3, C2, Hc, !nth_upd_gen in Hn. unfold tot. rewrite A3, A2. fold (tot m1 i). rewrite Ht. unfold ind.
    destruct (nth_error (m_counts2 m) i) as [c0|] eqn:E0; [|destruct (Nat.eqb b i), (Nat.eqb a i); discriminate].
    rewrite (S i c0 E0) in *. destruct (Nat.eqb b i), (Nat.eqb a i); cbn in Hn; inversion Hn; lia.
Qed.

Lemma cs_same m m' : m_adj m' = m_adj m -> m_counts2 m' = m_counts2 m -> mg_len m' = mg_len m -> CS m -> CS m'.
Proof. intros Ha Hc Hl [L A S]. constructor; [congruence|congruence|]. intros i c Hn. unfold tot. rewrite Ha. rewrite Hc in Hn. exact (S i c Hn). Qed.

Lemma at_loc_frame m b pos m' : mg_add_bond_at_loc m b pos = Ok m' ->
  m_counts2 m' = m_counts2 m /\ length (m_adj m') = length (m_adj m) /\ mg_len m' = mg_len m.
Proof.
  unfold mg_add_bond_at_loc. destruct (lget _ _); cbn [bind]; [|discriminate]. destruct (add_bond_at_loc _ _ _); cbn [bind]; [|discriminate].
  intro E; inversion E; subst. cbn [set_adj m_counts2 m_adj]. rewrite upd_length. auto.
Qed.

Lemma add_bond_cs m src dst o2 st at_ m' : CS m -> mg_add_bond m src dst o2 st at_ = Ok m' -> CS m'.
Proof.
  intros Hc. unfold mg_add_bond. destruct (negb _); [discriminate|].
  destruct (mg_add_bond_at_loc _ _ _) as [m1|] eqn:E1; cbn [bind]; [|discriminate].
  destruct (mg_add_count2 m1 _ _) as [m2|] eqn:E2; cbn [bind]; [|discriminate].
  destruct (mg_add_count2 m2 _ _) as [m3|] eqn:E3; cbn [bind]; [|discriminate].
  destruct (at_loc_frame _ _ _ _ E1) as (C1 & L1 & M1).
  assert (X : CS m3).
  { apply (cs_two m m1 m2 m3 src dst o2 Hc eq_refl L1 M1 C1); [|exact E2|exact E3]. intro i. rewrite (at_loc_tot _ _ _ _ i E1). cbn [w e_src e_dst e_ring e_order2 negb andb]. unfold ind. lia. }
  destruct (_ =? _)%Z; intro E; inversion E; subst; [apply (cs_same m3); auto|exact X].
Qed.

Lemma add_ring_cs m a b o2 sa sb pa pb m' : CS m -> mg_add_ring_bond m a b o2 sa sb pa pb = Ok m' -> CS m'.
Proof.
  intros Hc. unfold mg_add_ring_bond.
  destruct (mg_add_bond_at_loc m _ _) as [m1|] eqn:E1; cbn [bind]; [|discriminate].
  destruct (mg_add_bond_at_loc m1 _ _) as [m2|] eqn:E2; cbn [bind]; [|discriminate].
  destruct (mg_add_count2 m2 _ _) as [m3|] eqn:E3; cbn [bind]; [|discriminate].
  destruct (mg_add_count2 m3 _ _) as [m4|] eqn:E4; cbn [bind]; [|discriminate].
  destruct (lupd (m_ringflags m4) _ _) as [f1|]; cbn [bind]; [|discriminate].
  destruct (lupd f1 _ _) as [f2|]; cbn [bind]; [|discriminate].
  destruct (at_loc_frame _ _ _ _ E1) as (C1 & L1 & M1). destruct (at_loc_frame _ _ _ _ E2) as (C2 & L2 & M2).
  assert (X : CS m4).
  { apply (cs_two m m2 m3 m4 a b o2 Hc eq_refl); [congruence|congruence|congruence| |exact E3|exact E4]. intro i.
    rewrite (at_loc_tot _ _ _ _ i E2), (at_loc_tot _ _ _ _ i E1). cbn [w e_src e_dst e_ring e_order2 negb andb]. unfold ind. lia. }
  destruct (_ =? _)%Z; intro E; inversion E; subst; apply (cs_same m4); auto.
Qed.

Lemma make_ring_cs m lt la lp rt ra m' : CS m -> make_ring_bonds m lt la lp rt ra = Ok m' -> CS m'.
Proof.
  intros Hd. unfold make_ring_bonds. destruct (_ =? _)%nat; [discriminate|]. destruct (mg_has_bond _ _ _); [discriminate|].
  match goal with |- (let '(b0, b1) := ?X in _) = _ -> _ => destruct X as [b0 b1] end.
  destruct (negb _); [discriminate|].
  destruct (smiles_to_bond2 (t_bond lt)) as [lo ls]. destruct (smiles_to_bond2 (t_bond rt)) as [ro rs].
  destruct (mg_get_atom m la); cbn [bind]; [|discriminate]. destruct (mg_get_atom m ra); cbn [bind]; [|discriminate].
  match goal with |- (let '(x, y) := ?X in _) = _ -> _ => destruct X as [lo' ro'] end.
  apply add_ring_cs; assumption.
Qed.

Lemma placeholder_cs m src m' k : CS m -> mg_add_placeholder_bond m src = Ok (m', k) -> CS m'.
Proof.
  intros [L A S]. unfold mg_add_placeholder_bond. destruct (lget (m_adj m) src) as [out|] eqn:El; cbn [bind]; [|discriminate]. apply lget_In in El.
  intro E; inversion E; subst. constructor; cbn [set_adj m_adj m_counts2]; rewrite ?upd_length; auto.
  intros i c Hn. unfold tot. cbn [set_adj m_adj]. rewrite (sumrows_upd i _ _ 0 _ _ El). cbn [plus]. rewrite rowsum_app. cbn [rowsum w].
  rewrite (S i c Hn). unfold tot. lia.
Qed.

Lemma sumrows_fresh n : forall adj j0, (forall s row e, nth_error adj s = Some row -> In (Some e) row -> (e_dst e < n)%nat) -> (j0 + length adj <= n)%nat -> sumrows n j0 adj = 0.
Proof.
  induction adj as [|row r IH]; intros j0 H L; cbn [sumrows]; [reflexivity|]. cbn [length] in L.
  rewrite IH; [|intros s row0 e Hn Hin; exact (H (S s) row0 e Hn Hin)|lia].
  assert (X : forall l, (forall e, In (Some e) l -> (e_dst e < n)%nat) -> rowsum n j0 l = 0).
  { induction l as [|oe l IHl]; intro Hl; cbn [rowsum]; [reflexivity|]. rewrite IHl by (intros; apply Hl; now right).
    destruct oe as [e|]; cbn [w]; [|reflexivity]. pose proof (Hl e (or_introl eq_refl)) as Hd.
    destruct (Nat.eqb_spec j0 n); [lia|]. destruct (Nat.eqb_spec (e_dst e) n); [lia|]. destruct (negb _); reflexivity. }
  rewrite X; [reflexivity|]. intros e Hin. exact (H 0%nat row e eq_refl Hin).
Qed.

Lemma add_atom_cs m a root : CS m -> EdgeP (inb (mg_len m)) m -> CS (fst (mg_add_atom m a root)).
Proof.
  intros [L A S] He. unfold mg_add_atom. cbn [fst]. constructor; cbn [m_counts2 m_adj]; unfold mg_len; cbn [m_atoms]; rewrite ?app_length; cbn [length]; [lia|unfold mg_len in A; lia|].
  intros i c Hn. unfold tot. cbn [m_adj]. rewrite sumrows_app. cbn [sumrows rowsum]. fold (tot m i).
  destruct (Nat.lt_ge_cases i (length (m_counts2 m))) as [Lt|Ge].
  - rewrite nth_error_app1 in Hn by exact Lt. rewrite (S i c Hn). lia.
  - rewrite nth_error_app2 in Hn by exact Ge. destruct (i - length (m_counts2 m))%nat as [|k] eqn:Ek; cbn in Hn; [|destruct k; discriminate].
    inversion Hn; subst c. assert (Ei : i = mg_len m) by lia. subst i. unfold tot.
    rewrite (sumrows_fresh (mg_len m) (m_adj m) 0); [lia| |lia]. intros s row e Hs Hin. exact (proj1 (He s row e Hs Hin)).
Qed.

Lemma attach_cs m tok a prev i m' idx i' : CS m -> EdgeP (inb (mg_len m)) m -> attach_atom m tok a prev i = Ok (m', idx, i') -> CS m'.
Proof.
  intros Hc He. unfold attach_atom. pose proof (add_atom_cs m a (match prev with None => true | Some _ => false end) Hc He) as C1.
  destruct (mg_add_atom m a _) as [m1 ix]. cbn [fst] in C1.
  destruct (mg_add_attr_atom m1 ix _) as [m2|] eqn:E2; cbn [bind]; [|discriminate].
  assert (C2 : CS m2).
  { pose proof (add_attr_adj _ _ _ _ E2) as A2. pose proof (add_attr_atoms _ _ _ _ E2) as T2.
    apply (cs_same m1); [exact A2| |unfold mg_len, atoms_of in *; apply (f_equal (@length atom)) in T2; rewrite !map_length in T2; exact T2|exact C1].
    unfold mg_add_attr_atom in E2. destruct (m_attributable m1); [destruct (lupd _ _ _); cbn [bind] in E2; [inversion E2; reflexivity|discriminate]|inversion E2; reflexivity]. }
  destruct prev as [src|]; [|intro E; inversion E; subst; exact C2].
  destruct (smiles_to_bond2 (t_bond tok)) as [o2 st].
  destruct (mg_get_atom m2 src); cbn [bind]; [|discriminate].
  destruct (mg_add_bond m2 _ _ _ _ _) as [m3|] eqn:E3; cbn [bind]; [|discriminate].
  intro E; inversion E; subst. exact (add_bond_cs _ _ _ _ _ _ _ C2 E3).
Qed.

Lemma step_cs tok st st1 r1 : PInv st -> CS (p_mol st) -> derive_loop [tok] st = Ok (st1, r1) -> CS (p_mol st1).
Proof.
  intros [He Hr Hp Hl] Hd E. cbn [derive_loop] in E.
  destruct (p_prev st) as [|prev below]; [discriminate|].
  destruct (t_type tok).
  - destruct (smiles_to_atom (t_text tok)) as [[a|]|]; cbn [bind] in E; try discriminate.
    destruct (attach_atom _ _ _ _ _) as [[[m' idx] i']|] eqn:Eat; cbn [bind] in E; [|discriminate]. inversion E; subst. cbn [p_mol].
    exact (attach_cs _ _ _ _ _ _ _ _ Hd He Eat).
  - destruct (p_chain_start st); [discriminate|].
    destruct (str_eqb _ _); [inversion E; subst; exact Hd|]. destruct (p_branch st); [discriminate|]. inversion E; subst; exact Hd.
  - destruct (p_chain_start st); [discriminate|].
    destruct (ring_log_find _ _) as [[[ltok latom] lpos]|].
    + destruct (atom_index prev) as [ratom|]; cbn [bind] in E; [|discriminate].
      destruct (make_ring_bonds _ _ _ _ _ _) as [m'|] eqn:Er; cbn [bind] in E; [|discriminate]. inversion E; subst. cbn [p_mol].
      exact (make_ring_cs _ _ _ _ _ _ _ Hd Er).
    + destruct (atom_index prev) as [src|]; cbn [bind] in E; [|discriminate].
      destruct (mg_add_placeholder_bond _ _) as [[m' lpos]|] eqn:Epl; cbn [bind] in E; [|discriminate]. inversion E; subst. cbn [p_mol].
      exact (placeholder_cs _ _ _ _ Hd Epl).
  - inversion E; subst. exact Hd.
Qed.

Lemma derive_loop_cs : forall ts st st' rest, PInv st -> CS (p_mol st) -> derive_loop ts st = Ok (st', rest) -> CS (p_mol st').
Proof.
  induction ts as [|tok r IH]; intros st st' rest HP Hd E; [cbn in E; inversion E; subst; exact Hd|].
  destruct (t_type tok) eqn:Ety.
  1-3: rewrite derive_loop_cons in E by congruence;
       destruct (derive_loop [tok] st) as [[st1 r1]|] eqn:E1; cbn [bind fst] in E; [|discriminate];
       apply (IH st1 st' rest); [exact (derive_loop_pinv _ _ _ _ HP E1)|exact (step_cs _ _ _ _ HP Hd E1)|exact E].
  cbn [derive_loop] in E. destruct (p_prev st); [discriminate|]. rewrite Ety in E. inversion E; subst. exact Hd.
Qed.

Lemma fragments_cs : forall fuel m ts i m', GI m -> CS m -> fragments_loop fuel m ts i = Ok m' -> CS m'.
Proof.
  induction fuel as [|f IH]; intros m ts i m' [He Hr] Hd E; [discriminate|]. cbn [fragments_loop] in E.
  destruct ts as [|t r]; [inversion E; subst; exact Hd|].
  destruct (derive_mol_from_tokens m (t :: r) i) as [[[m1 i1] rest]|] eqn:Ed; cbn [bind] in E; [|discriminate].
  unfold derive_mol_from_tokens in Ed.
  destruct (derive_loop (t :: r) _) as [[st rest']|] eqn:El; cbn [bind] in Ed; [|discriminate].
  assert (HP : PInv {| p_mol := m; p_i := i; p_tok := None; p_prev := [None]; p_branch := []; p_rings := []; p_chain_start := true |}).
  { constructor; cbn [p_mol p_prev p_rings]; [exact He|exact Hr|constructor; [exact I|constructor]|constructor]. }
  pose proof (derive_loop_cs _ _ _ _ HP Hd El) as D1. pose proof (derive_loop_pinv _ _ _ _ HP El) as [A B _ _].
  destruct (_ =? _)%nat; [discriminate|]. destruct (p_branch st); [|discriminate]. destruct (p_rings st); [|discriminate].
  inversion Ed; subst. exact (IH _ _ _ _ (conj A B) D1 E).
Qed.

Theorem parsed_cs smiles attributable m : smiles_to_mol smiles attributable = Ok m -> CS m.
Proof.
  unfold smiles_to_mol. destruct smiles as [|c s]; [discriminate|].
  destruct (tokenize_smiles (c :: s)) as [ts|]; cbn [bind]; [|discriminate].
  apply fragments_cs.
  - split; [intros j row e Hn; destruct j; discriminate|constructor].
  - constructor; [reflexivity|reflexivity|]. intros i0 c0 Hn. destruct i0; discriminate.
Qed.

(* ---------- update_bond_order keeps counts and sums together ---------- *)
Definition NoSelf (m : emol) : Prop := forall j d r, edge_in m j d r -> d <> j.
Definition urow (l : list (option ebond)) : Prop := forall p q e1 e2, nth_error l p = Some (Some e1) -> nth_error l q = Some (Some e2) -> e_dst e1 = e_dst e2 -> p = q.

Lemma set_edge_none : forall l d o, (forall e, In (Some e) l -> e_dst e <> d) -> set_edge_order2 l d o = l.
Proof.
  unfold set_edge_order2. induction l as [|[x|] r IH]; intros d o H; cbn [map]; [reflexivity| |].
  - destruct (Nat.eqb_spec (e_dst x) d) as [Hd|Hd]; [exfalso; exact (H x (or_introl eq_refl) Hd)|]. f_equal. apply IH. intros e Hin. apply H. now right.
  - f_equal. apply IH. intros e Hin. apply H. now right.
Qed.

Lemma urow_tail x l : urow (x :: l) -> urow l.
Proof. intros H p q e1 e2 H1 H2 Hd. specialize (H (S p) (S q) e1 e2 H1 H2 Hd). congruence. Qed.

Lemma rowsum_set_edge i j : forall l d o e, urow l -> In (Some e) l -> e_dst e = d ->
  rowsum i j (set_edge_order2 l d o) = rowsum i j l - w i j (Some e) + w i j (Some (with_order2 e o)).
Proof.
  induction l as [|x r IH]; intros d o e Hu Hin Hd; [destruct Hin|].
  destruct x as [x|].
  - destruct (Nat.eqb_spec (e_dst x) d) as [Hx|Hx].
    + assert (x = e).
      { destruct Hin as [Hin|Hin]; [congruence|]. destruct (In_pos _ _ Hin) as [q Hq]. specialize (Hu 0%nat (S q) x e eq_refl Hq ltac:(congruence)). discriminate. }
      subst x. unfold set_edge_order2. cbn [map]. destruct (Nat.eqb_spec (e_dst e) d); [|contradiction]. cbn [rowsum].
      fold (set_edge_order2 r d o). rewrite set_edge_none; [lia|].
      intros e2 Hin2 Hd2. destruct (In_pos _ _ Hin2) as [q Hq]. specialize (Hu 0%nat (S q) e e2 eq_refl Hq ltac:(congruence)). discriminate.
    + destruct Hin as [Hin|Hin]; [congruence|]. unfold set_edge_order2. cbn [map]. destruct (Nat.eqb_spec (e_dst x) d); [contradiction|]. cbn [rowsum].
      fold (set_edge_order2 r d o). rewrite (IH d o e (urow_tail _ _ Hu) Hin Hd). lia.
  - destruct Hin as [Hin|Hin]; [discriminate|]. unfold set_edge_order2. cbn [map rowsum]. fold (set_edge_order2 r d o). rewrite (IH d o e (urow_tail _ _ Hu) Hin Hd). lia.
Qed.

Lemma update_comm m a b o : mg_update_bond_order m a b o = mg_update_bond_order m b a o.
Proof. unfold mg_update_bond_order. now rewrite (Nat.min_comm a b), (Nat.max_comm a b). Qed.

Lemma update_cs m a0 b0 o m' : Q4 m -> NoSelf m -> CS m -> mg_update_bond_order m a0 b0 o = Ok m' -> CS m'.
Proof.
  intros (Hrow & Hrs & Hu & Hq) Hns Hc. unfold mg_update_bond_order. destruct (negb _); [discriminate|].
  set (a := Nat.min a0 b0). set (b := Nat.max a0 b0).
  destruct (mg_get_dirbond m a b) as [ab|] eqn:Eab; cbn [bind]; [|discriminate].
  destruct (_ =? _)%Z; [intro E; inversion E; subst; exact Hc|].
  unfold mg_get_dirbond, mg_find_dirbond in Eab. destruct (nth_error (m_adj m) a) as [rowa|] eqn:Era; [|discriminate].
  destruct (find_edge rowa b) as [x|] eqn:Efa; inversion Eab; subst x. clear Eab.
  pose proof (find_edge_In _ _ _ Efa) as Ina. pose proof (find_edge_dst _ _ _ Efa) as Da.
  assert (Hab : b <> a) by (apply (Hns a b (e_ring ab)); exists rowa, ab; auto).
  assert (Ua : urow rowa) by (intros p q e1 e2 H1 H2 Hd; exact (Hu a rowa p q e1 e2 Era H1 H2 Hd)).
  set (delta := o - e_order2 ab).
  match goal with |- (do adj1 <- ?X; _) = _ -> _ => destruct X as [adj1|] eqn:Ead end; cbn [bind]; [|discriminate].
  assert (T1 : length adj1 = length (m_adj m) /\ forall i, sumrows i 0 adj1 = tot m i + ind (Nat.eqb a i) delta + ind (Nat.eqb b i) delta).
  { destruct (e_ring ab) eqn:Ering.
    - unfold mg_get_dirbond, mg_find_dirbond in Ead. destruct (nth_error (m_adj m) b) as [rowb|] eqn:Erb; [|discriminate].
      destruct (find_edge rowb a) as [ba|] eqn:Efb; [|discriminate]. cbn [bind] in Ead. inversion Ead; subst adj1. clear Ead.
      pose proof (find_edge_In _ _ _ Efb) as Inb. pose proof (find_edge_dst _ _ _ Efb) as Db.
      assert (Ub : urow rowb) by (intros p q e1 e2 H1 H2 Hd; exact (Hu b rowb p q e1 e2 Erb H1 H2 Hd)).
      assert (Eo : e_order2 ba = e_order2 ab) by (symmetry; exact (Hq a b rowa rowb ab ba Era Ina Da Erb Inb Db)).
      assert (Rb : e_ring ba = true).
      { destruct (Hrs a b) as (r2 & e2 & Hn2 & Hi2 & Hd2 & Hr2); [exists rowa, ab; auto|]. rewrite Erb in Hn2. inversion Hn2; subst r2.
        destruct (In_pos _ _ Inb) as [p Hp]. destruct (In_pos _ _ Hi2) as [q Hq2]. assert (p = q) by (apply (Ub p q ba e2 Hp Hq2); congruence). subst q. congruence. }
      split; [now rewrite !upd_length|]. intro i.
      assert (Nb : nth_error (upd (m_adj m) a (fun l => set_edge_order2 l b o)) b = Some rowb) by (rewrite nth_error_upd_other by congruence; exact Erb).
      rewrite (sumrows_upd i _ _ 0 _ _ Nb), (sumrows_upd i _ _ 0 _ _ Era). cbn [plus].
      rewrite (rowsum_set_edge i a rowa b o ab Ua Ina Da), (rowsum_set_edge i b rowb a o ba Ub Inb Db).
      cbn [w with_order2 e_order2 e_ring e_dst]. rewrite Ering, Rb, Eo. cbn [negb andb]. unfold tot, ind, delta. destruct (Nat.eqb a i), (Nat.eqb b i); lia.
    - inversion Ead; subst adj1. clear Ead. split; [now rewrite upd_length|]. intro i.
      rewrite (sumrows_upd i _ _ 0 _ _ Era). cbn [plus]. rewrite (rowsum_set_edge i a rowa b o ab Ua Ina Da).
      cbn [w with_order2 e_order2 e_ring e_dst]. rewrite Ering, Da. cbn [negb andb]. unfold tot, ind, delta. destruct (Nat.eqb a i), (Nat.eqb b i); lia. }
  destruct T1 as [L1 T1].
  destruct (mg_add_count2 (set_adj m adj1) a delta) as [m2|] eqn:E2; cbn [bind]; [|discriminate]. intro E3.
  apply (cs_two m (set_adj m adj1) m2 m' a b delta Hc eq_refl); [exact L1|reflexivity|reflexivity|exact T1|exact E2|exact E3].
Qed.

(* ---------- through kekulize ---------- *)
Definition inc (node : nat) (rem : list nat) : nat -> nat -> Prop := fun j d => (j = node -> In d rem) /\ (d = node -> In j rem).

Record J (D : dsub) (m : emol) : Prop := {
  j_q4 : Q4 m;
  j_ns : NoSelf m;
  j_cs : CS m;
  j_or : OR m;
  j_p3 : P3 m (linked D)
}.

Lemma p3_conj m (p q : nat -> nat -> Prop) : P3 m p -> P3 m q -> P3 m (fun j d => p j d /\ q j d).
Proof. intros Hp Hq j row e Hn Hin Ho. split; [exact (Hp j row e Hn Hin Ho)|exact (Hq j row e Hn Hin Ho)]. Qed.

Lemma noself_grows m m' : grows m m' [] -> NoSelf m -> NoSelf m'.
Proof. intros G H j d r He. apply G in He as [He|[]]. exact (H j d r He). Qed.

Lemma update_j D m a b o m' : J D m -> (o = 2 \/ o = 4) -> mg_update_bond_order m a b o = Ok m' -> J D m'.
Proof.
  intros [Hq Hn Hc Ho Hp] Hoo E. destruct (update_pend m a b o m' (linked D) Hq Hoo Hp Ho E) as (P1 & O1 & _).
  constructor; [exact (update_order_q4 _ _ _ _ _ Hq E)|exact (noself_grows _ _ (update_order_grows _ _ _ _ _ E) Hn)|exact (update_cs _ _ _ _ _ Hq Hn Hc E)|exact O1|exact P1].
Qed.

Lemma single_bonds_j D : forall adjs m node m', J D m -> P3 m (inc node adjs) -> set_single_bonds m node adjs = Ok m' -> J D m' /\ P3 m' (inc node []).
Proof.
  induction adjs as [|x r IH]; intros m node m' Hj Hi E; cbn [set_single_bonds] in E; [inversion E; subst; auto|].
  destruct (mg_update_bond_order m node x 2) as [m1|] eqn:E1; cbn [bind] in E; [|discriminate].
  pose proof (update_j D m node x 2 m1 Hj (or_introl eq_refl) E1) as J1.
  destruct (update_pend m node x 2 m1 (inc node (x :: r)) (j_q4 _ _ Hj) (or_introl eq_refl) Hi (j_or _ _ Hj) E1) as (_ & _ & A). specialize (A eq_refl).
  assert (E1' : mg_update_bond_order m x node 2 = Ok m1) by (rewrite update_comm; exact E1).
  destruct (update_pend m x node 2 m1 (inc node (x :: r)) (j_q4 _ _ Hj) (or_introl eq_refl) Hi (j_or _ _ Hj) E1') as (_ & _ & B). specialize (B eq_refl).
  apply (IH m1 node m' J1); [|exact E].
  eapply p3_weaken; [|exact (p3_conj _ _ _ A B)]. cbv beta. intros j d H. destruct H as [[[H1 H2] N1] [_ N2]]. split.
  - intro Hjn. destruct (H1 Hjn) as [<-|Hin]; [exfalso; apply N1; auto|exact Hin].
  - intro Hdn. destruct (H2 Hdn) as [<-|Hin]; [exfalso; apply N2; auto|exact Hin].
Qed.

Lemma tot_even m node : OR m -> P3 m (inc node []) -> Z.even (tot m node) = true.
Proof.
  intros Ho Hp. unfold tot.
  assert (X : forall adj j0, (forall s row e, nth_error adj s = Some row -> In (Some e) row -> okord (e_order2 e) /\ (e_order2 e = 3 -> (j0 + s)%nat <> node /\ e_dst e <> node)) ->
              Z.even (sumrows node j0 adj) = true).
  { induction adj as [|row r IH]; intros j0 H; cbn [sumrows]; [reflexivity|]. rewrite Z.even_add.
    rewrite (IH (S j0)); [|intros s row0 e Hn Hin; replace (S j0 + s)%nat with (j0 + S s)%nat by lia; exact (H (S s) row0 e Hn Hin)].
    assert (Y : forall l, (forall e, In (Some e) l -> okord (e_order2 e) /\ (e_order2 e = 3 -> j0 <> node /\ e_dst e <> node)) -> Z.even (rowsum node j0 l) = true).
    { induction l as [|oe l IHl]; intro Hl; cbn [rowsum]; [reflexivity|]. rewrite Z.even_add, IHl by (intros; apply Hl; now right).
      destruct oe as [e|]; [|reflexivity]. destruct (Hl e (or_introl eq_refl)) as [Ok3 N3]. cbn [w].
      destruct Ok3 as [E|[E|[E|E]]]; rewrite E in *.
      1,3,4: destruct (Nat.eqb j0 node), (negb (e_ring e) && Nat.eqb (e_dst e) node); reflexivity.
      destruct (N3 eq_refl) as [A B]. destruct (Nat.eqb_spec j0 node); [contradiction|]. destruct (Nat.eqb_spec (e_dst e) node); [contradiction|]. destruct (negb _); reflexivity. }
    rewrite Y; [reflexivity|]. intros e Hin. specialize (H 0%nat row e eq_refl Hin). rewrite Nat.add_0_r in H. exact H. }
  apply X. intros s row e Hn Hin. split; [exact (Ho s row e Hn Hin)|]. intro E3. destruct (Hp s row e Hn Hin E3) as [A B]. cbn [plus].
  split; [intro Hs; exact (A Hs)|intro Hd; exact (B Hd)].
Qed.

Lemma int_even c : Z.even c = true -> 2 * int_of_half c = c.
Proof. intro H. apply Z.even_spec in H as [k ->]. unfold int_of_half. replace (2 * k) with (k * 2) by lia. rewrite Z.quot_mul by lia. lia. Qed.

Lemma dearomatize_j D : forall L m m', J D m -> (forall node adjs, In (node, adjs) L -> ds_lookup D node = Some adjs) -> dearomatize m L = Ok m' -> J D m'.
Proof.
  induction L as [|[node adjs] r IH]; intros m m' Hj Hl E; cbn [dearomatize] in E; [inversion E; subst; exact Hj|].
  destruct (set_single_bonds m node adjs) as [m1|] eqn:E1; cbn [bind] in E; [|discriminate].
  destruct (lupd (m_atoms m1) _ _) as [atoms'|] eqn:Ea; cbn [bind] in E; [|discriminate].
  destruct (lupd (m_counts2 m1) _ _) as [counts'|] eqn:Ec; cbn [bind] in E; [|discriminate].
  apply lupd_eq in Ea, Ec. subst atoms' counts'.
  pose proof (Hl node adjs (or_introl eq_refl)) as Hn.
  destruct (single_bonds_j D adjs m node m1 Hj) as [J1 I1]; [|exact E1|].
  { eapply p3_weaken; [|exact (j_p3 _ _ Hj)]. cbv beta. intros j d H. destruct H as [(l1 & L1 & I1) (l2 & L2 & I2)]. split.
    - intros ->. rewrite Hn in L1. inversion L1; subst. exact I1.
    - intros ->. rewrite Hn in L2. inversion L2; subst. exact I2. }
  apply (IH (set_counts2 (set_atoms m1 (upd (m_atoms m1) node (fun p => (clear_aromatic (fst p), snd p)))) (upd (m_counts2 m1) node (fun c2 => 2 * int_of_half c2))) m'); [|intros n0 a0 Hin; apply Hl; now right|exact E].
  destruct J1 as [Q1 N1 [Lc La Sc] O1 P1].
  constructor; [exact (q4_same m1 _ eq_refl Q1)|intros j d r0 He; exact (N1 j d r0 He)| |exact O1|exact P1].
  constructor; cbn [set_counts2 set_atoms m_counts2 m_adj]; [now rewrite upd_length|unfold mg_len in *; cbn [set_counts2 set_atoms m_atoms]; now rewrite upd_length|].
  intros i c Hi. rewrite nth_upd_gen in Hi. unfold tot. cbn [set_counts2 set_atoms m_adj]. fold (tot m1 i).
  destruct (Nat.eqb_spec node i) as [->|Hne]; [|exact (Sc i c Hi)].
  destruct (nth_error (m_counts2 m1) i) as [c0|] eqn:E0; cbn in Hi; [|discriminate]. inversion Hi; subst c.
  rewrite (Sc i c0 E0). apply int_even. exact (tot_even m1 i O1 I1).
Qed.

Lemma double_bonds_j D : forall prs m l2n m', J D m -> set_double_bonds m l2n prs = Ok m' -> J D m'.
Proof.
  induction prs as [|[i oj] r IH]; intros m l2n m' Hj E; cbn [set_double_bonds] in E; [inversion E; subst; exact Hj|].
  destruct (lget l2n i); cbn [bind] in E; [|discriminate]. destruct oj as [j|]; [|discriminate].
  destruct (lget l2n j); cbn [bind] in E; [|discriminate].
  destruct (mg_update_bond_order m _ _ 4) as [m1|] eqn:E1; cbn [bind] in E; [|discriminate].
  exact (IH _ _ _ (update_j D _ _ _ 4 _ Hj (or_intror eq_refl) E1) E).
Qed.

Theorem kekulize_cs m m' : Q4 m -> NoSelf m -> CS m -> DSI m -> kekulize m = Ok (Some m') -> CS m'.
Proof.
  intros Hq Hn Hc [He _] E. pose proof Hq as (Hrow & _).
  assert (J0 : J (m_ds m) m).
  { constructor; [exact Hq|exact Hn|exact Hc|intros j row e Hj Hin; exact (proj1 (He j row e Hj Hin))|].
    intros j row e Hj Hin H3. destruct (He j row e Hj Hin) as [_ L]. rewrite (proj1 (Hrow _ _ _ Hj Hin)) in L. exact (L H3). }
  unfold kekulize in E. destruct (ds_is_empty _); [inversion E; subst; exact Hc|].
  destruct (any_bad_element _ _) as [bad|]; cbn [bind] in E; [|discriminate]. destruct bad; [discriminate|].
  destruct (kept_nodes_of _ _) as [kept|]; cbn [bind] in E; [|discriminate].
  destruct (pruned_ds_of _ _ _) as [pruned|]; cbn [bind] in E; [|discriminate].
  destruct (find_perfect_matching pruned) as [[mt|]|]; cbn [bind] in E; try discriminate.
  destruct (dearomatize m _) as [m1|] eqn:E1; cbn [bind] in E; [|discriminate].
  destruct (set_double_bonds m1 _ _) as [m2|] eqn:E2; cbn [bind] in E; [|discriminate].
  inversion E; subst. apply (cs_same m2); [reflexivity|reflexivity|reflexivity|].
  apply (j_cs (m_ds m)). apply (double_bonds_j _ _ _ _ _ (dearomatize_j (m_ds m) _ m m1 J0 (fun node adjs Hin => proj1 (items_spec _ _ _ Hin)) E1) E2).
Qed.

(* every stored count, after the reader and after kekulize, is the sum of the orders of the atom's bonds *)
Theorem parsed_kekulized_counts smiles attributable m0 m1 : smiles_to_mol smiles attributable = Ok m0 -> kekulize m0 = Ok (Some m1) ->
  CS m0 /\ CS m1.
Proof.
  intros Ep Ek. pose proof (parsed_cs _ _ _ Ep) as C0. split; [exact C0|].
  destruct (parsed_gue _ _ _ Ep) as (_ & _ & _ & Hrs & Hrow & _ & Hu & Hq). destruct (parsed_gi _ _ _ Ep) as [Hi _].
  apply (kekulize_cs m0 m1 (conj Hrow (conj Hrs (conj Hu Hq)))); [|exact C0|exact (parsed_dsi _ _ _ Ep)|exact Ek].
  intros j d r (row & e & Hn & Hin & Hd & _). subst d. destruct (Hi j row e Hn Hin) as [_ Hne]. rewrite (proj1 (Hrow _ _ _ Hn Hin)) in Hne. congruence.
Qed.

(* ---------- the strict check, in terms of the bonds ---------- *)
Lemma constraint_errors_total T m : (exists v, assoc (lit "?") T = Some v) -> forall atoms idx,
  (idx + length atoms <= length (m_counts2 m))%nat -> Forall (fun p => a_aromatic (fst p) = false) atoms ->
  exists b, bond_constraint_errors (get_bonding_capacity T) m atoms idx = Ok b.
Proof.
  intro Hq. induction atoms as [|[a at_] r IH]; intros idx L Ha; cbn [bond_constraint_errors]; [eauto|].
  inversion Ha as [|? ? Ha1 Har]; subst. cbn [fst] in Ha1. cbn [length] in L.
  unfold bonding_capacity_c. destruct (capacity_ok T (a_element a) (a_charge a) Hq) as [c Ec]. rewrite Ec. cbn [bind].
  unfold mg_get_bond_count2, lget. destruct (nth_error (m_counts2 m) idx) as [c2|] eqn:En; [|apply nth_error_None in En; lia]. cbn [bind].
  destruct (IH (S idx) ltac:(lia) Har) as [b Eb]. destruct (_ <? _); [|eauto].
  unfold atom_to_smiles. rewrite Ha1. rewrite Eb.
  destruct (a_isotope a), (a_chirality a), (a_hcount a), (a_charge a =? 0); cbn [bind]; eauto.
Qed.

Theorem strict_check_iff_bond_sum T smiles attributable m0 m1 : (exists v, assoc (lit "?") T = Some v) ->
  smiles_to_mol smiles attributable = Ok m0 -> kekulize m0 = Ok (Some m1) ->
  (check_bond_constraints (get_bonding_capacity T) m1 = Err EncoderError <->
   exists k a at_ cap, nth_error (m_atoms m1) k = Some (a, at_) /\ bonding_capacity T a = Ok cap /\ 2 * cap < tot m1 k).
Proof.
  intros Hq Ep Ek. destruct (parsed_kekulized_counts _ _ _ _ Ep Ek) as [_ [Lc La Sc]].
  pose proof (kekulize_dearomatizes _ _ (parsed_aro _ _ _ Ep) Ek) as N1.
  assert (Hb : exists b, bond_constraint_errors (get_bonding_capacity T) m1 (m_atoms m1) 0 = Ok b).
  { apply (constraint_errors_total T m1 Hq); [unfold mg_len in La; cbn; lia|exact N1]. }
  rewrite (strict_check_iff_over_capacity _ _ Hb). unfold over_capacity, bonding_capacity. split.
  - intros (k & a & at_ & Hk & cap & c2 & Ec & Eg & Hlt). exists k, a, at_, cap. split; [exact Hk|]. split; [exact Ec|].
    unfold mg_get_bond_count2 in Eg. apply lget_In in Eg. rewrite <- (Sc k c2 Eg). exact Hlt.
  - intros (k & a & at_ & cap & Hk & Ec & Hlt). exists k, a, at_. split; [exact Hk|]. exists cap.
    assert (Lk : (k < length (m_counts2 m1))%nat) by (unfold mg_len in La; rewrite Lc, La; apply nth_error_Some; congruence).
    destruct (nth_error (m_counts2 m1) k) as [c2|] eqn:En; [|apply nth_error_None in En; lia].
    exists c2. split; [exact Ec|]. split; [unfold mg_get_bond_count2, lget; now rewrite En|]. rewrite (Sc k c2 En). exact Hlt.
Qed.
