(* EncAtoms.v — C10: the SELFIES symbol the encoder prints for an atom is read back by the decoder as that
   atom, with the bond order and mark of its prefix. *)
From Coq Require Import Ascii String List Arith ZArith NArith Bool Lia.
Import ListNotations.
From Selfies Require Import Base Generated Lex Atoms Grammar Decoder Reader DocGrammar BaseFacts DecoderInv TokFacts DecFacts AlphaClosure
  WriterAtoms DocAtoms DocConverse.
Local Open Scope Z_scope.

(* every tiling of the right shapes is one the matcher recognises *)
Lemma tiles_of_shapes B Is E C H G :
  (B = [] \/ exists c, B = [c] /\ is_bond_prefix c = true) -> Forall (fun c => is_09 c = true) Is -> elem_shape E = true ->
  chi_ok C -> h_ok H -> chg_ok G -> tiles B Is E C H G.
Proof.
  intros HB HI HE HC HH HG.
  assert (NG : forall p, p 43%N = false -> p 45%N = false -> nf p G) by (intros p A1 A2; rewrite <- (app_nil_r G); apply chg_first; auto; exact I).
  constructor.
  - exact HB.
  - intros _. now apply first_not_prefix.
  - exact HI.
  - exact HE.
  - intros _. apply chi_first; [exact HC|reflexivity|]. apply h_first; [exact HH|reflexivity|]. now apply NG.
  - exact HC.
  - intros _. apply h_first; [exact HH|reflexivity|]. now apply NG.
  - intros _. apply h_first; [exact HH|reflexivity|]. now apply NG.
  - exact HH.
  - intros _. now apply NG.
  - exact HG.
Qed.

Lemma str_of_N_canonical p : canonical (str_of_N (N.pos p)).
Proof.
  destruct (str_of_N_digits (N.pos p)) as (Fd & Hne & _ & _). split; [exact Hne|]. split; [exact Fd|].
  unfold str_of_N. destruct (digits_shape 10 (N.pos p) ltac:(lia)) as (Dne & Dhd & _).
  specialize (Dhd ltac:(lia)). destruct (digits 10 (N.pos p)) as [|d ds]; [contradiction|]. cbn [map hd] in *. lia.
Qed.

Lemma int_of_str_of_N n : within_limit (length (str_of_N n)) -> int_of_decimals (str_of_N n) = Ok n.
Proof.
  intro Hl. destruct (str_of_N_digits n) as (Fd & _ & Hn & _).
  destruct (int_of_decimals_ok (str_of_N n) Fd Hl) as [k Ek]. rewrite Ek. f_equal.
  rewrite (int_of_decimals_number _ _ Fd Ek). exact Hn.
Qed.

Definition IntOK (a : atom) : Prop :=
  (forall n, a_isotope a = Some n -> within_limit (length (str_of_N n))) /\
  within_limit (length (str_of_N (Z.to_N (Z.abs (a_charge a))))).

Lemma atom_eta a e i c h g : a_element a = e -> a_aromatic a = false -> a_isotope a = i -> a_chirality a = c -> a_hcount a = h -> a_charge a = g ->
  {| a_element := e; a_aromatic := false; a_isotope := i; a_chirality := c; a_hcount := h; a_charge := g |} = a.
Proof. destruct a; cbn; intros; subst; reflexivity. Qed.

Lemma bond_list_cases bc : In bc [[]; [61%N]; [35%N]; [47%N]; [92%N]] ->
  bc = [] \/ exists c, bc = [c] /\ is_bond_prefix c = true.
Proof. intros [<-|[<-|[<-|[<-|[<-|[]]]]]]; [now left|right..]; eexists; split; reflexivity. Qed.

Lemma slice_body (B S1 : str) :
  slice (91%N :: B ++ S1 ++ [93%N]) (1 + length B) (length (91%N :: B ++ S1 ++ [93%N]) - 1) = S1.
Proof.
  change (91%N :: B ++ S1 ++ [93%N]) with ((91%N :: B) ++ S1 ++ [93%N]).
  pose proof (slice_mid (91%N :: B) S1 [93%N]) as X. cbn [length] in X.
  replace (length ((91%N :: B) ++ S1 ++ [93%N]) - 1)%nat with (S (length B) + length S1)%nat; [exact X|].
  rewrite !app_length. cbn [length]. lia.
Qed.

Theorem sel_atom_parses bc a t : AtomShape a -> IntOK a -> In bc [[]; [61%N]; [35%N]; [47%N]; [92%N]] ->
  atom_to_smiles a false = Ok t ->
  process_atom_nocache (lit "[" ++ bc ++ t ++ lit "]") =
    Ok (Some (fst (smiles_to_bond2 (hd_error bc)) / 2, snd (smiles_to_bond2 (hd_error bc)), a)).
Proof.
  intros [Har Hsh] [Hio Hco] Hbc Et. unfold atom_to_smiles in Et. rewrite Har in Et.
  destruct Hsh as [(Hi & Hc & Hh & Hg & Hin)|(Hes & Hel & (h & Hh & Hh9) & Hchi)].
  - (* an organic-subset atom printed bare *)
    destruct a as [e ar i c hh g]. cbn [a_element a_aromatic a_isotope a_chirality a_hcount a_charge] in *. subst ar i c hh g.
    cbn in Et. injection Et as <-. cbn in Hin.
    destruct Hbc as [<-|[<-|[<-|[<-|[<-|[]]]]]];
      repeat (destruct Hin as [<-|Hin]; [vm_compute; reflexivity|]); destruct Hin.
  - (* a bracketed atom *)
    rewrite Hh in Et.
    set (s_iso := match a_isotope a with Some n => str_of_N n | None => [] end) in *.
    set (s_chi := match a_chirality a with Some c => c | None => [] end) in *.
    set (s_h := match h with
                | 0%N => match a_isotope a, a_chirality a, (a_charge a =? 0) with
                         | None, None, true => if mem_str (a_element a) organic_subset then lit "H0" else []
                         | _, _, _ => [] end
                | _ => ch "H" :: str_of_N h end) in *.
    set (s_ch := if a_charge a =? 0 then [] else str_of_Z_signed (a_charge a)) in *.
    assert (Et' : t = s_iso ++ a_element a ++ s_chi ++ s_h ++ s_ch).
    { destruct (a_isotope a); destruct (a_chirality a); destruct (a_charge a =? 0); cbn [app] in Et; rewrite ?app_nil_r in Et; injection Et as <-; unfold s_iso, s_chi, s_h, s_ch; cbn [app]; rewrite ?app_nil_r; reflexivity. }
    clear Et. subst t.
    (* the shapes of the printed pieces *)
    assert (HI : Forall (fun c => is_09 c = true) s_iso).
    { unfold s_iso. destruct (a_isotope a) as [n|]; [|constructor]. destruct (str_of_N_digits n) as (F & _). exact F. }
    assert (HC : chi_ok s_chi).
    { unfold s_chi, chi_ok. destruct (a_chirality a) as [c|]; [destruct Hchi as [-> | ->]; auto|auto]. }
    assert (HH : h_ok s_h /\ match s_h with [_; d] => dval d | _ => 0%N end = h).
    { unfold s_h. destruct h as [|p].
      - destruct (a_isotope a); destruct (a_chirality a); destruct (a_charge a =? 0); try (split; [now left|reflexivity]).
        destruct (mem_str (a_element a) organic_subset); (split; [|reflexivity]); [right; exists 48%N; split; reflexivity|now left].
      - rewrite (str_of_N_small (N.pos p) ltac:(lia)). split; [right; exists (48 + N.pos p)%N; split; [reflexivity|]|].
        + unfold is_09. apply andb_true_iff. split; apply N.leb_le; lia.
        + unfold dval. cbn [ch]. lia. }
    destruct HH as [HH Hhv].
    assert (HG : chg_ok s_ch /\ match s_ch with [] => 0 | sg :: ds => Z.of_N (number ds) * sign_of sg end = a_charge a /\
                 match s_ch with [] => True | _ :: ds => within_limit (length ds) end).
    { unfold s_ch. destruct (Z.eqb_spec (a_charge a) 0) as [E0|N0]; [split; [now left|split; [now symmetry|exact I]]|].
      destruct (a_charge a) as [|p|p] eqn:Ec; [congruence| |]; cbn [str_of_Z_signed ch Z.abs Z.to_N] in *.
      - destruct (canonical_cons _ (str_of_N_canonical p)) as (d1 & ds & Ed & H1 & Hds). destruct (str_of_N_digits (N.pos p)) as (_ & _ & Hn & _).
        split; [right; exists 43%N, d1, ds; rewrite Ed; repeat split; auto|]. split; [rewrite Hn; cbn; lia|exact Hco].
      - destruct (canonical_cons _ (str_of_N_canonical p)) as (d1 & ds & Ed & H1 & Hds). destruct (str_of_N_digits (N.pos p)) as (_ & _ & Hn & _).
        split; [right; exists 45%N, d1, ds; rewrite Ed; repeat split; auto|]. split; [rewrite Hn; cbn; lia|exact Hco]. }
    destruct HG as (HG & Hgv & Hgl).
    pose proof (tiles_of_shapes bc s_iso (a_element a) s_chi s_h s_ch (bond_list_cases bc Hbc) HI Hes HC HH HG) as Ht.
    pose proof (match_on_tiles _ _ _ _ _ _ Ht) as Em.
    assert (Esym : lit "[" ++ bc ++ (s_iso ++ a_element a ++ s_chi ++ s_h ++ s_ch) ++ lit "]" = 91%N :: bc ++ s_iso ++ a_element a ++ s_chi ++ s_h ++ s_ch ++ [93%N]).
    { cbn [lit app]. now rewrite <- !app_assoc. }
    rewrite Esym. unfold process_atom_nocache. rewrite Em. cbn [f_bond f_iso f_elem f_chi f_h f_charge].
    destruct (smiles_to_bond2 (hd_error bc)) as [o2 st2]. cbn [fst snd].
    assert (Hlen : length bc = match hd_error bc with Some _ => 1%nat | None => 0%nat end).
    { destruct Hbc as [<-|[<-|[<-|[<-|[<-|[]]]]]]; reflexivity. }
    rewrite <- Hlen.
    replace (s_iso ++ a_element a ++ s_chi ++ s_h ++ s_ch ++ [93%N]) with ((s_iso ++ a_element a ++ s_chi ++ s_h ++ s_ch) ++ [93%N]) by (now rewrite <- !app_assoc).
    rewrite slice_body.
    (* not an organic-subset body *)
    assert (Horg : mem_str (s_iso ++ a_element a ++ s_chi ++ s_h ++ s_ch) organic_subset = false).
    { destruct (mem_str (s_iso ++ a_element a ++ s_chi ++ s_h ++ s_ch) organic_subset) eqn:Eo; [|reflexivity]. exfalso. apply mem_str_In in Eo.
      assert (HHw : s_h = [] \/ exists d, s_h = [72%N; d] /\ is_09 d = true) by exact HH.
      pose proof (body_is_elem _ _ _ _ _ Eo HI Hes HC HHw HG) as Eb.
      assert (L : length (s_iso ++ a_element a ++ s_chi ++ s_h ++ s_ch) = length (a_element a)) by now rewrite Eb.
      rewrite !app_length in L.
      assert (Z1 : s_iso = []) by (destruct s_iso; [reflexivity|cbn in L; lia]).
      assert (Z2 : s_chi = []) by (destruct s_chi; [reflexivity|cbn in L; lia]).
      assert (Z3 : s_h = []) by (destruct s_h; [reflexivity|cbn in L; lia]).
      assert (Z4 : s_ch = []) by (destruct s_ch; [reflexivity|cbn in L; lia]).
      rewrite Z1, Z2, Z3, Z4, !app_nil_r in Eo.
      (* then the printer would have written H0 *)
      unfold s_iso in Z1. unfold s_chi in Z2. unfold s_ch in Z4. unfold s_h in Z3.
      destruct (a_isotope a) as [n|]; [destruct (str_of_N_digits n) as (_ & X & _); congruence|].
      destruct (a_chirality a) as [c|]; [destruct Hchi as [-> | ->]; discriminate|].
      destruct (a_charge a =? 0) eqn:Ec0; [|destruct (a_charge a); discriminate].
      destruct h as [|p]; [|discriminate]. cbn [app] in Eo. apply mem_str_In in Eo. rewrite Eo in Z3. discriminate. }
    rewrite Horg.
    (* the fields *)
    assert (Eiso : match s_iso with [] => Ok None | d :: ds => do n <- int_of_decimals (d :: ds); Ok (Some n) end = Ok (a_isotope a)).
    { unfold s_iso. destruct (a_isotope a) as [n|] eqn:Ei; [|reflexivity].
      destruct (str_of_N_digits n) as (_ & Hne & _). destruct (str_of_N n) as [|d ds] eqn:Es; [congruence|]. rewrite <- Es.
      rewrite (int_of_str_of_N n (Hio n eq_refl)). reflexivity. }
    rewrite Eiso. cbn [bind]. apply mem_str_In in Hel. rewrite Hel. cbn [negb].
    assert (Ehh : match s_h with [] => Ok 0%N | _ :: ds => int_of_decimals ds end = Ok h).
    { destruct HH as [Z|(d & Z & Hd)]; rewrite Z in *; [now rewrite <- Hhv|].
      destruct (int_digit d Hd) as [Ek _]. rewrite Ek. f_equal. rewrite <- Hhv. unfold dval. reflexivity. }
    rewrite Ehh. cbn [bind].
    assert (Ecc : match s_ch with [] => Ok 0 | sg :: ds => do n <- int_of_decimals ds; Ok (Z.of_N n * sign_of sg) end = Ok (a_charge a)).
    { destruct HG as [Z|(sg & d1 & ds & Z & Hsg & H1 & Hds)]; rewrite Z in *; [now rewrite <- Hgv|].
      assert (F1 : Forall (fun c => is_09 c = true) (d1 :: ds)).
      { constructor; [|exact Hds]. unfold is_19 in H1. unfold is_09. apply andb_true_iff in H1 as [A B]. apply N.leb_le in A, B. apply andb_true_iff. split; apply N.leb_le; lia. }
      destruct (int_of_decimals_ok (d1 :: ds) F1 Hgl) as [k Ek]. rewrite Ek. cbn [bind]. rewrite (int_of_decimals_number _ _ F1 Ek). now rewrite Hgv. }
    rewrite Ecc. cbn [bind]. f_equal. f_equal. f_equal.
    apply atom_eta; auto. unfold s_chi. destruct (a_chirality a) as [c|]; [|reflexivity]. destruct Hchi as [-> | ->]; reflexivity.
Qed.
