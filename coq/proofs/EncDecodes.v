(* EncDecodes.v — C10: the string the encoder returns is decodable: it tokenises back into the symbols the encoder
   emitted, each of them a symbol the derivation accepts, so decoder() returns. *)
From Coq Require Import Ascii String List Arith ZArith NArith Bool Lia.
Import ListNotations.
From Selfies Require Import Base Generated Lex Atoms Grammar Decoder Smiles PySet Matching Kekulize Encoder Reader
  BaseFacts WfSpec LexFacts NopFacts DecoderInv TokFacts DeriveOk AlphaClosure WriterAtoms ParserTotal
  EncHyp EncShape EncTokens EncAtoms EncGood.
Local Open Scope Z_scope.

(* ---------- token texts are pieces of the input ---------- *)
Lemma tokenize_loop_texts : forall fuel s i ts, tokenize_loop fuel s i = Ok ts ->
  Forall (fun tok => (length (t_text tok) <= length s)%nat) ts.
Proof.
  induction fuel as [|f IH]; intros s i ts E; [discriminate|]. cbn [tokenize_loop] in E.
  destruct s as [|c r]; [inversion E; constructor|].
  assert (Hmono : forall (s' : str) l, (length s' <= length (c :: r))%nat ->
            Forall (fun tok => (length (t_text tok) <= length s')%nat) l -> Forall (fun tok => (length (t_text tok) <= length (c :: r))%nat) l).
  { intros s' l Hl F. eapply Forall_impl; [|exact F]. cbn beta. intros; lia. }
  destruct (N.eqb c c_dot).
  { destruct (tokenize_loop f r (S i)) as [ts'|] eqn:E'; cbn [bind] in E; [|discriminate]. inversion E; subst.
    constructor; [cbn; lia|]. apply (Hmono r); [cbn; lia|exact (IH _ _ _ E')]. }
  assert (Emit : forall bond s1 i1 ty len ts, (length s1 <= length (c :: r))%nat ->
            (do ts <- tokenize_loop f (skipn len s1) (i1 + len);
             Ok ({| t_bond := bond; t_start := i1; t_type := ty; t_text := firstn len s1 |} :: ts)) = Ok ts ->
            Forall (fun tok => (length (t_text tok) <= length (c :: r))%nat) ts).
  { intros bond s1 i1 ty len ts0 Hs1 E0.
    destruct (tokenize_loop f (skipn len s1) (i1 + len)) as [ts'|] eqn:E'; cbn [bind] in E0; [|discriminate]. inversion E0; subst.
    constructor; [cbn [t_text]; rewrite firstn_length; lia|].
    apply (Hmono (skipn len s1)); [rewrite skipn_length; lia|exact (IH _ _ _ E')]. }
  assert (Rest : forall bond s1 i1, (length s1 <= length (c :: r))%nat ->
    (let emit (ty : ttype) (len : nat) : res (list token) :=
         do ts <- tokenize_loop f (skipn len s1) (i1 + len);
         Ok ({| t_bond := bond; t_start := i1; t_type := ty; t_text := firstn len s1 |} :: ts) in
       match s1 with
       | [] => Err SMILESParserError
       | d :: r1 =>
         if isalpha_s d then
           let two := firstn 2 s1 in
           if str_eqb two (lit "Br") || str_eqb two (lit "Cl") then emit TAtom 2%nat else emit TAtom 1%nat
         else if N.eqb d c_lb then
           match find_char c_rb r1 0 with
           | None => Err SMILESParserError
           | Some k => emit TAtom (k + 2)%nat
           end
         else if N.eqb d c_lpar || N.eqb d c_rpar then
           match bond with
           | Some _ => Err SMILESParserError
           | None => emit TBranch 1%nat
           end
         else if isdigit_s d then emit TRing 1%nat
         else if N.eqb d c_pct then
           let rnum := firstn 2 r1 in
           if str_isnumeric rnum && (length rnum =? 2)%nat then emit TRing 3%nat
           else Err SMILESParserError
         else Err SMILESParserError
       end) = Ok ts -> Forall (fun tok => (length (t_text tok) <= length (c :: r))%nat) ts).
  { intros bond s1 i1 Hs1. lazy beta zeta. destruct s1 as [|d r1]; [discriminate|].
    destruct (isalpha_s d).
    { destruct (_ || _); apply Emit; exact Hs1. }
    destruct (N.eqb d c_lb).
    { destruct (find_char c_rb r1 0); [apply Emit; exact Hs1|discriminate]. }
    destruct (_ || _).
    { destruct bond; [discriminate|apply Emit; exact Hs1]. }
    destruct (isdigit_s d); [apply Emit; exact Hs1|].
    destruct (N.eqb d c_pct); [|discriminate].
    destruct (_ && _); [apply Emit; exact Hs1|discriminate]. }
  destruct (is_bond_char c); [apply (Rest (Some c) r (S i)); [cbn; lia|exact E]|apply (Rest None (c :: r) i); [lia|exact E]].
Qed.

Lemma Qlen_le k n : (k <= n)%nat -> Qlen n -> Qlen k.
Proof. intros H [E|E]; [now left|right; lia]. Qed.

(* ---------- ring and branch symbols, whatever their suffix ---------- *)
Lemma digit_chars n : forallb body_char (str_of_N n) = true.
Proof.
  destruct (str_of_N_digits n) as (F & _). apply forallb_forall. intros c Hc. rewrite Forall_forall in F. specialize (F c Hc).
  apply digit_body. exact F.
Qed.

Lemma struct_symbol p (w : str) n : forallb body_char p = true -> forallb body_char w = true ->
  is_symbol (lit "[" ++ p ++ w ++ str_of_nat n ++ lit "]").
Proof.
  intros Hp Hw. exists (p ++ w ++ str_of_nat n)%list. split; [unfold sym_of; cbn [lit app]; now rewrite <- !app_assoc|].
  rewrite !forallb_app, Hp, Hw. unfold str_of_nat. now rewrite digit_chars.
Qed.

Lemma ring_prefix_body p : In p ring_prefixes -> forallb body_char p = true.
Proof. intro H. assert (F : forallb (forallb body_char) ring_prefixes = true) by (vm_compute; reflexivity). rewrite forallb_forall in F. now apply F. Qed.
Lemma branch_in_ring p : In p branch_prefixes -> In p ring_prefixes.
Proof. intros [<-|[<-|[<-|[]]]]; cbn; tauto. Qed.

Lemma struct_not_nop p (w : str) r c : In p ring_prefixes -> (c = 82 \/ c = 66)%N -> (lit "[" ++ p ++ (c :: w) ++ r)%list <> nop_sym.
Proof.
  intros Hp Hc E. unfold nop_sym in E. cbn [lit app] in E. injection E as E.
  assert (H : hd 0%N (p ++ (c :: w) ++ r) = 110%N) by (cbn [app] in E |- *; rewrite E; reflexivity).
  unfold ring_prefixes in Hp. repeat (destruct Hp as [<-|Hp]; [cbn in H; destruct Hc as [-> | ->]; discriminate|]). destruct Hp.
Qed.

(* the suffix of a ring or branch symbol is 1, 2 or 3 *)
Definition suffix_small (t : str) : Prop :=
  forall p n, (t = lit "[" ++ p ++ lit "Ring" ++ str_of_nat n ++ lit "]" \/ t = lit "[" ++ p ++ lit "Branch" ++ str_of_nat n ++ lit "]")%list -> (n <= 3)%nat.

Section Tokens.
Variable T : table.
Hypothesis HT : table_ok T.
Variable m : emol.
Hypothesis Hatoms : Forall (fun a => PShape a /\ cap_ok T a) (atoms_of m).

Lemma atom_of_graph i a at_ : mg_get_atom m i = Ok (a, at_) -> PShape a /\ cap_ok T a.
Proof.
  unfold mg_get_atom. intro E. apply lget_In in E. rewrite Forall_forall in Hatoms. apply Hatoms.
  unfold atoms_of. apply in_map_iff. exists (a, at_). split; [reflexivity|eapply nth_error_In; exact E].
Qed.

Lemma etok_symbol t : etok m t -> is_symbol t.
Proof.
  intros [bc a at_ i t0 Ea Har Hbc Et|t0 Hin|bs Q idx Hb EQ|rs Q idx Hr EQ].
  - destruct (atom_of_graph _ _ _ Ea) as [Hp Hc]. exact (proj2 (atom_token_good T a bc t0 Hp Har Hc Hbc Et)).
  - exact (proj2 (index_token_good T t0 HT Hin)).
  - apply struct_symbol; [apply ring_prefix_body; now apply branch_in_ring|reflexivity].
  - apply struct_symbol; [now apply ring_prefix_body|reflexivity].
Qed.

Lemma etok_good t : etok m t -> (t <> nop_sym -> suffix_small t) -> good_tok T t.
Proof.
  intros [bc a at_ i t0 Ea Har Hbc Et|t0 Hin|bs Q idx Hb EQ|rs Q idx Hr EQ] Hs.
  - destruct (atom_of_graph _ _ _ Ea) as [Hp Hc]. exact (proj1 (atom_token_good T a bc t0 Hp Har Hc Hbc Et)).
  - exact (proj1 (index_token_good T t0 HT Hin)).
  - refine (proj1 (branch_token_good T bs Q idx Hb EQ _)).
    apply (Hs (struct_not_nop bs (lit "ranch") _ 66%N (branch_in_ring _ Hb) (or_intror eq_refl)) bs). now right.
  - refine (proj1 (ring_token_good T rs Q idx Hr EQ _)).
    apply (Hs (struct_not_nop rs (lit "ing") _ 82%N Hr (or_introl eq_refl)) rs). now left.
Qed.
End Tokens.

(* ---------- a concatenation of symbols is the rendering of a dot-free fragment ---------- *)
Lemma symbols_fragment xs : Forall is_symbol xs -> exists fr, wfd fr /\ render fr = concat xs /\ symbols fr = xs.
Proof.
  induction 1 as [|x xs (body & -> & Hb) _ (fr & (Hw & Hd) & Hr & Hs)]; [exists []; repeat split; constructor|].
  exists ((body, false) :: fr). split; [split; constructor; assumption || reflexivity|]. split.
  - change (render ((body, false) :: fr)) with ((sym_of body ++ []) ++ render fr). rewrite Hr, app_nil_r. reflexivity.
  - cbn [symbols map fst]. unfold symbols in Hs. now rewrite Hs.
Qed.

Lemma fragments_exist tss : Forall (Forall is_symbol) tss -> exists frs, Forall wfd frs /\ map render frs = map (@concat N) tss /\ map symbols frs = tss.
Proof.
  induction 1 as [|ts tss Hts _ (frs & Hw & Hr & Hs)]; [exists []; repeat split; constructor|].
  destruct (symbols_fragment ts Hts) as (fr & Hwf & Hrf & Hsf). exists (fr :: frs). split; [constructor; assumption|].
  cbn [map]. now rewrite Hrf, Hsf, Hr, Hs.
Qed.

Lemma tokenize_empty : tokenize_all [] false = [([], None)].
Proof. vm_compute. reflexivity. Qed.

(* ---------- the theorem ---------- *)
Theorem encoder_output_decodes T smiles strict attribute s maps attribute' :
  table_ok T ->
  encoder T smiles strict attribute = Ok (s, maps) ->
  Qlen (length smiles) ->
  (forall m0, smiles_to_mol smiles attribute = Ok m0 -> Forall (cap_ok T) (atoms_of m0)) ->
  Forall suffix_small (flat_map fst (tokenize_all s false)) ->
  exists out, decoder T s false attribute' = Ok out.
Proof.
  intros HT E Hlen Hcap Hsuf. unfold encoder, encoder_c in E.
  destruct (smiles_to_mol smiles attribute) as [m0|e] eqn:Ep; [|destruct e; discriminate].
  specialize (Hcap m0 eq_refl).
  (* the atoms and the edges of the graph the reader built *)
  assert (P0 : Forall (fun a => PShape a /\ cap_ok T a) (atoms_of m0)).
  { assert (A : Forall PShape (atoms_of m0)).
    { apply (parsed_atoms (fun tok => Qlen (length (t_text tok))) PShape (fun tok a Hq Ea => smiles_atom_shape _ a Hq Ea) smiles attribute m0); [|exact Ep].
      intros ts Et. unfold tokenize_smiles in Et. apply tokenize_loop_texts in Et. eapply Forall_impl; [|exact Et].
      cbn beta. intros tok Hl. exact (Qlen_le _ _ Hl Hlen). }
    apply Forall_forall. intros a Ha. rewrite Forall_forall in A, Hcap. split; auto. }
  pose proof (parsed_adj _ _ _ Ep) as A0.
  unfold encode_mol in E.
  destruct (kekulize m0) as [[m1|]|] eqn:Ek; cbn [bind] in E; try discriminate.
  assert (P1 : Forall (fun a => PShape a /\ cap_ok T a) (atoms_of m1)).
  { apply (kekulize_atoms (fun a => PShape a /\ cap_ok T a)) with (m := m0); [|exact P0|exact Ek].
    intros a1 [X Y]. split; [now apply pshape_clear|now apply cap_clear]. }
  pose proof (kekulize_adj _ _ A0 Ek) as A1.
  match type of E with (do _ <- ?X; _) = _ => destruct X; cbn [bind] in E; [|discriminate] end.
  destruct (invert_pass m1 (m_atoms m1) 0) as [atoms'|] eqn:Ei; cbn [bind] in E; [|discriminate].
  set (m2 := set_atoms m1 atoms') in *.
  assert (P2 : Forall (fun a => PShape a /\ cap_ok T a) (atoms_of m2)).
  { unfold atoms_of, m2. cbn [set_atoms m_atoms].
    apply (invert_pass_atoms (fun a => PShape a /\ cap_ok T a)) with (m := m1) (atoms := m_atoms m1) (idx := 0%nat); [|exact P1|exact Ei].
    intros a1 [X Y]. split; [now apply pshape_invert|now apply cap_invert]. }
  assert (A2 : AdjP m2) by exact A1.
  destruct (encode_roots m2 (m_roots m2) 0) as [[frags maps0]|] eqn:Er; cbn [bind] in E; [|discriminate].
  inversion E; subst s maps; clear E.
  destruct (encode_roots_tokens m2 A2 _ _ _ _ Er) as (tss & -> & Htok & _).
  (* every emitted token is a symbol, so the string tokenises back into the emitted tokens *)
  assert (Hsym : Forall (Forall is_symbol) tss).
  { eapply Forall_impl; [|exact Htok]. intros ts Hts. eapply Forall_impl; [|exact Hts]. intros t Ht. exact (etok_symbol T HT m2 P2 t Ht). }
  destruct (fragments_exist tss Hsym) as (frs & Hw & Hr & Hs).
  apply (decoder_ok T (proj1 HT)).
  destruct frs as [|fr0 frs'].
  { destruct tss; [|discriminate]. cbn [map join]. rewrite tokenize_empty. constructor; [split; [reflexivity|constructor]|constructor]. }
  change (join _ (map (@concat N) tss)) with (join [c_dot] (map (@concat N) tss)) in Hsuf |- *.
  assert (Etk : tokenize_all (join [c_dot] (map (@concat N) tss)) false =
                map (fun fr => (filter not_nop (symbols fr), None)) (fr0 :: frs')).
  { rewrite <- Hr. apply (tokenize_all_frags (fr0 :: frs') false); [discriminate|exact Hw]. }
  rewrite Etk in Hsuf |- *.
  apply Forall_forall. intros f Hf. apply in_map_iff in Hf as (fr & <- & Hfr).
  split; [reflexivity|]. cbn [fst].
  assert (Hts : In (symbols fr) tss) by (rewrite <- Hs; now apply in_map).
  rewrite Forall_forall in Htok. specialize (Htok _ Hts).
  apply Forall_forall. intros t Ht. apply filter_In in Ht as [Ht Hnn].
  rewrite Forall_forall in Htok. apply (etok_good T HT m2 P2 t (Htok t Ht)). intros _.
  rewrite Forall_forall in Hsuf. apply Hsuf. apply in_flat_map. exists (filter not_nop (symbols fr), None). split.
  - apply in_map_iff. exists fr. split; [reflexivity|exact Hfr].
  - cbn [fst]. apply filter_In. split; assumption.
Qed.

(* ---------- the hypotheses as computations ---------- *)
Lemma cap_okb_sound T a : cap_okb T a = true -> cap_ok T a.
Proof. unfold cap_okb, cap_ok. destruct (get_bonding_capacity T _ _) as [c|]; [|discriminate]. intro H. exists c. split; [reflexivity|now apply Z.leb_le]. Qed.

Lemma rev_struct p (w : str) n : rev (lit "[" ++ p ++ w ++ str_of_nat n ++ lit "]") = 93%N :: rev (str_of_nat n) ++ rev w ++ rev p ++ [91%N].
Proof. rewrite !rev_app_distr. cbn [lit rev app]. now rewrite <- !app_assoc. Qed.

Lemma small_number n : mem_str (str_of_nat n) [lit "1"; lit "2"; lit "3"] = true -> (n <= 3)%nat.
Proof.
  intro H. apply mem_str_In in H. unfold str_of_nat in H. destruct (str_of_N_digits (N.of_nat n)) as (_ & _ & Hn & _).
  destruct H as [H|[H|[H|[]]]]; rewrite <- H in Hn.
  - change (1%N = N.of_nat n) in Hn. lia.
  - change (2%N = N.of_nat n) in Hn. lia.
  - change (3%N = N.of_nat n) in Hn. lia.
Qed.

Lemma suffix_smallb_sound t : suffix_smallb t = true -> suffix_small t.
Proof.
  intros H p n Ht. unfold suffix_smallb in H.
  assert (Hd : Forall (fun c => is_09 c = true) (rev (str_of_nat n))).
  { apply Forall_forall. intros c Hc. apply in_rev in Hc. unfold str_of_nat in Hc. destruct (str_of_N_digits (N.of_nat n)) as (F & _).
    rewrite Forall_forall in F. exact (F c Hc). }
  destruct Ht as [-> | ->]; rewrite rev_struct in H.
  - change (rev (lit "Ring")) with [103%N; 110%N; 105%N; 82%N] in H. cbn [app] in H.
    rewrite (span_stop is_09 _ 103%N _ Hd eq_refl) in H. cbn [prefix_of N.eqb Pos.eqb andb orb] in H.
    rewrite rev_involutive in H. now apply small_number.
  - change (rev (lit "Branch")) with [104%N; 99%N; 110%N; 97%N; 114%N; 66%N] in H. cbn [app] in H.
    rewrite (span_stop is_09 _ 104%N _ Hd eq_refl) in H.
    change (rev (lit "Ring")) with [103%N; 110%N; 105%N; 82%N] in H. cbn [prefix_of N.eqb Pos.eqb andb orb] in H.
    rewrite rev_involutive in H. now apply small_number.
Qed.

Theorem encoder_output_decodes_checkable T smiles strict attribute s maps attribute' :
  table_okb T = true ->
  encoder T smiles strict attribute = Ok (s, maps) ->
  Qlen (length smiles) ->
  match smiles_to_mol smiles attribute with Ok m0 => forallb (cap_okb T) (atoms_of m0) | Err _ => true end = true ->
  forallb suffix_smallb (flat_map fst (tokenize_all s false)) = true ->
  exists out, decoder T s false attribute' = Ok out.
Proof.
  intros HT E Hl Hc Hs. apply (encoder_output_decodes T smiles strict attribute s maps attribute' (table_okb_sound T HT) E Hl).
  - intros m0 Em. rewrite Em in Hc. rewrite forallb_forall in Hc. apply Forall_forall. intros a Ha. apply cap_okb_sound. now apply Hc.
  - rewrite forallb_forall in Hs. apply Forall_forall. intros t Ht. apply suffix_smallb_sound. now apply Hs.
Qed.
