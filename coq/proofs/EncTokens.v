(* EncTokens.v — C10: the symbols the encoder emits are atom symbols printed from the atoms of the molecule,
   index symbols, branch symbols and ring symbols. *)
From Coq Require Import Ascii String List Arith ZArith NArith Bool Lia.
Import ListNotations.
From Selfies Require Import Base Generated Lex Atoms Grammar Decoder Smiles PySet Matching Kekulize Encoder BaseFacts EncShape.
Local Open Scope Z_scope.

Definition bond5 : list str := [[]; [61%N]; [35%N]; [47%N]; [92%N]].
Definition branch_prefixes : list str := [[]; [61%N]; [35%N]].
Definition ring_prefixes : list str :=
  [[]; [61%N]; [35%N]; [45;47]%N; [45;92]%N; [47;45]%N; [92;45]%N; [47;47]%N; [47;92]%N; [92;47]%N; [92;92]%N].

Inductive etok (m : emol) : str -> Prop :=
| et_atom bc a at_ i t : mg_get_atom m i = Ok (a, at_) -> a_aromatic a = false -> In bc bond5 -> atom_to_smiles a false = Ok t ->
    etok m (lit "[" ++ bc ++ t ++ lit "]")
| et_index t : In t index_alphabet -> etok m t
| et_branch bs Q idx : In bs branch_prefixes -> get_selfies_from_index idx = Ok Q ->
    etok m (lit "[" ++ bs ++ lit "Branch" ++ str_of_nat (length Q) ++ lit "]")
| et_ring rs Q idx : In rs ring_prefixes -> get_selfies_from_index idx = Ok Q ->
    etok m (lit "[" ++ rs ++ lit "Ring" ++ str_of_nat (length Q) ++ lit "]").

Lemma stereo_cases c : is_stereo_char c = true -> c = 47%N \/ c = 92%N.
Proof.
  unfold is_stereo_char. change smiles_stereo_bonds with [47%N; 92%N]. cbn [mem_N]. intro H.
  apply orb_true_iff in H as [H|H]; [left; now apply N.eqb_eq in H|]. apply orb_true_iff in H as [H|H]; [right; now apply N.eqb_eq in H|discriminate].
Qed.

Lemma ebond_cases b bs : ebond_to_smiles b = Ok bs -> In bs bond5 /\ ((e_order2 b =? 2) = false -> In bs branch_prefixes).
Proof.
  unfold ebond_to_smiles. destruct (e_order2 b =? 2).
  - intro E; inversion E; subst. split; [|discriminate]. destruct (e_stereo b) as [c|]; [|now left].
    destruct (is_stereo_char c) eqn:Ec; [|now left]. destruct (stereo_cases c Ec) as [-> | ->]; cbn; tauto.
  - destruct (e_order2 b =? 4); [intro E; inversion E; subst; split; [|intros _]; cbn; tauto|].
    destruct (e_order2 b =? 6); [intro E; inversion E; subst; split; [|intros _]; cbn; tauto|discriminate].
Qed.

Lemma bond_sel_cases b bs : bond_to_selfies b true = Ok bs -> In bs bond5.
Proof. unfold bond_to_selfies. cbn [negb andb]. intro E. now apply ebond_cases in E. Qed.

Lemma bond_sel_false_cases b bs : bond_to_selfies b false = Ok bs -> In bs branch_prefixes.
Proof.
  unfold bond_to_selfies. cbn [negb andb]. destruct (e_order2 b =? 2) eqn:E2; [intro E; inversion E; now left|].
  intro E. apply ebond_cases in E as [_ H]. now apply H.
Qed.

Lemma ring_sel_cases lb rb rs : sok (e_stereo lb) -> sok (e_stereo rb) -> ring_bonds_to_selfies lb rb = Ok rs -> In rs ring_prefixes.
Proof.
  intros Hl Hr. unfold ring_bonds_to_selfies. destruct (negb (e_order2 lb =? e_order2 rb)); [discriminate|].
  assert (Hsub : forall x, In x branch_prefixes -> In x ring_prefixes) by (intros x [<-|[<-|[<-|[]]]]; cbn; tauto).
  destruct (negb (e_order2 lb =? 2)); cbn [orb]; [intro E; apply Hsub; now apply bond_sel_false_cases in E|].
  destruct (e_stereo lb) as [x|], (e_stereo rb) as [y|]; cbn [andb]; cbn [sok] in Hl, Hr;
    try (intro E; apply Hsub; now apply bond_sel_false_cases in E); intro E; inversion E; subst;
    repeat match goal with H : is_stereo_char _ = true |- _ => apply stereo_cases in H; destruct H as [-> | ->] end; cbn; tauto.
Qed.

Lemma syms_of_digits_in : forall ds Q, syms_of_digits ds = Ok Q -> Forall (fun t => In t index_alphabet) Q.
Proof.
  induction ds as [|d r IH]; intros Q E; cbn [syms_of_digits] in E; [injection E as <-; constructor|].
  destruct (nth_error index_alphabet (N.to_nat d)) as [s|] eqn:En; [|discriminate].
  destruct (syms_of_digits r) as [t|]; cbn [bind] in E; [|discriminate]. injection E as <-.
  constructor; [eapply nth_error_In; exact En|now apply IH].
Qed.

Lemma index_syms_in idx Q : get_selfies_from_index idx = Ok Q -> Forall (fun t => In t index_alphabet) Q.
Proof.
  unfold get_selfies_from_index. destruct (idx <? 0); [discriminate|].
  destruct index_alphabet as [|a0 r] eqn:Ea; [discriminate|]. rewrite <- Ea.
  destruct (Z.to_N idx =? 0)%N; [intro E; injection E as <-; constructor; [rewrite Ea; now left|constructor]|].
  apply syms_of_digits_in.
Qed.

Lemma find_edge_In l dst e : find_edge l dst = Some e -> In (Some e) l.
Proof.
  induction l as [|[x|] r IH]; cbn [find_edge]; [discriminate| |intro H; right; now apply IH].
  destruct (_ =? _)%nat; [intro H; inversion H; subst; now left|intro H; right; now apply IH].
Qed.

Lemma dirbond_sok m s d e : AdjP m -> mg_get_dirbond m s d = Ok e -> sok (e_stereo e).
Proof.
  intros Hm. unfold mg_get_dirbond, mg_find_dirbond. destruct (nth_error (m_adj m) s) as [l|] eqn:En; [|discriminate].
  destruct (find_edge l d) as [x|] eqn:Ef; [|discriminate]. intro E; inversion E; subst.
  apply find_edge_In in Ef. unfold AdjP in Hm. rewrite Forall_forall in Hm. specialize (Hm l (nth_error_In _ _ En)).
  rewrite Forall_forall in Hm. exact (Hm _ Ef).
Qed.

Lemma all_some_sok : forall raw bonds, Forall EP raw -> all_some raw = Ok bonds -> Forall (fun b => sok (e_stereo b)) bonds.
Proof.
  induction raw as [|[b|] r IH]; intros bonds F E; cbn [all_some] in E; [inversion E; constructor| |discriminate].
  inversion F; subst. destruct (all_some r) as [t|]; cbn [bind] in E; [|discriminate]. inversion E; subst. constructor; [assumption|now apply IH].
Qed.

Lemma Forall_filter {A} (P : A -> Prop) (p : A -> bool) l : Forall P l -> Forall P (filter p l).
Proof. intro H. apply Forall_forall. intros x Hx. apply filter_In in Hx as [Hx _]. rewrite Forall_forall in H. now apply H. Qed.

Section Walk.
Variable m : emol.
Hypothesis Hadj : AdjP m.

Lemma out_loop_tokens (walk : ebond -> nat -> nat -> res (list str * list amap)) :
  (forall b ai o ts ms, walk b ai o = Ok (ts, ms) -> Forall (etok m) ts) ->
  forall bonds aidx off ts ms, Forall (fun b => sok (e_stereo b)) bonds -> out_loop m walk bonds aidx off = Ok (ts, ms) -> Forall (etok m) ts.
Proof.
  intro Hw. induction bonds as [|b rest IH]; intros aidx off ts ms Hb E; cbn [out_loop] in E; [inversion E; subst; constructor|].
  inversion Hb as [|? ? Hb1 Hb2]; subst.
  destruct (e_ring b).
  - destruct (e_src b <? e_dst b)%nat; [exact (IH _ _ _ _ Hb2 E)|].
    destruct (mg_get_dirbond m (e_dst b) (e_src b)) as [rv|] eqn:Erv; cbn [bind] in E; [|discriminate].
    destruct (get_selfies_from_index _) as [Q|] eqn:EQ; cbn [bind] in E; [|discriminate].
    destruct (ring_bonds_to_selfies rv b) as [rs|] eqn:Er; cbn [bind] in E; [|discriminate].
    match type of E with (do _ <- ?X; _) = _ => destruct X as [[ts1 ms1]|] eqn:E1 end; cbn [bind] in E; [|discriminate].
    inversion E; subst; clear E. constructor.
    { eapply et_ring; [|exact EQ]. exact (ring_sel_cases _ _ _ (dirbond_sok _ _ _ _ Hadj Erv) Hb1 Er). }
    apply Forall_app. split; [|exact (IH _ _ _ _ Hb2 E1)].
    eapply Forall_impl; [|exact (index_syms_in _ _ EQ)]. intros t Ht. now apply et_index.
  - destruct rest as [|b2 rest2]; [exact (Hw _ _ _ _ _ E)|].
    destruct (walk b off 0%nat) as [[branch bmaps]|] eqn:Eb; cbn [bind] in E; [|discriminate].
    destruct (get_selfies_from_index _) as [Q|] eqn:EQ; cbn [bind] in E; [|discriminate].
    destruct (bond_to_selfies b false) as [bs|] eqn:Ebs; cbn [bind] in E; [|discriminate].
    match type of E with (do _ <- ?X; _) = _ => destruct X as [[ts1 ms1]|] eqn:E1 end; cbn [bind] in E; [|discriminate].
    inversion E; subst; clear E. constructor; [eapply et_branch; [exact (bond_sel_false_cases _ _ Ebs)|exact EQ]|]. apply Forall_app. split.
    + eapply Forall_impl; [|exact (index_syms_in _ _ EQ)]. intros t Ht. now apply et_index.
    + apply Forall_app. split; [exact (Hw _ _ _ _ _ Eb)|exact (IH _ _ _ _ Hb2 E1)].
Qed.

Lemma walk_tokens : forall fuel b curr aidx off ts ms, fragment_walk fuel m b curr aidx off = Ok (ts, ms) -> Forall (etok m) ts.
Proof.
  induction fuel as [|f IH]; intros b curr aidx off ts ms E; [discriminate|]. cbn [fragment_walk] in E.
  destruct (mg_get_atom m curr) as [[a at_]|] eqn:Ea; cbn [bind fst snd] in E; [|discriminate].
  destruct (atom_to_selfies b a) as [tok|] eqn:Et; cbn [bind fst] in E; [|discriminate].
  destruct (mg_get_out_dirbonds m curr) as [raw|] eqn:Eraw; cbn [bind] in E; [|discriminate].
  destruct (all_some raw) as [bonds|] eqn:Eall; cbn [bind] in E; [|discriminate].
  match type of E with (do _ <- ?X; _) = _ => destruct X as [[ts1 ms1]|] eqn:E1 end; cbn [bind] in E; [|discriminate].
  inversion E; subst; clear E. constructor.
  { unfold atom_to_selfies in Et. destruct (a_aromatic a) eqn:Ear; [discriminate|].
    destruct (match b with None => Ok [] | Some b0 => bond_to_selfies b0 true end) as [bc|] eqn:Ebc; cbn [bind] in Et; [|discriminate].
    destruct (atom_to_smiles a false) as [t|] eqn:Eas; cbn [bind] in Et; [|discriminate]. inversion Et; subst.
    eapply et_atom; [exact Ea|exact Ear| |exact Eas].
    destruct b as [b0|]; [exact (bond_sel_cases _ _ Ebc)|inversion Ebc; now left]. }
  eapply out_loop_tokens; [| |exact E1]; [intros b0 ai o ts0 ms0 H; exact (IH _ _ _ _ _ _ H)|].
  unfold ring_bonds_first. apply lget_In in Eraw. unfold AdjP in Hadj. rewrite Forall_forall in Hadj.
  pose proof (all_some_sok _ _ (Hadj _ (nth_error_In _ _ Eraw)) Eall) as Fb.
  apply Forall_app. split; now apply Forall_filter.
Qed.
End Walk.

Lemma encode_roots_tokens m : AdjP m -> forall roots aidx frags maps, encode_roots m roots aidx = Ok (frags, maps) ->
  exists tss, frags = map (@concat N) tss /\ Forall (Forall (etok m)) tss /\ length tss = length roots.
Proof.
  intro Hadj. induction roots as [|r rest IH]; intros aidx frags maps E; cbn [encode_roots] in E.
  - inversion E; subst. exists []. repeat split; constructor.
  - destruct (fragment_to_selfies m r aidx) as [[derived mp]|] eqn:Ef; cbn [bind] in E; [|discriminate].
    destruct (encode_roots m rest _) as [[frags' maps']|] eqn:Er; cbn [bind] in E; [|discriminate]. inversion E; subst; clear E.
    destruct (IH _ _ _ Er) as (tss & -> & F & L). exists (derived :: tss). split; [reflexivity|]. split; [|cbn; lia].
    constructor; [|exact F]. unfold fragment_to_selfies in Ef. exact (walk_tokens m Hadj _ _ _ _ _ _ _ Ef).
Qed.
