(* EncRingMk.v — C04, marks of ring-closure bonds, reader side included: the two marks a ring symbol carries are marks written
   at ring-digit tokens of the input with the same label (EncRingOrd.v: the reader's invariant ring_of gives, for each of
   the two stored directions of a ring bond, a pair of ring digits at one of which its mark is written). *)
From Coq Require Import Ascii String List Arith ZArith NArith Bool Lia.
Import ListNotations.
From Selfies Require Import Base Generated Lex Atoms Grammar Decoder Smiles PySet Matching Kekulize Encoder BaseFacts ConfigFacts DecoderInv
  ParserTotal EncHyp EncShape EncTokens EncRows EncAttr EncStereo EncFuel EncIndex EncKey EncAttrErr EncArom EncUniq EncOrders EncKek EncMatch EncKeep EncOrd EncRing EncRingM EncRingOrd.
Local Open Scope nat_scope.

(* ring_marks of EncRingM.v, with the relation between the reader's order and the kekulised one kept *)
Definition ring_marks_r (m0 m : emol) (toks : list str) : Prop :=
  exists b rv rs Q r0 e0 r0' e0', in_graph m b /\ e_ring b = true /\ e_dst b < e_src b /\ mg_get_dirbond m (e_dst b) (e_src b) = Ok rv /\
    toks = (lit "[" ++ rs ++ lit "Ring" ++ str_of_nat (length Q) ++ lit "]")%list :: Q /\
    (e_order2 b = 2%Z -> (e_stereo rv <> None \/ e_stereo b <> None) -> rs = [markc (e_stereo rv); markc (e_stereo b)]) /\
    nth_error (m_adj m0) (e_src b) = Some r0 /\ In (Some e0) r0 /\ e_dst e0 = e_dst b /\ e_stereo e0 = e_stereo b /\
    nth_error (m_adj m0) (e_dst b) = Some r0' /\ In (Some e0') r0' /\ e_dst e0' = e_src b /\ e_stereo e0' = e_stereo rv /\
    R (e_order2 e0) (e_order2 b).

Lemma encoder_ring_marks_r T smiles strict attribute x maps :
  encoder T smiles strict attribute = Ok (x, maps) ->
  exists m0 m tss, smiles_to_mol smiles attribute = Ok m0 /\ x = join (lit ".") (map (@concat N) tss) /\ Forall (TW (ring_marks_r m0 m)) tss.
Proof.
  intros E. unfold encoder, encoder_c in E.
  destruct (smiles_to_mol smiles attribute) as [m0|e] eqn:Ep; [|destruct e; discriminate].
  pose proof (parsed_adj _ _ _ Ep) as A0. unfold encode_mol in E.
  destruct (kekulize m0) as [[m1|]|] eqn:Ek; cbn [bind] in E; try discriminate.
  pose proof (kekulize_adj _ _ A0 Ek) as A1.
  destruct (parsed_kekulize_keeps _ _ _ _ Ep Ek) as [Hsk Hrel].
  destruct (parsed_gue _ _ _ Ep) as (_ & _ & _ & _ & Hrow0 & _ & Hu & _).
  pose proof (rel_strong m0 m1 Hu Hsk Hrel) as RS1.
  match type of E with (do _ <- ?X; _) = _ => destruct X; cbn [bind] in E; [|discriminate] end.
  destruct (invert_pass m1 (m_atoms m1) 0) as [atoms'|] eqn:Ei; cbn [bind] in E; [|discriminate].
  set (m2 := set_atoms m1 atoms') in *. assert (A2 : AdjP m2) by exact A1.
  destruct (encode_roots m2 _ 0) as [[frags maps0]|] eqn:Er; cbn [bind] in E; [|discriminate].
  inversion E; subst x maps; clear E.
  assert (HPR : forall toks, ring_tok m2 toks -> ring_marks_r m0 m2 toks); [|destruct (encode_roots_tw m2 (ring_marks_r m0 m2) HPR _ _ _ _ Er) as (tss & -> & W); exists m0, m2, tss; auto].
  intros toks (b & rv & rs & Q & (j & row & Hn & Hin) & Hr & Hlt & Erv & Ers & EQ & ->).
  assert (Sb : sok (e_stereo b)).
  { unfold AdjP in A2. rewrite Forall_forall in A2. pose proof (A2 row (nth_error_In _ _ Hn)) as Hrw. rewrite Forall_forall in Hrw. exact (Hrw (Some b) Hin). }
  destruct (ring_sel_order rv b rs (dirbond_sok _ _ _ _ A2 Erv) Sb Ers) as [Eo _].
  destruct (RS1 j row b Hn Hin) as (row0 & e0 & Hn0 & Hi0 & Hst & HR).
  assert (Hsrc : e_src b = j) by (pose proof (f_equal e_src Hst) as X; unfold strip in X; cbn [with_order2 e_src] in X; rewrite <- X; exact (proj1 (Hrow0 _ _ _ Hn0 Hi0))).
  pose proof Erv as Erv'. unfold mg_get_dirbond, mg_find_dirbond in Erv'. destruct (nth_error (m_adj m2) (e_dst b)) as [rowd|] eqn:Ed; [|discriminate].
  destruct (find_edge rowd (e_src b)) as [xx|] eqn:Ef; inversion Erv'; subst xx.
  destruct (RS1 (e_dst b) rowd rv Ed (find_edge_In _ _ _ Ef)) as (row0' & e0' & Hn0' & Hi0' & Hst' & _).
  exists b, rv, rs, Q, row0, e0, row0', e0'. split; [exists j, row; auto|]. split; [exact Hr|]. split; [exact Hlt|]. split; [exact Erv|]. split; [reflexivity|].
  split; [intros E2 Hm; apply (ring_sel_marks rv b rs Ers); [congruence|exact Hm]|].
  split; [rewrite Hsrc; exact Hn0|]. split; [exact Hi0|].
  split; [pose proof (f_equal e_dst Hst) as X; unfold strip in X; cbn [with_order2 e_dst] in X; exact X|].
  split; [pose proof (f_equal e_stereo Hst) as X; unfold strip in X; cbn [with_order2 e_stereo] in X; exact X|].
  split; [exact Hn0'|]. split; [exact Hi0'|].
  split; [pose proof (f_equal e_dst Hst') as X; unfold strip in X; cbn [with_order2 e_dst] in X; rewrite X; exact (EncUniq.find_edge_dst _ _ _ Ef)|].
  split; [pose proof (f_equal e_stereo Hst') as X; unfold strip in X; cbn [with_order2 e_stereo] in X; exact X|exact HR].
Qed.

(* what the ring symbol toks says, in terms of the input's tokens: sl and sr are marks written at ring digits; the order o0
   is written at a pair of ring digits; when the bond is printed single (ob = 2, where o0 is 2 or the aromatic 3) and one
   of the two marks is present, the symbol's prefix is exactly the two marks, '-' standing for a missing one *)
Definition ring_marks_written (ts : list token) (toks : list str) : Prop :=
  exists rs rest sl sr lt rt lt' rt' o0 o0' ob, toks = (lit "[" ++ rs ++ rest)%list :: tl toks /\
    written (fun t => In t ts) lt rt o0 sr /\ written (fun t => In t ts) lt' rt' o0' sl /\ R o0 ob /\
    (ob = 2%Z -> (sl <> None \/ sr <> None) -> rs = [markc sl; markc sr]).

Theorem encoder_ring_marks_written T smiles strict attribute x maps ts :
  encoder T smiles strict attribute = Ok (x, maps) -> tokenize_smiles smiles = Ok ts ->
  exists tss, x = join (lit ".") (map (@concat N) tss) /\ Forall (TW (ring_marks_written ts)) tss.
Proof.
  intros E Et. destruct (encoder_ring_marks_r _ _ _ _ _ _ E) as (m0 & m & tss & Ep & -> & W).
  pose proof (parsed_ring_ords _ _ _ _ Ep Et) as RO.
  destruct (parsed_gue _ _ _ Ep) as (_ & _ & _ & Hrs & Hrow & _ & Hu & _).
  exists tss. split; [reflexivity|]. rewrite Forall_forall in *. intros l Hl. apply (tw_mono (ring_marks_r m0 m)); [|exact (W l Hl)].
  intros toks (b & rv & rs & Q & r0 & e0 & r0' & e0' & _ & _ & Hlt & _ & -> & Hmk & Hn0 & Hi0 & Hd0 & Hs0 & Hn0' & Hi0' & Hd0' & Hs0' & HR).
  assert (Hr0 : e_ring e0 = true).
  { destruct (e_ring e0) eqn:Er; [reflexivity|]. destruct (Hrow _ _ _ Hn0 Hi0) as [Hsrc Hlt0]. specialize (Hlt0 Er). lia. }
  assert (Hr0' : e_ring e0' = true).
  { destruct (Hrs (e_src b) (e_dst b)) as (row & e & Hn & Hin & Hd & Hr); [exists r0, e0; auto|].
    rewrite Hn0' in Hn. inversion Hn; subst row.
    destruct (In_nth_error _ _ Hin) as [p Hp]. destruct (In_nth_error _ _ Hi0') as [q Hq].
    assert (p = q) by (apply (Hu _ _ _ _ _ _ Hn0' Hp Hq); congruence). subst q. rewrite Hp in Hq. inversion Hq; subst. exact Hr. }
  destruct (RO _ _ _ Hn0 Hi0 Hr0) as (lt & rt & Hw). destruct (RO _ _ _ Hn0' Hi0' Hr0') as (lt' & rt' & Hw').
  rewrite Hs0 in Hw. rewrite Hs0' in Hw'.
  exists rs, (lit "Ring" ++ str_of_nat (length Q) ++ lit "]")%list, (e_stereo rv), (e_stereo b), lt, rt, lt', rt', (e_order2 e0), (e_order2 e0'), (e_order2 b).
  split; [reflexivity|]. split; [exact Hw|]. split; [exact Hw'|]. split; [exact HR|exact Hmk].
Qed.
