(* Preorder.v — C02, "atoms in derivation order": the writer visits the atoms of a decoded graph in the
   order in which the derivation created them, so the emission order of WriterSim is 0, 1, 2, ... *)
From Coq Require Import Ascii String List Arith ZArith NArith Bool Lia.
Import ListNotations.
From Selfies Require Import Base Generated Lex Atoms Grammar Decoder BaseFacts StateFacts ConfigFacts DecoderBasics
  DecoderInv DecoderTree DecoderSum WriterSim RingCount DocDerive DocRings.
Local Open Scope Z_scope.

(* ---------- a light forest invariant, in terms of the kids lists ---------- *)
Record Forest (m : dmol) : Prop := {
  f_adj : length (adj m) = natoms m;
  f_kid : forall c k, In k (kids (row m c)) -> (c < k < natoms m)%nat;
  f_par : forall c1 c2 k, In k (kids (row m c1)) -> In k (kids (row m c2)) -> c1 = c2;
  f_root : forall r c, In r (roots m) -> ~ In r (kids (row m c));
  f_rlt : forall r, In r (roots m) -> (r < natoms m)%nat;
  f_rnd : NoDup (roots m);
  f_knd : forall c, NoDup (kids (row m c)) }.

Lemma row_out m x : length (adj m) = natoms m -> (natoms m <= x)%nat -> row m x = [].
Proof. intros Ha Hx. unfold row. apply nth_overflow. lia. Qed.

Lemma kids_app l1 l2 : kids (l1 ++ l2) = kids l1 ++ kids l2.
Proof. unfold kids. now rewrite filter_app, map_app. Qed.

Lemma row_empty x : row empty_mol x = [].
Proof. unfold row, empty_mol. cbn. now destruct x. Qed.

Lemma forest_empty : Forest empty_mol.
Proof.
  constructor.
  - reflexivity.
  - intros c k H. rewrite row_empty in H. destruct H.
  - intros c1 c2 k H. rewrite row_empty in H. destruct H.
  - intros r c [].
  - intros r [].
  - constructor.
  - intro c. rewrite row_empty. constructor.
Qed.

Lemma forest_root m a cap at_ : Forest m -> Forest (fst (add_atom m a cap at_ true)).
Proof.
  intros [Ha Hk Hp Hr Hl Hn Hkn].
  assert (Hrow : forall x, row (fst (add_atom m a cap at_ true)) x = if (x <? natoms m)%nat then row m x else []) by (intro x; now apply DocDerive.row_add_atom).
  assert (Hnat : natoms (fst (add_atom m a cap at_ true)) = S (natoms m)) by apply natoms_add_atom.
  assert (Hkids : forall x k, In k (kids (row (fst (add_atom m a cap at_ true)) x)) -> In k (kids (row m x))).
  { intros x k. rewrite Hrow. destruct (x <? natoms m)%nat; [auto|intros []]. }
  constructor.
  - rewrite Hnat. unfold add_atom. cbn [fst adj]. rewrite app_length. cbn. lia.
  - intros c k H. apply Hkids in H. specialize (Hk c k H). lia.
  - intros c1 c2 k H1 H2. eauto.
  - intros r c Hin H. apply Hkids in H. unfold add_atom in Hin. cbn [fst roots] in Hin. apply in_app_iff in Hin as [Hin|[<-|[]]]; [exact (Hr r c Hin H)|].
    specialize (Hk c _ H). unfold natoms in Hk. lia.
  - intros r Hin. unfold add_atom in Hin. cbn [fst roots] in Hin. apply in_app_iff in Hin as [Hin|[<-|[]]]; [specialize (Hl r Hin); lia|unfold natoms in *; lia].
  - unfold add_atom. cbn [fst roots]. apply NoDup_app_single; [exact Hn|]. intro H. specialize (Hl _ H). unfold natoms in Hl. lia.
  - intro c. rewrite Hrow. destruct (c <? natoms m)%nat; [apply Hkn|constructor].
Qed.

Lemma child_rows m a cap at_ p mu st at2 m3 : length (adj m) = natoms m -> (p < natoms m)%nat ->
  add_bond (fst (add_atom m a cap at_ false)) p (natoms m) mu st at2 = Ok m3 ->
  natoms m3 = S (natoms m) /\ roots m3 = roots m /\ length (adj m3) = S (natoms m) /\
  forall x, kids (row m3 x) = if Nat.eqb x p then kids (row m p) ++ [natoms m] else if (x <? natoms m)%nat then kids (row m x) else [].
Proof.
  intros Ha Hp E. unfold add_bond in E. destruct (negb _); [discriminate|]. destruct (negb _); [discriminate|]. injection E as <-.
  split; [exact (natoms_add_atom m a cap at_ false)|]. split; [reflexivity|].
  assert (Hal2 : length (adj (fst (add_atom m a cap at_ false))) = S (natoms m)) by (unfold add_atom; cbn [fst adj]; rewrite app_length; cbn; lia).
  split; [cbn [adj]; now rewrite upd_length|].
  intro x. unfold row at 1. cbn [adj]. rewrite nth_upd, app_length, Ha. cbn [length]. replace (natoms m + 1)%nat with (S (natoms m)) by lia.
  assert (Hn : nth x (adj m ++ [[]]) [] = if (x <? natoms m)%nat then row m x else []).
  { destruct (Nat.ltb_spec x (natoms m)); [rewrite app_nth1 by lia; reflexivity|]. rewrite app_nth2 by lia. destruct (x - length (adj m))%nat as [|[|?]]; reflexivity. }
  rewrite Hn.
  rewrite (Nat.eqb_sym p x). destruct (Nat.eqb_spec x p) as [->|N]; cbn [andb]; [|destruct (x <? natoms m)%nat; reflexivity].
  assert (X : (p <? S (natoms m))%nat = true) by (apply Nat.ltb_lt; lia). assert (Y : (p <? natoms m)%nat = true) by (apply Nat.ltb_lt; lia).
  rewrite X, Y, kids_app. reflexivity.
Qed.

Lemma forest_child m a cap at_ p mu st at2 m3 : Forest m -> (p < natoms m)%nat ->
  add_bond (fst (add_atom m a cap at_ false)) p (natoms m) mu st at2 = Ok m3 -> Forest m3.
Proof.
  intros [Ha Hk Hp Hr Hl Hn Hkn] Hpl E. destruct (child_rows _ _ _ _ _ _ _ _ _ Ha Hpl E) as (Hnat & Hro & Hal & Hkids).
  assert (Hold : forall x k, In k (kids (row m3 x)) -> In k (kids (row m x)) \/ (x = p /\ k = natoms m)).
  { intros x k. rewrite Hkids. destruct (Nat.eqb_spec x p) as [->|N].
    - intro H. apply in_app_iff in H as [H|[<-|[]]]; auto.
    - destruct (x <? natoms m)%nat; [auto|intros []]. }
  constructor.
  - now rewrite Hal, Hnat.
  - intros c k H. rewrite Hnat. destruct (Hold c k H) as [H'|[-> ->]]; [specialize (Hk c k H'); lia|lia].
  - intros c1 c2 k H1 H2. destruct (Hold _ _ H1) as [A|[-> ->]]; destruct (Hold _ _ H2) as [B|[-> E2]]; eauto.
    + specialize (Hk _ _ A). lia.
    + specialize (Hk _ _ B). lia.
  - rewrite Hro. intros r c Hin H. destruct (Hold _ _ H) as [A|[-> ->]]; [exact (Hr r c Hin A)|]. specialize (Hl _ Hin). lia.
  - rewrite Hro, Hnat. intros r Hin. specialize (Hl r Hin). lia.
  - now rewrite Hro.
  - intro c. rewrite Hkids. destruct (Nat.eqb_spec c p) as [->|N].
    + apply NoDup_app_single; [apply Hkn|]. intro H. specialize (Hk _ _ H). lia.
    + destruct (c <? natoms m)%nat; [apply Hkn|constructor].
Qed.

(* ---------- ancestors and rightmost paths ---------- *)
Inductive anc (m : dmol) : nat -> nat -> Prop :=
| anc_self x : anc m x x
| anc_kid x y p : In y (kids (row m x)) -> anc m y p -> anc m x p.

(* RM m x p d : p is reached from x by d steps, each to the last kid *)
Inductive RM (m : dmol) : nat -> nat -> nat -> Prop :=
| rm_self x : RM m x x 0
| rm_kid x y p d l : kids (row m x) = l ++ [y] -> RM m y p d -> RM m x p (S d).

Lemma anc_le m x p : Forest m -> anc m x p -> (x <= p)%nat.
Proof. intros F H. induction H as [x|x y p Hy _ IH]; [lia|]. pose proof (f_kid _ F x y Hy). lia. Qed.

Lemma anc_last m x p : anc m x p -> x = p \/ exists q, In p (kids (row m q)) /\ anc m x q.
Proof.
  intro H. induction H as [x|x y p Hy H IH]; [now left|]. right. destruct IH as [->|(q & Hq & Hxq)].
  - exists x. split; [exact Hy|constructor].
  - exists q. split; [exact Hq|]. econstructor; eassumption.
Qed.

Lemma anc_chain m : Forest m -> forall p a b, anc m a p -> anc m b p -> anc m a b \/ anc m b a.
Proof.
  intro F. induction p as [p IH] using lt_wf_ind. intros a b Ha Hb.
  destruct (anc_last _ _ _ Ha) as [->|(q1 & Hq1 & Ha1)]; [now right|].
  destruct (anc_last _ _ _ Hb) as [->|(q2 & Hq2 & Hb2)]; [now left|].
  assert (q1 = q2) by (eapply f_par; eassumption). subst q2.
  pose proof (f_kid _ F q1 p Hq1). apply (IH q1); [lia|assumption|assumption].
Qed.

Lemma siblings_disjoint m x y z p : Forest m -> In y (kids (row m x)) -> In z (kids (row m x)) -> y <> z ->
  anc m y p -> anc m z p -> False.
Proof.
  intros F Hy Hz Hne Ay Az.
  assert (G : forall a b, In a (kids (row m x)) -> In b (kids (row m x)) -> a <> b -> anc m a b -> False).
  { intros a b Ha Hb Hab H. destruct (anc_last _ _ _ H) as [->|(q & Hq & Haq)]; [congruence|].
    assert (q = x) by (eapply f_par; eassumption). subst q. pose proof (anc_le _ _ _ F Haq). pose proof (f_kid _ F x a Ha). lia. }
  destruct (anc_chain m F p y z Ay Az) as [H|H]; [exact (G y z Hy Hz Hne H)|exact (G z y Hz Hy (fun E => Hne (eq_sym E)) H)].
Qed.

Lemma RM_anc m x p d : RM m x p d -> anc m x p.
Proof.
  intro H. induction H as [x|x y p d l Hk _ IH]; [constructor|]. apply (anc_kid m x y p); [|exact IH].
  rewrite Hk. apply in_app_iff. right. now left.
Qed.

Lemma RM_depth m x p d : Forest m -> RM m x p d -> (x + d <= p)%nat.
Proof.
  intros F H. induction H as [x|x y p d l Hk _ IH]; [lia|].
  assert (In y (kids (row m x))) by (rewrite Hk; apply in_app_iff; right; now left). pose proof (f_kid _ F x y H). lia.
Qed.

Lemma RM_trans m x y p d1 d2 : RM m x y d1 -> RM m y p d2 -> RM m x p (d1 + d2).
Proof. intro H. induction H as [x|x z y d l Hk _ IH]; intro H2; [exact H2|]. cbn [Nat.add]. econstructor; [exact Hk|auto]. Qed.

Lemma flat_map_ext_in' {A B} (f g : A -> list B) l : (forall a, In a l -> f a = g a) -> flat_map f l = flat_map g l.
Proof. induction l as [|a l IH]; intro H; [reflexivity|]. cbn [flat_map]. rewrite (H a (or_introl eq_refl)), IH; [reflexivity|]. intros b Hb. apply H. now right. Qed.

(* ---------- the emission and local changes of the graph ---------- *)
Lemma emits_ext m m' : (forall x, kids (row m' x) = kids (row m x)) -> forall f c, emits m' f c = emits m f c.
Proof.
  intro H. induction f as [|f IH]; intro c; [reflexivity|]. cbn [emits]. rewrite H. apply flat_map_ext. intro k. now rewrite IH.
Qed.

Lemma emits_stable m n : (forall c k, In k (kids (row m c)) -> (c < k < n)%nat) ->
  forall f1 f2 c, (n - c <= f1)%nat -> (n - c <= f2)%nat -> emits m f1 c = emits m f2 c.
Proof.
  intro Hk. induction f1 as [|f1 IH]; intros f2 c H1 H2.
  - assert (Hr : kids (row m c) = []).
    { destruct (kids (row m c)) as [|k l] eqn:E; [reflexivity|]. assert (Hin : In k (kids (row m c))) by (rewrite E; now left). specialize (Hk c k Hin). lia. }
    destruct f2; cbn [emits]; [reflexivity|]. now rewrite Hr.
  - destruct f2 as [|f2].
    + assert (Hr : kids (row m c) = []).
      { destruct (kids (row m c)) as [|k l] eqn:E; [reflexivity|]. assert (Hin : In k (kids (row m c))) by (rewrite E; now left). specialize (Hk c k Hin). lia. }
      cbn [emits]. now rewrite Hr.
    + cbn [emits]. apply flat_map_ext_in'. intros k Hin. f_equal. specialize (Hk c k Hin). apply IH; lia.
Qed.

(* appending a new last kid k to p *)
Section Append.
Variables (m m3 : dmol) (p k : nat).
Hypothesis F : Forest m.
Hypothesis Hpk : (p < k)%nat.
Hypothesis Hknew : forall c, In k (kids (row m c)) -> False.
Hypothesis Hkrow : kids (row m k) = [].
Hypothesis H1 : kids (row m3 p) = kids (row m p) ++ [k].
Hypothesis H2 : forall x, x <> p -> kids (row m3 x) = kids (row m x).

Lemma upd_off : forall f x, ~ anc m x p -> emits m3 f x = emits m f x.
Proof.
  induction f as [|f IH]; intros x Hx; [reflexivity|]. cbn [emits].
  assert (x <> p) by (intros ->; apply Hx; constructor). rewrite (H2 x H).
  apply flat_map_ext_in'. intros y Hy. f_equal. apply IH. intro A. apply Hx. econstructor; eassumption.
Qed.

Lemma emits_k f : emits m3 f k = [].
Proof.
  rewrite upd_off; [|intro A; pose proof (anc_le _ _ _ F A); lia]. destruct f; [reflexivity|]. cbn [emits]. now rewrite Hkrow.
Qed.

Lemma upd_on : forall f x d, RM m x p d -> (d < f)%nat -> emits m3 f x = emits m f x ++ [k].
Proof.
  induction f as [|f IH]; intros x d HR Hd; [lia|]. cbn [emits]. inversion HR as [x0|x0 y p0 d' l Hk HR']; subst.
  - rewrite H1, flat_map_app. cbn [flat_map]. rewrite emits_k, app_nil_r. f_equal.
    apply flat_map_ext_in'. intros y Hy. f_equal. apply upd_off. intro A. pose proof (anc_le _ _ _ F A). pose proof (f_kid _ F p y Hy). lia.
  - assert (Hxp : x <> p) by (pose proof (RM_depth _ _ _ _ F HR); lia). rewrite (H2 x Hxp), Hk, !flat_map_app. cbn [flat_map]. rewrite !app_nil_r.
    rewrite (IH y d' HR' ltac:(lia)). rewrite app_comm_cons, app_assoc. f_equal. f_equal.
    apply flat_map_ext_in'. intros z Hz. f_equal. apply upd_off. intro A.
    assert (Hyin : In y (kids (row m x))) by (rewrite Hk; apply in_app_iff; right; now left).
    assert (Hzin : In z (kids (row m x))) by (rewrite Hk; apply in_app_iff; now left).
    assert (Hne : y <> z).
    { intros ->. pose proof (f_knd _ F x) as Nd. rewrite Hk in Nd. apply NoDup_remove_2 in Nd. rewrite app_nil_r in Nd. contradiction. }
    exact (siblings_disjoint m x y z p F Hyin Hzin Hne (RM_anc _ _ _ _ HR') A).
Qed.
End Append.

(* ---------- the emission order after one derivation step ---------- *)
Lemma emits_leaf m f c : kids (row m c) = [] -> emits m f c = [].
Proof. intro H. destruct f; [reflexivity|]. cbn [emits]. now rewrite H. Qed.

Lemma eord_fuel m f : Forest m -> (natoms m <= f)%nat ->
  flat_map (fun r => r :: emits m f r) (roots m) = eord m.
Proof.
  intros F Hf. unfold eord. apply flat_map_ext_in'. intros r Hr. f_equal. fold (natoms m).
  apply (emits_stable m (natoms m) (f_kid _ F)); lia.
Qed.

Lemma eord_root m a cap at_ : Forest m -> eord m = seq 0 (natoms m) ->
  eord (fst (add_atom m a cap at_ true)) = seq 0 (S (natoms m)).
Proof.
  intros F E. set (m2 := fst (add_atom m a cap at_ true)).
  assert (Hk : forall x, kids (row m2 x) = kids (row m x)).
  { intro x. unfold m2. rewrite (DocDerive.row_add_atom m a cap at_ true x (f_adj _ F)). destruct (Nat.ltb_spec x (natoms m)); [reflexivity|].
    now rewrite (row_out m x (f_adj _ F)). }
  assert (Hn2 : length (atoms m2) = S (natoms m)) by exact (natoms_add_atom m a cap at_ true).
  unfold eord. rewrite Hn2.
  assert (Hr : roots m2 = roots m ++ [natoms m]) by reflexivity. rewrite Hr, flat_map_app. cbn [flat_map].
  rewrite (emits_ext m m2 Hk), (emits_leaf m _ (natoms m)) by (now rewrite (row_out m _ (f_adj _ F))). rewrite app_nil_r.
  rewrite (flat_map_ext_in' _ (fun r => r :: emits m (S (S (natoms m))) r)) by (intros r _; now rewrite (emits_ext m m2 Hk)).
  rewrite (eord_fuel m _ F) by lia. rewrite E, seq_S. reflexivity.
Qed.

Lemma eord_child m a cap at_ p mu st at2 m3 l r d : Forest m -> eord m = seq 0 (natoms m) -> (p < natoms m)%nat ->
  roots m = l ++ [r] -> RM m r p d ->
  add_bond (fst (add_atom m a cap at_ false)) p (natoms m) mu st at2 = Ok m3 -> eord m3 = seq 0 (S (natoms m)).
Proof.
  intros F E Hp Hro HR Eb. destruct (child_rows _ _ _ _ _ _ _ _ _ (f_adj _ F) Hp Eb) as (Hnat & Hro3 & _ & Hkids).
  set (k := natoms m) in *.
  assert (H1 : kids (row m3 p) = kids (row m p) ++ [k]) by (rewrite Hkids, Nat.eqb_refl; reflexivity).
  assert (H2 : forall x, x <> p -> kids (row m3 x) = kids (row m x)).
  { intros x Hx. rewrite Hkids. destruct (Nat.eqb_spec x p); [contradiction|]. destruct (Nat.ltb_spec x k); [reflexivity|]. now rewrite (row_out m x (f_adj _ F)). }
  assert (Hkrow : kids (row m k) = []) by (now rewrite (row_out m k (f_adj _ F))).
  assert (Hknew : forall c, In k (kids (row m c)) -> False) by (intros c H; pose proof (f_kid _ F c k H); lia).
  unfold eord. change (length (atoms m3)) with (natoms m3). rewrite Hnat, Hro3, Hro, flat_map_app. cbn [flat_map]. rewrite app_nil_r.
  rewrite (upd_on m m3 p k F Hp Hkrow H1 H2 (S (S k)) r d HR) by (pose proof (RM_depth _ _ _ _ F HR); lia).
  rewrite (flat_map_ext_in' _ (fun r' => r' :: emits m (S (S k)) r') l).
  2:{ intros r' Hr'. f_equal. apply (upd_off m m3 p H2). intro A.
      assert (Hrin : In r (roots m)) by (rewrite Hro; apply in_app_iff; right; now left).
      assert (Hr'in : In r' (roots m)) by (rewrite Hro; apply in_app_iff; now left).
      assert (Hne : r <> r').
      { intros ->. pose proof (f_rnd _ F) as Nd. rewrite Hro in Nd. apply NoDup_remove_2 in Nd. rewrite app_nil_r in Nd. contradiction. }
      destruct (anc_chain m F p r r' (RM_anc _ _ _ _ HR) A) as [X|X]; destruct (anc_last _ _ _ X) as [Y|(q & Hq & _)]; try congruence.
      - exact (f_root _ F r' q Hr'in Hq).
      - exact (f_root _ F r q Hrin Hq). }
  rewrite app_comm_cons, app_assoc.
  assert (X : flat_map (fun r' => r' :: emits m (S (S k)) r') l ++ r :: emits m (S (S k)) r = eord m).
  { rewrite <- (eord_fuel m (S (S k)) F) by (unfold k; lia). rewrite Hro, flat_map_app. cbn [flat_map]. now rewrite app_nil_r. }
  rewrite X, E, seq_S. reflexivity.
Qed.

(* ---------- what a derivation instance may change, and the rightmost path ---------- *)
Definition KF (m : dmol) (prev : prev_atom) (m' : dmol) : Prop :=
  (forall x, (x < natoms m)%nat -> prev <> PAtom x -> kids (row m' x) = kids (row m x)) /\
  (forall p, prev = PAtom p -> exists ext, kids (row m' p) = kids (row m p) ++ ext).

Definition Spine (m : dmol) (prev : prev_atom) : Prop :=
  forall p, prev = PAtom p -> (p < natoms m)%nat /\ exists l r d, roots m = l ++ [r] /\ RM m r p d.

Lemma KF_refl m prev : KF m prev m.
Proof. split; [auto|]. intros p _. exists []. now rewrite app_nil_r. Qed.

Lemma KF_trans m p m1 m2 : (natoms m <= natoms m1)%nat -> KF m (PAtom p) m1 -> KF m1 (PAtom p) m2 -> KF m (PAtom p) m2.
Proof.
  intros Hn [A1 A2] [B1 B2]. split.
  - intros x Hx Hp. rewrite (B1 x ltac:(lia) Hp). now apply A1.
  - intros q Hq. destruct (A2 q Hq) as [e1 E1]. destruct (B2 q Hq) as [e2 E2]. exists (e1 ++ e2). now rewrite E2, E1, app_assoc.
Qed.

Lemma KF_none m m1 m2 : (natoms m <= natoms m1)%nat -> KF m PNone m1 -> KF m1 PNone m2 -> KF m PNone m2.
Proof.
  intros Hn [A1 _] [B1 _]. split; [|intros p Hp; discriminate].
  intros x Hx Hp. rewrite (B1 x ltac:(lia) Hp). now apply A1.
Qed.

Lemma RM_frame m p m' : Forest m -> KF m (PAtom p) m' -> forall x d, RM m x p d -> RM m' x p d.
Proof.
  intros F [A _] x d H. induction H as [x|x y q d l Hk HR IH]; [constructor|].
  assert (Hy : In y (kids (row m x))) by (rewrite Hk; apply in_app_iff; right; now left).
  pose proof (f_kid _ F x y Hy). pose proof (RM_depth _ _ _ _ F HR).
  econstructor; [|exact (IH A)]. rewrite A; [exact Hk|lia|]. intro E. injection E as ->. lia.
Qed.

Lemma RM_unsnoc m x k d : RM m x k (S d) -> exists q l, RM m x q d /\ kids (row m q) = l ++ [k].
Proof.
  remember (S d) as n eqn:En. intro H. revert d En. induction H as [x|x y p d' l Hk HR IH]; intros d En; [discriminate|].
  injection En as ->. destruct d as [|d].
  - inversion HR; subst. exists x, l. split; [constructor|exact Hk].
  - destruct (IH d eq_refl) as (q & l' & R & K). exists q, l'. split; [econstructor; eassumption|exact K].
Qed.

(* ---------- the derivation keeps the emission order equal to the creation order ---------- *)
Definition PPost (m : dmol) (prev : prev_atom) (m' : dmol) : Prop :=
  Forest m' /\ eord m' = seq 0 (natoms m') /\ (natoms m <= natoms m')%nat /\ KF m prev m' /\ Spine m' prev.

Section Derive.
Variable T : table.
Variable bad : option exn.
Variable aidx : nat.

Theorem derive_pre : forall fuel ts m maxd state prev rings astack nd ts' m' rings' nd',
  derive T bad aidx fuel ts m maxd state prev rings astack nd = Ok (ts', m', rings', nd') ->
  Forest m -> eord m = seq 0 (natoms m) -> Spine m prev -> prev <> PGhost -> 0 <= state -> (state = 0 -> prev = PNone) ->
  PPost m prev m'.
Proof.
  induction fuel as [|f IH]; intros ts m maxd state prev rings astack nd ts' m' rings' nd' E HF HE HS Hng Hst Hs0; [discriminate|].
  unfold derive in E. cbn [derive_c] in E. cbv zeta in E. fold (derive T) in E.
  assert (Fin : forall ts0 (m0 : dmol) (rings0 : list ringreq) nd0 prev0,
            (do (t, n) <- drain ts0 bad maxd nd0; Ok (t, m0, rings0, n)) = Ok (ts', m', rings', nd') ->
            Forest m0 -> eord m0 = seq 0 (natoms m0) -> Spine m0 prev0 -> PPost m0 prev0 m').
  { intros ts0 m0 rings0 nd0 prev0 H F0 E0 S0. destruct (drain ts0 bad maxd nd0) as [[t n]|]; cbn [bind] in H; [|discriminate].
    injection H as <- <- <- <-. split; [exact F0|]. split; [exact E0|]. split; [lia|]. split; [apply KF_refl|exact S0]. }
  assert (Cont : forall ts0 m0 nst prev0 rings0 nd0,
            match nst with
            | None => do (t, n) <- drain ts0 bad maxd nd0; Ok (t, m0, rings0, n)
            | Some st => derive T bad aidx f ts0 m0 maxd st prev0 rings0 astack nd0 end = Ok (ts', m', rings', nd') ->
            Forest m0 -> eord m0 = seq 0 (natoms m0) -> Spine m0 prev0 ->
            match nst with Some st => prev0 <> PGhost /\ 0 <= st /\ (st = 0 -> prev0 = PNone) | None => True end ->
            PPost m0 prev0 m').
  { intros ts0 m0 nst prev0 rings0 nd0 H F0 E0 S0 Hn. destruct nst as [st0|]; [|exact (Fin _ _ _ _ _ H F0 E0 S0)].
    destruct Hn as (N1 & N2 & N3). exact (IH _ _ _ _ _ _ _ _ _ _ _ _ H F0 E0 S0 N1 N2 N3). }
  destruct (negb (below nd maxd)); [exact (Fin _ _ _ _ _ E HF HE HS)|].
  destruct ts as [|[idx sym] rest].
  { unfold raise_or in E. destruct bad; [discriminate|]. exact (Fin _ _ _ _ _ E HF HE HS). }
  destruct (is_branch_like sym).
  { destruct (process_branch_symbol sym) as [[btype n]|] eqn:Epb; [|discriminate].
    destruct (state <=? 1) eqn:Es1.
    - apply (Cont rest m (Some state) prev rings (S nd) E HF HE HS). auto.
    - pose proof (branch_pre_holds sym btype n state Epb Es1) as Hpre. rewrite Hpre in E. cbn [negb] in E.
      destruct (next_branch_state btype state) as [binit nstate] eqn:Enb.
      destruct (nbs_spec _ _ _ _ Enb Hpre) as (Hbi & Hns & Hbr & Hns1 & _).
      destruct (read_index n rest bad [] 0) as [[[syms rest2] nread]|]; cbn [bind] in E; [|discriminate].
      destruct (derive T bad aidx f rest2 m _ binit prev rings _ 0) as [[[[rest3 m2] rings2] nsub]|] eqn:Esub; cbn [bind] in E; [|discriminate].
      destruct (IH _ _ _ _ _ _ _ _ _ _ _ _ Esub HF HE HS Hng ltac:(lia) ltac:(intro; lia)) as (F2 & E2 & N2 & K2 & S2).
      destruct (Cont rest3 m2 (Some nstate) prev rings2 _ E F2 E2 S2 ltac:(split; [exact Hng|split; [lia|intro; lia]])) as (F3 & E3 & N3 & K3 & S3).
      split; [exact F3|]. split; [exact E3|]. split; [lia|]. split; [|exact S3].
      destruct prev as [| |p]; [exact (KF_none _ _ _ N2 K2 K3)|contradiction|exact (KF_trans _ _ _ _ N2 K2 K3)]. }
  destruct (is_ring_like sym).
  { destruct (process_ring_symbol sym) as [[[rtype n] [ls rs]]|] eqn:Epr; [|discriminate].
    destruct (state =? 0) eqn:Es0.
    - apply (Cont rest m (Some state) prev rings (S nd) E HF HE HS). auto.
    - destruct (ring_table_marks _ _ _ _ _ Epr) as (Hrt & _).
      pose proof (ring_pre_holds rtype state Hst Es0) as Hpre. rewrite Hpre in E. cbn [negb] in E.
      destruct (next_ring_state rtype state) as [rorder nstate] eqn:Enr.
      destruct (nrs_spec _ _ _ _ Enr Hpre Hrt) as (_ & _ & _ & _ & Hns).
      destruct (read_index n rest bad [] 0) as [[[syms rest2] nread]|]; cbn [bind] in E; [|discriminate].
      destruct prev as [| |p]; try discriminate.
      destruct (negb _); [discriminate|].
      apply (Cont rest2 m nstate (PAtom p) _ _ E HF HE HS). destruct nstate as [k|]; [|exact I].
      split; [discriminate|]. split; [lia|intro; lia]. }
  destruct (is_eps_like sym).
  { destruct (state =? 0) eqn:Es0.
    - apply Z.eqb_eq in Es0. apply (Cont rest m (Some 0) prev rings (S nd) E HF HE HS). split; [exact Hng|]. split; [lia|]. intros _. now apply Hs0.
    - apply (Cont rest m None prev rings (S nd) E HF HE HS). exact I. }
  fold (process_atom_symbol T) in E.
  destruct (process_atom_symbol T sym) as [[[[[border stereo] a] cap]|]|] eqn:Epa; cbn [bind] in E; try discriminate.
  assert (Hbs : 1 <= border <= 3 /\ 0 <= cap).
  { unfold process_atom_symbol, process_atom_symbol_c in Epa.
    destruct (process_atom_nocache sym) as [[[[o' st'] a']|]|] eqn:Ep; cbn [bind] in Epa; try discriminate.
    destruct (bonding_capacity_c _ a') as [c|]; cbn [bind] in Epa; [|discriminate].
    destruct (c <? 0) eqn:Ec; [discriminate|]. injection Epa as <- <- <- <-. apply Z.ltb_ge in Ec.
    destruct (nocache_stereo _ _ _ _ Ep) as [A B]. auto. }
  destruct Hbs as (Hb & Hcap).
  destruct (next_atom_state border cap state) as [mu nstate] eqn:Ena.
  destruct (nas_spec _ _ _ _ _ Ena ltac:(lia) Hcap Hst) as (Hmu & Hmu0 & Hmub & Hmuc & Hmus & _ & Hns).
  destruct (mu =? 0) eqn:Em0.
  - apply Z.eqb_eq in Em0. subst mu.
    destruct (state =? 0) eqn:Es0.
    + (* a new root *)
      apply Z.eqb_eq in Es0. specialize (Hs0 Es0). subst prev.
      pose proof (forest_root m a cap (push_attr astack ((idx + aidx)%nat, sym)) HF) as F2.
      pose proof (eord_root m a cap (push_attr astack ((idx + aidx)%nat, sym)) HF HE) as E2.
      destruct (add_atom m a cap _ true) as [m2 i] eqn:Eadd.
      assert (Hi : i = natoms m) by (unfold add_atom in Eadd; now inversion Eadd).
      assert (Hm2 : m2 = fst (add_atom m a cap (push_attr astack ((idx + aidx)%nat, sym)) true)) by now rewrite Eadd.
      cbn [fst] in F2, E2.
      assert (Hn2 : natoms m2 = S (natoms m)) by (rewrite Hm2; apply natoms_add_atom).
      rewrite <- Hn2 in E2.
      assert (S2 : Spine m2 (PAtom i)).
      { intros q Hq. injection Hq as Hq'; subst q. split; [lia|]. exists (roots m), (natoms m), 0%nat. split; [rewrite Hm2; reflexivity|rewrite Hi; constructor]. }
      destruct (Cont rest m2 nstate (PAtom i) rings (S nd) E F2 E2 S2) as (F3 & E3 & N3 & K3 & S3).
      { destruct nstate as [k|]; [|exact I]. split; [discriminate|]. split; [lia|intro; lia]. }
      split; [exact F3|]. split; [exact E3|]. split; [lia|]. split; [|intros q Hq; discriminate].
      split; [|intros q Hq; discriminate]. intros x Hx _. destruct K3 as [K3 _].
      rewrite (K3 x ltac:(lia) ltac:(intro X; injection X as X; lia)).
      rewrite Hm2, (DocDerive.row_add_atom m a cap _ true x (f_adj _ HF)). assert (Y : (x <? natoms m)%nat = true) by (apply Nat.ltb_lt; lia). now rewrite Y.
    + assert (nstate = None).
      { destruct nstate as [k|]; [|reflexivity]. exfalso. apply Z.eqb_neq in Es0. destruct Hns as [-> Hk']. lia. }
      subst nstate. exact (Fin _ _ _ _ _ E HF HE HS).
  - (* a bonded atom *)
    apply Z.eqb_neq in Em0.
    destruct (add_atom m a cap (push_attr astack ((idx + aidx)%nat, sym)) false) as [m2 i] eqn:Eadd.
    assert (Hi : i = natoms m) by (unfold add_atom in Eadd; now inversion Eadd).
    assert (Hm2 : m2 = fst (add_atom m a cap (push_attr astack ((idx + aidx)%nat, sym)) false)) by now rewrite Eadd.
    destruct prev as [| |p]; try discriminate.
    destruct (HS p eq_refl) as (Hpl & l & r & d & Hro & HR).
    destruct (add_bond m2 p i mu stereo _) as [m3|] eqn:Eb; cbn [bind] in E; [|discriminate].
    rewrite Hm2, Hi in Eb.
    pose proof (forest_child _ _ _ _ _ _ _ _ _ HF Hpl Eb) as F3.
    pose proof (eord_child _ _ _ _ _ _ _ _ _ _ _ _ HF HE Hpl Hro HR Eb) as E3.
    destruct (child_rows _ _ _ _ _ _ _ _ _ (f_adj _ HF) Hpl Eb) as (Hn3 & Hro3 & _ & Hkids).
    rewrite <- Hn3 in E3.
    assert (K0 : KF m (PAtom p) m3).
    { split.
      - intros x Hx Hp. rewrite Hkids. destruct (Nat.eqb_spec x p) as [->|N]; [congruence|]. assert (Y : (x <? natoms m)%nat = true) by (apply Nat.ltb_lt; lia). now rewrite Y.
      - intros q Hq. injection Hq as Hq'; subst q. exists [natoms m]. now rewrite Hkids, Nat.eqb_refl. }
    assert (S3 : Spine m3 (PAtom i)).
    { intros q Hq. injection Hq as Hq'; subst q. split; [lia|]. exists l, r, (d + 1)%nat. split; [now rewrite Hro3|].
      apply (RM_trans m3 r p i d 1 (RM_frame m p m3 HF K0 r d HR)). econstructor; [|constructor]. rewrite Hkids, Nat.eqb_refl, Hi. reflexivity. }
    destruct (Cont rest m3 nstate (PAtom i) rings (S nd) E F3 E3 S3) as (F4 & E4 & N4 & K4 & S4).
    { destruct nstate as [k|]; [|exact I]. split; [discriminate|]. split; [lia|intro; lia]. }
    destruct K4 as [K4a K4b].
    assert (Hkp : kids (row m' p) = kids (row m p) ++ [natoms m]).
    { rewrite (K4a p ltac:(lia) ltac:(intro X; injection X as X; lia)). now rewrite Hkids, Nat.eqb_refl. }
    split; [exact F4|]. split; [exact E4|]. split; [lia|]. split.
    + split.
      * intros x Hx Hp. rewrite (K4a x ltac:(lia) ltac:(intro X; injection X as X; lia)). destruct K0 as [K0a _]. now apply K0a.
      * intros q Hq. injection Hq as Hq'; subst q. exists [natoms m]. exact Hkp.
    + intros q Hq. injection Hq as Hq'; subst q. split; [lia|].
      destruct (S4 i eq_refl) as (_ & l' & r' & d' & Hro' & HR').
      assert (Hkin : In i (kids (row m' p))) by (rewrite Hkp, Hi; apply in_app_iff; right; now left).
      destruct d' as [|d''].
      * inversion HR'; subst. exfalso. apply (f_root _ F4 (natoms m) p); [rewrite Hro'; apply in_app_iff; right; now left|exact Hkin].
      * destruct (RM_unsnoc _ _ _ _ HR') as (q & l2 & R2 & K2).
        assert (q = p). { apply (f_par _ F4 q p i); [rewrite K2; apply in_app_iff; right; now left|exact Hkin]. }
        subst q. exists l', r', d''. auto.
Qed.
End Derive.

(* ---------- all fragments ---------- *)
Lemma derive_frags_pre T attribute : forall tfrags m rings aidx m' rings',
  derive_frags T attribute tfrags m rings aidx = Ok (m', rings') ->
  Forest m -> eord m = seq 0 (natoms m) -> Forest m' /\ eord m' = seq 0 (natoms m').
Proof.
  induction tfrags as [|[ts bad] rest IH]; intros m rings aidx m' rings' E HF HE.
  - cbn in E. injection E as <- <-. auto.
  - unfold derive_frags in E. cbn [derive_frags_c] in E. fold (derive_frags T) in E. fold (derive T) in E.
    destruct (derive T bad aidx (S (length ts)) (enumerate_from 0 ts) m None 0 PNone rings _ 0) as [[[[ts' m2] rings2] n]|] eqn:Ed; cbn [bind] in E; [|discriminate].
    destruct (derive_pre T bad aidx _ _ _ _ _ _ _ _ _ _ _ _ _ Ed HF HE ltac:(intros p Hp; discriminate) ltac:(discriminate) ltac:(lia) ltac:(auto)) as (F2 & E2 & _).
    exact (IH _ _ _ _ _ E F2 E2).
Qed.

(* ---------- the ring pass does not touch the kids lists ---------- *)
Lemma kids_insert L k b : b_ring b = true -> kids (insert_at L k b) = kids L.
Proof.
  intro Hb. revert k. induction L as [|y L IH]; intros [|k]; unfold kids in *; cbn [insert_at filter map]; rewrite ?Hb; cbn [negb]; try reflexivity.
  destruct (negb (b_ring y)); cbn [map]; now rewrite IH.
Qed.

Lemma kids_add_at_loc L pos b L' : b_ring b = true -> add_at_loc L pos b = Ok L' -> kids L' = kids L.
Proof.
  intros Hb E. unfold add_at_loc in E. destruct (pos =? length L)%nat.
  - injection E as <-. rewrite kids_app. unfold kids at 2. cbn [filter]. rewrite Hb. cbn [negb map]. now rewrite app_nil_r.
  - destruct (pos <? length L)%nat; [|discriminate]. injection E as <-. now apply kids_insert.
Qed.

Lemma kids_set_order L t new : kids (set_order L t new) = kids L.
Proof.
  unfold kids, set_order. induction L as [|e L IH]; [reflexivity|]. cbn [map filter].
  destruct (Nat.eqb (b_dst e) t); cbn [b_ring b_dst]; destruct (negb (b_ring e)); cbn [map b_dst]; now rewrite IH.
Qed.

Lemma kids_upd (ad : list (list dbond)) k g x : (forall L, kids (g L) = kids L) -> kids (nth x (upd ad k g) []) = kids (nth x ad []).
Proof. intro H. rewrite nth_upd. destruct (Nat.eqb k x && (x <? length ad)%nat); [apply H|reflexivity]. Qed.

Lemma kids_ring_bond m a b o sa sb pa pb m' : add_ring_bond m a b o sa sb pa pb = Ok m' ->
  atoms m' = atoms m /\ roots m' = roots m /\ forall x, kids (row m' x) = kids (row m x).
Proof.
  unfold add_ring_bond. intro E.
  destruct (nth_error (adj m) a) as [la|] eqn:Ela; [|discriminate].
  destruct (add_at_loc la pa _) as [la'|] eqn:Ela'; cbn [bind] in E; [|discriminate].
  destruct (nth_error (upd (adj m) a (fun _ => la')) b) as [lb|] eqn:Elb; [|discriminate].
  destruct (add_at_loc lb pb _) as [lb'|] eqn:Elb'; cbn [bind] in E; [|discriminate].
  injection E as <-. split; [reflexivity|]. split; [reflexivity|].
  apply kids_add_at_loc in Ela'; [|reflexivity]. apply kids_add_at_loc in Elb'; [|reflexivity].
  assert (Hla : la = nth a (adj m) []) by (symmetry; now apply nth_error_nth).
  assert (Hlb : lb = nth b (upd (adj m) a (fun _ => la')) []) by (symmetry; now apply nth_error_nth).
  assert (A1 : forall x, kids (nth x (upd (adj m) a (fun _ => la')) []) = kids (row m x)).
  { intro x. rewrite nth_upd. destruct (Nat.eqb_spec a x) as [->|N]; cbn [andb]; [|reflexivity].
    destruct (x <? length (adj m))%nat; [|reflexivity]. rewrite Ela', Hla. reflexivity. }
  intro x. unfold row at 1. cbn [adj]. rewrite nth_upd. destruct (Nat.eqb_spec b x) as [->|N]; cbn [andb]; [|apply A1].
  destruct (x <? length _)%nat; [|apply A1]. rewrite Elb', Hlb. apply A1.
Qed.

Lemma kids_upd_order m a b new m' : update_bond_order m a b new = Ok m' ->
  atoms m' = atoms m /\ roots m' = roots m /\ forall x, kids (row m' x) = kids (row m x).
Proof.
  unfold update_bond_order. intro E. destruct (negb _); [discriminate|].
  destruct (find_bond m (Nat.min a b) (Nat.max a b)) as [e0|]; [|discriminate].
  destruct (new =? b_order e0); [injection E as <-; auto|].
  destruct (b_ring e0).
  - destruct (find_bond m (Nat.max a b) (Nat.min a b)); [|discriminate]. cbn [bind] in E. injection E as <-. split; [reflexivity|]. split; [reflexivity|].
    intro x. unfold row. cbn [adj]. rewrite !kids_upd; [reflexivity| |]; intro L; apply kids_set_order.
  - cbn [bind] in E. injection E as <-. split; [reflexivity|]. split; [reflexivity|].
    intro x. unfold row. cbn [adj]. rewrite kids_upd; [reflexivity|]. intro L; apply kids_set_order.
Qed.

Lemma form_ring_kids m made r m' made' : form_ring (Ok (m, made)) r = Ok (m', made') ->
  atoms m' = atoms m /\ roots m' = roots m /\ forall x, kids (row m' x) = kids (row m x).
Proof.
  unfold form_ring. cbn [bind]. cbv zeta. intro E.
  destruct (Nat.eqb (r_l r) (r_r r)); [injection E as <- _; auto|].
  destruct (get_cap m (r_l r)); cbn [bind] in E; [|discriminate].
  destruct (get_count m (r_l r)); cbn [bind] in E; [|discriminate].
  destruct (get_cap m (r_r r)); cbn [bind] in E; [|discriminate].
  destruct (get_count m (r_r r)); cbn [bind] in E; [|discriminate].
  destruct (_ || _); [injection E as <- _; auto|].
  destruct (has_bond m (r_l r) (r_r r)).
  - destruct (find_bond m (r_l r) (r_r r)) as [e0|]; [|discriminate].
    destruct (update_bond_order m (r_l r) (r_r r) _) as [m2|] eqn:Eu; cbn [bind] in E; [|discriminate]. injection E as <- _.
    exact (kids_upd_order _ _ _ _ _ Eu).
  - destruct (nth_error made (r_l r)) as [pl|]; [|discriminate]. destruct (nth_error made (r_r r)) as [pr|]; [|discriminate].
    destruct (add_ring_bond m (r_l r) (r_r r) _ _ _ pl pr) as [m2|] eqn:Ea; cbn [bind] in E; [|discriminate]. injection E as <- _.
    exact (kids_ring_bond _ _ _ _ _ _ _ _ _ Ea).
Qed.

Lemma form_rings_eord m rings m' : form_rings m rings = Ok m' -> natoms m' = natoms m /\ eord m' = eord m.
Proof.
  unfold form_rings. intro E. destruct (fold_left form_ring rings _) as [[m2 made]|] eqn:Ef; cbn [bind] in E; [|discriminate]. injection E as <-.
  assert (G : forall rings m made m2 made2, fold_left form_ring rings (Ok (m, made)) = Ok (m2, made2) ->
            atoms m2 = atoms m /\ roots m2 = roots m /\ forall x, kids (row m2 x) = kids (row m x)).
  { clear. induction rings as [|r rest IH]; intros m made m2 made2 E; cbn [fold_left] in E; [injection E as <- _; auto|].
    destruct (form_ring (Ok (m, made)) r) as [[m1 made1]|ee] eqn:E1; [|rewrite fold_form_ring_err in E; discriminate].
    destruct (form_ring_kids _ _ _ _ _ E1) as (A1 & R1 & K1). destruct (IH _ _ _ _ E) as (A2 & R2 & K2).
    split; [congruence|]. split; [congruence|]. intro x. now rewrite K2, K1. }
  destruct (G _ _ _ _ _ Ef) as (A & R & K). split; [unfold natoms; now rewrite A|].
  unfold eord. rewrite A, R. apply flat_map_ext. intro r. now rewrite (emits_ext m m2 K).
Qed.

(* ---------- the emission order of a decoded graph ---------- *)
Theorem decoded_eord T s compat attribute m : decode_graph T s compat attribute = Ok m -> eord m = seq 0 (natoms m).
Proof.
  unfold decode_graph, decode_graph_c. fold (derive_frags T). intro E.
  destruct (derive_frags T attribute (tokenize_all s compat) empty_mol [] 0) as [[m1 rings]|] eqn:Ed; cbn [bind] in E; [|discriminate].
  destruct (derive_frags_pre T attribute _ _ _ _ _ _ Ed forest_empty eq_refl) as [F1 E1].
  destruct (form_rings_eord _ _ _ E) as [Hn He]. now rewrite He, Hn.
Qed.
