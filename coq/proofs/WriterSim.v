(* WriterSim.v — C01: the independent reader, run on the tokens of the abstract writer
   (WriterToks.v), rebuilds the decoder's graph: atom by atom in the order written, every
   bond at both ends with its order, ring closures paired through their labels. *)
From Coq Require Import Ascii String List Arith ZArith NArith Bool Lia.
Import ListNotations.
From Selfies Require Import Base Generated Lex Atoms Decoder Reader BaseFacts ConfigFacts DecoderInv DecoderTree DecoderSum
  WriterAtoms WriterLex WriterToks.
Local Open Scope Z_scope.

(* ---------- positions in the emission order ---------- *)
Fixpoint pos (ord : list nat) (x : nat) : nat :=
  match ord with [] => 0%nat | y :: r => if Nat.eqb y x then 0%nat else S (pos r x) end.

Lemma pos_lt ord x : In x ord -> (pos ord x < length ord)%nat.
Proof. induction ord as [|y r IH]; intro H; [destruct H|]. cbn. destruct (Nat.eqb_spec y x); [lia|]. destruct H; [contradiction|]. specialize (IH H). lia. Qed.

Lemma nth_pos ord x : In x ord -> nth_error ord (pos ord x) = Some x.
Proof. induction ord as [|y r IH]; intro H; [destruct H|]. cbn. destruct (Nat.eqb_spec y x) as [->|N]; [reflexivity|]. destruct H; [contradiction|]. now apply IH. Qed.

Lemma pos_app_in ord l x : In x ord -> pos (ord ++ l) x = pos ord x.
Proof. induction ord as [|y r IH]; intro H; [destruct H|]. cbn. destruct (Nat.eqb_spec y x); [reflexivity|]. destruct H; [contradiction|]. now rewrite IH. Qed.

Lemma pos_app_new ord x : ~ In x ord -> pos (ord ++ [x]) x = length ord.
Proof.
  induction ord as [|y r IH]; intro H; cbn; [now rewrite Nat.eqb_refl|].
  destruct (Nat.eqb_spec y x) as [->|N]; [exfalso; apply H; now left|]. rewrite IH; [reflexivity|]. intro X. apply H. now right.
Qed.

Lemma pos_inj ord x y : In x ord -> In y ord -> pos ord x = pos ord y -> x = y.
Proof. intros Hx Hy E. pose proof (nth_pos ord x Hx) as A. pose proof (nth_pos ord y Hy) as B. rewrite E in A. congruence. Qed.

(* updating the image of one element of a duplicate-free list *)
Lemma map_upd_pos {B} (f : nat -> B) (g : B -> B) ord x : NoDup ord -> In x ord ->
  upd (map f ord) (pos ord x) g = map (fun y => if Nat.eqb y x then g (f y) else f y) ord.
Proof.
  induction ord as [|y r IH]; intros Hnd Hin; [destruct Hin|]. inversion Hnd as [|? ? Hy Hr]; subst.
  cbn [map pos]. destruct (Nat.eqb_spec y x) as [->|N].
  - cbn [upd]. f_equal. apply map_ext_in. intros z Hz. destruct (Nat.eqb_spec z x) as [->|]; [contradiction|reflexivity].
  - destruct Hin as [E|Hin]; [contradiction|]. cbn [upd]. f_equal. now apply IH.
Qed.

(* ---------- reading a graph entry as a reader slot ---------- *)
Definition pend_of (e : dbond) : option (Z * option N) :=
  match btoks (b_order e) (b_stereo e) with [RBond o mk] => Some (o, mk) | _ => None end.
Definition mark_of (e : dbond) : option N := match pend_of e with Some (_, mk) => mk | None => None end.
Definition mkslot (to : nat) (e : dbond) (ring : bool) : nslot :=
  {| sl_to := to; sl_order2 := 2 * b_order e; sl_mark := mark_of e; sl_ring := ring |}.

Lemma btoks_cases o st : 1 <= o <= 3 ->
  (btoks o st = [] /\ o = 1) \/ exists mk, btoks o st = [RBond (2 * o) mk].
Proof.
  intro H. unfold btoks. destruct (Z.eqb_spec o 1) as [->|].
  - destruct st as [c|]; [|now left]. destruct (is_stereo_char c); [right; eauto|now left].
  - destruct (Z.eqb_spec o 2) as [->|]; [right; eauto|]. destruct (Z.eqb_spec o 3) as [->|]; [right; eauto|lia].
Qed.

Lemma pend_order e : 1 <= b_order e <= 3 ->
  match pend_of e with Some (o, mk) => o = 2 * b_order e /\ mk = mark_of e | None => b_order e = 1 /\ mark_of e = None end.
Proof.
  intro H. unfold mark_of, pend_of. destruct (btoks_cases (b_order e) (b_stereo e) H) as [[-> E]|(mk & ->)]; auto.
Qed.

(* index of the entry of a row that leads to x *)
Fixpoint index_dst (l : list dbond) (x : nat) : nat :=
  match l with [] => 0%nat | e :: r => if Nat.eqb (b_dst e) x then 0%nat else S (index_dst r x) end.

Lemma index_dst_nth l k e : NoDup (map b_dst l) -> nth_error l k = Some e -> index_dst l (b_dst e) = k.
Proof.
  revert k. induction l as [|e0 r IH]; intros k Hnd E; [destruct k; discriminate|]. cbn [map] in Hnd. inversion Hnd as [|? ? H0 Hr]; subst.
  destruct k as [|k]; cbn in E.
  - inversion E; subst. cbn. now rewrite Nat.eqb_refl.
  - cbn. destruct (Nat.eqb_spec (b_dst e0) (b_dst e)) as [X|]; [|f_equal; now apply IH].
    exfalso. apply H0. rewrite X. apply in_map. eapply nth_error_In; eassumption.
Qed.

Lemma index_dst_found l x : (index_dst l x < length l)%nat -> exists e, nth_error l (index_dst l x) = Some e /\ b_dst e = x.
Proof.
  induction l as [|e0 r IH]; cbn; intro H; [lia|]. destruct (Nat.eqb_spec (b_dst e0) x); [exists e0; auto|]. apply IH. lia.
Qed.

(* ---------- association lists of the reader ---------- *)
Lemma lookupN_in {A} k (l : list (N * A)) v : lookupN k l = Some v -> In (k, v) l.
Proof.
  induction l as [|[k' v'] r IH]; cbn; [discriminate|]. destruct (N.eqb_spec k k') as [->|]; [intro H; inversion H; now left|].
  intro H. right. now apply IH.
Qed.

Lemma lookupN_none {A} k (l : list (N * A)) : (forall v, ~ In (k, v) l) -> lookupN k l = None.
Proof.
  induction l as [|[k' v'] r IH]; intro H; cbn; [reflexivity|]. destruct (N.eqb_spec k k') as [->|].
  - exfalso. apply (H v'). now left.
  - apply IH. intros v Hv. apply (H v). now right.
Qed.

Lemma lookupN_nodup {A} k (l : list (N * A)) v : NoDup (map fst l) -> In (k, v) l -> lookupN k l = Some v.
Proof.
  induction l as [|[k' v'] r IH]; intros Hn Hin; [destruct Hin|]. cbn [map fst] in Hn. inversion Hn as [|? ? Hk Hn']; subst. cbn.
  destruct Hin as [E|Hin].
  - inversion E; subst. now rewrite N.eqb_refl.
  - destruct (N.eqb_spec k k') as [->|]; [|now apply IH]. exfalso. apply Hk. apply in_map_iff. exists (k', v). auto.
Qed.

Lemma removeN_in {A} k (l : list (N * A)) : NoDup (map fst l) ->
  NoDup (map fst (removeN k l)) /\ forall k0 v, In (k0, v) (removeN k l) <-> In (k0, v) l /\ k0 <> k.
Proof.
  induction l as [|[k' v'] r IH]; intro Hn; cbn; [split; [constructor|intros; tauto]|].
  cbn [map fst] in Hn. inversion Hn as [|? ? Hk Hn']; subst. destruct (IH Hn') as [IA IB].
  destruct (N.eqb_spec k k') as [->|N0].
  - split; [exact Hn'|]. intros k0 v. split.
    + intro H. split; [now right|]. intro E. subst. apply Hk. apply in_map_iff. exists (k', v). auto.
    + intros [[E|H] Hne]; [inversion E; subst; contradiction|exact H].
  - split.
    + cbn [map fst]. constructor; [|exact IA]. intro H. apply in_map_iff in H as ([k1 v1] & E1 & H1). cbn in E1. subst k1.
      apply IB in H1 as [H1 _]. apply Hk. apply in_map_iff. exists (k', v1). auto.
    + intros k0 v. cbn [In]. rewrite IB. split.
      * intros [E|[H Hne]]; [inversion E; subst; split; [now left|congruence]|split; [now right|exact Hne]].
      * intros [[E|H] Hne]; [now left|right; auto].
Qed.

Definition key_of (x y : nat) : nat * nat := (Nat.min x y, Nat.max x y).
Lemma key_of_inj a b c d : key_of a b = key_of c d -> (a = c /\ b = d) \/ (a = d /\ b = c).
Proof. unfold key_of. intro H. inversion H. lia. Qed.
Lemma key_of_sym a b : key_of a b = key_of b a.
Proof. unfold key_of. f_equal; lia. Qed.

Lemma upd_app_r {A} (ps l : list A) k g : upd (ps ++ l) (length ps + k) g = ps ++ upd l k g.
Proof. induction ps as [|a ps IH]; cbn; [reflexivity|]. now rewrite IH. Qed.

Lemma map_upd_at {A B} (f f' : A -> B) (l : list A) k a : nth_error l k = Some a ->
  (forall j b, nth_error l j = Some b -> j <> k -> f' b = f b) ->
  map f' l = upd (map f l) k (fun _ => f' a).
Proof.
  revert k. induction l as [|x l IH]; intros [|k] E H; cbn in *; try discriminate.
  - inversion E; subst. f_equal. apply map_ext_in. intros b Hb. destruct (In_nth_error _ _ Hb) as [j Ej]. apply (H (S j) b Ej). lia.
  - f_equal; [apply (H 0%nat x eq_refl); lia|]. apply IH; [exact E|]. intros j b Ej Hj. apply (H (S j) b Ej). lia.
Qed.

Lemma nth_error_firstn {A} (l : list A) n j : (j < n)%nat -> nth_error (firstn n l) j = nth_error l j.
Proof. revert n j. induction l as [|a l IH]; intros [|n] [|j] H; cbn; try reflexivity; try lia. apply IH. lia. Qed.

Section Sim.
Variable m : dmol.
Hypothesis Hb : forall i e, In e (row m i) -> (b_dst e < natoms m)%nat /\ 1 <= b_order e <= 3 /\ (b_ring e = false -> (i < b_dst e)%nat).
Hypothesis Hnd : forall i, NoDup (map b_dst (row m i)).
Hypothesis Hsym : forall i e, In e (row m i) -> b_ring e = true ->
  exists e', In e' (row m (b_dst e)) /\ b_dst e' = i /\ b_order e' = b_order e /\ b_ring e' = true.
Hypothesis HT : TreeInv m.
Hypothesis Hadj : length (adj m) = natoms m.

(* ---------- the parent of an atom ---------- *)
Definition is_par (x : nat) (e : dbond) : bool := negb (b_ring e) && Nat.eqb (b_dst e) x.

Fixpoint par_in (ps : list nat) (x : nat) : option (nat * dbond) :=
  match ps with
  | [] => None
  | p :: r => match find (is_par x) (row m p) with Some e => Some (p, e) | None => par_in r x end
  end.
Definition par (x : nat) : option (nat * dbond) := par_in (seq 0 (natoms m)) x.

Lemma par_in_some ps x p e : par_in ps x = Some (p, e) -> In p ps /\ In e (row m p) /\ b_ring e = false /\ b_dst e = x.
Proof.
  induction ps as [|q r IH]; cbn; [discriminate|]. destruct (find (is_par x) (row m q)) as [e0|] eqn:Ef.
  - intro H. inversion H; subst. apply find_some in Ef as [A B]. unfold is_par in B. apply andb_true_iff in B as [B1 B2].
    apply negb_true_iff in B1. apply Nat.eqb_eq in B2. auto.
  - intro H. destruct (IH H) as (A & B). split; [now right|exact B].
Qed.

Lemma par_in_none ps x : par_in ps x = None -> forall p, In p ps -> ~ child m p x.
Proof.
  induction ps as [|q r IH]; cbn; intros H p Hp; [destruct Hp|]. destruct (find (is_par x) (row m q)) as [e0|] eqn:Ef; [discriminate|].
  destruct Hp as [<-|Hp]; [|now apply IH]. intros (e & He & Hr & Hd).
  eapply find_none in Ef; [|exact He]. unfold is_par in Ef. rewrite Hr, Hd, Nat.eqb_refl in Ef. discriminate.
Qed.

Lemma row_nil_big i : (natoms m <= i)%nat -> row m i = [].
Proof. intro H. unfold row. apply nth_overflow. lia. Qed.

Lemma par_some x p e : par x = Some (p, e) -> In e (row m p) /\ b_ring e = false /\ b_dst e = x /\ (p < x)%nat.
Proof.
  intro H. apply par_in_some in H as (_ & A & B & C). repeat split; auto. destruct (Hb p e A) as (_ & _ & F). rewrite <- C. now apply F.
Qed.

Lemma par_of_child p x e : In e (row m p) -> b_ring e = false -> b_dst e = x -> par x = Some (p, e).
Proof.
  intros He Hr Hd. destruct (par x) as [[q e0]|] eqn:Ep.
  - destruct (par_some _ _ _ Ep) as (A & B & C & _).
    assert (q = p) by (apply (t_par _ HT q p x); [exists e0; auto|exists e; auto]). subst q. f_equal. f_equal.
    (* same row, same target *)
    assert (G : forall l a b, NoDup (map b_dst l) -> In a l -> In b l -> b_dst a = b_dst b -> a = b).
    { induction l as [|z l IH]; intros a b Hn Ha Hb' E; [destruct Ha|]. cbn [map] in Hn. inversion Hn as [|? ? Hz Hn']; subst.
      destruct Ha as [<-|Ha]; destruct Hb' as [<-|Hb']; auto.
      - exfalso. apply Hz. rewrite E. now apply in_map.
      - exfalso. apply Hz. rewrite <- E. now apply in_map. }
    apply (G (row m p)); auto. congruence.
  - exfalso. assert (Hp : (p < natoms m)%nat).
    { destruct (Nat.lt_ge_cases p (natoms m)) as [L|L]; [exact L|]. rewrite (row_nil_big p L) in He. destruct He. }
    apply (par_in_none _ _ Ep p); [apply in_seq; lia|exists e; auto].
Qed.

Lemma par_none_root x : (x < natoms m)%nat -> par x = None -> In x (roots m).
Proof.
  intros Hx Hp. destruct (t_rooted _ HT x Hx) as [H|[i (e & He & Hr & Hd)]]; [exact H|].
  rewrite (par_of_child i x e He Hr Hd) in Hp. discriminate.
Qed.

Lemma root_par_none x : In x (roots m) -> par x = None.
Proof.
  intro H. destruct (par x) as [[p e]|] eqn:Ep; [|reflexivity]. destruct (par_some _ _ _ Ep) as (A & B & C & _).
  exfalso. apply (t_rootfree _ HT x p H). exists e. auto.
Qed.

(* ---------- what the reader must hold after a prefix of the traversal ---------- *)
(* ord: atoms written so far, in order; pr x: how many entries of row x have been written *)
Definition upf (pr : nat -> nat) (z v : nat) : nat -> nat := fun y => if Nat.eqb y z then v else pr y.

Definition closedb (pr : nat -> nat) (x : nat) (e : dbond) : bool := (index_dst (row m (b_dst e)) x <? pr (b_dst e))%nat.

Definition ent (ord : list nat) (pr : nat -> nat) (x : nat) (e : dbond) : option nslot :=
  if b_ring e then (if closedb pr x e then Some (mkslot (pos ord (b_dst e)) e true) else None)
  else Some (mkslot (pos ord (b_dst e)) e false).

Definition pslot (ord : list nat) (x : nat) : list (option nslot) :=
  match par x with Some (p, e) => [Some (mkslot (pos ord p) e false)] | None => [] end.
Definition plen (x : nat) : nat := match par x with Some _ => 1%nat | None => 0%nat end.

Definition rowspec (ord : list nat) (pr : nat -> nat) (x : nat) : list (option nslot) :=
  pslot ord x ++ map (ent ord pr x) (firstn (pr x) (row m x)).

Definition dummy_atom : satom := {| sa_elem := []; sa_arom := false; sa_iso := None; sa_chi := None; sa_h := None; sa_charge := 0 |}.
Definition aat (x : nat) : satom := match nth_error (atoms m) x with Some (a, _, _) => abs_atom a | None => dummy_atom end.

Lemma plen_pslot ord x : length (pslot ord x) = plen x.
Proof. unfold pslot, plen. destruct (par x) as [[p e]|]; reflexivity. Qed.

(* the written part is closed: parents before children, written entries lead to written atoms *)
Record EM (ord : list nat) (pr : nat -> nat) : Prop := {
  em_nodup : NoDup ord;
  em_zero : forall y, ~ In y ord -> pr y = 0%nat;
  em_le : forall y, (pr y <= length (row m y))%nat;
  em_par : forall y p e, In y ord -> par y = Some (p, e) -> In p ord /\ (index_dst (row m p) y < pr p)%nat;
  em_child : forall y k e, nth_error (row m y) k = Some e -> (k < pr y)%nat -> b_ring e = false -> In (b_dst e) ord;
  em_lt : forall y, In y ord -> (y < natoms m)%nat
}.

(* ring bonds written at exactly one end are the open labels *)

Definition OpenEntry (ord : list nat) (pr : nat -> nat) (log : list (nat * nat)) (lab : N) (v : nat * nat * option (Z * option N)) : Prop :=
  exists i x k e, nth_error log i = Some (key_of x (b_dst e)) /\ lab = N.of_nat (S i) /\
    nth_error (row m x) k = Some e /\ b_ring e = true /\ (k < pr x)%nat /\ closedb pr x e = false /\
    v = (pos ord x, (plen x + k)%nat, pend_of e).

Record OT (ord : list nat) (pr : nat -> nat) (log : list (nat * nat)) (tbl : list (N * (nat * nat * option (Z * option N)))) : Prop := {
  ot_nodup : NoDup (map fst tbl);
  ot_in : forall lab v, In (lab, v) tbl <-> OpenEntry ord pr log lab v
}.

(* the writer's ring log lists exactly the ring bonds with a written end *)
Record LG (pr : nat -> nat) (log : list (nat * nat)) : Prop := {
  lg_nodup : NoDup log;
  lg_in : forall key, In key log <-> exists x k e, nth_error (row m x) k = Some e /\ b_ring e = true /\ (k < pr x)%nat /\ key = key_of x (b_dst e)
}.

Record RI (ord : list nat) (pr : nat -> nat) (log : list (nat * nat)) (st : rstate) : Prop := {
  ri_atoms : r_atoms st = map aat ord;
  ri_rows : r_nbrs st = map (rowspec ord pr) ord;
  ri_em : EM ord pr;
  ri_ot : OT ord pr log (r_open st);
  ri_lg : LG pr log
}.

(* ---------- entries of a row: the one at a given index, and uniqueness of targets ---------- *)
Lemma row_unique x k1 k2 e1 e2 : nth_error (row m x) k1 = Some e1 -> nth_error (row m x) k2 = Some e2 -> b_dst e1 = b_dst e2 -> k1 = k2.
Proof.
  intros E1 E2 Ed. rewrite <- (index_dst_nth _ _ _ (Hnd x) E1), <- (index_dst_nth _ _ _ (Hnd x) E2). now rewrite Ed.
Qed.

Lemma firstn_snoc {A} (l : list A) k e : nth_error l k = Some e -> firstn (S k) l = firstn k l ++ [e].
Proof.
  revert k. induction l as [|a l IH]; intros [|k] E; cbn in *; try discriminate.
  - inversion E. reflexivity.
  - f_equal. now apply IH.
Qed.

Lemma in_firstn_nth {A} (l : list A) k x : In x (firstn k l) -> exists j, (j < k)%nat /\ nth_error l j = Some x.
Proof.
  revert k. induction l as [|a l IH]; intros [|k] H; cbn in H; try destruct H.
  - exists 0%nat. split; [lia|now subst].
  - destruct (IH k H) as (j & Hj & E). exists (S j). split; [lia|exact E].
Qed.

(* ---------- stability of what is already written ---------- *)
Lemma aat_arom x : sa_arom (aat x) = false.
Proof. unfold aat. destruct (nth_error (atoms m) x) as [[[a c] t]|]; reflexivity. Qed.

(* an entry keeps its reading when the order grows and [pr] changes only at z, provided the change at z is
   not the partner of this entry *)
Lemma ent_stable ord ord' pr pr' x e z :
  (forall y, In y ord -> pos ord' y = pos ord y) ->
  (forall y, y <> z -> pr' y = pr y) -> (pr z <= pr' z)%nat ->
  (b_ring e = false -> In (b_dst e) ord) ->
  (forall y, (0 < pr y)%nat -> In y ord) ->
  (b_ring e = true -> b_dst e = z -> (index_dst (row m z) x < pr z)%nat \/ (pr' z <= index_dst (row m z) x)%nat) ->
  ent ord' pr' x e = ent ord pr x e.
Proof.
  intros Hpos Hpr Hle Htree Hpos0 Hz. unfold ent. destruct (b_ring e) eqn:Er.
  - assert (Ec : closedb pr' x e = closedb pr x e).
    { unfold closedb. destruct (Nat.eq_dec (b_dst e) z) as [E|N]; [|now rewrite Hpr].
      rewrite E. destruct (Hz eq_refl E) as [H|H].
      - assert (A : (index_dst (row m z) x <? pr z)%nat = true) by (apply Nat.ltb_lt; exact H).
        assert (B : (index_dst (row m z) x <? pr' z)%nat = true) by (apply Nat.ltb_lt; lia). now rewrite A, B.
      - assert (A : (index_dst (row m z) x <? pr z)%nat = false) by (apply Nat.ltb_ge; lia).
        assert (B : (index_dst (row m z) x <? pr' z)%nat = false) by (apply Nat.ltb_ge; exact H). now rewrite A, B. }
    rewrite Ec. destruct (closedb pr x e) eqn:Ecl; [|reflexivity].
    rewrite Hpos; [reflexivity|]. apply Hpos0. unfold closedb in Ecl. apply Nat.ltb_lt in Ecl. lia.
  - rewrite Hpos; [reflexivity|]. now apply Htree.
Qed.

Lemma nth_firstn_in {A} (l : list A) k e : In e (firstn k l) -> In e l.
Proof. intro H. rewrite <- (firstn_skipn k l). apply in_app_iff. now left. Qed.

(* a whole written row keeps its reading *)
Lemma rowspec_stable ord ord' pr pr' y z : EM ord pr -> In y ord -> y <> z ->
  (forall w, In w ord -> pos ord' w = pos ord w) ->
  (forall w, w <> z -> pr' w = pr w) -> (pr z <= pr' z)%nat ->
  (forall k e, nth_error (row m y) k = Some e -> (k < pr y)%nat -> b_ring e = true -> b_dst e = z ->
     (index_dst (row m z) y < pr z)%nat \/ (pr' z <= index_dst (row m z) y)%nat) ->
  rowspec ord' pr' y = rowspec ord pr y.
Proof.
  intros Hem Hy Hyz Hpos Hpr Hle Hz. unfold rowspec. rewrite (Hpr y Hyz). f_equal.
  - unfold pslot. destruct (par y) as [[p e]|] eqn:Ep; [|reflexivity].
    destruct (em_par _ _ Hem y p e Hy Ep) as [Hp _]. now rewrite Hpos.
  - apply map_ext_in. intros e He. destruct (in_firstn_nth _ _ _ He) as (k & Hk & Ek).
    apply (ent_stable ord ord' pr pr' y e z); auto.
    + intro Hr. exact (em_child _ _ Hem y k e Ek Hk Hr).
    + intros w Hw. destruct (in_dec Nat.eq_dec w ord) as [H|H]; [exact H|]. rewrite (em_zero _ _ Hem w H) in Hw. lia.
    + intros Hr Hd. exact (Hz k e Ek Hk Hr Hd).
Qed.

Lemma em_pos0 ord pr : EM ord pr -> forall w, (0 < pr w)%nat -> In w ord.
Proof. intros Hem w Hw. destruct (in_dec Nat.eq_dec w ord) as [H|H]; [exact H|]. rewrite (em_zero _ _ Hem w H) in Hw. lia. Qed.

Lemma upf_same pr z v : upf pr z v z = v. Proof. unfold upf. now rewrite Nat.eqb_refl. Qed.
Lemma upf_other pr z v y : y <> z -> upf pr z v y = pr y.
Proof. intro H. unfold upf. destruct (Nat.eqb_spec y z); [contradiction|reflexivity]. Qed.

(* ---------- step: an atom written after the bond from its parent ---------- *)
Lemma step_child ord pr log st p e :
  RI ord pr log st -> In p ord -> nth_error (row m p) (pr p) = Some e -> b_ring e = false -> ~ In (b_dst e) ord ->
  r_prev st = Some (pos ord p) -> r_pend st = pend_of e ->
  exists st', step st (RAtom (aat (b_dst e))) = Some st' /\
    RI (ord ++ [b_dst e]) (upf pr p (S (pr p))) log st' /\
    r_prev st' = Some (length ord) /\ r_stack st' = r_stack st /\ r_pend st' = None.
Proof.
  intros [Ha Hr Hem Hot Hlg] Hp Ee Hre Hc Hprev Hpend. set (c := b_dst e) in *. set (k := pr p) in *.
  assert (Hein : In e (row m p)) by (eapply nth_error_In; exact Ee).
  destruct (Hb p e Hein) as (Hcn & Hoe & Hfw). specialize (Hfw Hre).
  assert (Hcp : c <> p) by (fold c in Hfw; lia).
  assert (Hparc : par c = Some (p, e)) by (apply (par_of_child p c e Hein Hre eq_refl)).
  assert (Hklen : (k < length (row m p))%nat) by (apply nth_error_Some; congruence).
  set (ord' := ord ++ [c]). set (pr' := upf pr p (S k)).
  assert (Hpos : forall w, In w ord -> pos ord' w = pos ord w) by (intros; now apply pos_app_in).
  assert (Hposc : pos ord' c = length ord) by (now apply pos_app_new).
  assert (Hpr : forall w, w <> p -> pr' w = pr w) by (intros; now apply upf_other).
  assert (Hprp : pr' p = S k) by apply upf_same.
  unfold step. rewrite Hprev.
  assert (Epa : nth_error (r_atoms st) (pos ord p) = Some (aat p)).
  { rewrite Ha. rewrite nth_error_map, (nth_pos ord p Hp). reflexivity. }
  rewrite Epa, Hpend.
  assert (Eom : (match pend_of e with Some b => b | None => (default_order (aat p) (aat c), None) end) = (2 * b_order e, mark_of e)).
  { pose proof (pend_order e Hoe) as PO. destruct (pend_of e) as [[o mk]|]; [destruct PO as [-> ->]; reflexivity|].
    destruct PO as [-> ->]. unfold default_order. now rewrite !aat_arom. }
  rewrite Eom. eexists. split; [reflexivity|]. cbn [r_prev r_stack r_pend].
  assert (Hlen : length (r_atoms st) = length ord) by (rewrite Ha; apply map_length).
  split; [|rewrite Hlen; auto].
  (* the invariant after the step *)
  assert (Hem' : EM ord' pr').
  { constructor.
    - apply NoDup_app_single; [exact (em_nodup _ _ Hem)|exact Hc].
    - intros y Hy. assert (Hy1 : ~ In y ord) by (intro; apply Hy; apply in_app_iff; now left).
      assert (y <> p) by (intro; subst; contradiction). rewrite Hpr by assumption. exact (em_zero _ _ Hem y Hy1).
    - intro y. destruct (Nat.eq_dec y p) as [->|N]; [rewrite Hprp; lia|rewrite Hpr by exact N; apply (em_le _ _ Hem)].
    - intros y q eq Hy Hq. apply in_app_iff in Hy as [Hy|[<-|[]]].
      + destruct (em_par _ _ Hem y q eq Hy Hq) as [A B]. split; [apply in_app_iff; now left|].
        destruct (Nat.eq_dec q p) as [->|N]; [rewrite Hprp; fold k in B; lia|now rewrite Hpr].
      + rewrite Hparc in Hq. inversion Hq; subst q eq. split; [apply in_app_iff; now left|].
        rewrite Hprp. unfold c. rewrite (index_dst_nth _ _ _ (Hnd p) Ee). fold k. lia.
    - intros y j ej Ej Hj Hrj. destruct (Nat.eq_dec y p) as [->|N].
      + rewrite Hprp in Hj. destruct (Nat.eq_dec j k) as [->|Nj].
        * rewrite Ee in Ej. inversion Ej; subst ej. apply in_app_iff. right. now left.
        * apply in_app_iff. left. apply (em_child _ _ Hem p j ej Ej); [fold k; lia|exact Hrj].
      + rewrite Hpr in Hj by exact N. apply in_app_iff. left. exact (em_child _ _ Hem y j ej Ej Hj Hrj).
    - intros y Hy. apply in_app_iff in Hy as [Hy|[<-|[]]]; [exact (em_lt _ _ Hem y Hy)|exact Hcn]. }
  (* no written ring entry has the new atom's parent entry as its partner *)
  assert (Hnop : forall y, In y ord -> (index_dst (row m p) y < pr p)%nat \/ (pr' p <= index_dst (row m p) y)%nat).
  { intros y Hy. fold k. rewrite Hprp. destruct (Nat.lt_ge_cases (index_dst (row m p) y) k) as [L|L]; [now left|right].
    destruct (Nat.eq_dec (index_dst (row m p) y) k) as [E|N]; [|lia]. exfalso.
    destruct (index_dst_found (row m p) y ltac:(lia)) as (e0 & E0 & Ed). rewrite E, Ee in E0. inversion E0; subst e0. fold c in Ed. subst y. contradiction. }
  constructor; cbn [r_atoms r_nbrs r_open].
  - rewrite Ha. unfold ord'. now rewrite map_app.
  - unfold ord'. rewrite map_app. cbn [map]. f_equal.
    + (* the rows of the atoms written before *)
      rewrite Hr, (map_upd_pos _ _ ord p (em_nodup _ _ Hem) Hp). apply map_ext_in. intros y Hy.
      destruct (Nat.eqb_spec y p) as [->|N].
      * unfold rowspec. rewrite Hprp. fold k. rewrite (firstn_snoc _ _ _ Ee), map_app, app_assoc. cbn [map]. f_equal.
        -- f_equal.
           ++ unfold pslot. destruct (par p) as [[q eq]|] eqn:Eq; [|reflexivity].
              destruct (em_par _ _ Hem p q eq Hp Eq) as [Hq _]. now rewrite Hpos.
           ++ apply map_ext_in. intros e0 He0. destruct (in_firstn_nth _ _ _ He0) as (j & Hj & Ej).
              symmetry. apply (ent_stable ord ord' pr pr' p e0 p);
                [exact Hpos|exact Hpr|fold k; lia|intro Hr0; exact (em_child _ _ Hem p j e0 Ej Hj Hr0)|apply (em_pos0 _ _ Hem)|].
              intros _ Hd. exfalso. apply (t_noself _ HT p e0); [eapply nth_error_In; exact Ej|exact Hd].
        -- unfold ent. rewrite Hre. fold c. fold ord'. rewrite Hposc, Hlen. reflexivity.
      * fold ord'. symmetry. apply (rowspec_stable ord ord' pr pr' y p Hem Hy N Hpos Hpr); [fold k; lia|].
        intros j ej Ej Hj Hrj Hdj. now apply Hnop.
    + (* the row of the new atom *)
      fold ord'. unfold rowspec, pslot. rewrite Hparc, (Hpos p Hp). rewrite (Hpr c Hcp), (em_zero _ _ Hem c Hc). reflexivity.
  - exact Hem'.
  - (* open labels: unchanged *)
    destruct Hot as [On Oi]. constructor; [exact On|]. intros lab v. rewrite Oi. unfold OpenEntry. split.
    + intros (i & x & j & ej & E1 & E2 & E3 & E4 & E5 & E6 & E7). exists i, x, j, ej.
      assert (Hx : In x ord) by (apply (em_pos0 _ _ Hem); lia).
      repeat split; auto.
      * destruct (Nat.eq_dec x p) as [->|N]; [rewrite Hprp; fold k in E5; lia|now rewrite Hpr].
      * unfold closedb in *. destruct (Nat.eq_dec (b_dst ej) p) as [Ed|Nd]; [|now rewrite Hpr].
        rewrite Ed in *. apply Nat.ltb_ge in E6. apply Nat.ltb_ge. destruct (Hnop x Hx); lia.
      * rewrite E7. now rewrite Hpos.
    + intros (i & x & j & ej & E1 & E2 & E3 & E4 & E5 & E6 & E7). exists i, x, j, ej.
      assert (Hj : (j < pr x)%nat).
      { destruct (Nat.eq_dec x p) as [->|N]; [|now rewrite Hpr in E5].
        rewrite Hprp in E5. destruct (Nat.eq_dec j k) as [->|Nj]; [|fold k; lia]. rewrite Ee in E3. inversion E3; subst ej. congruence. }
      assert (Hx : In x ord) by (apply (em_pos0 _ _ Hem); lia).
      repeat split; auto.
      * unfold closedb in *. apply Nat.ltb_ge in E6. apply Nat.ltb_ge.
        destruct (Nat.eq_dec (b_dst ej) p) as [Ed|Nd]; [rewrite Ed in *; rewrite Hprp in E6; fold k; lia|now rewrite Hpr in E6].
      * rewrite E7. now rewrite Hpos.
  - (* the ring log: unchanged *)
    destruct Hlg as [Ln Li]. constructor; [exact Ln|]. intro key. rewrite Li. split.
    + intros (x & j & ej & E1 & E2 & E3 & E4). exists x, j, ej. repeat split; auto.
      destruct (Nat.eq_dec x p) as [->|N]; [rewrite Hprp; fold k in E3; lia|now rewrite Hpr].
    + intros (x & j & ej & E1 & E2 & E3 & E4). exists x, j, ej. repeat split; auto.
      destruct (Nat.eq_dec x p) as [->|N]; [|now rewrite Hpr in E3].
      rewrite Hprp in E3. destruct (Nat.eq_dec j k) as [->|Nj]; [|fold k; lia]. rewrite Ee in E1. inversion E1; subst ej. congruence.
Qed.

(* ---------- step: the first atom of a fragment ---------- *)
Lemma step_root ord pr log st c :
  RI ord pr log st -> par c = None -> ~ In c ord -> (c < natoms m)%nat -> r_prev st = None -> r_pend st = None ->
  exists st', step st (RAtom (aat c)) = Some st' /\ RI (ord ++ [c]) pr log st' /\
    r_prev st' = Some (length ord) /\ r_stack st' = r_stack st /\ r_pend st' = None.
Proof.
  intros [Ha Hr Hem Hot Hlg] Hparc Hc Hcn Hprev Hpend. set (ord' := ord ++ [c]).
  assert (Hpos : forall w, In w ord -> pos ord' w = pos ord w) by (intros; now apply pos_app_in).
  unfold step. rewrite Hprev, Hpend. eexists. split; [reflexivity|]. cbn [r_prev r_stack r_pend].
  assert (Hlen : length (r_atoms st) = length ord) by (rewrite Ha; apply map_length).
  split; [|rewrite Hlen; auto].
  assert (Hem' : EM ord' pr).
  { constructor.
    - apply NoDup_app_single; [exact (em_nodup _ _ Hem)|exact Hc].
    - intros y Hy. apply (em_zero _ _ Hem). intro; apply Hy; apply in_app_iff; now left.
    - apply (em_le _ _ Hem).
    - intros y q eq Hy Hq. apply in_app_iff in Hy as [Hy|[<-|[]]]; [|congruence].
      destruct (em_par _ _ Hem y q eq Hy Hq) as [A B]. split; [apply in_app_iff; now left|exact B].
    - intros y j ej Ej Hj Hrj. apply in_app_iff. left. exact (em_child _ _ Hem y j ej Ej Hj Hrj).
    - intros y Hy. apply in_app_iff in Hy as [Hy|[<-|[]]]; [exact (em_lt _ _ Hem y Hy)|exact Hcn]. }
  constructor; cbn [r_atoms r_nbrs r_open].
  - rewrite Ha. unfold ord'. now rewrite map_app.
  - unfold ord'. rewrite map_app. cbn [map]. f_equal.
    + rewrite Hr. apply map_ext_in. intros y Hy. fold ord'. symmetry.
      apply (rowspec_stable ord ord' pr pr y c Hem Hy); auto; [intro; subst; contradiction|].
      intros. right. rewrite (em_zero _ _ Hem c Hc). lia.
    + fold ord'. unfold rowspec, pslot. rewrite Hparc, (em_zero _ _ Hem c Hc). reflexivity.
  - exact Hem'.
  - destruct Hot as [On Oi]. constructor; [exact On|]. intros lab v. rewrite Oi. unfold OpenEntry.
    split; intros (i & x & j & ej & E1 & E2 & E3 & E4 & E5 & E6 & E7); exists i, x, j, ej;
      (assert (Hx : In x ord) by (apply (em_pos0 _ _ Hem); lia)); repeat split; auto; rewrite E7; now rewrite Hpos.
  - exact Hlg.
Qed.

(* the partner entry of a written ring entry *)
Lemma partner x k e : nth_error (row m x) k = Some e -> b_ring e = true ->
  exists e', nth_error (row m (b_dst e)) (index_dst (row m (b_dst e)) x) = Some e' /\ b_dst e' = x /\ b_ring e' = true /\
             b_order e' = b_order e /\ b_dst e <> x.
Proof.
  intros E Hr. assert (Hin : In e (row m x)) by (eapply nth_error_In; exact E).
  destruct (Hsym x e Hin Hr) as (e' & He' & Hd' & Ho' & Hr'). destruct (In_nth_error _ _ He') as [k' Ek'].
  pose proof (index_dst_nth _ _ _ (Hnd (b_dst e)) Ek') as Ix. rewrite Hd' in Ix. rewrite Ix.
  exists e'. repeat split; auto. exact (t_noself _ HT x e Hin).
Qed.

(* ---------- step: a ring label met for the first time ---------- *)
Lemma step_ring_open ord pr log st x e :
  RI ord pr log st -> In x ord -> nth_error (row m x) (pr x) = Some e -> b_ring e = true ->
  closedb pr x e = false -> ~ In (key_of x (b_dst e)) log ->
  r_prev st = Some (pos ord x) -> r_pend st = pend_of e ->
  exists st', step st (RRing (N.of_nat (S (length log)))) = Some st' /\
    RI ord (upf pr x (S (pr x))) (log ++ [key_of x (b_dst e)]) st' /\
    r_prev st' = r_prev st /\ r_stack st' = r_stack st /\ r_pend st' = None.
Proof.
  intros [Ha Hr Hem Hot Hlg] Hx Ee Hre Hcl Hkey Hprev Hpend. set (k := pr x) in *. set (y := b_dst e) in *.
  destruct (partner x k e Ee Hre) as (e' & Ee' & Hd' & Hr' & Ho' & Hyx). fold y in Ee', Hyx.
  set (k' := index_dst (row m y) x) in *.
  assert (Hk'ge : (pr y <= k')%nat) by (unfold closedb in Hcl; fold y k' in Hcl; now apply Nat.ltb_ge in Hcl).
  set (pr' := upf pr x (S k)). set (lab := N.of_nat (S (length log))).
  assert (Hpr : forall w, w <> x -> pr' w = pr w) by (intros; now apply upf_other).
  assert (Hprx : pr' x = S k) by apply upf_same.
  assert (Hklen : (k < length (row m x))%nat) by (apply nth_error_Some; congruence).
  assert (Hidx : index_dst (row m x) y = k) by (apply (index_dst_nth _ _ _ (Hnd x) Ee)).
  (* the label is fresh *)
  assert (Hfresh : forall v, ~ In (lab, v) (r_open st)).
  { intros v Hv. apply (ot_in _ _ _ _ Hot) in Hv as (i & x0 & j & ej & E1 & E2 & _).
    assert (i < length log)%nat by (apply nth_error_Some; congruence). unfold lab in E2. apply Nat2N.inj in E2. lia. }
  unfold step. rewrite Hprev. fold lab. rewrite (lookupN_none lab _ Hfresh).
  eexists. split; [reflexivity|]. cbn [r_prev r_stack r_pend]. split; [|auto].
  assert (Hrowx : nth (pos ord x) (r_nbrs st) [] = rowspec ord pr x).
  { rewrite Hr. apply nth_error_nth. rewrite nth_error_map, (nth_pos ord x Hx). reflexivity. }
  assert (Hlenx : length (rowspec ord pr x) = (plen x + k)%nat).
  { unfold rowspec. rewrite app_length, plen_pslot, map_length, firstn_length. fold k. lia. }
  (* entries whose partner is the entry being written: only the one at y, and it is not written yet *)
  assert (Hnop : forall w, In w ord -> w <> y -> (index_dst (row m x) w < pr x)%nat \/ (pr' x <= index_dst (row m x) w)%nat).
  { intros w Hw Hwy. fold k. rewrite Hprx. destruct (Nat.lt_ge_cases (index_dst (row m x) w) k) as [L|L]; [now left|right].
    destruct (Nat.eq_dec (index_dst (row m x) w) k) as [E|N]; [|lia]. exfalso.
    destruct (index_dst_found (row m x) w ltac:(lia)) as (e0 & E0 & Ed). rewrite E, Ee in E0. inversion E0; subst e0. fold y in Ed. congruence. }
  assert (Hem' : EM ord pr').
  { constructor.
    - exact (em_nodup _ _ Hem).
    - intros w Hw. assert (w <> x) by (intro; subst; contradiction). rewrite Hpr by assumption. exact (em_zero _ _ Hem w Hw).
    - intro w. destruct (Nat.eq_dec w x) as [->|N]; [rewrite Hprx; lia|rewrite Hpr by exact N; apply (em_le _ _ Hem)].
    - intros w q eq Hw Hq. destruct (em_par _ _ Hem w q eq Hw Hq) as [A B]. split; [exact A|].
      destruct (Nat.eq_dec q x) as [->|N]; [rewrite Hprx; fold k in B; lia|now rewrite Hpr].
    - intros w j ej Ej Hj Hrj. destruct (Nat.eq_dec w x) as [->|N].
      + rewrite Hprx in Hj. destruct (Nat.eq_dec j k) as [->|Nj]; [rewrite Ee in Ej; inversion Ej; subst ej; congruence|].
        apply (em_child _ _ Hem x j ej Ej); [fold k; lia|exact Hrj].
      + rewrite Hpr in Hj by exact N. exact (em_child _ _ Hem w j ej Ej Hj Hrj).
    - exact (em_lt _ _ Hem). }
  constructor; cbn [r_atoms r_nbrs r_open].
  - exact Ha.
  - rewrite Hr, (map_upd_pos _ _ ord x (em_nodup _ _ Hem) Hx). apply map_ext_in. intros w Hw.
    destruct (Nat.eqb_spec w x) as [->|N].
    + unfold rowspec. rewrite Hprx. fold k. rewrite (firstn_snoc _ _ _ Ee), map_app, app_assoc. cbn [map]. f_equal.
      * f_equal. apply map_ext_in. intros e0 He0. destruct (in_firstn_nth _ _ _ He0) as (j & Hj & Ej). symmetry.
        apply (ent_stable ord ord pr pr' x e0 x); [auto|exact Hpr|fold k; lia|intro Hr0; exact (em_child _ _ Hem x j e0 Ej Hj Hr0)|apply (em_pos0 _ _ Hem)|].
        intros _ Hd. exfalso. apply (t_noself _ HT x e0); [eapply nth_error_In; exact Ej|exact Hd].
      * unfold ent. rewrite Hre. unfold closedb. fold y k'. rewrite (Hpr y Hyx).
        assert (X : (k' <? pr y)%nat = false) by (apply Nat.ltb_ge; exact Hk'ge). now rewrite X.
    + symmetry. apply (rowspec_stable ord ord pr pr' w x Hem Hw N); [auto|exact Hpr|fold k; lia|].
      intros j ej Ej Hj Hrj Hdj. destruct (Nat.eq_dec w y) as [->|Nwy]; [|now apply Hnop].
      (* a written entry of y leading to x would be the partner: not written *)
      exfalso. pose proof (index_dst_nth _ _ _ (Hnd y) Ej) as Ij. rewrite Hdj in Ij. fold k' in Ij. lia.
  - exact Hem'.
  - (* the table of open labels gains this one *)
    destruct Hot as [On Oi]. constructor.
    + rewrite map_app. cbn [map fst]. apply NoDup_app_single; [exact On|].
      intro H. apply in_map_iff in H as ([l0 v0] & E0 & H0). cbn in E0. subst l0. exact (Hfresh v0 H0).
    + intros l v. rewrite in_app_iff, Oi. cbn [In]. unfold OpenEntry. split.
      * intros [(i & x0 & j & ej & E1 & E2 & E3 & E4 & E5 & E6 & E7)|[E|[]]].
        -- exists i, x0, j, ej. assert (Hx0 : In x0 ord) by (apply (em_pos0 _ _ Hem); lia).
           repeat split; auto.
           ++ rewrite nth_error_app1; [exact E1|apply nth_error_Some; congruence].
           ++ destruct (Nat.eq_dec x0 x) as [->|N]; [rewrite Hprx; fold k in E5; lia|now rewrite Hpr].
           ++ unfold closedb in *. destruct (Nat.eq_dec (b_dst ej) x) as [Ed|Nd]; [|now rewrite Hpr].
              rewrite Ed in *. apply Nat.ltb_ge in E6. apply Nat.ltb_ge.
              destruct (Nat.eq_dec x0 y) as [->|Ny]; [|destruct (Hnop x0 Hx0 Ny); lia].
              exfalso. pose proof (index_dst_nth _ _ _ (Hnd y) E3) as Ij. rewrite Ed in Ij. fold k' in Ij. lia.
        -- inversion E; subst l v. exists (length log), x, k, e. repeat split; auto.
           ++ rewrite nth_error_app2 by lia. now rewrite Nat.sub_diag.
           ++ rewrite Hprx. lia.
           ++ unfold closedb. fold y k'. rewrite (Hpr y Hyx). apply Nat.ltb_ge. exact Hk'ge.
           ++ rewrite Hrowx, Hlenx, Hpend. reflexivity.
      * intros (i & x0 & j & ej & E1 & E2 & E3 & E4 & E5 & E6 & E7).
        destruct (Nat.lt_ge_cases i (length log)) as [Li|Li].
        -- left. rewrite nth_error_app1 in E1 by exact Li. exists i, x0, j, ej.
           assert (Hj : (j < pr x0)%nat).
           { destruct (Nat.eq_dec x0 x) as [->|N]; [|now rewrite Hpr in E5]. rewrite Hprx in E5.
             destruct (Nat.eq_dec j k) as [->|Nj]; [|fold k; lia]. rewrite Ee in E3. inversion E3; subst ej.
             exfalso. apply Hkey. eapply nth_error_In. exact E1. }
           repeat split; auto. unfold closedb in *. apply Nat.ltb_ge in E6. apply Nat.ltb_ge.
           destruct (Nat.eq_dec (b_dst ej) x) as [Ed|Nd]; [rewrite Ed in *; rewrite Hprx in E6; fold k; lia|now rewrite Hpr in E6].
        -- right. left. assert (i = length log).
           { assert (i < length (log ++ [key_of x y]))%nat by (apply nth_error_Some; congruence). rewrite app_length in H. cbn in H. lia. }
           subst i. rewrite nth_error_app2, Nat.sub_diag in E1 by lia. cbn [nth_error] in E1.
           assert (Ek : key_of x y = key_of x0 (b_dst ej)) by congruence.
           apply key_of_inj in Ek as [[Ex Ed]|[Ed1 Ed2]].
           ++ subst x0. assert (j = k) by (apply (row_unique x j k ej e E3 Ee); fold y; congruence). subst j.
              rewrite Ee in E3. inversion E3; subst ej. rewrite E7, E2, Hrowx, Hlenx, Hpend. reflexivity.
           ++ exfalso. subst x0. rewrite (Hpr y Hyx) in E5. pose proof (index_dst_nth _ _ _ (Hnd y) E3) as Ij. rewrite <- Ed1 in Ij. fold k' in Ij. lia.
  - (* the ring log gains the key *)
    destruct Hlg as [Ln Li]. constructor.
    + apply NoDup_app_single; assumption.
    + intro key. rewrite in_app_iff, Li. cbn [In]. split.
      * intros [(x0 & j & ej & E1 & E2 & E3 & E4)|[<-|[]]].
        -- exists x0, j, ej. repeat split; auto. destruct (Nat.eq_dec x0 x) as [->|N]; [rewrite Hprx; fold k in E3; lia|now rewrite Hpr].
        -- exists x, k, e. repeat split; auto. rewrite Hprx. lia.
      * intros (x0 & j & ej & E1 & E2 & E3 & E4).
        destruct (Nat.eq_dec x0 x) as [->|N]; [|left; exists x0, j, ej; rewrite Hpr in E3 by exact N; auto].
        rewrite Hprx in E3. destruct (Nat.eq_dec j k) as [->|Nj].
        -- right. left. rewrite Ee in E1. inversion E1; subst ej. now rewrite E4.
        -- left. exists x, j, ej. repeat split; auto. fold k. lia.
Qed.

Lemma nodup_nth_inj {A} (l : list A) i j a : NoDup l -> nth_error l i = Some a -> nth_error l j = Some a -> i = j.
Proof.
  intros Hn Ei Ej. rewrite NoDup_nth_error in Hn. apply Hn; [apply nth_error_Some; congruence|congruence].
Qed.

(* ---------- step: a ring label met for the second time ---------- *)
Lemma step_ring_close ord pr log st x e i :
  RI ord pr log st -> In x ord -> nth_error (row m x) (pr x) = Some e -> b_ring e = true ->
  closedb pr x e = true -> nth_error log i = Some (key_of x (b_dst e)) ->
  r_prev st = Some (pos ord x) -> r_pend st = pend_of e ->
  exists st', step st (RRing (N.of_nat (S i))) = Some st' /\
    RI ord (upf pr x (S (pr x))) log st' /\
    r_prev st' = r_prev st /\ r_stack st' = r_stack st /\ r_pend st' = None.
Proof.
  intros [Ha Hr Hem Hot Hlg] Hx Ee Hre Hcl Hlog Hprev Hpend. set (k := pr x) in *. set (y := b_dst e) in *.
  destruct (partner x k e Ee Hre) as (e' & Ee' & Hd' & Hr' & Ho' & Hyx). fold y in Ee', Hyx.
  set (k' := index_dst (row m y) x) in *.
  assert (Hk'lt : (k' < pr y)%nat) by (unfold closedb in Hcl; fold y k' in Hcl; now apply Nat.ltb_lt in Hcl).
  set (pr' := upf pr x (S k)). set (lab := N.of_nat (S i)).
  assert (Hpr : forall w, w <> x -> pr' w = pr w) by (intros; now apply upf_other).
  assert (Hprx : pr' x = S k) by apply upf_same.
  assert (Hklen : (k < length (row m x))%nat) by (apply nth_error_Some; congruence).
  assert (Hidx : index_dst (row m x) y = k) by (apply (index_dst_nth _ _ _ (Hnd x) Ee)).
  assert (Hy : In y ord) by (apply (em_pos0 _ _ Hem); lia).
  assert (Hoe : 1 <= b_order e <= 3) by (apply (Hb x e); eapply nth_error_In; exact Ee).
  assert (Hoe' : 1 <= b_order e' <= 3) by (apply (Hb y e'); eapply nth_error_In; exact Ee').
  (* the open entry of this label *)
  assert (Hent : In (lab, (pos ord y, (plen y + k')%nat, pend_of e')) (r_open st)).
  { apply (ot_in _ _ _ _ Hot). exists i, y, k', e'. repeat split; auto.
    - rewrite Hd'. rewrite key_of_sym. exact Hlog.
    - unfold closedb. rewrite Hd', Hidx. apply Nat.ltb_ge. fold k. lia. }
  unfold step. rewrite Hprev. fold lab. rewrite (lookupN_nodup lab _ _ (ot_nodup _ _ _ _ Hot) Hent).
  assert (Hne : Nat.eqb (pos ord y) (pos ord x) = false).
  { apply Nat.eqb_neq. intro E. apply Hyx. now apply (pos_inj ord). }
  rewrite Hne.
  assert (Eay : nth_error (r_atoms st) (pos ord y) = Some (aat y)) by (rewrite Ha, nth_error_map, (nth_pos ord y Hy); reflexivity).
  assert (Eax : nth_error (r_atoms st) (pos ord x) = Some (aat x)) by (rewrite Ha, nth_error_map, (nth_pos ord x Hx); reflexivity).
  rewrite Eay, Eax, Hpend.
  (* the order agreed on is twice the bond order *)
  pose proof (pend_order e Hoe) as PO. pose proof (pend_order e' Hoe') as PO'.
  assert (Eord : match match pend_of e' with Some (o, _) => Some o | None => None end,
                       match pend_of e with Some (o, _) => Some o | None => None end with
                 | Some a, Some b => if a =? b then Some a else None
                 | Some a, None => Some a
                 | None, Some b => Some b
                 | None, None => Some (default_order (aat y) (aat x)) end = Some (2 * b_order e)).
  { destruct (pend_of e') as [[o1 m1]|]; destruct (pend_of e) as [[o2 m2]|].
    - destruct PO as [-> _]. destruct PO' as [-> _]. rewrite Ho', Z.eqb_refl. reflexivity.
    - destruct PO' as [-> _]. now rewrite Ho'.
    - destruct PO as [-> _]. reflexivity.
    - destruct PO as [-> _]. unfold default_order. now rewrite !aat_arom. }
  rewrite Eord.
  eexists. split; [reflexivity|]. cbn [r_prev r_stack r_pend]. split; [|auto].
  assert (Hnop : forall w, In w ord -> w <> y -> (index_dst (row m x) w < pr x)%nat \/ (pr' x <= index_dst (row m x) w)%nat).
  { intros w Hw Hwy. fold k. rewrite Hprx. destruct (Nat.lt_ge_cases (index_dst (row m x) w) k) as [L|L]; [now left|right].
    destruct (Nat.eq_dec (index_dst (row m x) w) k) as [E|N]; [|lia]. exfalso.
    destruct (index_dst_found (row m x) w ltac:(lia)) as (e0 & E0 & Ed). rewrite E, Ee in E0. inversion E0; subst e0. fold y in Ed. congruence. }
  assert (Hem' : EM ord pr').
  { constructor.
    - exact (em_nodup _ _ Hem).
    - intros w Hw. assert (w <> x) by (intro; subst; contradiction). rewrite Hpr by assumption. exact (em_zero _ _ Hem w Hw).
    - intro w. destruct (Nat.eq_dec w x) as [->|N]; [rewrite Hprx; lia|rewrite Hpr by exact N; apply (em_le _ _ Hem)].
    - intros w q eq Hw Hq. destruct (em_par _ _ Hem w q eq Hw Hq) as [A B]. split; [exact A|].
      destruct (Nat.eq_dec q x) as [->|N]; [rewrite Hprx; fold k in B; lia|now rewrite Hpr].
    - intros w j ej Ej Hj Hrj. destruct (Nat.eq_dec w x) as [->|N].
      + rewrite Hprx in Hj. destruct (Nat.eq_dec j k) as [->|Nj]; [rewrite Ee in Ej; inversion Ej; subst ej; congruence|].
        apply (em_child _ _ Hem x j ej Ej); [fold k; lia|exact Hrj].
      + rewrite Hpr in Hj by exact N. exact (em_child _ _ Hem w j ej Ej Hj Hrj).
    - exact (em_lt _ _ Hem). }
  constructor; cbn [r_atoms r_nbrs r_open].
  - exact Ha.
  - (* rows: the placeholder at y is filled, x gets its slot *)
    rewrite Hr, (map_upd_pos _ _ ord y (em_nodup _ _ Hem) Hy), (map_upd_pos _ _ ord x (em_nodup _ _ Hem) Hx).
    apply map_ext_in. intros w Hw.
    destruct (Nat.eqb_spec w x) as [->|Nx].
    + (* the row of x *)
      destruct (Nat.eqb_spec x y) as [Exy|_]; [congruence|].
      unfold rowspec. rewrite Hprx. fold k. rewrite (firstn_snoc _ _ _ Ee), map_app, app_assoc. cbn [map]. f_equal.
      * f_equal. apply map_ext_in. intros e0 He0. destruct (in_firstn_nth _ _ _ He0) as (j & Hj & Ej). symmetry.
        apply (ent_stable ord ord pr pr' x e0 x); [auto|exact Hpr|fold k; lia|intro Hr0; exact (em_child _ _ Hem x j e0 Ej Hj Hr0)|apply (em_pos0 _ _ Hem)|].
        intros _ Hd. exfalso. apply (t_noself _ HT x e0); [eapply nth_error_In; exact Ej|exact Hd].
      * unfold ent. rewrite Hre. unfold closedb. fold y k'. rewrite (Hpr y Hyx).
        assert (X : (k' <? pr y)%nat = true) by (apply Nat.ltb_lt; exact Hk'lt). rewrite X. reflexivity.
    + destruct (Nat.eqb_spec w y) as [->|Ny].
      * (* the row of y: exactly the entry at k' changes *)
        unfold set_slot, rowspec. rewrite (Hpr y Hyx). rewrite <- (plen_pslot ord y), upd_app_r. f_equal.
        assert (Ek'f : nth_error (firstn (pr y) (row m y)) k' = Some e') by (rewrite nth_error_firstn by exact Hk'lt; exact Ee').
        assert (Eent : ent ord pr' y e' = Some {| sl_to := pos ord x; sl_order2 := 2 * b_order e;
                                                   sl_mark := match pend_of e' with Some (_, m0) => m0 | None => None end; sl_ring := true |}).
        { unfold ent. rewrite Hr'. unfold closedb. rewrite Hd', Hidx, Hprx.
          assert (X : (k <? S k)%nat = true) by (apply Nat.ltb_lt; lia). rewrite X. unfold mkslot, mark_of. rewrite ?Hd', Ho'. reflexivity. }
        rewrite (map_upd_at (ent ord pr y) (ent ord pr' y) _ k' e' Ek'f).
        -- rewrite Eent. reflexivity.
        -- intros j b Ej Hjk. assert (Hjl : (j < pr y)%nat).
           { assert (j < length (firstn (pr y) (row m y)))%nat by (apply nth_error_Some; congruence). rewrite firstn_length in H. lia. }
           rewrite nth_error_firstn in Ej by exact Hjl.
           apply (ent_stable ord ord pr pr' y b x); [auto|exact Hpr|fold k; lia|intro Hr0; exact (em_child _ _ Hem y j b Ej Hjl Hr0)|apply (em_pos0 _ _ Hem)|].
           intros _ Hd. exfalso. apply Hjk. apply (row_unique y j k' b e' Ej Ee'). congruence.
      * symmetry. apply (rowspec_stable ord ord pr pr' w x Hem Hw Nx); [auto|exact Hpr|fold k; lia|].
        intros j ej Ej Hj Hrj Hdj. now apply Hnop.
  - exact Hem'.
  - (* the table of open labels loses this one *)
    destruct Hot as [On Oi]. destruct (removeN_in lab (r_open st) On) as [Rn Ri]. constructor; [exact Rn|].
    intros l v. rewrite Ri, Oi. unfold OpenEntry. split.
    + intros [(i0 & x0 & j & ej & E1 & E2 & E3 & E4 & E5 & E6 & E7) Hl]. exists i0, x0, j, ej.
      assert (Hx0 : In x0 ord) by (apply (em_pos0 _ _ Hem); lia).
      repeat split; auto.
      * destruct (Nat.eq_dec x0 x) as [->|N]; [rewrite Hprx; fold k in E5; lia|now rewrite Hpr].
      * unfold closedb in *. destruct (Nat.eq_dec (b_dst ej) x) as [Ed|Nd]; [|now rewrite Hpr].
        rewrite Ed in *. apply Nat.ltb_ge in E6. apply Nat.ltb_ge.
        destruct (Nat.eq_dec x0 y) as [->|Ny]; [|destruct (Hnop x0 Hx0 Ny); lia].
        (* it would be the entry just closed *)
        exfalso. apply Hl. rewrite E2. unfold lab. f_equal. f_equal.
        apply (nodup_nth_inj log i0 i _ (lg_nodup _ _ Hlg) E1). rewrite key_of_sym. exact Hlog.
    + intros (i0 & x0 & j & ej & E1 & E2 & E3 & E4 & E5 & E6 & E7).
      assert (Hcase : ~ (x0 = x /\ j = k)).
      { intros [-> ->]. rewrite Ee in E3. inversion E3; subst ej. unfold closedb in E6. fold y k' in E6. rewrite (Hpr y Hyx) in E6.
        apply Nat.ltb_ge in E6. lia. }
      assert (Hj : (j < pr x0)%nat).
      { destruct (Nat.eq_dec x0 x) as [->|N]; [|now rewrite Hpr in E5]. rewrite Hprx in E5. fold k. destruct (Nat.eq_dec j k); [exfalso; apply Hcase; auto|lia]. }
      split.
      * exists i0, x0, j, ej. repeat split; auto. unfold closedb in *. apply Nat.ltb_ge in E6. apply Nat.ltb_ge.
        destruct (Nat.eq_dec (b_dst ej) x) as [Ed|Nd]; [rewrite Ed in *; rewrite Hprx in E6; fold k; lia|now rewrite Hpr in E6].
      * intro El. rewrite E2 in El. unfold lab in El. apply Nat2N.inj in El. inversion El; subst i0. rewrite Hlog in E1.
        assert (Ek : key_of x y = key_of x0 (b_dst ej)) by congruence.
        apply key_of_inj in Ek as [[Ex Ed]|[Ed1 Ed2]].
        -- subst x0. apply Hcase. split; [reflexivity|]. apply (row_unique x j k ej e E3 Ee). fold y. congruence.
        -- subst x0. assert (j = k') by (apply (row_unique y j k' ej e' E3 Ee'); congruence). subst j.
           rewrite Ee' in E3. inversion E3; subst ej. unfold closedb in E6. rewrite Hd', Hidx, Hprx in E6. apply Nat.ltb_ge in E6. lia.
  - (* the ring log: unchanged *)
    destruct Hlg as [Ln Li]. constructor; [exact Ln|]. intro key. rewrite Li. split.
    + intros (x0 & j & ej & E1 & E2 & E3 & E4). exists x0, j, ej. repeat split; auto.
      destruct (Nat.eq_dec x0 x) as [->|N]; [rewrite Hprx; fold k in E3; lia|now rewrite Hpr].
    + intros (x0 & j & ej & E1 & E2 & E3 & E4).
      destruct (Nat.eq_dec x0 x) as [->|N]; [|exists x0, j, ej; rewrite Hpr in E3 by exact N; auto].
      rewrite Hprx in E3. destruct (Nat.eq_dec j k) as [->|Nj]; [|exists x, j, ej; repeat split; auto; fold k; lia].
      rewrite Ee in E1. inversion E1; subst ej. exists y, k', e'. repeat split; auto. rewrite E4, Hd'. apply key_of_sym.
Qed.

(* ---------- gluing steps ---------- *)
Lemma steps_app st a b : steps st (a ++ b) = match steps st a with Some st1 => steps st1 b | None => None end.
Proof. revert st. induction a as [|t a IH]; intro st; cbn [app steps]; [reflexivity|]. destruct (step st t); [apply IH|reflexivity]. Qed.

Definition set_pend (st : rstate) (v : option (Z * option N)) : rstate :=
  {| r_atoms := r_atoms st; r_nbrs := r_nbrs st; r_prev := r_prev st; r_stack := r_stack st; r_pend := v; r_open := r_open st |}.

Lemma set_pend_same st : set_pend st (r_pend st) = st.
Proof. destruct st; reflexivity. Qed.

Lemma RI_set_pend ord pr log st v : RI ord pr log st -> RI ord pr log (set_pend st v).
Proof. intros [A B C D E]. constructor; assumption. Qed.

Lemma steps_btoks st e rest q : r_pend st = None -> r_prev st = Some q -> 1 <= b_order e <= 3 ->
  steps st (btoks (b_order e) (b_stereo e) ++ rest) = steps (set_pend st (pend_of e)) rest.
Proof.
  intros Hp Hq Ho. unfold pend_of. destruct (btoks_cases (b_order e) (b_stereo e) Ho) as [[-> _]|(mk & ->)].
  - cbn [app]. rewrite <- Hp, set_pend_same. reflexivity.
  - cbn [app steps step]. rewrite Hp, Hq. unfold set_pend. rewrite Hq. reflexivity.
Qed.

(* ---------- the writer's ring log ---------- *)
Lemma pair_eqb_eq a b : pair_eqb a b = true <-> a = b.
Proof.
  unfold pair_eqb. destruct a as [a1 a2], b as [b1 b2]. cbn [fst snd]. rewrite andb_true_iff, !Nat.eqb_eq. split; [intros [-> ->]; reflexivity|intro H; inversion H; auto].
Qed.

Lemma ring_label_spec log a b :
  (In (key_of a b) log -> exists i, nth_error log i = Some (key_of a b) /\ ring_label log a b = (log, S i)) /\
  (~ In (key_of a b) log -> ring_label log a b = (log ++ [key_of a b], S (length log))).
Proof.
  unfold ring_label. fold (key_of a b).
  set (go := fix go (l : list (nat * nat)) (i : nat) : option nat :=
               match l with [] => None | k :: r => if pair_eqb k (key_of a b) then Some i else go r (S i) end).
  assert (G : forall l base, (In (key_of a b) l -> exists i, nth_error l i = Some (key_of a b) /\ go l base = Some (base + i)%nat) /\
                             (~ In (key_of a b) l -> go l base = None)).
  { induction l as [|k r IH]; intro base; cbn [go In].
    - split; [intros []|reflexivity].
    - destruct (pair_eqb k (key_of a b)) eqn:E.
      + apply pair_eqb_eq in E. subst k. split; [intros _; exists 0%nat; split; [reflexivity|f_equal; lia]|intro H; exfalso; apply H; now left].
      + assert (Nk : k <> key_of a b) by (intro X; apply pair_eqb_eq in X; congruence).
        destruct (IH (S base)) as [A B]. split.
        * intros [X|X]; [contradiction|]. destruct (A X) as (i & Ei & Eg). exists (S i). split; [exact Ei|rewrite Eg; f_equal; lia].
        * intro H. apply B. intro X. apply H. now right. }
  destruct (G log 1%nat) as [A B]. split.
  - intro H. destruct (A H) as (i & Ei & Eg). exists i. split; [exact Ei|]. fold go. rewrite Eg. reflexivity.
  - intro H. fold go. rewrite (B H). reflexivity.
Qed.

(* ---------- the traversal ---------- *)
Lemma row_adj x bonds : nth_error (adj m) x = Some bonds -> bonds = row m x.
Proof. intro E. unfold row. symmetry. now apply nth_error_nth. Qed.

Lemma skipn_nth {A} (l : list A) k e rest : skipn k l = e :: rest -> nth_error l k = Some e /\ skipn (S k) l = rest.
Proof.
  revert k. induction l as [|a l IH]; intros [|k] E; cbn in *; try discriminate.
  - inversion E. auto.
  - now apply IH.
Qed.

Lemma skipn_nil_len {A} (l : list A) k : skipn k l = [] -> (length l <= k)%nat.
Proof. revert k. induction l as [|a l IH]; intros [|k] E; cbn in *; try lia; [discriminate|]. apply IH in E. lia. Qed.

(* ring entry at index pr x: closed iff its key is in the writer's log *)
Lemma closed_iff_logged ord pr log st x e : RI ord pr log st -> nth_error (row m x) (pr x) = Some e -> b_ring e = true ->
  (closedb pr x e = true <-> In (key_of x (b_dst e)) log).
Proof.
  intros HRI Ee Hre. destruct (partner x (pr x) e Ee Hre) as (e' & Ee' & Hd' & Hr' & Ho' & Hyx).
  rewrite (lg_in _ _ (ri_lg _ _ _ _ HRI)). unfold closedb. split.
  - intro H. apply Nat.ltb_lt in H. exists (b_dst e), (index_dst (row m (b_dst e)) x), e'. repeat split; auto. rewrite Hd'. apply key_of_sym.
  - intros (x0 & j & ej & E1 & E2 & E3 & E4). apply key_of_inj in E4 as [[Ex Ed]|[Ex Ed]].
    + subst x0. assert (j = pr x) by (apply (row_unique x j (pr x) ej e E1 Ee); congruence). lia.
    + subst x0. apply Nat.ltb_lt. rewrite Ex. rewrite (index_dst_nth _ _ _ (Hnd _) E1). exact E3.
Qed.

Lemma NoDup_app_disjoint {A} (l1 l2 : list A) : NoDup (l1 ++ l2) -> forall x, In x l1 -> In x l2 -> False.
Proof.
  induction l1 as [|a l1 IH]; intros Hn x H1 H2; [destruct H1|]. cbn in Hn. inversion Hn as [|? ? Ha Hn']; subst.
  destruct H1 as [<-|H1]; [apply Ha; apply in_app_iff; now right|exact (IH Hn' x H1 H2)].
Qed.

(* what holds after a subtree has been read *)
(* the atoms below c in the order in which the writer visits them *)
Definition kids (l : list dbond) : list nat := map b_dst (filter (fun e => negb (b_ring e)) l).
Fixpoint emits (fuel : nat) (c : nat) : list nat :=
  match fuel with O => [] | S f => flat_map (fun k => k :: emits f k) (kids (row m c)) end.

Definition SubPost (ord : list nat) (pr : nat -> nat) (st : rstate) (c : nat) (log' : list (nat * nat)) (st' : rstate) (new : list nat) : Prop :=
  exists pr', RI (ord ++ c :: new) pr' log' st' /\ r_stack st' = r_stack st /\ r_pend st' = None /\
    (forall w, In w ord -> pr' w = match par c with Some (p, _) => if Nat.eqb w p then S (pr w) else pr w | None => pr w end) /\
    (forall w, In w (c :: new) -> pr' w = length (row m w)) /\ Forall (fun w => par w <> None) new.

Definition GoPost (ord : list nat) (pr : nat -> nat) (st : rstate) (x : nat) (log' : list (nat * nat)) (st' : rstate) (new : list nat) : Prop :=
  exists pr', RI (ord ++ new) pr' log' st' /\ r_stack st' = r_stack st /\ r_pend st' = None /\
    pr' x = length (row m x) /\ (forall w, In w ord -> w <> x -> pr' w = pr w) /\
    (forall w, In w new -> pr' w = length (row m w)) /\ Forall (fun w => par w <> None) new.

Theorem atoks_sim : forall fuel c log ts log', atoks fuel m c log = Ok (ts, log') ->
  forall ord pr st, RI ord pr log st -> ~ In c ord ->
  match par c with
  | Some (p, e) => In p ord /\ nth_error (row m p) (pr p) = Some e /\ r_prev st = Some (pos ord p) /\ r_pend st = pend_of e
  | None => r_prev st = None /\ r_pend st = None
  end ->
  exists st', steps st ts = Some st' /\ SubPost ord pr st c log' st' (emits fuel c).
Proof.
  induction fuel as [|f IH]; intros c log ts log' E ord pr st HRI Hc Hvia; [discriminate|].
  cbn [atoks] in E.
  destruct (nth_error (atoms m) c) as [[[a cap] at_]|] eqn:Ea; [|discriminate].
  destruct (nth_error (adj m) c) as [bonds|] eqn:Eb; [|discriminate].
  pose proof (row_adj c bonds Eb) as Hbonds. subst bonds.
  assert (Eaat : aat c = abs_atom a) by (unfold aat; now rewrite Ea).
  (* the loop over the entries of a row *)
  match type of E with (do _ <- ?GA (row m c) log; _) = _ =>
    assert (G : forall l x lg ts0 lg', GA l lg = Ok (ts0, lg') ->
              forall ord0 pr0 st0, RI ord0 pr0 lg st0 -> In x ord0 -> skipn (pr0 x) (row m x) = l ->
                r_prev st0 = Some (pos ord0 x) -> r_pend st0 = None ->
                exists st', steps st0 ts0 = Some st' /\ GoPost ord0 pr0 st0 x lg' st' (flat_map (fun k => k :: emits f k) (kids l))) end.
  { induction l as [|e rest IHl]; intros x lg ts0 lg' Eg ord0 pr0 st0 HR Hx Hsk Hprev Hpend.
    - inversion Eg; subst. exists st0. split; [reflexivity|]. cbn [kids filter map flat_map]. exists pr0. rewrite app_nil_r.
      split; [exact HR|]. split; [reflexivity|]. split; [exact Hpend|]. split; [|split; [auto|split; [intros w []|constructor]]].
      apply skipn_nil_len in Hsk. pose proof (em_le _ _ (ri_em _ _ _ _ HR) x). lia.
    - destruct (skipn_nth _ _ _ _ Hsk) as [Ee Hsk'].
      assert (Hein : In e (row m x)) by (eapply nth_error_In; exact Ee).
      destruct (Hb x e Hein) as (Hdn & Hoe & Hfw).
      destruct (b_ring e) eqn:Hre.
      + (* a ring entry *)
        assert (Hk : kids (e :: rest) = kids rest) by (unfold kids; cbn [filter]; rewrite Hre; reflexivity). rewrite Hk.
        set (new := flat_map (fun k => k :: emits f k) (kids rest)).
        rewrite (t_src _ HT x e Hein) in Eg.
        destruct (ring_label_spec lg x (b_dst e)) as [Lin Lnew].
        pose proof (closed_iff_logged ord0 pr0 lg st0 x e HR Ee Hre) as Hcl.
        destruct (closedb pr0 x e) eqn:Ecl.
        * destruct (Lin (proj1 Hcl eq_refl)) as (i & Ei & Erl). rewrite Erl in Eg.
          match type of Eg with (do _ <- ?X; _) = _ => destruct X as [[out lg3]|] eqn:Er end; cbn [bind] in Eg; [|discriminate].
          inversion Eg; subst; clear Eg.
          rewrite (steps_btoks st0 e _ (pos ord0 x) Hpend Hprev Hoe). cbn [steps].
          destruct (step_ring_close ord0 pr0 lg (set_pend st0 (pend_of e)) x e i (RI_set_pend _ _ _ _ _ HR) Hx Ee Hre Ecl Ei Hprev eq_refl)
            as (st1 & Es1 & HR1 & P1 & S1 & Q1).
          cbn [N.of_nat] in Es1. rewrite Es1.
          destruct (IHl x lg out lg' Er ord0 (upf pr0 x (S (pr0 x))) st1 HR1 Hx) as (st' & Es' & pr' & HR' & S' & Q' & F1 & F2 & F3 & F4).
          { rewrite upf_same. first [exact Hsk'|reflexivity]. } { rewrite P1. exact Hprev. } { exact Q1. }
          exists st'. split; [exact Es'|]. exists pr'. split; [exact HR'|]. split; [rewrite S', S1; reflexivity|]. split; [exact Q'|].
          split; [exact F1|]. split; [|split; [exact F3|exact F4]]. intros w Hw Hwx. rewrite (F2 w Hw Hwx). now apply upf_other.
        * assert (Hnk : ~ In (key_of x (b_dst e)) lg) by (intro X; apply Hcl in X; discriminate).
          rewrite (Lnew Hnk) in Eg.
          match type of Eg with (do _ <- ?X; _) = _ => destruct X as [[out lg3]|] eqn:Er end; cbn [bind] in Eg; [|discriminate].
          inversion Eg; subst; clear Eg.
          rewrite (steps_btoks st0 e _ (pos ord0 x) Hpend Hprev Hoe). cbn [steps].
          destruct (step_ring_open ord0 pr0 lg (set_pend st0 (pend_of e)) x e (RI_set_pend _ _ _ _ _ HR) Hx Ee Hre Ecl Hnk Hprev eq_refl)
            as (st1 & Es1 & HR1 & P1 & S1 & Q1).
          cbn [N.of_nat] in Es1. rewrite Es1.
          destruct (IHl x _ out lg' Er ord0 (upf pr0 x (S (pr0 x))) st1 HR1 Hx) as (st' & Es' & pr' & HR' & S' & Q' & F1 & F2 & F3 & F4).
          { rewrite upf_same. first [exact Hsk'|reflexivity]. } { rewrite P1. exact Hprev. } { exact Q1. }
          exists st'. split; [exact Es'|]. exists pr'. split; [exact HR'|]. split; [rewrite S', S1; reflexivity|]. split; [exact Q'|].
          split; [exact F1|]. split; [|split; [exact F3|exact F4]]. intros w Hw Hwx. rewrite (F2 w Hw Hwx). now apply upf_other.
      + (* a tree entry: the subtree of the child *)
        set (d := b_dst e) in *.
        destruct (atoks f m d lg) as [[sub lg2]|] eqn:Es; cbn [bind] in Eg; [|discriminate].
        match type of Eg with (do _ <- ?X; _) = _ => destruct X as [[out lg3]|] eqn:Er end; cbn [bind] in Eg; [|discriminate].
        assert (Hpard : par d = Some (x, e)) by (apply (par_of_child x d e Hein Hre eq_refl)).
        assert (Hd : ~ In d ord0).
        { intro Hin. destruct (em_par _ _ (ri_em _ _ _ _ HR) d x e Hin Hpard) as [_ L].
          unfold d in L. rewrite (index_dst_nth _ _ _ (Hnd x) Ee) in L. lia. }
        destruct rest as [|e2 rest2].
        * (* last entry: no parentheses *)
          inversion Er; subst out lg3. inversion Eg; subst; clear Eg.
          rewrite (steps_btoks st0 e _ (pos ord0 x) Hpend Hprev Hoe). rewrite app_nil_r.
          assert (Hk : flat_map (fun k => k :: emits f k) (kids [e]) = d :: emits f d) by (unfold kids; cbn [filter]; rewrite Hre; cbn [negb map flat_map]; now rewrite app_nil_r). rewrite Hk.
          set (new := emits f d).
          destruct (IH d lg sub lg' Es ord0 pr0 (set_pend st0 (pend_of e)) (RI_set_pend _ _ _ _ _ HR) Hd) as (st' & Es' & pr' & HR' & S' & Q' & F' & C' & P').
          { rewrite Hpard. auto. }
          exists st'. split; [exact Es'|]. exists pr'. split; [exact HR'|]. split; [exact S'|]. split; [exact Q'|].
          rewrite Hpard in F'. split; [|split; [|split; [exact C'|constructor; [congruence|exact P']]]].
          -- rewrite (F' x Hx), Nat.eqb_refl. apply skipn_nil_len in Hsk'. assert (pr0 x < length (row m x))%nat by (apply nth_error_Some; congruence). lia.
          -- intros w Hw Hwx. rewrite (F' w Hw). destruct (Nat.eqb_spec w x); [contradiction|reflexivity].
        * (* not the last: the subtree is parenthesised *)
          inversion Eg; subst; clear Eg.
          cbn [steps step]. rewrite Hpend, Hprev.
          set (st1 := {| r_atoms := r_atoms st0; r_nbrs := r_nbrs st0; r_prev := Some (pos ord0 x); r_stack := Some (pos ord0 x) :: r_stack st0; r_pend := None; r_open := r_open st0 |}).
          assert (HR1 : RI ord0 pr0 lg st1) by (destruct HR; constructor; assumption).
          rewrite (steps_btoks st1 e _ (pos ord0 x) eq_refl eq_refl Hoe), steps_app.
          set (new := emits f d). set (new' := flat_map (fun k => k :: emits f k) (kids (e2 :: rest2))).
          destruct (IH d lg sub lg2 Es ord0 pr0 (set_pend st1 (pend_of e)) (RI_set_pend _ _ _ _ _ HR1) Hd) as (st2 & Es2 & pr2 & HR2 & S2 & Q2 & F2 & C2 & P2).
          { rewrite Hpard. auto. }
          rewrite Es2. cbn [steps step]. rewrite Q2, S2. cbn [set_pend r_stack st1].
          set (st3 := {| r_atoms := r_atoms st2; r_nbrs := r_nbrs st2; r_prev := Some (pos ord0 x); r_stack := r_stack st0; r_pend := None; r_open := r_open st2 |}).
          assert (HR3 : RI (ord0 ++ d :: new) pr2 lg2 st3) by (destruct HR2; constructor; assumption).
          rewrite Hpard in F2.
          assert (Hx3 : In x (ord0 ++ d :: new)) by (apply in_app_iff; now left).
          destruct (IHl x lg2 out lg' Er (ord0 ++ d :: new) pr2 st3 HR3 Hx3) as (st' & Es' & pr' & HR' & S' & Q' & F1 & F2' & F3' & F4').
          { rewrite (F2 x Hx), Nat.eqb_refl. exact Hsk'. }
          { cbn [st3 r_prev]. f_equal. symmetry. now apply pos_app_in. }
          { reflexivity. }
          assert (Hk : flat_map (fun k => k :: emits f k) (kids (e :: e2 :: rest2)) = (d :: new) ++ new') by (unfold new', kids; cbn [filter]; rewrite Hre; cbn [negb map flat_map]; reflexivity). rewrite Hk.
          exists st'. split; [exact Es'|]. exists pr'. rewrite app_assoc. split; [exact HR'|].
          split; [rewrite S'; reflexivity|]. split; [exact Q'|]. split; [exact F1|]. split; [|split].
          -- intros w Hw Hwx. rewrite (F2' w ltac:(apply in_app_iff; now left) Hwx). rewrite (F2 w Hw). destruct (Nat.eqb_spec w x); [contradiction|reflexivity].
          -- intros w Hw. apply in_app_iff in Hw as [Hw|Hw]; [|now apply F3'].
             assert (Hwx : w <> x).
             { intro; subst w. pose proof (em_nodup _ _ (ri_em _ _ _ _ HR2)) as Nd. exact (NoDup_app_disjoint _ _ Nd x Hx Hw). }
             rewrite (F2' w ltac:(apply in_app_iff; now right) Hwx). now apply C2.
          -- apply Forall_app. split; [constructor; [congruence|exact P2]|exact F4']. }
  (* the atom itself, then its row *)
  match type of E with (do _ <- ?X; _) = _ => destruct X as [[out lg2]|] eqn:Eg end; cbn [bind] in E; [|discriminate].
  inversion E; subst; clear E. rewrite <- Eaat. cbn [steps].
  destruct (par c) as [[p e]|] eqn:Epar.
  - destruct Hvia as (Hp & Ee & Hprev & Hpend).
    destruct (par_some _ _ _ Epar) as (Hein & Hre & Hdc & _). subst c.
    destruct (step_child ord pr log st p e HRI Hp Ee Hre Hc Hprev Hpend) as (st1 & Es1 & HR1 & P1 & S1 & Q1).
    rewrite Es1.
    assert (Hcin : In (b_dst e) (ord ++ [b_dst e])) by (apply in_app_iff; right; now left).
    assert (Hcp : b_dst e <> p) by (destruct (Hb p e Hein) as (_ & _ & F); specialize (F Hre); lia).
    cbn [emits]. set (new := flat_map (fun k => k :: emits f k) (kids (row m (b_dst e)))).
    destruct (G (row m (b_dst e)) (b_dst e) log out log' Eg (ord ++ [b_dst e]) (upf pr p (S (pr p))) st1 HR1 Hcin) as (st' & Es' & pr' & HR' & S' & Q' & F1 & F2 & F3 & F4).
    { rewrite (upf_other _ _ _ _ Hcp). rewrite (em_zero _ _ (ri_em _ _ _ _ HRI) _ Hc). reflexivity. }
    { rewrite P1. f_equal. symmetry. now apply pos_app_new. }
    { exact Q1. }
    exists st'. split; [exact Es'|]. exists pr'. rewrite <- app_assoc in HR'. cbn [app] in HR'.
    split; [exact HR'|]. split; [rewrite S', S1; reflexivity|]. split; [exact Q'|]. split; [|split; [|exact F4]].
    + intros w Hw. assert (Hwc : w <> b_dst e) by (intro; subst; contradiction).
      rewrite (F2 w ltac:(apply in_app_iff; now left) Hwc). rewrite Epar. unfold upf. destruct (Nat.eqb_spec w p); subst; reflexivity.
    + intros w [<-|Hw]; [exact F1|now apply F3].
  - destruct Hvia as (Hprev & Hpend).
    assert (Hcn : (c < natoms m)%nat) by (unfold natoms; apply nth_error_Some; congruence).
    destruct (step_root ord pr log st c HRI Epar Hc Hcn Hprev Hpend) as (st1 & Es1 & HR1 & P1 & S1 & Q1).
    rewrite Es1.
    assert (Hcin : In c (ord ++ [c])) by (apply in_app_iff; right; now left).
    cbn [emits]. set (new := flat_map (fun k => k :: emits f k) (kids (row m c))).
    destruct (G (row m c) c log out log' Eg (ord ++ [c]) pr st1 HR1 Hcin) as (st' & Es' & pr' & HR' & S' & Q' & F1 & F2 & F3 & F4).
    { rewrite (em_zero _ _ (ri_em _ _ _ _ HRI) _ Hc). reflexivity. }
    { rewrite P1. f_equal. symmetry. now apply pos_app_new. }
    { exact Q1. }
    exists st'. split; [exact Es'|]. exists pr'. rewrite <- app_assoc in HR'. cbn [app] in HR'.
    split; [exact HR'|]. split; [rewrite S', S1; reflexivity|]. split; [exact Q'|]. split; [|split; [|exact F4]].
    + intros w Hw. assert (Hwc : w <> c) by (intro; subst; contradiction).
      rewrite Epar. exact (F2 w ltac:(apply in_app_iff; now left) Hwc).
    + intros w [<-|Hw]; [exact F1|now apply F3].
Qed.

(* ---------- all fragments ---------- *)
Definition init_state : rstate := {| r_atoms := []; r_nbrs := []; r_prev := None; r_stack := []; r_pend := None; r_open := [] |}.

Lemma RI_init : RI [] (fun _ => 0%nat) [] init_state.
Proof.
  constructor; cbn [init_state r_atoms r_nbrs r_open map]; try reflexivity.
  - constructor.
    + constructor.
    + reflexivity.
    + intro y. lia.
    + intros y p e [].
    + intros y k e _ H. lia.
    + intros y [].
  - constructor; [constructor|]. intros lab v. split; [intros []|]. intros (i & x & k & e & E1 & _). destruct i; discriminate.
  - constructor; [constructor|]. intro key. split; [intros []|]. intros (x & k & e & _ & _ & H & _). lia.
Qed.

Theorem rtoks_sim : forall rs log ts logf, rtoks m rs log = Ok (ts, logf) ->
  forall ord pr st, RI ord pr log st -> r_prev st = None -> r_pend st = None -> r_stack st = [] ->
  (forall r, In r rs -> par r = None /\ ~ In r ord) -> NoDup rs ->
  (forall w, In w ord -> pr w = length (row m w)) ->
  exists st' ord' pr', steps st ts = Some st' /\ RI ord' pr' logf st' /\ r_pend st' = None /\ r_stack st' = [] /\
    (forall w, In w ord' -> pr' w = length (row m w)) /\ (forall r, In r rs -> In r ord') /\ (forall w, In w ord -> In w ord') /\
    ord' = ord ++ flat_map (fun r => r :: emits (S (length (atoms m))) r) rs.
Proof.
  induction rs as [|r rest IH]; intros log ts logf E ord pr st HRI Hprev Hpend Hstk Hrs Hnd' Hfull.
  - cbn in E. inversion E; subst. exists st, ord, pr. split; [reflexivity|]. split; [exact HRI|]. split; [exact Hpend|]. split; [exact Hstk|].
    split; [exact Hfull|]. split; [intros r []|]. split; [auto|cbn [flat_map]; now rewrite app_nil_r].
  - cbn [rtoks] in E.
    destruct (atoks (S (length (atoms m))) m r log) as [[ts1 log2]|] eqn:Ea; cbn [bind] in E; [|discriminate].
    destruct (rtoks m rest log2) as [[ts2 log3]|] eqn:Er; cbn [bind] in E; [|discriminate].
    inversion E; subst; clear E.
    destruct (Hrs r (or_introl eq_refl)) as [Hpr Hr].
    set (new := emits (S (length (atoms m))) r).
    destruct (atoks_sim _ r log ts1 log2 Ea ord pr st HRI Hr) as (st1 & Es1 & pr1 & HR1 & S1 & Q1 & F1 & C1 & P1).
    { rewrite Hpr. auto. }
    rewrite Hpr in F1. inversion Hnd' as [|? ? Hrr Hnd'']; subst.
    assert (Hfull1 : forall w, In w (ord ++ r :: new) -> pr1 w = length (row m w)).
    { intros w Hw. apply in_app_iff in Hw as [Hw|Hw]; [rewrite (F1 w Hw); now apply Hfull|now apply C1]. }
    destruct rest as [|r2 rest2].
    + cbn in Er. inversion Er; subst. exists st1, (ord ++ r :: new), pr1. split; [exact Es1|]. split; [exact HR1|]. split; [exact Q1|].
      split; [rewrite S1; exact Hstk|]. split; [exact Hfull1|]. split.
      * intros r0 [<-|[]]. apply in_app_iff. right. now left.
      * split; [intros w Hw; apply in_app_iff; now left|]. cbn [flat_map]. now rewrite app_nil_r.
    + rewrite steps_app, Es1. cbn [steps step]. rewrite Q1, S1, Hstk.
      set (st2 := {| r_atoms := r_atoms st1; r_nbrs := r_nbrs st1; r_prev := None; r_stack := []; r_pend := None; r_open := r_open st1 |}).
      assert (HR2 : RI (ord ++ r :: new) pr1 log2 st2) by (destruct HR1; constructor; assumption).
      destruct (IH log2 ts2 logf Er (ord ++ r :: new) pr1 st2 HR2 eq_refl eq_refl eq_refl) as (st' & ord' & pr' & Es' & HR' & Q' & S' & Fu' & Rt' & In' & Eo').
      * intros r' Hr'. destruct (Hrs r' (or_intror Hr')) as [Hp' Hn']. split; [exact Hp'|].
        intro Hin. apply in_app_iff in Hin as [Hin|[<-|Hin]]; [contradiction|contradiction|].
        rewrite Forall_forall in P1. exact (P1 r' Hin Hp').
      * exact Hnd''.
      * exact Hfull1.
      * exists st', ord', pr'. split; [exact Es'|]. split; [exact HR'|]. split; [exact Q'|]. split; [exact S'|]. split; [exact Fu'|]. split.
        -- intros r0 [<-|Hr0]; [apply In'; apply in_app_iff; right; now left|now apply Rt'].
        -- split; [intros w Hw; apply In'; apply in_app_iff; now left|]. rewrite Eo', <- app_assoc. reflexivity.
Qed.

(* every atom is eventually written: roots by the loop above, the others through their parents *)
Lemma all_written ord pr : EM ord pr -> (forall r, In r (roots m) -> In r ord) -> (forall w, In w ord -> pr w = length (row m w)) ->
  forall j, (j < natoms m)%nat -> In j ord.
Proof.
  intros Hem Hroots Hfull j. induction j as [j IHj] using lt_wf_ind. intro Hj.
  destruct (par j) as [[p e]|] eqn:Ep.
  - destruct (par_some _ _ _ Ep) as (Hein & Hre & Hd & Hlt).
    assert (Hp : In p ord) by (apply IHj; [exact Hlt|lia]).
    destruct (In_nth_error _ _ Hein) as [k Ek].
    rewrite <- Hd. apply (em_child _ _ Hem p k e Ek); [|exact Hre]. rewrite (Hfull p Hp). apply nth_error_Some. congruence.
  - apply Hroots. now apply par_none_root.
Qed.

(* ---------- the molecule read at the end ---------- *)
Definition fps (ord : list nat) (x : nat) : list nslot :=
  match par x with Some (p, e) => [mkslot (pos ord p) e false] | None => [] end.
Definition frow (ord : list nat) (x : nat) : list nslot :=
  fps ord x ++ map (fun e => mkslot (pos ord (b_dst e)) e (b_ring e)) (row m x).

Lemma all_some_map {A} (l : list A) : all_some (map Some l) = Some l.
Proof. induction l as [|a l IH]; cbn; [reflexivity|]. now rewrite IH. Qed.

Lemma all_some_rows_map {A B} (f : A -> list (option B)) (g : A -> list B) (l : list A) :
  (forall x, In x l -> f x = map Some (g x)) -> all_some_rows (map f l) = Some (map g l).
Proof.
  induction l as [|a l IH]; intro H; cbn; [reflexivity|]. rewrite (H a (or_introl eq_refl)), all_some_map, IH; [reflexivity|].
  intros x Hx. apply H. now right.
Qed.

Definition eord : list nat := flat_map (fun r => r :: emits (S (length (atoms m))) r) (roots m).

Theorem read_graph_ord ts logf : rtoks m (roots m) [] = Ok (ts, logf) ->
  exists st' ord, steps init_state ts = Some st' /\ r_pend st' = None /\ r_stack st' = [] /\ r_open st' = [] /\
    r_atoms st' = map aat ord /\ all_some_rows (r_nbrs st') = Some (map (frow ord) ord) /\
    NoDup ord /\ (forall j, In j ord <-> (j < natoms m)%nat) /\ (length logf <= length logf)%nat /\
    (forall key, In key logf -> exists x e, In e (row m x) /\ b_ring e = true /\ key = key_of x (b_dst e)) /\ NoDup logf /\ ord = eord.
Proof.
  intro E.
  destruct (rtoks_sim (roots m) [] ts logf E [] (fun _ => 0%nat) init_state RI_init eq_refl eq_refl eq_refl)
    as (st' & ord & pr & Es & HR & Q & S & Full & Rts & _ & Eord).
  { intros r Hr. split; [now apply root_par_none|intros []]. }
  { exact (t_nodup _ HT). }
  { intros w []. }
  pose proof (ri_em _ _ _ _ HR) as Hem.
  assert (Hall : forall j, (j < natoms m)%nat -> In j ord) by (apply (all_written ord pr Hem Rts Full)).
  assert (Hin : forall j, In j ord -> (j < natoms m)%nat) by exact (em_lt _ _ Hem).
  exists st', ord. split; [exact Es|]. split; [exact Q|]. split; [exact S|].
  split.
  - (* no label is left open *)
    destruct (r_open st') as [|[lab v] tl] eqn:Eo; [reflexivity|]. exfalso.
    assert (Hv : In (lab, v) (r_open st')) by (rewrite Eo; now left).
    apply (ot_in _ _ _ _ (ri_ot _ _ _ _ HR)) in Hv as (i & x & k & e & _ & _ & E3 & E4 & E5 & E6 & _).
    destruct (partner x k e E3 E4) as (e' & Ee' & _). unfold closedb in E6. apply Nat.ltb_ge in E6.
    assert (Hy : (b_dst e < natoms m)%nat) by (apply (Hb x e); eapply nth_error_In; exact E3).
    rewrite (Full _ (Hall _ Hy)) in E6. assert (index_dst (row m (b_dst e)) x < length (row m (b_dst e)))%nat by (apply nth_error_Some; congruence). lia.
  - split; [exact (ri_atoms _ _ _ _ HR)|]. split.
    + rewrite (ri_rows _ _ _ _ HR). apply all_some_rows_map. intros x Hx. unfold rowspec, frow, pslot, fps.
      rewrite map_app. f_equal; [destruct (par x) as [[p e]|]; reflexivity|].
      rewrite (Full x Hx), firstn_all, map_map. apply map_ext_in. intros e He. unfold ent.
      destruct (b_ring e) eqn:Er; [|reflexivity].
      destruct (In_nth_error _ _ He) as [k Ek]. destruct (partner x k e Ek Er) as (e' & Ee' & _).
      assert (Hy : (b_dst e < natoms m)%nat) by (apply (Hb x e He)).
      unfold closedb. rewrite (Full _ (Hall _ Hy)).
      assert (X : (index_dst (row m (b_dst e)) x <? length (row m (b_dst e)))%nat = true) by (apply Nat.ltb_lt, nth_error_Some; congruence).
      now rewrite X.
    + split; [exact (em_nodup _ _ Hem)|]. split; [intro j; split; [apply Hin|apply Hall]|]. split; [lia|]. split.
      * intros key Hk. apply (lg_in _ _ (ri_lg _ _ _ _ HR)) in Hk as (x & k & e & E1 & E2 & _ & E4). exists x, e. split; [eapply nth_error_In; exact E1|auto].
      * split; [exact (lg_nodup _ _ (ri_lg _ _ _ _ HR))|exact Eord].
Qed.

Theorem read_graph ts logf : rtoks m (roots m) [] = Ok (ts, logf) ->
  exists st' ord, steps init_state ts = Some st' /\ r_pend st' = None /\ r_stack st' = [] /\ r_open st' = [] /\
    r_atoms st' = map aat ord /\ all_some_rows (r_nbrs st') = Some (map (frow ord) ord) /\
    NoDup ord /\ (forall j, In j ord <-> (j < natoms m)%nat) /\ (length logf <= length logf)%nat /\
    (forall key, In key logf -> exists x e, In e (row m x) /\ b_ring e = true /\ key = key_of x (b_dst e)) /\ NoDup logf.
Proof.
  intro E. destruct (read_graph_ord ts logf E) as (st' & ord & A1 & A2 & A3 & A4 & A5 & A6 & A7 & A8 & A9 & A10 & A11 & _).
  exists st', ord. repeat (split; [assumption|]). assumption.
Qed.
End Sim.
