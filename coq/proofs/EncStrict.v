(* EncStrict.v — C10: under strict=True the semantic hypothesis of the decodability theorem is discharged.  If the strict
   check passes, every stored count is at most 2*(capacity - explicit H); the count is the sum of the orders of the
   atom's bonds (EncCount.v), hence not negative; so the explicit hydrogens of every atom fit its capacity - which is
   hypothesis (cap_ok) of encoder_output_decodes.  What remains are the size bounds on input and output. *)
From Coq Require Import Ascii String List Arith ZArith NArith Bool Lia.
Import ListNotations.
From Selfies Require Import Base Generated Lex Atoms Grammar Decoder Smiles PySet Matching Kekulize Encoder BaseFacts ConfigFacts DecoderInv EncoderFacts
  ParserTotal AlphaClosure EncHyp EncShape EncTokens EncRows EncAttr EncGood EncDecodes EncSize EncIndex EncKey EncArom EncUniq EncOrders EncKek EncCount.
Local Open Scope Z_scope.

Lemma constraint_errors_false capf m : forall atoms idx, bond_constraint_errors capf m atoms idx = Ok false ->
  forall k a at_, nth_error atoms k = Some (a, at_) ->
    exists cap c2, bonding_capacity_c capf a = Ok cap /\ mg_get_bond_count2 m (idx + k) = Ok c2 /\ c2 <= 2 * cap.
Proof.
  induction atoms as [|[a0 at0] r IH]; intros idx E k a at_ Hk; [destruct k; discriminate|]. cbn [bond_constraint_errors] in E.
  destruct (bonding_capacity_c capf a0) as [cap|] eqn:Ec; cbn [bind] in E; [|discriminate].
  destruct (mg_get_bond_count2 m idx) as [c2|] eqn:Eg; cbn [bind] in E; [|discriminate].
  destruct (2 * cap <? c2) eqn:Elt.
  - destruct (atom_to_smiles a0 true); cbn [bind] in E; [|discriminate]. destruct (bond_constraint_errors capf m r (S idx)); cbn [bind] in E; discriminate.
  - destruct k as [|k]; cbn in Hk.
    + inversion Hk; subst. exists cap, c2. rewrite Nat.add_0_r. split; [exact Ec|]. split; [exact Eg|]. apply Z.ltb_ge in Elt. exact Elt.
    + replace (idx + S k)%nat with (S idx + k)%nat by lia. exact (IH (S idx) E k a at_ Hk).
Qed.

Lemma tot_nonneg m i : (forall j row e, nth_error (m_adj m) j = Some row -> In (Some e) row -> 0 <= e_order2 e) -> 0 <= tot m i.
Proof.
  intro H. unfold tot.
  assert (X : forall adj j0, (forall s row e, nth_error adj s = Some row -> In (Some e) row -> 0 <= e_order2 e) -> 0 <= sumrows i j0 adj).
  { induction adj as [|row r IH]; intros j0 Ha; cbn [sumrows]; [lia|].
    assert (Y : forall l, (forall e, In (Some e) l -> 0 <= e_order2 e) -> 0 <= rowsum i j0 l).
    { induction l as [|oe l IHl]; intro Hl; cbn [rowsum]; [lia|]. specialize (IHl (fun e He => Hl e (or_intror He))).
      destruct oe as [e|]; cbn [w]; [|lia]. pose proof (Hl e (or_introl eq_refl)). destruct (Nat.eqb j0 i), (negb (e_ring e) && Nat.eqb (e_dst e) i); lia. }
    pose proof (Y row (fun e He => Ha 0%nat row e eq_refl He)). pose proof (IH (S j0) (fun s row0 e Hn Hin => Ha (S s) row0 e Hn Hin)). lia. }
  apply X. exact H.
Qed.

(* a passed strict check makes hypothesis (cap_ok) true *)
Theorem strict_check_gives_cap_ok T smiles attribute m0 m1 :
  smiles_to_mol smiles attribute = Ok m0 -> kekulize m0 = Ok (Some m1) ->
  check_bond_constraints (get_bonding_capacity T) m1 = Ok tt -> Forall (cap_ok T) (atoms_of m0).
Proof.
  intros Ep Ek Ec. destruct (parsed_kekulized_counts _ _ _ _ Ep Ek) as [_ [Lc La Sc]].
  pose proof (parsed_kekulize_orders _ _ _ _ Ep Ek) as Ho.
  destruct (kekulize_kept _ _ Ek) as [Hk _].
  unfold check_bond_constraints in Ec. destruct (bond_constraint_errors _ m1 (m_atoms m1) 0) as [bad|] eqn:Eb; cbn [bind] in Ec; [|discriminate].
  destruct bad; [discriminate|]. pose proof (constraint_errors_false _ _ _ _ Eb) as Hall.
  apply Forall_forall. intros a0 Ha0. unfold atoms_of in Ha0. apply in_map_iff in Ha0 as ([a0' at0] & <- & Hin0). cbn [fst].
  destruct (In_nth_error _ _ Hin0) as [k Hk0].
  assert (X : exists p1, nth_error (m_atoms m1) k = Some p1 /\ kept (a0', at0) p1).
  { clear -Hk Hk0. revert k Hk0. induction Hk as [|p q l l' Hpq Hl IH]; intros [|k] Hk0; cbn in Hk0; try discriminate.
    - inversion Hk0; subst. exists q. auto.
    - exact (IH k Hk0). }
  destruct X as ([a1 at1] & Hk1 & [_ (Ke & _ & Kh & Kc)]). cbn [fst] in Ke, Kh, Kc.
  destruct (Hall k a1 at1 Hk1) as (cap & c2 & Ecap & Eg & Hle). cbn [plus] in Eg.
  unfold bonding_capacity_c in Ecap. destruct (get_bonding_capacity T (a_element a1) (a_charge a1)) as [c|] eqn:Eget; cbn [bind] in Ecap; [|discriminate]. inversion Ecap; subst cap.
  unfold mg_get_bond_count2 in Eg. apply lget_In in Eg. rewrite (Sc k c2 Eg) in Hle.
  assert (0 <= tot m1 k) by (apply tot_nonneg; intros j row e Hn Hi; destruct (Ho j row e Hn Hi) as [H|[H|H]]; rewrite H; lia).
  exists c. split; [rewrite <- Ke, <- Kc; exact Eget|]. unfold hv. rewrite <- Kh. lia.
Qed.

Theorem encoder_output_decodes_strict T smiles attribute s maps attribute' :
  table_ok T ->
  encoder T smiles true attribute = Ok (s, maps) ->
  (length smiles <= 4096)%nat ->
  (length (flat_map fst (tokenize_all s false)) <= 4096)%nat ->
  exists out, decoder T s false attribute' = Ok out.
Proof.
  intros HT E Hin Hout. apply (encoder_output_decodes_sized T smiles true attribute s maps attribute' HT E); [|exact Hin|exact Hout].
  intros m0 Ep. unfold encoder, encoder_c in E. rewrite Ep in E. unfold encode_mol in E.
  destruct (kekulize m0) as [[m1|]|] eqn:Ek; cbn [bind] in E; try discriminate.
  destruct (check_bond_constraints (get_bonding_capacity T) m1) as [[]|] eqn:Ec; cbn [bind] in E; [|discriminate].
  exact (strict_check_gives_cap_ok T smiles attribute m0 m1 Ep Ek Ec).
Qed.
