(* DocDerive.v — C02: the decoder's derivation pass computes what the documented derivation
   (spec/DocGrammar.v: dd) computes, fragment by fragment. *)
From Coq Require Import Ascii String List Arith ZArith NArith Bool Lia.
Import ListNotations.
From Selfies Require Import Base Generated Lex Atoms Grammar Decoder IndexSpec Reader DocGrammar BaseFacts StateFacts IndexCode DecoderBasics
  ConfigFacts DecoderInv DecoderTree WriterAtoms WriterLex WriterSim DocAtoms.
Local Open Scope Z_scope.

(* ---------- the documented state that corresponds to a decoder graph ---------- *)
Definition slot_of (e : dbond) : nslot := mkslot (b_dst e) e (b_ring e).
Definition ringq_of (r : ringreq) : ringq :=
  {| q_l := r_l r; q_r := r_r r; q_order := r_order r; q_lm := r_ls r; q_rm := r_rs r |}.
Definition datom_of (t : atom * Z * attrs) : satom * Z := (abs_atom (fst (fst t)), snd (fst t)).

Definition pre_ok (m : dmol) (x : nat) (flag : bool) (pre : list nslot) : Prop :=
  if flag then exists p e, In e (row m p) /\ b_ring e = false /\ b_dst e = x /\ pre = [mkslot p e false]
  else pre = [] /\ In x (roots m).

Record Rel (m : dmol) (rings : list ringreq) (d : dstate) : Prop := {
  rl_atoms : dg_atoms d = map datom_of (atoms m);
  rl_len : length (dg_nbrs d) = natoms m;
  rl_plen : length (dg_parent d) = natoms m;
  rl_alen : length (adj m) = natoms m;
  rl_rows : forall x, (x < natoms m)%nat -> exists pre,
      nth x (dg_nbrs d) [] = pre ++ map slot_of (row m x) /\ pre_ok m x (nth x (dg_parent d) false) pre;
  rl_rings : dg_rings d = map ringq_of rings }.

Lemma rel_empty : Rel empty_mol [] dg_empty.
Proof. constructor; try reflexivity. intros x Hx. cbn in Hx. lia. Qed.

Lemma row_add_atom m a cap at_ root x : length (adj m) = natoms m ->
  row (fst (add_atom m a cap at_ root)) x = if (x <? natoms m)%nat then row m x else [].
Proof.
  intro Ha. unfold row, add_atom. cbn [fst adj]. destruct (Nat.ltb_spec x (natoms m)) as [L|L].
  - rewrite app_nth1 by lia. reflexivity.
  - rewrite app_nth2 by lia. destruct (x - length (adj m))%nat as [|[|k]]; reflexivity.
Qed.

Lemma rel_add_root m rings d a cap at_ : Rel m rings d ->
  Rel (fst (add_atom m a cap at_ true)) rings
      {| dg_atoms := dg_atoms d ++ [(abs_atom a, cap)]; dg_nbrs := dg_nbrs d ++ [[]];
         dg_parent := dg_parent d ++ [false]; dg_rings := dg_rings d |}.
Proof.
  intros [Ra Rl Rp Rad Rr Rq]. constructor; cbn [dg_atoms dg_nbrs dg_parent dg_rings].
  - unfold add_atom. cbn [fst atoms]. rewrite map_app, Ra. reflexivity.
  - unfold natoms, add_atom. cbn [fst atoms]. rewrite !app_length. cbn [length]. unfold natoms in Rl. lia.
  - unfold natoms, add_atom. cbn [fst atoms]. rewrite !app_length. cbn [length]. unfold natoms in Rp. lia.
  - unfold natoms, add_atom. cbn [fst atoms adj]. rewrite !app_length. cbn [length]. unfold natoms in Rad. lia.
  - intros x Hx. rewrite (row_add_atom m a cap at_ true x Rad).
    assert (Hn : natoms (fst (add_atom m a cap at_ true)) = S (natoms m)) by (unfold natoms, add_atom; cbn [fst atoms]; rewrite app_length; cbn; lia).
    rewrite Hn in Hx. destruct (Nat.ltb_spec x (natoms m)) as [L|L].
    + destruct (Rr x L) as (pre & E1 & E2). exists pre. rewrite !app_nth1 by lia. split; [exact E1|].
      unfold pre_ok in *. destruct (nth x (dg_parent d) false).
      * destruct E2 as (p & e & He & Hrg & Hd & Hp). exists p, e. repeat split; auto.
        rewrite (row_add_atom m a cap at_ true p Rad). destruct (Nat.ltb_spec p (natoms m)) as [Lp|Lp]; [exact He|].
        unfold row in He. rewrite nth_overflow in He by lia. destruct He.
      * destruct E2 as [-> Hroot]. split; [reflexivity|]. unfold add_atom. cbn [fst roots]. apply in_app_iff. now left.
    + assert (x = natoms m) by lia. subst x. exists []. rewrite !app_nth2 by lia. rewrite Rl, Rp, !Nat.sub_diag. cbn [nth app map].
      split; [reflexivity|]. split; [reflexivity|]. unfold add_atom. cbn [fst roots]. apply in_app_iff. right. now left.
  - exact Rq.
Qed.

Lemma natoms_add_atom m a cap at_ root : natoms (fst (add_atom m a cap at_ root)) = S (natoms m).
Proof. unfold natoms, add_atom. cbn [fst atoms]. rewrite app_length. cbn. lia. Qed.

Lemma rel_add_child m rings d a cap at_ p mu st at2 m3 mark : Rel m rings d -> (p < natoms m)%nat ->
  add_bond (fst (add_atom m a cap at_ false)) p (natoms m) mu st at2 = Ok m3 ->
  (forall e, b_order e = mu -> b_stereo e = st -> mark_of e = mark) ->
  Rel m3 rings
      {| dg_atoms := dg_atoms d ++ [(abs_atom a, cap)];
         dg_nbrs := upd (dg_nbrs d) p (fun l => l ++ [{| sl_to := natoms m; sl_order2 := 2 * mu; sl_mark := mark; sl_ring := false |}])
                    ++ [[{| sl_to := p; sl_order2 := 2 * mu; sl_mark := mark; sl_ring := false |}]];
         dg_parent := dg_parent d ++ [true]; dg_rings := dg_rings d |}.
Proof.
  intros [Ra Rl Rp Rad Rr Rq] Hp E Hmark. unfold add_bond in E.
  destruct (negb _); [discriminate|]. destruct (negb _); [discriminate|]. injection E as <-.
  set (m2 := fst (add_atom m a cap at_ false)).
  set (b := {| b_src := p; b_dst := natoms m; b_order := mu; b_stereo := st; b_ring := false; b_attr := at2 |}).
  assert (Hn2 : natoms m2 = S (natoms m)) by apply natoms_add_atom.
  assert (Hrow2 : forall x, row m2 x = if (x <? natoms m)%nat then row m x else []) by (intro x; apply row_add_atom; exact Rad).
  assert (Hal2 : length (adj m2) = S (natoms m)) by (unfold m2, add_atom; cbn [fst adj]; rewrite app_length; cbn; lia).
  assert (Hmk : mark_of b = mark) by (apply Hmark; reflexivity).
  assert (Hrow3 : forall x, nth x (upd (adj m2) p (fun l => l ++ [b])) [] = if Nat.eqb p x then row m x ++ [b] else row m2 x).
  { intro x. rewrite nth_upd. fold (row m2 x). rewrite Hal2. destruct (Nat.eqb_spec p x) as [<-|N]; cbn [andb]; [|reflexivity].
    assert (X : (p <? S (natoms m))%nat = true) by (apply Nat.ltb_lt; lia). rewrite X, Hrow2.
    assert (Y : (p <? natoms m)%nat = true) by (apply Nat.ltb_lt; lia). now rewrite Y. }
  assert (Hn3 : forall r ad c, natoms {| atoms := atoms m2; roots := r; adj := ad; counts := c |} = S (natoms m)) by (intros; exact Hn2).
  constructor; cbn [dg_atoms dg_nbrs dg_parent dg_rings atoms adj roots]; rewrite ?Hn3.
  - unfold m2, add_atom. cbn [fst atoms]. rewrite map_app, Ra. reflexivity.
  - rewrite app_length, upd_length. cbn [length]. lia.
  - rewrite app_length. cbn [length]. lia.
  - rewrite upd_length. exact Hal2.
  - intros x Hx. unfold row at 1. cbn [adj]. rewrite Hrow3.
    assert (Hin3 : forall q e, In e (row m q) -> In e (nth q (upd (adj m2) p (fun l => l ++ [b])) [])).
    { intros q e He. rewrite Hrow3. destruct (Nat.eqb_spec p q) as [<-|N]; [apply in_app_iff; now left|].
      rewrite Hrow2. destruct (Nat.ltb_spec q (natoms m)); [exact He|]. unfold row in He. rewrite nth_overflow in He by lia. destruct He. }
    destruct (Nat.ltb_spec x (natoms m)) as [L|L].
    + destruct (Rr x L) as (pre & E1 & E2). exists pre. rewrite !app_nth1 by (rewrite ?upd_length; lia). split.
      * rewrite nth_upd, Rl. destruct (Nat.eqb_spec p x) as [<-|N]; cbn [andb].
        -- assert (Y : (p <? natoms m)%nat = true) by (apply Nat.ltb_lt; lia). rewrite Y, E1, map_app, <- app_assoc. cbn [map]. f_equal. f_equal. unfold slot_of, mkslot. rewrite Hmk. reflexivity.
        -- rewrite E1, Hrow2. assert (Y : (x <? natoms m)%nat = true) by (apply Nat.ltb_lt; lia). now rewrite Y.
      * unfold pre_ok in *. destruct (nth x (dg_parent d) false).
        -- destruct E2 as (q & e & He & Hrg & Hd & Hq). exists q, e. repeat split; auto. unfold row. cbn [adj]. now apply Hin3.
        -- destruct E2 as [-> Hroot]. split; [reflexivity|exact Hroot].
    + assert (x = natoms m) by lia. subst x. exists [mkslot p b false].
      rewrite !app_nth2 by (rewrite ?upd_length; lia). rewrite upd_length, Rl, Rp, !Nat.sub_diag. cbn [nth].
      destruct (Nat.eqb_spec p (natoms m)) as [Ep|_]; [lia|]. rewrite Hrow2, Nat.ltb_irrefl. cbn [map app]. split.
      * unfold mkslot. cbn [b_order b]. rewrite Hmk. reflexivity.
      * exists p, b. repeat split; try reflexivity. unfold row. cbn [adj]. rewrite Hrow3, Nat.eqb_refl. apply in_app_iff. right. now left.
  - exact Rq.
Qed.

Lemma rel_push_ring m rings d rq : Rel m rings d ->
  Rel m (rings ++ [rq]) {| dg_atoms := dg_atoms d; dg_nbrs := dg_nbrs d; dg_parent := dg_parent d; dg_rings := dg_rings d ++ [ringq_of rq] |}.
Proof. intros [Ra Rl Rp Rad Rr Rq]. constructor; cbn [dg_atoms dg_nbrs dg_parent dg_rings]; auto. rewrite map_app, Rq. reflexivity. Qed.

(* ---------- symbol tables ---------- *)
Lemma assoc_map_snd {A B} (g : A -> B) k (l : list (str * A)) :
  assoc k (map (fun kv => (fst kv, g (snd kv))) l) = option_map g (assoc k l).
Proof. induction l as [|[k' v] l IH]; cbn; [reflexivity|]. destruct (str_eqb k k'); [reflexivity|exact IH]. Qed.

Lemma branch_sym_doc sym bt n : process_branch_symbol sym = Some (bt, n) ->
  assoc sym branch_symbols = Some bt /\ ring_len sym = n.
Proof.
  unfold process_branch_symbol. intro H. destruct branch_table_documented as [E F]. split.
  - rewrite <- E. rewrite (assoc_map_snd (fun v => fst v)), H. reflexivity.
  - apply assoc_in in H. rewrite forallb_forall in F. specialize (F _ H). cbn [fst snd] in F. apply Nat.eqb_eq in F. now symmetry.
Qed.

Lemma ring_sym_doc sym rt n ls rs : process_ring_symbol sym = Some (rt, n, (ls, rs)) ->
  assoc sym ring_symbols = Some (rt, ls, rs) /\ ring_len sym = n.
Proof.
  unfold process_ring_symbol. intro H. destruct ring_table_documented as [E F]. split.
  - rewrite <- E. rewrite (assoc_map_snd (fun v => (fst (fst v), fst (snd v), snd (snd v)))), H. reflexivity.
  - apply assoc_in in H. rewrite forallb_forall in F. specialize (F _ H). cbn [fst snd] in F. apply Nat.eqb_eq in F. now symmetry.
Qed.

Lemma not_branch_like sym : is_branch_like sym = false -> assoc sym branch_symbols = None.
Proof.
  intro H. destruct (assoc sym branch_symbols) as [v|] eqn:E; [|reflexivity]. apply assoc_in in E.
  assert (F : forallb (fun kv => is_branch_like (fst kv)) branch_symbols = true) by (vm_compute; reflexivity).
  rewrite forallb_forall in F. specialize (F _ E). cbn [fst] in F. congruence.
Qed.

Lemma not_ring_like sym : is_ring_like sym = false -> assoc sym ring_symbols = None.
Proof.
  intro H. destruct (assoc sym ring_symbols) as [v|] eqn:E; [|reflexivity]. apply assoc_in in E.
  assert (F : forallb (fun kv => is_ring_like (fst kv)) ring_symbols = true) by (vm_compute; reflexivity).
  rewrite forallb_forall in F. specialize (F _ E). cbn [fst] in F. congruence.
Qed.

Lemma skipn_skipn' {A} : forall x y (l : list A), skipn x (skipn y l) = skipn (y + x) l.
Proof. intros x y. induction y as [|y IH]; intro l; [reflexivity|]. destruct l as [|a l]; [now rewrite !skipn_nil|]. cbn [skipn Nat.add]. apply IH. Qed.

(* ---------- tokens: the decoder's list view and the documented pointer view ---------- *)
Section Tokens.
Variable toks : list str.

Definition At (ts : Decoder.toks) (pos : nat) : Prop := map snd ts = skipn pos toks /\ (pos <= length toks)%nat.

Lemma At_cons idx sym rest pos : At ((idx, sym) :: rest) pos -> nth_error toks pos = Some sym /\ At rest (S pos).
Proof.
  intros [E L]. cbn [map snd] in E. 
  assert (Hn : nth_error toks pos = Some sym).
  { rewrite <- (firstn_skipn pos toks) at 1. rewrite nth_error_app2 by (rewrite firstn_length; lia).
    rewrite firstn_length, Nat.min_l by lia. rewrite Nat.sub_diag, <- E. reflexivity. }
  split; [exact Hn|]. split.
  - replace (S pos) with (pos + 1)%nat by lia. rewrite <- skipn_skipn', <- E. reflexivity.
  - apply nth_error_Some. congruence.
Qed.

Lemma At_nil pos : At [] pos -> nth_error toks pos = None /\ pos = length toks.
Proof.
  intros [E L]. cbn in E. assert (length (skipn pos toks) = 0%nat) by (rewrite <- E; reflexivity).
  rewrite skipn_length in H. assert (pos = length toks) by lia. split; [apply nth_error_None; lia|assumption].
Qed.

Lemma At_len ts pos : At ts pos -> length ts = (length toks - pos)%nat.
Proof. intros [E _]. rewrite <- (map_length snd), E, skipn_length. reflexivity. Qed.

Lemma At_skip ts pos k : At ts pos -> (k <= length ts)%nat -> At (skipn k ts) (pos + k).
Proof.
  intros H Hk. pose proof (At_len _ _ H) as Hl. destruct H as [E L]. split; [|lia].
  rewrite <- skipn_map, E, skipn_skipn'. reflexivity.
Qed.
End Tokens.

(* ---------- index symbols ---------- *)
Lemma map_none_seq {A} a b n : map (fun _ : nat => @None A) (seq a n) = map (fun _ : nat => @None A) (seq b n).
Proof. revert a b. induction n as [|n IH]; intros a b; [reflexivity|]. cbn. f_equal. apply IH. Qed.

Lemma read_index_spec : forall n (ts : Decoder.toks) acc k,
  read_index n ts None acc k =
    Ok (rev acc ++ map (fun j => option_map snd (nth_error ts j)) (seq 0 n), skipn n ts, (k + Nat.min n (length ts))%nat).
Proof.
  induction n as [|n IH]; intros ts acc k; cbn [read_index].
  - cbn. rewrite app_nil_r, Nat.add_0_r. reflexivity.
  - destruct ts as [|[i s] r].
    + cbn [raise_or]. rewrite IH. rewrite !skipn_nil. cbn [rev length]. rewrite !Nat.min_0_r, <- app_assoc.
      assert (X : forall a, map (fun j : nat => option_map (@snd nat str) (nth_error [] j)) (seq a n) = map (fun _ : nat => @None str) (seq a n))
        by (intro a; apply map_ext; intros j; now destruct j).
      cbn [seq map app]. rewrite !X, (map_none_seq 1 0). reflexivity.
    + rewrite IH. cbn [rev length skipn]. rewrite <- app_assoc.
      replace (S k + Nat.min n (length r))%nat with (k + Nat.min (S n) (S (length r)))%nat by (cbn [Nat.min]; lia).
      cbn [seq map app nth_error option_map snd]. rewrite <- seq_shift, map_map. reflexivity.
Qed.

Lemma read_Q_spec toks (ts : Decoder.toks) pos L : At toks ts pos ->
  read_Q toks pos L = (get_index_from_selfies (map (fun j => option_map snd (nth_error ts j)) (seq 0 L)), Nat.min L (length ts)).
Proof.
  intros H. pose proof (At_len _ _ _ H) as Hl. destruct H as [E Hp]. unfold read_Q. rewrite Hl. f_equal.
  rewrite get_index_is_base16. f_equal. f_equal. apply map_ext. intro j.
  rewrite <- nth_error_map, E. clear. revert toks. induction pos as [|p IH]; intro toks; [reflexivity|].
  destruct toks as [|t r]; [now destruct j|]. cbn [skipn Nat.add nth_error]. apply IH.
Qed.

(* ---------- budgets ---------- *)
Definition left_of (maxd : option nat) (nd : nat) : option nat :=
  match maxd with None => None | Some mx => Some (mx - nd)%nat end.
Definition cur_of (p : prev_atom) : option nat := match p with PAtom i => Some i | _ => None end.

Lemma drain_skip toks ts pos maxd nd ts' nd' : At toks ts pos -> drain ts None maxd nd = Ok (ts', nd') ->
  At toks ts' (skip toks pos (left_of maxd nd)) /\ (skip toks pos (left_of maxd nd) + nd = pos + nd')%nat /\ (pos <= skip toks pos (left_of maxd nd))%nat.
Proof.
  intros H E. pose proof (At_len _ _ _ H) as Hl. pose proof H as [_ Hp]. unfold drain in E. unfold skip, left_of. destruct maxd as [mx|].
  - destruct (Nat.leb_spec (mx - nd) (length ts)) as [L|L].
    + injection E as <- <-. replace (Nat.min (length toks) (pos + (mx - nd))) with (pos + (mx - nd))%nat by lia.
      split; [now apply At_skip|lia].
    + cbn [raise_or] in E. injection E as <- <-. replace (Nat.min (length toks) (pos + (mx - nd))) with (length toks) by lia.
      split; [|lia]. split; [cbn; now rewrite skipn_all|lia].
  - cbn [raise_or] in E. injection E as <- <-. split; [|lia]. split; [cbn; now rewrite skipn_all|lia].
Qed.

Lemma left_dec maxd nd k : dec (left_of maxd nd) k = left_of maxd (nd + k).
Proof. unfold dec, left_of. destruct maxd; [f_equal; lia|reflexivity]. Qed.

Lemma nocache_stereo sym o st a : process_atom_nocache sym = Ok (Some (o, st, a)) ->
  1 <= o <= 3 /\ forall c, st = Some c -> o = 1 /\ is_stereo_char c = true.
Proof.
  unfold process_atom_nocache. destruct (match_selfies_atom sym) as [f|] eqn:Em; [|discriminate].
  destruct (match_tiles sym f Em) as (_ & Hb & _).
  assert (G : 1 <= fst (smiles_to_bond2 (f_bond f)) / 2 <= 3 /\
              forall c, snd (smiles_to_bond2 (f_bond f)) = Some c -> fst (smiles_to_bond2 (f_bond f)) / 2 = 1 /\ is_stereo_char c = true).
  { destruct (f_bond f) as [c|]; [|split; [cbn; lia|intros c H; discriminate]].
    destruct (bond_prefix_cases c Hb) as [->|[->|[->| ->]]]; (split; [vm_compute; split; discriminate|intros c H; vm_compute in H; try discriminate; injection H as <-; split; reflexivity]). }
  destruct (smiles_to_bond2 (f_bond f)) as [o2 st2]. cbn [fst snd] in G.
  destruct (mem_str _ organic_subset).
  - intro E. injection E as <- <- _. exact G.
  - destruct (match f_iso f with [] => Ok None | _ => _ end); cbn [bind]; [|discriminate].
    destruct (negb _); [discriminate|].
    destruct (match f_h f with [] => Ok 0%N | _ => _ end); cbn [bind]; [|discriminate].
    destruct (match f_charge f with [] => Ok 0 | _ => _ end); cbn [bind]; [|discriminate].
    intro E. injection E as <- <- _. exact G.
Qed.

Lemma mark_of_bond mu st : 1 <= mu <= 3 -> (forall c, st = Some c -> mu = 1 /\ is_stereo_char c = true) ->
  forall e, b_order e = mu -> b_stereo e = st -> mark_of e = st.
Proof.
  intros Hmu Hst e Ho Hs. unfold mark_of, pend_of, btoks. rewrite Ho, Hs.
  destruct st as [c|].
  - destruct (Hst c eq_refl) as [-> Hc]. rewrite Z.eqb_refl, Hc. reflexivity.
  - destruct (mu =? 1); [reflexivity|]. destruct (mu =? 2); [reflexivity|]. destruct (mu =? 3); reflexivity.
Qed.

(* ---------- the simulation ---------- *)
Section Sim2.
Variable T : table.
Variable toks : list str.
Variable aidx : nat.

Theorem derive_sim : forall fuel ts m maxd state prev rings astack nd ts' m' rings' nd',
  derive T None aidx fuel ts m maxd state prev rings astack nd = Ok (ts', m', rings', nd') ->
  forall pos d, At toks ts pos -> Rel m rings d -> 0 <= state -> prev <> PGhost ->
  (forall p, prev = PAtom p -> (p < natoms m)%nat) ->
  exists pos' d', dd T toks fuel pos (left_of maxd nd) state (cur_of prev) d = Ok (pos', d') /\
    At toks ts' pos' /\ Rel m' rings' d' /\ (pos' + nd = pos + nd')%nat /\ (natoms m <= natoms m')%nat /\ (pos <= pos')%nat.
Proof.
  induction fuel as [|f IH]; intros ts m maxd state prev rings astack nd ts' m' rings' nd' E pos d HA HR Hst Hng Hpl; [discriminate|].
  unfold derive in E. cbn [derive_c] in E. cbv zeta in E. fold (derive T) in E.
  (* finishing: the rest of the budget is consumed *)
  assert (Fin : forall ts0 (m0 : dmol) (rings0 : list ringreq) nd0 pos0 d0,
            (do (t, n) <- drain ts0 None maxd nd0; Ok (t, m0, rings0, n)) = Ok (ts', m', rings', nd') ->
            At toks ts0 pos0 -> Rel m0 rings0 d0 -> (natoms m <= natoms m0)%nat -> (pos0 + nd = pos + nd0)%nat -> (pos <= pos0)%nat ->
            exists pos', pos' = skip toks pos0 (left_of maxd nd0) /\
              At toks ts' pos' /\ Rel m' rings' d0 /\ (pos' + nd = pos + nd')%nat /\ (natoms m <= natoms m')%nat /\ (pos <= pos')%nat).
  { intros ts0 m0 rings0 nd0 pos0 d0 H HA0 HR0 Hn0 Hc0 Hp0.
    destruct (drain ts0 None maxd nd0) as [[t n]|] eqn:Ed; cbn [bind] in H; [|discriminate]. injection H as <- <- <- <-.
    destruct (drain_skip toks ts0 pos0 maxd nd0 t n HA0 Ed) as (A & B & C). eexists. split; [reflexivity|]. split; [exact A|]. split; [exact HR0|]. split; [lia|]. split; lia. }
  (* continuing with the next state, or finishing when there is none *)
  assert (Cont : forall ts0 m0 nst prev0 rings0 nd0 pos0 d0,
            match nst with
            | None => do (t, n) <- drain ts0 None maxd nd0; Ok (t, m0, rings0, n)
            | Some st => derive T None aidx f ts0 m0 maxd st prev0 rings0 astack nd0 end = Ok (ts', m', rings', nd') ->
            At toks ts0 pos0 -> Rel m0 rings0 d0 -> (natoms m <= natoms m0)%nat -> (pos0 + nd = pos + nd0)%nat -> (pos <= pos0)%nat ->
            match nst with Some st => 0 <= st /\ prev0 <> PGhost /\ (forall p, prev0 = PAtom p -> (p < natoms m0)%nat) | None => True end ->
            exists pos' d', match nst with
                            | None => Ok (skip toks pos0 (left_of maxd nd0), d0)
                            | Some st => dd T toks f pos0 (left_of maxd nd0) st (cur_of prev0) d0 end = Ok (pos', d') /\
              At toks ts' pos' /\ Rel m' rings' d' /\ (pos' + nd = pos + nd')%nat /\ (natoms m <= natoms m')%nat /\ (pos <= pos')%nat).
  { intros ts0 m0 nst prev0 rings0 nd0 pos0 d0 H HA0 HR0 Hn0 Hc0 Hp0 Hnst. destruct nst as [st0|].
    - destruct Hnst as (S1 & S2 & S3).
      destruct (IH _ _ _ _ _ _ _ _ _ _ _ _ H pos0 d0 HA0 HR0 S1 S2 S3) as (pos' & d' & D & A & R & C & N & P).
      exists pos', d'. split; [exact D|]. split; [exact A|]. split; [exact R|]. split; [lia|]. split; lia.
    - destruct (Fin _ _ _ _ _ _ H HA0 HR0 Hn0 Hc0 Hp0) as (pos' & -> & A & R & C & N & P). eexists. eexists. split; [reflexivity|]. split; [exact A|]. split; [exact R|]. split; [exact C|]. split; [exact N|exact P]. }
  cbn [dd].
  destruct (negb (below nd maxd)) eqn:Ebel.
  { (* budget exhausted *)
    destruct (Fin _ _ _ _ pos d E HA HR (le_n _) eq_refl (le_n _)) as (pos' & Ep & A & R & C & N & P).
    unfold below in Ebel. destruct maxd as [mx|]; [|discriminate]. apply negb_true_iff, Nat.ltb_ge in Ebel.
    cbn [left_of] in *. replace (mx - nd)%nat with 0%nat in * by lia.
    exists pos, d. split; [reflexivity|]. unfold skip in Ep. destruct HA as [_ Hle]. replace pos' with pos in * by lia. split; [exact A|]. split; [exact R|]. split; [exact C|]. split; [exact N|lia]. }
  apply negb_false_iff in Ebel.
  assert (Hleft : match left_of maxd nd with Some O => False | _ => True end).
  { unfold below in Ebel. destruct maxd as [mx|]; cbn [left_of]; [|exact I]. apply Nat.ltb_lt in Ebel. destruct (mx - nd)%nat eqn:X; [lia|exact I]. }
  destruct ts as [|[idx sym] rest].
  { (* no token left *)
    cbn [raise_or] in E. destruct (At_nil _ _ HA) as [Hnone Hpos].
    destruct (Fin _ _ _ _ pos d E HA HR (le_n _) eq_refl (le_n _)) as (pos' & Ep & A & R & C & N & P).
    exists pos, d. rewrite Hnone. split; [destruct (left_of maxd nd) as [[|k]|]; [destruct Hleft|reflexivity|reflexivity]|].
    assert (Hs : skip toks pos (left_of maxd nd) = pos) by (unfold skip; destruct (left_of maxd nd); lia). subst pos'. rewrite Hs in *. split; [exact A|]. split; [exact R|]. split; [exact C|]. split; [exact N|lia]. }
  destruct (At_cons _ _ _ _ _ HA) as [Hnth HA1]. rewrite Hnth.
  assert (Hl1 : dec (left_of maxd nd) 1 = left_of maxd (S nd)) by (rewrite left_dec; f_equal; lia).
  assert (Hc1 : (S pos + nd = pos + S nd)%nat) by lia.
  assert (Hdd : forall X : res (nat * dstate), match left_of maxd nd with Some O => Ok (pos, d) | _ => X end = X).
  { intro X. destruct (left_of maxd nd) as [[|k]|]; [destruct Hleft|reflexivity|reflexivity]. }
  rewrite Hdd. rewrite Hl1.
  destruct (is_branch_like sym) eqn:Ebl.
  { (* branch symbol *)
    destruct (process_branch_symbol sym) as [[btype n]|] eqn:Epb; [|discriminate].
    destruct (branch_sym_doc _ _ _ Epb) as [Eas Elen]. rewrite Eas.
    destruct (state <=? 1) eqn:Es1.
    - apply (Cont rest m (Some state) prev rings (S nd) (S pos) d E HA1 HR (le_n _) Hc1 (le_S _ _ (le_n _))). auto.
    - pose proof (branch_pre_holds sym btype n state Epb Es1) as Hpre. rewrite Hpre in E. cbn [negb] in E.
      destruct (next_branch_state btype state) as [binit nstate] eqn:Enb.
      destruct (nbs_spec _ _ _ _ Enb Hpre) as (Hbi & Hns & Hbr & Hns1 & _).
      rewrite read_index_spec in E. cbn [bind rev app] in E.
      rewrite Elen, (read_Q_spec toks rest (S pos) n HA1).
      set (Q := get_index_from_selfies (map (fun j => option_map snd (nth_error rest j)) (seq 0 n))) in *.
      set (got := Nat.min n (length rest)) in *.
      destruct (derive T None aidx f (skipn n rest) m (Some (N.to_nat Q + 1)%nat) binit prev rings _ 0) as [[[[rest3 m2] rings2] nsub]|] eqn:Esub; cbn [bind] in E; [|discriminate].
      assert (HA2 : At toks (skipn n rest) (S pos + got)).
      { unfold got. destruct (Nat.le_ge_cases n (length rest)) as [L|L].
        - rewrite Nat.min_l by lia. now apply At_skip.
        - rewrite Nat.min_r by lia. rewrite skipn_all2 by lia. pose proof (At_len _ _ _ HA1) as Hl. destruct HA1 as [_ Hp1]. split; [cbn [map]; rewrite skipn_all2 by lia; reflexivity|lia]. }
      destruct (IH _ _ _ _ _ _ _ _ _ _ _ _ Esub (S pos + got)%nat d HA2 HR ltac:(lia) Hng Hpl) as (pos3 & d2 & D2 & A3 & R2 & C2 & N2 & P2).
      cbn [left_of] in D2. replace (N.to_nat Q + 1 - 0)%nat with (S (N.to_nat Q)) in D2 by lia.
      rewrite <- Hbi. rewrite D2. cbn [bind].
      assert (Hl2 : dec (left_of maxd (S nd)) (got + (pos3 - (S pos + got))) = left_of maxd (S nd + (0 + got + nsub))).
      { rewrite left_dec. f_equal. lia. }
      rewrite Hl2. replace (state - binit) with nstate by lia.
      apply (Cont rest3 m2 (Some nstate) prev rings2 (S nd + (0 + got + nsub))%nat pos3 d2 E A3 R2 N2); [lia|lia|].
      split; [lia|]. split; [exact Hng|]. intros p Hp. specialize (Hpl p Hp). lia. }
  rewrite (not_branch_like sym Ebl).
  destruct (is_ring_like sym) eqn:Erl.
  { (* ring symbol *)
    destruct (process_ring_symbol sym) as [[[rtype n] [ls rs]]|] eqn:Epr; [|discriminate].
    destruct (ring_sym_doc _ _ _ _ _ Epr) as [Eas Elen]. rewrite Eas.
    destruct (state =? 0) eqn:Es0.
    - apply (Cont rest m (Some state) prev rings (S nd) (S pos) d E HA1 HR (le_n _) Hc1 (le_S _ _ (le_n _))). auto.
    - assert (Hrt : 1 <= rtype).
      { unfold process_ring_symbol in Epr. apply assoc_in in Epr.
        assert (F : forallb (fun kv => 1 <=? fst (fst (snd kv))) ring_cache = true) by (vm_compute; reflexivity).
        rewrite forallb_forall in F. specialize (F _ Epr). cbn [fst snd] in F. now apply Z.leb_le. }
      pose proof (ring_pre_holds rtype state Hst Es0) as Hpre. rewrite Hpre in E. cbn [negb] in E.
      destruct (next_ring_state rtype state) as [rorder nstate] eqn:Enr.
      destruct (nrs_spec _ _ _ _ Enr Hpre Hrt) as (Hro & Hro1 & _ & Hro2 & Hns).
      rewrite read_index_spec in E. cbn [bind rev app] in E.
      rewrite Elen, (read_Q_spec toks rest (S pos) n HA1).
      set (Q := get_index_from_selfies (map (fun j => option_map snd (nth_error rest j)) (seq 0 n))) in *.
      set (got := Nat.min n (length rest)) in *.
      destruct prev as [| |p]; try discriminate. cbn [cur_of].
      destruct (negb _); [discriminate|].
      assert (HA2 : At toks (skipn n rest) (S pos + got)).
      { unfold got. destruct (Nat.le_ge_cases n (length rest)) as [L|L].
        - rewrite Nat.min_l by lia. now apply At_skip.
        - rewrite Nat.min_r by lia. rewrite skipn_all2 by lia. pose proof (At_len _ _ _ HA1) as Hl. destruct HA1 as [_ Hp1]. split; [cbn [map]; rewrite skipn_all2 by lia; reflexivity|lia]. }
      set (rq := {| r_l := (p - (N.to_nat Q + 1))%nat; r_r := p; r_order := rorder; r_ls := ls; r_rs := rs |}) in *.
      pose proof (rel_push_ring m rings d rq HR) as HR2.
      assert (Erq : ringq_of rq = {| q_l := (p - S (N.to_nat Q))%nat; q_r := p; q_order := Z.min rtype state; q_lm := ls; q_rm := rs |}).
      { unfold ringq_of, rq. cbn. f_equal; lia. }
      rewrite Erq in HR2.
      assert (Hl2 : dec (left_of maxd (S nd)) got = left_of maxd (S nd + (0 + got))) by (rewrite left_dec; f_equal; lia).
      rewrite Hl2.
      assert (Hcase : (state - Z.min rtype state =? 0) = match nstate with None => true | Some _ => false end).
      { destruct nstate as [k|]; [apply Z.eqb_neq; lia|apply Z.eqb_eq; lia]. }
      rewrite Hcase.
      pose proof (Cont (skipn n rest) m nstate (PAtom p) (rings ++ [rq]) (S nd + (0 + got))%nat (S pos + got)%nat _ E HA2 HR2 (le_n _) ltac:(lia) ltac:(lia)) as G.
      destruct nstate as [k|].
      + destruct Hns as [-> Hk]. replace (state - Z.min rtype state) with (state - rorder) by (rewrite Hro; reflexivity).
        apply G. split; [lia|]. split; [discriminate|exact Hpl].
      + apply G. exact I. }
  rewrite (not_ring_like sym Erl).
  change (str_eqb sym epsilon_symbol) with (is_eps_like sym).
  destruct (is_eps_like sym) eqn:Eeps.
  { (* epsilon *)
    destruct (state =? 0) eqn:Es0.
    - apply Z.eqb_eq in Es0. subst state.
      apply (Cont rest m (Some 0) prev rings (S nd) (S pos) d E HA1 HR (le_n _) Hc1 (le_S _ _ (le_n _))). auto.
    - apply (Cont rest m None prev rings (S nd) (S pos) d E HA1 HR (le_n _) Hc1 (le_S _ _ (le_n _))). exact I. }
  (* atom symbol *)
  fold (process_atom_symbol T) in E.
  destruct (process_atom_symbol T sym) as [[[[[border stereo] a] cap]|]|] eqn:Epa; cbn [bind] in E; try discriminate.
  destruct (doc_symbol_of_model T sym border stereo a cap Epa) as [Eparse Ealpha]. rewrite Eparse, Ealpha.
  assert (Hbs : 1 <= border <= 3 /\ (forall c, stereo = Some c -> border = 1 /\ is_stereo_char c = true) /\ 0 <= cap).
  { unfold process_atom_symbol, process_atom_symbol_c in Epa.
    destruct (process_atom_nocache sym) as [[[[o' st'] a']|]|] eqn:Ep; cbn [bind] in Epa; try discriminate.
    destruct (bonding_capacity_c _ a') as [c|]; cbn [bind] in Epa; [|discriminate].
    destruct (c <? 0) eqn:Ec; [discriminate|]. injection Epa as <- <- <- <-. apply Z.ltb_ge in Ec.
    destruct (nocache_stereo _ _ _ _ Ep) as [A B]. auto. }
  destruct Hbs as (Hb & Hstq & Hcap).
  destruct (next_atom_state border cap state) as [mu nstate] eqn:Ena.
  destruct (nas_spec _ _ _ _ _ Ena ltac:(lia) Hcap Hst) as (Hmu & Hmu0 & Hmub & Hmuc & Hmus & Hs0 & Hns).
  rewrite <- Hmu.
  destruct (mu =? 0) eqn:Em0.
  - apply Z.eqb_eq in Em0. subst mu.
    destruct (state =? 0) eqn:Es0.
    + (* a new root *)
      pose proof (rel_add_root m rings d a cap (push_attr astack ((idx + aidx)%nat, sym)) HR) as HR2.
      destruct (add_atom m a cap _ true) as [m2 i] eqn:Eadd.
      assert (Hi : i = natoms m) by (unfold add_atom in Eadd; now inversion Eadd).
      assert (Hm2 : m2 = fst (add_atom m a cap (push_attr astack ((idx + aidx)%nat, sym)) true)) by now rewrite Eadd.
      cbn [fst] in HR2.
      assert (Hn2 : natoms m2 = S (natoms m)) by (rewrite Hm2; apply natoms_add_atom).
      assert (Hk : length (dg_atoms d) = natoms m) by (rewrite (rl_atoms _ _ _ HR), map_length; reflexivity).
      rewrite Hk.
      assert (Hcase : (cap =? 0) = match nstate with None => true | Some _ => false end).
      { destruct nstate as [k|]; [apply Z.eqb_neq; lia|apply Z.eqb_eq; lia]. }
      rewrite Hcase.
      pose proof (Cont rest m2 nstate (PAtom i) rings (S nd) (S pos) _ E HA1 HR2 ltac:(lia) Hc1 (le_S _ _ (le_n _))) as G.
      destruct nstate as [k|].
      * destruct Hns as [Hk0 Hk1]. rewrite Z.sub_0_r in Hk0. subst k. subst i. apply G. split; [lia|]. split; [discriminate|]. intros p Hp. injection Hp as <-. lia.
      * apply G. exact I.
    + (* no bond can be made: the instance ends *)
      assert (nstate = None).
      { destruct nstate as [k|]; [|reflexivity]. exfalso. apply Z.eqb_neq in Es0. destruct Hns as [-> Hk]. lia. }
      subst nstate.
      apply (Cont rest m None PGhost rings (S nd) (S pos) d E HA1 HR (le_n _) Hc1 (le_S _ _ (le_n _))). exact I.
  - (* a bonded atom *)
    apply Z.eqb_neq in Em0.
    destruct (add_atom m a cap (push_attr astack ((idx + aidx)%nat, sym)) false) as [m2 i] eqn:Eadd.
    assert (Hi : i = natoms m) by (unfold add_atom in Eadd; now inversion Eadd).
    assert (Hm2 : m2 = fst (add_atom m a cap (push_attr astack ((idx + aidx)%nat, sym)) false)) by now rewrite Eadd.
    destruct prev as [| |p]; try discriminate. cbn [cur_of]. specialize (Hpl p eq_refl).
    destruct (add_bond m2 p i mu stereo _) as [m3|] eqn:Eb; cbn [bind] in E; [|discriminate].
    rewrite Hm2, Hi in Eb.
    pose proof (rel_add_child m rings d a cap _ p mu stereo _ m3 stereo HR Hpl Eb
                  (mark_of_bond mu stereo ltac:(lia) ltac:(intros c Hc; destruct (Hstq c Hc) as [X Y]; split; [lia|exact Y]))) as HR3.
    assert (Hn3 : natoms m3 = S (natoms m)).
    { unfold add_bond in Eb. destruct (negb _); [discriminate|]. destruct (negb _); [discriminate|]. injection Eb as <-. exact (natoms_add_atom m a cap _ false). }
    assert (Hk : length (dg_atoms d) = natoms m) by (rewrite (rl_atoms _ _ _ HR), map_length; reflexivity).
    rewrite Hk.
    assert (Hcase : (cap - mu =? 0) = match nstate with None => true | Some _ => false end).
    { destruct nstate as [k|]; [apply Z.eqb_neq; lia|apply Z.eqb_eq; lia]. }
    rewrite Hcase.
    pose proof (Cont rest m3 nstate (PAtom i) rings (S nd) (S pos) _ E HA1 HR3 ltac:(lia) Hc1 (le_S _ _ (le_n _))) as G.
    destruct nstate as [k|].
    + destruct Hns as [-> Hk1]. subst i. apply G. split; [lia|]. split; [discriminate|]. intros q Hq. injection Hq as <-. lia.
    + apply G. exact I.
Qed.
End Sim2.

(* ---------- all fragments ---------- *)
Lemma At_start (toks : list str) : At toks (enumerate_from 0 toks) 0.
Proof.
  split; [|lia]. cbn [skipn]. generalize 0%nat. induction toks as [|t r IH]; intro k; [reflexivity|]. cbn [enumerate_from map snd]. now rewrite IH.
Qed.

Lemma enumerate_length {A} (l : list A) : forall k, length (enumerate_from k l) = length l.
Proof. induction l as [|x l IH]; intro k; [reflexivity|]. cbn. now rewrite IH. Qed.

Theorem frags_sim T attribute : forall (frs : list (list str)) m rings aidx m' rings' d,
  derive_frags T attribute (map (fun fr => (fr, @None exn)) frs) m rings aidx = Ok (m', rings') ->
  Rel m rings d -> exists d', derive_all T frs d = Ok d' /\ Rel m' rings' d'.
Proof.
  induction frs as [|fr rest IH]; intros m rings aidx m' rings' d E HR.
  - cbn in E. injection E as <- <-. exists d. split; [reflexivity|exact HR].
  - unfold derive_frags in E. cbn [map derive_frags_c] in E. fold (derive_frags T) in E. fold (derive T) in E.
    destruct (derive T None aidx (S (length fr)) (enumerate_from 0 fr) m None 0 PNone rings _ 0) as [[[[ts' m2] rings2] n]|] eqn:Ed; cbn [bind] in E; [|discriminate].
    destruct (derive_sim T fr aidx _ _ _ _ _ _ _ _ _ _ _ _ _ Ed 0%nat d (At_start fr) HR ltac:(lia) ltac:(discriminate) ltac:(intros p Hp; discriminate))
      as (pos' & d2 & D & _ & R2 & _).
    cbn [left_of cur_of] in D. cbn [derive_all]. rewrite D. cbn [bind]. exact (IH _ _ _ _ _ _ E R2).
Qed.
