(* EncRing.v — C03, ring-closure bonds at symbol level: every ring symbol of the output is printed for one closing ring bond
   of the kekulised graph, its index symbols encode the distance between the two atoms, and its bond prefix has the order
   of that bond - which is the order the reader stored for it, unless that was aromatic (then 1 or 2). *)
From Coq Require Import Ascii String List Arith ZArith NArith Bool Lia.
Import ListNotations.
From Selfies Require Import Base Generated Lex Atoms Grammar Decoder Smiles PySet Matching Kekulize Encoder BaseFacts ConfigFacts DecoderInv
  ParserTotal EncHyp EncShape EncTokens EncRows EncAttr EncStereo EncFuel EncIndex EncKey EncAttrErr EncArom EncUniq EncOrders EncKek EncMatch EncKeep EncOrd.
Local Open Scope nat_scope.

(* the shape of what a walk emits, with what is known of each ring symbol *)
Inductive TW (PR : list str -> Prop) : list str -> Prop :=
| TW_atom tok ts : TR PR ts -> TW PR (tok :: ts)
with TR (PR : list str -> Prop) : list str -> Prop :=
| TR_nil : TR PR []
| TR_ring toks ts : PR toks -> TR PR ts -> TR PR (toks ++ ts)
| TR_branch bsym Q branch ts : TW PR branch -> TR PR ts -> TR PR (bsym :: Q ++ branch ++ ts)
| TR_last ts : TW PR ts -> TR PR ts.

Definition ring_tok (m : emol) (toks : list str) : Prop :=
  exists b rv rs Q, in_graph m b /\ e_ring b = true /\ e_dst b < e_src b /\ mg_get_dirbond m (e_dst b) (e_src b) = Ok rv /\
    ring_bonds_to_selfies rv b = Ok rs /\ get_selfies_from_index (Z.of_nat (e_src b - e_dst b) - 1) = Ok Q /\
    toks = (lit "[" ++ rs ++ lit "Ring" ++ str_of_nat (length Q) ++ lit "]")%list :: Q.

Section WalkT.
Variable m : emol.
Variable PR : list str -> Prop.
Hypothesis HPR : forall toks, ring_tok m toks -> PR toks.

Lemma out_loop_tw (walk : ebond -> nat -> nat -> res (list str * list amap)) :
  forall bonds, (forall b ai o ts ms, In b bonds -> walk b ai o = Ok (ts, ms) -> TW PR ts) -> Forall (in_graph m) bonds ->
  forall aidx off ts ms, out_loop m walk bonds aidx off = Ok (ts, ms) -> TR PR ts.
Proof.
  induction bonds as [|b rest IH]; intros Hw Hg aidx off ts ms E; cbn [out_loop] in E; [inversion E; subst; constructor|].
  inversion Hg as [|? ? Hg1 Hg2]; subst.
  assert (Hw' : forall b0 ai o ts0 ms0, In b0 rest -> walk b0 ai o = Ok (ts0, ms0) -> TW PR ts0) by (intros; eapply Hw; [right|]; eassumption).
  destruct (e_ring b) eqn:Ering.
  - destruct (Nat.ltb_spec (e_src b) (e_dst b)) as [Lt|Ge]; [exact (IH Hw' Hg2 _ _ _ _ E)|].
    destruct (mg_get_dirbond m (e_dst b) (e_src b)) as [rv|] eqn:Erv; cbn [bind] in E; [|discriminate].
    destruct (get_selfies_from_index _) as [Q|] eqn:EQ; cbn [bind] in E; [|discriminate].
    destruct (ring_bonds_to_selfies rv b) as [rs|] eqn:Er; cbn [bind] in E; [|discriminate].
    match type of E with (do _ <- ?X; _) = _ => destruct X as [[ts1 ms1]|] eqn:E1 end; cbn [bind] in E; [|discriminate].
    cbv zeta in E. inversion E; subst; clear E.
    assert (Hne : e_dst b <> e_src b).
    { intro Heq. rewrite Heq, Nat.sub_diag in EQ. unfold get_selfies_from_index in EQ. change (Z.of_nat 0 - 1 <? 0)%Z with true in EQ. discriminate. }
    refine (TR_ring _ ((lit "[" ++ rs ++ lit "Ring" ++ str_of_nat (length Q) ++ lit "]")%list :: Q) ts1 _ (IH Hw' Hg2 _ _ _ _ E1)).
 apply HPR. exists b, rv, rs, Q. repeat split; auto. lia.
  - destruct rest as [|b2 rest2]; [apply TR_last; exact (Hw _ _ _ _ _ (or_introl eq_refl) E)|].
    destruct (walk b off 0) as [[branch bmaps]|] eqn:Eb; cbn [bind] in E; [|discriminate].
    destruct (get_selfies_from_index _) as [Q|]; cbn [bind] in E; [|discriminate].
    destruct (bond_to_selfies b false) as [bs|]; cbn [bind] in E; [|discriminate].
    match type of E with (do _ <- ?X; _) = _ => destruct X as [[ts1 ms1]|] eqn:E1 end; cbn [bind] in E; [|discriminate].
    cbv zeta in E. inversion E; subst; clear E.
    apply TR_branch; [exact (Hw _ _ _ _ _ (or_introl eq_refl) Eb)|exact (IH Hw' Hg2 _ _ _ _ E1)].
Qed.

Lemma walk_tw : forall fuel b curr aidx off ts ms, fragment_walk fuel m b curr aidx off = Ok (ts, ms) -> TW PR ts.
Proof.
  induction fuel as [|f IH]; intros b curr aidx off ts ms E; [discriminate|]. cbn [fragment_walk] in E.
  destruct (mg_get_atom m curr) as [[a at_]|]; cbn [bind fst snd] in E; [|discriminate].
  destruct (atom_to_selfies b a) as [tok|]; cbn [bind fst] in E; [|discriminate].
  destruct (mg_get_out_dirbonds m curr) as [raw|] eqn:Eraw; cbn [bind] in E; [|discriminate].
  destruct (Encoder.all_some raw) as [bonds|] eqn:Eall; cbn [bind] in E; [|discriminate].
  match type of E with (do _ <- ?X; _) = _ => destruct X as [[ts1 ms1]|] eqn:E1 end; cbn [bind] in E; [|discriminate].
  inversion E; subst; clear E. apply TW_atom.
  eapply out_loop_tw; [| |exact E1]; [intros b0 ai o ts0 ms0 _ H; exact (IH _ _ _ _ _ _ H)|].
  apply Forall_forall. intros b0 Hb0. unfold ring_bonds_first in Hb0. apply in_app_iff in Hb0.
  unfold mg_get_out_dirbonds in Eraw. apply lget_In in Eraw. exists curr, raw. split; [exact Eraw|]. apply (all_some_In' _ _ _ Eall). destruct Hb0 as [H|H]; apply filter_In in H; tauto.
Qed.

Lemma encode_roots_tw : forall roots aidx frags maps, encode_roots m roots aidx = Ok (frags, maps) ->
  exists tss, frags = map (@concat N) tss /\ Forall (TW PR) tss.
Proof.
  induction roots as [|r rest IH]; intros aidx frags maps E; cbn [encode_roots] in E.
  - inversion E; subst. exists []. split; [reflexivity|constructor].
  - destruct (fragment_to_selfies m r aidx) as [[derived mp]|] eqn:Ef; cbn [bind] in E; [|discriminate].
    destruct (encode_roots m rest _) as [[frags' maps']|] eqn:Er; cbn [bind] in E; [|discriminate]. inversion E; subst; clear E.
    destruct (IH _ _ _ Er) as (tss & -> & F). exists (derived :: tss). split; [reflexivity|]. constructor; [|exact F].
    unfold fragment_to_selfies in Ef. exact (walk_tw _ _ _ _ _ _ _ Ef).
Qed.
End WalkT.

(* ---------- what a ring symbol says ---------- *)
Lemma ring_sel_order rv b rs : sok (e_stereo rv) -> sok (e_stereo b) -> ring_bonds_to_selfies rv b = Ok rs ->
  e_order2 rv = e_order2 b /\ fst (smiles_to_bond2 (hd_error rs)) = e_order2 b.
Proof.
  intros Sr Sb. unfold ring_bonds_to_selfies. destruct (Z.eqb_spec (e_order2 rv) (e_order2 b)) as [Eo|Ne]; cbn [negb]; [|discriminate].
  intro H. split; [exact Eo|]. rewrite <- Eo. revert H. destruct (negb (e_order2 rv =? 2)%Z || _) eqn:Ec.
  - unfold bond_to_selfies. cbn [negb andb]. destruct (Z.eqb_spec (e_order2 rv) 2) as [E2|N2]; [intro H; inversion H; subst; rewrite E2; reflexivity|].
    unfold ebond_to_smiles. destruct (Z.eqb_spec (e_order2 rv) 2); [contradiction|].
    destruct (Z.eqb_spec (e_order2 rv) 4) as [E4|]; [intro H; inversion H; subst; rewrite E4; reflexivity|].
    destruct (Z.eqb_spec (e_order2 rv) 6) as [E6|]; [intro H; inversion H; subst; rewrite E6; reflexivity|discriminate].
  - apply orb_false_iff in Ec as [Ec _]. apply negb_false_iff, Z.eqb_eq in Ec. intro H; inversion H; subst. rewrite Ec. cbn [hd_error].
    unfold sok in Sr. destruct (e_stereo rv) as [c|]; [|reflexivity]. destruct (stereo_cases c Sr) as [-> | ->]; reflexivity.
Qed.

Definition ring_back (m0 m : emol) (toks : list str) : Prop :=
  exists b rs Q row0 e0, in_graph m b /\ e_ring b = true /\ e_dst b < e_src b /\
    get_selfies_from_index (Z.of_nat (e_src b - e_dst b) - 1) = Ok Q /\
    toks = (lit "[" ++ rs ++ lit "Ring" ++ str_of_nat (length Q) ++ lit "]")%list :: Q /\
    fst (smiles_to_bond2 (hd_error rs)) = e_order2 b /\
    nth_error (m_adj m0) (e_src b) = Some row0 /\ In (Some e0) row0 /\ e_dst e0 = e_dst b /\ e_ring e0 = true /\ R (e_order2 e0) (e_order2 b).

Theorem encoder_ring_orders T smiles strict attribute x maps :
  encoder T smiles strict attribute = Ok (x, maps) ->
  exists m0 m tss, smiles_to_mol smiles attribute = Ok m0 /\ x = join (lit ".") (map (@concat N) tss) /\ Forall (TW (ring_back m0 m)) tss.
Proof.
  intros E. unfold encoder, encoder_c in E.
  destruct (smiles_to_mol smiles attribute) as [m0|e] eqn:Ep; [|destruct e; discriminate].
  pose proof (parsed_adj _ _ _ Ep) as A0. unfold encode_mol in E.
  destruct (kekulize m0) as [[m1|]|] eqn:Ek; cbn [bind] in E; try discriminate.
  pose proof (kekulize_adj _ _ A0 Ek) as A1.
  destruct (parsed_kekulize_keeps _ _ _ _ Ep Ek) as [Hsk Hrel].
  destruct (parsed_gue _ _ _ Ep) as (_ & _ & _ & _ & Hrow0 & _ & Hu & _).
  pose proof (rel_strong m0 m1 Hu Hsk Hrel) as RS1.
  match type of E with (do _ <- ?X; _) = _ => destruct X; cbn [bind] in E; [|discriminate] end.
  destruct (invert_pass m1 (m_atoms m1) 0) as [atoms'|] eqn:Ei; cbn [bind] in E; [|discriminate].
  set (m2 := set_atoms m1 atoms') in *. assert (A2 : AdjP m2) by exact A1.
  destruct (encode_roots m2 _ 0) as [[frags maps0]|] eqn:Er; cbn [bind] in E; [|discriminate].
  inversion E; subst x maps; clear E.
  assert (HPR : forall toks, ring_tok m2 toks -> ring_back m0 m2 toks); [|destruct (encode_roots_tw m2 (ring_back m0 m2) HPR _ _ _ _ Er) as (tss & -> & W); exists m0, m2, tss; auto].
  intros toks (b & rv & rs & Q & (j & row & Hn & Hin) & Hr & Hlt & Erv & Ers & EQ & ->).
  assert (Sb : sok (e_stereo b)).
  { unfold AdjP in A2. rewrite Forall_forall in A2. pose proof (A2 row (nth_error_In _ _ Hn)) as Hrw. rewrite Forall_forall in Hrw. exact (Hrw (Some b) Hin). }
  destruct (ring_sel_order rv b rs (dirbond_sok _ _ _ _ A2 Erv) Sb Ers) as [_ Ho].
  destruct (RS1 j row b Hn Hin) as (row0 & e0 & Hn0 & Hi0 & Hst & HR).
  assert (Hj : e_src e0 = j) by exact (proj1 (Hrow0 _ _ _ Hn0 Hi0)).
  assert (Hsrc : e_src b = j) by (pose proof (f_equal e_src Hst) as X; unfold strip in X; cbn [with_order2 e_src] in X; congruence).
  exists b, rs, Q, row0, e0. split; [exists j, row; auto|]. split; [exact Hr|]. split; [exact Hlt|]. split; [exact EQ|]. split; [reflexivity|]. split; [exact Ho|].
  split; [rewrite Hsrc; exact Hn0|]. split; [exact Hi0|].
  split; [pose proof (f_equal e_dst Hst) as X; unfold strip in X; cbn [with_order2 e_dst] in X; exact X|].
  split; [pose proof (f_equal e_ring Hst) as X; unfold strip in X; cbn [with_order2 e_ring] in X; congruence|exact HR].
Qed.
