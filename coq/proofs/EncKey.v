(* EncKey.v — C09, last stage: after the reader and kekulize have returned, nothing in encoder() raises KeyError, for a
   table with a '?' entry: every ring bond is stored in both directions (add_ring_bond writes both, nothing removes an
   edge), so the reverse lookup of a ring closure always finds a bond. *)
From Coq Require Import Ascii String List Arith ZArith NArith Bool Lia.
Import ListNotations.
From Selfies Require Import Base Generated Lex Atoms Grammar Decoder Smiles PySet Matching Kekulize Encoder BaseFacts ConfigFacts DecoderInv
  ParserTotal EncHyp EncShape EncTokens EncRows EncAttr EncStereo EncFuel EncIndex.
Local Open Scope nat_scope.

(* row j holds an edge to d with ring flag r *)
Definition edge_in (m : emol) (j d : nat) (r : bool) : Prop :=
  exists row e, nth_error (m_adj m) j = Some row /\ In (Some e) row /\ e_dst e = d /\ e_ring e = r.

(* every ring edge has an edge back *)
Definition RS (m : emol) : Prop := forall j d, edge_in m j d true -> edge_in m d j true.

(* m' has the edges of m and the edges listed in [new] (source row, destination, ring flag) *)
Definition grows (m m' : emol) (new : list (nat * nat * bool)) : Prop :=
  forall j d r, edge_in m' j d r <-> edge_in m j d r \/ In (j, d, r) new.

Lemma grows_refl m m' : m_adj m' = m_adj m -> grows m m' [].
Proof. intros H j d r. unfold edge_in. rewrite H. split; [now left|intros [X|[]]; exact X]. Qed.
Lemma grows_trans m1 m2 m3 n1 n2 : grows m1 m2 n1 -> grows m2 m3 n2 -> grows m1 m3 (n1 ++ n2).
Proof. intros H1 H2 j d r. rewrite (H2 j d r), (H1 j d r), in_app_iff. tauto. Qed.

Lemma rs_grows m m' new : RS m -> grows m m' new ->
  (forall j d, In (j, d, true) new -> In (d, j, true) new \/ edge_in m d j true) -> RS m'.
Proof.
  intros Hm Hg Hn j d Hin. apply Hg in Hin as [Hin|Hin].
  - apply Hg. left. exact (Hm j d Hin).
  - destruct (Hn j d Hin) as [Hr|Hr]; apply Hg; [now right|now left].
Qed.

(* the row update of add_bond_at_loc adds exactly the new bond to the row *)
Lemma add_loc_iff out pos b out' e : add_bond_at_loc out pos b = Ok out' -> (In (Some e) out' <-> e = b \/ In (Some e) out).
Proof.
  intro E. split; [exact (add_loc_In _ _ _ _ _ E)|]. revert E. unfold add_bond_at_loc.
  assert (Happ : e = b \/ In (Some e) out -> In (Some e) (out ++ [Some b])) by (intros [->|H]; apply in_app_iff; [right; now left|now left]).
  destruct pos as [p|]; [|intro E; inversion E; subst; exact Happ].
  destruct (p =? length out); [intro E; inversion E; subst; exact Happ|].
  destruct (nth_error out p) as [[x|]|] eqn:En; [| |discriminate]; intro E; inversion E; subst; intros [->|H].
  - apply In_insert_at. now left.
  - apply In_insert_at. now right.
  - clear -En. revert p En. induction out as [|y r IH]; intros [|p] En; cbn in En; try discriminate; cbn [upd]; [now left|right; exact (IH _ En)].
  - clear -En H. revert p En. induction out as [|y r IH]; intros [|p] En; cbn in En; try discriminate; cbn [upd].
    + inversion En; subst. destruct H as [H|H]; [discriminate|now right].
    + destruct H as [H|H]; [now left|right; exact (IH H _ En)].
Qed.

Lemma at_loc_grows m b pos m' : mg_add_bond_at_loc m b pos = Ok m' -> grows m m' [(e_src b, e_dst b, e_ring b)].
Proof.
  unfold mg_add_bond_at_loc. destruct (lget (m_adj m) (e_src b)) as [out|] eqn:El; cbn [bind]; [|discriminate].
  destruct (add_bond_at_loc out pos b) as [out'|] eqn:Ea; cbn [bind]; [|discriminate]. intro E; inversion E; subst. apply lget_In in El.
  intros j d r. unfold edge_in. cbn [set_adj m_adj]. split.
  - intros (row & e & Hn & Hin & Hd & Hr). rewrite nth_error_upd in Hn. destruct (Nat.eqb_spec (e_src b) j) as [<-|Hne].
    + rewrite El in Hn. cbn in Hn. inversion Hn; subst row. apply (add_loc_iff _ _ _ _ e Ea) in Hin as [->|Hin]; [right; left; congruence|left; exists out, e; auto].
    + left. exists row, e. auto.
  - intros [(row & e & Hn & Hin & Hd & Hr)|[H|[]]].
    + destruct (Nat.eq_dec (e_src b) j) as [<-|Hne].
      * rewrite El in Hn. inversion Hn; subst row. exists out', e. rewrite nth_error_upd, Nat.eqb_refl, El. cbn. split; [reflexivity|]. split; [apply (add_loc_iff _ _ _ _ e Ea); now right|auto].
      * exists row, e. rewrite nth_error_upd. destruct (Nat.eqb_spec (e_src b) j); [contradiction|auto].
    + inversion H; subst. exists out', b. rewrite nth_error_upd, Nat.eqb_refl, El. cbn. split; [reflexivity|]. split; [apply (add_loc_iff _ _ _ _ b Ea); now left|auto].
Qed.

Lemma add_bond_grows m src dst o2 st at_ m' : mg_add_bond m src dst o2 st at_ = Ok m' -> grows m m' [(src, dst, false)].
Proof.
  unfold mg_add_bond. destruct (negb _); [discriminate|].
  destruct (mg_add_bond_at_loc _ _ _) as [m1|] eqn:E1; cbn [bind]; [|discriminate].
  destruct (mg_add_count2 m1 _ _) as [m2|] eqn:E2; cbn [bind]; [|discriminate].
  destruct (mg_add_count2 m2 _ _) as [m3|] eqn:E3; cbn [bind]; [|discriminate].
  apply at_loc_grows in E1. cbn [e_src e_dst e_ring] in E1. apply add_count_adj in E2, E3.
  assert (G : grows m m3 [(src, dst, false)]).
  { intros j d r. rewrite <- (E1 j d r). unfold edge_in. now rewrite E3, E2. }
  destruct (_ =? _)%Z; intro E; inversion E; subst; exact G.
Qed.

Lemma placeholder_grows m src m' k : mg_add_placeholder_bond m src = Ok (m', k) -> grows m m' [].
Proof.
  unfold mg_add_placeholder_bond. destruct (lget (m_adj m) src) as [out|] eqn:El; cbn [bind]; [|discriminate]. intro E; inversion E; subst. apply lget_In in El.
  intros j d r. unfold edge_in. cbn [set_adj m_adj]. split.
  - intros (row & e & Hn & Hin & Hd & Hr). left. rewrite nth_error_upd in Hn. destruct (Nat.eqb_spec src j) as [<-|Hne]; [|exists row, e; auto].
    rewrite El in Hn. cbn in Hn. inversion Hn; subst row. apply in_app_iff in Hin as [Hin|[Hin|[]]]; [exists out, e; auto|discriminate].
  - intros [(row & e & Hn & Hin & Hd & Hr)|[]]. destruct (Nat.eq_dec src j) as [<-|Hne].
    + rewrite El in Hn. inversion Hn; subst row. exists (out ++ [None]), e. rewrite nth_error_upd, Nat.eqb_refl, El. cbn. split; [reflexivity|]. split; [apply in_app_iff; now left|auto].
    + exists row, e. rewrite nth_error_upd. destruct (Nat.eqb_spec src j); [contradiction|auto].
Qed.

Lemma add_ring_grows m a b o2 sa sb pa pb m' : mg_add_ring_bond m a b o2 sa sb pa pb = Ok m' -> grows m m' [(a, b, true); (b, a, true)].
Proof.
  unfold mg_add_ring_bond.
  destruct (mg_add_bond_at_loc m _ _) as [m1|] eqn:E1; cbn [bind]; [|discriminate].
  destruct (mg_add_bond_at_loc m1 _ _) as [m2|] eqn:E2; cbn [bind]; [|discriminate].
  destruct (mg_add_count2 m2 _ _) as [m3|] eqn:E3; cbn [bind]; [|discriminate].
  destruct (mg_add_count2 m3 _ _) as [m4|] eqn:E4; cbn [bind]; [|discriminate].
  destruct (lupd (m_ringflags m4) _ _) as [f1|]; cbn [bind]; [|discriminate].
  destruct (lupd f1 _ _) as [f2|]; cbn [bind]; [|discriminate].
  apply at_loc_grows in E1, E2. cbn [e_src e_dst e_ring] in E1, E2. apply add_count_adj in E3, E4.
  pose proof (grows_trans _ _ _ _ _ E1 E2) as G2. cbn [app] in G2.
  assert (G : grows m m4 [(a, b, true); (b, a, true)]).
  { intros j d r. rewrite <- (G2 j d r). unfold edge_in. now rewrite E4, E3. }
  destruct (_ =? _)%Z; intro E; inversion E; subst; exact G.
Qed.

Lemma rs_ring m a b m' : RS m -> grows m m' [(a, b, true); (b, a, true)] -> RS m'.
Proof.
  intros Hm Hg. apply (rs_grows m m' _ Hm Hg). intros j d [H|[H|[]]]; inversion H; subst; left; cbn; tauto.
Qed.
Lemma rs_plain m m' new : RS m -> grows m m' new -> (forall j d, ~ In (j, d, true) new) -> RS m'.
Proof. intros Hm Hg Hn. apply (rs_grows m m' new Hm Hg). intros j d H. destruct (Hn j d H). Qed.

Lemma make_ring_rs m lt la lp rt ra m' : RS m -> make_ring_bonds m lt la lp rt ra = Ok m' -> RS m'.
Proof.
  intro Hm. unfold make_ring_bonds. destruct (_ =? _); [discriminate|]. destruct (mg_has_bond _ _ _); [discriminate|].
  match goal with |- (let '(b0, b1) := ?X in _) = _ -> _ => destruct X as [b0 b1] end.
  destruct (negb _); [discriminate|].
  destruct (smiles_to_bond2 (t_bond lt)) as [lo ls]. destruct (smiles_to_bond2 (t_bond rt)) as [ro rs].
  destruct (mg_get_atom m la); cbn [bind]; [|discriminate]. destruct (mg_get_atom m ra); cbn [bind]; [|discriminate].
  match goal with |- (let '(x, y) := ?X in _) = _ -> _ => destruct X as [lo' ro'] end.
  intro E. exact (rs_ring _ _ _ _ Hm (add_ring_grows _ _ _ _ _ _ _ _ _ E)).
Qed.

Lemma attach_rs m tok a prev i m' idx i' : RS m -> attach_atom m tok a prev i = Ok (m', idx, i') -> RS m'.
Proof.
  intro Hm. unfold attach_atom. destruct (mg_add_atom m a _) as [m1 ix] eqn:Ea.
  assert (G1 : grows m m1 []).
  { unfold mg_add_atom in Ea. inversion Ea; subst. intros j d r. unfold edge_in. cbn [m_adj]. split.
    - intros (row & e & Hn & Hin & H). left. destruct (Nat.lt_ge_cases j (length (m_adj m))) as [Lt|G].
      + rewrite nth_error_app1 in Hn by exact Lt. exists row, e. auto.
      + rewrite nth_error_app2 in Hn by exact G. destruct (j - length (m_adj m)) as [|k]; cbn in Hn; [inversion Hn; subst; destruct Hin|destruct k; discriminate].
    - intros [(row & e & Hn & H)|[]]. exists row, e. split; [|exact H]. rewrite nth_error_app1; [exact Hn|]. apply nth_error_Some. congruence. }
  destruct (mg_add_attr_atom m1 ix _) as [m2|] eqn:E2; cbn [bind]; [|discriminate].
  apply add_attr_adj in E2. pose proof (grows_trans _ _ _ _ _ G1 (grows_refl _ _ E2)) as G2. cbn [app] in G2.
  assert (R2 : RS m2) by (apply (rs_plain m m2 [] Hm G2); intros j d []).
  destruct prev as [src|]; [|intro E; inversion E; subst; exact R2].
  destruct (smiles_to_bond2 (t_bond tok)) as [o2 st]. destruct (mg_get_atom m2 src); cbn [bind]; [|discriminate].
  destruct (mg_add_bond m2 _ _ _ _ _) as [m3|] eqn:E3; cbn [bind]; [|discriminate].
  intro E; inversion E; subst. apply (rs_plain m2 _ _ R2 (add_bond_grows _ _ _ _ _ _ _ E3)). intros j d [H|[]]. discriminate.
Qed.

Lemma derive_loop_rs : forall ts st st' rest, RS (p_mol st) -> derive_loop ts st = Ok (st', rest) -> RS (p_mol st').
Proof.
  induction ts as [|tok r IH]; intros st st' rest Hm E; cbn [derive_loop] in E; [inversion E; subst; exact Hm|].
  destruct (p_prev st) as [|prev below]; [discriminate|].
  destruct (t_type tok).
  - destruct (smiles_to_atom (t_text tok)) as [[a|]|]; cbn [bind] in E; try discriminate.
    destruct (attach_atom _ _ _ _ _) as [[[m' idx] i']|] eqn:Eat; cbn [bind] in E; [|discriminate].
    apply IH in E; [exact E|]. cbn [p_mol]. exact (attach_rs _ _ _ _ _ _ _ _ Hm Eat).
  - destruct (p_chain_start st); [discriminate|].
    destruct (str_eqb _ _); [apply IH in E; [exact E|exact Hm]|].
    destruct (p_branch st); [discriminate|]. apply IH in E; [exact E|exact Hm].
  - destruct (p_chain_start st); [discriminate|].
    destruct (ring_log_find _ _) as [[[ltok latom] lpos]|].
    + destruct (atom_index prev) as [ratom|]; cbn [bind] in E; [|discriminate].
      destruct (make_ring_bonds _ _ _ _ _ _) as [m'|] eqn:Er; cbn [bind] in E; [|discriminate].
      apply IH in E; [exact E|]. cbn [p_mol]. exact (make_ring_rs _ _ _ _ _ _ _ Hm Er).
    + destruct (atom_index prev) as [src|]; cbn [bind] in E; [|discriminate].
      destruct (mg_add_placeholder_bond _ _) as [[m' lpos]|] eqn:Epl; cbn [bind] in E; [|discriminate].
      apply IH in E; [exact E|]. cbn [p_mol]. apply (rs_plain _ _ [] Hm (placeholder_grows _ _ _ _ Epl)). intros j d [].
  - inversion E; subst. exact Hm.
Qed.

Lemma fragments_rs : forall fuel m ts i m', RS m -> fragments_loop fuel m ts i = Ok m' -> RS m'.
Proof.
  induction fuel as [|f IH]; intros m ts i m' Hm E; [discriminate|]. cbn [fragments_loop] in E.
  destruct ts as [|t r]; [inversion E; subst; exact Hm|].
  destruct (derive_mol_from_tokens m (t :: r) i) as [[[m1 i1] rest]|] eqn:Ed; cbn [bind] in E; [|discriminate].
  apply IH in E; [exact E|]. unfold derive_mol_from_tokens in Ed.
  destruct (derive_loop (t :: r) _) as [[st rest']|] eqn:El; cbn [bind] in Ed; [|discriminate].
  apply derive_loop_rs in El; [|exact Hm].
  destruct (_ =? _); [discriminate|]. destruct (p_branch st); [|discriminate]. destruct (p_rings st); [|discriminate].
  inversion Ed; subst. exact El.
Qed.

Theorem parsed_rs smiles attributable m : smiles_to_mol smiles attributable = Ok m -> RS m.
Proof.
  unfold smiles_to_mol. destruct smiles as [|c s]; [discriminate|].
  destruct (tokenize_smiles (c :: s)) as [ts|]; cbn [bind]; [|discriminate].
  apply fragments_rs. intros j d (row & e & Hn & _). destruct j; discriminate.
Qed.

(* ---------- kekulize removes no edge ---------- *)
Definition has (row : list (option ebond)) (d : nat) (r : bool) : Prop := exists e, In (Some e) row /\ e_dst e = d /\ e_ring e = r.

Lemma grows_upd m i f : (forall row d r, has (f row) d r <-> has row d r) -> grows m (set_adj m (upd (m_adj m) i f)) [].
Proof.
  intros Hf j d r. unfold edge_in. cbn [set_adj m_adj]. split.
  - intros (row & e & Hn & Hin & Hd & Hr). left. rewrite nth_error_upd in Hn. destruct (Nat.eqb_spec i j) as [<-|Hne]; [|exists row, e; auto].
    destruct (nth_error (m_adj m) i) as [r0|] eqn:E0; [|discriminate]. cbn in Hn. inversion Hn; subst row.
    destruct (proj1 (Hf r0 d r) (ex_intro _ e (conj Hin (conj Hd Hr)))) as (e0 & H0 & H1 & H2). exists r0, e0. auto.
  - intros [(row & e & Hn & Hin & Hd & Hr)|[]]. destruct (Nat.eq_dec i j) as [<-|Hne].
    + destruct (proj2 (Hf row d r) (ex_intro _ e (conj Hin (conj Hd Hr)))) as (e1 & H0 & H1 & H2).
      exists (f row), e1. rewrite nth_error_upd, Nat.eqb_refl, Hn. cbn. auto.
    + exists row, e. rewrite nth_error_upd. destruct (Nat.eqb_spec i j); [contradiction|auto].
Qed.

Lemma set_edge_has l dst o d r : has (set_edge_order2 l dst o) d r <-> has l d r.
Proof.
  unfold has, set_edge_order2. split.
  - intros (e & Hin & Hd & Hr). apply in_map_iff in Hin as ([x|] & Hx & Hin); [|discriminate].
    destruct (_ =? _) in Hx; inversion Hx; subst; eexists; (split; [exact Hin|split; reflexivity]).
  - intros (e & Hin & Hd & Hr). destruct (e_dst e =? dst) eqn:Eq.
    + exists (with_order2 e o). split; [apply in_map_iff; exists (Some e); split; [now rewrite Eq|exact Hin]|auto].
    + exists e. split; [apply in_map_iff; exists (Some e); split; [now rewrite Eq|exact Hin]|auto].
Qed.

Lemma update_order_grows m a b o m' : mg_update_bond_order m a b o = Ok m' -> grows m m' [].
Proof.
  unfold mg_update_bond_order. destruct (negb _); [discriminate|].
  destruct (mg_get_dirbond m _ _) as [ab|]; cbn [bind]; [|discriminate].
  destruct (_ =? _)%Z; [intro E; inversion E; subst; now apply grows_refl|].
  match goal with |- (do adj1 <- ?X; _) = _ -> _ => destruct X as [adj1|] eqn:Ead end; cbn [bind]; [|discriminate].
  assert (G1 : grows m (set_adj m adj1) []).
  { destruct (e_ring ab).
    - destruct (mg_get_dirbond m _ _); cbn [bind] in Ead; [|discriminate]. inversion Ead; subst.
      set (mm := set_adj m (upd (m_adj m) (Nat.min a b) (fun l => set_edge_order2 l (Nat.max a b) o))).
      pose proof (grows_upd m (Nat.min a b) (fun l => set_edge_order2 l (Nat.max a b) o) (fun row d r => set_edge_has row _ o d r)) as Ga. fold mm in Ga.
      pose proof (grows_upd mm (Nat.max a b) (fun l => set_edge_order2 l (Nat.min a b) o) (fun row d r => set_edge_has row _ o d r)) as Gb.
      exact (grows_trans _ _ _ _ _ Ga Gb).
    - inversion Ead; subst. exact (grows_upd m (Nat.min a b) _ (fun row d r => set_edge_has row _ o d r)). }
  destruct (mg_add_count2 (set_adj m adj1) _ _) as [m1|] eqn:E1; cbn [bind]; [|discriminate].
  intro E2. apply add_count_adj in E1, E2. intros j d r. rewrite <- (G1 j d r). unfold edge_in. now rewrite E2, E1.
Qed.

Lemma rs_same m m' : grows m m' [] -> RS m -> RS m'.
Proof. intros Hg Hm. apply (rs_plain m m' [] Hm Hg). intros j d []. Qed.

Lemma single_bonds_rs : forall adjs m node m', RS m -> set_single_bonds m node adjs = Ok m' -> RS m'.
Proof.
  induction adjs as [|x r IH]; intros m node m' Hm E; cbn [set_single_bonds] in E; [inversion E; subst; exact Hm|].
  destruct (mg_update_bond_order m node x 2) as [m1|] eqn:E1; cbn [bind] in E; [|discriminate].
  exact (IH _ _ _ (rs_same _ _ (update_order_grows _ _ _ _ _ E1) Hm) E).
Qed.
Lemma double_bonds_rs : forall pairs m l2n m', RS m -> set_double_bonds m l2n pairs = Ok m' -> RS m'.
Proof.
  induction pairs as [|[i oj] r IH]; intros m l2n m' Hm E; cbn [set_double_bonds] in E; [inversion E; subst; exact Hm|].
  destruct (lget l2n i); cbn [bind] in E; [|discriminate]. destruct oj as [j|]; [|discriminate].
  destruct (lget l2n j); cbn [bind] in E; [|discriminate].
  destruct (mg_update_bond_order m _ _ 4) as [m1|] eqn:E1; cbn [bind] in E; [|discriminate].
  exact (IH _ _ _ (rs_same _ _ (update_order_grows _ _ _ _ _ E1) Hm) E).
Qed.
Lemma dearomatize_rs : forall ds m m', RS m -> dearomatize m ds = Ok m' -> RS m'.
Proof.
  induction ds as [|[node adjs] r IH]; intros m m' Hm E; cbn [dearomatize] in E; [inversion E; subst; exact Hm|].
  destruct (set_single_bonds m node adjs) as [m1|] eqn:E1; cbn [bind] in E; [|discriminate].
  destruct (lupd (m_atoms m1) _ _) as [atoms'|]; cbn [bind] in E; [|discriminate].
  destruct (lupd (m_counts2 m1) _ _) as [counts'|]; cbn [bind] in E; [|discriminate].
  apply IH in E; [exact E|]. exact (single_bonds_rs _ _ _ _ Hm E1).
Qed.
Theorem kekulize_rs m m' : RS m -> kekulize m = Ok (Some m') -> RS m'.
Proof.
  intros Hm. unfold kekulize. destruct (ds_is_empty _); [intro E; inversion E; subst; exact Hm|].
  destruct (any_bad_element _ _) as [bad|]; cbn [bind]; [|discriminate]. destruct bad; [discriminate|].
  destruct (kept_nodes_of _ _) as [kept|]; cbn [bind]; [|discriminate].
  destruct (pruned_ds_of _ _ _) as [pruned|]; cbn [bind]; [|discriminate].
  destruct (find_perfect_matching pruned) as [[mt|]|]; cbn [bind]; try discriminate.
  destruct (dearomatize m _) as [m1|] eqn:E1; cbn [bind]; [|discriminate].
  destruct (set_double_bonds m1 _ _) as [m2|] eqn:E2; cbn [bind]; [|discriminate].
  intro E; inversion E; subst. exact (double_bonds_rs _ _ _ _ (dearomatize_rs _ _ _ Hm E1) E2).
Qed.

(* ---------- the emitting walk raises no KeyError ---------- *)
Definition nokey (e : exn) : Prop := e <> KeyError.

Lemma lget_nokey {A} (l : list A) i e : lget l i = Err e -> nokey e.
Proof. unfold lget. destruct (nth_error l i); [discriminate|]. intro H; inversion H; discriminate. Qed.
Lemma ebond_nokey b e : ebond_to_smiles b = Err e -> nokey e.
Proof. unfold ebond_to_smiles. repeat destruct (_ =? _)%Z; try discriminate. intro H; inversion H; discriminate. Qed.
Lemma bond_sel_nokey b sh e : bond_to_selfies b sh = Err e -> nokey e.
Proof. unfold bond_to_selfies. destruct (_ && _); [discriminate|apply ebond_nokey]. Qed.
Lemma atom_smiles_nokey a br e : atom_to_smiles a br = Err e -> nokey e.
Proof.
  unfold atom_to_smiles. destruct (a_aromatic a); [intro H; inversion H; discriminate|].
  destruct (a_isotope a), (a_chirality a), (a_hcount a), (a_charge a =? 0)%Z; discriminate.
Qed.
Lemma atom_sel_nokey b a e : atom_to_selfies b a = Err e -> nokey e.
Proof.
  unfold atom_to_selfies. destruct (a_aromatic a); [intro H; inversion H; discriminate|].
  destruct b as [b0|]; cbn [bind].
  - destruct (bond_to_selfies b0 true) as [bc|e1] eqn:Eb; cbn [bind]; [|intro H; inversion H; subst; exact (bond_sel_nokey _ _ _ Eb)].
    destruct (atom_to_smiles a false) as [t|e2] eqn:Ea; cbn [bind]; [discriminate|intro H; inversion H; subst; exact (atom_smiles_nokey _ _ _ Ea)].
  - destruct (atom_to_smiles a false) as [t|e2] eqn:Ea; cbn [bind]; [discriminate|intro H; inversion H; subst; exact (atom_smiles_nokey _ _ _ Ea)].
Qed.
Lemma all_some_nokey l e : Encoder.all_some l = Err e -> nokey e.
Proof.
  induction l as [|[b|] r IH]; cbn [Encoder.all_some]; [discriminate| |intro H; inversion H; discriminate].
  destruct (Encoder.all_some r) as [t|e1]; cbn [bind]; [discriminate|]. intro H; inversion H; subst. now apply IH.
Qed.
Lemma syms_nokey : forall ds e, syms_of_digits ds = Err e -> nokey e.
Proof.
  induction ds as [|d r IH]; intros e; cbn [syms_of_digits]; [discriminate|].
  destruct (nth_error index_alphabet (N.to_nat d)); [|intro H; inversion H; discriminate].
  destruct (syms_of_digits r) as [t|e1] eqn:E1; cbn [bind]; [discriminate|]. intro H; inversion H; subst. exact (IH _ eq_refl).
Qed.
Lemma index_nokey idx e : get_selfies_from_index idx = Err e -> nokey e.
Proof.
  unfold get_selfies_from_index. destruct (idx <? 0)%Z; [intro H; inversion H; discriminate|].
  destruct index_alphabet; [intro H; inversion H; discriminate|]. destruct (_ =? _)%N; [discriminate|apply syms_nokey].
Qed.
Lemma ring_sel_nokey lb rb e : ring_bonds_to_selfies lb rb = Err e -> nokey e.
Proof.
  unfold ring_bonds_to_selfies. destruct (negb (_ =? _)%Z); [intro H; inversion H; discriminate|].
  destruct (_ || _); [apply bond_sel_nokey|discriminate].
Qed.

Lemma find_edge_some l d : (exists e, In (Some e) l /\ e_dst e = d) -> exists e', find_edge l d = Some e'.
Proof.
  induction l as [|[x|] r IH]; intros (e & Hin & Hd); [destruct Hin| |]; cbn [find_edge].
  - destruct (e_dst x =? d) eqn:Eq; [eauto|]. destruct Hin as [H|H]; [inversion H; subst; apply Nat.eqb_neq in Eq; contradiction|apply IH; eauto].
  - destruct Hin as [H|H]; [discriminate|apply IH; eauto].
Qed.

Section Walk.
Variable m : emol.
Hypothesis Hrs : RS m.
Hypothesis Hrow : RowP m.

Lemma out_loop_nokey (walk : ebond -> nat -> nat -> res (list str * list amap)) curr raw :
  nth_error (m_adj m) curr = Some raw ->
  forall bonds, (forall b ai o e, walk b ai o = Err e -> nokey e) -> Forall (fun b => In (Some b) raw) bonds ->
  forall aidx off e, out_loop m walk bonds aidx off = Err e -> nokey e.
Proof.
  intros Hraw. induction bonds as [|b rest IH]; intros Hw Hb aidx off e E; cbn [out_loop] in E; [discriminate|].
  inversion Hb as [|? ? Hb1 Hb']; subst.
  destruct (e_ring b) eqn:Ering.
  - destruct (e_src b <? e_dst b); [exact (IH Hw Hb' _ _ _ E)|].
    assert (Hrev : exists rv, mg_get_dirbond m (e_dst b) (e_src b) = Ok rv).
    { destruct (Hrow _ _ _ Hraw Hb1) as [Hs _]. destruct (Hrs curr (e_dst b)) as (row & e0 & Hn & Hin & Hd & _); [exists raw, b; auto|].
      unfold mg_get_dirbond, mg_find_dirbond. rewrite Hn. destruct (find_edge_some row (e_src b)) as [e' He']; [exists e0; rewrite Hs; auto|]. rewrite He'. eauto. }
    destruct Hrev as [rv Erv]. rewrite Erv in E. cbn [bind] in E.
    destruct (get_selfies_from_index _) as [Q|e1] eqn:EQ; cbn [bind] in E; [|inversion E; subst; exact (index_nokey _ _ EQ)].
    destruct (ring_bonds_to_selfies rv b) as [rs|e1] eqn:Er; cbn [bind] in E; [|inversion E; subst; exact (ring_sel_nokey _ _ _ Er)].
    match type of E with (do _ <- ?X; _) = _ => destruct X as [[ts1 ms1]|e1] eqn:E1 end; cbn [bind] in E; [discriminate|].
    inversion E; subst. exact (IH Hw Hb' _ _ _ E1).
  - destruct rest as [|b2 rest2]; [exact (Hw _ _ _ _ E)|].
    destruct (walk b off 0) as [[branch bmaps]|e1] eqn:Eb; cbn [bind] in E; [|inversion E; subst; exact (Hw _ _ _ _ Eb)].
    destruct (get_selfies_from_index _) as [Q|e1] eqn:EQ; cbn [bind] in E; [|inversion E; subst; exact (index_nokey _ _ EQ)].
    destruct (bond_to_selfies b false) as [bs|e1] eqn:Ebs; cbn [bind] in E; [|inversion E; subst; exact (bond_sel_nokey _ _ _ Ebs)].
    match type of E with (do _ <- ?X; _) = _ => destruct X as [[ts1 ms1]|e1] eqn:E1 end; cbn [bind] in E; [discriminate|].
    inversion E; subst. exact (IH Hw Hb' _ _ _ E1).
Qed.

Lemma walk_nokey : forall fuel b curr aidx off e, fragment_walk fuel m b curr aidx off = Err e -> nokey e.
Proof.
  induction fuel as [|f IH]; intros b curr aidx off e E; [inversion E; discriminate|]. cbn [fragment_walk] in E.
  destruct (mg_get_atom m curr) as [[a at_]|e1] eqn:Ea; cbn [bind fst snd] in E; [|inversion E; subst; exact (lget_nokey _ _ _ Ea)].
  destruct (atom_to_selfies b a) as [tok|e1] eqn:Et; cbn [bind fst] in E; [|inversion E; subst; exact (atom_sel_nokey _ _ _ Et)].
  destruct (mg_get_out_dirbonds m curr) as [raw|e1] eqn:Eraw; cbn [bind] in E; [|inversion E; subst; exact (lget_nokey _ _ _ Eraw)].
  destruct (Encoder.all_some raw) as [bonds|e1] eqn:Eall; cbn [bind] in E; [|inversion E; subst; exact (all_some_nokey _ _ Eall)].
  match type of E with (do _ <- ?X; _) = _ => destruct X as [[ts1 ms1]|e1] eqn:E1 end; cbn [bind] in E; [discriminate|].
  inversion E; subst e1; clear E. unfold mg_get_out_dirbonds in Eraw. apply lget_In in Eraw.
  refine (out_loop_nokey _ curr raw Eraw _ (fun b0 ai o e0 H => IH _ _ _ _ _ H) _ _ _ _ E1).
  apply Forall_forall. intros b0 Hb0. unfold ring_bonds_first in Hb0. apply in_app_iff in Hb0. apply (all_some_In' _ _ _ Eall). destruct Hb0 as [H|H]; apply filter_In in H; tauto.
Qed.

Lemma encode_roots_nokey : forall roots aidx e, encode_roots m roots aidx = Err e -> nokey e.
Proof.
  induction roots as [|r rest IH]; intros aidx e E; cbn [encode_roots] in E; [discriminate|].
  destruct (fragment_to_selfies m r aidx) as [[derived mp]|e1] eqn:Ef; cbn [bind] in E.
  - destruct (encode_roots m rest _) as [[frags' maps']|e1] eqn:Er; cbn [bind] in E; [discriminate|]. inversion E; subst. exact (IH _ _ Er).
  - inversion E; subst. unfold fragment_to_selfies in Ef. exact (walk_nokey _ _ _ _ _ _ Ef).
Qed.
End Walk.

(* strict check and inversion pass: the only lookup by key is the capacity of an (element, charge), answered by '?' at worst *)
Lemma capacity_ok T el c : (exists v, assoc (lit "?") T = Some v) -> exists v, get_bonding_capacity T el c = Ok v.
Proof. intros [v Hq]. unfold get_bonding_capacity. destruct (assoc (constraint_key el c) T); [eauto|]. rewrite Hq. eauto. Qed.

Lemma constraint_errors_nokey T m : (exists v, assoc (lit "?") T = Some v) -> forall atoms idx e,
  bond_constraint_errors (get_bonding_capacity T) m atoms idx = Err e -> nokey e.
Proof.
  intro Hq. induction atoms as [|[a at_] r IH]; intros idx e E; cbn [bond_constraint_errors] in E; [discriminate|].
  unfold bonding_capacity_c in E. destruct (capacity_ok T (a_element a) (a_charge a) Hq) as [c Ec]. rewrite Ec in E. cbn [bind] in E.
  destruct (mg_get_bond_count2 m idx) as [c2|e1] eqn:Eb; cbn [bind] in E; [|inversion E; subst; exact (lget_nokey _ _ _ Eb)].
  destruct (_ <? _)%Z; [|exact (IH _ _ E)].
  destruct (atom_to_smiles a true) as [x|e1] eqn:Ea; cbn [bind] in E; [|inversion E; subst; exact (atom_smiles_nokey _ _ _ Ea)].
  destruct (bond_constraint_errors _ m r (S idx)) as [x2|e1] eqn:Er; cbn [bind] in E; [discriminate|inversion E; subst; exact (IH _ _ Er)].
Qed.

Lemma partition_nokey : forall bonds i e, partition_bonds bonds i = Err e -> nokey e.
Proof.
  induction bonds as [|[b|] r IH]; intros i e E; cbn [partition_bonds] in E; [discriminate| |inversion E; discriminate].
  destruct (partition_bonds r (S i)) as [[[p0 p1] p2]|e1] eqn:Ep; cbn [bind] in E; [|inversion E; subst; exact (IH _ _ Ep)].
  destruct (negb (e_ring b)); [discriminate|]. destruct (_ <? _); discriminate.
Qed.

Lemma invert_pass_nokey m : forall atoms idx e, invert_pass m atoms idx = Err e -> nokey e.
Proof.
  induction atoms as [|[a at_] r IH]; intros idx e E; cbn [invert_pass] in E; [discriminate|].
  match type of E with (do a' <- ?X; _) = _ => destruct X as [a'|e1] eqn:Ea end; cbn [bind] in E.
  - destruct (invert_pass m r (S idx)) as [rest|e1] eqn:Er; cbn [bind] in E; [discriminate|inversion E; subst; exact (IH _ _ Er)].
  - inversion E; subst e1; clear E. destruct (a_chirality a); [|discriminate].
    destruct (mg_has_out_ring_bond m idx) as [flag|e1] eqn:Ef; cbn [bind] in Ea; [|inversion Ea; subst; exact (lget_nokey _ _ _ Ef)].
    destruct flag; [|discriminate].
    destruct (should_invert_chirality m idx) as [inv|e1] eqn:Es; cbn [bind] in Ea; [discriminate|]. inversion Ea; subst e1.
    unfold should_invert_chirality in Es. destruct (mg_get_out_dirbonds m idx) as [ob|e2] eqn:Eo; cbn [bind] in Es; [|inversion Es; subst; exact (lget_nokey _ _ _ Eo)].
    destruct (partition_bonds ob 0) as [[[p0 p1] p2]|e2] eqn:Ep; cbn [bind] in Es; [discriminate|inversion Es; subst; exact (partition_nokey _ _ _ Ep)].
Qed.

Theorem encoder_after_kekulize_no_key_error T smiles strict attribute m0 m1 e :
  (exists v, assoc (lit "?") T = Some v) ->
  smiles_to_mol smiles attribute = Ok m0 -> kekulize m0 = Ok (Some m1) ->
  encoder T smiles strict attribute = Err e -> nokey e.
Proof.
  intros Hq Ep Ek E. unfold encoder, encoder_c in E. rewrite Ep in E. unfold encode_mol in E. rewrite Ek in E. cbn [bind] in E.
  destruct (parsed_row _ _ _ Ep) as [R0 _]. destruct (kekulize_row _ _ R0 Ek) as [R1 _].
  pose proof (kekulize_rs _ _ (parsed_rs _ _ _ Ep) Ek) as S1.
  match type of E with (do _ <- ?X; _) = _ => destruct X as [u|e1] eqn:Ec end; cbn [bind] in E.
  - destruct (invert_pass m1 (m_atoms m1) 0) as [atoms'|e1] eqn:Ei; cbn [bind] in E; [|inversion E; subst; exact (invert_pass_nokey _ _ _ _ Ei)].
    destruct (encode_roots (set_atoms m1 atoms') _ 0) as [[frags maps]|e1] eqn:Er; cbn [bind] in E; [discriminate|].
    inversion E; subst. exact (encode_roots_nokey (set_atoms m1 atoms') S1 R1 _ _ _ Er).
  - inversion E; subst e1; clear E. destruct strict; [|discriminate]. unfold check_bond_constraints in Ec.
    destruct (bond_constraint_errors _ m1 (m_atoms m1) 0) as [bad|e1] eqn:Eb; cbn [bind] in Ec.
    + destruct bad; [inversion Ec; discriminate|discriminate].
    + inversion Ec; subst. exact (constraint_errors_nokey T m1 Hq _ _ _ Eb).
Qed.
