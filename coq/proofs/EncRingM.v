(* EncRingM.v — C04, marks of ring-closure bonds at symbol level: when a closing ring bond is single and one of its two
   stored directions carries a / or \ mark, the ring symbol printed for it is [<mark of the opening end><mark of the
   closing end>RingN] with '-' for a missing mark, and both marks are the ones the reader stored (kekulize moves no mark). *)
From Coq Require Import Ascii String List Arith ZArith NArith Bool Lia.
Import ListNotations.
From Selfies Require Import Base Generated Lex Atoms Grammar Decoder Smiles PySet Matching Kekulize Encoder BaseFacts ConfigFacts DecoderInv
  ParserTotal EncHyp EncShape EncTokens EncRows EncAttr EncStereo EncFuel EncIndex EncKey EncAttrErr EncArom EncUniq EncOrders EncKek EncMatch EncKeep EncOrd EncRing.
Local Open Scope nat_scope.

Definition markc (s : option N) : N := match s with None => 45%N | Some x => x end.

Lemma ring_sel_marks rv b rs : ring_bonds_to_selfies rv b = Ok rs -> e_order2 rv = 2%Z -> (e_stereo rv <> None \/ e_stereo b <> None) ->
  rs = [markc (e_stereo rv); markc (e_stereo b)].
Proof.
  unfold ring_bonds_to_selfies. destruct (negb (e_order2 rv =? e_order2 b)%Z); [discriminate|]. intros H E2 Hm. rewrite E2 in H. cbn [Z.eqb Pos.eqb negb orb] in H.
  destruct (e_stereo rv) as [x|], (e_stereo b) as [y|]; cbn [andb] in H; try (inversion H; reflexivity). destruct Hm as [Hm|Hm]; contradiction.
Qed.

Definition ring_marks (m0 m : emol) (toks : list str) : Prop :=
  exists b rv rs Q r0 e0 r0' e0', in_graph m b /\ e_ring b = true /\ e_dst b < e_src b /\ mg_get_dirbond m (e_dst b) (e_src b) = Ok rv /\
    toks = (lit "[" ++ rs ++ lit "Ring" ++ str_of_nat (length Q) ++ lit "]")%list :: Q /\
    (e_order2 b = 2%Z -> (e_stereo rv <> None \/ e_stereo b <> None) -> rs = [markc (e_stereo rv); markc (e_stereo b)]) /\
    nth_error (m_adj m0) (e_src b) = Some r0 /\ In (Some e0) r0 /\ e_dst e0 = e_dst b /\ e_stereo e0 = e_stereo b /\
    nth_error (m_adj m0) (e_dst b) = Some r0' /\ In (Some e0') r0' /\ e_dst e0' = e_src b /\ e_stereo e0' = e_stereo rv.

Theorem encoder_ring_marks T smiles strict attribute x maps :
  encoder T smiles strict attribute = Ok (x, maps) ->
  exists m0 m tss, smiles_to_mol smiles attribute = Ok m0 /\ x = join (lit ".") (map (@concat N) tss) /\ Forall (TW (ring_marks m0 m)) tss.
Proof.
  intros E. unfold encoder, encoder_c in E.
  destruct (smiles_to_mol smiles attribute) as [m0|e] eqn:Ep; [|destruct e; discriminate].
  pose proof (parsed_adj _ _ _ Ep) as A0. unfold encode_mol in E.
  destruct (kekulize m0) as [[m1|]|] eqn:Ek; cbn [bind] in E; try discriminate.
  pose proof (kekulize_adj _ _ A0 Ek) as A1.
  destruct (parsed_kekulize_keeps _ _ _ _ Ep Ek) as [Hsk Hrel].
  destruct (parsed_gue _ _ _ Ep) as (_ & _ & _ & _ & Hrow0 & _ & Hu & _).
  pose proof (rel_strong m0 m1 Hu Hsk Hrel) as RS1.
  match type of E with (do _ <- ?X; _) = _ => destruct X; cbn [bind] in E; [|discriminate] end.
  destruct (invert_pass m1 (m_atoms m1) 0) as [atoms'|] eqn:Ei; cbn [bind] in E; [|discriminate].
  set (m2 := set_atoms m1 atoms') in *. assert (A2 : AdjP m2) by exact A1.
  destruct (encode_roots m2 _ 0) as [[frags maps0]|] eqn:Er; cbn [bind] in E; [|discriminate].
  inversion E; subst x maps; clear E.
  assert (HPR : forall toks, ring_tok m2 toks -> ring_marks m0 m2 toks); [|destruct (encode_roots_tw m2 (ring_marks m0 m2) HPR _ _ _ _ Er) as (tss & -> & W); exists m0, m2, tss; auto].
  intros toks (b & rv & rs & Q & (j & row & Hn & Hin) & Hr & Hlt & Erv & Ers & EQ & ->).
  assert (Sb : sok (e_stereo b)).
  { unfold AdjP in A2. rewrite Forall_forall in A2. pose proof (A2 row (nth_error_In _ _ Hn)) as Hrw. rewrite Forall_forall in Hrw. exact (Hrw (Some b) Hin). }
  destruct (ring_sel_order rv b rs (dirbond_sok _ _ _ _ A2 Erv) Sb Ers) as [Eo _].
  destruct (RS1 j row b Hn Hin) as (row0 & e0 & Hn0 & Hi0 & Hst & _).
  assert (Hsrc : e_src b = j) by (pose proof (f_equal e_src Hst) as X; unfold strip in X; cbn [with_order2 e_src] in X; rewrite <- X; exact (proj1 (Hrow0 _ _ _ Hn0 Hi0))).
  pose proof Erv as Erv'. unfold mg_get_dirbond, mg_find_dirbond in Erv'. destruct (nth_error (m_adj m2) (e_dst b)) as [rowd|] eqn:Ed; [|discriminate].
  destruct (find_edge rowd (e_src b)) as [xx|] eqn:Ef; inversion Erv'; subst xx.
  destruct (RS1 (e_dst b) rowd rv Ed (find_edge_In _ _ _ Ef)) as (row0' & e0' & Hn0' & Hi0' & Hst' & _).
  exists b, rv, rs, Q, row0, e0, row0', e0'. split; [exists j, row; auto|]. split; [exact Hr|]. split; [exact Hlt|]. split; [exact Erv|]. split; [reflexivity|].
  split; [intros E2 Hm; apply (ring_sel_marks rv b rs Ers); [congruence|exact Hm]|].
  split; [rewrite Hsrc; exact Hn0|]. split; [exact Hi0|].
  split; [pose proof (f_equal e_dst Hst) as X; unfold strip in X; cbn [with_order2 e_dst] in X; exact X|].
  split; [pose proof (f_equal e_stereo Hst) as X; unfold strip in X; cbn [with_order2 e_stereo] in X; exact X|].
  split; [exact Hn0'|]. split; [exact Hi0'|].
  split; [pose proof (f_equal e_dst Hst') as X; unfold strip in X; cbn [with_order2 e_dst] in X; rewrite X; exact (EncUniq.find_edge_dst _ _ _ Ef)|].
  pose proof (f_equal e_stereo Hst') as X; unfold strip in X; cbn [with_order2 e_stereo] in X; exact X.
Qed.
