(* EncStd.v — C10: standardisation.  The symbol printed for an atom is a function of the atom the reader built, and
   an injective one: two atoms of the shapes the encoder prints get the same symbol exactly when they are equal.
   The spellings the property names are read as the same atom, for every element. *)
From Coq Require Import Ascii String List Arith ZArith NArith Bool Lia.
Import ListNotations.
From Selfies Require Import Base Generated Lex Atoms Grammar Decoder Smiles Encoder BaseFacts WriterAtoms EncAtoms.
Local Open Scope Z_scope.

Theorem symbol_determines_atom a1 a2 t : AtomShape a1 -> IntOK a1 -> AtomShape a2 -> IntOK a2 ->
  atom_to_smiles a1 false = Ok t -> atom_to_smiles a2 false = Ok t -> a1 = a2.
Proof.
  intros S1 I1 S2 I2 E1 E2.
  pose proof (sel_atom_parses [] a1 t S1 I1 (or_introl eq_refl) E1) as P1.
  pose proof (sel_atom_parses [] a2 t S2 I2 (or_introl eq_refl) E2) as P2.
  rewrite P1 in P2. now inversion P2.
Qed.

(* equality of what the reader returns *)
Definition optN_eq (a b : option N) : bool := match a, b with Some x, Some y => N.eqb x y | None, None => true | _, _ => false end.
Definition optS_eq (a b : option str) : bool := match a, b with Some x, Some y => str_eqb x y | None, None => true | _, _ => false end.
Definition atom_eqb (a b : atom) : bool :=
  str_eqb (a_element a) (a_element b) && Bool.eqb (a_aromatic a) (a_aromatic b) && optN_eq (a_isotope a) (a_isotope b)
  && optS_eq (a_chirality a) (a_chirality b) && optN_eq (a_hcount a) (a_hcount b) && (a_charge a =? a_charge b).
Definition same_read (s1 s2 : str) : bool :=
  match smiles_to_atom s1, smiles_to_atom s2 with
  | Ok (Some a), Ok (Some b) => atom_eqb a b
  | _, _ => false
  end.

Lemma atom_eqb_eq a b : atom_eqb a b = true -> a = b.
Proof.
  destruct a as [e1 r1 i1 c1 h1 g1], b as [e2 r2 i2 c2 h2 g2]. unfold atom_eqb. cbn [a_element a_aromatic a_isotope a_chirality a_hcount a_charge].
  intro H. repeat (apply andb_true_iff in H as [H ?]).
  apply str_eqb_eq in H. apply Bool.eqb_prop in H4. apply Z.eqb_eq in H0. subst.
  assert (ON : forall x y, optN_eq x y = true -> x = y).
  { intros [x|] [y|]; cbn; try discriminate; [intro E; apply N.eqb_eq in E; now subst|reflexivity]. }
  assert (OS : forall x y, optS_eq x y = true -> x = y).
  { intros [x|] [y|]; cbn; try discriminate; [intro E; apply str_eqb_eq in E; now subst|reflexivity]. }
  apply ON in H3, H1. apply OS in H2. now subst.
Qed.

(* [E+] = [E+1], [E-] = [E-1], [E++] = [E+2], [E--] = [E-2], [E+++] = [E+3], [EH] = [EH1], [E] = [EH0], with and without an
   isotope and a chirality tag in front: for every element *)
Definition br (pre suf : string) (el : str) : str := (lit "[" ++ lit pre ++ el ++ lit suf ++ lit "]")%list.
Definition spelling_pairs : list (string * string) :=
  [("+", "+1"); ("-", "-1"); ("++", "+2"); ("--", "-2"); ("+++", "+3"); ("---", "-3"); ("H", "H1"); ("", "H0");
   ("H+", "H1+1"); ("@H", "@H1"); ("@@H-", "@@H1-1"); ("H2++", "H2+2")]%string.
Definition spellings_ok (el : str) : bool :=
  forallb (fun pq => same_read (br "" (fst pq) el) (br "" (snd pq) el) && same_read (br "13" (fst pq) el) (br "13" (snd pq) el))
          spelling_pairs.

Lemma spellings_all : forallb spellings_ok elements = true.
Proof. vm_compute. reflexivity. Qed.

Theorem standard_spellings el p q pre : In el elements -> In (p, q) spelling_pairs -> In pre [""; "13"]%string ->
  exists a, smiles_to_atom (br pre p el) = Ok (Some a) /\ smiles_to_atom (br pre q el) = Ok (Some a).
Proof.
  intros He Hpq Hpre. pose proof spellings_all as F. rewrite forallb_forall in F. specialize (F el He).
  unfold spellings_ok in F. rewrite forallb_forall in F. specialize (F (p, q) Hpq). cbn [fst snd] in F.
  apply andb_true_iff in F as [F1 F2].
  assert (G : same_read (br pre p el) (br pre q el) = true) by (destruct Hpre as [<-|[<-|[]]]; assumption).
  unfold same_read in G. destruct (smiles_to_atom (br pre p el)) as [[a|]|]; try discriminate.
  destruct (smiles_to_atom (br pre q el)) as [[b|]|]; try discriminate.
  apply atom_eqb_eq in G. subst b. now exists a.
Qed.
