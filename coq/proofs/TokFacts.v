(* TokFacts.v — when does _process_atom_selfies_no_cache raise?  Only when int()
   refuses a digit field, i.e. when the symbol has more characters than the
   interpreter's int_max_str_digits (regenerated from the running interpreter).
   Hence [tok_ok t] for every symbol of at most that many characters (C08). *)
From Coq Require Import Ascii String List Arith ZArith NArith Bool Lia.
Import ListNotations.
From Selfies Require Import Base Generated Lex Atoms Decoder BaseFacts DecoderInv.

Lemma span_spec (p : N -> bool) : forall s a b, span p s = (a, b) -> s = a ++ b /\ Forall (fun c => p c = true) a.
Proof.
  induction s as [|c r IH]; intros a b E; cbn [span] in E.
  - inversion E; subst. split; [reflexivity|constructor].
  - destruct (p c) eqn:Ep.
    + destruct (span p r) as [a' b'] eqn:Es. inversion E; subst. destruct (IH a' b eq_refl) as [-> F].
      split; [reflexivity|constructor; assumption].
    + inversion E; subst. split; [reflexivity|constructor].
Qed.

Lemma decimal_val_09 c : is_09 c = true -> exists d, decimal_val c = Some d.
Proof.
  unfold is_09. intro H. apply andb_true_iff in H as [H1 H2]. apply N.leb_le in H1, H2.
  unfold decimal_val.
  assert (Hz : exists r, decimal_zeros = 48%N :: r) by (eexists; reflexivity).
  destruct Hz as [r ->]. cbn [decimal_val_in].
  assert (X : ((48 <=? c) && (c <=? 48 + 9))%N = true).
  { apply andb_true_iff. split; apply N.leb_le; lia. }
  rewrite X. eauto.
Qed.

Definition within_limit (n : nat) : Prop := (int_max_str_digits = 0 \/ N.of_nat n <= int_max_str_digits)%N.

Lemma within_limit_le n k : (k <= n)%nat -> within_limit n -> within_limit k.
Proof. intros H [Z|L]; [now left|right; lia]. Qed.

Lemma int_of_decimals_ok ds : Forall (fun c => is_09 c = true) ds -> within_limit (length ds) ->
  exists n, int_of_decimals ds = Ok n.
Proof.
  intros F W. unfold int_of_decimals.
  assert (X : ((int_max_str_digits <? N.of_nat (length ds)) && negb (int_max_str_digits =? 0))%N = false).
  { destruct W as [Z|L].
    - rewrite Z. cbn. now rewrite andb_false_r.
    - apply andb_false_iff. left. apply N.ltb_ge. exact L. }
  rewrite X. clear X W. generalize 0%N as acc. induction F as [|c r Hc F IH]; intro acc; [eauto|].
  destruct (decimal_val_09 c Hc) as [d ->]. apply IH.
Qed.

(* the digit fields of a matched atom symbol are ASCII digits and shorter than the symbol *)
Lemma match_fields t f : match_selfies_atom t = Some f ->
  (Forall (fun c => is_09 c = true) (f_iso f) /\ (length (f_iso f) <= length t)%nat) /\
  (match f_h f with [] => True | _ :: ds => Forall (fun c => is_09 c = true) ds /\ (length ds <= 1)%nat end) /\
  (match f_charge f with [] => True | _ :: ds => Forall (fun c => is_09 c = true) ds /\ (length ds <= length t)%nat end).
Proof.
  unfold match_selfies_atom. destruct t as [|c0 s1]; [discriminate|].
  destruct (negb (c0 =? 91)%N); [discriminate|].
  set (bs := match s1 with c :: r => if is_bond_prefix c then (Some c, r) else (None, s1) | [] => (None, s1) end).
  assert (Hbs : (length (snd bs) <= length s1)%nat).
  { unfold bs. destruct s1 as [|c r]; [cbn [snd length]; lia|]. destruct (is_bond_prefix c); cbn [snd length]; lia. }
  destruct bs as [bond s2]. cbn [snd] in Hbs.
  destruct (span is_09 s2) as [iso s3] eqn:Ei. destruct (span_spec _ _ _ _ Ei) as [E2 Fi].
  destruct s3 as [|e1 s4]; [discriminate|]. destruct (negb (is_upper e1)); [discriminate|].
  set (es := match s4 with e2 :: r => if is_lower e2 then ([e1; e2], r) else ([e1], s4) | [] => ([e1], s4) end).
  assert (Hes : (length (snd es) <= length s4)%nat).
  { unfold es. destruct s4 as [|e2 r]; [cbn [snd length]; lia|]. destruct (is_lower e2); cbn [snd length]; lia. }
  destruct es as [elem s5]. cbn [snd] in Hes.
  set (cs := if prefix_of (lit "@@") s5 then (lit "@@", skipn 2 s5) else if prefix_of (lit "@") s5 then (lit "@", skipn 1 s5) else ([], s5)).
  assert (Hcs : (length (snd cs) <= length s5)%nat).
  { unfold cs. destruct (prefix_of (lit "@@") s5); [cbn [snd]; rewrite skipn_length; lia|].
    destruct (prefix_of (lit "@") s5); cbn [snd]; [rewrite skipn_length; lia|lia]. }
  destruct cs as [chi s6]. cbn [snd] in Hcs.
  set (hs := match s6 with c :: d :: r => if (c =? 72)%N && is_09 d then ([c; d], r) else ([], s6) | _ => ([], s6) end).
  assert (Hhs : (length (snd hs) <= length s6)%nat /\
                match fst hs with [] => True | _ :: ds => Forall (fun c => is_09 c = true) ds /\ (length ds <= 1)%nat end).
  { unfold hs. destruct s6 as [|c [|d r]]; cbn [fst snd length]; try (split; [lia|exact I]).
    destruct ((c =? 72)%N && is_09 d) eqn:X; cbn [fst snd length]; [|split; [lia|exact I]].
    apply andb_true_iff in X as [_ X]. split; [lia|]. split; [repeat constructor; exact X|lia]. }
  destruct hs as [h s7]. cbn [fst snd] in Hhs. destruct Hhs as [Hhs Hh].
  set (gs := match s7 with
             | sg :: r => if ((sg =? 43) || (sg =? 45))%N then
                            match r with
                            | d1 :: r1 => if is_19 d1 then let '(ds, r') := span is_09 r1 in (sg :: d1 :: ds, r') else ([], s7)
                            | [] => ([], s7) end
                          else ([], s7)
             | [] => ([], s7) end).
  assert (Hgs : match fst gs with [] => True | _ :: ds => Forall (fun c => is_09 c = true) ds /\ (length ds <= length s7)%nat end).
  { unfold gs. destruct s7 as [|sg r]; cbn [fst]; [exact I|].
    destruct ((sg =? 43) || (sg =? 45))%N; cbn [fst]; [|exact I].
    destruct r as [|d1 r1]; cbn [fst]; [exact I|]. destruct (is_19 d1) eqn:X; cbn [fst]; [|exact I].
    destruct (span is_09 r1) as [ds r'] eqn:Es. cbn [fst]. destruct (span_spec _ _ _ _ Es) as [-> Fd].
    split.
    - constructor; [|exact Fd]. unfold is_19 in X. unfold is_09. apply andb_true_iff in X as [X1 X2].
      apply N.leb_le in X1. apply andb_true_iff. split; [apply N.leb_le; lia|exact X2].
    - cbn [length]. rewrite app_length. lia. }
  destruct gs as [chg s8]. cbn [fst] in Hgs.
  destruct (str_eqb s8 (lit "]")); [|discriminate]. intro E. inversion E; subst f; clear E. cbn [f_iso f_h f_charge].
  assert (L3 : (length (e1 :: s4) <= length s2)%nat) by (rewrite E2, app_length; lia).
  cbn [length] in *.
  split; [split; [exact Fi|rewrite E2, app_length in Hbs; lia]|]. split; [exact Hh|].
  destruct chg as [|sg ds]; [exact I|]. destruct Hgs as [Fg Lg]. split; [exact Fg|]. lia.
Qed.

Theorem tok_ok_of_length t : within_limit (length t) -> tok_ok t.
Proof.
  intro W. unfold tok_ok, process_atom_nocache.
  destruct (match_selfies_atom t) as [f|] eqn:Em; [|eauto].
  destruct (match_fields t f Em) as ((Fi & Li) & Hh & Hc).
  destruct (smiles_to_bond2 (f_bond f)) as [o2 stereo].
  destruct (mem_str _ organic_subset); [eauto|].
  assert (Ei : exists iso, match f_iso f with [] => Ok None | ds => do n <- int_of_decimals ds; Ok (Some n) end = Ok iso).
  { destruct (int_of_decimals_ok (f_iso f) Fi (within_limit_le _ _ Li W)) as [n En].
    destruct (f_iso f) as [|c r]; [eauto|]. rewrite En. cbn [bind]. eauto. }
  destruct Ei as [iso ->]. cbn [bind].
  destruct (negb (mem_str (f_elem f) elements)); [eauto|].
  assert (Eh : exists h, match f_h f with [] => Ok 0%N | _ :: ds => int_of_decimals ds end = Ok h).
  { destruct (f_h f) as [|c ds]; [eauto|]. destruct Hh as [Fh Lh].
    apply (int_of_decimals_ok ds Fh). destruct W as [Z|L]; [now left|].
    destruct (N.eq_dec int_max_str_digits 0) as [Z|NZ]; [now left|right; lia]. }
  destruct Eh as [h ->]. cbn [bind].
  assert (Ec : exists c, match f_charge f with [] => Ok 0%Z | sg :: ds => do n <- int_of_decimals ds; Ok (Z.of_N n * sign_of sg)%Z end = Ok c).
  { destruct (f_charge f) as [|sg ds]; [eauto|]. destruct Hc as [Fc Lc].
    destruct (int_of_decimals_ok ds Fc (within_limit_le _ _ Lc W)) as [n ->]. cbn [bind]. eauto. }
  destruct Ec as [c ->]. cbn [bind]. eauto.
Qed.

(* ---------- symbols are substrings ---------- *)
Lemma lex_len : forall n s st t, (length s <= n)%nat -> In t (fst (lex st s)) ->
  (length t <= length s + match st with LIn acc => length acc | _ => 0 end)%nat.
Proof.
  induction n as [|n IH]; intros s st t Hn Hin.
  - destruct s; [|cbn in Hn; lia]. destruct st; cbn in Hin; destruct Hin.
  - destruct s as [|c r]; [destruct st; cbn in Hin; destruct Hin|].
    cbn [length] in Hn. assert (Hr : (length r <= n)%nat) by lia.
    cbn [lex] in Hin. destruct st as [| |acc].
    + destruct (N.eqb c c_lb); apply (IH _ _ _ Hr) in Hin; cbn [length] in *; lia.
    + apply (IH _ _ _ Hr) in Hin. cbn [length] in *. lia.
    + destruct (N.eqb c c_rb).
      * assert (Hsym : (length (rev (c :: acc)) <= length (c :: r) + length acc)%nat) by (rewrite rev_length; cbn [length]; lia).
        destruct r as [|d r2].
        -- cbn in Hin. destruct Hin as [<-|[]]. exact Hsym.
        -- cbn [length] in Hr. destruct (N.eqb d c_dot).
           ++ destruct (lex LStart r2) as [ts bad] eqn:El. cbn [fst] in Hin.
              destruct Hin as [<-|[<-|Hin]]; [exact Hsym|cbn; lia|].
              assert (H2 : In t (fst (lex LStart r2))) by (rewrite El; exact Hin).
              apply (IH r2 LStart t ltac:(lia)) in H2. cbn [length] in *. lia.
           ++ destruct (lex LStart (d :: r2)) as [ts bad] eqn:El. cbn [fst] in Hin.
              destruct Hin as [<-|Hin]; [exact Hsym|].
              assert (H2 : In t (fst (lex LStart (d :: r2)))) by (rewrite El; exact Hin).
              apply (IH (d :: r2) LStart t ltac:(cbn [length]; lia)) in H2. cbn [length] in *. lia.
      * apply (IH _ _ _ Hr) in Hin. cbn [length] in *. lia.
Qed.

Lemma split_selfies_len s t : In t (fst (split_selfies s)) -> (length t <= length s)%nat.
Proof. intro H. apply (lex_len (length s) s LSkip t (Nat.le_refl _)) in H. lia. Qed.

Lemma split_char_aux_len c : forall s cur f, In f (split_char_aux c s cur) -> (length f <= length s + length cur)%nat.
Proof.
  induction s as [|x r IH]; intros cur f Hin; cbn [split_char_aux] in Hin.
  - destruct Hin as [<-|[]]. rewrite rev_length. lia.
  - destruct (N.eqb x c).
    + destruct Hin as [<-|Hin]; [rewrite rev_length; cbn [length]; lia|]. apply IH in Hin. cbn [length] in *. lia.
    + apply IH in Hin. cbn [length] in *. lia.
Qed.

(* C08's side condition from the length of the string alone *)
Theorem digits_ok_of_length s : within_limit (length s) -> digits_ok s.
Proof.
  intros W frag Hf. apply Forall_forall. intros t Ht. apply tok_ok_of_length.
  apply split_selfies_len in Ht. apply split_char_aux_len in Hf. cbn [length] in Hf.
  eapply within_limit_le; [|exact W]. lia.
Qed.

(* ... or from the length of its symbols *)
Definition symbols_short (s : str) : Prop :=
  forall frag t, In frag (split_char c_dot s) -> In t (fst (split_selfies frag)) -> within_limit (length t).

Theorem digits_ok_of_symbols s : symbols_short s -> digits_ok s.
Proof. intros H frag Hf. apply Forall_forall. intros t Ht. apply tok_ok_of_length. exact (H frag t Hf Ht). Qed.
