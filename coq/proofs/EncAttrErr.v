(* EncAttrErr.v — C09, last stage: after the reader and kekulize have returned, nothing in encoder() raises AttributeError.
   A ring-closure digit reserves a slot (None) in the adjacency row of its atom and an entry in the ring log; the closing
   digit fills exactly that slot and removes exactly that entry; a fragment is accepted only with an empty log: so the
   graph the walk runs over has no empty slot, and `bond.ring_bond` is never asked of None. *)
From Coq Require Import Ascii String List Arith ZArith NArith Bool Lia.
Import ListNotations.
From Selfies Require Import Base Generated Lex Atoms Grammar Decoder Smiles PySet Matching Kekulize Encoder BaseFacts ConfigFacts DecoderInv
  ParserTotal EncHyp EncShape EncTokens EncRows EncAttr EncStereo EncFuel EncIndex EncKey.
Local Open Scope nat_scope.

Definition slot_none (m : emol) (j p : nat) : Prop := exists row, nth_error (m_adj m) j = Some row /\ nth_error row p = Some None.
Definition slot_of (e : str * (token * nat * nat)) : nat * nat := let '(_, (_, j, p)) := e in (j, p).

(* ---------- how the row operations move the empty slots ---------- *)
Lemma nth_app_some {A} (l : list A) x p : nth_error (l ++ [x]) p = if p <? length l then nth_error l p else if p =? length l then Some x else None.
Proof.
  destruct (Nat.ltb_spec p (length l)) as [H|H]; [now rewrite nth_error_app1|]. rewrite nth_error_app2 by exact H.
  destruct (Nat.eqb_spec p (length l)) as [->|Hne]; [now rewrite Nat.sub_diag|]. destruct (p - length l) as [|k] eqn:E; [lia|]. destruct k; reflexivity.
Qed.

(* rows change in one place *)
Definition row_change (m m' : emol) (s : nat) (f : list (option ebond) -> list (option ebond)) : Prop :=
  m_adj m' = upd (m_adj m) s f.

Lemma slot_other m m' s f j p : row_change m m' s f -> j <> s -> (slot_none m' j p <-> slot_none m j p).
Proof. intros H Hne. unfold slot_none. rewrite H. rewrite nth_error_upd. destruct (Nat.eqb_spec s j); [congruence|reflexivity]. Qed.

Lemma slot_same_append_some m m' s b p : row_change m m' s (fun l => l ++ [Some b]) -> (slot_none m' s p <-> slot_none m s p).
Proof.
  intro H. unfold slot_none. rewrite H, nth_error_upd, Nat.eqb_refl. split.
  - intros (row & Hn & Hp). destruct (nth_error (m_adj m) s) as [r0|]; [|discriminate]. cbn in Hn. inversion Hn; subst row. exists r0. split; [reflexivity|].
    rewrite nth_app_some in Hp. destruct (p <? length r0); [exact Hp|]. destruct (p =? length r0); discriminate.
  - intros (row & Hn & Hp). rewrite Hn. cbn. eexists. split; [reflexivity|]. rewrite nth_app_some.
    assert (p < length row) by (apply nth_error_Some; congruence). destruct (Nat.ltb_spec p (length row)); [exact Hp|lia].
Qed.

Lemma slot_same_append_none m m' s row0 p : row_change m m' s (fun l => l ++ [None]) -> nth_error (m_adj m) s = Some row0 ->
  (slot_none m' s p <-> slot_none m s p \/ p = length row0).
Proof.
  intros H Hr. unfold slot_none. rewrite H, nth_error_upd, Nat.eqb_refl, Hr. cbn. split.
  - intros (row & Hn & Hp). inversion Hn; subst row. rewrite nth_app_some in Hp. destruct (Nat.ltb_spec p (length row0)); [left; eauto|].
    destruct (Nat.eqb_spec p (length row0)); [now right|discriminate].
  - intros [(row & Hn & Hp)|Hp]; [|subst p]; eexists; (split; [reflexivity|]); rewrite nth_app_some.
    + inversion Hn; subst row. assert (p < length row0) by (apply nth_error_Some; congruence). destruct (Nat.ltb_spec p (length row0)); [exact Hp|lia].
    + rewrite Nat.ltb_irrefl, Nat.eqb_refl. reflexivity.
Qed.

Lemma slot_same_fill m m' s q b p : row_change m m' s (fun l => upd l q (fun _ => Some b)) -> (slot_none m' s p <-> slot_none m s p /\ p <> q).
Proof.
  intro H. unfold slot_none. rewrite H, nth_error_upd, Nat.eqb_refl. split.
  - intros (row & Hn & Hp). destruct (nth_error (m_adj m) s) as [r0|]; [|discriminate]. cbn in Hn. inversion Hn; subst row.
    rewrite nth_error_upd in Hp. destruct (Nat.eqb_spec q p) as [->|Hne]; [destruct (nth_error r0 p); discriminate|]. split; [eauto|congruence].
  - intros [(row & Hn & Hp) Hne]. rewrite Hn. cbn. eexists. split; [reflexivity|]. rewrite nth_error_upd. destruct (Nat.eqb_spec q p); [congruence|exact Hp].
Qed.

(* add_bond_at_loc as a row change *)
Lemma at_loc_none_change m b m' : mg_add_bond_at_loc m b None = Ok m' -> row_change m m' (e_src b) (fun l => l ++ [Some b]).
Proof.
  unfold mg_add_bond_at_loc. destruct (lget (m_adj m) (e_src b)) as [out|] eqn:El; cbn [bind add_bond_at_loc]; [|discriminate]. intro E; inversion E; subst.
  unfold row_change. cbn [set_adj m_adj]. apply lget_In in El. clear -El. revert El. generalize (e_src b). induction (m_adj m) as [|x r IH]; intros [|s] El; cbn in El; try discriminate; cbn [upd]; [inversion El; reflexivity|f_equal; exact (IH _ El)].
Qed.

Lemma at_loc_fill_change m b q m' : slot_none m (e_src b) q -> mg_add_bond_at_loc m b (Some q) = Ok m' -> row_change m m' (e_src b) (fun l => upd l q (fun _ => Some b)).
Proof.
  intros (row & Hn & Hq). unfold mg_add_bond_at_loc, lget. rewrite Hn. cbn [bind add_bond_at_loc].
  assert (Hlt : q < length row) by (apply nth_error_Some; congruence).
  destruct (Nat.eqb_spec q (length row)); [lia|]. rewrite Hq. cbn [bind]. intro E; inversion E; subst.
  unfold row_change. cbn [set_adj m_adj]. clear -Hn. revert Hn. generalize (e_src b). induction (m_adj m) as [|x r IH]; intros [|s] Hn; cbn in Hn; try discriminate; cbn [upd]; [inversion Hn; reflexivity|f_equal; exact (IH _ Hn)].
Qed.

Lemma change_same m1 m2 m3 s f : row_change m1 m2 s f -> m_adj m3 = m_adj m2 -> row_change m1 m3 s f.
Proof. unfold row_change. congruence. Qed.

(* ---------- the invariant: empty slots = ring log ---------- *)
Record LInv (st : pstate) : Prop := {
  l_none : forall j p, slot_none (p_mol st) j p -> In (j, p) (map slot_of (p_rings st));
  l_slot : forall j p, In (j, p) (map slot_of (p_rings st)) -> slot_none (p_mol st) j p;
  l_uniq : NoDup (map slot_of (p_rings st))
}.

Lemma find_in_log l k tok j p : ring_log_find l k = Some (tok, j, p) -> In (j, p) (map slot_of l).
Proof.
  induction l as [|[k' v] r IH]; cbn [ring_log_find]; [discriminate|]. destruct (str_eqb k k'); [intro E; inversion E; subst; now left|intro E; right; now apply IH].
Qed.

Lemma remove_log l k tok j p : ring_log_find l k = Some (tok, j, p) -> NoDup (map slot_of l) ->
  forall x, In x (map slot_of (ring_log_remove l k)) <-> In x (map slot_of l) /\ x <> (j, p).
Proof.
  induction l as [|[k' [[tk jj] pp]] r IH]; cbn [ring_log_find ring_log_remove map slot_of]; [discriminate|]. intros E Hnd x. inversion Hnd as [|? ? Hnin Hnd']; subst.
  destruct (str_eqb k k').
  - inversion E; subst. cbn [In]. split; [intro H; split; [now right|intro Hx; subst; contradiction]|intros [[H|H] Hne]; [congruence|exact H]].
  - cbn [map In slot_of]. rewrite (IH E Hnd' x). pose proof (find_in_log _ _ _ _ _ E) as Hin. split.
    + intros [H|[H Hne]]; [split; [now left|intro Hx; apply Hnin; rewrite H, Hx; exact Hin]|split; [now right|exact Hne]].
    + intros [[H|H] Hne]; [now left|right; split; assumption].
Qed.

Lemma nodup_remove l k : NoDup (map slot_of l) -> NoDup (map slot_of (ring_log_remove l k)).
Proof.
  induction l as [|[k' v] r IH]; cbn [ring_log_remove map]; intro H; [constructor|]. inversion H as [|? ? Hnin Hnd]; subst.
  destruct (str_eqb k k'); [exact Hnd|]. cbn [map]. constructor; [|exact (IH Hnd)].
  intro Hin. apply Hnin. clear -Hin. induction r as [|[k2 v2] r2 IH2]; cbn [ring_log_remove map] in *; [exact Hin|].
  destruct (str_eqb k k2); [now right|]. destruct Hin as [H|H]; [now left|right; exact (IH2 H)].
Qed.

Lemma NoDup_snoc {A} (l : list A) x : NoDup l -> ~ In x l -> NoDup (l ++ [x]).
Proof.
  induction l as [|y r IH]; intros Hn Hx; cbn [app]; [constructor; [intros []|constructor]|]. inversion Hn; subst.
  constructor; [intro H; apply in_app_iff in H as [H|[H|[]]]; [contradiction|subst; apply Hx; now left]|apply IH; [assumption|intro H; apply Hx; now right]].
Qed.

(* same slots *)
Lemma linv_same st m' prevs branch cs i tok : (forall j p, slot_none m' j p <-> slot_none (p_mol st) j p) -> LInv st ->
  LInv {| p_mol := m'; p_i := i; p_tok := tok; p_prev := prevs; p_branch := branch; p_rings := p_rings st; p_chain_start := cs |}.
Proof. intros H [A B C]. constructor; cbn [p_mol p_rings]; [intros j p Hs; apply A; now apply H|intros j p Hs; apply H; now apply B|exact C]. Qed.

Lemma add_bond_slots m src dst o2 st at_ m' : mg_add_bond m src dst o2 st at_ = Ok m' -> forall j p, slot_none m' j p <-> slot_none m j p.
Proof.
  unfold mg_add_bond. destruct (negb _); [discriminate|].
  destruct (mg_add_bond_at_loc _ _ _) as [m1|] eqn:E1; cbn [bind]; [|discriminate].
  destruct (mg_add_count2 m1 _ _) as [m2|] eqn:E2; cbn [bind]; [|discriminate].
  destruct (mg_add_count2 m2 _ _) as [m3|] eqn:E3; cbn [bind]; [|discriminate].
  apply at_loc_none_change in E1. cbn [e_src] in E1. apply add_count_adj in E2, E3.
  assert (C3 : row_change m m3 src (fun l => l ++ [Some {| e_src := src; e_dst := dst; e_order2 := o2; e_stereo := st; e_ring := false; e_attr := at_ |}])) by (eapply change_same; [exact E1|congruence]).
  assert (S3 : forall j p, slot_none m3 j p <-> slot_none m j p).
  { intros j p. destruct (Nat.eq_dec j src) as [->|Hne]; [exact (slot_same_append_some _ _ _ _ _ C3)|exact (slot_other _ _ _ _ _ _ C3 Hne)]. }
  destruct (_ =? _)%Z; intro E; inversion E; subst; exact S3.
Qed.

Lemma attach_slots m tok a prev i m' idx i' : attach_atom m tok a prev i = Ok (m', idx, i') -> forall j p, slot_none m' j p <-> slot_none m j p.
Proof.
  unfold attach_atom. destruct (mg_add_atom m a _) as [m1 ix] eqn:Ea.
  assert (S1 : forall j p, slot_none m1 j p <-> slot_none m j p).
  { unfold mg_add_atom in Ea. inversion Ea; subst. intros j p. unfold slot_none. cbn [m_adj]. split.
    - intros (row & Hn & Hp). destruct (Nat.lt_ge_cases j (length (m_adj m))) as [Lt|G].
      + rewrite nth_error_app1 in Hn by exact Lt. eauto.
      + rewrite nth_error_app2 in Hn by exact G. destruct (j - length (m_adj m)) as [|k]; cbn in Hn; [inversion Hn; subst; destruct p; discriminate|destruct k; discriminate].
    - intros (row & Hn & Hp). exists row. split; [|exact Hp]. rewrite nth_error_app1; [exact Hn|]. apply nth_error_Some. congruence. }
  destruct (mg_add_attr_atom m1 ix _) as [m2|] eqn:E2; cbn [bind]; [|discriminate].
  apply add_attr_adj in E2. assert (S2 : forall j p, slot_none m2 j p <-> slot_none m j p) by (intros j p; rewrite <- S1; unfold slot_none; now rewrite E2).
  destruct prev as [src|]; [|intro E; inversion E; subst; exact S2].
  destruct (smiles_to_bond2 (t_bond tok)) as [o2 st]. destruct (mg_get_atom m2 src); cbn [bind]; [|discriminate].
  destruct (mg_add_bond m2 _ _ _ _ _) as [m3|] eqn:E3; cbn [bind]; [|discriminate].
  intro E; inversion E; subst. intros j p. rewrite (add_bond_slots _ _ _ _ _ _ _ E3 j p). apply S2.
Qed.

Lemma make_ring_slots m lt la lp rt ra m' : slot_none m la lp -> make_ring_bonds m lt la lp rt ra = Ok m' ->
  forall j p, slot_none m' j p <-> slot_none m j p /\ (j, p) <> (la, lp).
Proof.
  intros Hs. unfold make_ring_bonds. destruct (Nat.eqb_spec la ra) as [|Hne]; [discriminate|]. destruct (mg_has_bond _ _ _); [discriminate|].
  match goal with |- (let '(b0, b1) := ?X in _) = _ -> _ => destruct X as [b0 b1] end.
  destruct (negb _); [discriminate|].
  destruct (smiles_to_bond2 (t_bond lt)) as [lo ls]. destruct (smiles_to_bond2 (t_bond rt)) as [ro rs].
  destruct (mg_get_atom m la); cbn [bind]; [|discriminate]. destruct (mg_get_atom m ra); cbn [bind]; [|discriminate].
  match goal with |- (let '(x, y) := ?X in _) = _ -> _ => destruct X as [lo' ro'] end.
  unfold mg_add_ring_bond.
  destruct (mg_add_bond_at_loc m _ (Some lp)) as [m1|] eqn:E1; cbn [bind]; [|discriminate].
  destruct (mg_add_bond_at_loc m1 _ None) as [m2|] eqn:E2; cbn [bind]; [|discriminate].
  destruct (mg_add_count2 m2 _ _) as [m3|] eqn:E3; cbn [bind]; [|discriminate].
  destruct (mg_add_count2 m3 _ _) as [m4|] eqn:E4; cbn [bind]; [|discriminate].
  destruct (lupd (m_ringflags m4) _ _) as [f1|]; cbn [bind]; [|discriminate].
  destruct (lupd f1 _ _) as [f2|]; cbn [bind]; [|discriminate].
  apply at_loc_fill_change in E1; [|exact Hs]. apply at_loc_none_change in E2. cbn [e_src] in E1, E2. apply add_count_adj in E3, E4.
  assert (S4 : forall j p, slot_none m4 j p <-> slot_none m j p /\ (j, p) <> (la, lp)).
  { intros j p. assert (X : slot_none m4 j p <-> slot_none m2 j p) by (unfold slot_none; now rewrite E4, E3). rewrite X.
    assert (Y : slot_none m2 j p <-> slot_none m1 j p).
    { destruct (Nat.eq_dec j ra) as [->|H]; [exact (slot_same_append_some _ _ _ _ _ E2)|exact (slot_other _ _ _ _ _ _ E2 H)]. }
    rewrite Y. destruct (Nat.eq_dec j la) as [->|H].
    - rewrite (slot_same_fill _ _ _ _ _ _ E1). split; intros [A B]; (split; [exact A|congruence]).
    - rewrite (slot_other _ _ _ _ _ _ E1 H). split; [intro A; split; [exact A|congruence]|tauto]. }
  destruct (_ =? _)%Z; intro E; inversion E; subst; exact S4.
Qed.

Lemma derive_loop_linv : forall ts st st' rest, LInv st -> derive_loop ts st = Ok (st', rest) -> LInv st'.
Proof.
  induction ts as [|tok r IH]; intros st st' rest Hi E; cbn [derive_loop] in E; [inversion E; subst; exact Hi|].
  destruct (p_prev st) as [|prev below]; [discriminate|].
  destruct (t_type tok).
  - destruct (smiles_to_atom (t_text tok)) as [[a|]|]; cbn [bind] in E; try discriminate.
    destruct (attach_atom _ _ _ _ _) as [[[m' idx] i']|] eqn:Eat; cbn [bind] in E; [|discriminate].
    apply IH in E; [exact E|]. exact (linv_same st m' _ _ _ _ _ (attach_slots _ _ _ _ _ _ _ _ Eat) Hi).
  - destruct (p_chain_start st); [discriminate|].
    destruct (str_eqb _ _); [apply IH in E; [exact E|]; exact (linv_same st _ _ _ _ _ _ (fun j p => iff_refl _) Hi)|].
    destruct (p_branch st); [discriminate|]. apply IH in E; [exact E|]. exact (linv_same st _ _ _ _ _ _ (fun j p => iff_refl _) Hi).
  - destruct (p_chain_start st); [discriminate|]. destruct Hi as [A B C].
    destruct (ring_log_find _ _) as [[[ltok latom] lpos]|] eqn:Ef.
    + destruct (atom_index prev) as [ratom|]; cbn [bind] in E; [|discriminate].
      destruct (make_ring_bonds _ _ _ _ _ _) as [m'|] eqn:Er; cbn [bind] in E; [|discriminate].
      pose proof (find_in_log _ _ _ _ _ Ef) as Hin. pose proof (make_ring_slots _ _ _ _ _ _ _ (B _ _ Hin) Er) as S.
      apply IH in E; [exact E|]. constructor; cbn [p_mol p_rings].
      * intros j p Hs. apply (remove_log _ _ _ _ _ Ef C). apply S in Hs as [H1 H2]. split; [exact (A _ _ H1)|exact H2].
      * intros j p Hs. apply (remove_log _ _ _ _ _ Ef C) in Hs as [H1 H2]. apply S. split; [exact (B _ _ H1)|exact H2].
      * exact (nodup_remove _ _ C).
    + destruct (atom_index prev) as [src|]; cbn [bind] in E; [|discriminate].
      destruct (mg_add_placeholder_bond _ _) as [[m' lpos]|] eqn:Epl; cbn [bind] in E; [|discriminate].
      unfold mg_add_placeholder_bond in Epl. destruct (lget (m_adj (p_mol st)) src) as [out|] eqn:El; cbn [bind] in Epl; [|discriminate]. inversion Epl; subst m' lpos; clear Epl.
      apply lget_In in El.
      assert (Ch : row_change (p_mol st) (set_adj (p_mol st) (upd (m_adj (p_mol st)) src (fun l => l ++ [None]))) src (fun l => l ++ [None])) by reflexivity.
      assert (Fresh : ~ In (src, length out) (map slot_of (p_rings st))).
      { intro H. destruct (B _ _ H) as (row & Hn & Hp). rewrite El in Hn. inversion Hn; subst row. assert (length out < length out) by (apply nth_error_Some; congruence). lia. }
      apply IH in E; [exact E|]. constructor; cbn [p_mol p_rings]; rewrite map_app; cbn [map slot_of].
      * intros j p Hs. apply in_app_iff. destruct (Nat.eq_dec j src) as [->|Hne].
        -- apply (slot_same_append_none _ _ _ _ _ Ch El) in Hs as [Hs| ->]; [left; exact (A _ _ Hs)|right; now left].
        -- left. apply A. now apply (slot_other _ _ _ _ _ _ Ch Hne).
      * intros j p Hs. apply in_app_iff in Hs as [Hs|[Hs|[]]].
        -- specialize (B _ _ Hs). destruct (Nat.eq_dec j src) as [->|Hne]; [apply (slot_same_append_none _ _ _ _ _ Ch El); now left|now apply (slot_other _ _ _ _ _ _ Ch Hne)].
        -- inversion Hs; subst. apply (slot_same_append_none _ _ _ _ _ Ch El). now right.
      * apply NoDup_snoc; [exact C|exact Fresh].
  - inversion E; subst. exact (linv_same st _ _ _ _ _ _ (fun j p => iff_refl _) Hi).
Qed.

(* ---------- no empty slot is left when the reader accepts ---------- *)
Definition NoNone (m : emol) : Prop := forall j p, ~ slot_none m j p.

Lemma fragments_nonone : forall fuel m ts i m', NoNone m -> fragments_loop fuel m ts i = Ok m' -> NoNone m'.
Proof.
  induction fuel as [|f IH]; intros m ts i m' Hm E; [discriminate|]. cbn [fragments_loop] in E.
  destruct ts as [|t r]; [inversion E; subst; exact Hm|].
  destruct (derive_mol_from_tokens m (t :: r) i) as [[[m1 i1] rest]|] eqn:Ed; cbn [bind] in E; [|discriminate].
  apply IH in E; [exact E|]. unfold derive_mol_from_tokens in Ed.
  destruct (derive_loop (t :: r) _) as [[st rest']|] eqn:El; cbn [bind] in Ed; [|discriminate].
  apply derive_loop_linv in El.
  - destruct (_ =? _); [discriminate|]. destruct (p_branch st); [|discriminate]. destruct (p_rings st) eqn:Er; [|discriminate].
    inversion Ed; subst. intros j p Hs. destruct El as [A _ _]. specialize (A j p Hs). rewrite Er in A. destruct A.
  - constructor; cbn [p_mol p_rings map]; [intros j p Hs; exact (Hm j p Hs)|intros j p []|constructor].
Qed.

Theorem parsed_nonone smiles attributable m : smiles_to_mol smiles attributable = Ok m -> NoNone m.
Proof.
  unfold smiles_to_mol. destruct smiles as [|c s]; [discriminate|].
  destruct (tokenize_smiles (c :: s)) as [ts|]; cbn [bind]; [|discriminate].
  apply fragments_nonone. intros j p (row & Hn & _). destruct j; discriminate.
Qed.

(* kekulize rewrites orders inside the slots, never the slots *)
Lemma set_edge_slot l d o p : nth_error (set_edge_order2 l d o) p = Some None <-> nth_error l p = Some None.
Proof.
  unfold set_edge_order2. rewrite nth_error_map. destruct (nth_error l p) as [[e|]|]; cbn [option_map]; [|tauto|tauto].
  destruct (_ =? _); split; discriminate.
Qed.

Lemma nonone_upd m i d o : NoNone m -> NoNone (set_adj m (upd (m_adj m) i (fun l => set_edge_order2 l d o))).
Proof.
  intros Hm j p (row & Hn & Hp). cbn [set_adj m_adj] in Hn. rewrite nth_error_upd in Hn. destruct (Nat.eqb_spec i j) as [<-|Hne]; [|exact (Hm j p (ex_intro _ row (conj Hn Hp)))].
  destruct (nth_error (m_adj m) i) as [r0|] eqn:E0; [|discriminate]. cbn in Hn. inversion Hn; subst row. apply set_edge_slot in Hp. exact (Hm i p (ex_intro _ r0 (conj E0 Hp))).
Qed.

Lemma nonone_same m m' : m_adj m' = m_adj m -> NoNone m -> NoNone m'.
Proof. unfold NoNone, slot_none. intros ->. auto. Qed.

Lemma update_order_nonone m a b o m' : NoNone m -> mg_update_bond_order m a b o = Ok m' -> NoNone m'.
Proof.
  intro Hm. unfold mg_update_bond_order. destruct (negb _); [discriminate|].
  destruct (mg_get_dirbond m _ _) as [ab|]; cbn [bind]; [|discriminate].
  destruct (_ =? _)%Z; [intro E; inversion E; subst; exact Hm|].
  match goal with |- (do adj1 <- ?X; _) = _ -> _ => destruct X as [adj1|] eqn:Ead end; cbn [bind]; [|discriminate].
  assert (N1 : NoNone (set_adj m adj1)).
  { destruct (e_ring ab).
    - destruct (mg_get_dirbond m _ _); cbn [bind] in Ead; [|discriminate]. inversion Ead; subst.
      exact (nonone_upd _ (Nat.max a b) (Nat.min a b) o (nonone_upd m (Nat.min a b) (Nat.max a b) o Hm)).
    - inversion Ead; subst. exact (nonone_upd m _ _ o Hm). }
  destruct (mg_add_count2 (set_adj m adj1) _ _) as [m1|] eqn:E1; cbn [bind]; [|discriminate].
  intro E2. apply add_count_adj in E1, E2. apply (nonone_same (set_adj m adj1)); [congruence|exact N1].
Qed.

Lemma single_bonds_nonone : forall adjs m node m', NoNone m -> set_single_bonds m node adjs = Ok m' -> NoNone m'.
Proof.
  induction adjs as [|x r IH]; intros m node m' Hm E; cbn [set_single_bonds] in E; [inversion E; subst; exact Hm|].
  destruct (mg_update_bond_order m node x 2) as [m1|] eqn:E1; cbn [bind] in E; [|discriminate].
  exact (IH _ _ _ (update_order_nonone _ _ _ _ _ Hm E1) E).
Qed.
Lemma double_bonds_nonone : forall pairs m l2n m', NoNone m -> set_double_bonds m l2n pairs = Ok m' -> NoNone m'.
Proof.
  induction pairs as [|[i oj] r IH]; intros m l2n m' Hm E; cbn [set_double_bonds] in E; [inversion E; subst; exact Hm|].
  destruct (lget l2n i); cbn [bind] in E; [|discriminate]. destruct oj as [j|]; [|discriminate].
  destruct (lget l2n j); cbn [bind] in E; [|discriminate].
  destruct (mg_update_bond_order m _ _ 4) as [m1|] eqn:E1; cbn [bind] in E; [|discriminate].
  exact (IH _ _ _ (update_order_nonone _ _ _ _ _ Hm E1) E).
Qed.
Lemma dearomatize_nonone : forall ds m m', NoNone m -> dearomatize m ds = Ok m' -> NoNone m'.
Proof.
  induction ds as [|[node adjs] r IH]; intros m m' Hm E; cbn [dearomatize] in E; [inversion E; subst; exact Hm|].
  destruct (set_single_bonds m node adjs) as [m1|] eqn:E1; cbn [bind] in E; [|discriminate].
  destruct (lupd (m_atoms m1) _ _) as [atoms'|]; cbn [bind] in E; [|discriminate].
  destruct (lupd (m_counts2 m1) _ _) as [counts'|]; cbn [bind] in E; [|discriminate].
  apply IH in E; [exact E|]. exact (single_bonds_nonone _ _ _ _ Hm E1).
Qed.
Theorem kekulize_nonone m m' : NoNone m -> kekulize m = Ok (Some m') -> NoNone m'.
Proof.
  intros Hm. unfold kekulize. destruct (ds_is_empty _); [intro E; inversion E; subst; exact Hm|].
  destruct (any_bad_element _ _) as [bad|]; cbn [bind]; [|discriminate]. destruct bad; [discriminate|].
  destruct (kept_nodes_of _ _) as [kept|]; cbn [bind]; [|discriminate].
  destruct (pruned_ds_of _ _ _) as [pruned|]; cbn [bind]; [|discriminate].
  destruct (find_perfect_matching pruned) as [[mt|]|]; cbn [bind]; try discriminate.
  destruct (dearomatize m _) as [m1|] eqn:E1; cbn [bind]; [|discriminate].
  destruct (set_double_bonds m1 _ _) as [m2|] eqn:E2; cbn [bind]; [|discriminate].
  intro E; inversion E; subst. exact (double_bonds_nonone _ _ _ _ (dearomatize_nonone _ _ _ Hm E1) E2).
Qed.

(* ---------- no AttributeError in what follows ---------- *)
Definition noattr (e : exn) : Prop := e <> AttributeError.

Lemma all_some_full : forall raw, (forall p, nth_error raw p <> Some None) -> exists bonds, Encoder.all_some raw = Ok bonds.
Proof.
  induction raw as [|[b|] r IH]; intro H; cbn [Encoder.all_some]; [eauto| |exfalso; exact (H 0 eq_refl)].
  destruct (IH (fun p => H (S p))) as [t ->]. cbn [bind]. eauto.
Qed.
Lemma partition_full : forall raw i, (forall p, nth_error raw p <> Some None) -> exists x, partition_bonds raw i = Ok x.
Proof.
  induction raw as [|[b|] r IH]; intros i H; cbn [partition_bonds]; [eauto| |exfalso; exact (H 0 eq_refl)].
  destruct (IH (S i) (fun p => H (S p))) as [[[p0 p1] p2] ->]. cbn [bind]. destruct (negb (e_ring b)); [eauto|]. destruct (_ <? _); eauto.
Qed.

Lemma lget_noattr {A} (l : list A) i e : lget l i = Err e -> noattr e.
Proof. unfold lget. destruct (nth_error l i); [discriminate|]. intro H; inversion H; discriminate. Qed.
Lemma ebond_noattr b e : ebond_to_smiles b = Err e -> noattr e.
Proof. unfold ebond_to_smiles. repeat destruct (_ =? _)%Z; try discriminate. intro H; inversion H; discriminate. Qed.
Lemma bond_sel_noattr b sh e : bond_to_selfies b sh = Err e -> noattr e.
Proof. unfold bond_to_selfies. destruct (_ && _); [discriminate|apply ebond_noattr]. Qed.
Lemma atom_smiles_noattr a br e : atom_to_smiles a br = Err e -> noattr e.
Proof.
  unfold atom_to_smiles. destruct (a_aromatic a); [intro H; inversion H; discriminate|].
  destruct (a_isotope a), (a_chirality a), (a_hcount a), (a_charge a =? 0)%Z; discriminate.
Qed.
Lemma atom_sel_noattr b a e : atom_to_selfies b a = Err e -> noattr e.
Proof.
  unfold atom_to_selfies. destruct (a_aromatic a); [intro H; inversion H; discriminate|].
  destruct b as [b0|]; cbn [bind].
  - destruct (bond_to_selfies b0 true) as [bc|e1] eqn:Eb; cbn [bind]; [|intro H; inversion H; subst; exact (bond_sel_noattr _ _ _ Eb)].
    destruct (atom_to_smiles a false) as [t|e2] eqn:Ea; cbn [bind]; [discriminate|intro H; inversion H; subst; exact (atom_smiles_noattr _ _ _ Ea)].
  - destruct (atom_to_smiles a false) as [t|e2] eqn:Ea; cbn [bind]; [discriminate|intro H; inversion H; subst; exact (atom_smiles_noattr _ _ _ Ea)].
Qed.
Lemma dirbond_noattr m s d e : mg_get_dirbond m s d = Err e -> noattr e.
Proof. unfold mg_get_dirbond. destruct (mg_find_dirbond m s d); [discriminate|]. intro H; inversion H; discriminate. Qed.
Lemma syms_noattr : forall ds e, syms_of_digits ds = Err e -> noattr e.
Proof.
  induction ds as [|d r IH]; intros e; cbn [syms_of_digits]; [discriminate|].
  destruct (nth_error index_alphabet (N.to_nat d)); [|intro H; inversion H; discriminate].
  destruct (syms_of_digits r) as [t|e1] eqn:E1; cbn [bind]; [discriminate|]. intro H; inversion H; subst. exact (IH _ eq_refl).
Qed.
Lemma index_noattr idx e : get_selfies_from_index idx = Err e -> noattr e.
Proof.
  unfold get_selfies_from_index. destruct (idx <? 0)%Z; [intro H; inversion H; discriminate|].
  destruct index_alphabet; [intro H; inversion H; discriminate|]. destruct (_ =? _)%N; [discriminate|apply syms_noattr].
Qed.
Lemma ring_sel_noattr lb rb e : ring_bonds_to_selfies lb rb = Err e -> noattr e.
Proof.
  unfold ring_bonds_to_selfies. destruct (negb (_ =? _)%Z); [intro H; inversion H; discriminate|].
  destruct (_ || _); [apply bond_sel_noattr|discriminate].
Qed.

Section Walk.
Variable m : emol.
Hypothesis Hnn : NoNone m.

Lemma out_loop_noattr (walk : ebond -> nat -> nat -> res (list str * list amap)) :
  (forall b ai o e, walk b ai o = Err e -> noattr e) ->
  forall bonds aidx off e, out_loop m walk bonds aidx off = Err e -> noattr e.
Proof.
  intro Hw. induction bonds as [|b rest IH]; intros aidx off e E; cbn [out_loop] in E; [discriminate|].
  destruct (e_ring b).
  - destruct (e_src b <? e_dst b); [exact (IH _ _ _ E)|].
    destruct (mg_get_dirbond m (e_dst b) (e_src b)) as [rv|e1] eqn:Erv; cbn [bind] in E; [|inversion E; subst; exact (dirbond_noattr _ _ _ _ Erv)].
    destruct (get_selfies_from_index _) as [Q|e1] eqn:EQ; cbn [bind] in E; [|inversion E; subst; exact (index_noattr _ _ EQ)].
    destruct (ring_bonds_to_selfies rv b) as [rs|e1] eqn:Er; cbn [bind] in E; [|inversion E; subst; exact (ring_sel_noattr _ _ _ Er)].
    match type of E with (do _ <- ?X; _) = _ => destruct X as [[ts1 ms1]|e1] eqn:E1 end; cbn [bind] in E; [discriminate|].
    inversion E; subst. exact (IH _ _ _ E1).
  - destruct rest as [|b2 rest2]; [exact (Hw _ _ _ _ E)|].
    destruct (walk b off 0) as [[branch bmaps]|e1] eqn:Eb; cbn [bind] in E; [|inversion E; subst; exact (Hw _ _ _ _ Eb)].
    destruct (get_selfies_from_index _) as [Q|e1] eqn:EQ; cbn [bind] in E; [|inversion E; subst; exact (index_noattr _ _ EQ)].
    destruct (bond_to_selfies b false) as [bs|e1] eqn:Ebs; cbn [bind] in E; [|inversion E; subst; exact (bond_sel_noattr _ _ _ Ebs)].
    match type of E with (do _ <- ?X; _) = _ => destruct X as [[ts1 ms1]|e1] eqn:E1 end; cbn [bind] in E; [discriminate|].
    inversion E; subst. exact (IH _ _ _ E1).
Qed.

Lemma walk_noattr : forall fuel b curr aidx off e, fragment_walk fuel m b curr aidx off = Err e -> noattr e.
Proof.
  induction fuel as [|f IH]; intros b curr aidx off e E; [inversion E; discriminate|]. cbn [fragment_walk] in E.
  destruct (mg_get_atom m curr) as [[a at_]|e1] eqn:Ea; cbn [bind fst snd] in E; [|inversion E; subst; exact (lget_noattr _ _ _ Ea)].
  destruct (atom_to_selfies b a) as [tok|e1] eqn:Et; cbn [bind fst] in E; [|inversion E; subst; exact (atom_sel_noattr _ _ _ Et)].
  destruct (mg_get_out_dirbonds m curr) as [raw|e1] eqn:Eraw; cbn [bind] in E; [|inversion E; subst; exact (lget_noattr _ _ _ Eraw)].
  unfold mg_get_out_dirbonds in Eraw. apply lget_In in Eraw.
  destruct (all_some_full raw (fun p Hp => Hnn curr p (ex_intro _ raw (conj Eraw Hp)))) as [bonds Eall]. rewrite Eall in E. cbn [bind] in E.
  match type of E with (do _ <- ?X; _) = _ => destruct X as [[ts1 ms1]|e1] eqn:E1 end; cbn [bind] in E; [discriminate|].
  inversion E; subst e1; clear E. exact (out_loop_noattr _ (fun b0 ai o e0 H => IH _ _ _ _ _ H) _ _ _ _ E1).
Qed.

Lemma encode_roots_noattr : forall roots aidx e, encode_roots m roots aidx = Err e -> noattr e.
Proof.
  induction roots as [|r rest IH]; intros aidx e E; cbn [encode_roots] in E; [discriminate|].
  destruct (fragment_to_selfies m r aidx) as [[derived mp]|e1] eqn:Ef; cbn [bind] in E.
  - destruct (encode_roots m rest _) as [[frags' maps']|e1] eqn:Er; cbn [bind] in E; [discriminate|]. inversion E; subst. exact (IH _ _ Er).
  - inversion E; subst. unfold fragment_to_selfies in Ef. exact (walk_noattr _ _ _ _ _ _ Ef).
Qed.

Lemma invert_pass_noattr : forall atoms idx e, invert_pass m atoms idx = Err e -> noattr e.
Proof.
  induction atoms as [|[a at_] r IH]; intros idx e E; cbn [invert_pass] in E; [discriminate|].
  match type of E with (do a' <- ?X; _) = _ => destruct X as [a'|e1] eqn:Ea end; cbn [bind] in E.
  - destruct (invert_pass m r (S idx)) as [rest|e1] eqn:Er; cbn [bind] in E; [discriminate|inversion E; subst; exact (IH _ _ Er)].
  - inversion E; subst e1; clear E. destruct (a_chirality a); [|discriminate].
    destruct (mg_has_out_ring_bond m idx) as [flag|e1] eqn:Ef; cbn [bind] in Ea; [|inversion Ea; subst; exact (lget_noattr _ _ _ Ef)].
    destruct flag; [|discriminate].
    destruct (should_invert_chirality m idx) as [inv|e1] eqn:Es; cbn [bind] in Ea; [discriminate|]. inversion Ea; subst e1.
    unfold should_invert_chirality in Es. destruct (mg_get_out_dirbonds m idx) as [ob|e2] eqn:Eo; cbn [bind] in Es; [|inversion Es; subst; exact (lget_noattr _ _ _ Eo)].
    unfold mg_get_out_dirbonds in Eo. apply lget_In in Eo.
    destruct (partition_full ob 0 (fun p Hp => Hnn idx p (ex_intro _ ob (conj Eo Hp)))) as [[[p0 p1] p2] Ep]. rewrite Ep in Es. cbn [bind] in Es. discriminate.
Qed.
End Walk.

Lemma constraint_errors_noattr capf m : (forall el c e, capf el c = Err e -> noattr e) -> forall atoms idx e,
  bond_constraint_errors capf m atoms idx = Err e -> noattr e.
Proof.
  intro Hc. induction atoms as [|[a at_] r IH]; intros idx e E; cbn [bond_constraint_errors] in E; [discriminate|].
  unfold bonding_capacity_c in E. destruct (capf (a_element a) (a_charge a)) as [c|e1] eqn:Ec; cbn [bind] in E; [|inversion E; subst; exact (Hc _ _ _ Ec)].
  destruct (mg_get_bond_count2 m idx) as [c2|e1] eqn:Eb; cbn [bind] in E; [|inversion E; subst; exact (lget_noattr _ _ _ Eb)].
  destruct (_ <? _)%Z; [|exact (IH _ _ E)].
  destruct (atom_to_smiles a true) as [x|e1] eqn:Ea; cbn [bind] in E; [|inversion E; subst; exact (atom_smiles_noattr _ _ _ Ea)].
  destruct (bond_constraint_errors capf m r (S idx)) as [x2|e1] eqn:Er; cbn [bind] in E; [discriminate|inversion E; subst; exact (IH _ _ Er)].
Qed.
Lemma capacity_noattr T el c e : get_bonding_capacity T el c = Err e -> noattr e.
Proof. unfold get_bonding_capacity. destruct (assoc _ T); [discriminate|]. destruct (assoc _ T); [discriminate|]. intro H; inversion H; discriminate. Qed.

Theorem encoder_after_kekulize_no_attribute_error T smiles strict attribute m0 m1 e :
  smiles_to_mol smiles attribute = Ok m0 -> kekulize m0 = Ok (Some m1) ->
  encoder T smiles strict attribute = Err e -> noattr e.
Proof.
  intros Ep Ek E. unfold encoder, encoder_c in E. rewrite Ep in E. unfold encode_mol in E. rewrite Ek in E. cbn [bind] in E.
  pose proof (kekulize_nonone _ _ (parsed_nonone _ _ _ Ep) Ek) as N1.
  match type of E with (do _ <- ?X; _) = _ => destruct X as [u|e1] eqn:Ec end; cbn [bind] in E.
  - destruct (invert_pass m1 (m_atoms m1) 0) as [atoms'|e1] eqn:Ei; cbn [bind] in E; [|inversion E; subst; exact (invert_pass_noattr _ N1 _ _ _ Ei)].
    destruct (encode_roots (set_atoms m1 atoms') _ 0) as [[frags maps]|e1] eqn:Er; cbn [bind] in E; [discriminate|].
    inversion E; subst. exact (encode_roots_noattr (set_atoms m1 atoms') N1 _ _ _ Er).
  - inversion E; subst e1; clear E. destruct strict; [|discriminate]. unfold check_bond_constraints in Ec.
    destruct (bond_constraint_errors _ m1 (m_atoms m1) 0) as [bad|e1] eqn:Eb; cbn [bind] in Ec.
    + destruct bad; [inversion Ec; discriminate|discriminate].
    + inversion Ec; subst. exact (constraint_errors_noattr _ _ (capacity_noattr T) _ _ _ Eb).
Qed.
