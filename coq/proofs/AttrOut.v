(* AttrOut.v — C17: every attribution entry's output token is found in the output string ending at
   the reported character index. *)
From Coq Require Import Ascii String List Arith ZArith NArith Bool Lia.
Import ListNotations.
From Selfies Require Import Base Generated Lex Atoms Grammar Decoder BaseFacts.
Local Open Scope Z_scope.

(* tok occupies the characters i-|tok|+1 .. i of out *)
Definition ends_at (out : str) (i : Z) (tok : str) : Prop :=
  exists pre suf, out = pre ++ tok ++ suf /\ i = Z.of_nat (length pre + length tok) - 1 /\ tok <> [].

Lemma maps_of_spec : forall evs pos base PRE SUF, length PRE = (base + pos)%nat ->
  forall a, In a (maps_of evs pos base) -> ends_at (PRE ++ concat (map w_tok evs) ++ SUF) (am_index a) (am_token a).
Proof.
  induction evs as [|e r IH]; intros pos base PRE SUF HP a Ha; [destruct Ha|].
  cbn [maps_of] in Ha. cbn [map concat].
  assert (Hrest : In a (maps_of r (pos + length (w_tok e)) base) ->
                  ends_at (PRE ++ (w_tok e ++ concat (map w_tok r)) ++ SUF) (am_index a) (am_token a)).
  { intro H. specialize (IH (pos + length (w_tok e))%nat base (PRE ++ w_tok e) SUF ltac:(rewrite app_length; lia) a H).
    now rewrite <- !app_assoc in IH |- *. }
  destruct (w_kind e); [| |exact (Hrest Ha)].
  - destruct (w_tok e) as [|c t] eqn:Et; [exact (Hrest Ha)|]. destruct Ha as [<-|Ha]; [|rewrite <- Et in *; exact (Hrest Ha)].
    cbn [am_index am_token]. exists PRE, (concat (map w_tok r) ++ SUF). split; [now rewrite <- !app_assoc|]. split; [|discriminate]. lia.
  - destruct (w_tok e) as [|c t] eqn:Et; [exact (Hrest Ha)|]. destruct Ha as [<-|Ha]; [|rewrite <- Et in *; exact (Hrest Ha)].
    cbn [am_index am_token]. exists PRE, (concat (map w_tok r) ++ SUF). split; [now rewrite <- !app_assoc|]. split; [|discriminate]. lia.
Qed.

Lemma write_roots_spec m : forall rs log base frags maps, write_roots m rs log base = Ok (frags, maps) ->
  forall PRE, length PRE = base ->
  forall a, In a maps -> ends_at (PRE ++ join (lit ".") frags) (am_index a) (am_token a).
Proof.
  induction rs as [|r rest IH]; intros log base frags maps E PRE HP a Ha; cbn [write_roots] in E.
  - inversion E as [[E1 E2]]; subst maps. destruct Ha.
  - destruct (write_atom _ m r log) as [[evs log2]|]; cbn [bind] in E; [|discriminate].
    destruct (write_roots m rest log2 _) as [[frags' maps']|] eqn:Er; cbn [bind] in E; [|discriminate]. inversion E as [[E1 E2]]; clear E; subst frags maps.
    apply in_app_iff in Ha as [Ha|Ha].
    + destruct frags' as [|f2 fr]; cbn [join].
      * pose proof (maps_of_spec evs 0 base PRE [] ltac:(lia) a Ha) as H. now rewrite app_nil_r in H.
      * exact (maps_of_spec evs 0 base PRE (lit "." ++ join (lit ".") (f2 :: fr)) ltac:(lia) a Ha).
    + destruct frags' as [|f2 fr].
      * (* no further fragment: no further maps *)
        destruct rest as [|r2 rest2]; [cbn in Er; inversion Er as [Eq]; rewrite <- Eq in Ha; destruct Ha|].
        cbn [write_roots] in Er. destruct (write_atom _ m r2 log2) as [[e2 l2]|]; cbn [bind] in Er; [|discriminate].
        destruct (write_roots m rest2 l2 _) as [[f3 m3]|]; cbn [bind] in Er; discriminate.
      * specialize (IH _ _ _ _ Er (PRE ++ concat (map w_tok evs) ++ lit ".") ltac:(rewrite !app_length; cbn; lia) a Ha).
        change (join (lit ".") (concat (map w_tok evs) :: f2 :: fr)) with (concat (map w_tok evs) ++ lit "." ++ join (lit ".") (f2 :: fr)).
        rewrite <- !app_assoc in IH. exact IH.
Qed.

Theorem output_tokens_located m out maps : mol_to_smiles m = Ok (out, maps) ->
  forall a, In a maps -> ends_at out (am_index a) (am_token a).
Proof.
  unfold mol_to_smiles. intro E. destruct (write_roots m (roots m) [] 0) as [[frags mp]|] eqn:Ew; cbn [bind] in E; [|discriminate].
  inversion E; subst. intros a Ha. exact (write_roots_spec m _ _ _ _ _ Ew [] eq_refl a Ha).
Qed.
