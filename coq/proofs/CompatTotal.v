(* CompatTotal.v — C08 / C01 / C17 with compatible=True: the modernising tokenizer raises nothing but
   DecoderError and hands the decoder tokens whose digit fields int() accepts, for every string whose
   symbols are within the interpreter's int() digit limit. *)
From Coq Require Import Ascii String List Arith ZArith NArith Bool Lia.
Import ListNotations.
From Selfies Require Import Base Generated Lex Atoms Grammar Compat Decoder BaseFacts DecoderInv TokFacts DecFacts ParserTotal.
Local Open Scope N_scope.

(* ---------- printed decimals are no longer than what was parsed ---------- *)
Lemma digits_fuel_len base : 2 <= base -> forall fuel n acc (k : nat), (1 <= k)%nat -> n < base ^ N.of_nat k ->
  (length (digits_fuel fuel base n acc) <= length acc + k)%nat.
Proof.
  intro Hb. induction fuel as [|f IH]; intros n acc k Hk Hn; cbn [digits_fuel]; [lia|].
  destruct (N.eqb_spec (n / base) 0) as [E|NE]; [cbn [length]; lia|].
  destruct k as [|[|k]]; [lia| |].
  - exfalso. apply NE. apply N.div_small. change (N.of_nat 1) with 1 in Hn. now rewrite N.pow_1_r in Hn.
  - specialize (IH (n / base) ((n mod base) :: acc) (S k) ltac:(lia)). cbn [length] in IH.
    assert (H : n / base < base ^ N.of_nat (S k)).
    { apply N.div_lt_upper_bound; [lia|]. rewrite <- N.pow_succ_r'. now rewrite <- Nnat.Nat2N.inj_succ. }
    specialize (IH H). lia.
Qed.

Lemma str_of_N_len n (k : nat) : (1 <= k)%nat -> n < 10 ^ N.of_nat k -> (length (str_of_N n) <= k)%nat.
Proof.
  intros Hk Hn. unfold str_of_N, digits. rewrite map_length.
  pose proof (digits_fuel_len 10 ltac:(lia) (S (N.to_nat (N.log2 n))) n [] k Hk Hn) as H. cbn [length] in H. lia.
Qed.

Lemma decimal_val_le9 c d : decimal_val c = Some d -> d <= 9.
Proof.
  unfold decimal_val. induction decimal_zeros as [|z r IH]; cbn [decimal_val_in]; [discriminate|].
  destruct ((z <=? c) && (c <=? z + 9)) eqn:E; [|exact IH].
  intro H. injection H as <-. apply andb_true_iff in E as [A B]. apply N.leb_le in A, B. lia.
Qed.

Lemma int_of_decimals_lt s n : int_of_decimals s = Ok n -> n < 10 ^ N.of_nat (length s).
Proof.
  unfold int_of_decimals. destruct (_ && _); [discriminate|].
  assert (G : forall r acc, (fix go (s : str) (acc : N) : res N :=
       match s with
       | [] => Ok acc
       | c :: r => match decimal_val c with
                   | Some d => go r (acc * 10 + d)%N
                   | None => Err ValueError
                   end
       end) r acc = Ok n -> n < (acc + 1) * 10 ^ N.of_nat (length r)).
  { induction r as [|c r IH]; intros acc E.
    - injection E as <-. cbn [length]. change (N.of_nat 0) with 0. rewrite N.pow_0_r. lia.
    - destruct (decimal_val c) as [d|] eqn:Ed; [|discriminate]. apply IH in E. apply decimal_val_le9 in Ed.
      cbn [length]. rewrite Nnat.Nat2N.inj_succ, N.pow_succ_r'. nia. }
  intro E. apply G in E. lia.
Qed.

Lemma printed_int_len s n : s <> [] -> int_of_decimals s = Ok n -> (length (str_of_N n) <= length s)%nat.
Proof. intros Hs E. apply str_of_N_len; [destruct s; [contradiction|cbn; lia]|now apply int_of_decimals_lt]. Qed.

Lemma printed_nat_len (k : nat) : (1 <= k)%nat -> (length (str_of_N (N.of_nat k)) <= k)%nat.
Proof. intro Hk. apply str_of_N_len; [exact Hk|]. apply N.pow_gt_lin_r. lia. Qed.

(* ---------- the fields of a matched bracket atom fit inside it ---------- *)
Local Open Scope nat_scope.

Lemma span_len p s a b : span p s = (a, b) -> length s = length a + length b.
Proof. intro E. apply span_spec in E as [-> _]. now rewrite app_length. Qed.

Definition h_shape (h : str) : Prop := h = [] \/ (exists c, h = [c]) \/ (exists c d, h = [c; d]).

Definition tail_def (s : str) : option str :=
  if str_eqb s (lit "]") then Some [] else
  match s with
  | c :: r => if N.eqb c 58 then
                let '(ds, r') := span isdecimal r in
                match ds with
                | _ :: _ => if str_eqb r' (lit "]") then Some (c :: ds) else None
                | [] => None end
              else None
  | [] => None end.

Definition charge_part (tail_ok : str -> option str) (s7 : str) : option (str * str) :=
  let try_sign (sg : N) : option (str * str) :=
    let '(run, r) := span (N.eqb sg) s7 in
    match run with
    | [] => None
    | _ => match tail_ok r with Some cl => Some (run, cl) | None => None end
    end in
  let try_num : option (str * str) :=
    match s7 with
    | sg :: r => if (N.eqb sg 43 || N.eqb sg 45) then
                   let '(ds, r') := span isdecimal r in
                   match ds with
                   | [] => None
                   | _ => match tail_ok r' with Some cl => Some (sg :: ds, cl) | None => None end
                   end
                 else None
    | [] => None end in
  match try_sign 43%N with Some x => Some x | None =>
  match try_sign 45%N with Some x => Some x | None =>
  match try_num with Some x => Some x | None =>
  match tail_ok s7 with Some cl => Some ([], cl) | None => None end end end end.

Lemma tail_def_len s cl : tail_def s = Some cl -> 1 <= length s.
Proof. unfold tail_def. destruct s as [|c r]; [cbn; discriminate|]. intros _. cbn [length]. lia. Qed.

Lemma charge_part_len tail_ok s7 chg cl : (forall s cl, tail_ok s = Some cl -> 1 <= length s) ->
  charge_part tail_ok s7 = Some (chg, cl) -> length chg + 1 <= length s7.
Proof.
  intros Ht. unfold charge_part. cbv zeta.
  assert (Hsign : forall sg x, (let '(run, r) := span (N.eqb sg) s7 in
                                match run with [] => None | _ => match tail_ok r with Some cl => Some (run, cl) | None => None end end) = Some x ->
                              length (fst x) + 1 <= length s7).
  { intros sg x. destruct (span (N.eqb sg) s7) as [run r] eqn:Es. apply span_len in Es.
    destruct run as [|a run']; [discriminate|]. destruct (tail_ok r) as [cl0|] eqn:Et; [|discriminate].
    intro H. injection H as <-. cbn [fst]. apply Ht in Et. lia. }
  intro ER.
  match type of ER with
  | match ?A with Some x => Some x | None => _ end = _ => destruct A as [x|] eqn:EA
  end; [injection ER as ->; exact (Hsign _ _ EA)|].
  match type of ER with
  | match ?A with Some x => Some x | None => _ end = _ => destruct A as [x|] eqn:EB
  end; [injection ER as ->; exact (Hsign _ _ EB)|].
  match type of ER with
  | match ?A with Some x => Some x | None => _ end = _ => destruct A as [x|] eqn:EC
  end.
  - injection ER as ->. destruct s7 as [|sg r]; [discriminate|]. destruct (_ || _); [|discriminate].
    destruct (span isdecimal r) as [ds r'] eqn:Es. apply span_len in Es. destruct ds as [|d ds']; [discriminate|].
    destruct (tail_ok r') as [cl'|] eqn:Et; [|discriminate]. injection EC as <- <-. apply Ht in Et. cbn [length] in *. lia.
  - destruct (tail_ok s7) as [cl'|] eqn:Et; [|discriminate]. injection ER as <- <-. apply Ht in Et. cbn [length]. lia.
Qed.

Lemma bracket_fields_len sym g : match_bracket_atom sym = Some g ->
  length (g_iso g) + length (g_elem g) + length (g_chi g) + length (g_h g) + length (g_charge g) + 2 <= length sym /\ h_shape (g_h g).
Proof.
  unfold match_bracket_atom. destruct sym as [|c0 s1]; [discriminate|].
  destruct (negb (N.eqb c0 91)); [discriminate|].
  destruct (span isdecimal s1) as [iso s3] eqn:Ei. apply span_len in Ei.
  destruct s3 as [|e1 s4]; [discriminate|]. destruct (negb (is_letter e1)); [discriminate|].
  set (es := match s4 with e2 :: r => if is_lower e2 then ([e1; e2], r) else ([e1], s4) | [] => ([e1], s4) end).
  assert (Hes : length (fst es) + length (snd es) = S (length s4)).
  { unfold es. destruct s4 as [|e2 r]; [reflexivity|]. destruct (is_lower e2); cbn [fst snd length]; lia. }
  destruct es as [elem s5]. cbn [fst snd] in Hes.
  set (cs := if prefix_of (lit "@@") s5 then (lit "@@", skipn 2 s5) else if prefix_of (lit "@") s5 then (lit "@", skipn 1 s5) else ([], s5)).
  assert (Hcs : length (fst cs) + length (snd cs) <= length s5).
  { unfold cs. destruct (prefix_of (lit "@@") s5) eqn:P2.
    - cbn [fst snd]. rewrite skipn_length. destruct s5 as [|a [|b r]]; cbn in P2; try discriminate; cbn [length lit]; try lia.
    - destruct (prefix_of (lit "@") s5) eqn:P1; cbn [fst snd]; [|cbn [length]; lia].
      rewrite skipn_length. destruct s5 as [|a r]; cbn in P1; [discriminate|]. cbn [length lit]. lia. }
  destruct cs as [chi s6]. cbn [fst snd] in Hcs.
  set (hs := match s6 with
             | c :: r => if N.eqb c 72 then match r with
                                            | d :: r' => if isdecimal d then ([c; d], r') else ([c], r)
                                            | [] => ([c], r) end
                         else ([], s6)
             | [] => ([], s6) end).
  assert (Hhs : length (fst hs) + length (snd hs) = length s6 /\ h_shape (fst hs)).
  { unfold hs, h_shape. destruct s6 as [|c r]; [split; [reflexivity|now left]|].
    destruct (N.eqb c 72); [|split; [reflexivity|now left]].
    destruct r as [|d0 r']; [split; [reflexivity|right; left; cbn [fst]; eauto]|].
    destruct (isdecimal d0); cbn [fst snd length]; (split; [lia|right; cbn [fst]; eauto]). }
  destruct hs as [h s7]. cbn [fst snd] in Hhs. destruct Hhs as [Hhs Hsh].
  intro E.
  change (match charge_part tail_def s7 with
          | Some (chg, cl) => Some {| g_iso := iso; g_elem := elem; g_chi := chi; g_h := h; g_charge := chg; g_class := cl |}
          | None => None end = Some g) in E.
  destruct (charge_part tail_def s7) as [[chg cl]|] eqn:ER; [|discriminate].
  injection E as <-. cbn [g_iso g_elem g_chi g_h g_charge]. split; [|exact Hsh].
  apply (charge_part_len _ _ _ _ tail_def_len) in ER.
  cbn [length] in *. lia.
Qed.

(* ---------- the modern spelling of a legacy atom is no longer than the legacy one ---------- *)
Lemma signed_len z : z <> 0%Z -> length (str_of_Z_signed z) = S (length (str_of_N (Z.to_N (Z.abs z)))).
Proof. destruct z; [congruence| |]; intros _; reflexivity. Qed.

Definition Lh (h : N) : nat := match h with 0%N => 2 | _ => S (length (str_of_N h)) end.

Lemma a2s_len a h t : a_aromatic a = false -> a_hcount a = Some h -> atom_to_smiles a false = Ok t ->
  length t <= match a_isotope a with Some n => length (str_of_N n) | None => 0 end + length (a_element a)
              + match a_chirality a with Some c => length c | None => 0 end + Lh h
              + (if (a_charge a =? 0)%Z then 0 else length (str_of_Z_signed (a_charge a))).
Proof.
  intros Har Hh. unfold atom_to_smiles. rewrite Har, Hh.
  destruct (a_isotope a) as [n|]; destruct (a_chirality a) as [c|]; destruct (a_charge a =? 0)%Z;
    intro E; injection E as <-; cbn [app]; rewrite ?app_length, ?app_nil_r; unfold Lh;
    destruct h; try (destruct (mem_str (a_element a) organic_subset)); cbn [length lit ch app]; rewrite ?app_length; cbn [length]; try lia;
    match goal with |- context [if ?b then _ else _] => destruct b end; cbn [length]; lia.
Qed.

Lemma last_char_snoc s c : last_char (s ++ [c]) = Some c.
Proof. unfold last_char. rewrite app_length. cbn [length]. replace (length s + 1 - 1) with (length s) by lia. rewrite nth_error_app2 by lia. now rewrite Nat.sub_diag. Qed.

Lemma modern_atom_len inner a t : smiles_to_atom (lit "[" ++ inner ++ lit "]") = Ok (Some a) -> a_aromatic a = false ->
  atom_to_smiles a false = Ok t -> length t <= length inner + 3.
Proof.
  unfold smiles_to_atom. change (lit "[" ++ inner ++ lit "]") with (91%N :: (inner ++ [93%N])).
  change (91%N :: inner ++ [93%N]) with ((91%N :: inner) ++ [93%N]) at 2. rewrite last_char_snoc.
  rewrite N.eqb_refl. cbn [andb].
  destruct (match_bracket_atom (91%N :: inner ++ [93%N])) as [g|] eqn:Eg; [|discriminate].
  apply bracket_fields_len in Eg as [Hlen Hsh]. cbn [length] in Hlen. rewrite app_length in Hlen. cbn [length] in Hlen.
  destruct (match g_iso g with [] => Ok None | _ => _ end) as [iso|] eqn:Eiso; cbn [bind]; [|discriminate].
  destruct (negb _); [discriminate|].
  destruct (match g_h g with [] => Ok 0%N | _ => _ end) as [h|] eqn:Eh; cbn [bind]; [|discriminate].
  destruct (match g_charge g with [] => Ok 0%Z | _ => _ end) as [chg|] eqn:Ec; cbn [bind]; [|discriminate].
  intro E. injection E as <-. intros Har Et.
  apply (a2s_len _ h) in Et; [|exact Har|reflexivity]. cbn [a_isotope a_element a_chirality a_charge] in Et.
  assert (B1 : match iso with Some n => length (str_of_N n) | None => 0 end <= length (g_iso g)).
  { destruct (g_iso g) as [|d ds] eqn:Ei; [injection Eiso as <-; lia|].
    destruct (int_of_decimals (d :: ds)) as [n|] eqn:En; cbn [bind] in Eiso; [|discriminate]. injection Eiso as <-.
    apply printed_int_len in En; [exact En|discriminate]. }
  assert (B2 : length (capitalize (g_elem g)) = length (g_elem g)).
  { unfold capitalize. destruct (g_elem g); [reflexivity|]. cbn [length]. now rewrite map_length. }
  assert (B3 : match (match g_chi g with [] => None | c :: l => Some (c :: l) end) with Some c => length c | None => 0 end = length (g_chi g)).
  { destruct (g_chi g); reflexivity. }
  assert (B4 : Lh h <= length (g_h g) + 2).
  { destruct Hsh as [Hs|[[c Hs]|[c [d Hs]]]]; rewrite Hs in *.
    - injection Eh as <-. cbn. lia.
    - injection Eh as <-. cbn. lia.
    - unfold Lh. destruct h; [cbn; lia|]. apply printed_int_len in Eh; [cbn [length] in *; lia|discriminate]. }
  assert (B5 : (if (chg =? 0)%Z then 0 else length (str_of_Z_signed chg)) <= length (g_charge g) + 1).
  { destruct (Z.eqb_spec chg 0) as [|Hnz]; [lia|]. rewrite (signed_len _ Hnz).
    destruct (g_charge g) as [|sg rest] eqn:Eq; [injection Ec as <-; congruence|].
    destruct (last_char (sg :: rest)) as [l|]; [|injection Ec as <-; congruence].
    assert (Hsg : forall n : N, Z.to_N (Z.abs (Z.of_N n * sign_of sg)) = n).
    { intro n. unfold sign_of. destruct (N.eqb sg 43); lia. }
    destruct (isdigit l).
    - destruct (int_of_decimals rest) as [n|] eqn:En; cbn [bind] in Ec; [|discriminate]. injection Ec as <-.
      rewrite Hsg. destruct rest as [|r0 rest']; [cbn in En; injection En as <-; cbn in Hnz; congruence|].
      apply printed_int_len in En; [cbn [length] in *; lia|discriminate].
    - assert (Hk : forall z, @Ok Z z = Ok chg -> z = chg) by (intros z H; now injection H).
      apply Hk in Ec. subst chg. rewrite <- nat_N_Z, Hsg.
      pose proof (printed_nat_len (length (sg :: rest)) ltac:(cbn [length]; lia)). lia. }
  rewrite B2 in Et. clear B3. destruct (g_chi g); cbn [length] in *; lia.
Qed.

(* ---------- modernize_symbol ---------- *)
Lemma slice_len (s : str) i j : length (slice s i j) <= j - i.
Proof. unfold slice. apply firstn_le_length. Qed.

Lemma a2s_err a e : atom_to_smiles a false = Err e -> a_aromatic a = true.
Proof.
  unfold atom_to_smiles. destruct (a_aromatic a); [reflexivity|].
  destruct (a_isotope a); destruct (a_chirality a); destruct (a_hcount a); destruct (a_charge a =? 0)%Z; discriminate.
Qed.

Lemma expl_len t : str_eqb (suffix t 5) (lit "expl]") = true -> 5 <= length t.
Proof.
  intro H. apply str_eqb_eq in H. apply (f_equal (@length N)) in H. unfold suffix in H. rewrite skipn_length in H. cbn in H. lia.
Qed.

Lemma modernize_err t e : modernize_symbol t = Err e -> e = ValueError.
Proof.
  unfold modernize_symbol. destruct (assoc t symbol_update_table); [discriminate|].
  destruct (str_eqb (suffix t 5) (lit "expl]")) eqn:Es; [|discriminate]. apply expl_len in Es.
  destruct (nth_error t 1) as [c1|] eqn:E1; [|apply nth_error_None in E1; lia].
  destruct (if is_bond_prefix c1 then _ else _) as [bond asym].
  destruct (smiles_to_atom (lit "[" ++ asym ++ lit "]")) as [oa|e1] eqn:Ea; cbn [bind].
  - destruct oa as [a|]; [|discriminate]. destruct (a_aromatic a) eqn:Har; [discriminate|].
    destruct (atom_to_smiles a false) as [t0|e2] eqn:E2; cbn [bind]; [discriminate|]. apply a2s_err in E2. congruence.
  - intro H. injection H as <-. apply smiles_to_atom_err in Ea; [exact Ea|discriminate].
Qed.

Lemma modernize_ok_len t t' : modernize_symbol t = Ok t' ->
  length t' <= length t \/ exists k, assoc k symbol_update_table = Some t'.
Proof.
  unfold modernize_symbol. destruct (assoc t symbol_update_table) as [v|] eqn:Et; [intro H; injection H as <-; right; eauto|].
  destruct (str_eqb (suffix t 5) (lit "expl]")) eqn:Es; [|intro H; injection H as <-; left; lia]. apply expl_len in Es.
  destruct (nth_error t 1) as [c1|] eqn:E1; [|discriminate].
  set (ba := if is_bond_prefix c1 then ([c1], slice t 2 (length t - 5)) else ([], slice t 1 (length t - 5))).
  assert (Hba : length (fst ba) + length (snd ba) + 6 <= length t \/ snd ba = []).
  { unfold ba. destruct (is_bond_prefix c1); cbn [fst snd].
    - destruct (slice t 2 (length t - 5)) as [|x l] eqn:Esl; [now right|left].
      pose proof (slice_len t 2 (length t - 5)) as H. rewrite Esl in H. cbn [length] in *. lia.
    - destruct (slice t 1 (length t - 5)) as [|x l] eqn:Esl; [now right|left].
      pose proof (slice_len t 1 (length t - 5)) as H. rewrite Esl in H. cbn [length] in *. lia. }
  destruct ba as [bond asym]. cbn [fst snd] in Hba.
  destruct Hba as [Hba| ->].
  - destruct (smiles_to_atom (lit "[" ++ asym ++ lit "]")) as [oa|] eqn:Ea; cbn [bind]; [|discriminate].
    destruct oa as [a|]; [|intro H; injection H as <-; left; lia].
    destruct (a_aromatic a) eqn:Har; [intro H; injection H as <-; left; lia|].
    destruct (atom_to_smiles a false) as [t0|] eqn:E2; cbn [bind]; [|discriminate].
    intro H. injection H as <-. left. pose proof (modern_atom_len asym a t0 Ea Har E2) as L.
    cbn [length app]. rewrite ?app_length. cbn [length]. lia.
  - assert (X : smiles_to_atom (lit "[" ++ [] ++ lit "]") = Ok None) by (vm_compute; reflexivity).
    rewrite X. cbn [bind]. intro H. injection H as <-. left. lia.
Qed.

(* ---------- the modernising tokenizer ---------- *)
Lemma table_values_short : forall k v, assoc k symbol_update_table = Some v -> within_limit (length v).
Proof.
  assert (F : forallb (fun kv => (int_max_str_digits =? 0)%N || (N.of_nat (length (snd kv)) <=? int_max_str_digits)%N) symbol_update_table = true)
    by (vm_compute; reflexivity).
  intros k v H. apply assoc_in in H. rewrite forallb_forall in F. specialize (F _ H). cbn [snd] in F.
  apply orb_true_iff in F as [F|F]; [left; now apply N.eqb_eq|right; now apply N.leb_le].
Qed.

Lemma modernize_all_ok : forall ts bad, (bad = None \/ bad = Some DecoderError) ->
  Forall (fun t => within_limit (length t)) ts -> frag_ok (modernize_all ts bad).
Proof.
  induction ts as [|t r IH]; intros bad Hb H; cbn [modernize_all].
  - split; [exact Hb|constructor].
  - inversion H as [|? ? Ht Hr]; subst. destruct (modernize_symbol t) as [t'|e] eqn:Em.
    + specialize (IH bad Hb Hr). destruct (modernize_all r bad) as [ts' b]. destruct IH as [I1 I2]. split; [exact I1|].
      cbn [fst]. constructor; [|exact I2]. apply tok_ok_of_length.
      apply modernize_ok_len in Em as [L|[k Hk]]; [exact (within_limit_le _ _ L Ht)|exact (table_values_short k t' Hk)].
    + apply modernize_err in Em. subst e. split; [now right|constructor].
Qed.

Theorem frags_ok_of_symbols s compat : symbols_short s -> frags_ok s compat.
Proof.
  intro H. destruct compat; [|apply tokenize_all_ok; now apply digits_ok_of_symbols].
  unfold frags_ok, tokenize_all. apply Forall_forall. intros f Hin. apply in_map_iff in Hin as (frag & <- & Hfr).
  unfold tokenize_selfies. pose proof (H frag) as Hf. destruct (split_selfies frag) as [ts bad0]. cbn [fst] in Hf.
  apply modernize_all_ok; [destruct bad0; auto|].
  apply Forall_forall. intros t Ht. apply filter_In in Ht as [Ht _]. exact (Hf t Hfr Ht).
Qed.
