(* EncGreedy.v — C09: the greedy phase of find_perfect_matching raises no exception on a symmetric graph without self
   loops.  `next(i for i in graph[node] if matching[i] is None)` would raise StopIteration if the popped node had no
   free neighbour left although its free degree is not 0: the bookkeeping of free_degrees is exactly the count of free
   neighbours (with multiplicity), because every neighbour of the two atoms just matched is decremented once per
   occurrence, and the adjacency lists are symmetric. *)
From Coq Require Import Ascii String List Arith ZArith NArith Bool Lia.
Import ListNotations.
From Selfies Require Import Base Generated Lex Atoms Grammar Decoder Smiles PySet Matching Kekulize Encoder BaseFacts ConfigFacts
  ParserTotal EncShape EncKey EncIndex EncKek EncMatch EncMatchSafe.
Local Open Scope nat_scope.

Definition isfree (m : matching) (i : nat) : bool := match nth_error m i with Some None => true | _ => false end.
Definition cntf (m : matching) (l : list nat) : nat := length (filter (isfree m) l).
Definition occ (l : list nat) (v : nat) : nat := count_occ Nat.eq_dec l v.

Lemma heappush_forall (P : hitem -> Prop) : forall h x, Forall P h -> P x -> Forall P (heappush h x).
Proof.
  induction h as [|y r IH]; intros x Hh Hx; cbn [heappush]; [constructor; [exact Hx|constructor]|].
  inversion Hh; subst. destruct (hitem_lt y x); constructor; auto.
Qed.

Lemma first_unmatched_total : forall l m, (forall i, In i l -> i < length m) -> cntf m l <> 0 ->
  exists mate, first_unmatched l m = Ok mate /\ In mate l /\ isfree m mate = true.
Proof.
  induction l as [|x r IH]; intros m Hr Hc; [exfalso; apply Hc; reflexivity|]. cbn [first_unmatched].
  destruct (get_ok m x (Hr x (or_introl eq_refl))) as (mx & Eg & Hn). rewrite Eg. cbn [bind].
  destruct mx as [y|].
  - destruct (IH m (fun i Hi => Hr i (or_intror Hi))) as (mate & Em & Hin & Hf).
    { unfold cntf in *. cbn [filter] in Hc. unfold isfree in Hc at 1. rewrite Hn in Hc. exact Hc. }
    exists mate. split; [exact Em|]. split; [now right|exact Hf].
  - exists x. split; [reflexivity|]. split; [now left|]. unfold isfree. now rewrite Hn.
Qed.

(* matching node and mate (both free, distinct) takes one free neighbour away per occurrence of either *)
Lemma cntf_set2 m a b : a < length m -> b < length m -> a <> b -> isfree m a = true -> isfree m b = true -> forall l,
  cntf m l = cntf (upd (upd m a (fun _ => Some b)) b (fun _ => Some a)) l + occ l a + occ l b.
Proof.
  intros La Lb Hab Fa Fb. set (m2 := upd (upd m a (fun _ => Some b)) b (fun _ => Some a)).
  assert (Lb' : b < length (upd m a (fun _ => Some b))) by (rewrite upd_length; exact Lb).
  assert (F2 : forall i, isfree m2 i = if Nat.eqb b i then false else if Nat.eqb a i then false else isfree m i).
  { intro i. unfold isfree, m2. rewrite nth_set by exact Lb'. destruct (Nat.eqb b i); [reflexivity|]. rewrite nth_set by exact La. destruct (Nat.eqb a i); reflexivity. }
  induction l as [|x r IH]; [reflexivity|]. unfold cntf, occ in *. cbn [filter count_occ]. rewrite F2.
  destruct (Nat.eq_dec x a) as [Hxa|Hxa]; destruct (Nat.eq_dec x b) as [Hxb|Hxb]; try congruence.
  - subst x. destruct (Nat.eqb_spec b a); [congruence|]. rewrite Nat.eqb_refl, Fa. cbn [length]. destruct (Nat.eq_dec a a); [|congruence]. destruct (Nat.eq_dec b a); [congruence|]. lia.
  - subst x. rewrite Nat.eqb_refl, Fb. cbn [length]. destruct (Nat.eq_dec b b); [|congruence]. destruct (Nat.eq_dec a b); [congruence|]. lia.
  - destruct (Nat.eqb_spec b x); [congruence|]. destruct (Nat.eqb_spec a x); [congruence|]. destruct (Nat.eq_dec a x); [congruence|]. destruct (Nat.eq_dec b x); [congruence|].
    destruct (isfree m x); cbn [length]; lia.
Qed.

Section Greedy.
Variable g : graph.
Let n := length g.
Hypothesis GR : forall i li j, nth_error g i = Some li -> In j li -> j < n.
Hypothesis NSL : forall i li, nth_error g i = Some li -> ~ In i li.
Hypothesis SYM : forall u v lu lv, nth_error g u = Some lu -> nth_error g v = Some lv -> occ lu v = occ lv u.

Definition nodeok (it : hitem) : Prop := snd it < n.

Lemma dec_free_total : forall adjs m fd h, (forall a, In a adjs -> a < n) -> length fd = n -> length m = n -> Forall nodeok h ->
  exists fd' h', dec_free adjs m fd h = Ok (fd', h') /\ length fd' = n /\ Forall nodeok h' /\
    forall v, nth_error fd' v = option_map (fun d => (d - Z.of_nat (occ adjs v))%Z) (nth_error fd v).
Proof.
  induction adjs as [|adj r IH]; intros m fd h Ha Lf Lm Hh; cbn [dec_free].
  - exists fd, h. split; [reflexivity|]. split; [exact Lf|]. split; [exact Hh|]. intro v. unfold occ. cbn [count_occ]. destruct (nth_error fd v); cbn; [f_equal; lia|reflexivity].
  - pose proof (Ha adj (or_introl eq_refl)) as Hadj.
    assert (Lfa : adj < length fd) by (rewrite Lf; exact Hadj). assert (Lma : adj < length m) by (rewrite Lm; exact Hadj).
    destruct (get_ok fd adj Lfa) as (d & Eg & Hn). rewrite Eg. cbn [bind].
    destruct (get_ok m adj Lma) as (madj & Egm & _). rewrite Egm. cbn [bind].
    set (fd1 := upd fd adj (fun _ => (d - 1)%Z)).
    set (h1 := match madj with None => if (0 <? d - 1)%Z then heappush h ((d - 1)%Z, adj) else h | Some _ => h end).
    assert (Hh1 : Forall nodeok h1).
    { unfold h1. destruct madj; [exact Hh|]. destruct (0 <? d - 1)%Z; [apply heappush_forall; [exact Hh|exact Hadj]|exact Hh]. }
    destruct (IH m fd1 h1 (fun a Hin => Ha a (or_intror Hin)) ltac:(unfold fd1; rewrite upd_length; exact Lf) Lm Hh1) as (fd' & h' & E & L' & H' & S').
    exists fd', h'. split; [exact E|]. split; [exact L'|]. split; [exact H'|].
    intro v. rewrite S'. unfold fd1. rewrite nth_set by exact Lfa. unfold occ. cbn [count_occ].
    destruct (Nat.eqb_spec adj v) as [->|Hne].
    + rewrite Hn. cbn [option_map]. destruct (Nat.eq_dec v v); [|congruence]. f_equal. lia.
    + destruct (Nat.eq_dec adj v); [congruence|]. reflexivity.
Qed.

Record GInv (m : matching) (fd : list Z) (h : list hitem) : Prop := {
  gi_m : length m = n;
  gi_fd : length fd = n;
  gi_h : Forall nodeok h;
  gi_cnt : forall v lv, nth_error g v = Some lv -> isfree m v = true -> nth_error fd v = Some (Z.of_nat (cntf m lv))
}.

Lemma greedy_loop_safe : forall fuel m fd h, GInv m fd h ->
  match greedy_loop fuel g m fd h with Ok _ => True | Err e => fuel_only e end.
Proof.
  induction fuel as [|f IH]; intros m fd h [Lm Lf Hh Hc]; cbn [greedy_loop]; [reflexivity|].
  destruct h as [|[d node] h1]; cbn [heappop]; [exact I|]. inversion Hh as [|? ? Hnode Hh1]; subst. unfold nodeok in Hnode. cbn [snd] in Hnode.
  destruct (get_ok m node ltac:(lia)) as (mn & Egm & Hnm). rewrite Egm. cbn [bind].
  destruct (get_ok fd node ltac:(lia)) as (dn & Egf & Hnf). rewrite Egf. cbn [bind].
  assert (Rest : GInv m fd h1) by (constructor; assumption).
  destruct mn as [y|]; [exact (IH _ _ _ Rest)|].
  destruct (Z.eqb_spec dn 0) as [Hd0|Hd0]; [exact (IH _ _ _ Rest)|].
  destruct (get_ok g node Hnode) as (gn & Egg & Hng). rewrite Egg. cbn [bind].
  assert (Ffree : isfree m node = true) by (unfold isfree; now rewrite Hnm).
  pose proof (Hc node gn Hng Ffree) as Hcnt. rewrite Hnf in Hcnt. inversion Hcnt; subst dn.
  destruct (first_unmatched_total gn m (fun i Hi => ltac:(rewrite Lm; exact (GR node gn i Hng Hi))) ltac:(lia)) as (mate & Ef & Hin & Fm). rewrite Ef. cbn [bind].
  pose proof (GR node gn mate Hng Hin) as Hmate. assert (Hne : node <> mate) by (intros ->; exact (NSL mate gn Hng Hin)).
  assert (Lnode : node < length m) by (rewrite Lm; exact Hnode). assert (Lmate : mate < length m) by (rewrite Lm; exact Hmate).
  rewrite (set_at_ok m node _ Lnode). cbn [bind]. rewrite (set_at_ok _ mate _ ltac:(rewrite upd_length; exact Lmate)). cbn [bind].
  destruct (get_ok g mate Hmate) as (gm & Eggm & Hngm). rewrite Eggm. cbn [bind].
  set (m2 := upd (upd m node (fun _ => Some mate)) mate (fun _ => Some node)).
  assert (Lm2 : length m2 = n) by (unfold m2; now rewrite !upd_length).
  destruct (dec_free_total (gn ++ gm) m2 fd h1) as (fd' & h2 & Ed & Lf' & Hh2 & Sd); [|exact Lf|exact Lm2|exact Hh1|].
  { intros a Ha. apply in_app_iff in Ha as [Ha|Ha]; [exact (GR node gn a Hng Ha)|exact (GR mate gm a Hngm Ha)]. }
  rewrite Ed. cbn [bind]. apply IH. constructor; [exact Lm2|exact Lf'|exact Hh2|].
  intros v lv Hv Fv.
  assert (F2 : isfree m2 v = if Nat.eqb mate v then false else if Nat.eqb node v then false else isfree m v).
  { unfold isfree, m2. rewrite nth_set by (rewrite upd_length; exact Lmate). destruct (Nat.eqb mate v); [reflexivity|]. rewrite nth_set by exact Lnode. destruct (Nat.eqb node v); reflexivity. }
  rewrite F2 in Fv. destruct (Nat.eqb_spec mate v) as [|Hmv]; [discriminate|]. destruct (Nat.eqb_spec node v) as [|Hnv]; [discriminate|].
  rewrite Sd, (Hc v lv Hv Fv). cbn [option_map]. f_equal.
  pose proof (cntf_set2 m node mate Lnode Lmate Hne Ffree Fm lv) as C. fold m2 in C.
  unfold occ in *. rewrite count_occ_app. rewrite (SYM node v gn lv Hng Hv), (SYM mate v gm lv Hngm Hv). unfold occ. lia.
Qed.

Lemma cntf_all_free l m : (forall i, In i l -> isfree m i = true) -> cntf m l = length l.
Proof. intro H. unfold cntf. induction l as [|x r IH]; [reflexivity|]. cbn [filter]. rewrite (H x (or_introl eq_refl)). cbn [length]. f_equal. apply IH. intros; apply H; now right. Qed.

Lemma greedy_safe : match greedy_matching g with Ok _ => True | Err e => fuel_only e end.
Proof.
  unfold greedy_matching. apply greedy_loop_safe. constructor.
  - now rewrite map_length.
  - now rewrite map_length.
  - unfold heapify. assert (X : Forall nodeok (map (fun p : nat * list nat => (Z.of_nat (length (snd p)), fst p)) (enum_from 0 g))).
    { apply Forall_forall. intros it Hit. apply in_map_iff in Hit as ([i li] & <- & Hin). unfold nodeok. cbn [snd fst].
      apply enum_from_nth in Hin as [_ Hn]. rewrite Nat.sub_0_r in Hn. apply nth_error_Some. congruence. }
    induction X as [|x l Hx Hl IHl]; cbn [fold_right]; [constructor|apply heappush_forall; assumption].
  - intros v lv Hv _. rewrite nth_error_map, Hv. cbn [option_map]. f_equal. f_equal. symmetry. apply cntf_all_free.
    intros i Hi. unfold isfree. pose proof (GR v lv i Hv Hi) as Li.
    destruct (nth_error g i) as [x|] eqn:E; [|apply nth_error_None in E; unfold n in Li; lia]. rewrite nth_error_map, E. reflexivity.
Qed.
End Greedy.

Theorem matching_raises_nothing g e :
  (forall i li j, nth_error g i = Some li -> In j li -> j < length g) ->
  (forall i li, nth_error g i = Some li -> ~ In i li) ->
  (forall u v lu lv, nth_error g u = Some lu -> nth_error g v = Some lv -> occ lu v = occ lv u) ->
  find_perfect_matching g = Err e -> fuel_only e.
Proof.
  intros GR NSL SYM E. destruct (matching_raises_only_in_greedy g e GR E) as [H|H]; [exact H|].
  pose proof (greedy_safe g GR NSL SYM) as G. rewrite H in G. exact G.
Qed.

(* ====================================================================== *)
(* the pruned graph of a parsed molecule is such a graph                    *)
(* ====================================================================== *)
From Selfies Require Import EncTokens EncRows EncAttr EncStereo EncAttrErr EncArom EncUniq EncOrders EncCount.

(* a property of the delocalisation subgraph kept by everything the reader does to it *)
Section DsChain.
Variable P : dsub -> Prop.
Hypothesis Pfresh : forall D k, P D -> ds_lookup D k = None -> P (ds_set_empty D k).
Hypothesis Ppair : forall D a b, P D -> P (ds_append (ds_append D a b) b a).

Lemma add_bond_p m src dst o2 st at_ m' : P (m_ds m) -> mg_add_bond m src dst o2 st at_ = Ok m' -> P (m_ds m').
Proof.
  intros H. unfold mg_add_bond. destruct (negb _); [discriminate|].
  destruct (mg_add_bond_at_loc _ _ _) as [m1|] eqn:E1; cbn [bind]; [|discriminate].
  destruct (mg_add_count2 m1 _ _) as [m2|] eqn:E2; cbn [bind]; [|discriminate].
  destruct (mg_add_count2 m2 _ _) as [m3|] eqn:E3; cbn [bind]; [|discriminate].
  apply at_loc_ds in E1. apply add_count_ds in E2, E3.
  destruct (_ =? _)%Z; intro E; inversion E; subst; [cbn [set_ds m_ds]; rewrite E3, E2, E1; apply Ppair; exact H|congruence].
Qed.
Lemma add_ring_p m a b o2 sa sb pa pb m' : P (m_ds m) -> mg_add_ring_bond m a b o2 sa sb pa pb = Ok m' -> P (m_ds m').
Proof.
  intros H. unfold mg_add_ring_bond.
  destruct (mg_add_bond_at_loc m _ _) as [m1|] eqn:E1; cbn [bind]; [|discriminate].
  destruct (mg_add_bond_at_loc m1 _ _) as [m2|] eqn:E2; cbn [bind]; [|discriminate].
  destruct (mg_add_count2 m2 _ _) as [m3|] eqn:E3; cbn [bind]; [|discriminate].
  destruct (mg_add_count2 m3 _ _) as [m4|] eqn:E4; cbn [bind]; [|discriminate].
  destruct (lupd (m_ringflags m4) _ _) as [f1|]; cbn [bind]; [|discriminate].
  destruct (lupd f1 _ _) as [f2|]; cbn [bind]; [|discriminate].
  apply at_loc_ds in E1, E2. apply add_count_ds in E3, E4.
  destruct (_ =? _)%Z; intro E; inversion E; subst; cbn [set_ds set_ringflags m_ds]; rewrite E4, E3, E2, E1; [apply Ppair|]; exact H.
Qed.
Lemma make_ring_p m lt la lp rt ra m' : P (m_ds m) -> make_ring_bonds m lt la lp rt ra = Ok m' -> P (m_ds m').
Proof.
  intros Hd. unfold make_ring_bonds. destruct (_ =? _); [discriminate|]. destruct (mg_has_bond _ _ _); [discriminate|].
  match goal with |- (let '(b0, b1) := ?X in _) = _ -> _ => destruct X as [b0 b1] end.
  destruct (negb _); [discriminate|].
  destruct (smiles_to_bond2 (t_bond lt)) as [lo ls]. destruct (smiles_to_bond2 (t_bond rt)) as [ro rs].
  destruct (mg_get_atom m la); cbn [bind]; [|discriminate]. destruct (mg_get_atom m ra); cbn [bind]; [|discriminate].
  match goal with |- (let '(x, y) := ?X in _) = _ -> _ => destruct X as [lo' ro'] end.
  apply add_ring_p; assumption.
Qed.
Lemma attach_p m tok a prev i m' idx i' : P (m_ds m) -> ds_lookup (m_ds m) (mg_len m) = None -> attach_atom m tok a prev i = Ok (m', idx, i') -> P (m_ds m').
Proof.
  intros H Hf. unfold attach_atom. destruct (mg_add_atom m a _) as [m1 ix] eqn:Ea.
  assert (D1 : P (m_ds m1)) by (unfold mg_add_atom in Ea; inversion Ea; subst; cbn [m_ds]; destruct (a_aromatic a); [apply Pfresh; assumption|exact H]).
  destruct (mg_add_attr_atom m1 ix _) as [m2|] eqn:E2; cbn [bind]; [|discriminate].
  assert (Dd : m_ds m2 = m_ds m1) by (unfold mg_add_attr_atom in E2; destruct (m_attributable m1); [destruct (lupd _ _ _); cbn [bind] in E2; [inversion E2; reflexivity|discriminate]|inversion E2; reflexivity]).
  destruct prev as [src|]; [|intro E; inversion E; subst; congruence].
  destruct (smiles_to_bond2 (t_bond tok)) as [o2 st].
  destruct (mg_get_atom m2 src); cbn [bind]; [|discriminate].
  destruct (mg_add_bond m2 _ _ _ _ _) as [m3|] eqn:E3; cbn [bind]; [|discriminate].
  intro E; inversion E; subst. apply (add_bond_p _ _ _ _ _ _ _ ltac:(rewrite Dd; exact D1) E3).
Qed.

Lemma step_p tok st st1 r1 : DSI (p_mol st) -> P (m_ds (p_mol st)) -> derive_loop [tok] st = Ok (st1, r1) -> P (m_ds (p_mol st1)).
Proof.
  intros [_ Hk] Hd E. cbn [derive_loop] in E.
  destruct (p_prev st) as [|prev below]; [discriminate|].
  destruct (t_type tok).
  - destruct (smiles_to_atom (t_text tok)) as [[a|]|]; cbn [bind] in E; try discriminate.
    destruct (attach_atom _ _ _ _ _) as [[[m' idx] i']|] eqn:Eat; cbn [bind] in E; [|discriminate]. inversion E; subst. cbn [p_mol].
    apply (attach_p _ _ _ _ _ _ _ _ Hd) in Eat; [exact Eat|].
    destruct (ds_lookup (m_ds (p_mol st)) (mg_len (p_mol st))) eqn:El; [|reflexivity]. exfalso. assert (X : mg_len (p_mol st) < mg_len (p_mol st)) by (apply Hk; congruence). lia.
  - destruct (p_chain_start st); [discriminate|].
    destruct (str_eqb _ _); [inversion E; subst; exact Hd|]. destruct (p_branch st); [discriminate|]. inversion E; subst; exact Hd.
  - destruct (p_chain_start st); [discriminate|].
    destruct (ring_log_find _ _) as [[[ltok latom] lpos]|].
    + destruct (atom_index prev) as [ratom|]; cbn [bind] in E; [|discriminate].
      destruct (make_ring_bonds _ _ _ _ _ _) as [m'|] eqn:Er; cbn [bind] in E; [|discriminate]. inversion E; subst. cbn [p_mol].
      exact (make_ring_p _ _ _ _ _ _ _ Hd Er).
    + destruct (atom_index prev) as [src|]; cbn [bind] in E; [|discriminate].
      destruct (mg_add_placeholder_bond _ _) as [[m' lpos]|] eqn:Epl; cbn [bind] in E; [|discriminate]. inversion E; subst. cbn [p_mol].
      rewrite (placeholder_ds _ _ _ _ Epl). exact Hd.
  - inversion E; subst. exact Hd.
Qed.

Lemma derive_loop_p : forall ts st st' rest, PInv st -> DSI (p_mol st) -> P (m_ds (p_mol st)) -> derive_loop ts st = Ok (st', rest) -> P (m_ds (p_mol st')).
Proof.
  induction ts as [|tok r IH]; intros st st' rest HP Hi Hd E; [cbn in E; inversion E; subst; exact Hd|].
  destruct (t_type tok) eqn:Ety.
  1-3: rewrite derive_loop_cons in E by congruence;
       destruct (derive_loop [tok] st) as [[st1 r1]|] eqn:E1; cbn [bind fst] in E; [|discriminate];
       apply (IH st1 st' rest); [exact (derive_loop_pinv _ _ _ _ HP E1)|exact (step_dsi _ _ _ _ HP Hi E1)|exact (step_p _ _ _ _ Hi Hd E1)|exact E].
  cbn [derive_loop] in E. destruct (p_prev st); [discriminate|]. rewrite Ety in E. inversion E; subst. exact Hd.
Qed.

Lemma fragments_p : forall fuel m ts i m', GI m -> DSI m -> P (m_ds m) -> fragments_loop fuel m ts i = Ok m' -> P (m_ds m').
Proof.
  induction fuel as [|f IH]; intros m ts i m' [He Hr] Hi Hd E; [discriminate|]. cbn [fragments_loop] in E.
  destruct ts as [|t r]; [inversion E; subst; exact Hd|].
  destruct (derive_mol_from_tokens m (t :: r) i) as [[[m1 i1] rest]|] eqn:Ed; cbn [bind] in E; [|discriminate].
  unfold derive_mol_from_tokens in Ed.
  destruct (derive_loop (t :: r) _) as [[st rest']|] eqn:El; cbn [bind] in Ed; [|discriminate].
  assert (HP : PInv {| p_mol := m; p_i := i; p_tok := None; p_prev := [None]; p_branch := []; p_rings := []; p_chain_start := true |}).
  { constructor; cbn [p_mol p_prev p_rings]; [exact He|exact Hr|constructor; [exact I|constructor]|constructor]. }
  pose proof (derive_loop_p _ _ _ _ HP Hi Hd El) as D1. pose proof (derive_loop_dsi _ _ _ _ HP Hi El) as I1. pose proof (derive_loop_pinv _ _ _ _ HP El) as [A B _ _].
  destruct (_ =? _); [discriminate|]. destruct (p_branch st); [|discriminate]. destruct (p_rings st); [|discriminate].
  inversion Ed; subst. exact (IH _ _ _ _ (conj A B) I1 D1 E).
Qed.

Theorem parsed_p smiles attributable m : P ds_empty -> smiles_to_mol smiles attributable = Ok m -> P (m_ds m).
Proof.
  intro H0. unfold smiles_to_mol. destruct smiles as [|c s]; [discriminate|].
  destruct (tokenize_smiles (c :: s)) as [ts|]; cbn [bind]; [|discriminate].
  apply fragments_p; [split; [intros j row e Hn; destruct j; discriminate|constructor]| |exact H0].
  split; [intros j row e Hn; destruct j; discriminate|]. intros k Hk. unfold ds_lookup in Hk. cbn in Hk. destruct k; contradiction.
Qed.
End DsChain.

(* ---------- the subgraph lists every pair on both sides, equally often; its keys are distinct ---------- *)
Definition dsl (D : dsub) (a : nat) : list nat := match ds_lookup D a with Some l => l | None => [] end.
Definition DSS (D : dsub) : Prop := forall a b, occ (dsl D a) b = occ (dsl D b) a.
Definition DSP (D : dsub) : Prop := K1 D /\ NoDup (ds_keys D) /\ DSS D.

Lemma dsl_store D k v j : dsl (ds_store D k v) j = if Nat.eqb j k then v else dsl D j.
Proof. unfold dsl. destruct (Nat.eqb_spec j k) as [->|Hne]; [now rewrite lookup_store_same|now rewrite lookup_store_other]. Qed.
Lemma append_is_store D k x : ds_append D k x = ds_store D k (dsl D k ++ [x]).
Proof. unfold ds_append, dsl. destruct (ds_lookup D k); reflexivity. Qed.
Lemma occ_snoc l x y : occ (l ++ [x]) y = occ l y + (if Nat.eqb x y then 1 else 0).
Proof. unfold occ. rewrite count_occ_app. cbn [count_occ]. destruct (Nat.eq_dec x y) as [->|H]; [now rewrite Nat.eqb_refl|]. destruct (Nat.eqb_spec x y); [contradiction|reflexivity]. Qed.

Lemma store_nodup D k v : K1 D -> NoDup (ds_keys D) -> NoDup (ds_keys (ds_store D k v)).
Proof.
  intros H1 Hn. unfold ds_store. cbn [ds_keys]. destruct (ds_lookup D k) eqn:E; [exact Hn|].
  apply NoDup_snoc; [exact Hn|]. intro Hx. exact (H1 k Hx E).
Qed.

Lemma dsp_fresh D k : DSP D -> ds_lookup D k = None -> DSP (ds_set_empty D k).
Proof.
  intros (H1 & Hn & Hs) Hf. unfold ds_set_empty. split; [apply store_k1; exact H1|]. split; [apply store_nodup; assumption|].
  intros a b. rewrite !dsl_store. assert (Ek : dsl D k = []) by (unfold dsl; now rewrite Hf).
  destruct (Nat.eqb_spec a k) as [->|Ha]; destruct (Nat.eqb_spec b k) as [->|Hb]; try reflexivity.
  - rewrite <- (Hs k b), Ek. reflexivity.
  - rewrite (Hs a k), Ek. reflexivity.
  - apply Hs.
Qed.

Lemma dsp_pair D a b : DSP D -> DSP (ds_append (ds_append D a b) b a).
Proof.
  intros (H1 & Hn & Hs). rewrite !append_is_store. split; [apply store_k1, store_k1; exact H1|]. split; [apply store_nodup; [apply store_k1; exact H1|apply store_nodup; assumption]|].
  intros x y. rewrite !dsl_store.
  assert (F : forall j, (if Nat.eqb j b then (if Nat.eqb b a then dsl D a ++ [b] else dsl D b) ++ [a] else if Nat.eqb j a then dsl D a ++ [b] else dsl D j) =
                    dsl D j ++ (if Nat.eqb j a then [b] else []) ++ (if Nat.eqb j b then [a] else [])).
  { intro j. destruct (Nat.eqb_spec j b) as [Ejb|Hjb]; destruct (Nat.eqb_spec j a) as [Eja|Hja].
    - subst j. subst b. rewrite Nat.eqb_refl. now rewrite <- app_assoc.
    - subst j. destruct (Nat.eqb_spec b a); [congruence|]. reflexivity.
    - subst j. cbn [app]. reflexivity.
    - cbn [app]. now rewrite app_nil_r. }
  rewrite !F. unfold occ. rewrite !count_occ_app. fold (occ (dsl D x) y). fold (occ (dsl D y) x). rewrite (Hs x y).
  destruct (Nat.eqb_spec x a) as [Exa|Hxa]; destruct (Nat.eqb_spec x b) as [Exb|Hxb]; destruct (Nat.eqb_spec y a) as [Eya|Hya]; destruct (Nat.eqb_spec y b) as [Eyb|Hyb];
    cbn [count_occ app]; repeat (match goal with |- context [Nat.eq_dec ?p ?q] => destruct (Nat.eq_dec p q) end); lia.
Qed.

Theorem parsed_dsp smiles attributable m : smiles_to_mol smiles attributable = Ok m -> DSP (m_ds m).
Proof.
  apply (parsed_p DSP dsp_fresh dsp_pair). split; [intros k []|]. split; [constructor|]. intros a b. unfold dsl, ds_lookup. cbn. destruct a, b; reflexivity.
Qed.

(* ---------- labels ---------- *)
Fixpoint incr (l : list nat) : Prop := match l with [] => True | x :: r => (forall y, In y r -> x < y) /\ incr r end.

Lemma insert_incr x : forall l, incr l -> ~ In x l -> incr (insert_sorted x l).
Proof.
  induction l as [|y r IH]; intros Hi Hx; cbn [insert_sorted]; [split; [intros ? []|exact I]|]. destruct Hi as [Hy Hr].
  destruct (Nat.leb_spec x y) as [Le|Gt].
  - split; [|split; assumption]. intros z [<-|Hz]; [assert (x <> y) by (intros ->; apply Hx; now left); lia|specialize (Hy z Hz); lia].
  - split; [|apply IH; [exact Hr|intro H; apply Hx; now right]]. intros z Hz. apply insert_sorted_in in Hz as [->|Hz]; [exact Gt|exact (Hy z Hz)].
Qed.
Lemma sort_incr : forall l, NoDup l -> incr (sort_nat l).
Proof.
  induction l as [|x r IH]; intro Hn; cbn [sort_nat fold_right]; [exact I|]. inversion Hn; subst. apply insert_incr; [apply IH; assumption|].
  intro H. apply sort_nat_in in H. contradiction.
Qed.

Lemma label_complete : forall n v0 label sorted, incr sorted -> (forall x, In x sorted -> v0 <= x < v0 + n) ->
  forall k x, nth_error sorted k = Some x -> nth_error (label_table n v0 label sorted) (x - v0) = Some (Some (label + k)).
Proof.
  induction n as [|n IH]; intros v0 label sorted Hi Hr k x Hk.
  - exfalso. specialize (Hr x (nth_error_In _ _ Hk)). lia.
  - cbn [label_table]. destruct sorted as [|y r]; [destruct k; discriminate|]. destruct Hi as [Hy Hir].
    destruct (Nat.eqb_spec y v0) as [->|Hne].
    + destruct k as [|k]; cbn in Hk.
      * inversion Hk; subst. rewrite Nat.sub_diag. cbn. f_equal. f_equal. lia.
      * pose proof (Hy x (nth_error_In _ _ Hk)) as Hlt. replace (x - v0) with (S (x - S v0)) by lia. cbn [nth_error].
        rewrite (IH (S v0) (S label) r Hir ltac:(intros z Hz; pose proof (Hy z Hz); pose proof (Hr z (or_intror Hz)); lia) k x Hk). f_equal. f_equal. lia.
    + assert (Hgt : v0 < y) by (pose proof (Hr y (or_introl eq_refl)); lia).
      assert (Hx : v0 < x) by (destruct k; cbn in Hk; [inversion Hk; subst; exact Hgt|pose proof (Hy x (nth_error_In _ _ Hk)); lia]).
      replace (x - v0) with (S (x - S v0)) by lia. cbn [nth_error].
      apply (IH (S v0) label (y :: r)); [split; assumption| |exact Hk].
      intros z [<-|Hz]; [pose proof (Hr y (or_introl eq_refl)); lia|pose proof (Hy z Hz); pose proof (Hr z (or_intror Hz)); lia].
Qed.

Lemma kept_spec m : forall keys kept, kept_nodes_of m keys = Ok kept -> incl kept keys /\ (NoDup keys -> NoDup kept).
Proof.
  induction keys as [|k r IH]; intros kept E; cbn [kept_nodes_of] in E; [inversion E; subst; split; [intros x []|auto]|].
  destruct (prune_from_ds m k) as [p|]; cbn [bind] in E; [|discriminate]. destruct (kept_nodes_of m r) as [rest|] eqn:Er; cbn [bind] in E; [|discriminate].
  destruct (IH rest eq_refl) as [Hi Hn]. inversion E; subst kept. destruct p.
  - split; [intros x Hx; right; exact (Hi x Hx)|intro H; inversion H; subst; auto].
  - split; [intros x [<-|Hx]; [now left|right; exact (Hi x Hx)]|]. intro H; inversion H; subst. constructor; [intro Hin; apply H2; exact (Hi k Hin)|auto].
Qed.

Lemma occ_relabel labels v nv : (forall a, nth_error labels a = Some (Some v) <-> a = nv) -> forall l, occ (relabel labels l) v = occ l nv.
Proof.
  intros Hiff. induction l as [|a r IH]; [reflexivity|]. unfold occ in *. cbn [relabel count_occ].
  destruct (nth_error labels a) as [[l'|]|] eqn:E.
  - cbn [count_occ]. destruct (Nat.eq_dec l' v) as [->|Hl]; destruct (Nat.eq_dec a nv) as [->|Ha]; try (rewrite IH; reflexivity).
    + exfalso. apply Ha. now apply Hiff.
    + exfalso. apply Hl. assert (X : nth_error labels nv = Some (Some v)) by now apply Hiff. congruence.
  - destruct (Nat.eq_dec a nv) as [->|Ha]; [|exact IH]. exfalso. assert (X : nth_error labels nv = Some (Some v)) by now apply Hiff. congruence.
  - destruct (Nat.eq_dec a nv) as [->|Ha]; [|exact IH]. exfalso. assert (X : nth_error labels nv = Some (Some v)) by now apply Hiff. congruence.
Qed.

(* ---------- the pruned graph ---------- *)
Lemma pruned_graph_ok m kept g : KPre m -> DSP (m_ds m) -> NoSelf m ->
  kept_nodes_of m (ds_keys (m_ds m)) = Ok kept -> pruned_ds_of m (label_table (mg_len m) 0 0 (sort_nat kept)) (sort_nat kept) = Ok g ->
  (forall i li j, nth_error g i = Some li -> In j li -> j < length g) /\
  (forall i li, nth_error g i = Some li -> ~ In i li) /\
  (forall u v lu lv, nth_error g u = Some lu -> nth_error g v = Some lv -> occ lu v = occ lv u).
Proof.
  intros Hp (H1 & Hnd & Hss) Hns Ek Eg. set (sorted := sort_nat kept) in *. set (labels := label_table (mg_len m) 0 0 sorted) in *.
  destruct (kept_spec m _ _ Ek) as [Hincl Hkn]. specialize (Hkn Hnd).
  assert (Hinc : incr sorted) by (apply sort_incr; exact Hkn).
  assert (Hrng : forall x, In x sorted -> 0 <= x < 0 + mg_len m).
  { intros x Hx. split; [lia|]. cbn [plus]. apply (kp_keys _ Hp). apply H1. apply Hincl. exact (sort_nat_in _ _ Hx). }
  assert (Lab : forall k x, nth_error sorted k = Some x -> nth_error labels x = Some (Some k)).
  { intros k x Hk. pose proof (label_complete (mg_len m) 0 0 sorted Hinc Hrng k x Hk) as L. rewrite Nat.sub_0_r in L. exact L. }
  assert (Lab' : forall a l, nth_error labels a = Some (Some l) -> nth_error sorted l = Some a).
  { intros a l Hl. apply label_spec in Hl as (k & Hk & Hs). cbn [plus] in Hk, Hs. subst k. exact Hs. }
  destruct (pruned_spec _ _ _ _ Eg) as [Lg Pg]. fold sorted labels in Pg, Lg.
  split; [|split].
  - intros i li j Hn Hj. destruct (Pg i li Hn) as (node & adjs & Hs & Hl & ->). apply relabel_spec in Hj as (a & Ha & Hlab).
    rewrite Lg. apply nth_error_Some. rewrite (Lab' _ _ Hlab). discriminate.
  - intros i li Hn Hin. destruct (Pg i li Hn) as (node & adjs & Hs & Hl & ->). apply relabel_spec in Hin as (a & Ha & Hlab).
    pose proof (Lab' _ _ Hlab) as Hs'. rewrite Hs in Hs'. inversion Hs'; subst a.
    destruct (proj2 (kp_dsk _ Hp) node adjs node Hl Ha) as [r He]. rewrite Nat.min_id, Nat.max_id in He. exact (Hns node node r He eq_refl).
  - intros u v lu lv Hu Hv. destruct (Pg u lu Hu) as (nu & au & Su & Lu & ->). destruct (Pg v lv Hv) as (nv & av & Sv & Lv & ->).
    rewrite (occ_relabel labels v nv); [|intro a; split; [intro H; apply Lab' in H; congruence|intros ->; exact (Lab v nv Sv)]].
    rewrite (occ_relabel labels u nu); [|intro a; split; [intro H; apply Lab' in H; congruence|intros ->; exact (Lab u nu Su)]].
    pose proof (Hss nu nv) as X. unfold dsl in X. rewrite Lu, Lv in X. exact X.
Qed.

Theorem parsed_matching_raises_nothing smiles attributable m0 g e :
  smiles_to_mol smiles attributable = Ok m0 -> pruned_ds m0 = Ok g -> find_perfect_matching g = Err e -> fuel_only e.
Proof.
  intros Ep Eg Em. unfold pruned_ds in Eg. destruct (kept_nodes_of m0 (ds_keys (m_ds m0))) as [kept|] eqn:Ek; cbn [bind] in Eg; [|discriminate].
  assert (Hns : NoSelf m0).
  { destruct (parsed_gue _ _ _ Ep) as (_ & _ & _ & _ & Hrow & _). destruct (parsed_gi _ _ _ Ep) as [Hi _].
    intros j d r (row & e0 & Hn & Hin & Hd & _). subst d. destruct (Hi j row e0 Hn Hin) as [_ Hne]. rewrite (proj1 (Hrow _ _ _ Hn Hin)) in Hne. congruence. }
  destruct (pruned_graph_ok m0 kept g (parsed_kpre _ _ _ Ep) (parsed_dsp _ _ _ Ep) Hns Ek Eg) as (GR & NSL & SYM).
  exact (matching_raises_nothing g e GR NSL SYM Em).
Qed.
